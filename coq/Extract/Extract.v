(* Extraction of the executable model for the correspondence drivers.  ExtrOcamlBasic only (bool, option,
   unit, list, prod, sumbool, sumor mapped to OCaml's; andb/orb/negb/fst/snd inlined); nat, Z, positive,
   string, Flocq floats stay extracted datatypes; no Extract Constant of our own. *)
From Coq Require Import ExtrOcamlBasic.
From Coq Require Import List ZArith String.
From CF Require Import Base.Mem Model.Tables Model.TableSem Model.Prim Model.SimdApi Model.Kernels Model.Sym
     Model.Regs Model.Exports Model.Safe Model.Spec.
From CF Require Import Gen.GenExports Gen.GenSafe Gen.GenMacros Gen.GenDispatch.
(* the export table without its (long) identifier strings: row i of GenExports.exports *)
Definition export_keys : list (ty * reg * kernel) :=
  Eval vm_compute in map (fun e => (e_ty e, e_reg e, e_op e)) exports.
Definition run_key_int (k : ty * reg * kernel) :=
  let '(t, r, op) := k in
  run_export_int {| e_macro := EmptyString; e_module := EmptyString; e_modcfg := EmptyString; e_ty := t;
                    e_reg := r; e_op := op; e_xconst := EmptyString; e_xany := EmptyString; e_feats := nil |}.
Definition run_key_f32 (k : ty * reg * kernel) :=
  let '(t, r, op) := k in
  run_export_f32 {| e_macro := EmptyString; e_module := EmptyString; e_modcfg := EmptyString; e_ty := t;
                    e_reg := r; e_op := op; e_xconst := EmptyString; e_xany := EmptyString; e_feats := nil |}.
Definition run_key_f64 (k : ty * reg * kernel) :=
  let '(t, r, op) := k in
  run_export_f64 {| e_macro := EmptyString; e_module := EmptyString; e_modcfg := EmptyString; e_ty := t;
                    e_reg := r; e_op := op; e_xconst := EmptyString; e_xany := EmptyString; e_feats := nil |}.
(* per safe entry i of GenSafe.safe_entries: its two cores (Const, Any), names resolved inside Coq *)
Definition safe_cores : list (option safe_core * option safe_core) :=
  Eval vm_compute in map (fun s => (core_of exports safe_macros s Const, core_of exports safe_macros s Any))
                         safe_entries.
Definition the_chain : list chain_entry := Eval vm_compute in dispatch_chain.
Definition run_safe_int := run_safe_core the_chain run_export_int.
Definition run_safe_f32 := run_safe_core the_chain run_export_f32.
Definition run_safe_f64 := run_safe_core the_chain run_export_f64.
Definition spec_f32 := @spec_float 24 128 _ _.
Definition spec_f64 := @spec_float 53 1024 _ _.
Extraction Language OCaml.
Cd "../.build/ocaml".
Extraction "model.ml" sym_run all_kernels export_keys run_key_int run_key_f32 run_key_f64
           safe_cores run_safe_int run_safe_f32 run_safe_f64 select_chain select_spec the_chain
           spec_int spec_f32 spec_f64
           filled_dense zeroed_dense sum_to_register max_to_register min_to_register
           f32_of_bits f64_of_bits bits_of_f32 bits_of_f64 int_ops f32_ops f64_ops int_math float_math
           width int_signed.
Cd "../../coq".
