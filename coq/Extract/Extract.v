(* Extraction of the executable model for the correspondence drivers.  ExtrOcamlBasic only (bool, option,
   unit, list, prod, sumbool, sumor mapped to OCaml's; andb/orb/negb/fst/snd inlined); nat, Z, positive,
   string, Flocq floats stay extracted datatypes; no Extract Constant of our own. *)
From Coq Require Import ExtrOcamlBasic.
From Coq Require Import List ZArith.
From CF Require Import Base.Mem Model.Tables Model.SimdApi Model.Kernels Model.Sym.
Extraction Language OCaml.
Cd "../.build/ocaml".
Extraction "model.ml" sym_run all_kernels.
Cd "../../coq".
