(* C06 - the cosine kernel this property speaks about is the TRANSLATED source.

   Gen/GenKernels.v is regenerated on every run by tools/translate_kernels.py from cfavml/src/danger/op_*.rs.  The
   generated generic_cosine (its own three loops accumulating the two squared norms, then the call of
   generic_dot_product, then the helper op_cosine::cosine with its zero-norm branches and the fallible division) runs
   on every memory exactly as the hand-written model Model/Kernels.v that Props/C06.v is about; the helper as
   translated is the lifted hand definition (same two tests, same three branches).  The hand model is not written
   flat, so the equality is pointwise in the memory (associativity of bind; no extensionality axiom).
   Trusted: the translator's construct-by-construct mapping (DESIGN 8.5). *)
From Coq Require Import List Arith Bool String.
From CF Require Import Base.Mem Model.Tables Model.SimdApi Model.Kernels.
From CF Require Import Gen.GenKernels.
From CF Require Import Proofs.GenKernelsReduce Proofs.GenKernelsCosine.

Theorem C06_kernels_are_translated_source :
  forall (T : Type) (R : SimdOps T) (Mth : MathOps T),
    (forall dims m, gen_generic_cosine R Mth dims m = generic_cosine R Mth dims m)
    /\ (forall dims, gen_generic_dot_product R Mth dims = generic_dot_product R Mth dims)
    /\ (forall dot nx ny, gen_cosine Mth dot nx ny = lift_opt (cosine Mth dot nx ny)).
Proof.
  intros T R Mth. split; [|split].
  - exact (gen_cosine_is_model R Mth).
  - exact (gen_dot_product_is_model R Mth).
  - exact (gen_cosine_helper_is_model Mth).
Qed.
