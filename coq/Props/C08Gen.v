(* C08 - every kernel this property speaks about (all 19) is the TRANSLATED source: on every memory the kernels
   generated from cfavml/src/danger/op_*.rs (Gen/GenKernels.v, regenerated on every run) run exactly as the
   hand-written model Model/Kernels.v that Props/C08.v is about.  Trusted: the translator's mapping (DESIGN 8.5). *)
From Coq Require Import List Arith Bool String.
From CF Require Import Base.Mem Model.Tables Model.SimdApi Model.Kernels.
From CF Require Import Gen.GenKernels.
From CF Require Import Proofs.GenKernelsProofs.

Theorem C08_kernels_are_translated_source :
  forall (T : Type) (R : SimdOps T) (Mth : MathOps T) (k : kernel) (dims : nat) (value : T) (m : mem T),
    gen_run_kernel R Mth k dims value m = run_kernel R Mth k dims value m.
Proof. exact (@gen_kernels_are_model). Qed.
