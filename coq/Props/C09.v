(* C09 — runtime dispatch picks the best available back end and never an unavailable one.
   `dispatch_chain`, `dispatch_pattern`, `pred_defs` are regenerated from dispatch.rs, `safe_entries`,
   `safe_macros` from safe_*.rs, `exports` from danger/export_*.rs, on every run. *)
From Coq Require Import String List Bool.
From CF Require Import Model.Tables Model.TableSem Proofs.TableProofs Proofs.FactsDispatch Proofs.FactsSafeSlots.
From CF Require Import Gen.GenExports Gen.GenSafe Gen.GenMacros Gen.GenDispatch.
From CF Require Import Model.Features Model.DispatchSpec Proofs.FeatureLemmas Proofs.DispatchPreds.
From CF Require Import Base.Mem Model.Prim Model.SimdApi Model.Kernels Model.Regs Model.Exports Model.Safe Proofs.SafeSem.
Import ListNotations.

(* The macro's early-return chain selects, for EVERY build configuration, every combination of predicate
   outcomes (also ones no CPU has) and every set of supplied optional slots, the first slot of the
   documented priority order that was supplied, is compiled in and whose guard holds; exactly one. *)
Theorem C09_chain :
  forall bc p s, select_chain dispatch_chain bc p s = select_spec bc p s.
Proof. exact chain_selects_spec. Qed.

Theorem C09_always_selects : forall bc p s, select_chain dispatch_chain bc p s <> None.
Proof. intros bc p s. rewrite chain_selects_spec. apply select_never_none. Qed.

(* Each link invokes its own slot's routine on its own slot's argument list; the pattern lists the slots
   in priority order, fallback mandatory; the documented order is the specified one. *)
Theorem C09_wiring : chain_wiring_ok dispatch_pattern dispatch_chain = true.
Proof. exact chain_wiring. Qed.
Theorem C09_documented_order : doc_priority_ok doc_priority_x86 doc_priority_arm = true.
Proof. exact doc_priority. Qed.

(* Every safe routine (190 invocations x 2 forms) hands the dispatcher, in each slot it supplies, the
   export of the same element type and operation on the back end the slot stands for (integers have no
   fused routine: their AVX2+FMA slot carries the AVX2 one), always supplies the fallback, and is itself
   named <ty>_x<form>_<op> for that operation. *)
Theorem C09_slots :
  forall s, In s safe_entries ->
  exists m k,
    find_safe_macro safe_macros (s_macro s) = Some m /\ safe_kernel s = Some k /\
    forall f, s_name f s = safe_name_spec f (s_ty s) k /\
      exists sf, safe_fn_of m f = Some sf /\
        (exists d, In d (sf_dispatch sf) /\ ds_slot d = SFallback) /\
        forall d, In d (sf_dispatch sf) ->
          exists n e, lookup_positional (sm_positional m) (s_slots s) (ds_fnvar d) = Some n
                      /\ find_export exports f n = Some e
                      /\ e_ty e = s_ty s /\ e_op e = k
                      /\ e_reg e = allowed_backend (ds_slot d) (s_ty s).
Proof. exact C09_slots_proof. Qed.

(* C09_result: in the semantics of the generated tables (Model/Safe.run_safe), a safe call that passes the wrapper's
   assert list returns EXACTLY the outcome of the export sitting in the slot the chain selected - the routine of the
   same element type and operation on that slot's back end ([allowed_backend x ty]: Avx512, Avx2Fma for floats / Avx2
   for integers, Avx2, Neon, Fallback) - for any element type and any semantics [rx] of exports, every build
   configuration and arbitrary predicate outcomes.  Hence exactly one candidate is invoked and every per-export theorem
   (C02/C03/C04/C05/C06) transfers to the safe API. *)
Theorem C09_result :
  forall (T : Type) (rx : export -> form -> bool -> nat -> T -> list T -> list T -> list T -> xoutcome T)
         s f bc p debug m sf k x,
    In s safe_entries -> find_safe_macro safe_macros (s_macro s) = Some m -> safe_fn_of m f = Some sf ->
    safe_kernel s = Some k -> select_chain dispatch_chain bc p (supplied_of sf) = Some x ->
    forall DIMS v a b res,
      let l := {| len_a := List.length a; len_b := List.length b; len_r := List.length res; len_dims := DIMS |} in
      asserts_pass l (sf_asserts sf) = true ->
      (debug = true -> asserts_pass l (sf_debug_asserts sf) = true) ->
      run_safe dispatch_chain rx exports safe_macros s f bc p debug DIMS v a b res
      = rx (key_export (s_ty s, allowed_backend x (s_ty s), k)) f debug DIMS v a b res.
Proof. exact @safe_run_is_export_run. Qed.

(* ... and, unfolding the export: an accepted safe call IS the kernel run on the register model of the selected slot's
   back end with dims = len a - for all 19 kernels, integers and both float types - so every kernel-level theorem
   (C02-C08) transfers to the safe API under every dispatch outcome. *)
Theorem C09_safe_is_kernel_run_int :
  forall s f bc p debug m sf k x,
    In s safe_entries -> find_safe_macro safe_macros (s_macro s) = Some m -> safe_fn_of m f = Some sf ->
    safe_kernel s = Some k -> select_chain dispatch_chain bc p (supplied_of sf) = Some x -> x <> SNeon ->
    forall DIMS v a b res,
      is_float (s_ty s) = false ->
      let l := {| len_a := List.length a; len_b := List.length b; len_r := List.length res; len_dims := DIMS |} in
      asserts_pass l (sf_asserts sf) = true ->
      (debug = true -> asserts_pass l (sf_debug_asserts sf) = true) ->
      exists R, int_ops (allowed_backend x (s_ty s)) (s_ty s) = Some R /\
        run_safe dispatch_chain run_export_int exports safe_macros s f bc p debug DIMS v a b res
        = xo (run_kernel R (int_math (is_signed (s_ty s)) (width (s_ty s))) k (List.length a) v (init_mem a b res)).
Proof. exact safe_int_is_kernel_run. Qed.

Theorem C09_safe_is_kernel_run_f32 :
  forall s f bc p debug m sf k x,
    In s safe_entries -> find_safe_macro safe_macros (s_macro s) = Some m -> safe_fn_of m f = Some sf ->
    safe_kernel s = Some k -> select_chain dispatch_chain bc p (supplied_of sf) = Some x -> x <> SNeon ->
    forall DIMS v a b res,
      s_ty s = F32 ->
      let l := {| len_a := List.length a; len_b := List.length b; len_r := List.length res; len_dims := DIMS |} in
      asserts_pass l (sf_asserts sf) = true ->
      (debug = true -> asserts_pass l (sf_debug_asserts sf) = true) ->
      exists R, f32_ops (allowed_backend x F32) = Some R /\
        run_safe dispatch_chain run_export_f32 exports safe_macros s f bc p debug DIMS v a b res
        = xo (run_kernel R float_math k (List.length a) v (init_mem a b res)).
Proof. exact safe_f32_is_kernel_run. Qed.

Theorem C09_safe_is_kernel_run_f64 :
  forall s f bc p debug m sf k x,
    In s safe_entries -> find_safe_macro safe_macros (s_macro s) = Some m -> safe_fn_of m f = Some sf ->
    safe_kernel s = Some k -> select_chain dispatch_chain bc p (supplied_of sf) = Some x -> x <> SNeon ->
    forall DIMS v a b res,
      s_ty s = F64 ->
      let l := {| len_a := List.length a; len_b := List.length b; len_r := List.length res; len_dims := DIMS |} in
      asserts_pass l (sf_asserts sf) = true ->
      (debug = true -> asserts_pass l (sf_debug_asserts sf) = true) ->
      exists R, f64_ops (allowed_backend x F64) = Some R /\
        run_safe dispatch_chain run_export_f64 exports safe_macros s f bc p debug DIMS v a b res
        = xo (run_kernel R float_math k (List.length a) v (init_mem a b res)).
Proof. exact safe_f64_is_kernel_run. Qed.

(** ** Availability: what the predicates of the chain really test (bodies regenerated from dispatch.rs)

   A machine is a feature oracle [avail] closed under the feature implications that contains the target's
   baseline and every compile-time target feature of the build ([machine_ok]).  [pred_features] /
   [slot_features] (Model/DispatchSpec.v) are the specification: the CPU features an is_*_available predicate
   stands for, the features the back end behind a slot requires. *)

(* A predicate answers true ONLY IF everything it stands for is available: in every build configuration
   (architecture, nightly, std, any compile-time target features), on every machine. *)
Theorem C09_predicates_sound :
  forall bc avail, machine_ok bc avail ->
  forall x, eval_pred pred_defs bc avail x = true -> pred_holds avail x = true.
Proof. exact predicates_sound. Qed.

(* ... and, in a std build (run-time detection), WHENEVER it is. *)
Theorem C09_predicates_complete :
  forall bc avail, machine_ok bc avail -> bc_std bc = true ->
  forall x, pred_compiled bc x = true -> pred_holds avail x = true -> eval_pred pred_defs bc avail x = true.
Proof. exact predicates_complete. Qed.

(* Never an unavailable back end: whatever the macro's chain selects has all its required features. *)
Theorem C09_never_unavailable :
  forall bc avail sup x, machine_ok bc avail ->
    select_chain dispatch_chain bc (eval_pouts pred_defs bc avail) sup = Some x ->
    slot_available avail x = true.
Proof. exact never_unavailable. Qed.

(* The best available one (std builds): every slot of higher documented priority that the call site supplied
   and the build compiled in lacks a required feature on this machine. *)
Theorem C09_best_available :
  forall bc avail sup x, machine_ok bc avail -> bc_std bc = true ->
    select_chain dispatch_chain bc (eval_pouts pred_defs bc avail) sup = Some x ->
    forall y, slot_rank y < slot_rank x -> is_supplied sup y = true -> compiled bc y = true ->
      slot_available avail y = false.
Proof. exact best_available. Qed.

(* Non-vacuity: a std build on the closed machine generated by AVX2 alone (no FMA) satisfies the hypotheses;
   the chain selects AVX2, AVX2+FMA being unavailable; a no-std build declaring only +avx2 likewise. *)
Example C09_availability_nonvacuous :
  let av := closure ["avx2"%string; "sse"%string; "sse2"%string] in
  let bc := {| bc_arch := X86_64; bc_nightly := true; bc_std := true; bc_tf := [] |} in
  let bc0 := {| bc_arch := X86_64; bc_nightly := false; bc_std := false; bc_tf := av |} in
  let sup := {| s_avx512 := true; s_avx2fma := true; s_avx2 := true; s_neon := true |} in
  closedb av = true /\ fsubset (baseline_of X86_64) av = true
  /\ select_chain dispatch_chain bc (eval_pouts pred_defs bc (fun f => mem_string f av)) sup = Some SAvx2
  /\ slot_available (fun f => mem_string f av) SAvx2Fma = false
  /\ select_chain dispatch_chain bc0 (eval_pouts pred_defs bc0 (fun f => mem_string f av)) sup = Some SAvx2
  /\ eval_pouts pred_defs bc0 (fun _ => false) = spec_pouts_nostd bc0.
Proof. vm_compute. repeat split; reflexivity. Qed.

Example C09_nonvacuous :
  length safe_entries = 190 /\ length dispatch_chain = 5 /\
  select_spec {| bc_arch := X86_64; bc_nightly := false; bc_std := true; bc_tf := [] |}
              {| o_avx512 := true; o_avx2 := true; o_fma := false; o_neon := false |}
              {| s_avx512 := true; s_avx2fma := true; s_avx2 := true; s_neon := true |} = Some SAvx2.
Proof. vm_compute. repeat split; reflexivity. Qed.
