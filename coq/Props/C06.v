(* C06 — cosine distance: zero-vector cases, integer formula, exact symmetry, accuracy and range.

   The model is Model/Kernels.v's mirror of danger/op_cosine.rs ([cosine], [generic_cosine]: one loop over a PAIR of
   accumulators for the two squared norms, then the dot-product kernel, then the scalar formula), over the register
   models [int_ops r t], [f32_ops r], [f64_ops r] of Model/Regs.v — Fallback, Avx2, Avx2Fma, Avx512.  [spec_int ..
   KCosine] (Model/Spec.v) is the executable specification: extracted to OCaml it is the oracle checks/c06.py applies
   to the REAL implementation's output, must-panic case included.

   The proofs rest on one decomposition, generic in the element type and the back end (Proofs/KernelValue.v):
     generic_cosine a b = cosine (value of generic_dot_product a b) (value of generic_squared_norm a) (.. of b). *)
From Coq Require Import ZArith List Bool.
From Flocq Require Import IEEE754.BinarySingleNaN.
From CF Require Import Base.Mem Model.Tables Model.Prim Model.SimdApi Model.Kernels Model.Regs Model.Spec.
From CF Require Import Proofs.KernelBounds Proofs.ReduceCorrect Proofs.SpecLink Proofs.FloatBackends
     Proofs.KernelValue Proofs.CosineInt Proofs.CosineFloat.
Import ListNotations.

(** (i) The three branches of op_cosine::cosine, for ANY element type and math layer: both squared norms compare
    equal to zero -> zero; exactly one -> one; neither -> one - dot / sqrt (nx * ny), and no result (the run
    panics) iff that division has none (integer division by zero). *)
Theorem C06_branches :
  forall (T : Type) (Mth : MathOps T) (dot nx ny : T),
    let isz x := m_cmp_eq Mth x (m_zero Mth) in
    (isz nx = true -> isz ny = true -> cosine Mth dot nx ny = Some (m_zero Mth))
    /\ (isz nx <> isz ny -> cosine Mth dot nx ny = Some (m_one Mth))
    /\ (isz nx = false -> isz ny = false ->
        cosine Mth dot nx ny
        = match m_div Mth dot (m_sqrt Mth (m_mul Mth nx ny)) with
          | Some q => Some (m_sub Mth (m_one Mth) q)
          | None => None
          end).
Proof. exact @cosine_branches. Qed.

Theorem C06_panics_iff_division_fails :
  forall (T : Type) (Mth : MathOps T) (dot nx ny : T),
    cosine Mth dot nx ny = None <->
    (m_cmp_eq Mth nx (m_zero Mth) = false /\ m_cmp_eq Mth ny (m_zero Mth) = false
     /\ m_div Mth dot (m_sqrt Mth (m_mul Mth nx ny)) = None).
Proof. exact @cosine_none_iff. Qed.

(** The decomposition: for ANY element type, math layer and register geometry with at least one lane, all lengths:
    the cosine kernel stays in bounds and returns (or panics, when there is no value) the scalar formula applied to
    EXACTLY the values the dot-product and squared-norm kernels return on the same slices. *)
Theorem C06_decomposition :
  forall (T : Type) (R : SimdOps T) (Mth : MathOps T) (a b res : list T) (dims : nat),
    1 <= lanes R -> length a = dims -> length b = dims ->
    match generic_dot_product R Mth dims (init_mem a b res),
          generic_squared_norm R Mth dims (init_mem a b res),
          generic_squared_norm R Mth dims (init_mem b a res) with
    | Ok d _, Ok nx _, Ok ny _ =>
        match generic_cosine R Mth dims (init_mem a b res) with
        | Ok r m => run_ok (init_mem a b res) m /\ cosine Mth d nx ny = Some r
        | Panic m => run_ok (init_mem a b res) m /\ cosine Mth d nx ny = None
        | _ => False
        end
    | _, _, _ => False
    end.
Proof. exact @cosine_decomposition. Qed.

(** (ii) Integers: all 8 types x {Fallback, Avx2, Avx512}, EVERY length and all operand values (bit patterns in
    [0, 2^w)): the run meets the executable specification — it returns the bit pattern of the formula evaluated in
    wrapping arithmetic over dot = sum a_j b_j, nx = sum a_j^2, ny = sum b_j^2 (the exact integer sums of the signed /
    unsigned readings, reduced modulo 2^w) with the truncated square root through f64, and it panics iff the
    specification says "must panic". *)
Theorem C06_int :
  forall r t R a b res v dims,
    int_ops r t = Some R ->
    length a = dims -> length b = dims ->
    Forall (in_range (width t)) a -> Forall (in_range (width t)) b ->
    meets (init_mem a b res)
          (run_kernel R (int_math (is_signed t) (width t)) KCosine dims v (init_mem a b res))
          (spec_int (is_signed t) (width t) KCosine v a b).
Proof. exact int_cosine_meets_spec. Qed.

(* What that specification says, spelled out (so that the statement above cannot hide in a definition). *)
Theorem C06_int_spec_reads :
  forall sg w v a b,
    let Vv := ival sg w in
    let dot := wrap w (fold_right Z.add 0%Z (map2 (fun x y => (Vv x * Vv y)%Z) a b)) in
    let nx := wrap w (fold_right Z.add 0%Z (map (fun x => (Vv x * Vv x)%Z) a)) in
    let ny := wrap w (fold_right Z.add 0%Z (map (fun x => (Vv x * Vv x)%Z) b)) in
    spec_int sg w KCosine v a b
    = if ((nx =? 0) && (ny =? 0))%Z then SVal 0%Z
      else if ((nx =? 0) || (ny =? 0))%Z then SVal 1%Z
      else let s := i_sqrt sg w (wrap w (nx * ny)) in
           if (s =? 0)%Z then SPanic
           else SVal (wrap w (1 - (if sg then wrap w (Z.quot (sgn w dot) (sgn w s)) else dot / s)%Z)).
Proof. exact cosine_spec_reads. Qed.

(* ... and it demands a panic exactly when neither zero branch is taken and that integer square root is 0. *)
Theorem C06_int_panic_iff :
  forall sg w v a b,
    let Vv := ival sg w in
    let nx := wrap w (fold_right Z.add 0%Z (map (fun x => (Vv x * Vv x)%Z) a)) in
    let ny := wrap w (fold_right Z.add 0%Z (map (fun x => (Vv x * Vv x)%Z) b)) in
    spec_int sg w KCosine v a b = SPanic <-> (nx <> 0 /\ ny <> 0 /\ i_sqrt sg w (wrap w (nx * ny)) = 0)%Z.
Proof. exact cosine_spec_panic_iff. Qed.

(* Any two modelled back ends return the same outcome: both panic, or both return the same bit pattern. *)
Theorem C06_int_backend_independent :
  forall r1 r2 t R1 R2 a b res v dims,
    int_ops r1 t = Some R1 -> int_ops r2 t = Some R2 ->
    length a = dims -> length b = dims ->
    Forall (in_range (width t)) a -> Forall (in_range (width t)) b ->
    match run_kernel R1 (int_math (is_signed t) (width t)) KCosine dims v (init_mem a b res),
          run_kernel R2 (int_math (is_signed t) (width t)) KCosine dims v (init_mem a b res) with
    | Ok (RValue x) _, Ok (RValue y) _ => x = y
    | Panic _, Panic _ => True
    | _, _ => False
    end.
Proof. exact int_cosine_backend_independent. Qed.

(** (iii) Floats: exact symmetry.  For ANY back end whose lanes are the correctly rounded IEEE operations
    ([FloatLanewise]: fused or unfused fmadd, any lane max/min), every length and ALL inputs — NaN, infinities, signed
    zeros, subnormals included: cosine a b and cosine b a both return in bounds, and return the same [binary_float]
    value (BinarySingleNaN has one NaN: bit-identical up to the NaN payload). *)
Theorem C06_symmetric :
  forall prec emax (Hp : FLX.Prec_gt_0 prec) (He : Prec_lt_emax prec emax)
         (R : SimdOps (binary_float prec emax)) vmax vmin fused,
    FloatLanewise R vmax vmin fused ->
    forall dims a b res res', length a = dims -> length b = dims ->
      match generic_cosine R float_math dims (init_mem a b res),
            generic_cosine R float_math dims (init_mem b a res') with
      | Ok x m, Ok y m' => x = y /\ run_ok (init_mem a b res) m /\ run_ok (init_mem b a res') m'
      | _, _ => False
      end.
Proof. exact @cosine_symmetric_any. Qed.

(* ... in particular for every modelled float back end of the export tables. *)
Theorem C06_symmetric_f32 :
  forall r R a b res res' dims,
    f32_ops r = Some R -> length a = dims -> length b = dims ->
    match generic_cosine R float_math dims (init_mem a b res), generic_cosine R float_math dims (init_mem b a res') with
    | Ok x m, Ok y m' => x = y /\ run_ok (init_mem a b res) m /\ run_ok (init_mem b a res') m'
    | _, _ => False
    end.
Proof. exact f32_cosine_symmetric. Qed.

Theorem C06_symmetric_f64 :
  forall r R a b res res' dims,
    f64_ops r = Some R -> length a = dims -> length b = dims ->
    match generic_cosine R float_math dims (init_mem a b res), generic_cosine R float_math dims (init_mem b a res') with
    | Ok x m, Ok y m' => x = y /\ run_ok (init_mem a b res) m /\ run_ok (init_mem b a res') m'
    | _, _ => False
    end.
Proof. exact f64_cosine_symmetric. Qed.

Check C06_branches. Check C06_panics_iff_division_fails. Check C06_decomposition.
Check C06_int. Check C06_int_spec_reads. Check C06_int_panic_iff. Check C06_int_backend_independent.
Check C06_symmetric. Check C06_symmetric_f32. Check C06_symmetric_f64.

(* Non-vacuity: concrete runs of the AVX2 u8 model (32 lanes) reach all four outcomes.
   35 elements = one register step and a 3-element tail.
   - general branch, wrapping: a = b = [1;...]: nx = ny = dot = 35, nx * ny = 1225 = 201 mod 2^8, isqrt 201 = 14,
     1 - 35/14 = 1 - 2 = 255 mod 2^8 (identical vectors do NOT give 0 in wrapping arithmetic);
   - both norms zero although the vectors are not (16^2 = 256 = 0 mod 2^8): 0;
   - exactly one zero norm: 1;
   - must panic: nx = ny = 16 (16 ones), nx * ny = 256 wraps to 0, isqrt 0 = 0, division by zero. *)
Example C06_nonvacuous :
  let ones n := repeat 1%Z n in
  let run a b := match int_ops Avx2 U8 with
                 | Some R => run_kernel R (int_math false 8) KCosine 35 0%Z (init_mem a b [])
                 | None => OutOfFuel
                 end in
  match run (ones 35) (ones 35), run (repeat 16%Z 35) (repeat 16%Z 35),
        run (repeat 16%Z 35) (ones 35), run (ones 16 ++ repeat 0%Z 19) (ones 16 ++ repeat 0%Z 19) with
  | Ok (RValue x1) _, Ok (RValue x2) _, Ok (RValue x3) _, Panic _ => x1 = 255%Z /\ x2 = 0%Z /\ x3 = 1%Z
  | _, _, _, _ => False
  end
  /\ spec_int false 8 KCosine 0%Z (ones 16 ++ repeat 0%Z 19) (ones 16 ++ repeat 0%Z 19) = SPanic.
Proof. vm_compute. repeat split; reflexivity. Qed.
