(* C06 — cosine distance: zero-vector cases, integer formula, exact symmetry, accuracy and range.

   The model is Model/Kernels.v's mirror of danger/op_cosine.rs ([cosine], [generic_cosine]: one loop over a PAIR of
   accumulators for the two squared norms, then the dot-product kernel, then the scalar formula), over the register
   models [int_ops r t], [f32_ops r], [f64_ops r] of Model/Regs.v — Fallback, Avx2, Avx2Fma, Avx512.  [spec_int ..
   KCosine] (Model/Spec.v) is the executable specification: extracted to OCaml it is the oracle checks/c06.py applies
   to the REAL implementation's output, must-panic case included.

   The proofs rest on one decomposition, generic in the element type and the back end (Proofs/KernelValue.v):
     generic_cosine a b = cosine (value of generic_dot_product a b) (value of generic_squared_norm a) (.. of b)
   so that (ii) follows from C03 (the two integer reductions are exact modulo 2^w), (iii) from the commutativity of the
   IEEE product / fused multiply-add in their first two arguments, and (iv) from C04's a-priori bounds for the two float
   reductions, Cauchy-Schwarz on lists and one rounding each for the product, square root, quotient and difference. *)
From Coq Require Import ZArith Reals List Bool.
From Flocq Require Import Core IEEE754.BinarySingleNaN.
From CF Require Import Base.Mem Model.Tables Model.Prim Model.SimdApi Model.Kernels Model.Regs Model.Spec.
From CF Require Import Proofs.KernelBounds Proofs.ReduceCorrect Proofs.SpecLink Proofs.FloatBackends
     Proofs.BackendTable Proofs.RoundErr Proofs.KernelValue Proofs.CosineInt Proofs.CosineFloat Proofs.CosineAccuracy.
Import ListNotations.

(** (i) The three branches of op_cosine::cosine, for ANY element type and math layer: both squared norms compare
    equal to zero -> zero; exactly one -> one; neither -> one - dot / sqrt (nx * ny), and no result (the run
    panics) iff that division has none (integer division by zero). *)
Theorem C06_branches :
  forall (T : Type) (Mth : MathOps T) (dot nx ny : T),
    let isz x := m_cmp_eq Mth x (m_zero Mth) in
    (isz nx = true -> isz ny = true -> cosine Mth dot nx ny = Some (m_zero Mth))
    /\ (isz nx <> isz ny -> cosine Mth dot nx ny = Some (m_one Mth))
    /\ (isz nx = false -> isz ny = false ->
        cosine Mth dot nx ny
        = match m_div Mth dot (m_sqrt Mth (m_mul Mth nx ny)) with
          | Some q => Some (m_sub Mth (m_one Mth) q)
          | None => None
          end).
Proof. exact @cosine_branches. Qed.

Theorem C06_panics_iff_division_fails :
  forall (T : Type) (Mth : MathOps T) (dot nx ny : T),
    cosine Mth dot nx ny = None <->
    (m_cmp_eq Mth nx (m_zero Mth) = false /\ m_cmp_eq Mth ny (m_zero Mth) = false
     /\ m_div Mth dot (m_sqrt Mth (m_mul Mth nx ny)) = None).
Proof. exact @cosine_none_iff. Qed.

(** The decomposition: for ANY element type, math layer and register geometry with at least one lane, all lengths:
    the cosine kernel stays in bounds and returns (or panics, when there is no value) the scalar formula applied to
    EXACTLY the values the dot-product and squared-norm kernels return on the same slices. *)
Theorem C06_decomposition :
  forall (T : Type) (R : SimdOps T) (Mth : MathOps T) (a b res : list T) (dims : nat),
    1 <= lanes R -> length a = dims -> length b = dims ->
    match generic_dot_product R Mth dims (init_mem a b res),
          generic_squared_norm R Mth dims (init_mem a b res),
          generic_squared_norm R Mth dims (init_mem b a res) with
    | Ok d _, Ok nx _, Ok ny _ =>
        match generic_cosine R Mth dims (init_mem a b res) with
        | Ok r m => run_ok (init_mem a b res) m /\ cosine Mth d nx ny = Some r
        | Panic m => run_ok (init_mem a b res) m /\ cosine Mth d nx ny = None
        | _ => False
        end
    | _, _, _ => False
    end.
Proof. exact @cosine_decomposition. Qed.

(** (ii) Integers: all 8 types x {Fallback, Avx2, Avx512}, EVERY length and all operand values (bit patterns in
    [0, 2^w)): the run meets the executable specification — it returns the bit pattern of the formula evaluated in
    wrapping arithmetic over dot = sum a_j b_j, nx = sum a_j^2, ny = sum b_j^2 (the exact integer sums of the signed /
    unsigned readings, reduced modulo 2^w) with the truncated square root through f64, and it panics iff the
    specification says "must panic". *)
Theorem C06_int :
  forall r t R a b res v dims,
    int_ops r t = Some R ->
    length a = dims -> length b = dims ->
    Forall (in_range (width t)) a -> Forall (in_range (width t)) b ->
    meets (init_mem a b res)
          (run_kernel R (int_math (is_signed t) (width t)) KCosine dims v (init_mem a b res))
          (spec_int (is_signed t) (width t) KCosine v a b).
Proof. exact int_cosine_meets_spec. Qed.

(* What that specification says, spelled out (so that the statement above cannot hide in a definition). *)
Theorem C06_int_spec_reads :
  forall sg w v a b,
    let Vv := ival sg w in
    let dot := wrap w (fold_right Z.add 0%Z (map2 (fun x y => (Vv x * Vv y)%Z) a b)) in
    let nx := wrap w (fold_right Z.add 0%Z (map (fun x => (Vv x * Vv x)%Z) a)) in
    let ny := wrap w (fold_right Z.add 0%Z (map (fun x => (Vv x * Vv x)%Z) b)) in
    spec_int sg w KCosine v a b
    = if ((nx =? 0) && (ny =? 0))%Z then SVal 0%Z
      else if ((nx =? 0) || (ny =? 0))%Z then SVal 1%Z
      else let s := i_sqrt sg w (wrap w (nx * ny)) in
           if (s =? 0)%Z then SPanic
           else SVal (wrap w (1 - (if sg then wrap w (Z.quot (sgn w dot) (sgn w s)) else dot / s)%Z)).
Proof. exact cosine_spec_reads. Qed.

(* ... and it demands a panic exactly when neither zero branch is taken and that integer square root is 0. *)
Theorem C06_int_panic_iff :
  forall sg w v a b,
    let Vv := ival sg w in
    let nx := wrap w (fold_right Z.add 0%Z (map (fun x => (Vv x * Vv x)%Z) a)) in
    let ny := wrap w (fold_right Z.add 0%Z (map (fun x => (Vv x * Vv x)%Z) b)) in
    spec_int sg w KCosine v a b = SPanic <-> (nx <> 0 /\ ny <> 0 /\ i_sqrt sg w (wrap w (nx * ny)) = 0)%Z.
Proof. exact cosine_spec_panic_iff. Qed.

(* Any two modelled back ends return the same outcome: both panic, or both return the same bit pattern. *)
Theorem C06_int_backend_independent :
  forall r1 r2 t R1 R2 a b res v dims,
    int_ops r1 t = Some R1 -> int_ops r2 t = Some R2 ->
    length a = dims -> length b = dims ->
    Forall (in_range (width t)) a -> Forall (in_range (width t)) b ->
    match run_kernel R1 (int_math (is_signed t) (width t)) KCosine dims v (init_mem a b res),
          run_kernel R2 (int_math (is_signed t) (width t)) KCosine dims v (init_mem a b res) with
    | Ok (RValue x) _, Ok (RValue y) _ => x = y
    | Panic _, Panic _ => True
    | _, _ => False
    end.
Proof. exact int_cosine_backend_independent. Qed.

(** (iii) Floats: exact symmetry.  For ANY back end whose lanes are the correctly rounded IEEE operations
    ([FloatLanewise]: fused or unfused fmadd, any lane max/min), every length and ALL inputs — NaN, infinities, signed
    zeros, subnormals included: cosine a b and cosine b a both return in bounds, and return the same [binary_float]
    value (BinarySingleNaN has one NaN: bit-identical up to the NaN payload). *)
Theorem C06_symmetric :
  forall prec emax (Hp : FLX.Prec_gt_0 prec) (He : Prec_lt_emax prec emax)
         (R : SimdOps (binary_float prec emax)) vmax vmin fused,
    FloatLanewise R vmax vmin fused ->
    forall dims a b res res', length a = dims -> length b = dims ->
      match generic_cosine R float_math dims (init_mem a b res),
            generic_cosine R float_math dims (init_mem b a res') with
      | Ok x m, Ok y m' => x = y /\ run_ok (init_mem a b res) m /\ run_ok (init_mem b a res') m'
      | _, _ => False
      end.
Proof. exact @cosine_symmetric_any. Qed.

(* ... in particular for every modelled float back end of the export tables. *)
Theorem C06_symmetric_f32 :
  forall r R a b res res' dims,
    f32_ops r = Some R -> length a = dims -> length b = dims ->
    match generic_cosine R float_math dims (init_mem a b res), generic_cosine R float_math dims (init_mem b a res') with
    | Ok x m, Ok y m' => x = y /\ run_ok (init_mem a b res) m /\ run_ok (init_mem b a res') m'
    | _, _ => False
    end.
Proof. exact f32_cosine_symmetric. Qed.

Theorem C06_symmetric_f64 :
  forall r R a b res res' dims,
    f64_ops r = Some R -> length a = dims -> length b = dims ->
    match generic_cosine R float_math dims (init_mem a b res), generic_cosine R float_math dims (init_mem b a res') with
    | Ok x m, Ok y m' => x = y /\ run_ok (init_mem a b res) m /\ run_ok (init_mem b a res') m'
    | _, _ => False
    end.
Proof. exact f64_cosine_symmetric. Qed.

Local Open Scope R_scope.
(** (iv) Floats: accuracy, range, identical vectors.  u = 2^-prec; [nosub prec emin x]: x = 0 or |x| >= 2^(emin+prec-1)
    ("the product does not underflow"); NXr a = sum a_j^2, DOTr a b = sum a_j b_j — EXACT real sums ([C06_reads]).
    For ANY lane-wise faithful back end (fused or unfused), every length n, all FINITE inputs in the well-scaled domain
      (D1) no product a_j^2, b_j^2, a_j b_j in the subnormal range,
      (D2) 4 * 2^(emin+prec-1) <= |a|^2 |b|^2  (neither squared norm is zero, their product is in the normal range),
      (D3) |a|^2, |b|^2, |a|^2 |b|^2 <= 2^(emax-2)  (nothing overflows),
      (D4) (n+8) u <= 1/16:
    the run returns in bounds a finite r within 4(n+8)u of 1 - a.b / sqrt (|a|^2 |b|^2). *)
Theorem C06_reads :
  forall (prec emax : Z) (a b : list (binary_float prec emax)),
    NXr a = Rsum (map (fun x => B2R x * B2R x) a)
    /\ DOTr a b = Rsum (map2 (fun p q => B2R p * B2R q) a b)
    /\ (forall l : list R, Rsum l = fold_right Rplus 0 l)
    /\ u prec = bpow radix2 (- prec)
    /\ (forall emin x, nosub prec emin x <-> (x = 0 \/ bpow radix2 (emin + prec - 1) <= Rabs x)).
Proof. exact @accuracy_reads. Qed.

Theorem C06_accuracy :
  forall (prec emax : Z) (Hp : FLX.Prec_gt_0 prec) (He : Prec_lt_emax prec emax)
         (R : SimdOps (binary_float prec emax)) vmax vmin fused,
    FloatLanewise R vmax vmin fused ->
    forall (a b res : list (binary_float prec emax)) (dims : nat),
    length a = dims -> length b = dims ->
    Forall (fun x => is_finite x = true) a -> Forall (fun x => is_finite x = true) b ->
    Forall (fun x => nosub prec (SpecFloat.emin prec emax) (B2R x * B2R x)) a ->
    Forall (fun x => nosub prec (SpecFloat.emin prec emax) (B2R x * B2R x)) b ->
    Forall2 (fun x y => nosub prec (SpecFloat.emin prec emax) (B2R x * B2R y)) a b ->
    (INR (dims + 8) * u prec <= / 16)%R ->
    (4 * bpow radix2 (SpecFloat.emin prec emax + prec - 1) <= NXr a * NXr b)%R ->
    (NXr a <= bpow radix2 (emax - 2))%R -> (NXr b <= bpow radix2 (emax - 2))%R ->
    (NXr a * NXr b <= bpow radix2 (emax - 2))%R ->
    match generic_cosine R float_math dims (init_mem a b res) with
    | Ok r m => run_ok (init_mem a b res) m /\ is_finite r = true /\
                (Rabs (B2R r - (1 - DOTr a b / sqrt (NXr a * NXr b))) <= 4 * (INR (dims + 8) * u prec))%R
    | _ => False
    end.
Proof. exact @cosine_accuracy. Qed.

(* hence, by Cauchy-Schwarz on lists, the result is within that tolerance of [0, 2] *)
Theorem C06_range :
  forall (prec emax : Z) (Hp : FLX.Prec_gt_0 prec) (He : Prec_lt_emax prec emax)
         (R : SimdOps (binary_float prec emax)) vmax vmin fused,
    FloatLanewise R vmax vmin fused ->
    forall (a b res : list (binary_float prec emax)) (dims : nat),
    length a = dims -> length b = dims ->
    Forall (fun x => is_finite x = true) a -> Forall (fun x => is_finite x = true) b ->
    Forall (fun x => nosub prec (SpecFloat.emin prec emax) (B2R x * B2R x)) a ->
    Forall (fun x => nosub prec (SpecFloat.emin prec emax) (B2R x * B2R x)) b ->
    Forall2 (fun x y => nosub prec (SpecFloat.emin prec emax) (B2R x * B2R y)) a b ->
    (INR (dims + 8) * u prec <= / 16)%R ->
    (4 * bpow radix2 (SpecFloat.emin prec emax + prec - 1) <= NXr a * NXr b)%R ->
    (NXr a <= bpow radix2 (emax - 2))%R -> (NXr b <= bpow radix2 (emax - 2))%R ->
    (NXr a * NXr b <= bpow radix2 (emax - 2))%R ->
    match generic_cosine R float_math dims (init_mem a b res) with
    | Ok r m => (- (4 * (INR (dims + 8) * u prec)) <= B2R r <= 2 + 4 * (INR (dims + 8) * u prec))%R
    | _ => False
    end.
Proof. exact @cosine_range. Qed.

(* the Cauchy-Schwarz inequality used: |sum x_j y_j| <= sum |x_j y_j| and (sum |x_j y_j|)^2 <= sum x_j^2 * sum y_j^2 *)
Theorem C06_cauchy_schwarz :
  forall a b : list R,
    (Rabs (Rsum (map2 (fun x y => x * y) a b)) <= Rsum (map2 (fun x y => Rabs (x * y)) a b))%R
    /\ (Rsum (map2 (fun x y => Rabs (x * y)) a b) * Rsum (map2 (fun x y => Rabs (x * y)) a b)
        <= Rsum (map (fun x => x * x) a) * Rsum (map (fun x => x * x) b))%R.
Proof. exact (fun a b => conj (CosineReal.dot_le_abs a b) (proj2 (CosineReal.cauchy_schwarz_abs a b))). Qed.

(* and about 0 for identical vectors *)
Theorem C06_identical :
  forall (prec emax : Z) (Hp : FLX.Prec_gt_0 prec) (He : Prec_lt_emax prec emax)
         (R : SimdOps (binary_float prec emax)) vmax vmin fused,
    FloatLanewise R vmax vmin fused ->
    forall (a res : list (binary_float prec emax)) (dims : nat),
    length a = dims -> Forall (fun x => is_finite x = true) a ->
    Forall (fun x => nosub prec (SpecFloat.emin prec emax) (B2R x * B2R x)) a ->
    (INR (dims + 8) * u prec <= / 16)%R ->
    (4 * bpow radix2 (SpecFloat.emin prec emax + prec - 1) <= NXr a * NXr a)%R ->
    (NXr a <= bpow radix2 (emax - 2))%R -> (NXr a * NXr a <= bpow radix2 (emax - 2))%R ->
    match generic_cosine R float_math dims (init_mem a a res) with
    | Ok r m => (Rabs (B2R r) <= 4 * (INR (dims + 8) * u prec))%R
    | _ => False
    end.
Proof. exact @cosine_identical. Qed.

(* instances: every modelled f32 / f64 back end of the export tables (Fallback, Avx2, Avx2Fma, Avx512), with the
   format's numbers written out: u = 2^-24 / 2^-53, smallest normal 2^-126 / 2^-1022 *)
Theorem C06_accuracy_f32 :
  forall r (R : SimdOps f32) (a b res : list f32) (dims : nat),
    f32_ops r = Some R -> length a = dims -> length b = dims ->
    Forall (fun x => is_finite x = true) a -> Forall (fun x => is_finite x = true) b ->
    Forall (fun x => nosub 24 (-149) (B2R x * B2R x)) a ->
    Forall (fun x => nosub 24 (-149) (B2R x * B2R x)) b ->
    Forall2 (fun x y => nosub 24 (-149) (B2R x * B2R y)) a b ->
    (INR (dims + 8) * bpow radix2 (-24) <= / 16)%R ->
    (4 * bpow radix2 (-126) <= NXr a * NXr b)%R ->
    (NXr a <= bpow radix2 126)%R -> (NXr b <= bpow radix2 126)%R -> (NXr a * NXr b <= bpow radix2 126)%R ->
    match generic_cosine R float_math dims (init_mem a b res) with
    | Ok x m => run_ok (init_mem a b res) m /\ is_finite x = true /\
                (Rabs (B2R x - (1 - DOTr a b / sqrt (NXr a * NXr b))) <= 4 * (INR (dims + 8) * bpow radix2 (-24)))%R
                /\ (- (4 * (INR (dims + 8) * bpow radix2 (-24))) <= B2R x <= 2 + 4 * (INR (dims + 8) * bpow radix2 (-24)))%R
    | _ => False
    end.
Proof. exact f32_cosine_accuracy. Qed.

Theorem C06_accuracy_f64 :
  forall r (R : SimdOps f64) (a b res : list f64) (dims : nat),
    f64_ops r = Some R -> length a = dims -> length b = dims ->
    Forall (fun x => is_finite x = true) a -> Forall (fun x => is_finite x = true) b ->
    Forall (fun x => nosub 53 (-1074) (B2R x * B2R x)) a ->
    Forall (fun x => nosub 53 (-1074) (B2R x * B2R x)) b ->
    Forall2 (fun x y => nosub 53 (-1074) (B2R x * B2R y)) a b ->
    (INR (dims + 8) * bpow radix2 (-53) <= / 16)%R ->
    (4 * bpow radix2 (-1022) <= NXr a * NXr b)%R ->
    (NXr a <= bpow radix2 1022)%R -> (NXr b <= bpow radix2 1022)%R -> (NXr a * NXr b <= bpow radix2 1022)%R ->
    match generic_cosine R float_math dims (init_mem a b res) with
    | Ok x m => run_ok (init_mem a b res) m /\ is_finite x = true /\
                (Rabs (B2R x - (1 - DOTr a b / sqrt (NXr a * NXr b))) <= 4 * (INR (dims + 8) * bpow radix2 (-53)))%R
                /\ (- (4 * (INR (dims + 8) * bpow radix2 (-53))) <= B2R x <= 2 + 4 * (INR (dims + 8) * bpow radix2 (-53)))%R
    | _ => False
    end.
Proof. exact f64_cosine_accuracy. Qed.
Local Close Scope R_scope.

Check C06_branches. Check C06_panics_iff_division_fails. Check C06_decomposition.
Check C06_int. Check C06_int_spec_reads. Check C06_int_panic_iff. Check C06_int_backend_independent.
Check C06_symmetric. Check C06_symmetric_f32. Check C06_symmetric_f64.
Check C06_reads. Check C06_accuracy. Check C06_range. Check C06_cauchy_schwarz. Check C06_identical.
Check C06_accuracy_f32. Check C06_accuracy_f64.

(* Non-vacuity: concrete runs of the AVX2 u8 model (32 lanes) reach all four outcomes.
   35 elements = one register step and a 3-element tail.
   - general branch, wrapping: a = b = [1;...]: nx = ny = dot = 35, nx * ny = 1225 = 201 mod 2^8, isqrt 201 = 14,
     1 - 35/14 = 1 - 2 = 255 mod 2^8 (identical vectors do NOT give 0 in wrapping arithmetic);
   - both norms zero although the vectors are not (16^2 = 256 = 0 mod 2^8): 0;
   - exactly one zero norm: 1;
   - must panic: nx = ny = 16 (16 ones), nx * ny = 256 wraps to 0, isqrt 0 = 0, division by zero. *)
Example C06_nonvacuous :
  let ones n := repeat 1%Z n in
  let run a b := match int_ops Avx2 U8 with
                 | Some R => run_kernel R (int_math false 8) KCosine 35 0%Z (init_mem a b [])
                 | None => OutOfFuel
                 end in
  match run (ones 35) (ones 35), run (repeat 16%Z 35) (repeat 16%Z 35),
        run (repeat 16%Z 35) (ones 35), run (ones 16 ++ repeat 0%Z 19) (ones 16 ++ repeat 0%Z 19) with
  | Ok (RValue x1) _, Ok (RValue x2) _, Ok (RValue x3) _, Panic _ => x1 = 255%Z /\ x2 = 0%Z /\ x3 = 1%Z
  | _, _, _, _ => False
  end
  /\ spec_int false 8 KCosine 0%Z (ones 16 ++ repeat 0%Z 19) (ones 16 ++ repeat 0%Z 19) = SPanic
  (* and the well-scaled float domain of C06_accuracy / C06_identical is inhabited: a = b = [1; 1] in f32 on the
     AVX2+FMA model satisfies every hypothesis, so the result is within 4 * 10 * 2^-24 of 0 *)
  /\ (let a : list f32 := [Bone; Bone] in
      match f32_ops Avx2Fma with
      | Some Rg => match generic_cosine Rg float_math 2 (init_mem a a []) with
                   | Ok r _ => (Rabs (B2R r) <= 4 * (INR 10 * bpow radix2 (-24)))%R
                   | _ => False
                   end
      | None => False
      end).
Proof. split; [|split]; [vm_compute; repeat split; reflexivity | vm_compute; reflexivity | exact accuracy_nonvacuous]. Qed.
