(* C08 — results depend only on logical inputs, not on placement, slack or history (model part).
   The kernel model (Model/Kernels.v) is a function of (kernel, back end, dims, value, contents of a, b, result):
   placement, alignment, the bytes around the slices and earlier calls are not among its arguments, so the only
   piece of "history" it can see is what the result buffer held before the call.  The theorems below remove that
   dependence too.  That the CODE agrees with such a function is the paired-run correspondence of checks/c08.py
   (same logical case under several placements / alignments / surrounding poison bytes / result prefills / after
   an unrelated call and with dirtied vector registers: all outputs identical, and equal to the model's). *)
From Coq Require Import ZArith List Arith Bool.
From CF Require Import Base.Mem Model.Tables Model.Prim Model.SimdApi Model.Kernels Model.Sym Model.Regs Model.Poison.
From CF Require Import Proofs.KernelBounds Proofs.Oblivious Proofs.AllWritten Proofs.PoisonProofs.
Import ListNotations.

(* STRUCTURE.  For every element type, EVERY back end record and Math record (no hypothesis at all), each of
   the 19 kernels is built from ret, bind, loads from the INPUT slices, stores to the result, panic and loop
   fuel only: whatever is closed under those six holds of the kernel.  (There is no way to read the result.) *)
Theorem C08_kernels_structure :
  forall (T : Type) (P : forall A : Type, M T A -> Prop),
    (forall A (x : A), P A (ret x)) ->
    (forall A B (c : M T A) (f : A -> M T B), P A c -> (forall a, P B (f a)) -> P B (bind c f)) ->
    (forall sc s i w, s <> SR -> P (list T) (load_gen sc s i w)) ->
    (forall sc i v, P unit (store_gen sc i v)) ->
    (forall A, P A panic) ->
    (forall A, P A (fun _ => OutOfFuel)) ->
    forall (R : SimdOps T) (Mth : MathOps T) (k : kernel) (dims : nat) (v : T),
      P (kresult (T := T)) (run_kernel R Mth k dims v).
Proof.
  exact (fun T P h1 h2 h3 h4 h5 h6 => kernels_monadic P (Build_monadic P h1 h2 h3 h4 h5 h6)).
Qed.

(* PREFILL IRRELEVANT.  All 19 kernels, any element type, ANY back end / Math record, any dims, value, inputs of
   any length: two runs that differ only in the previous contents of the result buffer (same length) end with
   the same outcome constructor (both return / both panic / both fault at the same event / both out of fuel),
   the same returned value, the same event trace, untouched equal inputs, and result slices that agree on
   every index covered by some write event. *)
Theorem C08_prefill_irrelevant :
  forall (T : Type) (R : SimdOps T) (Mth : MathOps T) (k : kernel) (dims : nat) (v : T) (a b res res' : list T),
    length res = length res' ->
    match run_kernel R Mth k dims v (init_mem a b res), run_kernel R Mth k dims v (init_mem a b res') with
    | Ok x m, Ok x' m' =>
        x = x' /\ trace m = trace m' /\ mA m = mA m' /\ mB m = mB m' /\ length (mR m) = length (mR m')
        /\ forall j, covered j (trace m) -> nth_error (mR m) j = nth_error (mR m') j
    | Panic m, Panic m' =>
        trace m = trace m' /\ mA m = mA m' /\ mB m = mB m' /\ length (mR m) = length (mR m')
        /\ forall j, covered j (trace m) -> nth_error (mR m) j = nth_error (mR m') j
    | Fault e, Fault e' => e = e'
    | OutOfFuel, OutOfFuel => True
    | _, _ => False
    end.
Proof. exact (@prefill_irrelevant). Qed.

(* The relational invariant behind it, from ANY pair of related memories (e.g. the ones any earlier sequence of
   calls left behind): lock-step execution. *)
Theorem C08_kernel_oblivious :
  forall (T : Type) (R : SimdOps T) (Mth : MathOps T) (k : kernel) (dims : nat) (v : T) (m m' : mem T),
    eqv m m' ->
    match run_kernel R Mth k dims v m, run_kernel R Mth k dims v m' with
    | Ok x n, Ok x' n' => x = x' /\ eqv n n'
    | Panic n, Panic n' => eqv n n'
    | Fault e, Fault e' => e = e'
    | OutOfFuel, OutOfFuel => True
    | _, _ => False
    end.
Proof. exact (@kernel_oblivious). Qed.

(* ALL WRITTEN.  The 12 writing kernels, any lane-count-preserving back end (any L >= 1), any Math record,
   documented lengths: a run that returns has written every index below dims.  (A division kernel may instead
   panic on an integer zero divisor; it never faults and never runs out of fuel.) *)
Theorem C08_all_written :
  forall (T : Type) (R : SimdOps T) (Mth : MathOps T) (k : kernel) (dims : nat) (v : T) (a b res : list T),
    ops_wf R ->
    kernel_writes k = true ->
    length a = dims ->
    (kernel_uses_b k = true -> length b = dims) ->
    length res = dims ->
    match run_kernel R Mth k dims v (init_mem a b res) with
    | Ok _ m => forall j, j < dims -> covered j (trace m)
    | Panic _ => True
    | Fault _ | OutOfFuel => False
    end.
Proof. exact (@all_written). Qed.

(* RESULTS EQUAL.  Hence the final result slice is a function of the logical inputs alone. *)
Theorem C08_results_equal :
  forall (T : Type) (R : SimdOps T) (Mth : MathOps T) (k : kernel) (dims : nat) (v : T) (a b res res' : list T),
    ops_wf R ->
    kernel_writes k = true ->
    length a = dims ->
    (kernel_uses_b k = true -> length b = dims) ->
    length res = dims -> length res' = dims ->
    match run_kernel R Mth k dims v (init_mem a b res), run_kernel R Mth k dims v (init_mem a b res') with
    | Ok x m, Ok x' m' =>
        x = x' /\ mR m = mR m' /\ trace m = trace m' /\ mA m = a /\ mA m' = a /\ mB m = b /\ mB m' = b
    | Panic m, Panic m' => trace m = trace m'
    | _, _ => False
    end.
Proof. exact (@all_written_prefill_free). Qed.

(* INPUTS UNTOUCHED, RESULT NEVER READ, NOTHING ELSE TOUCHED.  All 19 kernels, ANY back end / Math record, any
   lengths (no hypothesis): whenever a run returns or panics, a and b are unchanged, the result slice keeps its
   length, every event is a read of a/b or a write of the result ([event_ok]), and every result cell that no
   write event covers still holds the value it held before the call. *)
Theorem C08_inputs_untouched_result_never_read :
  forall (T : Type) (R : SimdOps T) (Mth : MathOps T) (k : kernel) (dims : nat) (v : T) (a b res : list T),
    match run_kernel R Mth k dims v (init_mem a b res) with
    | Ok _ m | Panic m =>
        mA m = a /\ mB m = b /\ length (mR m) = length res
        /\ Forall (fun e => event_ok e = true) (trace m)
        /\ forall j, ~ covered j (trace m) -> nth_error (mR m) j = nth_error res j
    | Fault _ | OutOfFuel => True
    end.
Proof. exact (@kernel_frame). Qed.

(* NO POISON.  `_mm_undefined_ps` has exactly one user in the source: <Avx2 as SimdRegister<f64>>::sum_to_value.
   With undefined lanes modelled explicitly (Model/Poison.v, the function's instruction sequence line by line):
   for every lane type V with any addition, any word-level representation of a lane (lo/hi/join with
   join (lo v) (hi v) = v), every fully defined register and EVERY content of the undefined register (poison,
   or any garbage of any length), the value extracted is defined and is (r2 + r0) + (r3 + r1). *)
Theorem C08_no_poison :
  forall (V W : Type) (lo hi : V -> W) (join : W -> W -> V) (add : V -> V -> V),
    (forall v, join (lo v) (hi v) = v) ->
    forall (undef : list (option W)) (r0 r1 r2 r3 : V),
      avx2_f64_sum_to_value_with V W lo hi join add undef [Some r0; Some r1; Some r2; Some r3]
      = Some (add (add r2 r0) (add r3 r1)).
Proof. exact sum_to_value_defined. Qed.

(* ... which, on binary64 with IEEE addition, is the fold the register model of the AVX2 f64 back end uses
   (Model/Regs.v [avx2_fsum]; that model is compared with the real method by correspondence B and by the paired
   runs). *)
Theorem C08_no_poison_f64 :
  forall (W : Type) (lo hi : f64 -> W) (join : W -> W -> f64),
    (forall v, join (lo v) (hi v) = v) ->
    forall (r0 r1 r2 r3 : f64),
      avx2_f64_sum_to_value f64 W lo hi join f_add [Some r0; Some r1; Some r2; Some r3]
      = Some (avx2_fsum [r0; r1; r2; r3]).
Proof.
  exact (fun W lo hi join J r0 r1 r2 r3 => sum_to_value_is_avx2_fsum W lo hi join r0 r1 r2 r3 J).
Qed.

Check @kernel_oblivious :
  forall (T : Type) (R : SimdOps T) (Mth : MathOps T) k dims v, obl (run_kernel R Mth k dims v).
Check @obl_monadic : forall T : Type, monadic (fun A (c : M T A) => obl c).
Check @frames_monadic : forall T : Type, monadic (fun A (c : M T A) => frames c).
Check @sum_to_value_strict :
  forall V W lo hi join add r0 r1 r3,
    avx2_f64_sum_to_value V W lo hi join add [Some r0; Some r1; None; Some r3] = None.

(* Non-vacuity: the symbolic back end with 3 lanes (the instance compared with the real code), dims = 53 = two
   dense blocks + one register + two scalars, two different prefills: both runs return, the result slices are
   equal, no cell of either prefill survives, and the last cell is the scalar-tail term. *)
Example C08_nonvacuous :
  let a := map (TVar SA) (seq 0 53) in
  let run res := run_kernel (sym_ops 3) (sym_math false false false) KSubVal 53 TValue (init_mem a [] res) in
  match run (map (TVar SR) (seq 0 53)), run (repeat (TConst CMax) 53) with
  | Ok _ m, Ok _ m' =>
      mR m = mR m' /\ nth 52 (mR m) TValue = TOp SSub [TVar SA 52; TValue]
      /\ nth 0 (mR m) TValue = TOp OSub [TVar SA 0; TValue]
      /\ length (trace m) = 2 * (8 + 8) + (1 + 1) + (2 + 2)
  | _, _ => False
  end.
Proof. vm_compute. repeat split. Qed.
