(* C17 — the thread pool honours its configuration for every environment and affinity   (partial: rayon / OS are oracles)

   Model: Model/ThreadPool.v, a line-by-line transcription of cfavml-utils/src/threadpool.rs and pinning.rs, parametric
   in every literal and one-line decision of the source.  [gen_tp_params compat] are the values tools/translate_utils.py
   reads from /repo on every run (TRUE_VALUES, the variable names, the form of the requested count — min(cfg, P) or
   `match cfg { 0 => P, n => min(n, P) }` —, the polarity of the two flags, whether an out-of-range pin index panics
   under cfg!(debug_assertions)); [compat] is the cargo feature env-var-compat.  The theorems are therefore about what
   the code says now, and the two `.._or_refuted` statements follow the FORM of the source: they hold on the source with
   and without the two defects, and in the defective form they carry the witness that is replayed on the real code.
   The model is tied to the real pool by the correspondence of checks/c17.py (fresh process per configuration).

   Quantification: [e : env] is ANY function from variable names to {absent, not unicode, a string}; P is the physical
   core count, [avail] what std::thread::available_parallelism reports under the affinity mask, [allowed] the CPUs of the
   mask; [sched] is ANY finite interleaving of ANY number of callers of get_or_init_pool().

   ORACLES (contracts written in Model/ThreadPool.v, observed by the correspondence, not proved): std::env::var,
   usize::from_str (= [parse_usize], proved equal to the independent syntax specification [spec_parse_usize]),
   num_cpus::get_physical (P >= 1, independent of the mask), core_affinity, rayon (num_threads(n > 0) gives n threads,
   num_threads(0) gives RAYON_NUM_THREADS / available parallelism, at most 65535 threads, a panic in the start handler
   aborts the process, an existing pool runs the work submitted to it), OnceLock::get_or_init (at most one initialiser).
   NOT PROVED (this is why the property is partial): that rayon actually runs submitted work on the workers it started;
   the correspondence observes a job on every worker of every pool it creates. *)
From Coq Require Import ZArith List Bool String.
From CF Require Import Gen.GenConstsUtils Model.AlignedBuf Model.ThreadPool Proofs.ThreadPoolProofs.
Import ListNotations.
Open Scope Z_scope.

(* The one-line decisions of the source are the ones the property is about: the cache flag disables the cache, the
   pinning flag disables pinning, the configured count is combined with P by `min`; and the accepted spellings of "true"
   are the documented ones. *)
Theorem C17_literals :
  (tp_nocache_disables = true /\ tp_pin_when_not_flag = true /\ tp_combine_is_min = true)
  /\ tp_true_values = spec_true_values.
Proof. exact gen_literals. Qed.

(* usize::from_str as modelled accepts exactly: an optional '+', then one or more ASCII digits whose decimal value is
   below 2^64.  So the empty string, "+", "-1", "abc", "1e3", " 4" and 99999999999999999999999 are all rejected. *)
Theorem C17_parse : forall s, parse_usize s = spec_parse_usize s.
Proof. exact parse_usize_spec. Qed.

(* Value classes of CFAVML_NUM_THREADS: absent, not unicode, and every string the syntax above rejects (empty, negative,
   non-numeric, huge) configure the default, the physical core count. *)
Theorem C17_default_classes :
  forall e P,
    match e tp_var_num_threads with
    | EVal v => spec_parse_usize v = None -> config_num_threads (gen_tp_params false) e P = P
    | _ => config_num_threads (gen_tp_params false) e P = P
    end.
Proof. exact gen_config_default_classes. Qed.

(* SIZE.  For every environment, every P in [1, 65535], every available parallelism >= 1 (every affinity mask), with or
   without env-var-compat: 1 <= threads <= P; threads = min(cfg, P) whenever the configured count cfg is positive; in
   particular threads = min(n, P) when CFAVML_NUM_THREADS parses to n > 0.
   Proved for BOTH forms of the source under the guard "a configured 0 means default, or the configured count is not 0". *)
Theorem C17_size_guarded :
  forall compat e P avail,
    1 <= P <= RAYON_MAX -> 1 <= avail ->
    tp_zero_is_default = true \/ config_num_threads (gen_tp_params compat) e P <> 0 ->
    let cfg := config_num_threads (gen_tp_params compat) e P in
    let t := pool_threads (gen_tp_params compat) e P avail in
    1 <= t <= P
    /\ (0 < cfg -> t = Z.min cfg P)
    /\ (forall v n, env_var e tp_var_num_threads = Some v -> parse_usize v = Some n -> 0 < n -> t = Z.min n P).
Proof. exact gen_size_guarded. Qed.

(* The same without the guard, following the form of the source:
     `match cfg { 0 => P, n => min(n, P) }`  -> holds for EVERY environment;
     plain `min(cfg, P)`                     -> holds whenever the configured count is not 0 and is REFUTED for a configured 0:
                                                there are e, P, avail (CFAVML_NUM_THREADS=0, RAYON_NUM_THREADS=64, P = avail = 16)
                                                with more than P threads. *)
Theorem C17_size_total_or_refuted : forall compat, size_total_or_refuted (gen_tp_params compat).
Proof. exact gen_size_total_or_refuted. Qed.

(* What a configured 0 does in the plain-min form: rayon's own default (RAYON_NUM_THREADS, else the visible CPUs). *)
Theorem C17_zero_request_follows_rayon :
  forall compat e P avail,
    tp_zero_is_default = false -> 1 <= P -> config_num_threads (gen_tp_params compat) e P = 0 ->
    pool_threads (gen_tp_params compat) e P avail = Z.min (rayon_default e avail) RAYON_MAX.
Proof. exact gen_zero_request_follows_rayon. Qed.

(* TOTALITY.  create_pool aborts the process exactly when: the source panics on an out-of-range pin index under
   cfg!(debug_assertions), the build is a debug build, pinning is on, and the mask has fewer CPUs (but at least one) than the
   pool has threads.  Every profile, environment, P, avail, mask. *)
Theorem C17_abort_iff :
  forall compat prof e P avail allowed,
    create_pool (gen_tp_params compat) prof e P avail allowed = PoolAbort <->
    pin_oob_debug_panics = true /\ prof = Debug /\ pinning_on (gen_tp_params compat) e = true
    /\ 0 < Z.of_nat (List.length allowed) < pool_threads (gen_tp_params compat) e P avail.
Proof. exact gen_create_pool_abort_iff. Qed.

(* Every environment value class, every mask, both profiles yield a pool with one start-handler result per worker,
   following the form of the source:
     out-of-range index returns false in every profile -> holds for EVERY (profile, environment, P, avail, mask);
     debug-only panic!                                 -> holds outside (debug, pinning on, 0 < A < threads) and is REFUTED
                                                          inside it: (debug, empty environment, P = 16, mask 0-3) aborts. *)
Theorem C17_total_or_refuted : forall compat, total_or_refuted_tp (gen_tp_params compat).
Proof. exact gen_total_or_refuted_tp. Qed.

(* PINNING.  In a pool that was created, worker i is pinned to the i-th CPU of the mask exactly when pinning is on and
   i is inside the mask; otherwise it keeps the mask it inherited. *)
Theorem C17_pinning :
  forall compat prof e P avail allowed t aff i,
    create_pool (gen_tp_params compat) prof e P avail allowed = PoolOk t aff -> 0 <= i < t ->
    nth (Z.to_nat i) aff None =
    if pinning_on (gen_tp_params compat) e && (i <? Z.of_nat (List.length allowed))
    then Some (nth (Z.to_nat i) allowed (-1)) else None.
Proof. exact gen_worker_affinity. Qed.

(* RUNS SUBMITTED WORK — partial.  Full statement: every job submitted to the pool returned by get_or_init_pool() is
   executed (pool.install / spawn / broadcast complete).  Proved: a pool that was created has at least one worker and
   every one of its workers has completed its start handler (one start-handler result per worker), for every profile,
   environment, P, mask.  Missing: that rayon's scheduler runs a job on such a pool — rayon is an oracle; the
   correspondence observes a broadcast job on every worker and a parallel sum in every configuration it runs. *)
Theorem C17_runs_work_partial :
  forall compat prof e P avail allowed t aff,
    1 <= avail ->
    create_pool (gen_tp_params compat) prof e P avail allowed = PoolOk t aff ->
    1 <= t /\ Z.of_nat (List.length aff) = t.
Proof. exact gen_workers_started. Qed.

(* The two flags are on exactly for a value of TRUE_VALUES (absent, not unicode, "0", "True", "yes", .. are off). *)
Theorem C17_flags :
  forall compat e,
    (nocache_of (gen_tp_params compat) e = true <-> exists v, e tp_var_no_cache = EVal v /\ In v tp_true_values)
    /\ (pinning_on (gen_tp_params compat) e = false <-> exists v, e tp_var_no_pinning = EVal v /\ In v tp_true_values).
Proof. exact gen_flags. Qed.

(* SHARING.  Caching enabled: under EVERY schedule of ANY number of callers racing on first use, any two callers that
   have returned hold the same pool, and hold it borrowed. *)
Theorem C17_shared :
  forall compat e ok sched t1 t2 o1 o2 i1 i2,
    nocache_of (gen_tp_params compat) e = false ->
    m_pc (run (nocache_of (gen_tp_params compat) e) ok sched) t1 = PRet o1 i1 ->
    m_pc (run (nocache_of (gen_tp_params compat) e) ok sched) t2 = PRet o2 i2 ->
    i1 = i2 /\ o1 = false /\ o2 = false.
Proof. exact gen_cached_shared. Qed.

(* Caching disabled: every caller that has returned owns its pool, and distinct callers hold distinct pools. *)
Theorem C17_fresh_when_disabled :
  forall ok sched t1 t2 o1 o2 i1 i2,
    m_pc (run true ok sched) t1 = PRet o1 i1 -> m_pc (run true ok sched) t2 = PRet o2 i2 ->
    o1 = true /\ o2 = true /\ (t1 <> t2 -> i1 <> i2).
Proof. exact nocache_distinct. Qed.

(* PROGRESS.  When create_pool does not abort, get_or_init_pool never does, and as long as some caller has not returned
   some caller can take a step that changes the state (callers blocked on the OnceLock wait for a runner that can move). *)
Theorem C17_no_abort :
  forall nocache sched, m_abort (run nocache true sched) = false.
Proof. exact gen_no_abort. Qed.

Theorem C17_progress :
  forall nocache sched t,
    (forall o i, m_pc (run nocache true sched) t <> PRet o i) ->
    exists t', step nocache true (run nocache true sched) t' <> run nocache true sched.
Proof. exact progress. Qed.

Check C17_size_total_or_refuted :
  forall compat,
    if ZERO_DEFAULT (gen_tp_params compat)
    then size_total (gen_tp_params compat)
    else size_guarded_stmt (gen_tp_params compat) /\ size_witness (gen_tp_params compat).
Check C17_total_or_refuted :
  forall compat,
    if OOB_PANIC (gen_tp_params compat)
    then total_guarded_stmt (gen_tp_params compat) /\ total_witness (gen_tp_params compat)
    else total_stmt (gen_tp_params compat).
Check C17_shared.

(* Non-vacuity: CFAVML_NUM_THREADS="+3" on 16 physical cores under the mask 0,2,4,6, release build: 3 threads pinned to CPUs
   0, 2, 4, two sequential callers borrow the same pool; three racing callers (caller 1 wins the OnceLock, 0 and 2
   block on it) all return pool 0 borrowed; with CFAVML_NO_CACHE_THREADPOOL=1 they own pools 0, 1, 2 (caller 0 is the first to leave the cell). *)
Example C17_nonvacuous :
  let e := env_of [(tp_var_num_threads, EVal "+3"%string)] in
  let e' := env_of [(tp_var_no_cache, EVal "1"%string)] in
  let sched := [1; 0; 2; 1; 0; 2; 0; 1; 1; 2; 2; 0; 0]%nat in
  obs_probe (gen_tp_params false) Release e 16 4 [0; 2; 4; 6] = [0; 3; 0; 0; 1; 1; 0; 2; 4]
  /\ obs_race (gen_tp_params false) e 3 sched = [[3; 0; 0]; [3; 0; 0]; [3; 0; 0]]
  /\ obs_race (gen_tp_params false) e' 3 sched = [[3; 1; 0]; [3; 1; 1]; [3; 1; 2]].
Proof. vm_compute. repeat split; reflexivity. Qed.
