(* C07 — what `R::load(ptr)`, `R::write(ptr, reg)`, `R::load_dense`, `R::write_dense` REALLY touch is what the kernel model
   says: `load s i (lanes R)`, `store i reg`, `load_dense R s i`, `write_dense R i d` (Model/SimdApi.v, Base/Mem.v).

   Gen/GenSimdApi.v is regenerated on every run by tools/translate_mem.py from cfavml/src/danger/core_simd_api.rs (the
   trait's default methods, rendered statement by statement) and impl_{fallback,avx2,avx2_fma,avx512,neon}.rs (the
   `load` / `write` of every impl: the ONE load / store intrinsic called on the pointer given, and the impl's
   `type Register`).  The in-bounds theorems (Props/C07.v, Props/C07Gen.v) are about the model's accesses; the theorems
   below say those ARE the source's: the dense forms are eight register accesses at offsets lanes * 0 .. lanes * 7 in
   that order; nobody overrides them; and a register access reads / writes exactly the bytes of elements
   [i, i + lanes R), through an intrinsic that accepts every element-aligned pointer ("every alignment").
   Trusted: Model/MemIntrinsics.v (what each load / store intrinsic touches: ~100 rows), the translator's mapping
   (tools/translate_mem.py, DESIGN), Base/Mem.v. *)
From Coq Require Import List Arith Bool String.
From CF Require Import Base.Mem Model.Tables Model.Prim Model.SimdApi Model.Regs Model.RegTable Model.MemIntrinsics Model.Sym.
From CF Require Import Gen.GenExports Gen.GenSimdApi.
From CF Require Import Proofs.GenMemSpec Proofs.GenMemProofs.
Import ListNotations.

(* The trait's default methods as translated from core_simd_api.rs are the model's (equalities of computations, by
   conversion): same eight offsets, same order, same field at each position. *)
Theorem C07_mem_defaults_are_model :
  forall (T : Type) (R : SimdOps T),
    (forall s i, gen_load_dense R s i = load_dense R s i)
    /\ (forall i d, gen_write_dense R i d = write_dense R i d)
    /\ gen_elements_per_dense R = elements_per_dense R
    /\ (forall v, gen_filled_dense R v = filled_dense R v)
    /\ gen_zeroed_dense R = zeroed_dense R.
Proof.
  intros T R. exact (conj (gen_load_dense_is_model R) (conj (gen_write_dense_is_model R)
    (conj (gen_elements_per_dense_is_model R) (conj (gen_filled_dense_is_model R) (gen_zeroed_dense_is_model R))))).
Qed.

(* `DenseLane::copy`, `DenseLane::NUM_LANES`, the fields of `struct DenseLane`; nothing was left untranslated. *)
Theorem C07_mem_dense_lane :
  (forall (T : Type) (r : vreg T), gen_dense_copy r = dense_copy r)
  /\ gen_NUM_LANES = NUM_LANES /\ List.length gen_dense_fields = gen_NUM_LANES
  /\ gen_simd_api_untranslated = [] /\ gen_mem_untranslated = [].
Proof.
  exact (conj gen_dense_copy_is_model (conj (proj1 gen_num_lanes_is_model) (conj (proj2 gen_num_lanes_is_model)
    (conj gen_simd_api_complete gen_mem_complete)))).
Qed.

(* No impl overrides load_dense / write_dense / elements_per_dense / elements_per_lane / filled_dense / zeroed_dense:
   the model's use of the defaults is right for every back end. *)
Theorem C07_mem_no_overrides : gen_dense_mem_overrides = [].
Proof. exact gen_dense_mem_no_overrides. Qed.

(* Every `load` / `write` of every impl, at every element type it applies to (statement schema:
   Proofs/GenMemSpec.entry_sound): a load for `load`, a store for `write`; bytes accessed = size_of::<Register>() =
   lanes * size_of::<T>() with [lanes] of the lane-level model = the translated `elements_per_lane()` at those sizes;
   alignment requirement divides size_of::<T>() and is 1 for every vector back end. *)
Theorem C07_mem_table_sound :
  Forall (fun e => forall t, applies e t -> entry_sound gen_elements_per_lane e t) gen_mem_table.
Proof. exact gen_mem_table_sound. Qed.

(* the clauses one by one, as run (the one that fails names what changed) *)
Theorem C07_mem_checks :
  tbl_check chk_known gen_mem_table = true
  /\ tbl_check chk_kind gen_mem_table = true
  /\ tbl_check chk_whole gen_mem_table = true
  /\ tbl_check (chk_lanes gen_elements_per_lane) gen_mem_table = true
  /\ tbl_check chk_align gen_mem_table = true
  /\ tbl_check chk_pointee gen_mem_table = true
  /\ keys_unique gen_mem_table = true.
Proof.
  exact (conj gen_mem_known (conj gen_mem_kinds (conj gen_mem_whole_register (conj gen_mem_lanes
    (conj gen_mem_unaligned (conj gen_mem_pointee gen_mem_keys_unique)))))).
Qed.

(* Coverage: every impl of the source, every (register, element type) of the export table, and every pair that has a
   lane-level model (but the Avx2Fma integers, which have no impl) has BOTH a `load` and a `write` entry. *)
Theorem C07_mem_coverage :
  forallb (pair_covered gen_mem_table) gen_impl_pairs = true /\ gen_impl_pairs <> []
  /\ forallb (fun x => covers gen_mem_table (e_reg x) (e_ty x)) exports = true
  /\ forallb (fun r => forallb (fun t =>
       match model_lanes r t with
       | Some _ => covers gen_mem_table r t || (reg_eqb r Avx2Fma && negb (is_float t))
       | None => true
       end) all_tys) all_regs = true.
Proof.
  exact (conj (proj1 gen_mem_impls_covered) (conj (proj2 gen_mem_impls_covered)
    (conj gen_mem_exports_covered gen_mem_models_covered))).
Qed.

(* For every export row, against the register model the row is RUN with (Model/Exports.v): `R::load(ptr)` /
   `R::write(ptr, reg)` with ptr at element i touch exactly the bytes of elements [i, i + lanes R). *)
Theorem C07_mem_int_rows :
  forall x R, In x exports -> int_ops (e_reg x) (e_ty x) = Some R ->
  forall ld : bool,
  exists e v, In e gen_mem_table /\ me_reg e = e_reg x /\ applies e (e_ty x)
              /\ me_meth e = (if ld then MLoad else MWrite) /\ view e (e_ty x) = Some v
              /\ mv_kind v = (if ld then KLoad else KStore)
              /\ (forall i, i * ty_bytes (e_ty x) + mv_bytes v = (i + lanes R) * ty_bytes (e_ty x))
              /\ Nat.divide (mv_align v) (ty_bytes (e_ty x)).
Proof. exact gen_mem_int_rows. Qed.

Theorem C07_mem_f32_rows :
  forall x R, In x exports -> e_ty x = F32 -> f32_ops (e_reg x) = Some R ->
  forall ld : bool,
  exists e v, In e gen_mem_table /\ me_reg e = e_reg x /\ applies e F32
              /\ me_meth e = (if ld then MLoad else MWrite) /\ view e F32 = Some v
              /\ mv_kind v = (if ld then KLoad else KStore)
              /\ (forall i, i * 4 + mv_bytes v = (i + lanes R) * 4)
              /\ Nat.divide (mv_align v) 4.
Proof. exact gen_mem_f32_rows. Qed.

Theorem C07_mem_f64_rows :
  forall x R, In x exports -> e_ty x = F64 -> f64_ops (e_reg x) = Some R ->
  forall ld : bool,
  exists e v, In e gen_mem_table /\ me_reg e = e_reg x /\ applies e F64
              /\ me_meth e = (if ld then MLoad else MWrite) /\ view e F64 = Some v
              /\ mv_kind v = (if ld then KLoad else KStore)
              /\ (forall i, i * 8 + mv_bytes v = (i + lanes R) * 8)
              /\ Nat.divide (mv_align v) 8.
Proof. exact gen_mem_f64_rows. Qed.

(* ... and for every row at all (NEON included, whose lane-level model is the specification of GenRegsSpec.v) *)
Theorem C07_mem_export_rows :
  forall x, In x exports ->
  forall ld : bool,
  exists e, In e gen_mem_table /\ me_reg e = e_reg x /\ applies e (e_ty x)
            /\ me_meth e = (if ld then MLoad else MWrite)
            /\ entry_sound gen_elements_per_lane e (e_ty x).
Proof. exact gen_mem_export_rows. Qed.

Check @gen_load_dense_is_model : forall T (R : SimdOps T) s i, gen_load_dense R s i = load_dense R s i.
Check @gen_write_dense_is_model : forall T (R : SimdOps T) i d, gen_write_dense R i d = write_dense R i d.
Check gen_mem_whole_register : tbl_check chk_whole gen_mem_table = true.
Check gen_mem_unaligned : tbl_check chk_align gen_mem_table = true.
Check gen_mem_lanes : tbl_check (chk_lanes gen_elements_per_lane) gen_mem_table = true.
Check entry_sound. Check model_lanes.

(* Non-vacuity: the translated load_dense / write_dense RUN (3 lanes, from element 5: eight accesses of width 3 at
   5, 8, .., 26, in that order; the dense written back lands at 2 .. 25), and the table read through the trusted
   intrinsic table: Avx2 f32 `load` = a 32-byte unaligned load = 8 lanes of 4 bytes; Avx512 u8 `write` = a 64-byte
   unaligned store through a cast pointer; NEON i16 = 16 bytes = 8 lanes; Fallback at u64 = 8 bytes, element-aligned. *)
Example C07_mem_nonvacuous :
  match gen_load_dense (sym_ops 3) SA 5 (sym_mem 40 0 40) with
  | Ok d m =>
      map (fun e => (ev_write e, ev_idx e, ev_width e)) (trace m)
      = map (fun k => (false, 5 + 3 * k, 3)) (seq 0 8)
      /\ nth_reg d 7 = [TVar SA 26; TVar SA 27; TVar SA 28]
      /\ match gen_write_dense (sym_ops 3) 2 d m with
         | Ok _ m' => firstn 3 (skipn 23 (mR m')) = [TVar SA 26; TVar SA 27; TVar SA 28]
                      /\ map ev_idx (skipn 8 (trace m')) = map (fun k => 2 + 3 * k) (seq 0 8)
         | _ => False
         end
  | _ => False
  end
  /\ option_map (fun v => (mv_bytes v, mv_align v, mv_reg_bytes v, mv_elem_bytes v))
       (match find (entry_for Avx2 F32 true) gen_mem_table with Some e => view e F32 | None => None end) = Some (32, 1, 32, 4)
  /\ option_map (fun v => (mv_bytes v, mv_align v, mv_reg_bytes v, mv_elem_bytes v))
       (match find (entry_for Avx512 U8 false) gen_mem_table with Some e => view e U8 | None => None end) = Some (64, 1, 64, 1)
  /\ option_map (fun v => (mv_bytes v, mv_align v, mv_reg_bytes v, mv_elem_bytes v))
       (match find (entry_for Neon I16 true) gen_mem_table with Some e => view e I16 | None => None end) = Some (16, 1, 16, 2)
  /\ option_map (fun v => (mv_bytes v, mv_align v, mv_reg_bytes v, mv_elem_bytes v))
       (match find (entry_for Fallback U64 false) gen_mem_table with Some e => view e U64 | None => None end) = Some (8, 8, 8, 8)
  /\ model_lanes Avx2 F32 = Some 8 /\ model_lanes Neon I16 = Some 8 /\ model_lanes Fallback U64 = Some 1.
Proof. vm_compute. repeat split; reflexivity. Qed.
