(* C02 — element-wise add / sub / mul / div (vector (x) vector and vector (x) broadcast value) are exact on every
   back end.

   [int_ops r t], [f32_ops r], [f64_ops r] (Model/Regs.v) are the register models standing for the
   (register, element type) pairs of the export tables — Fallback, Avx2, Avx2Fma, Avx512; the kernels are
   Model/Kernels.v's mirror of danger/op_arithmetic*.rs.  [spec_int] / [spec_float] (Model/Spec.v) are the
   executable specification: extracted to OCaml they are the oracle applied to the REAL implementation's output by
   checks/c02.py, so the theorems below say the model meets exactly what the implementation is held to.
   [meets m0 o s]: the run returned, in bounds and with inputs untouched ([run_ok]), with the result slice equal to
   the specified vector — or panicked exactly where the specification says "must panic". *)
From Coq Require Import ZArith List Bool.
From Flocq Require Import IEEE754.BinarySingleNaN.
From CF Require Import Base.Mem Model.Tables Model.Prim Model.SimdApi Model.Kernels Model.Regs Model.Spec.
From CF Require Import Model.TableSem Model.Exports Model.Safe Proofs.SafeSem Gen.GenExports Gen.GenSafe Gen.GenMacros Gen.GenDispatch.
From CF Require Import Proofs.KernelBounds Proofs.ReduceCorrect Proofs.SpecLink Proofs.FloatSpecLink.
Import ListNotations.

Definition arith_kernels : list kernel :=
  [KAddVec; KSubVec; KMulVec; KDivVec; KAddVal; KSubVal; KMulVal; KDivVal].

(* Integers, all 8 types x {Fallback, Avx2, Avx512} x 8 operations, EVERY length and all operand values (bit
   patterns in [0, 2^w)): each result element is the wrapping result — the exact integer result of the signed /
   unsigned readings reduced modulo 2^w (division: truncating, MIN / -1 wraps to MIN) — and the run panics if and
   only if a divisor is zero (vector form: some b_j = 0 with j < dims; value form: value = 0 and dims > 0; a zero
   scalar with an empty vector does not panic). *)
Theorem C02_int :
  forall r t R k a b res v dims,
    int_ops r t = Some R -> In k arith_kernels ->
    length a = dims -> Forall (in_range (width t)) a -> in_range (width t) v ->
    (kernel_uses_b k = true -> length b = dims /\ Forall (in_range (width t)) b) ->
    length res = dims ->
    meets (init_mem a b res)
          (run_kernel R (int_math (is_signed t) (width t)) k dims v (init_mem a b res))
          (spec_int (is_signed t) (width t) k v a b).
Proof.
  intros r t R k a b res v dims HR Hk Ha Fa Hv Hb Hr.
  apply (int_export_meets_spec r t R k a b res v dims HR); auto.
  unfold arith_kernels in Hk. unfold int_spec_kernels. cbn [In] in *. tauto.
Qed.

(* Floats (f32 and f64) x {Fallback, Avx2, Avx2Fma, Avx512}: each result element is the correctly rounded
   (round-to-nearest-even) IEEE-754 result of the scalar operation — Flocq's Bplus / Bminus / Bmult / Bdiv — as a
   [binary_float] VALUE, i.e. bit for bit, NaN exactly where the scalar operation gives NaN, infinities and signed
   zeros as IEEE prescribes; float division never panics. *)
Theorem C02_f32 :
  forall r R k a b res v dims,
    f32_ops r = Some R -> In k arith_kernels ->
    length a = dims -> length res = dims -> (kernel_uses_b k = true -> length b = dims) ->
    meets (init_mem a b res) (run_kernel R float_math k dims v (init_mem a b res)) (spec_float k v a b).
Proof. exact f32_export_meets_spec. Qed.

Theorem C02_f64 :
  forall r R k a b res v dims,
    f64_ops r = Some R -> In k arith_kernels ->
    length a = dims -> length res = dims -> (kernel_uses_b k = true -> length b = dims) ->
    meets (init_mem a b res) (run_kernel R float_math k dims v (init_mem a b res)) (spec_float k v a b).
Proof. exact f64_export_meets_spec. Qed.


(* Through the SAFE API, under every dispatch outcome: for every safe routine of the regenerated tables whose kernel is
   one of these, both forms, every build configuration [bc], ARBITRARY outcomes [p] of the is_*_available predicates,
   release and debug: if the call passes the wrapper's generated assert list then, whichever (non-NEON) slot [x] the
   dispatch chain selects, the result meets the specification; [safe_fn_of], [select_chain], [run_safe] are the
   semantics of the generated macro tables (Model/TableSem.v, Model/Safe.v). *)
Theorem C02_safe_api_int :
  forall s f bc p debug m sf k x,
    In s safe_entries -> find_safe_macro safe_macros (s_macro s) = Some m -> safe_fn_of m f = Some sf ->
    safe_kernel s = Some k -> select_chain dispatch_chain bc p (supplied_of sf) = Some x -> x <> SNeon ->
    forall DIMS v a b res,
      is_float (s_ty s) = false -> In k arith_kernels ->
      let l := {| len_a := length a; len_b := length b; len_r := length res; len_dims := DIMS |} in
      asserts_pass l (sf_asserts sf) = true ->
      (debug = true -> asserts_pass l (sf_debug_asserts sf) = true) ->
      Forall (in_range (width (s_ty s))) a -> in_range (width (s_ty s)) v ->
      (kernel_uses_b k = true -> Forall (in_range (width (s_ty s))) b) ->
      xmeets (run_safe dispatch_chain run_export_int exports safe_macros s f bc p debug DIMS v a b res)
             (spec_int (is_signed (s_ty s)) (width (s_ty s)) k v a b).
Proof.
  intros s f bc p debug m sf k x Hs Hm Hsf Hk Hsel Hx DIMS v a b res Hty Hkin.
  apply (safe_int_meets_spec s f bc p debug m sf k x Hs Hm Hsf Hk Hsel Hx DIMS v a b res Hty).
  unfold arith_kernels in Hkin. unfold int_spec_kernels. cbn [In] in *. tauto.
Qed.

Theorem C02_safe_api_f32 :
  forall s f bc p debug m sf k x,
    In s safe_entries -> find_safe_macro safe_macros (s_macro s) = Some m -> safe_fn_of m f = Some sf ->
    safe_kernel s = Some k -> select_chain dispatch_chain bc p (supplied_of sf) = Some x -> x <> SNeon ->
    forall DIMS v a b res,
      s_ty s = F32 -> In k arith_kernels ->
      let l := {| len_a := length a; len_b := length b; len_r := length res; len_dims := DIMS |} in
      asserts_pass l (sf_asserts sf) = true ->
      (debug = true -> asserts_pass l (sf_debug_asserts sf) = true) ->
      xmeets (run_safe dispatch_chain run_export_f32 exports safe_macros s f bc p debug DIMS v a b res)
             (spec_float k v a b).
Proof. exact safe_f32_meets_spec. Qed.

Theorem C02_safe_api_f64 :
  forall s f bc p debug m sf k x,
    In s safe_entries -> find_safe_macro safe_macros (s_macro s) = Some m -> safe_fn_of m f = Some sf ->
    safe_kernel s = Some k -> select_chain dispatch_chain bc p (supplied_of sf) = Some x -> x <> SNeon ->
    forall DIMS v a b res,
      s_ty s = F64 -> In k arith_kernels ->
      let l := {| len_a := length a; len_b := length b; len_r := length res; len_dims := DIMS |} in
      asserts_pass l (sf_asserts sf) = true ->
      (debug = true -> asserts_pass l (sf_debug_asserts sf) = true) ->
      xmeets (run_safe dispatch_chain run_export_f64 exports safe_macros s f bc p debug DIMS v a b res)
             (spec_float k v a b).
Proof. exact safe_f64_meets_spec. Qed.

(* What the specification says, spelled out (so that the statement above cannot hide in a definition). *)
Theorem C02_spec_reads :
  forall sg w v a b,
    spec_int sg w KAddVec v a b = SVec (map2 (fun x y => wrap w (ival sg w x + ival sg w y)) a b)
    /\ spec_int sg w KMulVal v a b = SVec (map (fun x => wrap w (ival sg w x * ival sg w v)) a)
    /\ spec_int sg w KDivVec v a b
       = (if existsb (Z.eqb 0) (firstn (length a) b) then SPanic
          else SVec (map2 (fun x y => wrap w (Z.quot (ival sg w x) (ival sg w y))) a b))
    /\ spec_int sg w KDivVal v a b
       = (if (v =? 0)%Z && negb (Nat.eqb (length a) 0) then SPanic
          else SVec (map (fun x => wrap w (Z.quot (ival sg w x) (ival sg w v))) a)).
Proof. intros. repeat split; reflexivity. Qed.

Theorem C02_float_spec_reads :
  forall (v : f32) (a b : list f32),
    spec_float KAddVec v a b = SVec (map2 (Bplus mode_NE) a b)
    /\ spec_float KSubVal v a b = SVec (map (fun x => Bminus mode_NE x v) a)
    /\ spec_float KMulVec v a b = SVec (map2 (Bmult mode_NE) a b)
    /\ spec_float KDivVal v a b = SVec (map (fun x => Bdiv mode_NE x v) a).
Proof. intros. repeat split; reflexivity. Qed.

Check C02_int. Check C02_f32. Check C02_f64.

(* Non-vacuity: the hypotheses are met by concrete runs whose results need the wrap-around / the emulated multiply
   (all operands >= 128, 35 elements = one dense block of 32 lanes... for the AVX2 i8 model: 1 register step and a
   3-element tail), and a division by a zero divisor in the tail panics. *)
Example C02_nonvacuous :
  let a := map (fun i => Z.of_nat (130 + 3 * i)) (seq 0 35) in
  let b := map (fun i => Z.of_nat (200 - i)) (seq 0 35) in
  match int_ops Avx2 U8 with
  | Some R =>
      match run_kernel R (int_math false 8) KMulVec 35 0%Z (init_mem a b (repeat 0%Z 35)) with
      | Ok RUnit m => mR m = map2 (fun x y => ((x * y) mod 256)%Z) a b /\ nth 0 (mR m) 0%Z = 144%Z
      | _ => False
      end
      /\ match run_kernel R (int_math false 8) KDivVec 35 0%Z (init_mem a (firstn 34 b ++ [0%Z]) (repeat 0%Z 35)) with
         | Panic _ => True
         | _ => False
         end
  | None => False
  end.
Proof. vm_compute. repeat split; reflexivity. Qed.
