(* C10 — no code path needs an instruction-set extension the dispatcher did not verify.

   `feature_graph` (Gen/GenFeatures.v: per register method / kernel / helper the intrinsics and functions it
   refers to, per intrinsic its stdarch #[target_feature] requirement), `exports`, `safe_entries`,
   `safe_macros`, `dispatch_chain`, `pred_defs` are regenerated from /repo and rust-src on every run.
   need_export g x = closure (x's own `features =` list ∪ requirement of every intrinsic reachable from its
   kernel through register methods, trait defaults, delegations and helpers).  [incl a b] is a ⊆ b. *)
From Coq Require Import String List Bool.
From CF Require Import Model.Tables Model.TableSem Model.Features Proofs.FeatureLemmas Proofs.FeatureProofs.
From CF Require Import Gen.GenExports Gen.GenSafe Gen.GenMacros Gen.GenDispatch Gen.GenFeatures.
Import ListNotations.
Open Scope string_scope.

(* Routines selected for AVX2 need at most AVX2 (and what AVX2 implies) ... *)
Theorem C10_avx2 :
  forall x, In x exports -> e_reg x = Avx2 -> incl (need_export feature_graph x) (closure ["avx2"]).
Proof. exact C10_avx2_proof. Qed.

(* ... those for AVX2+FMA at most AVX2 and FMA ... *)
Theorem C10_avx2fma :
  forall x, In x exports -> e_reg x = Avx2Fma -> incl (need_export feature_graph x) (closure ["avx2"; "fma"]).
Proof. exact C10_avx2fma_proof. Qed.

(* ... those for AVX-512 at most the AVX-512 subsets the dispatcher tested: [tested_slot] is computed from the
   generated bodies of the is_*_available predicates guarding the slot. *)
Theorem C10_avx512 :
  forall x, In x exports -> e_reg x = Avx512 ->
  incl (need_export feature_graph x) (closure (tested_slot pred_defs dispatch_chain SAvx512)).
Proof. exact C10_avx512_proof. Qed.

(* (NEON rows, at source level: intrinsic requirements from stdarch's aarch64 tree.) *)
Theorem C10_neon :
  forall x, In x exports -> e_reg x = Neon ->
  incl (need_export feature_graph x) (closure (tested_slot pred_defs dispatch_chain SNeon)).
Proof. exact C10_neon_proof. Qed.

(* The fallback routines, the safe wrappers themselves (everything they reach without a dispatch guard in
   front: their own attributes, the predicates, the unguarded fallback call) and the predicates need nothing
   beyond the x86-64 baseline {sse, sse2}. *)
Theorem C10_baseline :
  (forall x, In x exports -> e_reg x = Fallback -> incl (need_export feature_graph x) baseline)
  /\ (forall s m f, In s safe_entries -> find_safe_macro safe_macros (s_macro s) = Some m ->
        incl (need_safe feature_graph dispatch_chain exports m s f) baseline)
  /\ (forall p, incl (need_pred feature_graph p) baseline).
Proof. exact C10_baseline_proof. Qed.

(* No intrinsic that requires FMA is reachable from an AVX2 ("nofma") routine. *)
Theorem C10_nofma :
  forall x, In x exports -> e_reg x = Avx2 ->
  forall i, In i (reach_intr_export feature_graph x) -> ~ In "fma" (closure (intr_req feature_graph i)).
Proof. exact C10_nofma_proof. Qed.

(* Meaning of [closure] and of [tested_*]: on EVERY implication-closed feature set that contains s, all of
   closure s is available; and when a chain link's guard answered true (predicates evaluated from their
   generated bodies, in any build configuration, against any run-time oracle), every tested feature was
   detected at run time or is a compile-time target feature of the build. *)
Theorem C10_closure_sound :
  forall avail s, closed avail -> (forall f, In f s -> avail f = true) ->
  forall f, In f (closure s) -> avail f = true.
Proof. exact closure_sound. Qed.

Theorem C10_tested_sound :
  forall defs bc rt c, forallb (pout (eval_pouts defs bc rt)) (ce_guard c) = true ->
  forall f, In f (tested_entry defs c) -> rt f = true \/ mem_string f (bc_tf bc) = true.
Proof. exact tested_entry_sound. Qed.

(* Hence no safe call can need a missing extension.  For every safe routine and form, every build
   configuration (architecture, nightly, std, compile-time target features), every set of supplied slots and
   every machine whose feature set is implication-closed and contains the target's baseline and the build's
   compile-time features: the export sitting in whichever slot the macro's early-return chain selects needs
   only features that machine has. *)
Theorem C10_dispatch :
  forall s, In s safe_entries ->
  forall m f bc avail sup x e,
    machine_ok bc avail ->
    find_safe_macro safe_macros (s_macro s) = Some m ->
    select_chain dispatch_chain bc (eval_pouts pred_defs bc avail) sup = Some x ->
    slot_export exports m s f x = Some e ->
    forall ft, In ft (need_export feature_graph e) -> avail ft = true.
Proof. exact C10_dispatch_proof. Qed.

(* The same against the specified selection (C09_chain: chain = specification). *)
Theorem C10_dispatch_spec :
  forall s, In s safe_entries ->
  forall m f bc avail sup x e,
    machine_ok bc avail ->
    find_safe_macro safe_macros (s_macro s) = Some m ->
    select_spec bc (eval_pouts pred_defs bc avail) sup = Some x ->
    slot_export exports m s f x = Some e ->
    forall ft, In ft (need_export feature_graph e) -> avail ft = true.
Proof. exact C10_dispatch_spec_proof. Qed.

(* C09_guards (DESIGN §3 C09): on a machine as above, for every chain link compiled into the build, the guard
   the specification names for its slot holds under the evaluated predicates only if everything the routines
   behind the slot need (all element types together) is available — and, in a std build, whenever it is. *)
Theorem C09_guards :
  forall bc avail, machine_ok bc avail ->
  forall c, In c dispatch_chain -> eval_cfg bc (ce_cfg c) = true ->
    (guard_spec (ce_slot c) (eval_pouts pred_defs bc avail) = true ->
       forall f, In f (need_slot feature_graph exports (ce_slot c)) -> avail f = true)
    /\ (bc_std bc = true ->
        (forall f, In f (need_slot feature_graph exports (ce_slot c)) -> avail f = true) ->
        guard_spec (ce_slot c) (eval_pouts pred_defs bc avail) = true).
Proof. exact C09_guards_proof. Qed.

(* Soundness of the counterexample checker checks/c10.py uses to certify a refutation of C10_dispatch. *)
Check cex_sound.

(* Non-vacuity: the AVX-512 routines really need avx512bw and the tested set contains it; an AVX2 routine
   reaches AVX2 intrinsics; the hypotheses of C10_dispatch are satisfiable — on the closed machine generated
   by avx2 alone the chain selects the AVX2 slot, on the one generated by avx512f + avx512bw the AVX-512 one. *)
Example C10_nonvacuous :
  length (exports_of exports Avx2) = 190 /\ length (exports_of exports Avx512) = 190
  /\ match find_export exports Any "i8_xany_avx512_nofma_add_vector" with
     | Some x => e_reg x = Avx512 /\ mem_string "avx512bw" (need_export feature_graph x) = true
                 /\ mem_string "_mm512_add_epi8" (reach_intr_export feature_graph x) = true
     | None => False
     end
  /\ mem_string "avx512bw" (closure (tested_slot pred_defs dispatch_chain SAvx512)) = true
  /\ closedb (closure ["avx2"]) = true
  /\ let bc := {| bc_arch := X86_64; bc_nightly := true; bc_std := true; bc_tf := [] |} in
     let sup := {| s_avx512 := true; s_avx2fma := true; s_avx2 := true; s_neon := true |} in
     select_chain dispatch_chain bc (eval_pouts pred_defs bc (fun f => mem_string f (closure ["avx2"]))) sup
       = Some SAvx2
     /\ select_chain dispatch_chain bc
          (eval_pouts pred_defs bc (fun f => mem_string f (closure ["avx512f"; "avx512bw"]))) sup = Some SAvx512.
Proof. vm_compute. repeat split; reflexivity. Qed.
