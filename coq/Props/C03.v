(* C03 — integer sum / dot / squared norm / squared Euclidean distance are exact modulo 2^bits. *)
From Coq Require Import ZArith List Bool.
From CF Require Import Base.Mem Model.Tables Model.Prim Model.SimdApi Model.Kernels Model.Regs.
From CF Require Import Proofs.KernelBounds Proofs.ReduceCorrect Proofs.IntReduce.
Import ListNotations.

(* For ANY integer back end whose lane operations are the wrapping scalar operations lane by lane and whose
   horizontal sum is the sum of the lanes modulo 2^w ([IntLanewise]: what C13 establishes per concrete back
   end), every width w > 0, every length and all inputs given as bit patterns in [0, 2^w): the kernel
   terminates in bounds and returns the bit pattern r in [0, 2^w) congruent modulo 2^w to the mathematically
   exact value — the sum being taken in Z.  (Signed or unsigned readings give the same congruence class, so
   the statement covers i* and u* alike; dims = 0 gives 0.) *)
Theorem C03_sum_exact :
  forall w sg R a b res dims, (0 < w)%Z -> IntLanewise w R ->
    length a = dims -> Forall (in_range w) a ->
    match generic_sum R (int_math sg w) dims (init_mem a b res) with
    | Ok r m => run_ok (init_mem a b res) m /\ in_range w r /\ eqm w r (Zsum a)
    | _ => False
    end.
Proof. intros; apply sum_exact; assumption. Qed.

Theorem C03_dot_exact :
  forall w sg R a b res dims, (0 < w)%Z -> IntLanewise w R ->
    length a = dims -> Forall (in_range w) a -> length b = dims -> Forall (in_range w) b ->
    match generic_dot_product R (int_math sg w) dims (init_mem a b res) with
    | Ok r m => run_ok (init_mem a b res) m /\ in_range w r /\ eqm w r (Zsum (map2 Z.mul a b))
    | _ => False
    end.
Proof. intros; apply dot_exact; assumption. Qed.

Theorem C03_norm_exact :
  forall w sg R a b res dims, (0 < w)%Z -> IntLanewise w R ->
    length a = dims -> Forall (in_range w) a ->
    match generic_squared_norm R (int_math sg w) dims (init_mem a b res) with
    | Ok r m => run_ok (init_mem a b res) m /\ in_range w r /\ eqm w r (Zsum (map2 Z.mul a a))
    | _ => False
    end.
Proof. intros; apply norm_exact; assumption. Qed.

Theorem C03_euclid_exact :
  forall w sg R a b res dims, (0 < w)%Z -> IntLanewise w R ->
    length a = dims -> Forall (in_range w) a -> length b = dims -> Forall (in_range w) b ->
    match generic_euclidean R (int_math sg w) dims (init_mem a b res) with
    | Ok r m => run_ok (init_mem a b res) m /\ in_range w r
                /\ eqm w r (Zsum (map2 (fun x y => ((x - y) * (x - y))%Z) a b))
    | _ => False
    end.
Proof. intros; apply euclid_exact; assumption. Qed.

(* Consequence: two back ends satisfying the hypothesis return the same bit pattern. *)
Theorem C03_backend_independent :
  forall w sg R1 R2 a b res dims, (0 < w)%Z -> IntLanewise w R1 -> IntLanewise w R2 ->
    length a = dims -> Forall (in_range w) a -> length b = dims -> Forall (in_range w) b ->
    match generic_dot_product R1 (int_math sg w) dims (init_mem a b res),
          generic_dot_product R2 (int_math sg w) dims (init_mem a b res) with
    | Ok r1 _, Ok r2 _ => r1 = r2
    | _, _ => False
    end.
Proof.
  intros w sg R1 R2 a b res dims Hw I1 I2 Ha Fa Hb Fb.
  pose proof (dot_exact w Hw sg R1 I1 a b res dims Ha Fa Hb Fb) as H1.
  pose proof (dot_exact w Hw sg R2 I2 a b res dims Ha Fa Hb Fb) as H2.
  destruct (generic_dot_product R1 _ _ _) as [r1 m1| | |]; try contradiction.
  destruct (generic_dot_product R2 _ _ _) as [r2 m2| | |]; try contradiction.
  destruct H1 as (_ & Hr1 & E1). destruct H2 as (_ & Hr2 & E2).
  apply (eqm_in_range w); auto. eapply eqm_trans; [exact E1 | apply eqm_sym; exact E2].
Qed.
