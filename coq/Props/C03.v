(* C03 — integer sum / dot / squared norm / squared Euclidean distance are exact modulo 2^bits. *)
From Coq Require Import ZArith List Bool.
From CF Require Import Base.Mem Model.Tables Model.Prim Model.SimdApi Model.Kernels Model.Regs.
From CF Require Import Model.Spec Model.TableSem Model.Exports Model.Safe Proofs.SpecLink Proofs.SafeSem Gen.GenExports Gen.GenSafe Gen.GenMacros Gen.GenDispatch.
From CF Require Import Proofs.KernelBounds Proofs.ReduceCorrect Proofs.IntReduce.
Import ListNotations.

(* For ANY integer back end whose lane operations are the wrapping scalar operations lane by lane and whose
   horizontal sum is the sum of the lanes modulo 2^w ([IntLanewise]: what C13 establishes per concrete back
   end), every width w > 0, every length and all inputs given as bit patterns in [0, 2^w): the kernel
   terminates in bounds and returns the bit pattern r in [0, 2^w) congruent modulo 2^w to the mathematically
   exact value — the sum being taken in Z.  (Signed or unsigned readings give the same congruence class, so
   the statement covers i* and u* alike; dims = 0 gives 0.) *)
Theorem C03_sum_exact :
  forall w sg R a b res dims, (0 < w)%Z -> IntLanewise w R ->
    length a = dims -> Forall (in_range w) a ->
    match generic_sum R (int_math sg w) dims (init_mem a b res) with
    | Ok r m => run_ok (init_mem a b res) m /\ in_range w r /\ eqm w r (Zsum a)
    | _ => False
    end.
Proof. intros; apply sum_exact; assumption. Qed.

Theorem C03_dot_exact :
  forall w sg R a b res dims, (0 < w)%Z -> IntLanewise w R ->
    length a = dims -> Forall (in_range w) a -> length b = dims -> Forall (in_range w) b ->
    match generic_dot_product R (int_math sg w) dims (init_mem a b res) with
    | Ok r m => run_ok (init_mem a b res) m /\ in_range w r /\ eqm w r (Zsum (map2 Z.mul a b))
    | _ => False
    end.
Proof. intros; apply dot_exact; assumption. Qed.

Theorem C03_norm_exact :
  forall w sg R a b res dims, (0 < w)%Z -> IntLanewise w R ->
    length a = dims -> Forall (in_range w) a ->
    match generic_squared_norm R (int_math sg w) dims (init_mem a b res) with
    | Ok r m => run_ok (init_mem a b res) m /\ in_range w r /\ eqm w r (Zsum (map2 Z.mul a a))
    | _ => False
    end.
Proof. intros; apply norm_exact; assumption. Qed.

Theorem C03_euclid_exact :
  forall w sg R a b res dims, (0 < w)%Z -> IntLanewise w R ->
    length a = dims -> Forall (in_range w) a -> length b = dims -> Forall (in_range w) b ->
    match generic_euclidean R (int_math sg w) dims (init_mem a b res) with
    | Ok r m => run_ok (init_mem a b res) m /\ in_range w r
                /\ eqm w r (Zsum (map2 (fun x y => ((x - y) * (x - y))%Z) a b))
    | _ => False
    end.
Proof. intros; apply euclid_exact; assumption. Qed.

(* Consequence: two back ends satisfying the hypothesis return the same bit pattern. *)
Theorem C03_backend_independent :
  forall w sg R1 R2 a b res dims, (0 < w)%Z -> IntLanewise w R1 -> IntLanewise w R2 ->
    length a = dims -> Forall (in_range w) a -> length b = dims -> Forall (in_range w) b ->
    match generic_dot_product R1 (int_math sg w) dims (init_mem a b res),
          generic_dot_product R2 (int_math sg w) dims (init_mem a b res) with
    | Ok r1 _, Ok r2 _ => r1 = r2
    | _, _ => False
    end.
Proof.
  intros w sg R1 R2 a b res dims Hw I1 I2 Ha Fa Hb Fb.
  pose proof (dot_exact w Hw sg R1 I1 a b res dims Ha Fa Hb Fb) as H1.
  pose proof (dot_exact w Hw sg R2 I2 a b res dims Ha Fa Hb Fb) as H2.
  destruct (generic_dot_product R1 _ _ _) as [r1 m1| | |]; try contradiction.
  destruct (generic_dot_product R2 _ _ _) as [r2 m2| | |]; try contradiction.
  destruct H1 as (_ & Hr1 & E1). destruct H2 as (_ & Hr2 & E2).
  apply (eqm_in_range w); auto. eapply eqm_trans; [exact E1 | apply eqm_sym; exact E2].
Qed.

Definition reduction_kernels : list kernel := [KSum; KDot; KNorm; KEuclid].

(* The hypothesis [IntLanewise] holds for every modelled (register, integer type) pair of the export tables, so: for
   every such row the four reductions meet the executable specification [spec_int] - the exact sum in Z of the
   signed / unsigned readings, reduced modulo 2^w (the oracle applied to the real implementation's output). *)
Theorem C03_every_backend :
  forall r t R k a b res v dims,
    int_ops r t = Some R -> In k reduction_kernels ->
    length a = dims -> Forall (in_range (width t)) a -> in_range (width t) v ->
    (kernel_uses_b k = true -> length b = dims /\ Forall (in_range (width t)) b) ->
    meets (init_mem a b res)
          (run_kernel R (int_math (is_signed t) (width t)) k dims v (init_mem a b res))
          (spec_int (is_signed t) (width t) k v a b).
Proof.
  intros r t R k a b res v dims HR Hk Ha Fa Hv Hb.
  apply (int_export_meets_spec r t R k a b res v dims HR); auto.
  - unfold reduction_kernels in Hk. unfold int_spec_kernels. cbn [In] in *. tauto.
  - intros Hw. unfold reduction_kernels in Hk. cbn [In] in Hk.
    repeat (destruct Hk as [<-|Hk]; [discriminate Hw|]). contradiction.
Qed.

(* ... and through the SAFE API under every dispatch outcome (see Proofs/SafeSem.v). *)
Theorem C03_safe_api :
  forall s f bc p debug m sf k x,
    In s safe_entries -> find_safe_macro safe_macros (s_macro s) = Some m -> safe_fn_of m f = Some sf ->
    safe_kernel s = Some k -> select_chain dispatch_chain bc p (supplied_of sf) = Some x -> x <> SNeon ->
    forall DIMS v a b res,
      is_float (s_ty s) = false -> In k reduction_kernels ->
      let l := {| len_a := length a; len_b := length b; len_r := length res; len_dims := DIMS |} in
      asserts_pass l (sf_asserts sf) = true ->
      (debug = true -> asserts_pass l (sf_debug_asserts sf) = true) ->
      Forall (in_range (width (s_ty s))) a -> in_range (width (s_ty s)) v ->
      (kernel_uses_b k = true -> Forall (in_range (width (s_ty s))) b) ->
      xmeets (run_safe dispatch_chain run_export_int exports safe_macros s f bc p debug DIMS v a b res)
             (spec_int (is_signed (s_ty s)) (width (s_ty s)) k v a b).
Proof.
  intros s f bc p debug m sf k x Hs Hm Hsf Hk Hsel Hx DIMS v a b res Hty Hkin.
  apply (safe_int_meets_spec s f bc p debug m sf k x Hs Hm Hsf Hk Hsel Hx DIMS v a b res Hty).
  unfold reduction_kernels in Hkin. unfold int_spec_kernels. cbn [In] in *. tauto.
Qed.

(* Non-vacuity: a wrapping i8 dot product on the AVX-512 model over 200 elements. *)
Example C03_nonvacuous :
  let a := map (fun i => Z.of_nat (i mod 256)) (seq 0 200) in
  match int_ops Avx512 I8 with
  | Some R =>
      match run_kernel R (int_math true 8) KDot 200 0%Z (init_mem a a []) with
      | Ok (RValue r) _ => r = (Zsum (map (fun x => sgn 8 x * sgn 8 x) a) mod 256)%Z
      | _ => False
      end
  | None => False
  end.
Proof. vm_compute. reflexivity. Qed.
