(* C07 — the kernel model is the TRANSLATED source.

   Gen/GenKernels.v is regenerated on every run by tools/translate_kernels.py from cfavml/src/danger/op_*.rs: one
   definition [gen_generic_<k>] per `generic_*` fn (and [gen_cosine] for the helper op_cosine::cosine), a
   statement-by-statement rendering of the Rust body into the monad of Base/Mem.v (each `while` a [while_lt] with the
   bound, step and start index the source writes; each load / store at the pointer, index and position the source
   writes).  The theorems below say that these generated definitions ARE the hand-written model Model/Kernels.v —
   the object of Props/C07.v and of every other kernel theorem — so that the in-bounds theorem is literally about the
   translated source.  A changed loop bound, increment, start index, operand, load/store order, a pipelined load or a
   missing loop changes the generated term and breaks the equality of that kernel (Proofs/GenKernelsProofs.v).
   Trusted: the translator's construct-by-construct mapping (DESIGN), Base/Mem.v, Model/SimdApi.v. *)
From Coq Require Import List Arith Bool String.
From CF Require Import Base.Mem Model.Tables Model.SimdApi Model.Kernels Model.Sym.
From CF Require Import Gen.GenKernels.
From CF Require Import Proofs.KernelBounds Proofs.GenKernelsProofs.
Import ListNotations.

(* Kernel by kernel: 18 equalities of computations (by conversion), and for generic_cosine — whose hand model is not
   written flat — equality of the results on every memory (no extensionality axiom is used anywhere). *)
Theorem C07_gen_kernels_equal :
  forall (T : Type) (R : SimdOps T) (Mth : MathOps T),
    (forall dims, gen_generic_sum R Mth dims = generic_sum R Mth dims)
    /\ (forall dims, gen_generic_dot_product R Mth dims = generic_dot_product R Mth dims)
    /\ (forall dims, gen_generic_squared_norm R Mth dims = generic_squared_norm R Mth dims)
    /\ (forall dims, gen_generic_euclidean R Mth dims = generic_euclidean R Mth dims)
    /\ (forall dims m, gen_generic_cosine R Mth dims m = generic_cosine R Mth dims m)
    /\ (forall dims, gen_generic_max_horizontal R Mth dims = generic_max_horizontal R Mth dims)
    /\ (forall dims, gen_generic_min_horizontal R Mth dims = generic_min_horizontal R Mth dims)
    /\ (forall dims, gen_generic_max_vertical R Mth dims = generic_max_vertical R Mth dims)
    /\ (forall dims, gen_generic_min_vertical R Mth dims = generic_min_vertical R Mth dims)
    /\ (forall dims value, gen_generic_max_value R Mth dims value = generic_max_value R Mth dims value)
    /\ (forall dims value, gen_generic_min_value R Mth dims value = generic_min_value R Mth dims value)
    /\ (forall dims, gen_generic_add_vector R Mth dims = generic_add_vector R Mth dims)
    /\ (forall dims, gen_generic_sub_vector R Mth dims = generic_sub_vector R Mth dims)
    /\ (forall dims, gen_generic_mul_vector R Mth dims = generic_mul_vector R Mth dims)
    /\ (forall dims, gen_generic_div_vector R Mth dims = generic_div_vector R Mth dims)
    /\ (forall dims value, gen_generic_add_value R Mth dims value = generic_add_value R Mth dims value)
    /\ (forall dims value, gen_generic_sub_value R Mth dims value = generic_sub_value R Mth dims value)
    /\ (forall dims value, gen_generic_mul_value R Mth dims value = generic_mul_value R Mth dims value)
    /\ (forall dims value, gen_generic_div_value R Mth dims value = generic_div_value R Mth dims value).
Proof. exact (@gen_kernels_equal). Qed.

(* The helper op_cosine::cosine as translated (monadic; M::div is the fallible step) is the lifted hand definition. *)
Theorem C07_gen_cosine_helper :
  forall (T : Type) (Mth : MathOps T) (dot nx ny : T), gen_cosine Mth dot nx ny = lift_opt (cosine Mth dot nx ny).
Proof. exact (@gen_cosine_helper_is_model). Qed.

(* Through the uniform entry point: on every memory, running the translated kernel [k] is running the model's. *)
Theorem C07_gen_kernels_are_model :
  forall (T : Type) (R : SimdOps T) (Mth : MathOps T) (k : kernel) (dims : nat) (value : T) (m : mem T),
    gen_run_kernel R Mth k dims value m = run_kernel R Mth k dims value m.
Proof. exact (@gen_kernels_are_model). Qed.

(* Every `generic_*` fn of op_*.rs was translated (nothing fell back to "untranslated"), there are 19 of them, and
   they are exactly the routines the model's 19 kernel constants (and hence the export tables) name. *)
Theorem C07_gen_kernels_complete :
  gen_kernels_untranslated = []
  /\ List.length gen_kernel_sources = 19
  /\ gen_kernel_count = 19
  /\ forallb (fun k => str_mem (kernel_rust_name k) (map fst gen_kernel_sources)) all_kernels = true
  /\ List.length all_kernels = 19
  /\ map fst gen_helper_sources = ["cosine"%string].
Proof. exact gen_kernels_complete. Qed.

(* C07_kernels_in_bounds, transported: the statement of Props/C07.v about the TRANSLATED kernels. *)
Theorem C07_gen_kernels_in_bounds :
  forall (T : Type) (R : SimdOps T) (Mth : MathOps T) (k : kernel) (dims : nat) (v : T) (a b res : list T),
    ops_wf R ->
    List.length a = dims ->
    (kernel_uses_b k = true -> List.length b = dims) ->
    (kernel_writes k = true -> List.length res = dims) ->
    match gen_run_kernel R Mth k dims v (init_mem a b res) with
    | Ok _ m | Panic m =>
        mA m = a /\ mB m = b /\ List.length (mR m) = List.length res
        /\ Forall (fun e => ev_idx e + ev_width e <= List.length (slice_of (init_mem a b res) (ev_slice e))
                            /\ event_ok e = true) (trace m)
    | Fault _ | OutOfFuel => False
    end.
Proof. exact (@gen_kernels_in_bounds). Qed.

Check @gen_sum_is_model : forall T (R : SimdOps T) (Mth : MathOps T) dims,
    gen_generic_sum R Mth dims = generic_sum R Mth dims.
Check @gen_dot_product_is_model : forall T (R : SimdOps T) (Mth : MathOps T) dims,
    gen_generic_dot_product R Mth dims = generic_dot_product R Mth dims.
Check @gen_div_value_is_model : forall T (R : SimdOps T) (Mth : MathOps T) dims value,
    gen_generic_div_value R Mth dims value = generic_div_value R Mth dims value.
Check @gen_cosine_is_model : forall T (R : SimdOps T) (Mth : MathOps T) dims m,
    gen_generic_cosine R Mth dims m = generic_cosine R Mth dims m.

(* Non-vacuity: the translated division kernel really runs (3 lanes, 53 elements: 2 dense blocks, 1 register,
   2 scalars; two loads and one store per step), through the same symbolic back end as Props/C07.v. *)
Example C07_gen_nonvacuous :
  match gen_run_kernel (sym_ops 3) (sym_math false false false) KDivVec 53 TValue (sym_mem 53 53 53) with
  | Ok RUnit m => List.length (trace m) = 2 * (3 * 8) + 1 * 3 + 2 * 3 /\ List.length (mR m) = 53
  | _ => False
  end.
Proof. vm_compute. split; reflexivity. Qed.
