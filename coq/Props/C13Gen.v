(* C13 — the register abstraction is lane-wise faithful: the GENERATED instruction-level model.

   Gen/GenRegs.v is regenerated on every run by tools/translate_regs.py from impl_fallback.rs / impl_avx2.rs /
   impl_avx2_fma.rs / impl_avx512.rs / impl_neon.rs and core_simd_api.rs: one definition per (register, element type,
   trait method) whose body is straight-line code, over the intrinsic vocabulary of Model/Intrinsics.v (integer vectors
   are BYTE lists, so that an `i8` multiply written with 16-bit instructions is modelled as written).  The theorems
   below say that every such definition, on the encoding of arbitrary well-formed registers, computes what the
   lane-level model says (Model/Regs.v for x86 — which Props/C13.v proves lane-wise faithful —, the lane-wise scalar
   specification for NEON, `fallback_ops` for Fallback).  A changed intrinsic, immediate, operand order or delegation
   target in the source changes the generated definition and breaks the generated lemma of that method.
   Scalar loops over the transmuted lanes (integer `div` of every vector back end, NEON i64/u64 `mul` / `max` / `min`)
   are rendered with the loop / array-store / panic vocabulary of Model/RustLoops.v; their generated definitions are
   OPTION-valued (None = panic) and the lemma states when they panic as well as what they return.
   Trusted: Model/Intrinsics.v (meaning of the intrinsics), Model/RustLoops.v (loop, array store, panic) and the
   translator. *)
From Coq Require Import ZArith List Bool String.
From Flocq Require Import IEEE754.BinarySingleNaN.
From CF Require Import Model.Tables Model.Prim Model.SimdApi Model.Regs Model.Intrinsics Model.RustLoops Model.RegTable.
From CF Require Import Gen.GenRegs.
From CF Require Import Proofs.ListFacts Proofs.ReduceCorrect Proofs.IntReduce Proofs.IntBackends Proofs.FloatBackends
     Proofs.GenRegsSpec Proofs.GenRegsProofs Proofs.NeonSpec.
Import ListNotations.

(* every generated definition refines the lane-level model of its back end
   (statement schema: Proofs/GenRegsSpec.reg_goal / method_goal) *)
Theorem C13_gen_refines : Forall entry_goal gen_reg_table.
Proof. exact gen_regs_refine. Qed.

(* Fallback (one generic impl): for every element type and every Math implementation *)
Theorem C13_gen_fallback : Forall fb_entry_goal gen_fallback_table.
Proof. exact gen_fallback_refine. Qed.

(* what the translator reports as translated is exactly what is proved *)
Theorem C13_gen_keys : (map fb_key gen_fallback_table ++ map entry_key gen_reg_table)%list = gen_reg_methods.
Proof. exact gen_table_keys. Qed.

Theorem C13_gen_counts :
  Z.of_nat (List.length gen_fallback_table + List.length gen_reg_table) = snd gen_reg_counts
  /\ Z.of_nat (List.length gen_reg_methods + List.length gen_reg_untranslated) = fst gen_reg_counts.
Proof. exact gen_counts. Qed.

(* the lane-wise methods of every back end (now including integer div / div_dense and, on NEON, all eight integer
   types), their dense forms and roll-ups and the horizontal folds ARE in the table (a method that became
   untranslatable would otherwise silently leave the theorem above); NOT in it: load / write (raw pointers; Props/C07Mem.v),
   the AVX2 f64 sum_to_value (poison register + bit-casts) and Fallback elements_per_lane / elements_per_dense
   (mem::size_of of the generic type) — see Gen/GenRegs.gen_reg_untranslated *)
Theorem C13_gen_priority_covered :
  covered Avx2 int_tys (MDiv :: MDivDense :: lane_methods ++ fold_methods)%list = true
  /\ covered Avx2 float_tys (MDiv :: MDivDense :: MMaxToValue :: MMinToValue :: lane_methods) = true
  /\ covered Avx2Fma float_tys (MDiv :: MDivDense :: MMaxToValue :: MMinToValue :: lane_methods) = true
  /\ covered Avx2 [F32] [MSumToValue] = true /\ covered Avx2Fma [F32] [MSumToValue] = true
  /\ covered Avx512 int_tys (MDiv :: MDivDense :: lane_methods ++ fold_methods)%list = true
  /\ covered Avx512 float_tys (MDiv :: MDivDense :: lane_methods ++ fold_methods)%list = true
  /\ covered Neon int_tys (MDiv :: MDivDense :: lane_methods ++ fold_methods)%list = true
  /\ covered Neon float_tys (MDiv :: MDivDense :: lane_methods ++ fold_methods)%list = true
  /\ fb_covered (MDiv :: MDivDense :: lane_methods_fb ++ fold_methods)%list = true.
Proof. exact gen_priority_covered. Qed.

(* which generated definitions may panic (option-valued shape): exactly integer div / div_dense, and on NEON the 64-bit
   mul / max / min scalar loops with what is built on them — for these the lemma proves they never do; a method that
   starts (or stops) being able to panic changes shape and breaks this *)
Theorem C13_gen_opt_shapes :
  forallb (fun e => let '(r, t, m, g) := e in Bool.eqb (is_opt g) (opt_expected r t m)) gen_reg_table = true.
Proof. exact gen_opt_shapes. Qed.

Theorem C13_gen_covered_refines :
  forall r t m, has_entry r t m = true -> exists g, In (r, t, m, g) gen_reg_table /\ reg_goal r t m g.
Proof. exact gen_covered_refines. Qed.

(* instances, spelled out *)
Theorem C13_gen_avx2_u8_mul :
  forall x y, List.length x = 32 -> List.length y = 32 -> Forall (in_range 8) x -> Forall (in_range 8) y ->
    lanes_of 8 (gen_Avx2_u8_mul (bytes_of 8 x) (bytes_of 8 y)) = r_mul (avx2_int_ops false 8) x y
    /\ lanes_of 8 (gen_Avx2_u8_mul (bytes_of 8 x) (bytes_of 8 y)) = map2 (i_mul 8) x y.
Proof. exact gen_avx2_u8_mul. Qed.

(* integer division: value AND panic behaviour *)
Theorem C13_gen_avx2_i8_div :
  forall x y, List.length x = 32 -> List.length y = 32 -> Forall (in_range 8) x -> Forall (in_range 8) y ->
    option_map (lanes_of 8) (gen_Avx2_i8_div (bytes_of 8 x) (bytes_of 8 y)) = r_div (avx2_int_ops true 8) x y
    /\ option_map (lanes_of 8) (gen_Avx2_i8_div (bytes_of 8 x) (bytes_of 8 y)) = sequence (map2 (i_div true 8) x y)
    /\ (gen_Avx2_i8_div (bytes_of 8 x) (bytes_of 8 y) = None <-> In 0%Z y).
Proof. exact gen_avx2_i8_div. Qed.

Theorem C13_gen_neon_u64_max :
  forall x y, List.length x = 2 -> List.length y = 2 -> Forall (in_range 64) x -> Forall (in_range 64) y ->
    option_map (lanes_of 64) (gen_Neon_u64_max (bytes_of 64 x) (bytes_of 64 y)) = Some (map2 (i_max false 64) x y).
Proof. exact gen_neon_u64_max. Qed.

Theorem C13_gen_neon_i8_add :
  forall x y, List.length x = 16 -> List.length y = 16 -> Forall (in_range 8) x -> Forall (in_range 8) y ->
    lanes_of 8 (gen_Neon_i8_add (bytes_of 8 x) (bytes_of 8 y)) = map2 (i_add 8) x y.
Proof. exact gen_neon_i8_add. Qed.

Theorem C13_gen_neon_f32_fmadd :
  forall x y z : list f32, gen_Neon_f32_fmadd x y z = map3 f_fma x y z.
Proof. exact gen_neon_f32_fmadd. Qed.

(* the NEON lane-wise specification the NEON definitions are measured against is itself lane-wise faithful in the
   sense of Props/C13.v (same records as the x86 models) *)
Theorem C13_neon_spec_int :
  forall sg w, In w widths -> IntLanewise w (neon_int_ops sg w) /\ IntElementwise w sg (neon_int_ops sg w).
Proof. intros sg w H. split; [exact (neon_int_lanewise sg w H) | exact (neon_int_elementwise sg w H)]. Qed.

(* ... floats: correctly rounded lane arithmetic, FUSED fmadd, FMAX / FMIN selecting for the numeric order on non-NaN
   lanes, sum = an addition tree over exactly the lanes, max / min folds bound every lane *)
Theorem C13_neon_spec_f32 : forall R, f32_model Neon = Some R -> FloatLanewise R neon_fmax neon_fmin true.
Proof. exact neon_f32_faithful. Qed.
Theorem C13_neon_spec_f64 : forall R, f64_model Neon = Some R -> FloatLanewise R neon_fmax neon_fmin true.
Proof. exact neon_f64_faithful. Qed.

Check C13_gen_refines. Check reg_goal. Check method_goal.

(* Non-vacuity: the generated AVX2 u8 multiply RUN on bytes >= 128 (where a signed or saturating slip would show), the
   generated AVX2 u64 max across the sign bit, the generated AVX-512 i8 multiply (mask_blend form), NEON u16 min; the
   generated AVX2 i8 division loop: -128 / -1 wraps to -128, -7 / 2 truncates to -3, a zero divisor lane panics; the NEON
   u64 max loop across the sign bit. *)
Example C13_gen_nonvacuous :
  gen_Avx2_u8_mul (map Z.of_nat (seq 224 32)) (repeat 255%Z 32) = map (fun i => (Z.of_nat (224 + i) * 255 mod 256)%Z) (seq 0 32)
  /\ lanes_of 64 (gen_Avx2_u64_max (bytes_of 64 [1; 2 ^ 63; 5; 2 ^ 64 - 1]%Z) (bytes_of 64 [2 ^ 63 + 1; 7; 5; 0]%Z))
     = [2 ^ 63 + 1; 2 ^ 63; 5; 2 ^ 64 - 1]%Z
  /\ gen_Avx512_i8_mul (map Z.of_nat (seq 100 64)) (repeat 3%Z 64) = map (fun i => (Z.of_nat (100 + i) * 3 mod 256)%Z) (seq 0 64)
  /\ lanes_of 16 (gen_Neon_u16_min (bytes_of 16 [1; 65535; 300; 4; 5; 6; 7; 32768]%Z) (bytes_of 16 [2; 1; 299; 4; 0; 7; 6; 32767]%Z))
     = [1; 1; 299; 4; 0; 6; 6; 32767]%Z
  /\ option_map (lanes_of 8) (gen_Avx2_i8_div ([128; 249; 100]%Z ++ repeat 6%Z 29)%list ([255; 2; 7]%Z ++ repeat 3%Z 29)%list)
     = Some ([128; 253; 14]%Z ++ repeat 2%Z 29)%list
  /\ gen_Avx2_i8_div (repeat 1%Z 32) (repeat 1%Z 31 ++ [0%Z])%list = None
  /\ option_map (lanes_of 64) (gen_Neon_u64_max (bytes_of 64 [1; 2 ^ 63]%Z) (bytes_of 64 [2 ^ 63 + 1; 7]%Z))
     = Some [2 ^ 63 + 1; 2 ^ 63]%Z.
Proof. vm_compute. repeat split; reflexivity. Qed.
