(* C13 — the register abstraction is lane-wise faithful.

   The register models of Model/Regs.v mirror impl_fallback.rs / impl_avx2.rs / impl_avx2_fma.rs / impl_avx512.rs:
   plain lane-wise intrinsics have their lane semantics, and wherever the Rust EMULATES an operation out of other
   intrinsics (8-bit multiply through 16-bit words and a byte blend, 64-bit multiply from 32-bit partial products,
   64-bit max/min by compare + byte blend with a sign-bit flip for unsigned, horizontal folds through half
   extraction / strided scalar accumulators / the stdarch reduce trees) the model follows the instruction sequence.
   The theorems say that, for ALL register contents, every such model computes the lane-wise scalar operation.
   Tie to the code: correspondence (B), checks/regrun.py — every method of every executable SimdRegister<T> impl
   against these models (8-bit lanes: all 2^16 operand pairs). *)
From Coq Require Import ZArith List Bool Permutation.
From Flocq Require Import IEEE754.BinarySingleNaN.
From CF Require Import Base.Mem Model.Tables Model.Prim Model.SimdApi Model.Kernels Model.Regs.
From CF Require Import Proofs.KernelBounds Proofs.ReduceCorrect Proofs.IntReduce Proofs.IntBackends Proofs.Extreme
     Proofs.FloatOrder Proofs.FloatBackends Proofs.BackendTable Proofs.MemProofs.
From CF Require Proofs.RegArith.
Import ListNotations.

(* Integer back ends.  [IntLanewise w R]: zeroed = all-zero lanes; add / sub / mul are the wrapping scalar operation in
   every lane; fmadd = mul then add; add/sub/fmadd dense forms are the register forms applied to the 8 registers;
   sum_to_value is congruent to the sum of the lanes modulo 2^w.  [IntElementwise w sg R]: filled = L copies;
   max / min are the signed/unsigned scalar max / min per lane; div is the per-lane truncating division, None
   (panic) iff some divisor lane is zero; mul/max/min/div dense forms likewise; max/min_to_value return the
   maximum / minimum of the lane readings. *)
Theorem C13_int :
  forall r t R, int_ops r t = Some R ->
    IntLanewise (width t) R /\ IntElementwise (width t) (is_signed t) R /\ (0 < width t)%Z
    /\ Z.of_nat (lanes R) = match r with Fallback => 1%Z | _ => (reg_bits r / width t)%Z end.
Proof.
  intros r t R H. destruct (int_ops_faithful r t R H) as (A & B & C).
  split; [exact A|]. split; [exact B|]. split; [exact C|]. apply int_ops_lanes. exact H.
Qed.

(* every integer type x {Fallback, Avx2, Avx2Fma (= the Avx2 integer code), Avx512} has a model *)
Theorem C13_int_covered :
  forall r t, is_float t = false -> r <> Neon -> exists R, int_ops r t = Some R.
Proof. intros r t Ht Hr. unfold int_ops. rewrite Ht. destruct r; try (eexists; reflexivity). contradiction. Qed.

(* The emulated integer operations, stated on their own (all operand values). *)
Theorem C13_mul8_emulation :
  forall x y, length x = length y -> Forall (in_range 8) x -> Forall (in_range 8) y -> Nat.even (length x) = true ->
    mul8 x y = map2 (i_mul 8) x y.
Proof.
  intros x y Hl Fx Fy Hev.
  destruct (Nat.even_spec (length x)) as [Hs _]. destruct (Hs Hev) as [n Hn].
  apply (RegArith.mul8_correct x y); auto.
Qed.
Theorem C13_mul64_emulation :
  forall x y, in_range 64 x -> in_range 64 y -> mul64_emul x y = i_mul 64 x y.
Proof. exact RegArith.mul64_emul_correct. Qed.
Theorem C13_max64_emulation :
  forall sg x y, in_range 64 x -> in_range 64 y ->
    max64_emul sg x y = i_max sg 64 x y /\ min64_emul sg x y = i_min sg 64 x y.
Proof. intros. split; [apply RegArith.max64_emul_correct | apply RegArith.min64_emul_correct]; assumption. Qed.

(* Float back ends: [FloatLanewise R vmax vmin fused] (Proofs/FloatBackends.v): add / sub / mul / div are Flocq's
   correctly rounded operations per lane (div never None), fmadd is lane-wise Bfma (ONE rounding) when [fused] and
   mul-then-add (two roundings) otherwise, max / min are [vmax] / [vmin] per lane, every dense method is the register
   method applied to the eight registers (including the overridden fmadd_dense of the unfused back ends),
   sum_to_value is an addition tree whose leaves are exactly the lanes, max/min_to_value select a lane that bounds
   all lanes (non-NaN lanes).  Fused exactly for Avx2Fma and Avx512; x86 lane max/min for the x86 back ends. *)
Theorem C13_f32 :
  forall r R, f32_ops r = Some R ->
    FloatLanewise R (lane_max r) (lane_min r) (fused_reg r)
    /\ Z.of_nat (lanes R) = match r with Fallback => 1%Z | _ => (reg_bits r / 32)%Z end.
Proof. intros r R H. split; [apply f32_ops_faithful | apply f32_ops_lanes]; exact H. Qed.
Theorem C13_f64 :
  forall r R, f64_ops r = Some R ->
    FloatLanewise R (lane_max r) (lane_min r) (fused_reg r)
    /\ Z.of_nat (lanes R) = match r with Fallback => 1%Z | _ => (reg_bits r / 64)%Z end.
Proof. intros r R H. split; [apply f64_ops_faithful | apply f64_ops_lanes]; exact H. Qed.

Theorem C13_fused_exactly :
  forall r, @fused_reg r = match r with Avx2Fma | Avx512 => true | _ => false end.
Proof. reflexivity. Qed.

(* the lane max / min of every back end are selecting operations for the numeric order *)
Theorem C13_lane_minmax :
  forall prec emax (Hp : FLX.Prec_gt_0 prec) (He : Prec_lt_emax prec emax) r,
    selecting okf fle (@lane_max prec emax r) /\ selecting okf fge (@lane_min prec emax r).
Proof. intros. split; [apply lane_max_selecting | apply lane_min_selecting]. Qed.

(* load / write: a register load returns exactly the L elements at the index; writing a register back to where it was
   loaded from changes nothing; a write changes exactly the L cells it targets. *)
Theorem C13_load_write :
  forall (T : Type) (l v : list T) i,
    i + length v <= length l ->
    length (splice l i v) = length l
    /\ firstn i (splice l i v) = firstn i l
    /\ skipn (i + length v) (splice l i v) = skipn (i + length v) l
    /\ firstn (length v) (skipn i (splice l i v)) = v.
Proof.
  intros T l v i H. split; [apply length_splice; exact H|].
  split; [apply firstn_splice_before; Lia.lia|]. split; [apply skipn_splice_after; exact H|].
  unfold splice. rewrite skipn_app, firstn_length, Nat.min_l by Lia.lia.
  rewrite skipn_all2 by (rewrite firstn_length; Lia.lia). rewrite Nat.sub_diag. cbn [skipn app].
  rewrite firstn_app, Nat.sub_diag, firstn_all. cbn [firstn]. apply app_nil_r.
Qed.

Check C13_int. Check C13_f32. Check C13_f64.

(* Non-vacuity: the AVX2 u8 multiply model on lanes >= 128 (where a saturating or signed mistake would show), the
   AVX2 u64 max across the sign bit, the AVX-512 f32 sum tree on 16 distinct lanes. *)
Example C13_nonvacuous :
  match int_ops Avx2 U8 with
  | Some R => r_mul R (map Z.of_nat (seq 224 32)) (repeat 255%Z 32) = map (fun i => (Z.of_nat (224 + i) * 255 mod 256)%Z) (seq 0 32)
  | None => False
  end
  /\ match int_ops Avx2 U64 with
     | Some R => r_max R [1; 2 ^ 63; 5; 2 ^ 64 - 1]%Z [2 ^ 63 + 1; 7; 5; 0]%Z = [2 ^ 63 + 1; 2 ^ 63; 5; 2 ^ 64 - 1]%Z
                 /\ r_max_to_value R [1; 2 ^ 63; 5; 2 ^ 63 + 9]%Z = (2 ^ 63 + 9)%Z
     | None => False
     end
  /\ match f32_ops Avx512 with
     | Some R => bits_of_f32 (r_sum_to_value R (map (fun i => f32_of_bits (1065353216 + 8388608 * Z.of_nat i)) (seq 0 16)))
                 = bits_of_f32 (f_of_Z 65535)
     | None => False
     end.
Proof. vm_compute. repeat split; reflexivity. Qed.
