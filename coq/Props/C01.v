(* C01 — the safe API never reads or writes outside the slices it is given; every mismatch panics.
   `safe_macros` is regenerated from the macro_rules! definitions in safe_*.rs on every run. *)
From Coq Require Import String List Bool Arith.
From CF Require Import Model.Tables Model.TableSem Proofs.TableProofs Proofs.FactsAsserts.
From CF Require Import Gen.GenMacros.
Import ListNotations.

(* For each of the 8 safe macros and both forms: whenever the generated assert_eq! list passes on the actual
   lengths (len a, len b, len result, DIMS), every equality the selected routine relies on holds:
   DIMS = len a (const form), len b = len a (if it takes b), len result = len a (if it writes).
   Contrapositive: a length or dimension that does not match is always reported by a panic, never an
   out-of-bounds access (C07 applies to the call) and never a silent computation over another length. *)
Theorem C01_asserts_entail_fit :
  forall m f sf l,
    In m safe_macros -> safe_fn_of m f = Some sf ->
    asserts_pass l (sf_asserts sf) = true -> lens_fit f (sf_params sf) l.
Proof. exact C01_asserts_proof. Qed.

Theorem C01_every_macro_has_both_forms :
  forall m, In m safe_macros -> exists c a, safe_fn_of m Const = Some c /\ safe_fn_of m Any = Some a.
Proof. exact C01_forms_proof. Qed.

Example C01_nonvacuous :
  length safe_macros = 8 /\
  exists m sf, In m safe_macros /\ safe_fn_of m Const = Some sf /\
               asserts_pass {| len_a := 3; len_b := 3; len_r := 3; len_dims := 3 |} (sf_asserts sf) = true
               /\ asserts_pass {| len_a := 3; len_b := 3; len_r := 3; len_dims := 2 |} (sf_asserts sf) = false.
Proof.
  split; [reflexivity|]. eexists. eexists. split; [left; reflexivity|]. vm_compute. repeat split.
Qed.
