(* C01 — the safe API never reads or writes outside the slices it is given; every mismatch panics.
   `safe_macros` is regenerated from the macro_rules! definitions in safe_*.rs on every run. *)
From Coq Require Import String List Bool Arith.
From CF Require Import Model.Tables Model.TableSem Proofs.TableProofs Proofs.FactsAsserts.
From CF Require Import Model.Exports Model.Safe Proofs.SafeSem Gen.GenExports Gen.GenSafe Gen.GenMacros Gen.GenDispatch.
Import ListNotations.

(* For each of the 8 safe macros and both forms: whenever the generated assert_eq! list passes on the actual
   lengths (len a, len b, len result, DIMS), every equality the selected routine relies on holds:
   DIMS = len a (const form), len b = len a (if it takes b), len result = len a (if it writes).
   Contrapositive: a length or dimension that does not match is always reported by a panic, never an
   out-of-bounds access (C07 applies to the call) and never a silent computation over another length. *)
Theorem C01_asserts_entail_fit :
  forall m f sf l,
    In m safe_macros -> safe_fn_of m f = Some sf ->
    asserts_pass l (sf_asserts sf) = true -> lens_fit f (sf_params sf) l.
Proof. exact C01_asserts_proof. Qed.

Theorem C01_every_macro_has_both_forms :
  forall m, In m safe_macros -> exists c a, safe_fn_of m Const = Some c /\ safe_fn_of m Any = Some a.
Proof. exact C01_forms_proof. Qed.

(* In the semantics of the generated tables (Model/Safe.run_safe): a call the wrapper's assert list rejects panics -
   whatever the element type, the routine run by the selected slot, the build configuration, the dispatch outcome. *)
Theorem C01_mismatch_panics :
  forall s f bc p debug m sf, find_safe_macro safe_macros (s_macro s) = Some m -> safe_fn_of m f = Some sf ->
  forall (T : Type) (rx : export -> form -> bool -> nat -> T -> list T -> list T -> list T -> xoutcome T)
         DIMS v a b res,
    asserts_pass {| len_a := List.length a; len_b := List.length b; len_r := List.length res; len_dims := DIMS |} (sf_asserts sf) = false ->
    run_safe dispatch_chain rx exports safe_macros s f bc p debug DIMS v a b res = XPanicAssert.
Proof. exact safe_mismatch_panics. Qed.

(* ... and a call it accepts is run, by whichever slot the chain selects, with dims = len a on slices of exactly that
   length (so C07's bounds theorem applies to the call): *)
Theorem C01_accepted_calls_fit :
  forall s f bc p m sf k x, In s safe_entries -> find_safe_macro safe_macros (s_macro s) = Some m ->
    safe_fn_of m f = Some sf -> safe_kernel s = Some k ->
    select_chain dispatch_chain bc p (supplied_of sf) = Some x ->
    (exists e, slot_export exports m s f x = Some e /\ e_ty e = s_ty s /\ e_op e = k /\ e_reg e = allowed_backend x (s_ty s))
    /\ forall (T : Type) DIMS (a b res : list T),
         asserts_pass {| len_a := List.length a; len_b := List.length b; len_r := List.length res; len_dims := DIMS |} (sf_asserts sf) = true ->
         dims_of f DIMS (List.length a) = List.length a
         /\ (Kernels.kernel_uses_b k = true -> List.length b = List.length a)
         /\ (Kernels.kernel_writes k = true -> List.length res = List.length a).
Proof.
  intros s f bc p m sf k x Hs Hm Hsf Hk Hsel. split.
  - exact (selected_export s f bc p x m sf k Hs Hm Hsf Hk Hsel).
  - intros T DIMS a b res. exact (asserts_give_fit s f m sf k Hs Hm Hsf Hk DIMS a b res).
Qed.

Example C01_nonvacuous :
  length safe_macros = 8 /\
  exists m sf, In m safe_macros /\ safe_fn_of m Const = Some sf /\
               asserts_pass {| len_a := 3; len_b := 3; len_r := 3; len_dims := 3 |} (sf_asserts sf) = true
               /\ asserts_pass {| len_a := 3; len_b := 3; len_r := 3; len_dims := 2 |} (sf_asserts sf) = false.
Proof.
  split; [reflexivity|]. eexists. eexists. split; [left; reflexivity|]. vm_compute. repeat split.
Qed.
