(* C11 — every exported routine does what its name says, on the back end its name says.
   Statements only; proofs live in Proofs/.  `exports`, `export_macros` are regenerated from
   danger/export_*.rs on every run. *)
From Coq Require Import String List Bool.
From CF Require Import Model.Tables Model.TableSem Proofs.TableProofs Proofs.FactsExports.
From CF Require Import Gen.GenExports Gen.GenMacros.
From Coq Require Import ZArith.
From CF Require Import Model.Prim Model.Kernels Model.Exports Model.Spec Proofs.ReduceCorrect Proofs.SpecLink Proofs.SafeSem.
Import ListNotations.

(* Re-assembling <ty>_x<form>_<arch>_<fma|nofma>_<op> from the row's element type, register and generic
   routine gives exactly the identifier the macro invocation exports — for all 768 rows and both forms
   (NEON rows included: this is their source-level check). *)
Theorem C11_names :
  forall e f, In e exports -> e_name f e = export_name_spec f (e_ty e) (e_reg e) (e_op e).
Proof. exact C11_names_proof. Qed.

(* Each row is expanded by a macro arm that generates exactly the two routines, calling
   `$op::<_, $register, AutoMath>` with the kernel's own argument list, declares no target feature
   outside its back end's, and sits in a module compiled exactly where its register type exists. *)
Theorem C11_rows_well_formed : forall e, In e exports -> export_row_ok export_macros e = true.
Proof. exact C11_rows_proof. Qed.

Theorem C11_names_unique : nodup_strings (all_export_names exports) = true.
Proof. exact export_names_unique. Qed.

(* A `nofma` name never denotes a fused routine and an `fma` name always does. *)
Theorem C11_fma_tag :
  forall e, In e exports ->
    (kernel_uses_fmadd (e_op e) && fused (e_reg e) (e_ty e) = true
     <-> e_xany e = (ty_name (e_ty e) ++ "_xany_" ++ arch_tag (e_reg e) ++ "_fma_" ++ kernel_opname (e_op e))%string).
Proof. exact C11_fma_tag_proof. Qed.

(* Semantics follows the name: for every row of the table with an integer element type on a modelled register, a
   documented call of either form (release or debug build) meets the specification of the row's operation
   [e_op e] - and by C11_names the exported identifier spells exactly (e_ty e, e_reg e, e_op e). *)
Theorem C11_semantics_int :
  forall e f debug DIMS v a b res,
    In e exports -> is_float (e_ty e) = false -> e_reg e <> Neon -> In (e_op e) int_spec_kernels ->
    dims_of f DIMS (List.length a) = List.length a ->
    (kernel_uses_b (e_op e) = true -> List.length b = List.length a) ->
    (kernel_writes (e_op e) = true -> List.length res = List.length a) ->
    Forall (in_range (width (e_ty e))) a -> in_range (width (e_ty e)) v ->
    (kernel_uses_b (e_op e) = true -> Forall (in_range (width (e_ty e))) b) ->
    e_name f e = export_name_spec f (e_ty e) (e_reg e) (e_op e)
    /\ xmeets (run_export_int e f debug DIMS v a b res)
              (spec_int (is_signed (e_ty e)) (width (e_ty e)) (e_op e) v a b).
Proof.
  intros e f debug DIMS v a b res He Hty Hreg Hk Hd Hb Hr Fa Hv Fb. split.
  - apply C11_names_proof. exact He.
  - apply export_row_int_meets_spec; assumption.
Qed.

Check C11_names : forall e f, In e exports -> e_name f e = export_name_spec f (e_ty e) (e_reg e) (e_op e).

(* Non-vacuity: the table is not empty and contains rows of every back end. *)
Example C11_nonvacuous :
  length exports = 768 /\ forallb (fun r => existsb (fun e => reg_eqb (e_reg e) r) exports) all_regs = true.
Proof. vm_compute. split; reflexivity. Qed.
