(* C14 — the core library allocates nothing and builds without std (source-level part).

   [crate_graph] (Gen/GenCrate.v) is regenerated on every run by tools/translate_crate.py from
   /repo/cfavml: Cargo.toml, the crate attributes of lib.rs, the module tree reached through `mod`
   declarations with every cfg condition, and for every non-test item (fn, impl header and method, macro
   definition BODY, item-position macro invocation, const, static, type, trait, use, extern crate) what it
   mentions: first path segments, macro invocations, `f32::`/`f64::` functions and the tokens of the
   allocating vocabulary, each with the cfg attributes that enclose it inside the item.
   Model/CrateGraph.v says which of these are compiled in a build configuration
   bc = (target_arch, feature "nightly", feature "std", compile-time target features; test/miri/docsrs off)
   and how a mention is classified.  The theorems hold for EVERY bc (any architecture — the graph only
   distinguishes x86, x86_64, aarch64 and "other" — and any target-feature set: no cfg attribute on a non-test
   item looks at one).

   What a vocabulary cannot decide — that the compiled code really calls no allocator and references nothing
   outside core — is decided on the compiled library by checks/c14.py (symbol tables of the rlibs in four
   configurations; a counting global allocator around every public routine). *)
From Coq Require Import String List Bool NArith.
From CF Require Import Model.Tables Model.TableSem Model.CrateGraph Gen.GenCrate Proofs.CrateProofs.
Import ListNotations.
Open Scope string_scope.

(* With the cargo feature `std` off (default-features = false), in every configuration: the crate carries
   `#![no_std]`, and every item that is compiled and everything it mentions resolves inside `core` or inside the
   crate itself: no `std::`/`alloc::`/other-crate path, no `extern crate` other than core, only macros of core or
   of the crate, no std-only float function, nothing of the allocating vocabulary.  In particular a path whose
   first segment is an external crate (sysroot crate, any crate of Cargo.toml, any `extern crate`) is rooted in
   `core`. *)
Theorem C14_nostd :
  forall bc, bc_std bc = false ->
    has_no_std crate_graph bc = true /\
    forall it, In it (cg_items crate_graph) -> item_active crate_graph bc it = true ->
      (classify_item it = ClCore \/ classify_item it = ClCrate) /\
      forall m, In m (it_mentions it) -> eval_cfg bc (mn_cfg m) = true ->
        (classify crate_graph m = ClCore \/ classify crate_graph m = ClCrate)
        /\ ((mn_kind m = MkPath \/ mn_kind m = MkGlobal) ->
            is_external_root crate_graph (mn_root m) = true -> mn_root m = "core").
Proof. exact nostd_holds. Qed.

(* The mechanism named by the property: `#![cfg_attr(not(feature = "std"), no_std)]` — the crate is no_std EXACTLY
   when the cargo feature `std` is off, for every architecture, nightly on or off, any target-feature set. *)
Theorem C14_nostd_exact :
  forall bc, has_no_std crate_graph bc = negb (bc_std bc).
Proof. exact nostd_exact_holds. Qed.

(* No configuration compiles an `extern crate` declaration other than `extern crate core`: `alloc` and `std` are
   never pulled in by name, neither unconditionally nor behind cfg(feature = "std") (an `extern crate alloc` behind
   the std feature is exactly the change the property's rationale worries about). *)
Theorem C14_no_extern_crate :
  forall bc it, In it (cg_items crate_graph) -> item_active crate_graph bc it = true ->
    it_kind it = IExternCrate -> it_name it = "core".
Proof. exact extern_crate_holds. Qed.

(* Cargo.toml: every dependency table entry is a dev-dependency (so `[dependencies]`, `[build-dependencies]`
   and every `[target.*.dependencies]` are empty: nothing is linked into the library); there is no build script
   (nothing can inject cfg flags) and no proc-macro; `std` is a plain switch that is part of `default` and is not
   implied by `nightly` (so {std off} x {nightly on/off} are reachable configurations). *)
Theorem C14_deps :
  (forall d, In d (cg_deps crate_graph) -> dp_dev d = true) /\
  cg_build_script crate_graph = false /\ cg_proc_macro crate_graph = false /\
  feature_enables crate_graph "std" = [] /\ mem_string "std" (feature_enables crate_graph "default") = true /\
  mem_string "std" (feature_enables crate_graph "nightly") = false.
Proof. exact deps_hold. Qed.

(* In EVERY configuration no compiled item mentions a token of the allocating vocabulary (alloc_idents,
   alloc_methods, alloc_macros, the `alloc` crate), another crate, an unknown macro or an un-audited use of std;
   the only uses of std are the audited non-allocating ones — `std::arch::is_*_feature_detected!` and the
   inherent `f32/f64::sqrt|abs` — and they are compiled only when the `std` feature is on. *)
Theorem C14_noalloc :
  forall bc it, In it (cg_items crate_graph) -> item_active crate_graph bc it = true ->
    noalloc_class bc (classify_item it) /\
    forall m, In m (it_mentions it) -> eval_cfg bc (mn_cfg m) = true -> noalloc_class bc (classify crate_graph m).
Proof. exact noalloc_holds. Qed.

(* What the translator left out is really test-only: an item whose mentions were dropped, and a module that was
   not descended into, is compiled in no modelled configuration (its cfg chain implies `test`). *)
Theorem C14_test_only_items :
  forall bc it, In it (cg_items crate_graph) -> it_test it = true -> item_active crate_graph bc it = false.
Proof. exact test_only_holds. Qed.

Theorem C14_test_only_modules :
  forall bc i m, In (i, m) (enumerate 0 (cg_modules crate_graph)) -> md_test m = true ->
    exists gs, module_guards crate_graph (depth_fuel crate_graph) i = Some gs /\ forallb (eval_cfg bc) gs = false.
Proof. exact test_modules_hold. Qed.

(* Unstable `#![feature(..)]` gates are active only with the `nightly` feature: every other configuration
   (in particular no_std) builds on a stable toolchain. *)
Theorem C14_feature_gates :
  forall bc, bc_nightly bc = false -> active_feature_gates crate_graph bc = [].
Proof. exact gates_hold. Qed.

Check noalloc_class : buildcfg -> mclass -> Prop.
Check (eq_refl : noalloc_class = fun bc c =>
  match c with ClCore | ClCrate => True | ClStdAudited => bc_std bc = true | _ => False end).
Check (eq_refl : audited_std_macros = ["is_x86_feature_detected"; "is_aarch64_feature_detected"; "is_arm_feature_detected"]).
Check (eq_refl : audited_float_fns = ["sqrt"; "abs"]).
Check (eq_refl : audited_std_paths = []).

(* Non-vacuity: the graph is not empty (>= 500 items are compiled in the x86_64 no_std stable build, 1500+ items
   and 40+ modules are recorded); some mentions are std-only (active with std, inactive without: the run-time
   feature detection and the float functions), some items are nightly-only (the AVX-512 back end), some are
   architecture-specific; and the classification is not constantly "fine": a Vec, an `alloc::` path, a
   `std::collections` path and a dependency's path are each rejected. *)
Definition cfg_of (a : arch) (nightly std : bool) : buildcfg :=
  {| bc_arch := a; bc_nightly := nightly; bc_std := std; bc_tf := [] |}.

Example C14_nonvacuous :
  (500 <=? count_active crate_graph (cfg_of X86_64 false false))%N = true
  /\ (1500 <=? N.of_nat (length (cg_items crate_graph)))%N = true
  /\ (40 <=? N.of_nat (length (cg_modules crate_graph)))%N = true
  /\ existsb (fun it => existsb (fun m => mention_active crate_graph (cfg_of X86_64 false true) it m
                                          && negb (mention_active crate_graph (cfg_of X86_64 false false) it m)
                                          && mclass_eqb (classify crate_graph m) ClStdAudited)
                                (it_mentions it)) (cg_items crate_graph) = true
  /\ existsb (fun it => item_active crate_graph (cfg_of X86_64 true true) it
                        && negb (item_active crate_graph (cfg_of X86_64 false true) it)) (cg_items crate_graph) = true
  /\ existsb (fun it => item_active crate_graph (cfg_of Aarch64 false true) it
                        && negb (item_active crate_graph (cfg_of X86_64 false true) it)) (cg_items crate_graph) = true
  /\ existsb (fun it => it_test it) (cg_items crate_graph) = true
  /\ class_noalloc (cfg_of X86_64 false true)
       (classify crate_graph {| mn_kind := MkIdent; mn_root := ""; mn_text := "Vec"; mn_path := "Vec"; mn_line := 1;
                                mn_count := 1; mn_cfg := CTrue |}) = false
  /\ class_noalloc (cfg_of X86_64 false true)
       (classify crate_graph {| mn_kind := MkPath; mn_root := "alloc"; mn_text := "alloc"; mn_path := "alloc::vec::Vec";
                                mn_line := 1; mn_count := 1; mn_cfg := CTrue |}) = false
  /\ class_noalloc (cfg_of X86_64 false true)
       (classify crate_graph {| mn_kind := MkPath; mn_root := "std"; mn_text := "std";
                                mn_path := "std::collections::HashMap"; mn_line := 1; mn_count := 1; mn_cfg := CTrue |}) = false
  /\ class_noalloc (cfg_of X86_64 false true)
       (classify crate_graph {| mn_kind := MkPath; mn_root := "rand"; mn_text := "rand"; mn_path := "rand::random";
                                mn_line := 1; mn_count := 1; mn_cfg := CTrue |}) = false
  /\ class_core_only
       (classify crate_graph {| mn_kind := MkMacro; mn_root := "std"; mn_text := "is_x86_feature_detected";
                                mn_path := "std::arch::is_x86_feature_detected"; mn_line := 1; mn_count := 1;
                                mn_cfg := CTrue |}) = false.
Proof. vm_compute. repeat split; reflexivity. Qed.
