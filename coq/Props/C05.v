(* C05 — vertical, by-value and horizontal min / max return the true extreme, for every length and every position
   of the extreme.

   Integers: through the executable specification [spec_int] (the oracle of checks/c05.py): element-wise max / min
   of the signed / unsigned READINGS; horizontal forms: the maximum (minimum) of the readings of all elements,
   T::MIN (T::MAX) for the empty vector.
   Floats: for operands that are not NaN the result at every index is ONE OF the two operands and bounds both in
   the numeric order [fle] (a total preorder on non-NaN floats in which +0 and -0 are equivalent); the horizontal
   forms return an element of the vector (or the identity -inf / +inf, which is what the empty vector gives) that
   bounds every element.  The vector lanes use the x86 MAXPS/MINPS lane semantics, the scalar tail f32::max /
   f32::min: the statement holds for both, so it holds wherever in the vector the element sits. *)
From Coq Require Import ZArith List Bool.
From Flocq Require Import IEEE754.BinarySingleNaN.
From CF Require Import Base.Mem Model.Tables Model.Prim Model.SimdApi Model.Kernels Model.Regs Model.Spec.
From CF Require Import Model.TableSem Model.Exports Model.Safe Proofs.SafeSem Gen.GenExports Gen.GenSafe Gen.GenMacros Gen.GenDispatch.
From CF Require Import Proofs.KernelBounds Proofs.ReduceCorrect Proofs.Extreme Proofs.FloatOrder Proofs.FloatBackends
     Proofs.BackendTable Proofs.SpecLink.
Import ListNotations.

Definition minmax_kernels : list kernel := [KMaxV; KMinV; KMaxVal; KMinVal; KMaxH; KMinH].

Theorem C05_int :
  forall r t R k a b res v dims,
    int_ops r t = Some R -> In k minmax_kernels ->
    length a = dims -> Forall (in_range (width t)) a -> in_range (width t) v ->
    (kernel_uses_b k = true -> length b = dims /\ Forall (in_range (width t)) b) ->
    (kernel_writes k = true -> length res = dims) ->
    meets (init_mem a b res)
          (run_kernel R (int_math (is_signed t) (width t)) k dims v (init_mem a b res))
          (spec_int (is_signed t) (width t) k v a b).
Proof.
  intros r t R k a b res v dims HR Hk Ha Fa Hv Hb Hr.
  apply (int_export_meets_spec r t R k a b res v dims HR); auto.
  unfold minmax_kernels in Hk. unfold int_spec_kernels. cbn [In] in *. tauto.
Qed.


(* Through the SAFE API, under every dispatch outcome: for every safe routine of the regenerated tables whose kernel is
   one of these, both forms, every build configuration [bc], ARBITRARY outcomes [p] of the is_*_available predicates,
   release and debug: if the call passes the wrapper's generated assert list then, whichever (non-NEON) slot [x] the
   dispatch chain selects, the result meets the specification; [safe_fn_of], [select_chain], [run_safe] are the
   semantics of the generated macro tables (Model/TableSem.v, Model/Safe.v). *)
Theorem C05_safe_api_int :
  forall s f bc p debug m sf k x,
    In s safe_entries -> find_safe_macro safe_macros (s_macro s) = Some m -> safe_fn_of m f = Some sf ->
    safe_kernel s = Some k -> select_chain dispatch_chain bc p (supplied_of sf) = Some x -> x <> SNeon ->
    forall DIMS v a b res,
      is_float (s_ty s) = false -> In k minmax_kernels ->
      let l := {| len_a := length a; len_b := length b; len_r := length res; len_dims := DIMS |} in
      asserts_pass l (sf_asserts sf) = true ->
      (debug = true -> asserts_pass l (sf_debug_asserts sf) = true) ->
      Forall (in_range (width (s_ty s))) a -> in_range (width (s_ty s)) v ->
      (kernel_uses_b k = true -> Forall (in_range (width (s_ty s))) b) ->
      xmeets (run_safe dispatch_chain run_export_int exports safe_macros s f bc p debug DIMS v a b res)
             (spec_int (is_signed (s_ty s)) (width (s_ty s)) k v a b).
Proof.
  intros s f bc p debug m sf k x Hs Hm Hsf Hk Hsel Hx DIMS v a b res Hty Hkin.
  apply (safe_int_meets_spec s f bc p debug m sf k x Hs Hm Hsf Hk Hsel Hx DIMS v a b res Hty).
  unfold minmax_kernels in Hkin. unfold int_spec_kernels. cbn [In] in *. tauto.
Qed.

Theorem C05_int_spec_reads :
  forall sg w v a b,
    spec_int sg w KMaxV v a b = SVec (map2 (fun x y => wrap w (Z.max (ival sg w x) (ival sg w y))) a b)
    /\ spec_int sg w KMinVal v a b = SVec (map (fun x => wrap w (Z.min (ival sg w x) (ival sg w v))) a)
    /\ spec_int sg w KMaxH v a b = SVal (wrap w (fold_right Z.max (ival sg w (i_MIN sg w)) (map (ival sg w) a)))
    /\ spec_int sg w KMinH v a b = SVal (wrap w (fold_right Z.min (ival sg w (i_MAX sg w)) (map (ival sg w) a))).
Proof. intros. repeat split; reflexivity. Qed.

Section Floats.
  Context {prec emax : Z} {Hp : FLX.Prec_gt_0 prec} {He : Prec_lt_emax prec emax}.
  Notation bf := (binary_float prec emax).

  (* For ANY float back end that is lane-wise faithful with selecting lane max / min (what C13 establishes for the
     Fallback, Avx2, Avx2Fma and Avx512 models of both float types): *)
  Theorem C05_float_vertical :
    forall (R : SimdOps bf) vmax vmin fused a b res dims,
      FloatLanewise R vmax vmin fused -> selecting okf fle vmax -> selecting okf fge vmin ->
      length a = dims -> length b = dims -> length res = dims ->
      match generic_max_vertical R float_math dims (init_mem a b res) with
      | Ok _ m => run_ok (init_mem a b res) m /\ length (mR m) = dims
                  /\ forall j, j < dims -> sel_max (nth j a f_zero) (nth j b f_zero) (nth j (mR m) f_zero)
      | _ => False end
      /\ match generic_min_vertical R float_math dims (init_mem a b res) with
         | Ok _ m => run_ok (init_mem a b res) m /\ length (mR m) = dims
                     /\ forall j, j < dims -> sel_min (nth j a f_zero) (nth j b f_zero) (nth j (mR m) f_zero)
         | _ => False end.
  Proof.
    intros R vmax vmin fused a b res dims FL Hx Hn Ha Hb Hr. split.
    - exact (f_max_vertical_exact R vmax vmin fused FL Hx a b res dims Ha Hr Hb).
    - exact (f_min_vertical_exact R vmax vmin fused FL Hn a b res dims Ha Hr Hb).
  Qed.

  Theorem C05_float_by_value :
    forall (R : SimdOps bf) vmax vmin fused a b res v dims,
      FloatLanewise R vmax vmin fused -> selecting okf fle vmax -> selecting okf fge vmin ->
      length a = dims -> length res = dims ->
      match generic_max_value R float_math dims v (init_mem a b res) with
      | Ok _ m => run_ok (init_mem a b res) m /\ length (mR m) = dims
                  /\ forall j, j < dims -> sel_max (nth j a f_zero) v (nth j (mR m) f_zero)
      | _ => False end
      /\ match generic_min_value R float_math dims v (init_mem a b res) with
         | Ok _ m => run_ok (init_mem a b res) m /\ length (mR m) = dims
                     /\ forall j, j < dims -> sel_min (nth j a f_zero) v (nth j (mR m) f_zero)
         | _ => False end.
  Proof.
    intros R vmax vmin fused a b res v dims FL Hx Hn Ha Hr. split.
    - exact (f_max_value_exact R vmax vmin fused FL Hx a b res dims Ha Hr v).
    - exact (f_min_value_exact R vmax vmin fused FL Hn a b res dims Ha Hr v).
  Qed.

  Theorem C05_float_horizontal :
    forall (R : SimdOps bf) vmax vmin fused a b res dims,
      FloatLanewise R vmax vmin fused -> selecting okf fle vmax -> selecting okf fge vmin ->
      length a = dims -> Forall okf a ->
      match generic_max_horizontal R float_math dims (init_mem a b res) with
      | Ok r m => run_ok (init_mem a b res) m /\ In r (f_inf true :: a)
                  /\ forall z, In z (f_inf true :: a) -> fle z r
      | _ => False end
      /\ match generic_min_horizontal R float_math dims (init_mem a b res) with
         | Ok r m => run_ok (init_mem a b res) m /\ In r (f_inf false :: a)
                     /\ forall z, In z (f_inf false :: a) -> fle r z
         | _ => False end.
  Proof.
    intros R vmax vmin fused a b res dims FL Hx Hn Ha Fa. split.
    - exact (f_max_horizontal_extreme R vmax vmin fused FL Hx a b res dims Ha Fa).
    - exact (f_min_horizontal_extreme R vmax vmin fused FL Hn a b res dims Ha Fa).
  Qed.

  (* what sel_max / sel_min and the order mean *)
  Theorem C05_sel_reads :
    forall x y r : bf,
      (sel_max x y r <-> (okf x -> okf y -> (r = x \/ r = y) /\ fle x r /\ fle y r))
      /\ (sel_min x y r <-> (okf x -> okf y -> (r = x \/ r = y) /\ fle r x /\ fle r y))
      /\ (okf x <-> is_nan x = false) /\ (fle x y <-> Bltb y x = false).
  Proof. intros. unfold sel_max, sel_min, okf, fle, f_is_nan, f_lt. tauto. Qed.

  Theorem C05_order_is_total_preorder :
    (forall x : bf, okf x -> fle x x)
    /\ (forall x y z : bf, okf x -> okf y -> okf z -> fle x y -> fle y z -> fle x z)
    /\ (forall x y : bf, okf x -> okf y -> fle x y \/ fle y x)
    /\ (forall x : bf, okf x -> fle (f_inf true) x /\ fle x (f_inf false)).
  Proof.
    split; [exact fle_refl|]. split; [exact fle_trans|]. split; [exact fle_total|].
    intros x Hx. split; [apply inf_bottom | apply inf_top]; exact Hx.
  Qed.
End Floats.

(* the hypotheses hold for every modelled (register, float type) pair of the export tables *)
Theorem C05_float_backends :
  (forall r R, f32_ops r = Some R ->
     FloatLanewise R (lane_max r) (lane_min r) (fused_reg r)
     /\ selecting okf fle (@lane_max 24 128 r) /\ selecting okf fge (@lane_min 24 128 r))
  /\ (forall r R, f64_ops r = Some R ->
     FloatLanewise R (lane_max r) (lane_min r) (fused_reg r)
     /\ selecting okf fle (@lane_max 53 1024 r) /\ selecting okf fge (@lane_min 53 1024 r)).
Proof.
  split; intros r R HR.
  - split; [apply f32_ops_faithful; exact HR|]. split; [apply lane_max_selecting | apply lane_min_selecting].
  - split; [apply f64_ops_faithful; exact HR|]. split; [apply lane_max_selecting | apply lane_min_selecting].
Qed.

Check C05_int. Check C05_float_vertical. Check C05_float_by_value. Check C05_float_horizontal.

(* Non-vacuity: an unsigned 64-bit horizontal max whose extreme has the top bit set (the AVX2 model has to flip the
   sign bit to compare) and sits in the scalar tail; a signed 8-bit vertical min across the sign boundary. *)
Example C05_nonvacuous :
  let a := map (fun i => Z.of_nat (7 * i + 1)) (seq 0 37) ++ [(2 ^ 63 + 5)%Z] in
  match int_ops Avx2 U64 with
  | Some R =>
      match run_kernel R (int_math false 64) KMaxH 38 0%Z (init_mem a [] []) with
      | Ok (RValue r) _ => r = (2 ^ 63 + 5)%Z
      | _ => False
      end
  | None => False
  end
  /\ match int_ops Avx512 I8 with
     | Some R =>
         match run_kernel R (int_math true 8) KMinV 3 0%Z (init_mem [1; 200; 127]%Z [255; 100; 128]%Z [0; 0; 0]%Z) with
         | Ok RUnit m => mR m = [255; 200; 128]%Z
         | _ => False
         end
     | None => False
     end.
Proof. vm_compute. repeat split; reflexivity. Qed.
