(* C02 - the kernels this property speaks about are the TRANSLATED source.

   Gen/GenKernels.v is regenerated on every run by tools/translate_kernels.py from cfavml/src/danger/op_*.rs (a
   statement-by-statement rendering of each Rust body into the monad of Base/Mem.v: loop bounds, increments, start
   indices, which slice is loaded / stored where, operands and accumulators as the source writes them).  The theorem
   says the generated definitions of the 8 element-wise arithmetic kernels ARE the hand-written model Model/Kernels.v
   that Props/C02.v is about (equality of computations, by conversion), so those theorems are statements about what
   the source says now.  Trusted: the translator's construct-by-construct mapping (DESIGN 8.5). *)
From Coq Require Import List Arith Bool String.
From CF Require Import Base.Mem Model.Tables Model.SimdApi Model.Kernels.
From CF Require Import Gen.GenKernels.
From CF Require Import Proofs.GenKernelsArith.

Theorem C02_kernels_are_translated_source :
  forall (T : Type) (R : SimdOps T) (Mth : MathOps T),
    (forall dims, gen_generic_add_vector R Mth dims = generic_add_vector R Mth dims)
    /\ (forall dims, gen_generic_sub_vector R Mth dims = generic_sub_vector R Mth dims)
    /\ (forall dims, gen_generic_mul_vector R Mth dims = generic_mul_vector R Mth dims)
    /\ (forall dims, gen_generic_div_vector R Mth dims = generic_div_vector R Mth dims)
    /\ (forall dims value, gen_generic_add_value R Mth dims value = generic_add_value R Mth dims value)
    /\ (forall dims value, gen_generic_sub_value R Mth dims value = generic_sub_value R Mth dims value)
    /\ (forall dims value, gen_generic_mul_value R Mth dims value = generic_mul_value R Mth dims value)
    /\ (forall dims value, gen_generic_div_value R Mth dims value = generic_div_value R Mth dims value).
Proof. intros T R Mth. repeat split; intros; first [apply gen_add_vector_is_model | apply gen_sub_vector_is_model | apply gen_mul_vector_is_model | apply gen_div_vector_is_model | apply gen_add_value_is_model | apply gen_sub_value_is_model | apply gen_mul_value_is_model | apply gen_div_value_is_model]. Qed.
