(* C12 — const-dimension (xconst) and runtime-length (xany) forms agree.
   Tables regenerated from /repo on every run. *)
From Coq Require Import ZArith String List Bool.
From CF Require Import Base.Mem Model.Tables Model.TableSem Model.Prim Model.SimdApi Model.Kernels Model.Regs
     Model.Exports Model.Safe.
From CF Require Import Proofs.TableProofs Proofs.FactsExports Proofs.FactsForms Proofs.FormsAgree.
From CF Require Import Gen.GenExports Gen.GenSafe Gen.GenMacros Gen.GenDispatch.
Import ListNotations.

(* Every export row is expanded by a macro arm whose xconst and xany routines call the same
   `$op::<_, $register, AutoMath>` with the same argument list and differ only in passing DIMS vs a.len()
   ([export_row_ok] includes [export_arm_ok]) ... *)
Theorem C12_export_arms : forall e, In e exports -> export_row_ok export_macros e = true.
Proof. exact C11_rows_proof. Qed.

(* ... hence, with DIMS = len a, the two forms have the same outcome (result, result slice, panics) on every
   input — for the integer, f32 and f64 models alike. *)
Theorem C12_exports_agree_int :
  forall e debug DIMS v a b res, DIMS = List.length a ->
    run_export_int e Const debug DIMS v a b res = run_export_int e Any debug DIMS v a b res.
Proof. exact run_export_int_forms. Qed.
Theorem C12_exports_agree_f32 :
  forall e debug DIMS v a b res, DIMS = List.length a ->
    run_export_f32 e Const debug DIMS v a b res = run_export_f32 e Any debug DIMS v a b res.
Proof. exact run_export_f32_forms. Qed.
Theorem C12_exports_agree_f64 :
  forall e debug DIMS v a b res, DIMS = List.length a ->
    run_export_f64 e Const debug DIMS v a b res = run_export_f64 e Any debug DIMS v a b res.
Proof. exact run_export_f64_forms. Qed.

(* Safe API: for all 190 entries, every build configuration, every dispatch outcome and all inputs with
   DIMS = len a, the const and the any wrapper have identical outcomes — identical assertion panics (their
   assert lists entail each other once DIMS = len a), the same selected slot, routines of the same
   (type, back end, operation) in every slot. *)
Theorem C12_safe_agree_int :
  forall s bc p debug DIMS v a b res, In s safe_entries -> DIMS = List.length a ->
    run_safe dispatch_chain run_export_int exports safe_macros s Const bc p debug DIMS v a b res
    = run_safe dispatch_chain run_export_int exports safe_macros s Any bc p debug DIMS v a b res.
Proof. intros. apply safe_forms_agree_sem; auto. exact run_export_int_forms. Qed.
Theorem C12_safe_agree_f32 :
  forall s bc p debug DIMS v a b res, In s safe_entries -> DIMS = List.length a ->
    run_safe dispatch_chain run_export_f32 exports safe_macros s Const bc p debug DIMS v a b res
    = run_safe dispatch_chain run_export_f32 exports safe_macros s Any bc p debug DIMS v a b res.
Proof. intros. apply safe_forms_agree_sem; auto. exact run_export_f32_forms. Qed.
Theorem C12_safe_agree_f64 :
  forall s bc p debug DIMS v a b res, In s safe_entries -> DIMS = List.length a ->
    run_safe dispatch_chain run_export_f64 exports safe_macros s Const bc p debug DIMS v a b res
    = run_safe dispatch_chain run_export_f64 exports safe_macros s Any bc p debug DIMS v a b res.
Proof. intros. apply safe_forms_agree_sem; auto. exact run_export_f64_forms. Qed.

Example C12_nonvacuous : forallb safe_macro_forms_agree safe_macros = true /\ length safe_macros = 8.
Proof. split; [exact safe_forms_agree | reflexivity]. Qed.
