(* C05 - the kernels this property speaks about are the TRANSLATED source.

   Gen/GenKernels.v is regenerated on every run by tools/translate_kernels.py from cfavml/src/danger/op_*.rs (a
   statement-by-statement rendering of each Rust body into the monad of Base/Mem.v: loop bounds, increments, start
   indices, which slice is loaded / stored where, operands and accumulators as the source writes them).  The theorem
   says the generated definitions of the 6 min/max kernels ARE the hand-written model Model/Kernels.v
   that Props/C05.v is about (equality of computations, by conversion), so those theorems are statements about what
   the source says now.  Trusted: the translator's construct-by-construct mapping (DESIGN 8.5). *)
From Coq Require Import List Arith Bool String.
From CF Require Import Base.Mem Model.Tables Model.SimdApi Model.Kernels.
From CF Require Import Gen.GenKernels.
From CF Require Import Proofs.GenKernelsMinMax.

Theorem C05_kernels_are_translated_source :
  forall (T : Type) (R : SimdOps T) (Mth : MathOps T),
    (forall dims, gen_generic_max_horizontal R Mth dims = generic_max_horizontal R Mth dims)
    /\ (forall dims, gen_generic_min_horizontal R Mth dims = generic_min_horizontal R Mth dims)
    /\ (forall dims, gen_generic_max_vertical R Mth dims = generic_max_vertical R Mth dims)
    /\ (forall dims, gen_generic_min_vertical R Mth dims = generic_min_vertical R Mth dims)
    /\ (forall dims value, gen_generic_max_value R Mth dims value = generic_max_value R Mth dims value)
    /\ (forall dims value, gen_generic_min_value R Mth dims value = generic_min_value R Mth dims value).
Proof. intros T R Mth. repeat split; intros; first [apply gen_max_horizontal_is_model | apply gen_min_horizontal_is_model | apply gen_max_vertical_is_model | apply gen_min_vertical_is_model | apply gen_max_value_is_model | apply gen_min_value_is_model]. Qed.
