(* C04 — float reductions (sum, dot product, squared norm, squared Euclidean distance) stay within the a-priori
   rounding bound, and are exact when every product and partial sum is exactly representable.

   Setting.  Floats are Flocq's [binary_float prec emax] (f32 = (24,128), f64 = (53,1024)), rounding to nearest even;
   the kernels are Model/Kernels.v's mirror of danger/op_{sum,dot_product,norm,euclidean}.rs run on ANY back end
   model R that is lane-wise faithful ([FloatLanewise R vmax vmin fused], Proofs/FloatBackends.v: lane-wise
   correctly rounded add / sub / mul, fmadd FUSED (one rounding) or multiply-then-add according to [fused], the
   horizontal sum an addition tree over the lanes in any shape and order) — the corollaries [*_f32] / [*_f64]
   instantiate this for every row of [f32_ops] / [f64_ops] (Fallback, Avx2, Avx2Fma, Avx512).
   Notation (Proofs/RoundErr.v, spelled out by [C04_reads] below):
     u prec = 2^-prec (unit roundoff);  gamma prec k = k u / (1 - k u);
     nosub prec emin x  <->  x = 0 \/ 2^(emin+prec-1) <= |x|   ("the product does not underflow");
     rnd prec emin = rounding to nearest even in the format;  sq x y = (x - y)^2;  dsq x y = rnd(x - y)^2;
     mult_e e t  <->  t is an integer multiple of 2^e.
   C04_*_bound: for EVERY length dims = n, all FINITE inputs such that (H1) no computed product lies in the
     subnormal range, (H2) (1+u)^(n+3) * sum|t_j| < 2^emax (so that no partial sum can overflow — this is the only
     scaling hypothesis: finiteness of every intermediate is PROVED from it), (H3) (n+3) u < 1:
     the run terminates in bounds, the result r is finite and |r - sum t_j| <= gamma(n+3) * sum|t_j|,
     whatever the accumulation order and whether or not FMA is used.
   C04_*_exact: if moreover every term is an integer multiple of one power of two 2^e >= 2^emin and
     sum|t_j| <= 2^(e+prec) (and < 2^emax), r = sum t_j EXACTLY on every back end; [C04_onehot]: a vector holding
     one 1 and zeros elsewhere sums to exactly 1 wherever the 1 is, for every length. *)
From Coq Require Import ZArith Reals List Bool.
From Flocq Require Import Core BinarySingleNaN.
From CF Require Import Base.Mem Model.Tables Model.Prim Model.SimdApi Model.Kernels Model.Regs.
From CF Require Import Proofs.KernelBounds Proofs.FloatBackends Proofs.BackendTable Proofs.RoundErr Proofs.FloatReduce.
Import ListNotations.
Local Open Scope R_scope.

Notation fin x := (is_finite x = true).

(* The notation, spelled out (so that the statements below cannot hide in definitions). *)
Theorem C04_reads :
  forall (prec emin e : Z) (k : nat) (x : R),
    u prec = bpow radix2 (- prec)
    /\ gamma prec k = INR k * u prec / (1 - INR k * u prec)
    /\ (nosub prec emin x <-> (x = 0 \/ bpow radix2 (emin + prec - 1) <= Rabs x))
    /\ rnd prec emin x = round radix2 (FLT_exp emin prec) ZnearestE x
    /\ (mult_e e x <-> exists K : Z, x = IZR K * bpow radix2 e)
    /\ (forall (emax : Z) (p q : binary_float prec emax),
          sq p q = (B2R p - B2R q) * (B2R p - B2R q)
          /\ dsq p q = rnd prec (SpecFloat.emin prec emax) (B2R p - B2R q)
                       * rnd prec (SpecFloat.emin prec emax) (B2R p - B2R q)).
Proof. exact reads. Qed.

(** * The bound, generically in the format and in the back end *)
Theorem C04_sum_bound :
  forall (prec emax : Z) (Hp : FLX.Prec_gt_0 prec) (He : Prec_lt_emax prec emax)
         (R : SimdOps (binary_float prec emax)) vmax vmin fused,
    FloatLanewise R vmax vmin fused ->
    forall (a b res : list (binary_float prec emax)) (dims : nat),
    length a = dims -> Forall (fun x => fin x) a ->
    INR (dims + 3) * u prec < 1 ->
    (1 + u prec) ^ (dims + 3) * Rsum (map (fun x => Rabs (B2R x)) a) < bpow radix2 emax ->
    match generic_sum R float_math dims (init_mem a b res) with
    | Ok r m => run_ok (init_mem a b res) m /\ fin r /\
                Rabs (B2R r - Rsum (map (fun x => B2R x) a))
                <= gamma prec (dims + 3) * Rsum (map (fun x => Rabs (B2R x)) a)
    | _ => False
    end.
Proof. exact (@sum_bound). Qed.

Theorem C04_dot_bound :
  forall (prec emax : Z) (Hp : FLX.Prec_gt_0 prec) (He : Prec_lt_emax prec emax)
         (R : SimdOps (binary_float prec emax)) vmax vmin fused,
    FloatLanewise R vmax vmin fused ->
    forall (a b res : list (binary_float prec emax)) (dims : nat),
    length a = dims -> Forall (fun x => fin x) a ->
    INR (dims + 3) * u prec < 1 ->
    length b = dims -> Forall (fun x => fin x) b ->
    Forall2 (fun x y => nosub prec (SpecFloat.emin prec emax) (B2R x * B2R y)) a b ->
    (1 + u prec) ^ (dims + 3) * Rsum (map2 (fun x y => Rabs (B2R x * B2R y)) a b) < bpow radix2 emax ->
    match generic_dot_product R float_math dims (init_mem a b res) with
    | Ok r m => run_ok (init_mem a b res) m /\ fin r /\
                Rabs (B2R r - Rsum (map2 (fun x y => B2R x * B2R y) a b))
                <= gamma prec (dims + 3) * Rsum (map2 (fun x y => Rabs (B2R x * B2R y)) a b)
    | _ => False
    end.
Proof. exact (@dot_bound). Qed.

Theorem C04_norm_bound :
  forall (prec emax : Z) (Hp : FLX.Prec_gt_0 prec) (He : Prec_lt_emax prec emax)
         (R : SimdOps (binary_float prec emax)) vmax vmin fused,
    FloatLanewise R vmax vmin fused ->
    forall (a b res : list (binary_float prec emax)) (dims : nat),
    length a = dims -> Forall (fun x => fin x) a ->
    INR (dims + 3) * u prec < 1 ->
    Forall (fun x => nosub prec (SpecFloat.emin prec emax) (B2R x * B2R x)) a ->
    (1 + u prec) ^ (dims + 3) * Rsum (map (fun x => Rabs (B2R x * B2R x)) a) < bpow radix2 emax ->
    match generic_squared_norm R float_math dims (init_mem a b res) with
    | Ok r m => run_ok (init_mem a b res) m /\ fin r /\
                Rabs (B2R r - Rsum (map (fun x => B2R x * B2R x) a))
                <= gamma prec (dims + 3) * Rsum (map (fun x => Rabs (B2R x * B2R x)) a)
    | _ => False
    end.
Proof. exact (@norm_bound). Qed.

Theorem C04_euclid_bound :
  forall (prec emax : Z) (Hp : FLX.Prec_gt_0 prec) (He : Prec_lt_emax prec emax)
         (R : SimdOps (binary_float prec emax)) vmax vmin fused,
    FloatLanewise R vmax vmin fused ->
    forall (a b res : list (binary_float prec emax)) (dims : nat),
    length a = dims -> Forall (fun x => fin x) a ->
    INR (dims + 3) * u prec < 1 ->
    length b = dims -> Forall (fun x => fin x) b ->
    Forall2 (fun x y => nosub prec (SpecFloat.emin prec emax) (dsq x y)) a b ->
    (1 + u prec) ^ (dims + 3) * Rsum (map2 (fun x y => Rabs (sq x y)) a b) < bpow radix2 emax ->
    match generic_euclidean R float_math dims (init_mem a b res) with
    | Ok r m => run_ok (init_mem a b res) m /\ fin r /\
                Rabs (B2R r - Rsum (map2 sq a b))
                <= gamma prec (dims + 3) * Rsum (map2 (fun x y => Rabs (sq x y)) a b)
    | _ => False
    end.
Proof. exact (@euclid_bound). Qed.

(** * Exactness, generically in the format and in the back end *)
Theorem C04_sum_exact :
  forall (prec emax : Z) (Hp : FLX.Prec_gt_0 prec) (He : Prec_lt_emax prec emax)
         (R : SimdOps (binary_float prec emax)) vmax vmin fused,
    FloatLanewise R vmax vmin fused ->
    forall (a b res : list (binary_float prec emax)) (dims : nat),
    length a = dims -> Forall (fun x => fin x) a ->
    forall e : Z, (SpecFloat.emin prec emax <= e)%Z ->
    Forall (fun x => mult_e e (B2R x)) a ->
    Rsum (map (fun x => Rabs (B2R x)) a) <= bpow radix2 (e + prec) ->
    Rsum (map (fun x => Rabs (B2R x)) a) < bpow radix2 emax ->
    match generic_sum R float_math dims (init_mem a b res) with
    | Ok r m => run_ok (init_mem a b res) m /\ fin r /\ B2R r = Rsum (map (fun x => B2R x) a)
    | _ => False
    end.
Proof. exact (@sum_exact_f). Qed.

Theorem C04_dot_exact :
  forall (prec emax : Z) (Hp : FLX.Prec_gt_0 prec) (He : Prec_lt_emax prec emax)
         (R : SimdOps (binary_float prec emax)) vmax vmin fused,
    FloatLanewise R vmax vmin fused ->
    forall (a b res : list (binary_float prec emax)) (dims : nat),
    length a = dims -> Forall (fun x => fin x) a ->
    forall e : Z, (SpecFloat.emin prec emax <= e)%Z ->
    length b = dims -> Forall (fun x => fin x) b ->
    Forall2 (fun x y => mult_e e (B2R x * B2R y)) a b ->
    Rsum (map2 (fun x y => Rabs (B2R x * B2R y)) a b) <= bpow radix2 (e + prec) ->
    Rsum (map2 (fun x y => Rabs (B2R x * B2R y)) a b) < bpow radix2 emax ->
    match generic_dot_product R float_math dims (init_mem a b res) with
    | Ok r m => run_ok (init_mem a b res) m /\ fin r /\ B2R r = Rsum (map2 (fun x y => B2R x * B2R y) a b)
    | _ => False
    end.
Proof. exact (@dot_exact_f). Qed.

Theorem C04_norm_exact :
  forall (prec emax : Z) (Hp : FLX.Prec_gt_0 prec) (He : Prec_lt_emax prec emax)
         (R : SimdOps (binary_float prec emax)) vmax vmin fused,
    FloatLanewise R vmax vmin fused ->
    forall (a b res : list (binary_float prec emax)) (dims : nat),
    length a = dims -> Forall (fun x => fin x) a ->
    forall e : Z, (SpecFloat.emin prec emax <= e)%Z ->
    Forall (fun x => mult_e e (B2R x * B2R x)) a ->
    Rsum (map (fun x => Rabs (B2R x * B2R x)) a) <= bpow radix2 (e + prec) ->
    Rsum (map (fun x => Rabs (B2R x * B2R x)) a) < bpow radix2 emax ->
    match generic_squared_norm R float_math dims (init_mem a b res) with
    | Ok r m => run_ok (init_mem a b res) m /\ fin r /\ B2R r = Rsum (map (fun x => B2R x * B2R x) a)
    | _ => False
    end.
Proof. exact (@norm_exact_f). Qed.

Theorem C04_euclid_exact :
  forall (prec emax : Z) (Hp : FLX.Prec_gt_0 prec) (He : Prec_lt_emax prec emax)
         (R : SimdOps (binary_float prec emax)) vmax vmin fused,
    FloatLanewise R vmax vmin fused ->
    forall (a b res : list (binary_float prec emax)) (dims : nat),
    length a = dims -> Forall (fun x => fin x) a ->
    forall e : Z, (SpecFloat.emin prec emax <= e)%Z ->
    length b = dims -> Forall (fun x => fin x) b ->
    Forall2 (fun x y => generic_format radix2 (FLT_exp (SpecFloat.emin prec emax) prec) (B2R x - B2R y)
                         /\ mult_e e (sq x y)) a b ->
    Rsum (map2 (fun x y => Rabs (sq x y)) a b) <= bpow radix2 (e + prec) ->
    Rsum (map2 (fun x y => Rabs (sq x y)) a b) < bpow radix2 emax ->
    match generic_euclidean R float_math dims (init_mem a b res) with
    | Ok r m => run_ok (init_mem a b res) m /\ fin r /\ B2R r = Rsum (map2 sq a b)
    | _ => False
    end.
Proof. exact (@euclid_exact_f). Qed.

(* one-hot: l1 and l2 are arbitrary lists of (finite) zeros of either sign, so the marker sits at an arbitrary
   index of a vector of arbitrary length *)
Theorem C04_onehot :
  forall (prec emax : Z) (Hp : FLX.Prec_gt_0 prec) (He : Prec_lt_emax prec emax)
         (R : SimdOps (binary_float prec emax)) vmax vmin fused,
    FloatLanewise R vmax vmin fused ->
    forall (l1 l2 b res : list (binary_float prec emax)),
    Forall (fun x => fin x /\ B2R x = 0) l1 -> Forall (fun x => fin x /\ B2R x = 0) l2 ->
    let a := l1 ++ [f_one] ++ l2 in
    match generic_sum R float_math (length a) (init_mem a b res) with
    | Ok r m => run_ok (init_mem a b res) m /\ fin r /\ B2R r = 1
    | _ => False
    end.
Proof. exact (@sum_onehot). Qed.

(** * Every modelled back end of the export tables: Fallback, Avx2 (unfused), Avx2Fma and Avx512 (fused) *)
Theorem C04_backends :
  (forall r R, f32_ops r = Some R -> FloatLanewise R (lane_max r) (lane_min r) (fused_reg r))
  /\ (forall r R, f64_ops r = Some R -> FloatLanewise R (lane_max r) (lane_min r) (fused_reg r))
  /\ (forall r, r <> Neon -> f32_ops r <> None /\ f64_ops r <> None)
  /\ fused_reg Fallback = false /\ fused_reg Avx2 = false /\ fused_reg Avx2Fma = true /\ fused_reg Avx512 = true.
Proof. exact backends. Qed.

(* f32: every row of [f32_ops] — sum, dot, norm, Euclid bounds; sum, dot, norm, Euclid exactness; one-hot *)
Theorem C04_f32 :
  forall (r : reg) (R : SimdOps f32), f32_ops r = Some R ->
   (forall (a b res : list f32) (dims : nat),
      length a = dims -> Forall (fun x => fin x) a ->
      INR (dims + 3) * u 24 < 1 ->
      (1 + u 24) ^ (dims + 3) * Rsum (map (fun x => Rabs (B2R x)) a) < bpow radix2 128 ->
      match generic_sum R float_math dims (init_mem a b res) with
      | Ok r m => run_ok (init_mem a b res) m /\ fin r /\
                  Rabs (B2R r - Rsum (map (fun x => B2R x) a))
                  <= gamma 24 (dims + 3) * Rsum (map (fun x => Rabs (B2R x)) a)
      | _ => False
      end)
   /\
   (forall (a b res : list f32) (dims : nat),
      length a = dims -> Forall (fun x => fin x) a ->
      INR (dims + 3) * u 24 < 1 ->
      length b = dims -> Forall (fun x => fin x) b ->
      Forall2 (fun x y => nosub 24 (SpecFloat.emin 24 128) (B2R x * B2R y)) a b ->
      (1 + u 24) ^ (dims + 3) * Rsum (map2 (fun x y => Rabs (B2R x * B2R y)) a b) < bpow radix2 128 ->
      match generic_dot_product R float_math dims (init_mem a b res) with
      | Ok r m => run_ok (init_mem a b res) m /\ fin r /\
                  Rabs (B2R r - Rsum (map2 (fun x y => B2R x * B2R y) a b))
                  <= gamma 24 (dims + 3) * Rsum (map2 (fun x y => Rabs (B2R x * B2R y)) a b)
      | _ => False
      end)
   /\
   (forall (a b res : list f32) (dims : nat),
      length a = dims -> Forall (fun x => fin x) a ->
      INR (dims + 3) * u 24 < 1 ->
      Forall (fun x => nosub 24 (SpecFloat.emin 24 128) (B2R x * B2R x)) a ->
      (1 + u 24) ^ (dims + 3) * Rsum (map (fun x => Rabs (B2R x * B2R x)) a) < bpow radix2 128 ->
      match generic_squared_norm R float_math dims (init_mem a b res) with
      | Ok r m => run_ok (init_mem a b res) m /\ fin r /\
                  Rabs (B2R r - Rsum (map (fun x => B2R x * B2R x) a))
                  <= gamma 24 (dims + 3) * Rsum (map (fun x => Rabs (B2R x * B2R x)) a)
      | _ => False
      end)
   /\
   (forall (a b res : list f32) (dims : nat),
      length a = dims -> Forall (fun x => fin x) a ->
      INR (dims + 3) * u 24 < 1 ->
      length b = dims -> Forall (fun x => fin x) b ->
      Forall2 (fun x y => nosub 24 (SpecFloat.emin 24 128) (dsq x y)) a b ->
      (1 + u 24) ^ (dims + 3) * Rsum (map2 (fun x y => Rabs (sq x y)) a b) < bpow radix2 128 ->
      match generic_euclidean R float_math dims (init_mem a b res) with
      | Ok r m => run_ok (init_mem a b res) m /\ fin r /\
                  Rabs (B2R r - Rsum (map2 sq a b))
                  <= gamma 24 (dims + 3) * Rsum (map2 (fun x y => Rabs (sq x y)) a b)
      | _ => False
      end)
   /\
   (forall (a b res : list f32) (dims : nat),
      length a = dims -> Forall (fun x => fin x) a ->
      forall e : Z, (SpecFloat.emin 24 128 <= e)%Z ->
      Forall (fun x => mult_e e (B2R x)) a ->
      Rsum (map (fun x => Rabs (B2R x)) a) <= bpow radix2 (e + 24) ->
      Rsum (map (fun x => Rabs (B2R x)) a) < bpow radix2 128 ->
      match generic_sum R float_math dims (init_mem a b res) with
      | Ok r m => run_ok (init_mem a b res) m /\ fin r /\ B2R r = Rsum (map (fun x => B2R x) a)
      | _ => False
      end)
   /\
   (forall (a b res : list f32) (dims : nat),
      length a = dims -> Forall (fun x => fin x) a ->
      forall e : Z, (SpecFloat.emin 24 128 <= e)%Z ->
      length b = dims -> Forall (fun x => fin x) b ->
      Forall2 (fun x y => mult_e e (B2R x * B2R y)) a b ->
      Rsum (map2 (fun x y => Rabs (B2R x * B2R y)) a b) <= bpow radix2 (e + 24) ->
      Rsum (map2 (fun x y => Rabs (B2R x * B2R y)) a b) < bpow radix2 128 ->
      match generic_dot_product R float_math dims (init_mem a b res) with
      | Ok r m => run_ok (init_mem a b res) m /\ fin r /\ B2R r = Rsum (map2 (fun x y => B2R x * B2R y) a b)
      | _ => False
      end)
   /\
   (forall (a b res : list f32) (dims : nat),
      length a = dims -> Forall (fun x => fin x) a ->
      forall e : Z, (SpecFloat.emin 24 128 <= e)%Z ->
      Forall (fun x => mult_e e (B2R x * B2R x)) a ->
      Rsum (map (fun x => Rabs (B2R x * B2R x)) a) <= bpow radix2 (e + 24) ->
      Rsum (map (fun x => Rabs (B2R x * B2R x)) a) < bpow radix2 128 ->
      match generic_squared_norm R float_math dims (init_mem a b res) with
      | Ok r m => run_ok (init_mem a b res) m /\ fin r /\ B2R r = Rsum (map (fun x => B2R x * B2R x) a)
      | _ => False
      end)
   /\
   (forall (a b res : list f32) (dims : nat),
      length a = dims -> Forall (fun x => fin x) a ->
      forall e : Z, (SpecFloat.emin 24 128 <= e)%Z ->
      length b = dims -> Forall (fun x => fin x) b ->
      Forall2 (fun x y => generic_format radix2 (FLT_exp (SpecFloat.emin 24 128) 24) (B2R x - B2R y)
                           /\ mult_e e (sq x y)) a b ->
      Rsum (map2 (fun x y => Rabs (sq x y)) a b) <= bpow radix2 (e + 24) ->
      Rsum (map2 (fun x y => Rabs (sq x y)) a b) < bpow radix2 128 ->
      match generic_euclidean R float_math dims (init_mem a b res) with
      | Ok r m => run_ok (init_mem a b res) m /\ fin r /\ B2R r = Rsum (map2 sq a b)
      | _ => False
      end)
   /\
   (forall (l1 l2 b res : list f32),
      Forall (fun x => fin x /\ B2R x = 0) l1 -> Forall (fun x => fin x /\ B2R x = 0) l2 ->
      let a := l1 ++ [f_one] ++ l2 in
      match generic_sum R float_math (length a) (init_mem a b res) with
      | Ok r m => run_ok (init_mem a b res) m /\ fin r /\ B2R r = 1
      | _ => False
      end).
Proof. exact (all_ops f32_ops f32_ops_faithful). Qed.

(* f64: every row of [f64_ops] — sum, dot, norm, Euclid bounds; sum, dot, norm, Euclid exactness; one-hot *)
Theorem C04_f64 :
  forall (r : reg) (R : SimdOps f64), f64_ops r = Some R ->
   (forall (a b res : list f64) (dims : nat),
      length a = dims -> Forall (fun x => fin x) a ->
      INR (dims + 3) * u 53 < 1 ->
      (1 + u 53) ^ (dims + 3) * Rsum (map (fun x => Rabs (B2R x)) a) < bpow radix2 1024 ->
      match generic_sum R float_math dims (init_mem a b res) with
      | Ok r m => run_ok (init_mem a b res) m /\ fin r /\
                  Rabs (B2R r - Rsum (map (fun x => B2R x) a))
                  <= gamma 53 (dims + 3) * Rsum (map (fun x => Rabs (B2R x)) a)
      | _ => False
      end)
   /\
   (forall (a b res : list f64) (dims : nat),
      length a = dims -> Forall (fun x => fin x) a ->
      INR (dims + 3) * u 53 < 1 ->
      length b = dims -> Forall (fun x => fin x) b ->
      Forall2 (fun x y => nosub 53 (SpecFloat.emin 53 1024) (B2R x * B2R y)) a b ->
      (1 + u 53) ^ (dims + 3) * Rsum (map2 (fun x y => Rabs (B2R x * B2R y)) a b) < bpow radix2 1024 ->
      match generic_dot_product R float_math dims (init_mem a b res) with
      | Ok r m => run_ok (init_mem a b res) m /\ fin r /\
                  Rabs (B2R r - Rsum (map2 (fun x y => B2R x * B2R y) a b))
                  <= gamma 53 (dims + 3) * Rsum (map2 (fun x y => Rabs (B2R x * B2R y)) a b)
      | _ => False
      end)
   /\
   (forall (a b res : list f64) (dims : nat),
      length a = dims -> Forall (fun x => fin x) a ->
      INR (dims + 3) * u 53 < 1 ->
      Forall (fun x => nosub 53 (SpecFloat.emin 53 1024) (B2R x * B2R x)) a ->
      (1 + u 53) ^ (dims + 3) * Rsum (map (fun x => Rabs (B2R x * B2R x)) a) < bpow radix2 1024 ->
      match generic_squared_norm R float_math dims (init_mem a b res) with
      | Ok r m => run_ok (init_mem a b res) m /\ fin r /\
                  Rabs (B2R r - Rsum (map (fun x => B2R x * B2R x) a))
                  <= gamma 53 (dims + 3) * Rsum (map (fun x => Rabs (B2R x * B2R x)) a)
      | _ => False
      end)
   /\
   (forall (a b res : list f64) (dims : nat),
      length a = dims -> Forall (fun x => fin x) a ->
      INR (dims + 3) * u 53 < 1 ->
      length b = dims -> Forall (fun x => fin x) b ->
      Forall2 (fun x y => nosub 53 (SpecFloat.emin 53 1024) (dsq x y)) a b ->
      (1 + u 53) ^ (dims + 3) * Rsum (map2 (fun x y => Rabs (sq x y)) a b) < bpow radix2 1024 ->
      match generic_euclidean R float_math dims (init_mem a b res) with
      | Ok r m => run_ok (init_mem a b res) m /\ fin r /\
                  Rabs (B2R r - Rsum (map2 sq a b))
                  <= gamma 53 (dims + 3) * Rsum (map2 (fun x y => Rabs (sq x y)) a b)
      | _ => False
      end)
   /\
   (forall (a b res : list f64) (dims : nat),
      length a = dims -> Forall (fun x => fin x) a ->
      forall e : Z, (SpecFloat.emin 53 1024 <= e)%Z ->
      Forall (fun x => mult_e e (B2R x)) a ->
      Rsum (map (fun x => Rabs (B2R x)) a) <= bpow radix2 (e + 53) ->
      Rsum (map (fun x => Rabs (B2R x)) a) < bpow radix2 1024 ->
      match generic_sum R float_math dims (init_mem a b res) with
      | Ok r m => run_ok (init_mem a b res) m /\ fin r /\ B2R r = Rsum (map (fun x => B2R x) a)
      | _ => False
      end)
   /\
   (forall (a b res : list f64) (dims : nat),
      length a = dims -> Forall (fun x => fin x) a ->
      forall e : Z, (SpecFloat.emin 53 1024 <= e)%Z ->
      length b = dims -> Forall (fun x => fin x) b ->
      Forall2 (fun x y => mult_e e (B2R x * B2R y)) a b ->
      Rsum (map2 (fun x y => Rabs (B2R x * B2R y)) a b) <= bpow radix2 (e + 53) ->
      Rsum (map2 (fun x y => Rabs (B2R x * B2R y)) a b) < bpow radix2 1024 ->
      match generic_dot_product R float_math dims (init_mem a b res) with
      | Ok r m => run_ok (init_mem a b res) m /\ fin r /\ B2R r = Rsum (map2 (fun x y => B2R x * B2R y) a b)
      | _ => False
      end)
   /\
   (forall (a b res : list f64) (dims : nat),
      length a = dims -> Forall (fun x => fin x) a ->
      forall e : Z, (SpecFloat.emin 53 1024 <= e)%Z ->
      Forall (fun x => mult_e e (B2R x * B2R x)) a ->
      Rsum (map (fun x => Rabs (B2R x * B2R x)) a) <= bpow radix2 (e + 53) ->
      Rsum (map (fun x => Rabs (B2R x * B2R x)) a) < bpow radix2 1024 ->
      match generic_squared_norm R float_math dims (init_mem a b res) with
      | Ok r m => run_ok (init_mem a b res) m /\ fin r /\ B2R r = Rsum (map (fun x => B2R x * B2R x) a)
      | _ => False
      end)
   /\
   (forall (a b res : list f64) (dims : nat),
      length a = dims -> Forall (fun x => fin x) a ->
      forall e : Z, (SpecFloat.emin 53 1024 <= e)%Z ->
      length b = dims -> Forall (fun x => fin x) b ->
      Forall2 (fun x y => generic_format radix2 (FLT_exp (SpecFloat.emin 53 1024) 53) (B2R x - B2R y)
                           /\ mult_e e (sq x y)) a b ->
      Rsum (map2 (fun x y => Rabs (sq x y)) a b) <= bpow radix2 (e + 53) ->
      Rsum (map2 (fun x y => Rabs (sq x y)) a b) < bpow radix2 1024 ->
      match generic_euclidean R float_math dims (init_mem a b res) with
      | Ok r m => run_ok (init_mem a b res) m /\ fin r /\ B2R r = Rsum (map2 sq a b)
      | _ => False
      end)
   /\
   (forall (l1 l2 b res : list f64),
      Forall (fun x => fin x /\ B2R x = 0) l1 -> Forall (fun x => fin x /\ B2R x = 0) l2 ->
      let a := l1 ++ [f_one] ++ l2 in
      match generic_sum R float_math (length a) (init_mem a b res) with
      | Ok r m => run_ok (init_mem a b res) m /\ fin r /\ B2R r = 1
      | _ => False
      end).
Proof. exact (all_ops f64_ops f64_ops_faithful). Qed.

Check C04_sum_bound. Check C04_dot_bound. Check C04_norm_bound. Check C04_euclid_bound.
Check C04_sum_exact. Check C04_dot_exact. Check C04_norm_exact. Check C04_euclid_exact. Check C04_onehot.

(* Non-vacuity: the hypotheses of the bound are met by a concrete f32 dot product (a = b = [1; 1]: finite, products
   1 >= 2^-126, (1+u)^5 * 2 < 2^128, 5 u < 1), and — exactness hypotheses with e = 0 — the Fallback model then
   returns exactly 2. *)
Example C04_nonvacuous :
  let a : list f32 := [f_one; f_one] in
  let b : list f32 := [f_one; f_one] in
  (Forall (fun x => fin x) a /\ Forall (fun x => fin x) b
   /\ Forall2 (fun x y => nosub 24 (SpecFloat.emin 24 128) (B2R x * B2R y)) a b
   /\ (1 + u 24) ^ (2 + 3) * Rsum (map2 (fun x y => Rabs (B2R x * B2R y)) a b) < bpow radix2 128
   /\ INR (2 + 3) * u 24 < 1
   /\ Forall2 (fun x y => mult_e 0 (B2R x * B2R y)) a b
   /\ Rsum (map2 (fun x y => Rabs (B2R x * B2R y)) a b) <= bpow radix2 (0 + 24))
  /\ match generic_dot_product (fallback_ops float_math) float_math 2 (init_mem a b []) with
     | Ok r m => B2R r = 2
     | _ => False
     end.
Proof. exact nonvacuous. Qed.
