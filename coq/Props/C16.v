(* C16 — aligned buffers are 64-byte aligned, zeroed, correctly sized and independent.

   Model: Model/AlignedBuf.v, a line-by-line transcription of cfavml-utils/src/aligned_buffer.rs over a heap of
   byte blocks, parametric in every literal of the source.  [gen_ab_params] are the literals tools/translate_utils.py
   reads from /repo on every run (chunk bytes, align(N), the assert modulus, the divisor, the `+ 1` and whether it is a
   plain `+` or a `checked_add(..).expect(..)`, the fill byte), so the theorems below are about what the code says now.
   The model is tied to the real AlignedBuffer<T> by the correspondence of checks/c16.py.

   ORACLE (not proved, observed by the correspondence): the global allocator, [pick_ok]: a non-empty request gets a
   non-null block aligned as requested that is disjoint from every live block.  Allocation requests of at most
   isize::MAX bytes are assumed to succeed (otherwise the process aborts in handle_alloc_error). *)
From Coq Require Import ZArith List Bool.
From CF Require Import Gen.GenConstsUtils Model.AlignedBuf Proofs.AlignedBufProofs.
Import ListNotations.
Open Scope Z_scope.

(* The literals of the source satisfy what the proofs need: one chunk size used consistently (array length = assert
   modulus = divisor), an addend of at least one chunk, an alignment that is a multiple of 64 and divides the chunk
   (no padding), zero fill. *)
Theorem C16_literals : params_ok gen_ab_params.
Proof. exact gen_params_ok. Qed.

(* For every allocator meeting the contract, every heap, every element size dividing the chunk, both build profiles
   and EVERY length for which the chunk count fits usize and the storage fits isize::MAX bytes (the request Rust's
   Vec accepts): zeroed returns a buffer of exactly len elements whose storage covers the length and the reported
   capacity (len*size <= CH*chunks, allocated*size = CH*chunks, len < allocated = npc*chunks), whose address is
   64-byte aligned, whose len elements are all zero, and no other block of the heap is touched. *)
Theorem C16_zeroed :
  forall prof pick h len size,
    pick_ok pick -> valid_size gen_ab_params size -> 0 <= len ->
    len / (CH gen_ab_params / size) + ADD gen_ab_params < USIZE ->
    (len / (CH gen_ab_params / size) + ADD gen_ab_params) * CH gen_ab_params <= ISIZE_MAX ->
    exists r, zeroed gen_ab_params prof pick h len size = Ok r /\ zeroed_good gen_ab_params h len size r.
Proof. exact (fun prof pick h len size => zeroed_good_of_guarded gen_ab_params prof pick h len size gen_params_ok). Qed.

(* The same without the guard, for EVERY len < 2^64: zeroed either panics (capacity overflow) or returns a good buffer.
   The statement proved follows the form of the source:
     checked chunk count      -> holds in debug and release;
     plain `len / npc + 1`    -> holds in debug builds (the addition panics) and is REFUTED for release builds:
                                 there exist len, size (2^64 - 1 and 64) for which zeroed returns a buffer with zero chunks,
                                 allocated_size() = 0 < len, whose view lies outside its (empty) storage. *)
Theorem C16_total_or_refuted : total_or_refuted gen_ab_params.
Proof. exact gen_total_or_refuted. Qed.

(* Sizes that do not divide the chunk — including zero-sized types — panic before anything is allocated. *)
Theorem C16_rejects :
  forall prof pick h len size, 0 <= size -> ~ valid_size gen_ab_params size ->
    zeroed gen_ab_params prof pick h len size = Panic PRemZero \/ zeroed gen_ab_params prof pick h len size = Panic PAssert.
Proof. exact (fun prof pick h len size => zeroed_rejects gen_ab_params prof pick h len size gen_params_ok). Qed.

(* Writes through the mutable view are read back through the shared view; the slack beyond len and every other block
   are untouched; a slice of the wrong length panics. *)
Theorem C16_write_read :
  forall h b size data, 0 < size -> wf_buf h b size -> elems_ok size (b_len b) data ->
    exists h', copy_from_slice h b size data = Ok h' /\ as_slice h' b size = Some data
               /\ wf_buf h' b size
               /\ (forall a, a <> b_ptr b -> lookup h' a = lookup h a)
               /\ skipn (Z.to_nat (b_len b * size)) (block_bytes h' (b_ptr b))
                  = skipn (Z.to_nat (b_len b * size)) (block_bytes h (b_ptr b)).
Proof. exact write_read. Qed.

Theorem C16_write_wrong_length_panics :
  forall h b size data, wf_buf h b size -> Z.of_nat (length data) <> b_len b ->
    copy_from_slice h b size data = Panic PCopyLen.
Proof. exact copy_len_mismatch. Qed.

(* A clone is an independent deep copy: same length, capacity and contents, a different 64-byte aligned block; writing
   either buffer afterwards is read back from it and leaves the other one's contents as they were. *)
Theorem C16_clone_independent :
  forall pick h b size, pick_ok pick -> 0 < size -> wf_buf h b size ->
    exists h1 c,
      clone gen_ab_params pick h b = (h1, c)
      /\ b_len c = b_len b /\ allocated_size c = allocated_size b
      /\ as_ptr c <> as_ptr b /\ as_ptr c mod 64 = 0
      /\ as_slice h1 c size = as_slice h b size
      /\ as_slice h1 b size = as_slice h b size
      /\ (forall data, elems_ok size (b_len c) data ->
            exists h2, copy_from_slice h1 c size data = Ok h2
                       /\ as_slice h2 c size = Some data /\ as_slice h2 b size = as_slice h b size)
      /\ (forall data, elems_ok size (b_len b) data ->
            exists h2, copy_from_slice h1 b size data = Ok h2
                       /\ as_slice h2 b size = Some data /\ as_slice h2 c size = as_slice h b size).
Proof. exact (fun pick h b size Hpick => clone_independent gen_ab_params pick h b size Hpick gen_params_ok). Qed.

(* The allocator contract is satisfiable — by an allocator that is adversarial about everything the contract leaves
   open (never aligned to more than requested) — so none of the above is vacuous. *)
Theorem C16_allocator_contract_satisfiable : pick_ok adv_pick.
Proof. exact adv_pick_ok. Qed.

Check C16_zeroed.
Check C16_total_or_refuted : if CHK gen_ab_params
                             then forall prof, never_undersized gen_ab_params prof
                             else never_undersized gen_ab_params Debug /\ undersized_witness gen_ab_params Release.

(* Non-vacuity: a concrete run (5 four-byte elements, then a write, a clone, and a write to the clone). *)
Example C16_nonvacuous :
  match zeroed gen_ab_params Release adv_pick [] 5 4 with
  | Ok (h0, b) =>
      allocated_size b = 16 /\ as_ptr b mod 64 = 0
      /\ as_slice h0 b 4 = Some (repeat [0; 0; 0; 0] 5)
      /\ match copy_from_slice h0 b 4 (pattern 1 5 4) with
         | Ok h1 =>
             as_slice h1 b 4 = Some (pattern 1 5 4)
             /\ (let '(h2, c) := clone gen_ab_params adv_pick h1 b in
                 match copy_from_slice h2 c 4 (pattern 2 5 4) with
                 | Ok h3 => as_slice h3 b 4 = Some (pattern 1 5 4) /\ as_slice h3 c 4 = Some (pattern 2 5 4)
                            /\ as_ptr c <> as_ptr b
                 | _ => False
                 end)
         | _ => False
         end
  | _ => False
  end.
Proof. vm_compute. repeat split; try reflexivity; discriminate. Qed.
