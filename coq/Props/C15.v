(* C15 (under construction) *)
From CF Require Import Model.Transpose Proofs.TransposeProofs.
