(* C15 — matrix transpose is an exact, in-bounds permutation for every shape and type.
   Model: Model/Transpose.v (hand-written mirror of cfavml-gemm/src/transpose/{mod.rs,impl_avx2.rs}),
   parametric in the form of the two shape checks and in the two shuffle networks, which checks/c15.py
   reads from the current source on every run; tied to the compiled code by running the real
   `transpose_matrix::<T>` and this model on the same cases (checks/c15.py + harness/gemmh).
   Sizes and indices are Z (usize values); [two64] = 2^64. *)
From Coq Require Import List ZArith Bool.
From CF Require Import Model.Transpose Proofs.TransposeProofs.
Import ListNotations.
Open Scope Z_scope.

(* (a) The in-register shuffle networks of impl_avx2.rs — unpacklo/unpackhi, shuffle_ps 0x44/0xEE,
   permute2f128 0x20/0x31 (f32: 8 registers of 8 lanes) and unpacklo/hi_pd, permute2f128
   _MM_SHUFFLE(0,0,0,2)/_MM_SHUFFLE(0,3,0,1) (f64: 4 registers of 4 lanes) — map ANY 8x8 (4x4) block of
   lanes of ANY element type to its mathematical transpose. *)
Theorem C15_reg_transpose_f32 : forall (T : Type) (m : list (list T)),
  length m = 8%nat -> Forall (fun r => length r = 8%nat) m ->
  run_network net_f32 m = map (fun c => flat_map (fun row => firstn 1 (skipn c row)) m) (seq 0 8).
Proof. exact (fun T m Hl HF => reg_transpose_f32 T m (conj Hl HF)). Qed.

Theorem C15_reg_transpose_f64 : forall (T : Type) (m : list (list T)),
  length m = 4%nat -> Forall (fun r => length r = 4%nat) m ->
  run_network net_f64 m = map (fun c => flat_map (fun row => firstn 1 (skipn c row)) m) (seq 0 4).
Proof. exact (fun T m Hl HF => reg_transpose_f64 T m (conj Hl HF)). Qed.

(* (b) For every element type T and value, both forms of either shape check, both profiles, every element
   kind (32-bit / 64-bit / other), with and without AVX2, EVERY width and height whose product fits a usize,
   every input and every initial content of the result buffer of that length: the call returns, the result
   keeps its length, result[i*height + j] = data[j*width + i] for all i < width, j < height, every logged
   access (loads from data, stores to result) lies inside [0, width*height) — an access outside its slice
   would have produced Fault — and every result cell is covered by a store. *)
Theorem C15_permutation :
  forall (T : Type) (outer inner : mulform) (debug : bool) (k : kind) (avx2 : bool) (w h : Z)
         (data result : list T),
    0 <= w -> 0 <= h -> w * h < two64 ->
    zlen data = w * h -> zlen result = w * h ->
    exists s', transpose_matrix (std_cfg outer inner) debug k avx2 w h data result = Ok s' /\
      length (res s') = length result /\
      (forall i j, 0 <= i < w -> 0 <= j < h ->
         exists v, zget (res s') (i * h + j) = Some v /\ zget data (j * w + i) = Some v) /\
      Forall (fun e => 0 <= ev_idx e /\ 0 <= ev_len e /\ ev_idx e + ev_len e <= w * h) (log s') /\
      (forall x, 0 <= x < w * h ->
         exists e, In e (log s') /\ ev_wr e = true /\ ev_idx e <= x < ev_idx e + ev_len e).
Proof.
  exact (fun T outer inner debug k avx2 w h data result =>
           transpose_matrix_correct T (std_cfg outer inner) debug k avx2 w h data result
                                    (std_cfg_wf outer inner)).
Qed.

(* the same for the two public `unsafe fn` AVX2 entry points called as documented *)
Theorem C15_avx2_entries :
  forall (T : Type) (outer inner : mulform) (debug : bool) (w h : Z) (data result : list T),
    0 < w -> 0 < h -> w * h < two64 -> zlen data = w * h -> zlen result = w * h ->
    (exists s, f32_xany_avx2_nofma_transpose (std_cfg outer inner) debug w h data result = Ok s
               /\ transposed w h data result s) /\
    (exists s, f64_xany_avx2_nofma_transpose (std_cfg outer inner) debug w h data result = Ok s
               /\ transposed w h data result s).
Proof.
  exact (fun T outer inner debug w h data result =>
           avx2_entries_correct T (std_cfg outer inner) debug w h data result (std_cfg_wf outer inner)).
Qed.

(* (c) Shape mismatches.  [no_wrap_form f debug] = the product expression cannot wrap: the
   `checked_mul(..).expect(..)` form in any profile, or the plain `width * height` in the debug profile.
   Then ANY call whose data length is not the mathematical product width*height, or whose result length
   differs from the data length, panics: in the assert when the product fits a usize, in the overflow
   check / expect when it does not.  No bound on width and height. *)
Theorem C15_rejects :
  forall (T : Type) (cfg : tcfg) (debug : bool) (k : kind) (avx2 : bool) (w h : Z) (data result : list T),
    no_wrap_form (chk_outer cfg) debug = true ->
    (zlen data <> w * h \/ zlen result <> zlen data) ->
    transpose_matrix cfg debug k avx2 w h data result
    = if w * h <? two64 then PanicAssert else PanicOverflow.
Proof. exact transpose_matrix_rejects. Qed.

(* For the plain product in the release profile the full statement is FALSE (next theorem); what holds
   is the statement guarded by "the product does not overflow" (every form, every profile). *)
Theorem C15_rejects_no_overflow :
  forall (T : Type) (cfg : tcfg) (debug : bool) (k : kind) (avx2 : bool) (w h : Z) (data result : list T),
    0 <= w -> 0 <= h -> w * h < two64 ->
    (zlen data <> w * h \/ zlen result <> zlen data) ->
    transpose_matrix cfg debug k avx2 w h data result = PanicAssert.
Proof. exact transpose_matrix_rejects_no_overflow. Qed.

(* `assert_eq!(data.len(), width * height)` in a release build: width = 2^63, height = 2 and two EMPTY
   slices pass both asserts (the product wraps to 0) and the first element access is out of bounds — for
   every element kind and both routes; and whatever form the inner check of generic_transpose has, the
   scalar route (every type other than f32/u32/f64/u64) is reached without any further check. *)
Theorem C15_rejects_refuted :
  exists (w h : Z) (data result : list unit),
    0 <= w < two64 /\ 0 <= h < two64 /\ zlen data <> w * h /\
    (forall k avx2, transpose_matrix (std_cfg MulPlain MulPlain) false k avx2 w h data result = Fault) /\
    (forall inner avx2, transpose_matrix (std_cfg MulPlain inner) false KOther avx2 w h data result = Fault).
Proof. exact transpose_matrix_rejects_refuted. Qed.

(* the shape check of generic_transpose, reached directly through the public AVX2 entry points *)
Theorem C15_avx2_entries_reject :
  forall (T : Type) (cfg : tcfg) (debug : bool) (w h : Z) (data result : list T),
    no_wrap_form (chk_inner cfg) debug = true ->
    (zlen data <> w * h \/ zlen result <> zlen data) ->
    f32_xany_avx2_nofma_transpose cfg debug w h data result
      = (if w * h <? two64 then PanicAssert else PanicOverflow) /\
    f64_xany_avx2_nofma_transpose cfg debug w h data result
      = (if w * h <? two64 then PanicAssert else PanicOverflow).
Proof. exact avx2_entries_reject. Qed.

Theorem C15_avx2_entries_reject_refuted :
  exists (w h : Z) (data result : list unit),
    0 <= w < two64 /\ 0 <= h < two64 /\ zlen data <> w * h /\
    forall outer,
      f32_xany_avx2_nofma_transpose (std_cfg outer MulPlain) false w h data result = Fault /\
      f64_xany_avx2_nofma_transpose (std_cfg outer MulPlain) false w h data result = Fault.
Proof. exact avx2_entry_rejects_refuted. Qed.

(* (d) Transposing a width x height matrix and then the height x width result restores the input, whatever
   the two result buffers held before. *)
Theorem C15_involution :
  forall (T : Type) (outer inner : mulform) (debug : bool) (k : kind) (avx2 : bool) (w h : Z)
         (data r0 r1 : list T),
    0 <= w -> 0 <= h -> w * h < two64 ->
    zlen data = w * h -> zlen r0 = w * h -> zlen r1 = w * h ->
    exists s1 s2,
      transpose_matrix (std_cfg outer inner) debug k avx2 w h data r0 = Ok s1 /\
      transpose_matrix (std_cfg outer inner) debug k avx2 h w (res s1) r1 = Ok s2 /\
      res s2 = data.
Proof.
  exact (fun T outer inner debug k avx2 w h data r0 r1 =>
           transpose_involution T (std_cfg outer inner) debug k avx2 w h data r0 r1 (std_cfg_wf outer inner)).
Qed.

Check C15_permutation. Check C15_rejects. Check C15_rejects_refuted. Check C15_involution.

(* Non-vacuity: a 19 x 18 f32 matrix goes through one 16 x 16 block (four 8 x 8 register transposes), the
   row tail and the column tail, and comes out transposed: 4*8 vector stores + 3*16 + 2*19 scalar stores. *)
Example C15_nonvacuous :
  let data := map Z.of_nat (seq 0 (19 * 18)) in
  match transpose_matrix (std_cfg MulPlain MulPlain) false K32 true 19 18 data (map (fun _ => -1) data) with
  | Ok s => res s = flat_map (fun i => map (fun j => j * 19 + i) (map Z.of_nat (seq 0 18))) (map Z.of_nat (seq 0 19))
            /\ length (filter ev_wr (log s)) = (4 * 8 + 3 * 16 + 2 * 19)%nat
  | _ => False
  end.
Proof. vm_compute. split; reflexivity. Qed.
