(* C07 — per-back-end kernels stay in bounds for every length and alignment (model part: indices).
   The kernel model (Model/Kernels.v) is hand-written, mirroring op_*.rs; it is tied to the code by
   correspondence (A): a symbolic run of the real generic kernels must produce the same terms, result cells
   and register-level event log as this model (checks/symrun.py). *)
From Coq Require Import List Arith Bool.
From CF Require Import Base.Mem Model.Tables Model.SimdApi Model.Kernels Model.Sym.
From CF Require Import Proofs.KernelBounds Proofs.OpsWf.
Import ListNotations.

(* For all 19 kernels, every element type, EVERY register geometry whose operations preserve the lane count
   (lanes >= 1: 128-, 256-, 512-bit alike), every length dims and every input: called as documented, the
   kernel terminates (no OutOfFuel with fuel dims+1), never performs an access that leaves its slice (no
   Fault), and — whether it returns or panics on an integer zero divisor — every logged access [idx, idx+w)
   lies inside the slice it targets, reads target only a / b, writes target only result, the inputs are
   unchanged and the result slice keeps its length. *)
Theorem C07_kernels_in_bounds :
  forall (T : Type) (R : SimdOps T) (Mth : MathOps T) (k : kernel) (dims : nat) (v : T) (a b res : list T),
    ops_wf R ->
    length a = dims ->
    (kernel_uses_b k = true -> length b = dims) ->
    (kernel_writes k = true -> length res = dims) ->
    match run_kernel R Mth k dims v (init_mem a b res) with
    | Ok _ m | Panic m =>
        mA m = a /\ mB m = b /\ length (mR m) = length res
        /\ Forall (fun e => ev_idx e + ev_width e <= length (slice_of (init_mem a b res) (ev_slice e))
                            /\ event_ok e = true) (trace m)
    | Fault _ | OutOfFuel => False
    end.
Proof. exact (@kernels_in_bounds). Qed.

(* The hypothesis is satisfiable for every lane count: the symbolic back end of any L >= 1 — the very
   instance that is compared with the real code — is well formed. *)
Theorem C07_every_geometry : forall L, 1 <= L -> ops_wf (sym_ops L).
Proof. exact sym_ops_wf. Qed.

(* The three phases partition [0, dims): q dense blocks of 8L, m < 8 single registers, r < L scalars. *)
Theorem C07_partition :
  forall dims L, 1 <= L ->
    KernelRules.qn dims L * KernelRules.Dn L + KernelRules.mn dims L * L + KernelRules.rn dims L = dims
    /\ KernelRules.mn dims L < 8 /\ KernelRules.rn dims L < L.
Proof. exact KernelRules.partition. Qed.

Example C07_nonvacuous :
  match sym_run KDivVec 3 53 53 53 53 false false false with
  | Ok RUnit m => length (trace m) = 2 * (3 * 8) + 1 * 3 + 2 * 3  /\ length (mR m) = 53
  | _ => False
  end.
Proof. vm_compute. split; reflexivity. Qed.
