(* C03 - the kernels this property speaks about are the TRANSLATED source.

   Gen/GenKernels.v is regenerated on every run by tools/translate_kernels.py from cfavml/src/danger/op_*.rs (a
   statement-by-statement rendering of each Rust body into the monad of Base/Mem.v: loop bounds, increments, start
   indices, which slice is loaded / stored where, operands and accumulators as the source writes them).  The theorem
   says the generated definitions of the 4 additive reductions (sum, dot product, squared norm, squared Euclidean distance) ARE the hand-written model Model/Kernels.v
   that Props/C03.v is about (equality of computations, by conversion), so those theorems are statements about what
   the source says now.  Trusted: the translator's construct-by-construct mapping (DESIGN 8.5). *)
From Coq Require Import List Arith Bool String.
From CF Require Import Base.Mem Model.Tables Model.SimdApi Model.Kernels.
From CF Require Import Gen.GenKernels.
From CF Require Import Proofs.GenKernelsReduce.

Theorem C03_kernels_are_translated_source :
  forall (T : Type) (R : SimdOps T) (Mth : MathOps T),
    (forall dims, gen_generic_sum R Mth dims = generic_sum R Mth dims)
    /\ (forall dims, gen_generic_dot_product R Mth dims = generic_dot_product R Mth dims)
    /\ (forall dims, gen_generic_squared_norm R Mth dims = generic_squared_norm R Mth dims)
    /\ (forall dims, gen_generic_euclidean R Mth dims = generic_euclidean R Mth dims).
Proof. intros T R Mth. repeat split; intros; first [apply gen_sum_is_model | apply gen_dot_product_is_model | apply gen_squared_norm_is_model | apply gen_euclidean_is_model]. Qed.
