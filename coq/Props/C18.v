(* C18 — the scalar math layer (trait Math<T>: StdMath and, under the `nightly` feature, FastMath) agrees with the
   primitive types it wraps.

   Every statement below is about Gen/GenMath.v, which tools/translate_more.py REGENERATES on every run from
   cfavml/src/math/default.rs and cfavml/src/math/fast_math.rs by translating the one-line method bodies (macro
   arms expanded per type) over the primitives of Model/Prim.v and Model/PrimMore.v — the trusted statement of what
   Rust's integer and float primitives compute.  `gen_int_math v t = Some M` ranges over the 2 x 8 integer layers,
   `gen_float_layer prec emax _ _ M` over the 2 x 2 float layers.  Operands are all bit patterns of the type
   (`in_range w x`: 0 <= x < 2^w; `ival sg w x` is the signed/unsigned reading) and all floats.
   The same definitions are run against the real methods by checks/c18.py (harness/mathh). *)
From Coq Require Import ZArith Bool List Reals.
From Flocq Require Import Core.Core IEEE754.BinarySingleNaN.
From CF Require Import Model.Tables Model.Prim Model.SimdApi Model.PrimMore Model.Regs Gen.GenMath.
From CF Require Import Proofs.MathProofs.
Local Open Scope Z_scope.

(** * Which layers exist *)

Theorem C18_int_layers_exist :
  forall v t, is_float t = false -> exists M, gen_int_math v t = Some M.
Proof. exact gen_int_defined. Qed.

Check GF32 : forall v, gen_float_layer 24 128 prec32 emax32 (gen_f32_math v).
Check GF64 : forall v, gen_float_layer 53 1024 prec64 emax64 (gen_f64_math v).
Check (fun w x => eq_refl : in_range w x = (0 <= x < 2 ^ w)).
Check (fun prec emax (a b : binary_float prec emax) =>
         eq_refl : f_ordered_le a b = (Bcompare a b = Some Lt \/ Bcompare a b = Some Eq)).

(** * Integers: the layer IS the wrapping primitive layer, field by field and for all operands *)

(* add/sub/mul/div are wrapping_add/sub/mul/div (i_div: None = panic on a zero divisor), min/max are Ord::min/max
   on the type's reading, cmp_eq is ==, MAX/MIN are the type's constants, sqrt is `(a as f64).sqrt() as T`. *)
Theorem C18_int_is_primitive :
  forall v t M, gen_int_math v t = Some M -> mathops_ext M (int_math (is_signed t) (width t)).
Proof. exact gen_int_is_spec. Qed.

(* zero and one are the additive and multiplicative identities *)
Theorem C18_int_identities :
  forall v t M, gen_int_math v t = Some M ->
  forall x, in_range (width t) x ->
    m_add M (m_zero M) x = x /\ m_add M x (m_zero M) = x /\ m_mul M (m_one M) x = x /\ m_mul M x (m_one M) = x.
Proof. exact int_identities. Qed.

(* min() / max() are the type's MIN / MAX and bound every value *)
Theorem C18_int_bounds :
  forall v t M, gen_int_math v t = Some M ->
  let sg := is_signed t in let w := width t in
    in_range w (m_min M) /\ in_range w (m_max M) /\
    ival sg w (m_min M) = int_lo sg w /\ ival sg w (m_max M) = int_hi sg w /\
    forall x, in_range w x -> ival sg w (m_min M) <= ival sg w x <= ival sg w (m_max M).
Proof. exact int_bounds. Qed.

(* add/sub/mul: the result is a value of the type congruent to the exact result modulo 2^w (= wrapping);
   div: panics exactly on a zero divisor, otherwise the truncated quotient, wrapped (MIN / -1 = MIN), which is the
   exact quotient in every other case *)
Theorem C18_int_arith_wrapping :
  forall v t M, gen_int_math v t = Some M ->
  let sg := is_signed t in let w := width t in
  forall a b, in_range w a -> in_range w b ->
    (in_range w (m_add M a b) /\ ival sg w (m_add M a b) mod 2 ^ w = (ival sg w a + ival sg w b) mod 2 ^ w) /\
    (in_range w (m_sub M a b) /\ ival sg w (m_sub M a b) mod 2 ^ w = (ival sg w a - ival sg w b) mod 2 ^ w) /\
    (in_range w (m_mul M a b) /\ ival sg w (m_mul M a b) mod 2 ^ w = (ival sg w a * ival sg w b) mod 2 ^ w) /\
    match m_div M a b with
    | None => b = 0
    | Some q => b <> 0 /\ in_range w q /\ q = wrap w (Z.quot (ival sg w a) (ival sg w b)) /\
                (~ (ival sg w a = int_lo sg w /\ ival sg w b = -1) -> ival sg w q = Z.quot (ival sg w a) (ival sg w b))
    end.
Proof. exact int_arith. Qed.

(* whenever the exact result fits the type, it is the result *)
Theorem C18_int_arith_exact_when_fits :
  forall v t M, gen_int_math v t = Some M ->
  let sg := is_signed t in let w := width t in
  forall a b, in_range w a -> in_range w b ->
    (int_lo sg w <= ival sg w a + ival sg w b <= int_hi sg w -> ival sg w (m_add M a b) = ival sg w a + ival sg w b) /\
    (int_lo sg w <= ival sg w a - ival sg w b <= int_hi sg w -> ival sg w (m_sub M a b) = ival sg w a - ival sg w b) /\
    (int_lo sg w <= ival sg w a * ival sg w b <= int_hi sg w -> ival sg w (m_mul M a b) = ival sg w a * ival sg w b).
Proof. exact int_arith_exact. Qed.

(* cmp_min / cmp_max return one of their arguments, the smaller / larger under the type's reading *)
Theorem C18_int_minmax :
  forall v t M, gen_int_math v t = Some M ->
  let sg := is_signed t in let w := width t in
  forall a b,
    ((m_cmp_min M a b = a \/ m_cmp_min M a b = b) /\ ival sg w (m_cmp_min M a b) = Z.min (ival sg w a) (ival sg w b)) /\
    ((m_cmp_max M a b = a \/ m_cmp_max M a b = b) /\ ival sg w (m_cmp_max M a b) = Z.max (ival sg w a) (ival sg w b)).
Proof. exact int_minmax. Qed.

(* cmp_eq is equality of the patterns = equality of the values *)
Theorem C18_int_eq :
  forall v t M, gen_int_math v t = Some M ->
  let sg := is_signed t in let w := width t in
  forall a b, in_range w a -> in_range w b ->
    (m_cmp_eq M a b = true <-> a = b) /\ (m_cmp_eq M a b = true <-> ival sg w a = ival sg w b).
Proof. exact int_eq. Qed.

(* abs (not named by the property; release semantics): |x| except that MIN.abs() wraps to MIN; identity if unsigned *)
Theorem C18_int_abs :
  forall v t M, gen_int_math v t = Some M ->
  let sg := is_signed t in let w := width t in
  forall a, in_range w a ->
    in_range w (m_abs M a) /\
    (ival sg w a <> int_lo sg w \/ sg = false -> ival sg w (m_abs M a) = Z.abs (ival sg w a)).
Proof. exact int_abs. Qed.

(* The integer square root — computed as `(a as f64).sqrt() as T` — is the floor of the root for every
   non-negative value of the type below 2^52: the conversion to binary64 is exact below 2^53, the IEEE root is
   the correctly rounded root and rounding is monotone, k = floor(sqrt a) and (k+1) - 2^-27 are binary64 numbers
   (k + 1 <= 2^26) with k <= sqrt a <= (k+1) - 2^-27, so the rounded root lies in [k, k+1) and truncates to k. *)
Theorem C18_isqrt :
  forall v t M, gen_int_math v t = Some M ->
  forall a, 0 <= a < 2 ^ 52 -> a <= int_hi (is_signed t) (width t) -> m_sqrt M a = Z.sqrt a.
Proof. exact int_isqrt. Qed.

(** * Floats (binary32 and binary64, both variants) *)

(* the layer is the IEEE-754 layer, field by field: Std — `+ - * /`, `==`, f32::min/max/abs/sqrt; Fast — the
   algebraic intrinsics under their recorded contract (PrimMore.v: absent compiler rewrites they are the IEEE
   operation; the correspondence allows the real nightly division the property's 2 ulp) *)
Theorem C18_float_is_primitive :
  forall prec emax Hp He M, gen_float_layer prec emax Hp He M -> mathops_ext M (@float_math prec emax Hp He).
Proof. exact gen_float_is_spec. Qed.

Theorem C18_float_ops_are_ieee :
  forall prec emax Hp He (M : MathOps (binary_float prec emax)), gen_float_layer prec emax Hp He M ->
    m_zero M = B754_zero false /\ m_one M = Bone /\ m_max M = B754_infinity false /\ m_min M = B754_infinity true /\
    (forall a, m_sqrt M a = Bsqrt mode_NE a) /\ (forall a, m_abs M a = Babs a) /\
    (forall a b, m_cmp_eq M a b = Beqb a b) /\
    (forall a b, m_add M a b = Bplus mode_NE a b) /\ (forall a b, m_sub M a b = Bminus mode_NE a b) /\
    (forall a b, m_mul M a b = Bmult mode_NE a b) /\ (forall a b, m_div M a b = Some (Bdiv mode_NE a b)).
Proof. exact float_ops_are_ieee. Qed.

(* zero and one are the identities: x + 0 == x for every non-NaN x (bit for bit unless x is -0, whose sum with +0
   is the equal value +0), 1 * x = x bit for bit *)
Theorem C18_float_identities :
  forall prec emax Hp He (M : MathOps (binary_float prec emax)), gen_float_layer prec emax Hp He M ->
  forall x, f_is_nan x = false ->
    f_eq (m_add M (m_zero M) x) x = true /\ f_eq (m_add M x (m_zero M)) x = true /\
    (x <> B754_zero true -> m_add M (m_zero M) x = x /\ m_add M x (m_zero M) = x) /\
    m_mul M (m_one M) x = x /\ m_mul M x (m_one M) = x.
Proof. exact float_identities. Qed.

(* min() = -inf and max() = +inf bound every non-NaN value *)
Theorem C18_float_bounds :
  forall prec emax Hp He (M : MathOps (binary_float prec emax)), gen_float_layer prec emax Hp He M ->
  forall x, f_is_nan x = false -> f_ordered_le (m_min M) x /\ f_ordered_le x (m_max M).
Proof. exact float_bounds. Qed.

(* cmp_min / cmp_max return one of their arguments, ordered (Bcompare) below / above both, for non-NaN input *)
Theorem C18_float_minmax :
  forall prec emax Hp He (M : MathOps (binary_float prec emax)), gen_float_layer prec emax Hp He M ->
  forall a b, f_is_nan a = false -> f_is_nan b = false ->
    ((m_cmp_min M a b = a \/ m_cmp_min M a b = b) /\
     f_ordered_le (m_cmp_min M a b) a /\ f_ordered_le (m_cmp_min M a b) b) /\
    ((m_cmp_max M a b = a \/ m_cmp_max M a b = b) /\
     f_ordered_le a (m_cmp_max M a b) /\ f_ordered_le b (m_cmp_max M a b)).
Proof. exact float_minmax. Qed.

(* cmp_eq is IEEE equality: NaN is unequal to everything, +0 = -0, finite values are equal iff their reals are *)
Theorem C18_float_eq :
  forall prec emax Hp He (M : MathOps (binary_float prec emax)), gen_float_layer prec emax Hp He M ->
  forall a b,
    (m_cmp_eq M a b = true <-> Bcompare a b = Some Eq) /\
    (f_is_nan a = true \/ f_is_nan b = true -> m_cmp_eq M a b = false) /\
    (is_finite a = true -> is_finite b = true -> (m_cmp_eq M a b = true <-> B2R a = B2R b)) /\
    (forall s1 s2, m_cmp_eq M (B754_zero s1) (B754_zero s2) = true).
Proof. exact float_eq. Qed.

(* add/sub/mul/div are the correctly rounded (to nearest even) real results whenever that does not overflow *)
Theorem C18_float_arith_correctly_rounded :
  forall prec emax Hp He (M : MathOps (binary_float prec emax)), gen_float_layer prec emax Hp He M ->
  forall x y, is_finite x = true -> is_finite y = true ->
    let RN := round radix2 (SpecFloat.fexp prec emax) (round_mode mode_NE) in
    ((Rabs (RN (B2R x + B2R y)) < bpow radix2 emax)%R ->
       B2R (m_add M x y) = RN (B2R x + B2R y)%R /\ is_finite (m_add M x y) = true) /\
    ((Rabs (RN (B2R x - B2R y)) < bpow radix2 emax)%R ->
       B2R (m_sub M x y) = RN (B2R x - B2R y)%R /\ is_finite (m_sub M x y) = true) /\
    ((Rabs (RN (B2R x * B2R y)) < bpow radix2 emax)%R ->
       B2R (m_mul M x y) = RN (B2R x * B2R y)%R /\ is_finite (m_mul M x y) = true) /\
    (B2R y <> 0%R -> (Rabs (RN (B2R x / B2R y)) < bpow radix2 emax)%R ->
       exists q, m_div M x y = Some q /\ B2R q = RN (B2R x / B2R y)%R /\ is_finite q = true).
Proof. exact float_arith_rounded. Qed.

(* sqrt (std build) is the IEEE square root: the correctly rounded root *)
Theorem C18_float_sqrt :
  forall prec emax Hp He (M : MathOps (binary_float prec emax)), gen_float_layer prec emax Hp He M ->
  forall x,
    m_sqrt M x = Bsqrt mode_NE x /\
    B2R (m_sqrt M x) = round radix2 (SpecFloat.fexp prec emax) (round_mode mode_NE) (sqrt (B2R x)) /\
    (is_finite x = true -> Bsign x = false -> is_finite (m_sqrt M x) = true).
Proof. exact float_sqrt. Qed.

(** * Non-vacuity: the layers exist and compute *)

Example C18_nonvacuous :
  match gen_int_math VFast I8 with Some M => m_sub M 0 1 = 255 | None => False end /\
  m_add fast_i8 127 1 = 128 /\                      (* i8: 127 + 1 wraps to MIN (pattern 0x80) *)
  m_div std_i8 128 255 = Some 128 /\                (* MIN / -1 = MIN *)
  m_div std_u8 1 0 = None /\                        (* division by zero panics *)
  m_cmp_min std_i8 255 1 = 255 /\                   (* min(-1, 1) = -1 *)
  m_cmp_min std_u8 255 1 = 1 /\
  m_sqrt std_u32 999999 = 999 /\ m_sqrt fast_i64 1000000 = 1000 /\
  bits_of_f32 (m_add fast_f32 (m_one fast_f32) (m_one fast_f32)) = Some 1073741824 /\     (* 1.0 + 1.0 = 2.0 *)
  bits_of_f64 (m_sqrt std_f64 (f64_of_bits 4611686018427387904)) = Some 4609047870845172685.  (* sqrt 2.0 *)
Proof. repeat split; vm_compute; reflexivity. Qed.
