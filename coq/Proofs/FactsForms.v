(* Reflection: const and any arms of every safe macro agree. *)
From Coq Require Import String List Bool Arith.
From CF Require Import Model.Tables Model.TableSem Proofs.TableProofs.
From CF Require Import Gen.GenExports Gen.GenSafe Gen.GenMacros Gen.GenDispatch.
Import ListNotations.

Lemma safe_forms_agree : forallb safe_macro_forms_agree safe_macros = true.
Proof. vm_compute. reflexivity. Qed.
