(* General (table-independent) soundness lemmas for the checkers of Model/TableSem.v. *)
From Coq Require Import String List Bool Arith Lia.
From CF Require Import Model.Tables Model.TableSem.
Import ListNotations.

Lemma lenexp_eqb_eq a b : lenexp_eqb a b = true -> a = b.
Proof. destruct a, b; simpl; congruence. Qed.

Lemma asserts_pass_in l asserts p :
  asserts_pass l asserts = true -> In p asserts -> eval_len l (fst p) = eval_len l (snd p).
Proof.
  unfold asserts_pass. rewrite forallb_forall. intros H Hin.
  apply Nat.eqb_eq. exact (H p Hin).
Qed.

Lemma neighbours_sound l asserts x y :
  asserts_pass l asserts = true -> In y (neighbours asserts x) -> eval_len l y = eval_len l x.
Proof.
  intros Hp. unfold neighbours. rewrite in_flat_map. intros [p [Hin Hy]].
  pose proof (asserts_pass_in l asserts p Hp Hin) as He.
  apply in_app_or in Hy. destruct Hy as [Hy | Hy].
  - destruct (lenexp_eqb (fst p) x) eqn:E; [|contradiction].
    apply lenexp_eqb_eq in E. destruct Hy as [<- | []]. congruence.
  - destruct (lenexp_eqb (snd p) x) eqn:E; [|contradiction].
    apply lenexp_eqb_eq in E. destruct Hy as [<- | []]. congruence.
Qed.

Lemma reach_sound l asserts n x y :
  asserts_pass l asserts = true -> In y (reach asserts n x) -> eval_len l y = eval_len l x.
Proof.
  intros Hp. revert y. induction n as [|n IH]; intros y Hy; cbn [reach] in Hy.
  - destruct Hy as [<- | []]. reflexivity.
  - apply in_app_or in Hy. destruct Hy as [Hy | Hy]; [auto|].
    rewrite in_flat_map in Hy. destruct Hy as [z [Hz Hy]].
    rewrite (neighbours_sound l asserts z y Hp Hy). auto.
Qed.

(* Whenever the runtime asserts all pass, every entailed equality holds of the actual lengths. *)
Lemma entails_sound l asserts q :
  entails asserts q = true -> asserts_pass l asserts = true -> eval_len l (fst q) = eval_len l (snd q).
Proof.
  unfold entails. rewrite existsb_exists. intros [y [Hy E]] Hp.
  apply lenexp_eqb_eq in E. subst y. symmetry. eapply reach_sound; eauto.
Qed.

Lemma entails_all_sound l asserts qs :
  forallb (entails asserts) qs = true -> asserts_pass l asserts = true ->
  forall q, In q qs -> eval_len l (fst q) = eval_len l (snd q).
Proof.
  rewrite forallb_forall. intros H Hp q Hq. apply entails_sound with (asserts := asserts); auto.
Qed.

(* Meaning of [needs]: the three facts a kernel call relies on. *)
Definition lens_fit (f : form) (ps : list param) (l : lens) : Prop :=
  (f = Const -> len_dims l = len_a l)
  /\ (existsb (param_eqb PB) ps = true -> len_b l = len_a l)
  /\ (existsb (param_eqb PResult) ps = true -> len_r l = len_a l).

Lemma needs_fit f ps l :
  (forall q, In q (needs f ps) -> eval_len l (fst q) = eval_len l (snd q)) -> lens_fit f ps l.
Proof.
  intros H. unfold lens_fit, needs in *. repeat split.
  - intros ->. apply (H (LDIMS, LA)). simpl. auto.
  - intros Hb. apply (H (LB, LA)). rewrite Hb. destruct f; simpl; auto.
  - intros Hr. apply (H (LR, LA)). rewrite Hr.
    destruct f, (existsb (param_eqb PB) ps); simpl; auto.
Qed.

(* Conversely: when the lengths do not fit, some needed equality is false — used to say that every
   mismatch is reported. *)
Lemma safe_fn_asserts_ok_sound f sf l :
  safe_fn_asserts_ok f sf = true -> asserts_pass l (sf_asserts sf) = true -> lens_fit f (sf_params sf) l.
Proof.
  intros Hok Hp. apply needs_fit. apply entails_all_sound with (asserts := sf_asserts sf); auto.
Qed.

Lemma String_eqb_true a b : String.eqb a b = true -> a = b.
Proof. apply String.eqb_eq. Qed.

Lemma forallb_In {A} (f : A -> bool) l : forallb f l = true -> forall x, In x l -> f x = true.
Proof. rewrite forallb_forall. auto. Qed.

Lemma ty_eqb_eq a b : ty_eqb a b = true -> a = b.
Proof. destruct a, b; simpl; congruence. Qed.
Lemma reg_eqb_eq a b : reg_eqb a b = true -> a = b.
Proof. destruct a, b; simpl; congruence. Qed.
Lemma kernel_eqb_eq a b : kernel_eqb a b = true -> a = b.
Proof. destruct a, b; simpl; congruence. Qed.
Lemma slot_eqb_eq a b : slot_eqb a b = true -> a = b.
Proof. destruct a, b; simpl; congruence. Qed.

(* Prop-level reading of the export row checker. *)
Lemma export_row_ok_names ms e :
  export_row_ok ms e = true ->
  forall f, e_name f e = export_name_spec f (e_ty e) (e_reg e) (e_op e).
Proof.
  unfold export_row_ok. rewrite !andb_true_iff. intros [[[[H1 H2] _] _] _] [|]; simpl;
    apply String.eqb_eq; assumption.
Qed.

(* Prop-level reading of the safe entry checker: every slot of either form is handed the export of the
   same element type and operation on the back end that slot stands for. *)
Lemma safe_entry_ok_slots es ms s :
  safe_entry_ok es ms s = true ->
  exists m k,
    find_safe_macro ms (s_macro s) = Some m /\ safe_kernel s = Some k /\
    forall f, s_name f s = safe_name_spec f (s_ty s) k /\
      exists sf, safe_fn_of m f = Some sf /\
        (exists d, In d (sf_dispatch sf) /\ ds_slot d = SFallback) /\
        forall d, In d (sf_dispatch sf) ->
          exists n e, lookup_positional (sm_positional m) (s_slots s) (ds_fnvar d) = Some n
                      /\ find_export es f n = Some e
                      /\ e_ty e = s_ty s /\ e_op e = k
                      /\ e_reg e = allowed_backend (ds_slot d) (s_ty s).
Proof.
  unfold safe_entry_ok.
  destruct (find_safe_macro ms (s_macro s)) as [m|] eqn:Em; [|discriminate].
  destruct (safe_kernel s) as [k|] eqn:Ek; [|discriminate].
  rewrite !andb_true_iff. intros [[[Hn Hc] Ha] _].
  exists m, k. split; [reflexivity|]. split; [reflexivity|]. intros f. split.
  - destruct f; simpl.
    + apply String.eqb_eq; exact Hn.
    + unfold safe_kernel in Ek. apply find_some in Ek. destruct Ek as [_ Ek].
      apply String.eqb_eq; exact Ek.
  - assert (Hf : safe_fn_ok es m s k f = true) by (destruct f; assumption).
    unfold safe_fn_ok in Hf. destruct (safe_fn_of m f) as [sf|]; [|discriminate].
    rewrite !andb_true_iff in Hf. destruct Hf as [[[[[_ _] Hs] Hfb] _] _].
    exists sf. split; [reflexivity|]. split.
    + rewrite existsb_exists in Hfb. destruct Hfb as [d [Hd E]]. exists d. split; auto.
      apply slot_eqb_eq in E. exact E.
    + intros d Hd. rewrite forallb_forall in Hs. specialize (Hs d Hd).
      unfold safe_slot_ok in Hs. rewrite !andb_true_iff in Hs. destruct Hs as [_ Hs].
      destruct (lookup_positional (sm_positional m) (s_slots s) (ds_fnvar d)) as [n|] eqn:En; [|discriminate].
      destruct (find_export es f n) as [e|] eqn:Ee; [|discriminate].
      rewrite !andb_true_iff in Hs. destruct Hs as [[Ht Hk] Hr].
      exists n, e. repeat split; auto using ty_eqb_eq, kernel_eqb_eq, reg_eqb_eq.
Qed.
