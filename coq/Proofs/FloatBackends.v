(* C13 (float part) and its consequences for the float kernels (C02, C05).

   The float back-end models of Model/Regs.v — Fallback (1 lane, scalar math), AVX2 / AVX2+FMA (8 x f32, 4 x f64) and
   AVX-512 (16 x f32, 8 x f64) — are lane-wise faithful ([FloatLanewise]): add/sub/mul/div are Flocq's correctly
   rounded operations in every lane, fmadd is fused ([Bfma], one rounding) or mul-then-add as the back end's name
   says, max/min are the x86 lane operations (or f32::max in the fallback), every dense method is the
   single-register method applied to the eight registers, the horizontal sum is an addition tree whose leaves are
   exactly the lanes (each once), the horizontal max/min select a lane that bounds all lanes.
   Consequences, for EVERY length and input: element-wise add/sub/mul/div return the correctly rounded IEEE result at
   every index (NaN exactly where the scalar operation gives NaN: equality of [binary_float] values); vertical and
   by-value max/min return, at every index, one of the two operands, bounding both (for non-NaN operands;
   +0 and -0 are numerically equal); horizontal max/min return an element (or the identity) bounding every element.
   Flocq's reals bring the 4 standard-library axioms named in DESIGN §2.8; no others. *)
From Coq Require Import ZArith List Arith Bool Lia Permutation.
From Flocq Require Import IEEE754.BinarySingleNaN.
From CF Require Import Base.Mem Model.SimdApi Model.Kernels Model.Tables Model.Prim Model.Regs.
From CF Require Import Proofs.MemProofs Proofs.KernelRules Proofs.KernelSafety Proofs.KernelBounds Proofs.OpsWf
     Proofs.ListFacts Proofs.MapCorrect Proofs.MapRel Proofs.DivCorrect Proofs.Extreme Proofs.HorizExtreme
     Proofs.FloatOrder.
From CF Require Proofs.IntBackends.
Import ListNotations.

(** * Selection trees: a fold of selecting operations over explicit leaves *)
Section SelTree.
  Context {T : Type}.
  Variable okv : T -> Prop.
  Variable le : T -> T -> Prop.
  Hypothesis le_refl : forall x, okv x -> le x x.
  Hypothesis le_trans : forall x y z, okv x -> okv y -> okv z -> le x y -> le y z -> le x z.
  Notation Ref := (Refines okv le).

  Lemma Ref_leaf x : okv x -> Ref [x] [x].
  Proof. intros H. apply Refines_refl; [exact le_refl|]. constructor; auto. Qed.

  Lemma Ref_node op p q S1 S2 : selecting okv le op -> Ref [p] S1 -> Ref [q] S2 -> Ref [op p q] (S1 ++ S2).
  Proof.
    intros Hop H1 H2.
    apply (Refines_trans okv le le_refl le_trans _ ([p] ++ [q])).
    - change [op p q] with (map2 op [p] [q]). apply Refines_map2; auto.
      + destruct H1 as [F _]. exact F.
      + destruct H2 as [F _]. exact F.
    - apply Refines_app; assumption.
  Qed.

  Lemma Ref_add_bottom r S e : Ref [r] S -> okv e -> (forall x, okv x -> le e x) -> Ref [r] (e :: S).
  Proof.
    intros (F1 & F2 & Sub & Dom) He Hbot. repeat split; auto.
    - intros s Hs. right. apply Sub. exact Hs.
    - intros s [<-|Hs]; [|apply Dom; exact Hs].
      exists r. split; [left; reflexivity|]. apply Hbot. inversion F1; assumption.
  Qed.
End SelTree.

(* move the head of the left list to its place in the right list *)
Ltac split_at a r :=
  lazymatch r with
  | a :: ?t => let T := type of a in constr:((@nil T, t))
  | ?h :: ?t => let p := split_at a t in
                lazymatch p with (?l1, ?l2) => constr:((h :: l1, l2)) end
  end.
Ltac perm_explicit :=
  repeat lazymatch goal with
         | |- Permutation [] [] => apply perm_nil
         | |- Permutation (?a :: ?l) ?r =>
             let p := split_at a r in
             lazymatch p with
             | (?l1, ?l2) => change r with (l1 ++ a :: l2); apply Permutation_cons_app; cbn [app]
             end
         end.

Lemma sequence_some_map2 {A B C} (g : A -> B -> C) x y :
  sequence (map2 (fun p q => Some (g p q)) x y) = Some (map2 g x y).
Proof.
  revert y. induction x as [|a x IH]; intros [|b y]; try reflexivity.
  cbn [map2 sequence]. rewrite IH. reflexivity.
Qed.

Lemma sequence_some_map {A C} (g : A -> C) x : sequence (map (fun p => Some (g p)) x) = Some (map g x).
Proof. induction x as [|a x IH]; [reflexivity|]. cbn [map sequence]. rewrite IH. reflexivity. Qed.

Lemma map2_map2_map3 {A} (f g : A -> A -> A) x y z :
  map2 f (map2 g x y) z = map3 (fun p q r => f (g p q) r) x y z.
Proof.
  revert y z. induction x as [|a x IH]; intros [|b y] [|c z]; try reflexivity.
  cbn [map2 map3]. rewrite IH. reflexivity.
Qed.

Tactic Notation "destr_list" ident(x) integer(n) hyp(Lx) :=
  do n (destruct x as [|? x]; [cbn [length] in Lx; lia|]); destruct x; [|cbn [length] in Lx; lia]; clear Lx.

Section Backends.
  Context {prec emax : Z} {Hp : FLX.Prec_gt_0 prec} {He : Prec_lt_emax prec emax}.
  Notation bf := (binary_float prec emax).

  (* an addition tree and the list of its leaves *)
  Inductive sum_tree : bf -> list bf -> Prop :=
  | st_leaf x : sum_tree x [x]
  | st_node x y lx ly : sum_tree x lx -> sum_tree y ly -> sum_tree (f_add x y) (lx ++ ly).

  (* what C13 establishes for a float back end; vmax/vmin are its lane max/min (x86 semantics or f32::max) *)
  Record FloatLanewise (R : SimdOps bf) (vmax vmin : bf -> bf -> bf) (fused : bool) : Prop := {
    fl_wf : ops_wf R;
    fl_filled : forall v, r_filled R v = repeat v (lanes R);
    fl_zero : r_zeroed R = repeat f_zero (lanes R);
    fl_add : forall x y, length x = lanes R -> length y = lanes R -> r_add R x y = map2 f_add x y;
    fl_sub : forall x y, length x = lanes R -> length y = lanes R -> r_sub R x y = map2 f_sub x y;
    fl_mul : forall x y, length x = lanes R -> length y = lanes R -> r_mul R x y = map2 f_mul x y;
    fl_div : forall x y, length x = lanes R -> length y = lanes R ->
                         r_div R x y = sequence (map2 (fun p q => Some (f_div p q)) x y);
    fl_max : forall x y, length x = lanes R -> length y = lanes R -> r_max R x y = map2 vmax x y;
    fl_min : forall x y, length x = lanes R -> length y = lanes R -> r_min R x y = map2 vmin x y;
    fl_fmadd : forall x y z, length x = lanes R -> length y = lanes R -> length z = lanes R ->
                 r_fmadd R x y z = if fused then map3 f_fma x y z else map2 f_add (map2 f_mul x y) z;
    fl_add_dense : forall x y, r_add_dense R x y = apply_dense2 (r_add R) x y;
    fl_sub_dense : forall x y, r_sub_dense R x y = apply_dense2 (r_sub R) x y;
    fl_mul_dense : forall x y, r_mul_dense R x y = apply_dense2 (r_mul R) x y;
    fl_max_dense : forall x y, r_max_dense R x y = apply_dense2 (r_max R) x y;
    fl_min_dense : forall x y, r_min_dense R x y = apply_dense2 (r_min R) x y;
    fl_div_dense : forall x y, r_div_dense R x y = apply_dense2_opt (r_div R) x y;
    fl_fmadd_dense : forall x y z, r_fmadd_dense R x y z = apply_dense3 (r_fmadd R) x y z;
    (* horizontal sum: an addition tree over exactly the lanes *)
    fl_sumv : forall x, length x = lanes R -> exists l, sum_tree (r_sum_to_value R x) l /\ Permutation l x;
    (* horizontal extremes of one register: selected from, and bounding, the lanes (no NaN) *)
    fl_maxv : forall x, length x = lanes R -> Forall okf x ->
                        Refines okf fle [r_max_to_value R x] (f_inf true :: x);
    fl_minv : forall x, length x = lanes R -> Forall okf x ->
                        Refines okf fge [r_min_to_value R x] (f_inf false :: x)
  }.

  Local Notation fle_refl' := (@fle_refl prec emax).
  Local Notation fle_trans' := (@fle_trans prec emax).
  Local Notation fge_refl' := (@fge_refl prec emax).
  Local Notation fge_trans' := (@fge_trans prec emax).

  Lemma bottom_max (x : bf) : okf x -> fle (f_inf true) x. Proof. apply inf_bottom. Qed.
  Lemma bottom_min (x : bf) : okf x -> fge (f_inf false) x. Proof. apply inf_top. Qed.

  Ltac sel_tree okfx :=
    repeat first
      [ eapply (Ref_node (@okf prec emax) (@fle prec emax) fle_refl' fle_trans' (@x86_max prec emax) _ _ _ _ x86_max_selecting)
      | eapply (Ref_node (@okf prec emax) (@fle prec emax) fle_refl' fle_trans' (@f_max prec emax) _ _ _ _ f_max_selecting)
      | eapply (Ref_node (@okf prec emax) (@fge prec emax) fge_refl' fge_trans' (@x86_min prec emax) _ _ _ _ x86_min_selecting)
      | eapply (Ref_node (@okf prec emax) (@fge prec emax) fge_refl' fge_trans' (@f_min prec emax) _ _ _ _ f_min_selecting)
      | (apply (Ref_leaf (@okf prec emax) (@fle prec emax) fle_refl'); okfx)
      | (apply (Ref_leaf (@okf prec emax) (@fge prec emax) fge_refl'); okfx) ].

  Ltac Forall_inv_all F :=
    repeat match type of F with
           | Forall _ (_ :: _) => let H := fresh "Hok" in let F' := fresh "F" in
                                  inversion F as [|? ? H F']; subst; clear F; rename F' into F
           end.

  (** ** Fallback *)
  Theorem fallback_float_lanewise : FloatLanewise (fallback_ops float_math) f_max f_min false.
  Proof.
    assert (L1 : forall x : list bf, length x = 1 -> exists p, x = [p]) by (apply IntBackends.len1).
    constructor.
    - apply IntBackends.mk_ops_wf; cbn [fallback_ops lanes r_filled r_add r_sub r_mul r_max r_min r_div
        r_add_dense r_sub_dense r_mul_dense r_max_dense r_min_dense r_div_dense float_math m_div m_zero]; auto.
      intros x y z _ _ E. destruct (lane1 _ x); inversion E; reflexivity.
      all: try (intros x y z _ _ E; inversion E; reflexivity).
    - reflexivity.
    - reflexivity.
    - intros x y Hx Hy. destruct (L1 x Hx) as [p ->], (L1 y Hy) as [q ->]. reflexivity.
    - intros x y Hx Hy. destruct (L1 x Hx) as [p ->], (L1 y Hy) as [q ->]. reflexivity.
    - intros x y Hx Hy. destruct (L1 x Hx) as [p ->], (L1 y Hy) as [q ->]. reflexivity.
    - intros x y Hx Hy. destruct (L1 x Hx) as [p ->], (L1 y Hy) as [q ->]. reflexivity.
    - intros x y Hx Hy. destruct (L1 x Hx) as [p ->], (L1 y Hy) as [q ->]. reflexivity.
    - intros x y Hx Hy. destruct (L1 x Hx) as [p ->], (L1 y Hy) as [q ->]. reflexivity.
    - intros x y z Hx Hy Hz. destruct (L1 x Hx) as [p ->], (L1 y Hy) as [q ->], (L1 z Hz) as [r ->]. reflexivity.
    - reflexivity.
    - reflexivity.
    - reflexivity.
    - reflexivity.
    - reflexivity.
    - reflexivity.
    - intros x y z. cbn [fallback_ops r_fmadd_dense r_fmadd]. unfold apply_dense2, apply_dense3.
      apply map2_map2_map3.
    - intros x Hx. destruct (L1 x Hx) as [p ->]. exists [p]. split; [apply st_leaf | apply Permutation_refl].
    - intros x Hx F. destruct (L1 x Hx) as [p ->]. cbn [fallback_ops r_max_to_value lane1 hd].
      inversion F; subst.
      apply (Ref_add_bottom okf fle); [apply (Ref_leaf okf fle fle_refl'); assumption | apply okf_inf | apply bottom_max].
    - intros x Hx F. destruct (L1 x Hx) as [p ->]. cbn [fallback_ops r_min_to_value lane1 hd].
      inversion F; subst.
      apply (Ref_add_bottom okf fge); [apply (Ref_leaf okf fge fge_refl'); assumption | apply okf_inf | apply bottom_min].
  Qed.

  (** ** AVX2 / AVX2+FMA *)
  Lemma some_len {A} (u v : list A) n : Some u = Some v -> length u = n -> length v = n.
  Proof. intros E. inversion E. auto. Qed.

  Theorem avx2_float_lanewise Ln fused : (Ln = 8 \/ Ln = 4)%nat ->
    FloatLanewise (avx2_float_ops Ln fused) x86_max x86_min fused.
  Proof.
    intros HLn.
    constructor; cbn [avx2_float_ops lanes r_filled r_zeroed r_add r_sub r_mul r_div r_fmadd r_max r_min
                       r_add_dense r_sub_dense r_mul_dense r_max_dense r_min_dense r_div_dense r_fmadd_dense
                       r_sum_to_value r_max_to_value r_min_to_value]; try reflexivity.
    - apply IntBackends.mk_ops_wf; cbn [avx2_float_ops lanes r_filled r_add r_sub r_mul r_div r_max r_min
        r_add_dense r_sub_dense r_mul_dense r_max_dense r_min_dense r_div_dense]; try reflexivity.
      + lia.
      + intros v. apply repeat_length.
      + intros x y Hx Hy. rewrite map2_length. lia.
      + intros x y Hx Hy. rewrite map2_length. lia.
      + intros x y Hx Hy. rewrite map2_length. lia.
      + intros x y Hx Hy. rewrite map2_length. lia.
      + intros x y Hx Hy. rewrite map2_length. lia.
      + intros x y z Hx Hy E. inversion E. rewrite map2_length. lia.
    - intros x y _ _. symmetry. apply sequence_some_map2.
    - intros x y z _ _ _. destruct fused; reflexivity.
    - intros x y z. destruct fused; [reflexivity|]. unfold apply_dense2, apply_dense3. apply map2_map2_map3.
    - intros x Hx. unfold avx2_fsum. destruct HLn as [-> | ->].
      + destr_list x 8 Hx. cbn [length upper_half lower_half Nat.div Nat.divmod fst skipn firstn map2 fnth nth].
        eexists. split; [repeat first [apply st_node | apply st_leaf]|]. cbn [app]. perm_explicit.
      + destr_list x 4 Hx. cbn [length upper_half lower_half Nat.div Nat.divmod fst skipn firstn map2 fnth nth].
        eexists. split; [repeat first [apply st_node | apply st_leaf]|]. cbn [app]. perm_explicit.
    - intros x Hx F. unfold avx2_fext. destruct HLn as [-> | ->].
      + destr_list x 8 Hx. Forall_inv_all F.
        cbn [length upper_half lower_half Nat.div Nat.divmod fst skipn firstn map2 fnth nth].
        apply (Ref_add_bottom okf fle); [| apply okf_inf | apply bottom_max].
        eapply (Refines_equiv okf fle); [sel_tree assumption | repeat constructor; assumption |].
        intros z. cbn [In app]. tauto.
      + destr_list x 4 Hx. Forall_inv_all F.
        cbn [length upper_half lower_half Nat.div Nat.divmod fst skipn firstn map2 fnth nth].
        apply (Ref_add_bottom okf fle); [| apply okf_inf | apply bottom_max].
        eapply (Refines_equiv okf fle); [sel_tree assumption | repeat constructor; assumption |].
        intros z. cbn [In app]. tauto.
    - intros x Hx F. unfold avx2_fext. destruct HLn as [-> | ->].
      + destr_list x 8 Hx. Forall_inv_all F.
        cbn [length upper_half lower_half Nat.div Nat.divmod fst skipn firstn map2 fnth nth].
        apply (Ref_add_bottom okf fge); [| apply okf_inf | apply bottom_min].
        eapply (Refines_equiv okf fge); [sel_tree assumption | repeat constructor; assumption |].
        intros z. cbn [In app]. tauto.
      + destr_list x 4 Hx. Forall_inv_all F.
        cbn [length upper_half lower_half Nat.div Nat.divmod fst skipn firstn map2 fnth nth].
        apply (Ref_add_bottom okf fge); [| apply okf_inf | apply bottom_min].
        eapply (Refines_equiv okf fge); [sel_tree assumption | repeat constructor; assumption |].
        intros z. cbn [In app]. tauto.
  Qed.

  (** ** AVX-512 *)
  Theorem avx512_float_lanewise Ln : (Ln = 16 \/ Ln = 8)%nat ->
    FloatLanewise (avx512_float_ops Ln) x86_max x86_min true.
  Proof.
    intros HLn. unfold avx512_float_ops.
    constructor; cbn [with_default_dense lanes r_filled r_zeroed r_add r_sub r_mul r_div r_fmadd r_max r_min
                       r_add_dense r_sub_dense r_mul_dense r_max_dense r_min_dense r_div_dense r_fmadd_dense
                       r_sum_to_value r_max_to_value r_min_to_value]; try reflexivity.
    - apply with_default_dense_wf.
      + lia.
      + intros v. apply repeat_length.
      + intros x y Hx Hy. rewrite map2_length. lia.
      + intros x y Hx Hy. rewrite map2_length. lia.
      + intros x y Hx Hy. rewrite map2_length. lia.
      + intros x y Hx Hy. rewrite map2_length. lia.
      + intros x y Hx Hy. rewrite map2_length. lia.
      + intros x y z Hx Hy E. inversion E. rewrite map2_length. lia.
    - intros x y _ _. symmetry. apply sequence_some_map2.
    - intros x Hx. unfold avx512_ftree. destruct HLn as [-> | ->].
      + destr_list x 16 Hx. cbn [length upper_half lower_half Nat.div Nat.divmod fst skipn firstn map2 fnth nth].
        eexists. split; [repeat first [apply st_node | apply st_leaf]|]. cbn [app]. perm_explicit.
      + destr_list x 8 Hx. cbn [length upper_half lower_half Nat.div Nat.divmod fst skipn firstn map2 fnth nth].
        eexists. split; [repeat first [apply st_node | apply st_leaf]|]. cbn [app]. perm_explicit.
    - intros x Hx F. unfold avx512_ftree. destruct HLn as [-> | ->].
      + destr_list x 16 Hx. Forall_inv_all F.
        cbn [length upper_half lower_half Nat.div Nat.divmod fst skipn firstn map2 fnth nth].
        apply (Ref_add_bottom okf fle); [| apply okf_inf | apply bottom_max].
        eapply (Refines_equiv okf fle); [sel_tree assumption | repeat constructor; assumption |].
        intros z. cbn [In app]. tauto.
      + destr_list x 8 Hx. Forall_inv_all F.
        cbn [length upper_half lower_half Nat.div Nat.divmod fst skipn firstn map2 fnth nth].
        apply (Ref_add_bottom okf fle); [| apply okf_inf | apply bottom_max].
        eapply (Refines_equiv okf fle); [sel_tree assumption | repeat constructor; assumption |].
        intros z. cbn [In app]. tauto.
    - intros x Hx F. unfold avx512_ftree. destruct HLn as [-> | ->].
      + destr_list x 16 Hx. Forall_inv_all F.
        cbn [length upper_half lower_half Nat.div Nat.divmod fst skipn firstn map2 fnth nth].
        apply (Ref_add_bottom okf fge); [| apply okf_inf | apply bottom_min].
        eapply (Refines_equiv okf fge); [sel_tree assumption | repeat constructor; assumption |].
        intros z. cbn [In app]. tauto.
      + destr_list x 8 Hx. Forall_inv_all F.
        cbn [length upper_half lower_half Nat.div Nat.divmod fst skipn firstn map2 fnth nth].
        apply (Ref_add_bottom okf fge); [| apply okf_inf | apply bottom_min].
        eapply (Refines_equiv okf fge); [sel_tree assumption | repeat constructor; assumption |].
        intros z. cbn [In app]. tauto.
  Qed.

  (** ** Consequences for the kernels *)
  Section Kernels.
    Variable R : SimdOps bf.
    Variables vmax vmin : bf -> bf -> bf.
    Variable fused : bool.
    Hypothesis FL : FloatLanewise R vmax vmin fused.
    Hypothesis Hvmax : selecting okf fle vmax.
    Hypothesis Hvmin : selecting okf fge vmin.
    Let Mth : MathOps bf := float_math.
    Let HL : 1 <= lanes R := wf_L R (fl_wf R vmax vmin fused FL).
    Notation Ln := (lanes R).
    Notation d := (dflt Mth).
    Variables a b res : list bf.
    Variable dims : nat.
    Hypothesis Ha : length a = dims.
    Hypothesis Hr : length res = dims.
    Let m0 := init_mem a b res.
    Let anyv : bf -> Prop := fun _ => True.

    Lemma Forall_any (l : list bf) : Forall anyv l.
    Proof. apply Forall_forall. intros; exact I. Qed.

    Lemma vec_gen (f : bf -> bf -> bf) op_dense op sop :
      length b = dims ->
      (forall x y, length x = Ln -> length y = Ln -> op x y = map2 f x y) ->
      (forall x y, op_dense x y = apply_dense2 op x y) ->
      (forall x y, sop x y = f x y) ->
      match map_vector R Mth dims op_dense op sop m0 with
      | Ok _ m => run_ok m0 m /\ mR m = map2 f a b
      | _ => False
      end.
    Proof.
      intros Hb H1 H2 H3.
      apply (map_vector_correct R Mth HL a b res dims Ha Hr anyv (Forall_any a) Hb f op_dense op sop (Forall_any b)); auto.
    Qed.

    Lemma val_gen (f : bf -> bf -> bf) v op_dense op sop :
      (forall x y, length x = Ln -> length y = Ln -> op x y = map2 f x y) ->
      (forall x y, op_dense x y = apply_dense2 op x y) ->
      (forall x y, sop x y = f x y) ->
      match map_value R Mth dims v (dense_copy (repeat v Ln)) (repeat v Ln) op_dense op sop m0 with
      | Ok _ m => run_ok m0 m /\ mR m = map (fun x => f x v) a
      | _ => False
      end.
    Proof.
      intros H1 H2 H3.
      apply (map_value_correct R Mth HL a b res dims Ha Hr anyv (Forall_any a) f v op_dense op sop I); auto.
    Qed.

    (* C02: every element is the correctly rounded IEEE result of the scalar operation (Flocq's Bplus etc. with
       round-to-nearest-even), bit for bit, NaN exactly where the scalar result is NaN; division never panics *)
    Theorem f_add_vector_exact : length b = dims ->
      match generic_add_vector R Mth dims m0 with
      | Ok _ m => run_ok m0 m /\ mR m = map2 f_add a b | _ => False end.
    Proof. intros Hb. apply vec_gen; [exact Hb | apply (fl_add _ _ _ _ FL) | apply (fl_add_dense _ _ _ _ FL) | reflexivity]. Qed.
    Theorem f_sub_vector_exact : length b = dims ->
      match generic_sub_vector R Mth dims m0 with
      | Ok _ m => run_ok m0 m /\ mR m = map2 f_sub a b | _ => False end.
    Proof. intros Hb. apply vec_gen; [exact Hb | apply (fl_sub _ _ _ _ FL) | apply (fl_sub_dense _ _ _ _ FL) | reflexivity]. Qed.
    Theorem f_mul_vector_exact : length b = dims ->
      match generic_mul_vector R Mth dims m0 with
      | Ok _ m => run_ok m0 m /\ mR m = map2 f_mul a b | _ => False end.
    Proof. intros Hb. apply vec_gen; [exact Hb | apply (fl_mul _ _ _ _ FL) | apply (fl_mul_dense _ _ _ _ FL) | reflexivity]. Qed.

    Theorem f_div_vector_exact : length b = dims ->
      match generic_div_vector R Mth dims m0 with
      | Ok _ m => run_ok m0 m /\ mR m = map2 f_div a b | _ => False end.
    Proof.
      intros Hb.
      pose proof (div_vector_correct R Mth HL a b res dims Ha Hr anyv (Forall_any a) (fun p q => Some (f_div p q))
                    (fun x y Lx Ly _ _ => fl_div _ _ _ _ FL x y Lx Ly) (fl_div_dense _ _ _ _ FL)
                    (fun x y => eq_refl) Hb (Forall_any b)) as H.
      fold m0 in H. destruct (generic_div_vector R Mth dims m0) as [[] m| m | |]; auto.
      - destruct H as [H1 H2]. split; [exact H1|]. unfold whole in H2. rewrite sequence_some_map2 in H2.
        inversion H2. reflexivity.
      - unfold whole in H. rewrite sequence_some_map2 in H. discriminate H.
    Qed.

    Theorem f_add_value_exact v :
      match generic_add_value R Mth dims v m0 with
      | Ok _ m => run_ok m0 m /\ mR m = map (fun x => f_add x v) a | _ => False end.
    Proof.
      unfold generic_add_value. rewrite (fl_filled _ _ _ _ FL).
      apply val_gen; [apply (fl_add _ _ _ _ FL) | apply (fl_add_dense _ _ _ _ FL) | reflexivity].
    Qed.
    Theorem f_sub_value_exact v :
      match generic_sub_value R Mth dims v m0 with
      | Ok _ m => run_ok m0 m /\ mR m = map (fun x => f_sub x v) a | _ => False end.
    Proof.
      unfold generic_sub_value. rewrite (fl_filled _ _ _ _ FL).
      apply val_gen; [apply (fl_sub _ _ _ _ FL) | apply (fl_sub_dense _ _ _ _ FL) | reflexivity].
    Qed.
    Theorem f_mul_value_exact v :
      match generic_mul_value R Mth dims v m0 with
      | Ok _ m => run_ok m0 m /\ mR m = map (fun x => f_mul x v) a | _ => False end.
    Proof.
      unfold generic_mul_value. rewrite (fl_filled _ _ _ _ FL).
      apply val_gen; [apply (fl_mul _ _ _ _ FL) | apply (fl_mul_dense _ _ _ _ FL) | reflexivity].
    Qed.
    Theorem f_div_value_exact v :
      match generic_div_value R Mth dims v m0 with
      | Ok _ m => run_ok m0 m /\ mR m = map (fun x => f_div x v) a | _ => False end.
    Proof.
      pose proof (div_value_correct R Mth HL a b res dims Ha Hr anyv (Forall_any a) (fun p q => Some (f_div p q))
                    (fun x y Lx Ly _ _ => fl_div _ _ _ _ FL x y Lx Ly) (fl_div_dense _ _ _ _ FL)
                    (fun x y => eq_refl) v I (fl_filled _ _ _ _ FL v)) as H.
      fold m0 in H. destruct (generic_div_value R Mth dims v m0) as [[] m| m | |]; auto.
      - destruct H as [H1 H2]. split; [exact H1|]. rewrite sequence_some_map in H2. inversion H2. reflexivity.
      - rewrite sequence_some_map in H. discriminate H.
    Qed.

    (* C05, vertical / by-value: at every index, for non-NaN operands, the result is one of the two operands
       and bounds both in the numeric order (the vector lanes use the back end's lane max, the scalar tail
       f32::max / f64::max: both are selecting operations) *)
    Definition sel_max (x y r : bf) : Prop := okf x -> okf y -> (r = x \/ r = y) /\ fle x r /\ fle y r.
    Definition sel_min (x y r : bf) : Prop := okf x -> okf y -> (r = x \/ r = y) /\ fle r x /\ fle r y.

    Lemma sel_of_selecting_max op x y : selecting okf fle op -> sel_max x y (op x y).
    Proof. intros H Hx Hy. exact (H x y Hx Hy). Qed.
    Lemma sel_of_selecting_min op x y : selecting okf fge op -> sel_min x y (op x y).
    Proof. intros H Hx Hy. exact (H x y Hx Hy). Qed.

    Theorem f_max_vertical_exact : length b = dims ->
      match generic_max_vertical R Mth dims m0 with
      | Ok _ m => run_ok m0 m /\ length (mR m) = dims
                  /\ forall j, j < dims -> sel_max (nth j a d) (nth j b d) (nth j (mR m) d)
      | _ => False end.
    Proof.
      intros Hb. unfold generic_max_vertical.
      apply (map_vector_rel R Mth HL a b res dims Ha Hr anyv (Forall_any a) sel_max vmax (m_cmp_max Mth)
               (r_max_dense R) (r_max R)); auto.
      - intros x y Lx Ly _ _. apply (fl_max _ _ _ _ FL); assumption.
      - intros x y _ _. apply (fl_max_dense _ _ _ _ FL).
      - intros x y _ _. apply sel_of_selecting_max. exact Hvmax.
      - intros x y _ _. apply sel_of_selecting_max. apply f_max_selecting.
      - apply Forall_any.
    Qed.
    Theorem f_min_vertical_exact : length b = dims ->
      match generic_min_vertical R Mth dims m0 with
      | Ok _ m => run_ok m0 m /\ length (mR m) = dims
                  /\ forall j, j < dims -> sel_min (nth j a d) (nth j b d) (nth j (mR m) d)
      | _ => False end.
    Proof.
      intros Hb. unfold generic_min_vertical.
      apply (map_vector_rel R Mth HL a b res dims Ha Hr anyv (Forall_any a) sel_min vmin (m_cmp_min Mth)
               (r_min_dense R) (r_min R)); auto.
      - intros x y Lx Ly _ _. apply (fl_min _ _ _ _ FL); assumption.
      - intros x y _ _. apply (fl_min_dense _ _ _ _ FL).
      - intros x y _ _. apply sel_of_selecting_min. exact Hvmin.
      - intros x y _ _. apply sel_of_selecting_min. apply f_min_selecting.
      - apply Forall_any.
    Qed.

    Lemma filled_dense_eq v : filled_dense R v = dense_copy (repeat v Ln)
                              /\ nth_reg (filled_dense R v) 0 = repeat v Ln.
    Proof. unfold filled_dense. rewrite (fl_filled _ _ _ _ FL). split; reflexivity. Qed.

    Theorem f_max_value_exact v :
      match generic_max_value R Mth dims v m0 with
      | Ok _ m => run_ok m0 m /\ length (mR m) = dims
                  /\ forall j, j < dims -> sel_max (nth j a d) v (nth j (mR m) d)
      | _ => False end.
    Proof.
      unfold generic_max_value. cbv zeta. destruct (filled_dense_eq v) as [E1 E2]. rewrite E2, E1.
      apply (map_value_rel R Mth HL a b res dims Ha Hr anyv (Forall_any a) sel_max vmax (m_cmp_max Mth)
               (r_max_dense R) (r_max R)); auto.
      - intros x y Lx Ly _ _. apply (fl_max _ _ _ _ FL); assumption.
      - intros x y _ _. apply (fl_max_dense _ _ _ _ FL).
      - intros x y _ _. apply sel_of_selecting_max. exact Hvmax.
      - intros x y _ _. apply sel_of_selecting_max. apply f_max_selecting.
      - exact I.
    Qed.
    Theorem f_min_value_exact v :
      match generic_min_value R Mth dims v m0 with
      | Ok _ m => run_ok m0 m /\ length (mR m) = dims
                  /\ forall j, j < dims -> sel_min (nth j a d) v (nth j (mR m) d)
      | _ => False end.
    Proof.
      unfold generic_min_value. cbv zeta. destruct (filled_dense_eq v) as [E1 E2]. rewrite E2, E1.
      apply (map_value_rel R Mth HL a b res dims Ha Hr anyv (Forall_any a) sel_min vmin (m_cmp_min Mth)
               (r_min_dense R) (r_min R)); auto.
      - intros x y Lx Ly _ _. apply (fl_min _ _ _ _ FL); assumption.
      - intros x y _ _. apply (fl_min_dense _ _ _ _ FL).
      - intros x y _ _. apply sel_of_selecting_min. exact Hvmin.
      - intros x y _ _. apply sel_of_selecting_min. apply f_min_selecting.
      - exact I.
    Qed.

    (* C05, horizontal: for NaN-free input the result is an element of the vector (or the identity -inf / +inf,
       which is the result for the empty vector) and bounds every element *)
    Theorem f_max_horizontal_extreme : Forall okf a ->
      match generic_max_horizontal R Mth dims m0 with
      | Ok r m => run_ok m0 m /\ In r (f_inf true :: a) /\ forall z, In z (f_inf true :: a) -> fle z r
      | _ => False end.
    Proof. clear Hr.
      intros Fa. unfold generic_max_horizontal, max_to_register.
      apply (horiz_extreme okf fle fle_refl' fle_trans' R HL Mth (r_max R) (r_max_dense R)
                           (r_max_to_value R) vmax f_max (f_inf true) (okf_inf true)
                           (fl_filled _ _ _ _ FL (f_inf true)) Hvmax f_max_selecting); auto.
      - intros x y [Lx Fx] [Ly Fy]. apply (fl_max _ _ _ _ FL); assumption.
      - apply (fl_max_dense _ _ _ _ FL).
      - intros x [Lx Fx]. apply (fl_maxv _ _ _ _ FL); assumption.
    Qed.
    Theorem f_min_horizontal_extreme : Forall okf a ->
      match generic_min_horizontal R Mth dims m0 with
      | Ok r m => run_ok m0 m /\ In r (f_inf false :: a) /\ forall z, In z (f_inf false :: a) -> fle r z
      | _ => False end.
    Proof. clear Hr.
      intros Fa. unfold generic_min_horizontal, min_to_register.
      apply (horiz_extreme okf fge fge_refl' fge_trans' R HL Mth (r_min R) (r_min_dense R)
                           (r_min_to_value R) vmin f_min (f_inf false) (okf_inf false)
                           (fl_filled _ _ _ _ FL (f_inf false)) Hvmin f_min_selecting); auto.
      - intros x y [Lx Fx] [Ly Fy]. apply (fl_min _ _ _ _ FL); assumption.
      - apply (fl_min_dense _ _ _ _ FL).
      - intros x [Lx Fx]. apply (fl_minv _ _ _ _ FL); assumption.
    Qed.
  End Kernels.
End Backends.
