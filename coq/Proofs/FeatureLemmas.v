(* C10 — soundness of the checkers of Model/Features.v: the general part, which compiles whatever the
   repository contains (nothing here is proved by evaluating a generated table), and the soundness of the
   counterexample checker with which checks/c10.py certifies a refutation of C10_dispatch. *)
From Coq Require Import String List Bool Arith.
From CF Require Import Model.Tables Model.TableSem Model.Features.
From CF Require Import Proofs.TableProofs.
From CF Require Import Gen.GenExports Gen.GenSafe Gen.GenMacros Gen.GenDispatch Gen.GenFeatures.
Import ListNotations.
Open Scope string_scope.
Open Scope list_scope.

(** * Sets *)

Lemma mem_string_In x l : mem_string x l = true -> In x l.
Proof.
  unfold mem_string. rewrite existsb_exists. intros [y [Hy E]].
  apply String.eqb_eq in E. subst y. exact Hy.
Qed.

Lemma In_mem_string x l : In x l -> mem_string x l = true.
Proof.
  intros H. unfold mem_string. apply existsb_exists. exists x. split; [exact H|apply String.eqb_refl].
Qed.

Lemma fsubset_incl a b : fsubset a b = true -> incl a b.
Proof.
  unfold fsubset. rewrite forallb_forall. intros H x Hx. apply mem_string_In. exact (H x Hx).
Qed.

Lemma dedup_In x l : In x (dedup l) -> In x l.
Proof.
  induction l as [|a l IH]; cbn [dedup]; [tauto|].
  destruct (mem_string a l); cbn [In]; intros H; [right; auto|].
  destruct H as [H|H]; [left; exact H|right; auto].
Qed.

Lemma inter_In x a b : In x (inter a b) -> In x a /\ In x b.
Proof.
  unfold inter. rewrite filter_In. intros [Ha Hb]. split; [exact Ha|apply mem_string_In; exact Hb].
Qed.

Lemma fold_inter_In x r : forall a, In x (fold_left inter r a) -> In x a /\ forall y, In y r -> In x y.
Proof.
  induction r as [|b r IH]; intros a H; cbn [fold_left] in H.
  - split; [exact H|intros y []].
  - apply IH in H. destruct H as [Hab Hr]. apply inter_In in Hab. destruct Hab as [Ha Hb].
    split; [exact Ha|]. intros y [<-|Hy]; [exact Hb|exact (Hr y Hy)].
Qed.

(** * Closure: everything in [closure s] is available on every closed feature set containing [s] *)

Lemma close_n_sound avail (Hc : closed avail) n :
  forall s, (forall f, In f s -> avail f = true) -> forall f, In f (close_n n s) -> avail f = true.
Proof.
  induction n as [|n IH]; intros s Hs f Hf; cbn [close_n] in Hf; [exact (Hs f Hf)|].
  apply IH in Hf; [exact Hf|]. clear f Hf. intros f Hf.
  apply in_app_or in Hf. destruct Hf as [Hf|Hf]; [exact (Hs f Hf)|].
  apply filter_In in Hf. destruct Hf as [Hf _]. apply dedup_In in Hf.
  apply in_flat_map in Hf. destruct Hf as [h [Hh Hd]].
  exact (Hc h f Hd (Hs h Hh)).
Qed.

Lemma closure_sound avail s :
  closed avail -> (forall f, In f s -> avail f = true) -> forall f, In f (closure s) -> avail f = true.
Proof.
  intros Hc Hs. unfold closure. apply close_n_sound; [exact Hc|].
  intros f Hf. apply Hs. apply dedup_In. exact Hf.
Qed.

(* The set of names of a list that passes [closedb] is a closed feature set. *)
Lemma closedb_closed l : closedb l = true -> closed (fun f => mem_string f l).
Proof.
  unfold closedb, closed. rewrite forallb_forall. intros H f g Hg Hf.
  unfold direct in Hg. destruct (find (fun p => (fst p =? f)%string) implies_tbl) as [p|] eqn:E; [|destruct Hg].
  apply find_some in E. destruct E as [Hp E]. apply String.eqb_eq in E.
  specialize (H p Hp). cbv beta in H. apply orb_true_iff in H. destruct H as [H|H].
  - apply negb_true_iff in H. subst f. exfalso. apply (eq_true_false_abs _ Hf). exact H.
  - apply In_mem_string. exact (fsubset_incl _ _ H g Hg).
Qed.

(** * What a guard that answered true establishes *)

Definition holds (bc : buildcfg) (rt : string -> bool) (f : string) : Prop :=
  rt f = true \/ mem_string f (bc_tf bc) = true.

Lemma cfg_all_established bc l :
  eval_cfg bc (CAll l) = true ->
  forall f, In f (flat_map (fun x => match x with CTargetFeature f => [f] | _ => [] end) l) ->
  mem_string f (bc_tf bc) = true.
Proof.
  induction l as [|x l IH]; intros H f Hf; [destruct Hf|].
  cbn [flat_map] in Hf. simpl in H. apply andb_true_iff in H. destruct H as [Hx Hl].
  apply in_app_or in Hf. destruct Hf as [Hf|Hf].
  - destruct x; try solve [destruct Hf].
    destruct Hf as [<-|[]]. exact Hx.
  - apply IH; [exact Hl|exact Hf].
Qed.

Lemma cfg_established_sound bc c :
  eval_cfg bc c = true -> forall f, In f (cfg_established c) -> mem_string f (bc_tf bc) = true.
Proof.
  destruct c; cbn [cfg_established]; intros H g Hg; try solve [destruct Hg].
  - destruct Hg as [<-|[]]. exact H.
  - exact (cfg_all_established bc l H g Hg).
Qed.

Lemma pexp_established_sound bc rt e :
  eval_pexp bc rt e = true -> forall f, In f (pexp_established e) -> holds bc rt f.
Proof.
  induction e as [c|m g|a IHa b IHb|a IHa b IHb|a IHa|b]; cbn [eval_pexp pexp_established]; intros H f Hf.
  - right. exact (cfg_established_sound bc c H f Hf).
  - destruct Hf as [<-|[]]. left. exact H.
  - apply andb_true_iff in H. destruct H as [Ha Hb].
    apply in_app_or in Hf. destruct Hf as [Hf|Hf]; [exact (IHa Ha f Hf)|exact (IHb Hb f Hf)].
  - apply inter_In in Hf. destruct Hf as [Hfa Hfb].
    apply orb_true_iff in H. destruct H as [Ha|Hb]; [exact (IHa Ha f Hfa)|exact (IHb Hb f Hfb)].
  - destruct Hf.
  - destruct Hf.
Qed.

Lemma tested_def_sound bc rt d :
  eval_pred_def bc rt d = true -> forall f, In f (tested_def d) -> holds bc rt f.
Proof.
  unfold eval_pred_def, tested_def. destruct (pd_default d); [intros _ f []|].
  rewrite orb_false_r. rewrite existsb_exists. intros [a [Ha E]] f Hf.
  apply andb_true_iff in E. destruct E as [_ E].
  pose proof (in_map (fun a0 : cfgexp * pexp => pexp_established (snd a0)) _ _ Ha) as Hin. cbv beta in Hin.
  destruct (map (fun a => pexp_established (snd a)) (pd_arms d)) as [|x r]; [destruct Hf|].
  apply fold_inter_In in Hf. destruct Hf as [Hx Hr].
  apply (pexp_established_sound bc rt (snd a) E).
  destruct Hin as [<-|Hin]; [exact Hx|exact (Hr _ Hin)].
Qed.

Lemma tested_pred_sound defs bc rt x :
  eval_pred defs bc rt x = true -> forall f, In f (tested_pred defs x) -> holds bc rt f.
Proof.
  unfold eval_pred, tested_pred. destruct (find (fun d => pred_eqb (pd_pred d) x) defs) as [d|]; [|discriminate].
  intros H. apply andb_true_iff in H. destruct H as [_ H]. exact (tested_def_sound bc rt d H).
Qed.

Lemma pout_eval_pouts defs bc rt x : pout (eval_pouts defs bc rt) x = eval_pred defs bc rt x.
Proof. destruct x; reflexivity. Qed.

Lemma tested_entry_sound defs bc rt c :
  forallb (pout (eval_pouts defs bc rt)) (ce_guard c) = true ->
  forall f, In f (tested_entry defs c) -> holds bc rt f.
Proof.
  unfold tested_entry. rewrite forallb_forall. intros H f Hf.
  apply in_flat_map in Hf. destruct Hf as [x [Hx Hf]].
  specialize (H x Hx). rewrite pout_eval_pouts in H. exact (tested_pred_sound defs bc rt x H f Hf).
Qed.

(* The link of the chain that fired. *)
Lemma select_chain_some chain bc p s x :
  select_chain chain bc p s = Some x ->
  exists c, In c chain /\ ce_slot c = x /\ eval_cfg bc (ce_cfg c) = true
            /\ forallb (pout p) (ce_guard c) = true.
Proof.
  induction chain as [|c chain IH]; cbn [select_chain]; [discriminate|].
  destruct ((negb (ce_optional c) || is_supplied s (ce_slot c)) && eval_cfg bc (ce_cfg c)
            && forallb (pout p) (ce_guard c)) eqn:E.
  - intros H. injection H as <-. apply andb_true_iff in E. destruct E as [E Hg].
    apply andb_true_iff in E. destruct E as [_ Hc]. exists c. cbn [In]. auto.
  - intros H. destruct (IH H) as [c' [Hin R]]. exists c'. cbn [In]. auto.
Qed.

(* Hypotheses about the machine a build runs on: its feature set is closed, contains the target's baseline
   and everything the build itself was compiled to assume (`-C target-feature`, what cfg!(target_feature) sees). *)
Definition machine_ok (bc : buildcfg) (avail : string -> bool) : Prop :=
  closed avail
  /\ (forall x, In x (baseline_of (bc_arch bc)) -> avail x = true)
  /\ (forall x, mem_string x (bc_tf bc) = true -> avail x = true).

Lemma tested_entry_avail defs bc avail c :
  machine_ok bc avail ->
  forallb (pout (eval_pouts defs bc avail)) (ce_guard c) = true ->
  forall a, a = bc_arch bc ->
  forall f, In f (closure (tested_entry defs c ++ baseline_of a)) -> avail f = true.
Proof.
  intros [Hc [Hb Ht]] Hg a -> f Hf. revert f Hf. apply closure_sound; [exact Hc|].
  intros f Hf. apply in_app_or in Hf. destruct Hf as [Hf|Hf]; [|exact (Hb f Hf)].
  destruct (tested_entry_sound defs bc avail c Hg f Hf) as [H|H]; [exact H|exact (Ht f H)].
Qed.

Lemma in_all_archs a : In a all_archs.
Proof. destruct a; cbn; auto. Qed.

Lemma reg_in_allowed s t : reg_in_slot (allowed_backend s t) s = true.
Proof. destruct s, t; reflexivity. Qed.

(* Prop-level reading of [dispatch_ok]. *)
Lemma dispatch_ok_sound g defs chain es :
  dispatch_ok g defs chain es = true ->
  forall e c a, In e es -> In c chain -> reg_in_slot (e_reg e) (ce_slot c) = true ->
  incl (need_export g e) (closure (tested_entry defs c ++ baseline_of a)).
Proof.
  unfold dispatch_ok. rewrite forallb_forall. intros H e c a He Hc Hr.
  specialize (H e He). cbv zeta in H. rewrite forallb_forall in H.
  specialize (H (allowed_in defs c) (in_map _ _ _ Hc)). cbn [allowed_in fst snd] in H.
  rewrite Hr in H. rewrite forallb_forall in H. apply fsubset_incl. apply H.
  apply in_map with (f := fun a => closure (tested_entry defs c ++ baseline_of a)). apply in_all_archs.
Qed.

Lemma reg_need_ok_sound g es r allowed :
  reg_need_ok g es r allowed = true ->
  forall x, In x es -> e_reg x = r -> incl (need_export g x) allowed.
Proof.
  unfold reg_need_ok, exports_of. rewrite forallb_forall. intros H x Hx Hr.
  apply fsubset_incl. apply H. apply filter_In. split; [exact Hx|].
  rewrite Hr. destruct r; reflexivity.
Qed.

(** * Helpers for C09_guards *)

Lemma in_all_pouts p : In p all_pouts.
Proof. destruct p as [[] [] [] []]; cbn; auto 20. Qed.

Lemma first_some_In {A} (l : list (option A)) x : first_some l = Some x -> In (Some x) l.
Proof.
  induction l as [|o l IH]; cbn [first_some]; [discriminate|].
  destruct o as [y|]; [intros H; injection H as ->; left; reflexivity|intros H; right; auto].
Qed.

Lemma rt_sufficient_sound bc rt e l :
  rt_sufficient e = Some l -> (forall f, In f l -> rt f = true) -> eval_pexp bc rt e = true.
Proof.
  revert l. induction e as [c|m g|a IHa b IHb|a IHa b IHb|a IHa|b]; cbn [rt_sufficient eval_pexp]; intros l H Hl;
    try discriminate.
  - injection H as <-. apply Hl. left. reflexivity.
  - destruct (rt_sufficient a) as [x|]; [|discriminate]. destruct (rt_sufficient b) as [y|]; [|discriminate].
    injection H as <-. rewrite (IHa x eq_refl), (IHb y eq_refl); [reflexivity| |];
      intros f Hf; apply Hl; apply in_or_app; auto.
Qed.

Lemma cfg_std_true bc c : cfg_is_std_or_true c = true -> bc_std bc = true -> eval_cfg bc c = true.
Proof.
  destruct c; cbn [cfg_is_std_or_true]; try discriminate; [reflexivity|].
  intros E Hs. apply String.eqb_eq in E. subst f. cbn. exact Hs.
Qed.

Lemma eval_pred_def_std bc rt d l :
  bc_std bc = true -> rt_sufficient_def d = Some l -> (forall f, In f l -> rt f = true) ->
  eval_pred_def bc rt d = true.
Proof.
  intros Hs H Hl. unfold rt_sufficient_def in H. apply first_some_In in H.
  apply in_map_iff in H. destruct H as [a [Ha Hin]].
  unfold eval_pred_def. apply orb_true_iff. left. apply existsb_exists. exists a. split; [exact Hin|].
  destruct (cfg_is_std_or_true (fst a)) eqn:E; [|discriminate].
  rewrite (cfg_std_true bc (fst a) E Hs). exact (rt_sufficient_sound bc rt (snd a) l Ha Hl).
Qed.


(** * Certified counterexamples to C10_dispatch

   [cex_ok k f bc av sup ft] evaluates to true exactly when: on a machine whose (closed, baseline-containing)
   feature set is [av], in build [bc], the dispatch chain — for the k-th safe routine, form f, supplied slots
   sup — selects a slot whose routine needs the feature [ft], which the machine does not have. *)
Definition cex_ok (k : nat) (f : form) (bc : buildcfg) (av : fset) (sup : supplied) (ft : string) : bool :=
  match nth_error safe_entries k with
  | None => false
  | Some s =>
      match find_safe_macro safe_macros (s_macro s) with
      | None => false
      | Some m =>
          closedb av && fsubset (baseline_of (bc_arch bc)) av && fsubset (bc_tf bc) av
          && match select_chain dispatch_chain bc (eval_pouts pred_defs bc (fun x => mem_string x av)) sup with
             | None => false
             | Some x =>
                 match slot_export exports m s f x with
                 | None => false
                 | Some e => mem_string ft (need_export feature_graph e) && negb (mem_string ft av)
                 end
             end
      end
  end.

Lemma cex_sound k f bc av sup ft :
  cex_ok k f bc av sup ft = true ->
  exists s m x e avail,
    In s safe_entries /\ machine_ok bc avail
    /\ find_safe_macro safe_macros (s_macro s) = Some m
    /\ select_chain dispatch_chain bc (eval_pouts pred_defs bc avail) sup = Some x
    /\ slot_export exports m s f x = Some e
    /\ In ft (need_export feature_graph e) /\ avail ft = false.
Proof.
  unfold cex_ok. destruct (nth_error safe_entries k) as [s|] eqn:Es; [|discriminate].
  destruct (find_safe_macro safe_macros (s_macro s)) as [m|] eqn:Em; [|discriminate].
  intros H. apply andb_true_iff in H. destruct H as [H Hsel].
  apply andb_true_iff in H. destruct H as [H Htf]. apply andb_true_iff in H. destruct H as [Hcl Hb].
  destruct (select_chain dispatch_chain bc (eval_pouts pred_defs bc (fun x => mem_string x av)) sup) as [x|] eqn:Ex;
    [|discriminate].
  destruct (slot_export exports m s f x) as [e|] eqn:Ee; [|discriminate].
  apply andb_true_iff in Hsel. destruct Hsel as [Hin Hnot]. apply negb_true_iff in Hnot.
  exists s, m, x, e, (fun y => mem_string y av). repeat split.
  - exact (nth_error_In _ _ Es).
  - exact (closedb_closed av Hcl).
  - intros y Hy. apply In_mem_string. exact (fsubset_incl _ _ Hb y Hy).
  - intros y Hy. apply In_mem_string. exact (fsubset_incl _ _ Htf y (mem_string_In _ _ Hy)).
  - exact Em.
  - exact Ex.
  - exact Ee.
  - exact (mem_string_In _ _ Hin).
  - exact Hnot.
Qed.
