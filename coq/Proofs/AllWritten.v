(* C08: the 12 writing kernels (vertical max/min, by-value max/min/add/sub/mul/div, vector add/sub/mul/div) write
   EVERY element of the result slice, over ANY well-formed register geometry ([ops_wf]: lane counts preserved,
   L >= 1), any Math layer, every length: if the run returns, every index j < dims is covered by a write event of
   its trace (the three phases cover [0, q*8L), [q*8L, q*8L + m*L), [.., dims)).  Proved with the generic Hoare
   logic of MemProofs.v / KernelRules.v and the invariant "safe /\ every j < i is covered".
   Combined with Proofs/Oblivious.v: two runs that differ only in the previous contents of the result slice end
   with EQUAL result slices ([all_written_prefill_free]).  Axiom-free. *)
From Coq Require Import List Arith Bool Lia.
From CF Require Import Base.Mem Model.SimdApi Model.Kernels Model.Tables.
From CF Require Import Proofs.MemProofs Proofs.KernelRules Proofs.KernelSafety Proofs.KernelBounds Proofs.Oblivious.
Import ListNotations.

(** * Step lemmas for the coverage invariant *)

Section Cov.
  Context {T : Type}.
  Variable m0 : mem T.          (* the memory the kernel was started on *)

  (* safe so far, and every result index below i has been written *)
  Definition CovI (i : nat) (m : mem T) : Prop :=
    Safe0 m0 m /\ forall j, j < i -> covered j (trace m).

  Lemma CovI_init : trace m0 = [] -> CovI 0 m0.
  Proof. intros H. split; [apply Safe0_init; exact H|]. intros j Hj. lia. Qed.

  Lemma cov_load_bind i sc s k w {B} (f : list T -> M T B) Q PI :
    s <> SR -> k + w <= length (slice_of m0 s) ->
    triple (CovI i) (f (firstn w (skipn k (slice_of m0 s)))) Q PI ->
    triple (CovI i) (bind (load_gen sc s k w) f) Q PI.
  Proof.
    intros Hs Hb Hf. eapply triple_bind with
        (Qa := fun v m => v = firstn w (skipn k (slice_of m0 s)) /\ CovI i m).
    - apply triple_load_gen. intros m [Hm HC]. rewrite (slice_of_input m0 m s Hm Hs). split; [exact Hb|].
      split; [reflexivity|]. split.
      + destruct Hm as (HA & HB & HR & HT). unfold Safe0, log. cbn. repeat split; auto.
        apply Forall_app. split; [exact HT|]. constructor; [|constructor].
        split; [exact Hb|]. cbn. destruct s; cbn; congruence.
      + intros j Hj. unfold log; cbn [trace]. apply covered_app. left. apply HC. exact Hj.
    - intros v m [-> Hm]. apply Hf. exact Hm.
  Qed.

  (* a store of v at k, with everything below i >= k already covered, covers everything below k + |v| *)
  Lemma cov_store_bind i i' sc k v {B} (f : unit -> M T B) Q PI :
    k + length v <= length (mR m0) -> k <= i -> i' <= k + length v ->
    triple (CovI i') (f tt) Q PI ->
    triple (CovI i) (bind (store_gen sc k v) f) Q PI.
  Proof.
    intros Hb Hk Hi Hf. eapply triple_bind with (Qa := fun _ m => CovI i' m).
    - apply triple_store_gen. intros m [(HA & HB & HR & HT) HC]. split; [lia|]. split.
      + unfold Safe0. cbn. repeat split; auto.
        * rewrite length_splice; lia.
        * apply Forall_app. split; [exact HT|]. constructor; [|constructor].
          split; [exact Hb|reflexivity].
      + intros j Hj. cbn [trace]. apply covered_app.
        destruct (Nat.lt_ge_cases j i) as [Hlt|Hge]; [left; apply HC; exact Hlt|].
        right. apply covered_one. cbn. split; [reflexivity|lia].
    - intros []. exact Hf.
  Qed.

  Lemma cov_store_last i i' sc k v (Q : unit -> mem T -> Prop) PI :
    k + length v <= length (mR m0) -> k <= i -> i' <= k + length v ->
    (forall m, CovI i' m -> Q tt m) ->
    triple (CovI i) (store_gen sc k v) Q PI.
  Proof.
    intros Hb Hk Hi HQ. apply triple_bind_ret_r.
    apply (cov_store_bind i i'); [assumption | assumption | assumption |]. apply triple_ret. exact HQ.
  Qed.

  Lemma cov_load_dense_bind (R : SimdOps T) i s k {B} (f : dense T -> M T B) Q PI :
    s <> SR -> k + lanes R * 8 <= length (slice_of m0 s) ->
    triple (CovI i) (f (dense_at (lanes R) (slice_of m0 s) k)) Q PI ->
    triple (CovI i) (bind (load_dense R s k) f) Q PI.
  Proof.
    intros Hs Hb Hf. unfold load_dense.
    repeat (apply triple_bind_assoc; apply cov_load_bind; [exact Hs | lia | ]).
    apply triple_bind_ret_l. exact Hf.
  Qed.

  (* write_dense: eight registers of L lanes at i, i+L, ..., i+7L cover [i, i+8L) *)
  Lemma cov_write_dense_bind (R : SimdOps T) i (l : dense T) {B} (f : unit -> M T B) Q PI :
    (forall k, k < 8 -> length (nth_reg l k) = lanes R) ->
    i + lanes R * 8 <= length (mR m0) ->
    triple (CovI (i + lanes R * 8)) (f tt) Q PI ->
    triple (CovI i) (bind (write_dense R i l) f) Q PI.
  Proof.
    intros Hlen Hb Hf. unfold write_dense, store.
    pose proof (Hlen 0 ltac:(lia)) as L0. pose proof (Hlen 1 ltac:(lia)) as L1.
    pose proof (Hlen 2 ltac:(lia)) as L2. pose proof (Hlen 3 ltac:(lia)) as L3.
    pose proof (Hlen 4 ltac:(lia)) as L4. pose proof (Hlen 5 ltac:(lia)) as L5.
    pose proof (Hlen 6 ltac:(lia)) as L6. pose proof (Hlen 7 ltac:(lia)) as L7.
    apply triple_bind_assoc. apply (cov_store_bind i (i + lanes R * 1)); [lia | lia | lia |].
    apply triple_bind_assoc. apply (cov_store_bind (i + lanes R * 1) (i + lanes R * 2)); [lia | lia | lia |].
    apply triple_bind_assoc. apply (cov_store_bind (i + lanes R * 2) (i + lanes R * 3)); [lia | lia | lia |].
    apply triple_bind_assoc. apply (cov_store_bind (i + lanes R * 3) (i + lanes R * 4)); [lia | lia | lia |].
    apply triple_bind_assoc. apply (cov_store_bind (i + lanes R * 4) (i + lanes R * 5)); [lia | lia | lia |].
    apply triple_bind_assoc. apply (cov_store_bind (i + lanes R * 5) (i + lanes R * 6)); [lia | lia | lia |].
    apply triple_bind_assoc. apply (cov_store_bind (i + lanes R * 6) (i + lanes R * 7)); [lia | lia | lia |].
    apply (cov_store_bind (i + lanes R * 7) (i + lanes R * 8)); [lia | lia | lia | exact Hf].
  Qed.
End Cov.

(** * The writing kernels *)

Section AllWritten.
  Context {T : Type}.
  Variable R : SimdOps T.
  Variable Mth : MathOps T.
  Hypothesis WF : ops_wf R.

  Variable m0 : mem T.
  Variable dims : nat.
  Hypothesis HA : length (mA m0) = dims.
  Hypothesis HR : length (mR m0) = dims.

  Notation Ln := (lanes R).
  Let HL : 1 <= lanes R := wf_L R WF.
  Let PI : mem T -> Prop := fun _ => True.

  Ltac cstep :=
    first
      [ apply triple_bind_ret_l
      | apply cov_load_dense_bind; [discriminate | cbn [slice_of]; lia | ]
      | apply cov_load_bind; [discriminate | cbn [slice_of]; lia | ]
      | apply lift_opt_bind; [unfold PI; auto | intros ? ?]
      | apply triple_bind_assoc ].

  Ltac wdense Hwf :=
    cbn [slice_of] in *;
    apply triple_bind_ret_r;
    apply cov_write_dense_bind;
    [ Hwf | lia | apply triple_ret; intros ? ?;
                  match goal with
                  | H : CovI _ (?k * Dn Ln + Ln * 8) _ |- _ =>
                      replace (S k * Dn Ln) with (k * Dn Ln + Ln * 8) by (unfold Dn; lia); exact H
                  end ].

  Ltac slast i i' Hlen :=
    cbn [slice_of] in *;
    apply (cov_store_last m0 i i'); [ Hlen | lia | Hlen | auto ].

  Lemma three_phase_cov dense_step lane_step scalar_step :
    (forall k, k < qn dims Ln -> k * Dn Ln + Ln * 8 <= dims ->
               triple (CovI m0 (k * Dn Ln)) (dense_step (k * Dn Ln) tt) (fun _ => CovI m0 (S k * Dn Ln)) PI) ->
    (forall k, k < mn dims Ln -> qn dims Ln * Dn Ln + k * Ln + Ln <= dims ->
               triple (CovI m0 (qn dims Ln * Dn Ln + k * Ln)) (lane_step (qn dims Ln * Dn Ln + k * Ln) tt)
                      (fun _ => CovI m0 (qn dims Ln * Dn Ln + S k * Ln)) PI) ->
    (forall i, i < dims -> triple (CovI m0 i) (scalar_step i tt) (fun _ => CovI m0 (S i)) PI) ->
    triple (CovI m0 0)
           (three_phase R dims tt dense_step (fun u : unit => u) lane_step (fun u : unit => u) scalar_step)
           (fun _ => CovI m0 dims) PI.
  Proof.
    intros H1 H2 H3.
    apply (three_phase_rule R HL dims (fun i _ => CovI m0 i) (fun i _ => CovI m0 i) (fun i _ => CovI m0 i) PI);
      auto.
    - intros k [] Hk. apply H1; auto. apply (dense_in dims Ln HL k Hk).
    - intros k [] Hk. apply H2; auto. apply (lane_in dims Ln HL k Hk).
    - intros i [] Hi. apply H3. lia.
  Qed.

  Section WithB.
    Hypothesis HB : length (mB m0) = dims.

    Lemma map_vector_cov op_dense op sop :
      (forall a b, dense_wf R a -> dense_wf R b -> dense_wf R (op_dense a b)) ->
      (forall x y, length x = Ln -> length y = Ln -> length (op x y) = Ln) ->
      triple (CovI m0 0) (map_vector R Mth dims op_dense op sop) (fun _ => CovI m0 dims) PI.
    Proof.
      intros Hd Ho. unfold map_vector. apply three_phase_cov.
      - intros k Hk Hin. repeat cstep.
        wdense ltac:(apply Hd; apply dense_at_wf; cbn [slice_of]; lia).
      - intros k Hk Hin. unfold L. repeat cstep.
        slast (qn dims Ln * Dn Ln + k * Ln) (qn dims Ln * Dn Ln + S k * Ln)
              ltac:(rewrite Ho; [lia | apply firstn_skipn_len; lia | apply firstn_skipn_len; lia]).
      - intros i Hi. unfold read1, write1. repeat cstep. slast i (S i) ltac:(cbn [length]; lia).
    Qed.

    Lemma div_vector_cov : triple (CovI m0 0) (generic_div_vector R Mth dims) (fun _ => CovI m0 dims) PI.
    Proof.
      unfold generic_div_vector. apply three_phase_cov.
      - intros k Hk Hin. repeat cstep.
        wdense ltac:(eapply (wf_div_dense R WF); [| | eassumption]; apply dense_at_wf; cbn [slice_of]; lia).
      - intros k Hk Hin. unfold L. repeat cstep.
        slast (qn dims Ln * Dn Ln + k * Ln) (qn dims Ln * Dn Ln + S k * Ln)
              ltac:(idtac; match goal with
                           | H : r_div R ?x ?y = Some ?z |- _ =>
                               rewrite (wf_div R WF x y z);
                               [lia | apply firstn_skipn_len; lia | apply firstn_skipn_len; lia | exact H]
                           end).
      - intros i Hi. unfold read1, write1. repeat cstep. slast i (S i) ltac:(cbn [length]; lia).
    Qed.
  End WithB.

  Lemma map_value_cov value bd br op_dense op sop :
    dense_wf R bd -> length br = Ln ->
    (forall a b, dense_wf R a -> dense_wf R b -> dense_wf R (op_dense a b)) ->
    (forall x y, length x = Ln -> length y = Ln -> length (op x y) = Ln) ->
    triple (CovI m0 0) (map_value R Mth dims value bd br op_dense op sop) (fun _ => CovI m0 dims) PI.
  Proof.
    intros Hbd Hbr Hd Ho. unfold map_value. apply three_phase_cov.
    - intros k Hk Hin. repeat cstep.
      wdense ltac:(apply Hd; [apply dense_at_wf; cbn [slice_of]; lia | exact Hbd]).
    - intros k Hk Hin. unfold L. repeat cstep.
      slast (qn dims Ln * Dn Ln + k * Ln) (qn dims Ln * Dn Ln + S k * Ln)
            ltac:(rewrite Ho; [lia | apply firstn_skipn_len; lia | exact Hbr]).
    - intros i Hi. unfold read1, write1. repeat cstep. slast i (S i) ltac:(cbn [length]; lia).
  Qed.

  Lemma div_value_cov value : triple (CovI m0 0) (generic_div_value R Mth dims value) (fun _ => CovI m0 dims) PI.
  Proof.
    unfold generic_div_value. apply three_phase_cov.
    - intros k Hk Hin. repeat cstep.
      wdense ltac:(eapply (wf_div_dense R WF); [| | eassumption];
                   [apply dense_at_wf; cbn [slice_of]; lia | apply dense_copy_wf; apply (wf_filled R WF)]).
    - intros k Hk Hin. unfold L. repeat cstep.
      slast (qn dims Ln * Dn Ln + k * Ln) (qn dims Ln * Dn Ln + S k * Ln)
            ltac:(idtac; match goal with
                         | H : r_div R ?x ?y = Some ?z |- _ =>
                             rewrite (wf_div R WF x y z);
                             [lia | apply firstn_skipn_len; lia | apply (wf_filled R WF) | exact H]
                         end).
    - intros i Hi. unfold read1, write1. repeat cstep. slast i (S i) ltac:(cbn [length]; lia).
  Qed.
End AllWritten.

(** * All 12 writing kernels *)

Theorem all_written {T} (R : SimdOps T) (Mth : MathOps T) (k : kernel) (dims : nat) (v : T) (a b res : list T) :
  ops_wf R ->
  kernel_writes k = true ->
  length a = dims ->
  (kernel_uses_b k = true -> length b = dims) ->
  length res = dims ->
  match run_kernel R Mth k dims v (init_mem a b res) with
  | Ok _ m => forall j, j < dims -> covered j (trace m)
  | Panic _ => True                    (* integer division by zero: no claim *)
  | Fault _ | OutOfFuel => False
  end.
Proof.
  intros WF Hw Ha Hb Hr.
  set (m0 := init_mem a b res).
  assert (HA : length (mA m0) = dims) by exact Ha.
  assert (HR : length (mR m0) = dims) by exact Hr.
  assert (run : forall c : M T unit,
             triple (CovI m0 0) c (fun _ => CovI m0 dims) (fun _ => True) ->
             match bind c (fun _ => ret (@RUnit T)) m0 with
             | Ok _ m => forall j, j < dims -> covered j (trace m)
             | Panic _ => True
             | Fault _ | OutOfFuel => False
             end).
  { intros c Hc. specialize (Hc m0 (CovI_init m0 eq_refl)). unfold bind.
    destruct (c m0) as [x m|m|e|]; auto. cbn. destruct Hc as [_ Hc]. exact Hc. }
  assert (HF : length (r_filled R v) = lanes R) by apply (wf_filled R WF).
  assert (HFD : dense_wf R (filled_dense R v)) by (apply dense_copy_wf; exact HF).
  assert (HF0 : length (nth_reg (filled_dense R v) 0) = lanes R) by (apply HFD; lia).
  destruct k; try discriminate Hw; cbv beta zeta delta [run_kernel]; apply run;
    try (specialize (Hb eq_refl)).
  - apply map_vector_cov; auto; apply WF.
  - apply map_value_cov; auto; apply WF.
  - apply map_vector_cov; auto; apply WF.
  - apply map_value_cov; auto; apply WF.
  - apply map_value_cov; auto; try apply WF; try (apply dense_copy_wf; exact HF).
  - apply map_value_cov; auto; try apply WF; try (apply dense_copy_wf; exact HF).
  - apply map_value_cov; auto; try apply WF; try (apply dense_copy_wf; exact HF).
  - apply div_value_cov; auto.
  - apply map_vector_cov; auto; apply WF.
  - apply map_vector_cov; auto; apply WF.
  - apply map_vector_cov; auto; apply WF.
  - apply div_vector_cov; auto.
Qed.

(** * Main theorem: the final result slice does not depend on what the result buffer held before *)

Theorem all_written_prefill_free {T} (R : SimdOps T) (Mth : MathOps T) (k : kernel) (dims : nat) (v : T)
        (a b res res' : list T) :
  ops_wf R ->
  kernel_writes k = true ->
  length a = dims ->
  (kernel_uses_b k = true -> length b = dims) ->
  length res = dims -> length res' = dims ->
  match run_kernel R Mth k dims v (init_mem a b res), run_kernel R Mth k dims v (init_mem a b res') with
  | Ok x m, Ok x' m' => x = x' /\ mR m = mR m' /\ trace m = trace m' /\ mA m = a /\ mA m' = a /\ mB m = b /\ mB m' = b
  | Panic m, Panic m' => trace m = trace m'       (* the same zero divisor is met at the same point *)
  | _, _ => False
  end.
Proof.
  intros WF Hw Ha Hb Hr Hr'.
  pose proof (prefill_irrelevant R Mth k dims v a b res res' ltac:(congruence)) as O.
  pose proof (all_written R Mth k dims v a b res WF Hw Ha Hb Hr) as W.
  pose proof (all_written R Mth k dims v a b res' WF Hw Ha Hb Hr') as W'.
  pose proof (kernel_frame R Mth k dims v a b res) as F.
  pose proof (kernel_frame R Mth k dims v a b res') as F'.
  destruct (run_kernel R Mth k dims v (init_mem a b res)) as [x m|m|e|],
           (run_kernel R Mth k dims v (init_mem a b res')) as [x' m'|m'|e'|];
    cbv beta iota in O; try contradiction.
  - destruct O as [Hx (HT & HA' & HB' & HL & HC)].
    destruct F as (FA & FB & FL & _). destruct F' as (FA' & FB' & FL' & _).
    repeat split; auto.
    apply nth_error_ext. intros j. destruct (Nat.lt_ge_cases j dims) as [Hj|Hj].
    + apply HC. apply W. exact Hj.
    + transitivity (@None T); [|symmetry]; apply nth_error_None; lia.
  - destruct O as (HT & _). exact HT.
Qed.
