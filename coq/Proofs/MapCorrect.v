(* Functional correctness of the element-wise kernels, generic in the back end: if the register operation
   is lane-wise [f], its dense form is the single-register form applied to the 8 registers, and the scalar
   operation is [f], then for EVERY length the kernel writes exactly [f a_j b_j] (resp. [f a_j value]) to every
   index and nothing else.  Division: the kernel panics iff some divisor is rejected.  Axiom-free. *)
From Coq Require Import List Arith Bool Lia.
From CF Require Import Base.Mem Model.SimdApi Model.Kernels Model.Tables.
From CF Require Import Proofs.MemProofs Proofs.KernelRules Proofs.KernelSafety Proofs.KernelBounds
     Proofs.OpsWf Proofs.ListFacts.
Import ListNotations.

Section MapCorrect.
  Context {T : Type}.
  Variable R : SimdOps T.
  Variable Mth : MathOps T.
  Hypothesis HL : 1 <= lanes R.
  Notation Ln := (lanes R).

  Variables a b res : list T.
  Variable dims : nat.
  Hypothesis Ha : length a = dims.
  Hypothesis Hr : length res = dims.
  Let m0 := init_mem a b res.

  (* [okv]: the set of well-formed element values (bit patterns in range for integers; everything for
     floats).  Register operations need only behave on registers of well-formed lanes. *)
  Variable okv : T -> Prop.
  Hypothesis Hoka : Forall okv a.

  Lemma ok_block (sl : list T) j w : Forall okv sl -> Forall okv (firstn w (skipn j sl)).
  Proof.
    apply Forall_block.
  Qed.

  (* ---------------------------------------------------------------------------------------------- *)
  (** ** vector (x) vector, infallible *)
  Section Vector.
    Hypothesis Hb : length b = dims.
    Variable f : T -> T -> T.
    Variable op_dense : dense T -> dense T -> dense T.
    Variable op : vreg T -> vreg T -> vreg T.
    Variable sop : T -> T -> T.
    Hypothesis Hokb : Forall okv b.
    Hypothesis Hop : forall x y, length x = Ln -> length y = Ln -> Forall okv x -> Forall okv y ->
                                 op x y = map2 f x y.
    Hypothesis Hdense : forall x y, dense_wf R x -> dense_wf R y -> op_dense x y = apply_dense2 op x y.
    Hypothesis Hsop : forall x y, okv x -> okv y -> sop x y = f x y.

    Definition PhiV (i : nat) (r : list T) : Prop :=
      r = map2 f (firstn i a) (firstn i b) ++ skipn i res.

    Lemma PhiV_step j v r :
      j + length v <= dims -> PhiV j r ->
      v = map2 f (firstn (length v) (skipn j a)) (firstn (length v) (skipn j b)) ->
      PhiV (j + length v) (splice r j v).
    Proof.
      intros Hj HP Hv. unfold PhiV in *. subst r.
      rewrite prefix_step.
      - rewrite map2_firstn_step by lia. rewrite <- Hv. reflexivity.
      - rewrite map2_length, !firstn_length. lia.
      - lia.
    Qed.

    Lemma reg_len (sl : list T) j : j + Ln <= length sl -> length (firstn Ln (skipn j sl)) = Ln.
    Proof. intros H. rewrite firstn_length, skipn_length. lia. Qed.

    Lemma op_block j :
      j + Ln <= dims ->
      let v := op (firstn Ln (skipn j a)) (firstn Ln (skipn j b)) in
      length v = Ln /\ v = map2 f (firstn (length v) (skipn j a)) (firstn (length v) (skipn j b)).
    Proof.
      intros Hj v. unfold v. rewrite Hop by (try (apply reg_len; lia); apply ok_block; assumption).
      assert (E : length (map2 f (firstn Ln (skipn j a)) (firstn Ln (skipn j b))) = Ln).
      { rewrite map2_length, !reg_len by lia. lia. }
      split; [exact E|]. rewrite E. reflexivity.
    Qed.

    Theorem map_vector_correct :
      match map_vector R Mth dims op_dense op sop m0 with
      | Ok _ m => run_ok m0 m /\ mR m = map2 f a b
      | _ => False
      end.
    Proof.
      assert (H : triple (SafeR m0 (PhiV 0)) (map_vector R Mth dims op_dense op sop)
                         (fun _ m => SafeR m0 (PhiV dims) m) (fun _ => False)).
      { unfold map_vector.
        apply (three_phase_rule R HL dims (fun i _ => SafeR m0 (PhiV i)) (fun i _ => SafeR m0 (PhiV i))
                                (fun i _ => SafeR m0 (PhiV i)) (fun _ => False)); auto.
        - (* dense block *)
          intros k [] Hk. pose proof (dense_in dims Ln HL k Hk) as Hin.
          apply load_dense_bind; [discriminate | unfold m0; cbn [slice_of init_mem mA mB mR]; lia |].
          apply load_dense_bind; [discriminate | unfold m0; cbn [slice_of init_mem mA mB mR]; lia |].
          unfold m0; cbn [slice_of init_mem mA mB mR]; fold m0.
          assert (Wa : dense_wf R (dense_at Ln a (k * Dn Ln))) by (apply dense_at_wf; lia).
          assert (Wb : dense_wf R (dense_at Ln b (k * Dn Ln))) by (apply dense_at_wf; lia).
          rewrite (Hdense _ _ Wa Wb).
          set (l := apply_dense2 op (dense_at Ln a (k * Dn Ln)) (dense_at Ln b (k * Dn Ln))).
          assert (Hnth : forall q, q < 8 ->
                    nth_reg l q = op (firstn Ln (skipn (k * Dn Ln + Ln * q) a))
                                     (firstn Ln (skipn (k * Dn Ln + Ln * q) b))).
          { intros q Hq. unfold l, apply_dense2, nth_reg.
            rewrite nth_map2 with (da := @nil T) (db := @nil T) by (cbn; lia).
            rewrite !nth_dense_at by lia. reflexivity. }
          apply triple_bind_ret_r.
          apply (write_dense_bind m0 R (PhiV (k * Dn Ln)) (PhiV (S k * Dn Ln))).
          + intros q Hq. rewrite (Hnth q Hq). apply (op_block (k * Dn Ln + Ln * q)). unfold Dn in *. nia.
          + unfold m0; cbn [init_mem mR]; lia.
          + intros r Hlen HP.
            assert (step : forall q r', q < 8 -> PhiV (k * Dn Ln + Ln * q) r' ->
                             PhiV (k * Dn Ln + Ln * S q) (splice r' (k * Dn Ln + Ln * q) (nth_reg l q))).
            { intros q r' Hq HP'. rewrite (Hnth q Hq).
              destruct (op_block (k * Dn Ln + Ln * q) ltac:(unfold Dn in *; nia)) as [E1 E2].
              replace (k * Dn Ln + Ln * S q) with (k * Dn Ln + Ln * q + length
                 (op (firstn Ln (skipn (k * Dn Ln + Ln * q) a)) (firstn Ln (skipn (k * Dn Ln + Ln * q) b))))
                by (cbv zeta in E1; rewrite E1; lia).
              apply PhiV_step; [cbv zeta in E1; rewrite E1; unfold Dn in *; nia | exact HP' | exact E2]. }
            replace (S k * Dn Ln) with (k * Dn Ln + Ln * 8) by (unfold Dn; lia).
            apply (step 7); [lia|]. apply (step 6); [lia|]. apply (step 5); [lia|]. apply (step 4); [lia|].
            apply (step 3); [lia|]. apply (step 2); [lia|]. apply (step 1); [lia|]. apply (step 0); [lia|].
            replace (k * Dn Ln + Ln * 0) with (k * Dn Ln) by lia. exact HP.
          + apply triple_ret. auto.
        - (* single register *)
          intros k [] Hk. pose proof (lane_in dims Ln HL k Hk) as Hin. unfold L.
          apply load_bind; [discriminate | unfold m0; cbn [slice_of init_mem mA mB mR]; lia |].
          apply load_bind; [discriminate | unfold m0; cbn [slice_of init_mem mA mB mR]; lia |].
          unfold m0; cbn [slice_of init_mem mA mB mR]; fold m0.
          destruct (op_block (qn dims Ln * Dn Ln + k * Ln) ltac:(lia)) as [E1 E2]. cbv zeta in E1, E2.
          apply (store_last m0 (PhiV (qn dims Ln * Dn Ln + k * Ln)) (PhiV (qn dims Ln * Dn Ln + S k * Ln))).
          + rewrite E1. unfold m0; cbn [init_mem mR]; lia.
          + intros r Hlen HP.
            replace (qn dims Ln * Dn Ln + S k * Ln)
              with (qn dims Ln * Dn Ln + k * Ln + length (op (firstn Ln (skipn (qn dims Ln * Dn Ln + k * Ln) a))
                                                             (firstn Ln (skipn (qn dims Ln * Dn Ln + k * Ln) b))))
              by (rewrite E1; lia).
            apply PhiV_step; [rewrite E1; lia | exact HP | exact E2].
          + auto.
        - (* scalar tail *)
          intros i [] Hi. unfold read1, write1.
          apply triple_bind_assoc. apply load_bind; [discriminate | unfold m0; cbn [slice_of init_mem mA mB mR]; lia |].
          apply triple_bind_ret_l.
          apply triple_bind_assoc. apply load_bind; [discriminate | unfold m0; cbn [slice_of init_mem mA mB mR]; lia |].
          apply triple_bind_ret_l. unfold m0; cbn [slice_of init_mem mA mB mR]; fold m0.
          apply (store_last m0 (PhiV i) (PhiV (S i))).
          + unfold m0; cbn [length init_mem mR]; lia.
          + intros r Hlen HP. replace (S i) with (i + length [sop (hd (dflt Mth) (firstn 1 (skipn i a)))
                                                                 (hd (dflt Mth) (firstn 1 (skipn i b)))])
              by (cbn [length]; lia).
            apply PhiV_step; [cbn [length]; lia | exact HP |].
            cbn [length]. rewrite (hd_firstn1 (dflt Mth) a i) at 2 by lia.
            rewrite (hd_firstn1 (dflt Mth) b i) at 2 by lia. cbn [map2]. rewrite Hsop; [reflexivity| |].
            * pose proof (ok_block a i 1 Hoka) as F. rewrite (hd_firstn1 (dflt Mth) a i) in F by lia.
              inversion F; assumption.
            * pose proof (ok_block b i 1 Hokb) as F. rewrite (hd_firstn1 (dflt Mth) b i) in F by lia.
              inversion F; assumption.
          + auto. }
      specialize (H m0).
      assert (P0 : SafeR m0 (PhiV 0) m0).
      { split; [apply Safe0_init; reflexivity|]. unfold PhiV. cbn. reflexivity. }
      specialize (H P0). destruct (map_vector R Mth dims op_dense op sop m0) as [[] m| | |]; auto.
      destruct H as [Hs HP]. split; [exact Hs|]. unfold PhiV in HP.
      rewrite HP. rewrite map2_full by assumption. rewrite skipn_all2 by lia. apply app_nil_r.
    Qed.
  End Vector.

  (* ---------------------------------------------------------------------------------------------- *)
  (** ** vector (x) broadcast value, infallible *)
  Section Value.
    Variable f : T -> T -> T.
    Variable value : T.
    Variable op_dense : dense T -> dense T -> dense T.
    Variable op : vreg T -> vreg T -> vreg T.
    Variable sop : T -> T -> T.
    Hypothesis Hokv : okv value.
    Hypothesis Hop : forall x y, length x = Ln -> length y = Ln -> Forall okv x -> Forall okv y ->
                                 op x y = map2 f x y.
    Hypothesis Hdense : forall x y, dense_wf R x -> dense_wf R y -> op_dense x y = apply_dense2 op x y.
    Hypothesis Hsop : forall x y, okv x -> okv y -> sop x y = f x y.
    Let br := repeat value Ln.
    Let g := fun x => f x value.

    Definition PhiS (i : nat) (r : list T) : Prop := r = map g (firstn i a) ++ skipn i res.

    Lemma PhiS_step j v r :
      j + length v <= dims -> PhiS j r -> v = map g (firstn (length v) (skipn j a)) ->
      PhiS (j + length v) (splice r j v).
    Proof.
      intros Hj HP Hv. unfold PhiS in *. subst r.
      rewrite prefix_step.
      - rewrite map_firstn_step. rewrite <- Hv. reflexivity.
      - rewrite map_length, firstn_length. lia.
      - lia.
    Qed.

    Lemma op_block_s j :
      j + Ln <= dims ->
      let v := op (firstn Ln (skipn j a)) br in
      length v = Ln /\ v = map g (firstn (length v) (skipn j a)).
    Proof.
      intros Hj v. unfold v, br.
      assert (E0 : length (firstn Ln (skipn j a)) = Ln) by (rewrite firstn_length, skipn_length; lia).
      rewrite Hop; [| exact E0 | apply repeat_length | apply ok_block; assumption
                     | apply Forall_forall; intros x Hx; apply repeat_spec in Hx; subst; assumption].
      set (X := firstn Ln (skipn j a)) in *.
      replace (repeat value Ln) with (repeat value (length X)) by (rewrite E0; reflexivity).
      rewrite map2_repeat_r. fold g. rewrite map_length, E0. split; [reflexivity|]. reflexivity.
    Qed.

    Theorem map_value_correct :
      match map_value R Mth dims value (dense_copy br) br op_dense op sop m0 with
      | Ok _ m => run_ok m0 m /\ mR m = map g a
      | _ => False
      end.
    Proof.
      assert (Wbd : dense_wf R (dense_copy br)) by (apply dense_copy_wf; apply repeat_length).
      assert (H : triple (SafeR m0 (PhiS 0)) (map_value R Mth dims value (dense_copy br) br op_dense op sop)
                         (fun _ m => SafeR m0 (PhiS dims) m) (fun _ => False)).
      { unfold map_value.
        apply (three_phase_rule R HL dims (fun i _ => SafeR m0 (PhiS i)) (fun i _ => SafeR m0 (PhiS i))
                                (fun i _ => SafeR m0 (PhiS i)) (fun _ => False)); auto.
        - intros k [] Hk. pose proof (dense_in dims Ln HL k Hk) as Hin.
          apply load_dense_bind; [discriminate | unfold m0; cbn [slice_of init_mem mA mB mR]; lia |].
          unfold m0; cbn [slice_of init_mem mA mB mR]; fold m0.
          assert (Wa : dense_wf R (dense_at Ln a (k * Dn Ln))) by (apply dense_at_wf; lia).
          rewrite (Hdense _ _ Wa Wbd).
          set (l := apply_dense2 op (dense_at Ln a (k * Dn Ln)) (dense_copy br)).
          assert (Hnth : forall q, q < 8 ->
                    nth_reg l q = op (firstn Ln (skipn (k * Dn Ln + Ln * q) a)) br).
          { intros q Hq. unfold l, apply_dense2, nth_reg.
            rewrite nth_map2 with (da := @nil T) (db := @nil T) by (cbn; lia).
            rewrite nth_dense_at by lia. f_equal. unfold dense_copy, NUM_LANES.
            do 8 (destruct q as [|q]; [reflexivity|]). lia. }
          apply triple_bind_ret_r.
          apply (write_dense_steps m0 R PhiS (k * Dn Ln) l).
          + intros q Hq. rewrite (Hnth q Hq). apply (op_block_s (k * Dn Ln + Ln * q)). unfold Dn in *. nia.
          + unfold m0; cbn [init_mem mR]; lia.
          + intros q r Hq Hlen HP. rewrite (Hnth q Hq).
            destruct (op_block_s (k * Dn Ln + Ln * q) ltac:(unfold Dn in *; nia)) as [E1 E2]. cbv zeta in E1, E2.
            replace (k * Dn Ln + Ln * S q)
              with (k * Dn Ln + Ln * q + length (op (firstn Ln (skipn (k * Dn Ln + Ln * q) a)) br))
              by (rewrite E1; lia).
            apply PhiS_step; [rewrite E1; unfold Dn in *; nia | exact HP | exact E2].
          + replace (k * Dn Ln + Ln * 8) with (S k * Dn Ln) by (unfold Dn; lia). apply triple_ret. auto.
        - intros k [] Hk. pose proof (lane_in dims Ln HL k Hk) as Hin. unfold L.
          apply load_bind; [discriminate | unfold m0; cbn [slice_of init_mem mA mB mR]; lia |].
          unfold m0; cbn [slice_of init_mem mA mB mR]; fold m0.
          destruct (op_block_s (qn dims Ln * Dn Ln + k * Ln) ltac:(lia)) as [E1 E2]. cbv zeta in E1, E2.
          apply (store_last m0 (PhiS (qn dims Ln * Dn Ln + k * Ln)) (PhiS (qn dims Ln * Dn Ln + S k * Ln))).
          + rewrite E1. unfold m0; cbn [init_mem mR]; lia.
          + intros r Hlen HP.
            replace (qn dims Ln * Dn Ln + S k * Ln)
              with (qn dims Ln * Dn Ln + k * Ln
                    + length (op (firstn Ln (skipn (qn dims Ln * Dn Ln + k * Ln) a)) br))
              by (rewrite E1; lia).
            apply PhiS_step; [rewrite E1; lia | exact HP | exact E2].
          + auto.
        - intros i [] Hi. unfold read1, write1.
          apply triple_bind_assoc. apply load_bind; [discriminate | unfold m0; cbn [slice_of init_mem mA mB mR]; lia |].
          apply triple_bind_ret_l. unfold m0; cbn [slice_of init_mem mA mB mR]; fold m0.
          apply (store_last m0 (PhiS i) (PhiS (S i))).
          + unfold m0; cbn [length init_mem mR]; lia.
          + intros r Hlen HP.
            replace (S i) with (i + length [sop (hd (dflt Mth) (firstn 1 (skipn i a))) value])
              by (cbn [length]; lia).
            apply PhiS_step; [cbn [length]; lia | exact HP |].
            cbn [length]. rewrite (hd_firstn1 (dflt Mth) a i) at 2 by lia.
            cbn [map]. unfold g. rewrite Hsop; [reflexivity| | exact Hokv].
            pose proof (ok_block a i 1 Hoka) as F. rewrite (hd_firstn1 (dflt Mth) a i) in F by lia.
            inversion F; assumption.
          + auto. }
      specialize (H m0).
      assert (P0 : SafeR m0 (PhiS 0) m0).
      { split; [apply Safe0_init; reflexivity|]. unfold PhiS. cbn. reflexivity. }
      specialize (H P0).
      destruct (map_value R Mth dims value (dense_copy br) br op_dense op sop m0) as [[] m| | |]; auto.
      destruct H as [Hs HP]. split; [exact Hs|]. unfold PhiS in HP.
      rewrite HP. rewrite <- Ha at 1. rewrite firstn_all. rewrite skipn_all2 by lia. apply app_nil_r.
    Qed.
  End Value.
End MapCorrect.
