(* C10 — reflection of the checkers of Model/Features.v over the tables regenerated from /repo (Gen/*.v) and
   the statements of Props/C10.v.  On a tree where a checker is false the corresponding `*_ok` lemma stops
   compiling; checks/c10.py then evaluates the same checker row by row to name the culprit. *)
From Coq Require Import String List Bool Arith.
From CF Require Import Model.Tables Model.TableSem Model.Features.
From CF Require Import Proofs.TableProofs Proofs.FactsDispatch Proofs.FactsSafeSlots Proofs.FeatureLemmas Proofs.FeatureGeneric.
From CF Require Import Gen.GenExports Gen.GenSafe Gen.GenMacros Gen.GenDispatch Gen.GenFeatures.
Import ListNotations.
Open Scope string_scope.
Open Scope list_scope.

(** * Reflection over the generated graph *)

Lemma closures_closed :
  closedb (closure ["avx2"]) && closedb (closure ["avx2"; "fma"])
  && closedb (closure (tested_slot pred_defs dispatch_chain SAvx512)) && closedb baseline = true.
Proof. vm_compute. reflexivity. Qed.

Lemma chain_unique : chain_slots_unique dispatch_chain = true.
Proof. vm_compute. reflexivity. Qed.

Lemma avx2_ok : reg_need_ok feature_graph exports Avx2 (closure ["avx2"]) = true.
Proof. vm_compute. reflexivity. Qed.

Lemma avx2fma_ok : reg_need_ok feature_graph exports Avx2Fma (closure ["avx2"; "fma"]) = true.
Proof. vm_compute. reflexivity. Qed.

Lemma avx512_ok :
  reg_need_ok feature_graph exports Avx512 (closure (tested_slot pred_defs dispatch_chain SAvx512)) = true.
Proof. vm_compute. reflexivity. Qed.

Lemma neon_ok :
  reg_need_ok feature_graph exports Neon (closure (tested_slot pred_defs dispatch_chain SNeon)) = true.
Proof. vm_compute. reflexivity. Qed.

Lemma fallback_ok : reg_need_ok feature_graph exports Fallback baseline = true.
Proof. vm_compute. reflexivity. Qed.

Lemma safe_ok : forallb (safe_need_ok feature_graph dispatch_chain exports safe_macros) safe_entries = true.
Proof. vm_compute. reflexivity. Qed.

Lemma preds_ok : forallb (fun p => fsubset (need_pred feature_graph p) baseline) [PAvx512; PAvx2; PFma; PNeon] = true.
Proof. vm_compute. reflexivity. Qed.

Lemma nofma_reflect : nofma_ok feature_graph exports = true.
Proof. vm_compute. reflexivity. Qed.

Lemma dispatch_reflect : dispatch_ok feature_graph pred_defs dispatch_chain exports = true.
Proof. vm_compute. reflexivity. Qed.

(** * The statements of Props/C10.v *)

Lemma C10_avx2_proof :
  forall x, In x exports -> e_reg x = Avx2 -> incl (need_export feature_graph x) (closure ["avx2"]).
Proof. exact (reg_need_ok_sound _ _ _ _ avx2_ok). Qed.

Lemma C10_avx2fma_proof :
  forall x, In x exports -> e_reg x = Avx2Fma -> incl (need_export feature_graph x) (closure ["avx2"; "fma"]).
Proof. exact (reg_need_ok_sound _ _ _ _ avx2fma_ok). Qed.

Lemma C10_avx512_proof :
  forall x, In x exports -> e_reg x = Avx512 ->
  incl (need_export feature_graph x) (closure (tested_slot pred_defs dispatch_chain SAvx512)).
Proof. exact (reg_need_ok_sound _ _ _ _ avx512_ok). Qed.

Lemma C10_neon_proof :
  forall x, In x exports -> e_reg x = Neon ->
  incl (need_export feature_graph x) (closure (tested_slot pred_defs dispatch_chain SNeon)).
Proof. exact (reg_need_ok_sound _ _ _ _ neon_ok). Qed.

Lemma C10_baseline_proof :
  (forall x, In x exports -> e_reg x = Fallback -> incl (need_export feature_graph x) baseline)
  /\ (forall s m f, In s safe_entries -> find_safe_macro safe_macros (s_macro s) = Some m ->
        incl (need_safe feature_graph dispatch_chain exports m s f) baseline)
  /\ (forall p, incl (need_pred feature_graph p) baseline).
Proof.
  split; [exact (reg_need_ok_sound _ _ _ _ fallback_ok)|]. split.
  - intros s m f Hs Hm. pose proof (forallb_In _ _ safe_ok s Hs) as H.
    unfold safe_need_ok in H. rewrite Hm in H. apply andb_true_iff in H. destruct H as [Hc Ha].
    destruct f; apply fsubset_incl; assumption.
  - intros p. apply fsubset_incl. apply (forallb_In _ _ preds_ok). destruct p; cbn; auto.
Qed.

Lemma C10_nofma_proof :
  forall x, In x exports -> e_reg x = Avx2 ->
  forall i, In i (reach_intr_export feature_graph x) -> ~ In "fma" (closure (intr_req feature_graph i)).
Proof. exact (nofma_ok_sound feature_graph exports nofma_reflect). Qed.

(* No safe call can need a missing extension: whichever link of the macro's chain fires — for every safe
   routine, form, build configuration, set of supplied slots and machine — everything the routine it invokes
   needs is available on that machine. *)
Lemma C10_dispatch_proof :
  forall s, In s safe_entries ->
  forall m f bc avail sup x e,
    machine_ok bc avail ->
    find_safe_macro safe_macros (s_macro s) = Some m ->
    select_chain dispatch_chain bc (eval_pouts pred_defs bc avail) sup = Some x ->
    slot_export exports m s f x = Some e ->
    forall ft, In ft (need_export feature_graph e) -> avail ft = true.
Proof.
  exact (dispatch_generic feature_graph pred_defs dispatch_chain exports safe_entries safe_macros
           C09_slots_proof dispatch_reflect).
Qed.

(* The same, phrased with the specification of the selection (C09_chain). *)
Lemma C10_dispatch_spec_proof :
  forall s, In s safe_entries ->
  forall m f bc avail sup x e,
    machine_ok bc avail ->
    find_safe_macro safe_macros (s_macro s) = Some m ->
    select_spec bc (eval_pouts pred_defs bc avail) sup = Some x ->
    slot_export exports m s f x = Some e ->
    forall ft, In ft (need_export feature_graph e) -> avail ft = true.
Proof.
  intros s Hs m f bc avail sup x e Hm Hfm Hsel. rewrite <- chain_selects_spec in Hsel.
  exact (C10_dispatch_proof s Hs m f bc avail sup x e Hm Hfm Hsel).
Qed.

(** * C09_guards: a guard holds iff what the routines behind it need is available *)

Lemma slots_need_reflect : slots_need_ok feature_graph pred_defs dispatch_chain exports = true.
Proof. vm_compute. reflexivity. Qed.

Lemma slots_complete_reflect : slots_need_complete feature_graph pred_defs dispatch_chain exports = true.
Proof. vm_compute. reflexivity. Qed.

Lemma chain_guards_reflect : chain_guards_spec_ok dispatch_chain = true.
Proof. vm_compute. reflexivity. Qed.



(* Every predicate of a link's guard is compiled wherever the link is (same cfg in the source); the cfgs mention
   only the architecture and cargo features, so sixteen configurations cover every build. *)
Lemma guard_preds_compiled : guards_compiled_stmt pred_defs dispatch_chain.
Proof.
  intros bc c x d.

  intros Hc Hx Hcfg Hd. destruct bc as [a n sd tf].
  cbn [In dispatch_chain] in Hc.
  repeat (destruct Hc as [<-|Hc]; [
    cbn [ce_guard In] in Hx;
    repeat (destruct Hx as [<-|Hx]; [
      cbn in Hd; injection Hd as <-; destruct a, n, sd; cbn in Hcfg |- *; solve [reflexivity|discriminate Hcfg] |]);
    destruct Hx |]).
  destruct Hc.
Qed.

Lemma C09_guards_proof :
  forall bc avail, machine_ok bc avail ->
  forall c, In c dispatch_chain -> eval_cfg bc (ce_cfg c) = true ->
    (guard_spec (ce_slot c) (eval_pouts pred_defs bc avail) = true ->
       forall f, In f (need_slot feature_graph exports (ce_slot c)) -> avail f = true)
    /\ (bc_std bc = true ->
        (forall f, In f (need_slot feature_graph exports (ce_slot c)) -> avail f = true) ->
        guard_spec (ce_slot c) (eval_pouts pred_defs bc avail) = true).
Proof.
  exact (guards_generic feature_graph pred_defs dispatch_chain exports
           chain_guards_reflect slots_need_reflect slots_complete_reflect guard_preds_compiled).
Qed.
