(* C12: the const-dimension and runtime-length forms agree — semantic consequence of the table facts. *)
From Coq Require Import ZArith String List Bool Arith Lia.
From CF Require Import Base.Mem Model.Tables Model.TableSem Model.Prim Model.SimdApi Model.Kernels Model.Regs
     Model.Exports Model.Safe.
From CF Require Import Proofs.TableProofs.
From CF Require Import Gen.GenExports Gen.GenSafe Gen.GenMacros Gen.GenDispatch.
Import ListNotations.

(* exports: the form only decides where `dims` comes from *)
Lemma run_export_int_forms e debug DIMS v a b res :
  DIMS = List.length a ->
  run_export_int e Const debug DIMS v a b res = run_export_int e Any debug DIMS v a b res.
Proof. intros ->. reflexivity. Qed.
Lemma run_export_f32_forms e debug DIMS v a b res :
  DIMS = List.length a ->
  run_export_f32 e Const debug DIMS v a b res = run_export_f32 e Any debug DIMS v a b res.
Proof. intros ->. reflexivity. Qed.
Lemma run_export_f64_forms e debug DIMS v a b res :
  DIMS = List.length a ->
  run_export_f64 e Const debug DIMS v a b res = run_export_f64 e Any debug DIMS v a b res.
Proof. intros ->. reflexivity. Qed.

(* assert lists: mutual entailment (given DIMS = len a) makes them pass on exactly the same lengths *)
Lemma asserts_pass_all l asserts :
  asserts_pass l asserts = true <-> forall q, In q asserts -> eval_len l (fst q) = eval_len l (snd q).
Proof.
  unfold asserts_pass. rewrite forallb_forall. split; intros H q Hq; specialize (H q Hq).
  - apply Nat.eqb_eq; exact H.
  - apply Nat.eqb_eq; exact H.
Qed.

Lemma entailed_pass l xs ys :
  forallb (entails ((LDIMS, LA) :: xs)) ys = true ->
  len_dims l = len_a l -> asserts_pass l xs = true -> asserts_pass l ys = true.
Proof.
  intros He Hd Hx. apply asserts_pass_all. intros q Hq.
  apply (entails_all_sound l ((LDIMS, LA) :: xs) ys He); [|exact Hq].
  unfold asserts_pass. cbn [forallb fst snd eval_len]. rewrite Hd, Nat.eqb_refl. exact Hx.
Qed.

Lemma asserts_equiv l xs ys :
  forallb (entails ((LDIMS, LA) :: xs)) ys = true ->
  forallb (entails ((LDIMS, LA) :: ys)) xs = true ->
  len_dims l = len_a l -> asserts_pass l xs = asserts_pass l ys.
Proof.
  intros H1 H2 Hd.
  destruct (asserts_pass l xs) eqn:Ex, (asserts_pass l ys) eqn:Ey; try reflexivity.
  - rewrite (entailed_pass l xs ys H1 Hd Ex) in Ey. discriminate.
  - rewrite (entailed_pass l ys xs H2 Hd Ey) in Ex. discriminate.
Qed.

(* table-level checker: the two cores of a safe entry agree on everything but the assert lists, which are
   mutually entailed under DIMS = len a *)
Definition key_eqb (x y : option (ty * reg * kernel)) : bool :=
  match x, y with
  | Some (t1, r1, k1), Some (t2, r2, k2) => ty_eqb t1 t2 && reg_eqb r1 r2 && kernel_eqb k1 k2
  | None, None => true
  | _, _ => false
  end.
Definition bool_eqb := Bool.eqb.
Definition supplied_eqb (x y : supplied) : bool :=
  Bool.eqb (s_avx512 x) (s_avx512 y) && Bool.eqb (s_avx2fma x) (s_avx2fma y)
  && Bool.eqb (s_avx2 x) (s_avx2 y) && Bool.eqb (s_neon x) (s_neon y).
Definition cores_agree (cc ca : safe_core) : bool :=
  forallb (entails ((LDIMS, LA) :: sc_asserts cc)) (sc_asserts ca)
  && forallb (entails ((LDIMS, LA) :: sc_asserts ca)) (sc_asserts cc)
  && forallb (entails ((LDIMS, LA) :: sc_debug_asserts cc)) (sc_debug_asserts ca)
  && forallb (entails ((LDIMS, LA) :: sc_debug_asserts ca)) (sc_debug_asserts cc)
  && supplied_eqb (sc_supplied cc) (sc_supplied ca)
  && forallb (fun x => key_eqb (snd (fst x)) (snd (snd x)) && slot_eqb (fst (fst x)) (fst (snd x)))
             (combine (sc_slot_key cc) (sc_slot_key ca))
  && Nat.eqb (List.length (sc_slot_key cc)) (List.length (sc_slot_key ca)).
Definition entry_forms_agree (s : safe_entry) : bool :=
  match core_of exports safe_macros s Const, core_of exports safe_macros s Any with
  | Some cc, Some ca => cores_agree cc ca
  | _, _ => false
  end.

Lemma safe_entries_forms_agree : forallb entry_forms_agree safe_entries = true.
Proof. vm_compute. reflexivity. Qed.

Lemma key_eqb_eq x y : key_eqb x y = true -> x = y.
Proof.
  destruct x as [[[t1 r1] k1]|], y as [[[t2 r2] k2]|]; cbn; try discriminate; auto.
  rewrite !andb_true_iff. intros [[H1 H2] H3].
  apply ty_eqb_eq in H1. apply reg_eqb_eq in H2. apply kernel_eqb_eq in H3. subst. reflexivity.
Qed.

Lemma supplied_eqb_eq x y : supplied_eqb x y = true -> x = y.
Proof.
  destruct x, y. unfold supplied_eqb. cbn. rewrite !andb_true_iff. intros [[[H1 H2] H3] H4].
  apply Bool.eqb_prop in H1, H2, H3, H4. subst. reflexivity.
Qed.

Lemma slot_keys_eq (xs ys : list (slot * option (ty * reg * kernel))) :
  forallb (fun x => key_eqb (snd (fst x)) (snd (snd x)) && slot_eqb (fst (fst x)) (fst (snd x))) (combine xs ys) = true ->
  List.length xs = List.length ys -> xs = ys.
Proof.
  revert ys. induction xs as [|[s1 k1] xs IH]; intros [|[s2 k2] ys] H Hl; cbn in *; try lia; [reflexivity|].
  apply andb_true_iff in H. destruct H as [H1 H2]. apply andb_true_iff in H1. destruct H1 as [Hk Hs].
  apply key_eqb_eq in Hk. apply slot_eqb_eq in Hs. subst. f_equal. apply IH; [exact H2 | lia].
Qed.

Section SafeForms.
  Context {T : Type}.
  Variable run_export : export -> form -> bool -> nat -> T -> list T -> list T -> list T -> xoutcome T.
  Hypothesis run_export_forms : forall e debug DIMS v a b res,
      DIMS = List.length a -> run_export e Const debug DIMS v a b res = run_export e Any debug DIMS v a b res.

  Lemma cores_agree_run cc ca bc p debug DIMS v a b res :
    cores_agree cc ca = true -> DIMS = List.length a ->
    run_safe_core dispatch_chain run_export cc Const bc p debug DIMS v a b res
    = run_safe_core dispatch_chain run_export ca Any bc p debug DIMS v a b res.
  Proof.
    unfold cores_agree. rewrite !andb_true_iff. intros [[[[[[A1 A2] D1] D2] Su] Ke] Le] HD.
    apply supplied_eqb_eq in Su. apply Nat.eqb_eq in Le. apply slot_keys_eq in Ke; [|exact Le].
    unfold run_safe_core.
    set (l := {| len_a := List.length a; len_b := List.length b; len_r := List.length res; len_dims := DIMS |}).
    assert (Hl : len_dims l = len_a l) by exact HD.
    rewrite (asserts_equiv l _ _ A1 A2 Hl). rewrite (asserts_equiv l _ _ D1 D2 Hl). rewrite Su, Ke.
    destruct (negb (asserts_pass l (sc_asserts ca))); [reflexivity|].
    destruct (debug && negb (asserts_pass l (sc_debug_asserts ca))); [reflexivity|].
    destruct (select_chain dispatch_chain bc p (sc_supplied ca)) as [x|]; [|reflexivity].
    destruct (find (fun q => slot_eqb (fst q) x) (sc_slot_key ca)) as [[s [k|]]|]; try reflexivity.
    apply run_export_forms. exact HD.
  Qed.

  Theorem safe_forms_agree_sem s bc p debug DIMS v a b res :
    In s safe_entries -> DIMS = List.length a ->
    run_safe dispatch_chain run_export exports safe_macros s Const bc p debug DIMS v a b res
    = run_safe dispatch_chain run_export exports safe_macros s Any bc p debug DIMS v a b res.
  Proof.
    intros Hs HD. pose proof (forallb_In _ _ safe_entries_forms_agree s Hs) as H.
    unfold entry_forms_agree in H. unfold run_safe.
    destruct (core_of exports safe_macros s Const) as [cc|]; [|discriminate].
    destruct (core_of exports safe_macros s Any) as [ca|]; [|discriminate].
    apply cores_agree_run; assumption.
  Qed.
End SafeForms.
