(* CrateProofs.v — C14: reflection over the generated crate graph, for ALL build configurations.

   Structure:
   1. general lemmas about [eval_cfg]: a condition that syntactically implies `test` never holds; a condition
      free of `target_feature` atoms does not depend on [bc_tf]; hence a well-formed graph ([graph_wf]) is
      evaluated identically under [bc] and [norm_bc bc], and [norm_bc bc] is one of the 16 [all_configs];
   2. [check_all crate_graph = true] by computation over the graph regenerated from /repo;
   3. the boolean checkers unfolded into the statements used by Props/C14.v. *)
From Coq Require Import String List Bool NArith Lia.
From CF Require Import Model.Tables Model.TableSem Model.CrateGraph Gen.GenCrate.
Import ListNotations.
Open Scope string_scope.

(** * 1. cfg expressions *)

Section CfgInd.
  Variable P : cfgexp -> Prop.
  Hypothesis HTrue : P CTrue.
  Hypothesis HArch : forall a, P (CArch a).
  Hypothesis HFeature : forall f, P (CFeature f).
  Hypothesis HTf : forall f, P (CTargetFeature f).
  Hypothesis HFlag : forall f, P (CFlag f).
  Hypothesis HAll : forall l, Forall P l -> P (CAll l).
  Hypothesis HAny : forall l, Forall P l -> P (CAny l).
  Hypothesis HNot : forall c, P c -> P (CNot c).

  Fixpoint cfgexp_ind' (c : cfgexp) : P c :=
    match c with
    | CTrue => HTrue
    | CArch a => HArch a
    | CFeature f => HFeature f
    | CTargetFeature f => HTf f
    | CFlag f => HFlag f
    | CAll l => HAll l ((fix go (l : list cfgexp) : Forall P l :=
                           match l with [] => Forall_nil P | x :: r => Forall_cons x (cfgexp_ind' x) (go r) end) l)
    | CAny l => HAny l ((fix go (l : list cfgexp) : Forall P l :=
                           match l with [] => Forall_nil P | x :: r => Forall_cons x (cfgexp_ind' x) (go r) end) l)
    | CNot x => HNot x (cfgexp_ind' x)
    end.
End CfgInd.

(* the anonymous fixpoints of the definitions, as list functions *)
Lemma eval_all_forallb : forall bc l,
  eval_cfg bc (CAll l) = forallb (eval_cfg bc) l.
Proof. intros bc l. cbn [eval_cfg]. induction l as [|x r IH]; [reflexivity|]. cbn [forallb]. rewrite <- IH. reflexivity. Qed.

Lemma eval_any_existsb : forall bc l,
  eval_cfg bc (CAny l) = existsb (eval_cfg bc) l.
Proof. intros bc l. cbn [eval_cfg]. induction l as [|x r IH]; [reflexivity|]. cbn [existsb]. rewrite <- IH. reflexivity. Qed.

Lemma implies_test_all : forall l, implies_test (CAll l) = existsb implies_test l.
Proof. intros l. cbn [implies_test]. induction l as [|x r IH]; [reflexivity|]. cbn [existsb]. rewrite <- IH. reflexivity. Qed.

Lemma implies_test_any : forall l,
  implies_test (CAny l) = match l with [] => false | _ => forallb implies_test l end.
Proof.
  intros l.
  assert (A : forall l', (fix all (l : list cfgexp) : bool :=
                            match l with [] => true | x :: r => implies_test x && all r end) l'
                         = forallb implies_test l').
  { induction l' as [|x r IH]; [reflexivity|]. cbn [forallb]. rewrite <- IH. reflexivity. }
  destruct l as [|y l]; [reflexivity|]. cbn [implies_test forallb]. rewrite A. reflexivity.
Qed.

Lemma tf_free_all : forall l, cfg_tf_free (CAll l) = forallb cfg_tf_free l.
Proof. intros l. cbn [cfg_tf_free]. induction l as [|x r IH]; [reflexivity|]. cbn [forallb]. rewrite <- IH. reflexivity. Qed.
Lemma tf_free_any : forall l, cfg_tf_free (CAny l) = forallb cfg_tf_free l.
Proof. intros l. cbn [cfg_tf_free]. induction l as [|x r IH]; [reflexivity|]. cbn [forallb]. rewrite <- IH. reflexivity. Qed.

(* A condition that syntactically implies `test` is false in every modelled configuration. *)
Lemma implies_test_sound : forall c bc, implies_test c = true -> eval_cfg bc c = false.
Proof.
  intros c bc. induction c as [|a|f|f|f|l IH|l IH|c IH] using cfgexp_ind'; intros H; try discriminate H.
  - reflexivity.
  - rewrite implies_test_all in H. rewrite eval_all_forallb.
    apply existsb_exists in H. destruct H as [x [Hin Hx]].
    rewrite Forall_forall in IH. specialize (IH x Hin Hx).
    apply not_true_is_false. intros Hall. rewrite forallb_forall in Hall. rewrite (Hall x Hin) in IH. discriminate IH.
  - rewrite implies_test_any in H. rewrite eval_any_existsb.
    destruct l as [|y l]; [discriminate H|].
    apply not_true_is_false. intros Hex. apply existsb_exists in Hex. destruct Hex as [x [Hin Hx]].
    rewrite forallb_forall in H. rewrite Forall_forall in IH. rewrite (IH x Hin (H x Hin)) in Hx. discriminate Hx.
Qed.

(* A condition without target_feature atoms does not look at bc_tf. *)
Lemma eval_cfg_norm : forall c bc, cfg_tf_free c = true -> eval_cfg bc c = eval_cfg (norm_bc bc) c.
Proof.
  intros c bc. induction c as [|a|f|f|f|l IH|l IH|c IH] using cfgexp_ind'; intros H; try reflexivity.
  - discriminate H.
  - rewrite tf_free_all in H. rewrite !eval_all_forallb. rewrite forallb_forall in H. rewrite Forall_forall in IH.
    induction l as [|x r IHr]; [reflexivity|]. cbn [forallb].
    rewrite (IH x (or_introl eq_refl) (H x (or_introl eq_refl))). f_equal.
    apply IHr; intros y Hy; [apply IH | apply H]; right; exact Hy.
  - rewrite tf_free_any in H. rewrite !eval_any_existsb. rewrite forallb_forall in H. rewrite Forall_forall in IH.
    induction l as [|x r IHr]; [reflexivity|]. cbn [existsb].
    rewrite (IH x (or_introl eq_refl) (H x (or_introl eq_refl))). f_equal.
    apply IHr; intros y Hy; [apply IH | apply H]; right; exact Hy.
  - cbn [cfg_tf_free] in H. cbn [eval_cfg]. rewrite (IH H). reflexivity.
Qed.

Lemma norm_in_all_configs : forall bc, In (norm_bc bc) all_configs.
Proof.
  intros [a n s tf]. unfold norm_bc. cbn [bc_arch bc_nightly bc_std].
  destruct a, n, s; cbn; auto 20.
Qed.

Lemma forallb_ext_in : forall (A : Type) (f g : A -> bool) (l : list A),
  (forall x, In x l -> f x = g x) -> forallb f l = forallb g l.
Proof.
  intros A f g l H. induction l as [|x r IH]; [reflexivity|]. cbn [forallb].
  rewrite (H x (or_introl eq_refl)). f_equal. apply IH. intros y Hy. apply H. right. exact Hy.
Qed.

Lemma existsb_ext_in : forall (A : Type) (f g : A -> bool) (l : list A),
  (forall x, In x l -> f x = g x) -> existsb f l = existsb g l.
Proof.
  intros A f g l H. induction l as [|x r IH]; [reflexivity|]. cbn [existsb].
  rewrite (H x (or_introl eq_refl)). f_equal. apply IH. intros y Hy. apply H. right. exact Hy.
Qed.

Lemma flat_map_ext_in : forall (A B : Type) (f g : A -> list B) (l : list A),
  (forall x, In x l -> f x = g x) -> flat_map f l = flat_map g l.
Proof.
  intros A B f g l H. induction l as [|x r IH]; [reflexivity|]. cbn [flat_map].
  rewrite (H x (or_introl eq_refl)). f_equal. apply IH. intros y Hy. apply H. right. exact Hy.
Qed.

(** * Well-formed graphs are evaluated identically under [bc] and [norm_bc bc] *)

Section Norm.
  Variable g : cgraph.
  Hypothesis WF : graph_wf g = true.

  Lemma wf_items : forall it, In it (cg_items g) -> item_wf g it = true.
  Proof.
    intros it Hin. pose proof WF as W. unfold graph_wf in W.
    apply andb_prop in W. destruct W as [W _]. apply andb_prop in W. destruct W as [W _].
    apply andb_prop in W. destruct W as [W _]. apply andb_prop in W. destruct W as [W _].
    rewrite forallb_forall in W. exact (W it Hin).
  Qed.

  Lemma wf_attrs : forall a, In a (cg_attrs g) -> attr_wf a = true.
  Proof.
    intros a Hin. pose proof WF as W. unfold graph_wf in W.
    apply andb_prop in W. destruct W as [W _]. apply andb_prop in W. destruct W as [W _].
    apply andb_prop in W. destruct W as [_ W].
    rewrite forallb_forall in W. exact (W a Hin).
  Qed.

  Lemma item_active_norm : forall bc it, In it (cg_items g) ->
    item_active g bc it = item_active g (norm_bc bc) it.
  Proof.
    intros bc it Hin. pose proof (wf_items it Hin) as W. unfold item_wf in W. unfold item_active, item_guards.
    destruct (module_guards g (depth_fuel g) (it_mod it)) as [l|]; [|discriminate W].
    destruct (it_test it).
    - apply andb_prop in W. destruct W as [W _]. apply existsb_exists in W. destruct W as [c [Hc Ht]].
      assert (F : forall b, forallb (eval_cfg b) (it_cfg it :: l) = false).
      { intros b. apply not_true_is_false. intros Hall. rewrite forallb_forall in Hall.
        specialize (Hall c Hc). rewrite (implies_test_sound c b Ht) in Hall. discriminate Hall. }
      rewrite !F. reflexivity.
    - apply andb_prop in W. destruct W as [W _]. rewrite forallb_forall in W.
      apply forallb_ext_in. intros c Hc. apply eval_cfg_norm.
      specialize (W c Hc). apply andb_prop in W. tauto.
  Qed.

  Lemma test_item_inactive : forall bc it, In it (cg_items g) -> it_test it = true -> item_active g bc it = false.
  Proof.
    intros bc it Hin Ht. pose proof (wf_items it Hin) as W. unfold item_wf in W. unfold item_active, item_guards.
    destruct (module_guards g (depth_fuel g) (it_mod it)) as [l|]; [|discriminate W].
    rewrite Ht in W. apply andb_prop in W. destruct W as [W _]. apply existsb_exists in W. destruct W as [c [Hc Hc']].
    apply not_true_is_false. intros Hall. rewrite forallb_forall in Hall.
    specialize (Hall c Hc). rewrite (implies_test_sound c bc Hc') in Hall. discriminate Hall.
  Qed.

  Lemma mention_cfg_norm : forall bc it m, In it (cg_items g) -> In m (it_mentions it) ->
    eval_cfg bc (mn_cfg m) = eval_cfg (norm_bc bc) (mn_cfg m).
  Proof.
    intros bc it m Hin Hm. pose proof (wf_items it Hin) as W. unfold item_wf in W.
    destruct (module_guards g (depth_fuel g) (it_mod it)) as [l|]; [|discriminate W].
    destruct (it_test it).
    - apply andb_prop in W. destruct W as [_ W]. destruct (it_mentions it); [destruct Hm | discriminate W].
    - apply andb_prop in W. destruct W as [_ W]. rewrite forallb_forall in W. specialize (W m Hm).
      apply andb_prop in W. apply eval_cfg_norm. tauto.
  Qed.

  Lemma all_active_norm : forall bc p, all_active g bc p = all_active g (norm_bc bc) p.
  Proof.
    intros bc p. unfold all_active. cbv zeta. apply forallb_ext_in. intros it Hin.
    rewrite <- (item_active_norm bc it Hin). f_equal. f_equal.
    apply forallb_ext_in. intros m Hm. rewrite <- (mention_cfg_norm bc it m Hin Hm). reflexivity.
  Qed.

  Lemma attr_active_norm : forall bc a, In a (cg_attrs g) -> attr_active bc a = attr_active (norm_bc bc) a.
  Proof.
    intros bc a Hin. unfold attr_active. apply eval_cfg_norm. pose proof (wf_attrs a Hin) as W.
    unfold attr_wf in W. apply andb_prop in W. tauto.
  Qed.

  Lemma has_no_std_norm : forall bc, has_no_std g bc = has_no_std g (norm_bc bc).
  Proof.
    intros bc. unfold has_no_std. apply existsb_ext_in. intros a Hin. rewrite <- (attr_active_norm bc a Hin). reflexivity.
  Qed.

  Lemma gates_norm : forall bc, active_feature_gates g bc = active_feature_gates g (norm_bc bc).
  Proof.
    intros bc. unfold active_feature_gates. apply flat_map_ext_in. intros a Hin.
    rewrite <- (attr_active_norm bc a Hin). reflexivity.
  Qed.

  Lemma wf_modules : forall im, In im (enumerate 0 (cg_modules g)) -> module_wf g im = true.
  Proof.
    intros im Hin. pose proof WF as W. unfold graph_wf in W.
    apply andb_prop in W. destruct W as [W _]. apply andb_prop in W. destruct W as [W _].
    apply andb_prop in W. destruct W as [W _]. apply andb_prop in W. destruct W as [_ W].
    rewrite forallb_forall in W. exact (W im Hin).
  Qed.

  (* A module the translator did not descend into ("test-only") is compiled in no modelled configuration. *)
  Lemma test_module_inactive : forall bc i m, In (i, m) (enumerate 0 (cg_modules g)) -> md_test m = true ->
    exists gs, module_guards g (depth_fuel g) i = Some gs /\ forallb (eval_cfg bc) gs = false.
  Proof.
    intros bc i m Hin Ht. pose proof (wf_modules (i, m) Hin) as W. unfold module_wf in W.
    destruct (module_guards g (depth_fuel g) i) as [gs|]; [|discriminate W].
    exists gs. split; [reflexivity|]. rewrite Ht in W. apply existsb_exists in W. destruct W as [c [Hc Hc']].
    apply not_true_is_false. intros Hall. rewrite forallb_forall in Hall.
    specialize (Hall c Hc). rewrite (implies_test_sound c bc Hc') in Hall. discriminate Hall.
  Qed.

  Lemma check_nostd_norm : forall bc, check_nostd g bc = check_nostd g (norm_bc bc).
  Proof.
    intros bc. unfold check_nostd. rewrite <- (has_no_std_norm bc), <- (all_active_norm bc). destruct bc; reflexivity.
  Qed.

  Lemma check_noalloc_norm : forall bc, check_noalloc g bc = check_noalloc g (norm_bc bc).
  Proof.
    intros bc. unfold check_noalloc. rewrite (all_active_norm bc). destruct bc; reflexivity.
  Qed.

  Lemma check_nostd_attr_norm : forall bc, check_nostd_attr g bc = check_nostd_attr g (norm_bc bc).
  Proof.
    intros bc. unfold check_nostd_attr. rewrite <- (has_no_std_norm bc). destruct bc; reflexivity.
  Qed.

  Lemma check_gates_norm : forall bc, check_gates g bc = check_gates g (norm_bc bc).
  Proof.
    intros bc. unfold check_gates. rewrite <- (gates_norm bc). destruct bc; reflexivity.
  Qed.
End Norm.

(** * From the boolean checkers to statements *)

Lemma check_all_spec : forall g, check_all g = true ->
  graph_wf g = true /\ check_manifest g = true /\
  forall bc, check_nostd g bc = true /\ check_noalloc g bc = true /\ check_gates g bc = true
             /\ check_nostd_attr g bc = true.
Proof.
  intros g H. unfold check_all in H. apply andb_prop in H. destruct H as [H Hc].
  apply andb_prop in H. destruct H as [Hwf Hm]. split; [exact Hwf|]. split; [exact Hm|].
  intros bc. rewrite forallb_forall in Hc. specialize (Hc (norm_bc bc) (norm_in_all_configs bc)).
  apply andb_prop in Hc. destruct Hc as [Hc Hx]. apply andb_prop in Hc. destruct Hc as [Hc Hg].
  apply andb_prop in Hc. destruct Hc as [Hn Ha].
  rewrite (check_nostd_norm g Hwf bc), (check_noalloc_norm g Hwf bc), (check_gates_norm g Hwf bc),
    (check_nostd_attr_norm g Hwf bc). auto.
Qed.

Lemma all_active_spec : forall g bc p, all_active g bc p = true ->
  forall it, In it (cg_items g) -> item_active g bc it = true ->
    p (classify_item it) = true /\
    forall m, In m (it_mentions it) -> eval_cfg bc (mn_cfg m) = true -> p (classify g m) = true.
Proof.
  intros g bc p H it Hin Hact. unfold all_active in H. cbv zeta in H. rewrite forallb_forall in H.
  specialize (H it Hin). rewrite Hact in H. cbn [negb orb] in H. apply andb_prop in H. destruct H as [Hi Hm].
  split; [exact Hi|]. intros m Hmin Hcfg. rewrite forallb_forall in Hm. specialize (Hm m Hmin).
  rewrite Hcfg in Hm. cbn [negb orb] in Hm. exact Hm.
Qed.

Lemma class_core_only_spec : forall c, class_core_only c = true -> c = ClCore \/ c = ClCrate.
Proof. intros c H. destruct c; try discriminate H; auto. Qed.

Definition noalloc_class (bc : buildcfg) (c : mclass) : Prop :=
  match c with ClCore | ClCrate => True | ClStdAudited => bc_std bc = true | _ => False end.

Lemma class_noalloc_spec : forall bc c, class_noalloc bc c = true -> noalloc_class bc c.
Proof. intros bc c H. destruct c; cbn in *; try discriminate H; auto. Qed.

(* A path whose class is core/crate and whose root is an external crate (sysroot, Cargo.toml, extern crate)
   is rooted in `core`. *)
Lemma core_only_root : forall g m, (mn_kind m = MkPath \/ mn_kind m = MkGlobal) ->
  class_core_only (classify g m) = true -> is_external_root g (mn_root m) = true -> mn_root m = "core".
Proof.
  intros g m Hk Hc Hext. unfold classify, classify_e in Hc. unfold is_external_root in Hext.
  assert (G : forall gl, class_core_only (classify_root_e (mk_env g) gl (mn_root m) (mn_path m)) = true -> mn_root m = "core").
  { intros gl. unfold classify_root_e.
    destruct (String.eqb (mn_root m) "core") eqn:E1; [intros _; apply String.eqb_eq; exact E1|].
    destruct (String.eqb (mn_root m) "alloc"); [intros X; discriminate X|].
    destruct (String.eqb (mn_root m) "std"); [destruct (mem_string (mn_path m) audited_std_paths); intros X; discriminate X|].
    rewrite Hext. intros X; discriminate X. }
  destruct Hk as [Hk|Hk]; rewrite Hk in Hc; eapply G; exact Hc.
Qed.

(** * 2. The graph regenerated from /repo *)

Lemma crate_check : check_all crate_graph = true.
Proof. vm_compute. reflexivity. Qed.

Lemma crate_wf : graph_wf crate_graph = true.
Proof. exact (proj1 (check_all_spec _ crate_check)). Qed.

Lemma crate_manifest : check_manifest crate_graph = true.
Proof. exact (proj1 (proj2 (check_all_spec _ crate_check))). Qed.

(** * 3. The statements *)

Lemma nostd_holds : forall bc, bc_std bc = false ->
  has_no_std crate_graph bc = true /\
  forall it, In it (cg_items crate_graph) -> item_active crate_graph bc it = true ->
    (classify_item it = ClCore \/ classify_item it = ClCrate) /\
    forall m, In m (it_mentions it) -> eval_cfg bc (mn_cfg m) = true ->
      (classify crate_graph m = ClCore \/ classify crate_graph m = ClCrate)
      /\ ((mn_kind m = MkPath \/ mn_kind m = MkGlobal) ->
          is_external_root crate_graph (mn_root m) = true -> mn_root m = "core").
Proof.
  intros bc Hstd. destruct (proj2 (proj2 (check_all_spec _ crate_check)) bc) as [Hn _].
  unfold check_nostd in Hn. rewrite Hstd in Hn. cbn [orb] in Hn. apply andb_prop in Hn. destruct Hn as [Hns Hall].
  split; [exact Hns|]. intros it Hin Hact. destruct (all_active_spec _ _ _ Hall it Hin Hact) as [Hi Hm].
  split; [apply class_core_only_spec; exact Hi|]. intros m Hmin Hcfg. specialize (Hm m Hmin Hcfg).
  split; [apply class_core_only_spec; exact Hm|]. intros Hk Hext. exact (core_only_root _ _ Hk Hm Hext).
Qed.

Lemma noalloc_holds : forall bc it, In it (cg_items crate_graph) -> item_active crate_graph bc it = true ->
  noalloc_class bc (classify_item it) /\
  forall m, In m (it_mentions it) -> eval_cfg bc (mn_cfg m) = true -> noalloc_class bc (classify crate_graph m).
Proof.
  intros bc it Hin Hact. destruct (proj2 (proj2 (check_all_spec _ crate_check)) bc) as [_ [Ha _]].
  unfold check_noalloc in Ha. destruct (all_active_spec _ _ _ Ha it Hin Hact) as [Hi Hm].
  split; [apply class_noalloc_spec; exact Hi|]. intros m Hmin Hcfg. apply class_noalloc_spec. exact (Hm m Hmin Hcfg).
Qed.

Lemma manifest_spec : forall g, check_manifest g = true ->
  runtime_deps g = [] /\ cg_build_script g = false /\ cg_proc_macro g = false /\
  feature_enables g "std" = [] /\ mem_string "std" (feature_enables g "default") = true /\
  mem_string "std" (feature_enables g "nightly") = false.
Proof.
  intros g H. unfold check_manifest in H.
  repeat match type of H with (_ && _) = true => apply andb_prop in H; let H' := fresh "H" in destruct H as [H H'] end.
  repeat match goal with X : negb _ = true |- _ => apply negb_true_iff in X end.
  destruct (runtime_deps g); [|discriminate]. destruct (feature_enables g "std"); [|discriminate].
  repeat split; assumption.
Qed.

Lemma deps_hold :
  (forall d, In d (cg_deps crate_graph) -> dp_dev d = true) /\
  cg_build_script crate_graph = false /\ cg_proc_macro crate_graph = false /\
  feature_enables crate_graph "std" = [] /\ mem_string "std" (feature_enables crate_graph "default") = true /\
  mem_string "std" (feature_enables crate_graph "nightly") = false.
Proof.
  destruct (manifest_spec _ crate_manifest) as [R Rest]. split; [|exact Rest].
  intros d Hd. destruct (dp_dev d) eqn:E; [reflexivity|]. exfalso.
  assert (In d (runtime_deps crate_graph)) as X by (unfold runtime_deps; apply filter_In; rewrite E; auto).
  rewrite R in X. exact X.
Qed.

Lemma test_only_holds : forall bc it, In it (cg_items crate_graph) -> it_test it = true ->
  item_active crate_graph bc it = false.
Proof. intros bc it. exact (test_item_inactive _ crate_wf bc it). Qed.

Lemma test_modules_hold : forall bc i m, In (i, m) (enumerate 0 (cg_modules crate_graph)) -> md_test m = true ->
  exists gs, module_guards crate_graph (depth_fuel crate_graph) i = Some gs /\ forallb (eval_cfg bc) gs = false.
Proof. intros bc i m. exact (test_module_inactive _ crate_wf bc i m). Qed.

Lemma gates_hold : forall bc, bc_nightly bc = false -> active_feature_gates crate_graph bc = [].
Proof.
  intros bc Hn. destruct (proj2 (proj2 (check_all_spec _ crate_check)) bc) as [_ [_ [Hg _]]].
  unfold check_gates in Hg. rewrite Hn in Hg. cbn [orb] in Hg.
  destruct (active_feature_gates crate_graph bc); [reflexivity | discriminate Hg].
Qed.

(* `#![no_std]` is in force exactly when the cargo feature `std` is off. *)
Lemma nostd_exact_holds : forall bc, has_no_std crate_graph bc = negb (bc_std bc).
Proof.
  intros bc. destruct (proj2 (proj2 (check_all_spec _ crate_check)) bc) as [_ [_ [_ Hx]]].
  unfold check_nostd_attr in Hx. apply Bool.eqb_prop. exact Hx.
Qed.

(* The only `extern crate` declaration compiled in any configuration names `core`: neither `alloc` nor `std` nor
   any other crate is pulled into the extern prelude, with or without cfg(feature = "std"). *)
Lemma extern_crate_holds : forall bc it, In it (cg_items crate_graph) -> item_active crate_graph bc it = true ->
  it_kind it = IExternCrate -> it_name it = "core".
Proof.
  intros bc it Hin Hact Hk. destruct (noalloc_holds bc it Hin Hact) as [Hc _].
  unfold classify_item in Hc. rewrite Hk in Hc.
  destruct (String.eqb (it_name it) "core") eqn:E; [apply String.eqb_eq; exact E|].
  destruct (String.eqb (it_name it) "alloc"); [destruct Hc|].
  destruct (String.eqb (it_name it) "std"); destruct Hc.
Qed.
