(* End-to-end: the SAFE API meets the specification under every dispatch outcome.

   For every safe routine of the regenerated tables (safe_*.rs), both forms, every build configuration, every
   outcome of the is_*_available predicates (arbitrary — also combinations no CPU has), release and debug builds:
   if the call passes the wrapper's generated assert list, then WHICHEVER slot the dispatch chain selects, the
   export sitting in that slot is the routine of the same element type and operation on that slot's back end
   (C09_slots), it is run with dims = len a (C01: the asserts entail the fit), and the result of the kernel on
   that back end's register model meets the executable specification (C02/C03/C05: SpecLink / FloatSpecLink).
   A call that does not pass the assert list panics (by definition of [run_safe_core]).
   This composes the translator-generated tables, the dispatch chain, the kernel model and the register
   models into one statement about [Model/Safe.run_safe]. *)
From Coq Require Import ZArith List Arith Bool String Lia.
From CF Require Import Base.Mem Model.Tables Model.TableSem Model.Prim Model.SimdApi Model.Kernels Model.Regs
     Model.Exports Model.Safe Model.Spec.
From CF Require Import Proofs.TableProofs Proofs.FactsSafeSlots Proofs.FactsAsserts Proofs.FeatureLemmas
     Proofs.KernelBounds Proofs.ReduceCorrect Proofs.SpecLink Proofs.FloatSpecLink Proofs.BackendTable.
From CF Require Import Gen.GenExports Gen.GenSafe Gen.GenMacros Gen.GenDispatch.
Import ListNotations.

(* an export-level outcome meets a specification result *)
Definition xmeets {T} (o : xoutcome T) (s : sres T) : Prop :=
  match o with
  | XOk r res' _ =>
      match s, r with
      | SVec l, RUnit => res' = l
      | SVal v, RValue x => x = v
      | SUnspecified, _ => True
      | _, _ => False
      end
  | XPanicDiv => s = SPanic \/ s = SUnspecified
  | _ => False
  end.

Lemma meets_xmeets {T} (m0 : mem T) o s : meets m0 o s -> xmeets (xo o) s.
Proof.
  unfold meets, xmeets, xo. destruct o as [r m| m | |]; auto.
  - intros [_ H]. exact H.
  - intros [_ H]. exact H.
Qed.

(* every mandatory link of the chain is the fallback (reflection over the generated chain) *)
Lemma mandatory_is_fallback :
  forallb (fun c => ce_optional c || slot_eqb (ce_slot c) SFallback) dispatch_chain = true.
Proof. vm_compute. reflexivity. Qed.

Lemma select_chain_supplied chain bc p s x :
  forallb (fun c => ce_optional c || slot_eqb (ce_slot c) SFallback) chain = true ->
  select_chain chain bc p s = Some x -> is_supplied s x = true.
Proof.
  induction chain as [|c chain IH]; cbn [select_chain forallb]; [discriminate|].
  intros Hm. apply andb_true_iff in Hm. destruct Hm as [Hc Hm].
  destruct ((negb (ce_optional c) || is_supplied s (ce_slot c)) && eval_cfg bc (ce_cfg c)
            && forallb (pout p) (ce_guard c)) eqn:E.
  - intros H. injection H as <-. apply andb_true_iff in E. destruct E as [E _].
    apply andb_true_iff in E. destruct E as [E _]. apply orb_true_iff in E. destruct E as [E|E]; [|exact E].
    destruct (ce_optional c); [discriminate|]. cbn [orb] in Hc. apply slot_eqb_eq in Hc. rewrite Hc. reflexivity.
  - apply IH. exact Hm.
Qed.

Lemma param_eqb_eq a b : param_eqb a b = true -> a = b.
Proof. destruct a, b; cbn; congruence. Qed.

Lemma list_param_eqb_eq a b : list_param_eqb a b = true -> a = b.
Proof.
  unfold list_param_eqb. intros H. apply andb_true_iff in H. destruct H as [Hl Hf]. apply Nat.eqb_eq in Hl.
  revert b Hl Hf. induction a as [|x a IH]; intros [|y b] Hl Hf; cbn in Hl; try lia; [reflexivity|].
  cbn [combine forallb fst snd] in Hf. apply andb_true_iff in Hf. destruct Hf as [E Hf].
  apply param_eqb_eq in E. subst y. f_equal. apply IH; [lia | exact Hf].
Qed.

Lemma slot_in_all x : In x all_slots.
Proof. destruct x; cbn; auto 6. Qed.

Lemma slot_eqb_refl x : slot_eqb x x = true.
Proof. destruct x; reflexivity. Qed.

Lemma find_slot_key {A} (g : slot -> A) x :
  find (fun q => slot_eqb (fst q) x) (map (fun y => (y, g y)) all_slots) = Some (x, g x).
Proof. destruct x; reflexivity. Qed.

Lemma supplied_of_find sf x :
  x <> SFallback -> is_supplied (supplied_of sf) x = true ->
  exists d, find (fun d => slot_eqb (ds_slot d) x) (sf_dispatch sf) = Some d.
Proof.
  intros Hx Hs.
  assert (E : existsb (fun d => slot_eqb (ds_slot d) x) (sf_dispatch sf) = true)
    by (destruct x; cbn in Hs; try exact Hs; contradiction).
  apply existsb_exists in E. destruct E as [d [Hd E]].
  destruct (find (fun d => slot_eqb (ds_slot d) x) (sf_dispatch sf)) as [d'|] eqn:F; [eauto|].
  exfalso. pose proof (find_none _ _ F d Hd) as N. cbv beta in N. rewrite E in N. discriminate.
Qed.

(* The export in the selected slot: same element type, same operation, the slot's back end. *)
Lemma selected_export s f bc p x m sf k :
  In s safe_entries ->
  find_safe_macro safe_macros (s_macro s) = Some m -> safe_fn_of m f = Some sf -> safe_kernel s = Some k ->
  select_chain dispatch_chain bc p (supplied_of sf) = Some x ->
  exists e, slot_export exports m s f x = Some e
            /\ e_ty e = s_ty s /\ e_op e = k /\ e_reg e = allowed_backend x (s_ty s).
Proof.
  intros Hs Hm Hsf Hk Hsel.
  destruct (C09_slots_proof s Hs) as [m' [k' [Hm' [Hk' Hslots]]]].
  rewrite Hm in Hm'. injection Hm' as <-. rewrite Hk in Hk'. injection Hk' as <-.
  destruct (Hslots f) as [_ [sf' [Hsf' [[dfb [Hdfb Efb]] Hd]]]].
  rewrite Hsf in Hsf'. injection Hsf' as <-.
  pose proof (select_chain_supplied _ _ _ _ _ mandatory_is_fallback Hsel) as Hsup.
  assert (Hfind : exists d, find (fun d => slot_eqb (ds_slot d) x) (sf_dispatch sf) = Some d).
  { destruct (slot_eqb x SFallback) eqn:Ex.
    - apply slot_eqb_eq in Ex. subst x.
      destruct (find (fun d => slot_eqb (ds_slot d) SFallback) (sf_dispatch sf)) as [d'|] eqn:F; [eauto|].
      exfalso. pose proof (find_none _ _ F dfb Hdfb) as N. cbv beta in N. rewrite Efb in N. discriminate.
    - apply supplied_of_find; [|exact Hsup]. intros ->. discriminate Ex. }
  destruct Hfind as [d Hfd]. pose proof (find_some _ _ Hfd) as [Hdin Hdx]. apply slot_eqb_eq in Hdx.
  destruct (Hd d Hdin) as [n [e [Hn [He [Ht [Ho Hr]]]]]].
  exists e. unfold slot_export. rewrite Hsf, Hfd, Hn, He. rewrite Hdx in Hr. auto.
Qed.

Section Safe.
  Variables (s : safe_entry) (f : form) (bc : buildcfg) (p : pouts) (debug : bool).
  Variables (m : safe_macro) (sf : safe_fn) (k : kernel) (x : slot).
  Hypothesis Hs : In s safe_entries.
  Hypothesis Hm : find_safe_macro safe_macros (s_macro s) = Some m.
  Hypothesis Hsf : safe_fn_of m f = Some sf.
  Hypothesis Hk : safe_kernel s = Some k.
  Hypothesis Hsel : select_chain dispatch_chain bc p (supplied_of sf) = Some x.
  Hypothesis Hx : x <> SNeon.

  Lemma macro_in : In m safe_macros.
  Proof. unfold find_safe_macro in Hm. apply find_some in Hm. tauto. Qed.

  Lemma params_are_kernel_params : sf_params sf = kernel_params k.
  Proof.
    pose proof (forallb_In _ _ safe_entries_ok s Hs) as H. unfold safe_entry_ok in H.
    rewrite Hm, Hk in H. rewrite !andb_true_iff in H. destruct H as [[[_ Hc] Ha] _].
    assert (Hf : safe_fn_ok exports m s k f = true) by (destruct f; assumption).
    unfold safe_fn_ok in Hf. rewrite Hsf in Hf. rewrite !andb_true_iff in Hf.
    destruct Hf as [[[[[_ Hp] _] _] _] _]. apply list_param_eqb_eq. exact Hp.
  Qed.

  (* what passing the assert list gives *)
  Lemma asserts_give_fit {T} (DIMS : nat) (a b res : list T) :
    asserts_pass {| len_a := List.length a; len_b := List.length b; len_r := List.length res; len_dims := DIMS |} (sf_asserts sf) = true ->
    dims_of f DIMS (List.length a) = List.length a
    /\ (kernel_uses_b k = true -> List.length b = List.length a)
    /\ (kernel_writes k = true -> List.length res = List.length a).
  Proof.
    intros Hp. pose proof (C01_asserts_proof m f sf _ macro_in Hsf Hp) as [F1 [F2 F3]].
    rewrite params_are_kernel_params in F2, F3. cbn [len_a len_b len_r len_dims] in *.
    split; [destruct f; [apply F1; reflexivity | reflexivity]|]. split; assumption.
  Qed.

  Lemma debug_pass {T} (dims : nat) (a b res : list T) :
    dims = List.length a -> (kernel_uses_b k = true -> List.length b = List.length a) ->
    (kernel_writes k = true -> List.length res = List.length a) ->
    debug_asserts_pass k dims (List.length a) (List.length b) (List.length res) = true.
  Proof.
    intros -> Hb Hr. unfold debug_asserts_pass. rewrite Nat.eqb_refl. cbn [andb].
    destruct (kernel_uses_b k) eqn:Eb.
    - rewrite (Hb eq_refl), Nat.eqb_refl. cbn [andb].
      destruct (existsb (kernel_eqb k) _) eqn:Ew; [|reflexivity].
      assert (kernel_writes k = true) by (destruct k; cbn in Ew |- *; congruence).
      rewrite (Hr H), Nat.eqb_refl. reflexivity.
    - cbn [andb]. destruct (existsb (kernel_eqb k) _) eqn:Ew; [|reflexivity].
      assert (kernel_writes k = true) by (destruct k; cbn in Ew |- *; congruence).
      rewrite (Hr H), Nat.eqb_refl. reflexivity.
  Qed.

  (* ------------------------------------------------------------------ integers *)
  Theorem safe_int_meets_spec :
    forall DIMS v a b res,
      is_float (s_ty s) = false -> In k int_spec_kernels ->
      let l := {| len_a := List.length a; len_b := List.length b; len_r := List.length res; len_dims := DIMS |} in
      asserts_pass l (sf_asserts sf) = true ->
      (debug = true -> asserts_pass l (sf_debug_asserts sf) = true) ->
      Forall (in_range (width (s_ty s))) a -> in_range (width (s_ty s)) v ->
      (kernel_uses_b k = true -> Forall (in_range (width (s_ty s))) b) ->
      xmeets (run_safe dispatch_chain run_export_int exports safe_macros s f bc p debug DIMS v a b res)
             (spec_int (is_signed (s_ty s)) (width (s_ty s)) k v a b).
  Proof.
    intros DIMS v a b res Hty Hkin l Hp Hdp Fa Hv Fb.
    destruct (selected_export s f bc p x m sf k Hs Hm Hsf Hk Hsel) as [e [He [Et [Eo Er]]]].
    destruct (asserts_give_fit DIMS a b res Hp) as [Hd [Hb Hr]].
    unfold run_safe, core_of. rewrite Hm, Hsf. unfold run_safe_core.
    cbn [sc_asserts sc_debug_asserts sc_supplied sc_slot_key]. fold l. rewrite Hp. cbn [negb].
    assert (Hdbg : debug && negb (asserts_pass l (sf_debug_asserts sf)) = false).
    { destruct debug; [rewrite (Hdp eq_refl)|]; reflexivity. }
    rewrite Hdbg, Hsel, find_slot_key, He.
    unfold run_export_int, key_export. cbn [e_reg e_ty e_op]. rewrite Et, Eo, Er.
    assert (HR : exists R, int_ops (allowed_backend x (s_ty s)) (s_ty s) = Some R).
    { unfold int_ops. rewrite Hty. destruct x; cbn [allowed_backend]; rewrite ?Hty; try (eexists; reflexivity).
      contradiction. }
    destruct HR as [R HR]. rewrite HR. unfold run_export_gen. rewrite Hd.
    rewrite (debug_pass (List.length a) a b res eq_refl Hb Hr). rewrite andb_false_r.
    apply (meets_xmeets (init_mem a b res)). unfold int_signed.
    apply (int_export_meets_spec _ _ R k a b res v (List.length a) HR Hkin eq_refl Fa Hv).
    - intros Hu. split; [apply Hb; exact Hu | apply Fb; exact Hu].
    - exact Hr.
  Qed.

  (* ------------------------------------------------------------------ floats, element-wise arithmetic *)
  Theorem safe_f32_meets_spec :
    forall DIMS v a b res,
      s_ty s = F32 -> In k float_arith_kernels ->
      let l := {| len_a := List.length a; len_b := List.length b; len_r := List.length res; len_dims := DIMS |} in
      asserts_pass l (sf_asserts sf) = true ->
      (debug = true -> asserts_pass l (sf_debug_asserts sf) = true) ->
      xmeets (run_safe dispatch_chain run_export_f32 exports safe_macros s f bc p debug DIMS v a b res)
             (spec_float k v a b).
  Proof.
    intros DIMS v a b res Hty Hkin l Hp Hdp.
    destruct (selected_export s f bc p x m sf k Hs Hm Hsf Hk Hsel) as [e [He [Et [Eo Er]]]].
    destruct (asserts_give_fit DIMS a b res Hp) as [Hd [Hb Hr]].
    unfold run_safe, core_of. rewrite Hm, Hsf. unfold run_safe_core.
    cbn [sc_asserts sc_debug_asserts sc_supplied sc_slot_key]. fold l. rewrite Hp. cbn [negb].
    assert (Hdbg : debug && negb (asserts_pass l (sf_debug_asserts sf)) = false).
    { destruct debug; [rewrite (Hdp eq_refl)|]; reflexivity. }
    rewrite Hdbg, Hsel, find_slot_key, He.
    unfold run_export_f32, key_export. cbn [e_reg e_ty e_op]. rewrite Eo, Er.
    assert (HR : exists R, f32_ops (allowed_backend x (s_ty s)) = Some R).
    { rewrite Hty. destruct x; cbn [allowed_backend is_float f32_ops]; try (eexists; reflexivity). contradiction. }
    destruct HR as [R HR]. rewrite HR. unfold run_export_gen. rewrite Hd.
    rewrite (debug_pass (List.length a) a b res eq_refl Hb Hr). rewrite andb_false_r.
    apply (meets_xmeets (init_mem a b res)).
    assert (Hw : kernel_writes k = true) by (unfold float_arith_kernels in Hkin; cbn [In] in Hkin;
      repeat (destruct Hkin as [<-|Hkin]; [reflexivity|]); contradiction).
    apply (f32_export_meets_spec _ R k a b res v (List.length a) HR Hkin eq_refl (Hr Hw) Hb).
  Qed.

  Theorem safe_f64_meets_spec :
    forall DIMS v a b res,
      s_ty s = F64 -> In k float_arith_kernels ->
      let l := {| len_a := List.length a; len_b := List.length b; len_r := List.length res; len_dims := DIMS |} in
      asserts_pass l (sf_asserts sf) = true ->
      (debug = true -> asserts_pass l (sf_debug_asserts sf) = true) ->
      xmeets (run_safe dispatch_chain run_export_f64 exports safe_macros s f bc p debug DIMS v a b res)
             (spec_float k v a b).
  Proof.
    intros DIMS v a b res Hty Hkin l Hp Hdp.
    destruct (selected_export s f bc p x m sf k Hs Hm Hsf Hk Hsel) as [e [He [Et [Eo Er]]]].
    destruct (asserts_give_fit DIMS a b res Hp) as [Hd [Hb Hr]].
    unfold run_safe, core_of. rewrite Hm, Hsf. unfold run_safe_core.
    cbn [sc_asserts sc_debug_asserts sc_supplied sc_slot_key]. fold l. rewrite Hp. cbn [negb].
    assert (Hdbg : debug && negb (asserts_pass l (sf_debug_asserts sf)) = false).
    { destruct debug; [rewrite (Hdp eq_refl)|]; reflexivity. }
    rewrite Hdbg, Hsel, find_slot_key, He.
    unfold run_export_f64, key_export. cbn [e_reg e_ty e_op]. rewrite Eo, Er.
    assert (HR : exists R, f64_ops (allowed_backend x (s_ty s)) = Some R).
    { rewrite Hty. destruct x; cbn [allowed_backend is_float f64_ops]; try (eexists; reflexivity). contradiction. }
    destruct HR as [R HR]. rewrite HR. unfold run_export_gen. rewrite Hd.
    rewrite (debug_pass (List.length a) a b res eq_refl Hb Hr). rewrite andb_false_r.
    apply (meets_xmeets (init_mem a b res)).
    assert (Hw : kernel_writes k = true) by (unfold float_arith_kernels in Hkin; cbn [In] in Hkin;
      repeat (destruct Hkin as [<-|Hkin]; [reflexivity|]); contradiction).
    apply (f64_export_meets_spec _ R k a b res v (List.length a) HR Hkin eq_refl (Hr Hw) Hb).
  Qed.

  (* a call the assert list rejects panics, whatever else *)
  Theorem safe_mismatch_panics {T} (rx : export -> form -> bool -> nat -> T -> list T -> list T -> list T -> xoutcome T) :
    forall DIMS v a b res,
      asserts_pass {| len_a := List.length a; len_b := List.length b; len_r := List.length res; len_dims := DIMS |} (sf_asserts sf) = false ->
      run_safe dispatch_chain rx exports safe_macros s f bc p debug DIMS v a b res = XPanicAssert.
  Proof.
    intros DIMS v a b res Hp. unfold run_safe, core_of. rewrite Hm, Hsf. unfold run_safe_core.
    cbn [sc_asserts]. rewrite Hp. reflexivity.
  Qed.
End Safe.

(* ------------------------------------------------------------------ per-row (C11): what a row's NAME announces is what
   the row computes.  For every export row with an integer element type on a modelled register, called as documented
   (dims = len a; len b, len result as the kernel needs), in release and debug builds: the outcome meets the
   specification of the row's operation — and by C11_names the exported identifier spells exactly that element type,
   back end and operation. *)
Lemma debug_pass_gen {T} k dims (a b res : list T) :
  dims = List.length a -> (kernel_uses_b k = true -> List.length b = List.length a) ->
  (kernel_writes k = true -> List.length res = List.length a) ->
  debug_asserts_pass k dims (List.length a) (List.length b) (List.length res) = true.
Proof.
  intros -> Hb Hr. unfold debug_asserts_pass. rewrite Nat.eqb_refl. cbn [andb].
  destruct (kernel_uses_b k) eqn:Eb.
  - rewrite (Hb eq_refl), Nat.eqb_refl. cbn [andb].
    destruct (existsb (kernel_eqb k) _) eqn:Ew; [|reflexivity].
    assert (kernel_writes k = true) by (destruct k; cbn in Ew |- *; congruence).
    rewrite (Hr H), Nat.eqb_refl. reflexivity.
  - cbn [andb]. destruct (existsb (kernel_eqb k) _) eqn:Ew; [|reflexivity].
    assert (kernel_writes k = true) by (destruct k; cbn in Ew |- *; congruence).
    rewrite (Hr H), Nat.eqb_refl. reflexivity.
Qed.

Theorem export_row_int_meets_spec :
  forall e f debug DIMS v a b res,
    is_float (e_ty e) = false -> e_reg e <> Neon -> In (e_op e) int_spec_kernels ->
    dims_of f DIMS (List.length a) = List.length a ->
    (kernel_uses_b (e_op e) = true -> List.length b = List.length a) ->
    (kernel_writes (e_op e) = true -> List.length res = List.length a) ->
    Forall (in_range (width (e_ty e))) a -> in_range (width (e_ty e)) v ->
    (kernel_uses_b (e_op e) = true -> Forall (in_range (width (e_ty e))) b) ->
    xmeets (run_export_int e f debug DIMS v a b res)
           (spec_int (is_signed (e_ty e)) (width (e_ty e)) (e_op e) v a b).
Proof.
  intros e f debug DIMS v a b res Hty Hreg Hk Hd Hb Hr Fa Hv Fb.
  unfold run_export_int.
  assert (HR : exists R, int_ops (e_reg e) (e_ty e) = Some R).
  { unfold int_ops. rewrite Hty. destruct (e_reg e); try (eexists; reflexivity). contradiction. }
  destruct HR as [R HR]. rewrite HR. unfold run_export_gen. rewrite Hd.
  rewrite (debug_pass_gen (e_op e) (List.length a) a b res eq_refl Hb Hr). rewrite andb_false_r.
  apply (meets_xmeets (init_mem a b res)). unfold int_signed.
  apply (int_export_meets_spec _ _ R (e_op e) a b res v (List.length a) HR Hk eq_refl Fa Hv).
  - intros Hu. split; [apply Hb; exact Hu | apply Fb; exact Hu].
  - exact Hr.
Qed.

(* C09_result: an accepted safe call returns EXACTLY the outcome of the export sitting in the selected slot - the
   routine of the same element type and operation on that slot's back end - for any element type and any semantics
   [rx] of exports (so every per-export theorem - C02/C03/C04/C05/C06 - transfers to the safe API verbatim). *)
Theorem safe_run_is_export_run {T}
        (rx : export -> form -> bool -> nat -> T -> list T -> list T -> list T -> xoutcome T) :
  forall s f bc p debug m sf k x,
    In s safe_entries -> find_safe_macro safe_macros (s_macro s) = Some m -> safe_fn_of m f = Some sf ->
    safe_kernel s = Some k -> select_chain dispatch_chain bc p (supplied_of sf) = Some x ->
    forall DIMS v a b res,
      let l := {| len_a := List.length a; len_b := List.length b; len_r := List.length res; len_dims := DIMS |} in
      asserts_pass l (sf_asserts sf) = true ->
      (debug = true -> asserts_pass l (sf_debug_asserts sf) = true) ->
      run_safe dispatch_chain rx exports safe_macros s f bc p debug DIMS v a b res
      = rx (key_export (s_ty s, allowed_backend x (s_ty s), k)) f debug DIMS v a b res.
Proof.
  intros s f bc p debug m sf k x Hs Hm Hsf Hk Hsel DIMS v a b res l Hp Hdp.
  destruct (selected_export s f bc p x m sf k Hs Hm Hsf Hk Hsel) as [e [He [Et [Eo Er]]]].
  unfold run_safe, core_of. rewrite Hm, Hsf. unfold run_safe_core.
  cbn [sc_asserts sc_debug_asserts sc_supplied sc_slot_key]. fold l. rewrite Hp. cbn [negb].
  assert (Hdbg : debug && negb (asserts_pass l (sf_debug_asserts sf)) = false).
  { destruct debug; [rewrite (Hdp eq_refl)|]; reflexivity. }
  rewrite Hdbg, Hsel, find_slot_key, He. rewrite Et, Eo, Er. reflexivity.
Qed.

(* An accepted safe call IS the kernel run of the selected back end's register model with dims = len a: every
   kernel-level theorem (C02-C08 on [run_kernel] / the generic_* kernels) transfers to the safe API through this
   equation, for all 19 kernels, under every build configuration and arbitrary predicate outcomes. *)
Section SafeIsKernel.
  Variables (s : safe_entry) (f : form) (bc : buildcfg) (p : pouts) (debug : bool).
  Variables (m : safe_macro) (sf : safe_fn) (k : kernel) (x : slot).
  Hypothesis Hs : In s safe_entries.
  Hypothesis Hm : find_safe_macro safe_macros (s_macro s) = Some m.
  Hypothesis Hsf : safe_fn_of m f = Some sf.
  Hypothesis Hk : safe_kernel s = Some k.
  Hypothesis Hsel : select_chain dispatch_chain bc p (supplied_of sf) = Some x.
  Hypothesis Hx : x <> SNeon.

  Lemma export_gen_is_kernel {T} (ops : option (SimdOps T)) (R : SimdOps T) (Mt : MathOps T) DIMS v (a b res : list T) :
    ops = Some R ->
    asserts_pass {| len_a := List.length a; len_b := List.length b; len_r := List.length res; len_dims := DIMS |} (sf_asserts sf) = true ->
    run_export_gen ops Mt k debug (dims_of f DIMS (List.length a)) v a b res
    = xo (run_kernel R Mt k (List.length a) v (init_mem a b res)).
  Proof.
    intros -> Hp. destruct (asserts_give_fit s f m sf k Hs Hm Hsf Hk DIMS a b res Hp) as [Hd [Hb Hr]].
    unfold run_export_gen. rewrite Hd. rewrite (debug_pass_gen k (List.length a) a b res eq_refl Hb Hr).
    rewrite andb_false_r. reflexivity.
  Qed.

  Theorem safe_int_is_kernel_run :
    forall DIMS v a b res,
      is_float (s_ty s) = false ->
      let l := {| len_a := List.length a; len_b := List.length b; len_r := List.length res; len_dims := DIMS |} in
      asserts_pass l (sf_asserts sf) = true ->
      (debug = true -> asserts_pass l (sf_debug_asserts sf) = true) ->
      exists R, int_ops (allowed_backend x (s_ty s)) (s_ty s) = Some R /\
        run_safe dispatch_chain run_export_int exports safe_macros s f bc p debug DIMS v a b res
        = xo (run_kernel R (int_math (is_signed (s_ty s)) (width (s_ty s))) k (List.length a) v (init_mem a b res)).
  Proof.
    intros DIMS v a b res Hty l Hp Hdp.
    assert (HR : exists R, int_ops (allowed_backend x (s_ty s)) (s_ty s) = Some R).
    { unfold int_ops. rewrite Hty. destruct x; cbn [allowed_backend]; rewrite ?Hty; try (eexists; reflexivity).
      contradiction. }
    destruct HR as [R HR]. exists R. split; [exact HR|].
    rewrite (safe_run_is_export_run run_export_int s f bc p debug m sf k x Hs Hm Hsf Hk Hsel DIMS v a b res Hp Hdp).
    unfold run_export_int, key_export. cbn [e_reg e_ty e_op]. unfold int_signed.
    apply export_gen_is_kernel; assumption.
  Qed.

  Theorem safe_f32_is_kernel_run :
    forall DIMS v a b res,
      s_ty s = F32 ->
      let l := {| len_a := List.length a; len_b := List.length b; len_r := List.length res; len_dims := DIMS |} in
      asserts_pass l (sf_asserts sf) = true ->
      (debug = true -> asserts_pass l (sf_debug_asserts sf) = true) ->
      exists R, f32_ops (allowed_backend x F32) = Some R /\
        run_safe dispatch_chain run_export_f32 exports safe_macros s f bc p debug DIMS v a b res
        = xo (run_kernel R float_math k (List.length a) v (init_mem a b res)).
  Proof.
    intros DIMS v a b res Hty l Hp Hdp.
    assert (HR : exists R, f32_ops (allowed_backend x F32) = Some R).
    { destruct x; cbn [allowed_backend is_float f32_ops]; try (eexists; reflexivity). contradiction. }
    destruct HR as [R HR]. exists R. split; [exact HR|].
    rewrite (safe_run_is_export_run run_export_f32 s f bc p debug m sf k x Hs Hm Hsf Hk Hsel DIMS v a b res Hp Hdp).
    unfold run_export_f32, key_export. cbn [e_reg e_ty e_op]. rewrite Hty.
    apply export_gen_is_kernel; assumption.
  Qed.

  Theorem safe_f64_is_kernel_run :
    forall DIMS v a b res,
      s_ty s = F64 ->
      let l := {| len_a := List.length a; len_b := List.length b; len_r := List.length res; len_dims := DIMS |} in
      asserts_pass l (sf_asserts sf) = true ->
      (debug = true -> asserts_pass l (sf_debug_asserts sf) = true) ->
      exists R, f64_ops (allowed_backend x F64) = Some R /\
        run_safe dispatch_chain run_export_f64 exports safe_macros s f bc p debug DIMS v a b res
        = xo (run_kernel R float_math k (List.length a) v (init_mem a b res)).
  Proof.
    intros DIMS v a b res Hty l Hp Hdp.
    assert (HR : exists R, f64_ops (allowed_backend x F64) = Some R).
    { destruct x; cbn [allowed_backend is_float f64_ops]; try (eexists; reflexivity). contradiction. }
    destruct HR as [R HR]. exists R. split; [exact HR|].
    rewrite (safe_run_is_export_run run_export_f64 s f bc p debug m sf k x Hs Hm Hsf Hk Hsel DIMS v a b res Hp Hdp).
    unfold run_export_f64, key_export. cbn [e_reg e_ty e_op]. rewrite Hty.
    apply export_gen_is_kernel; assumption.
  Qed.
End SafeIsKernel.
