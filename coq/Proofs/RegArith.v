(* Arithmetic facts about the emulated lane operations of Model/Regs.v (statements from
   Proofs/RegArith_TODO.v, proved).  Standard library only; no axioms. *)
From Coq Require Import ZArith List Bool Lia ZifyBool.
From CF Require Import Model.Prim Model.SimdApi Model.Regs.
Import ListNotations.
Local Open Scope Z_scope.

Definition in_range (w z : Z) : Prop := 0 <= z < 2 ^ w.

(* lia extended with division/modulo by constants *)
Local Ltac dlia := Z.div_mod_to_equations; lia.

(** * Generic helpers *)

Lemma pow2_pos w : 0 <= w -> 0 < 2 ^ w.
Proof. intros. apply Z.pow_pos_nonneg; lia. Qed.

Lemma pow2_split w : 0 < w -> 2 ^ w = 2 * 2 ^ (w - 1).
Proof. intros. rewrite <- Z.pow_succ_r by lia. f_equal. lia. Qed.

Lemma list_ind2 {A} (P : list A -> Prop) :
  P [] -> (forall a, P [a]) -> (forall a b l, P l -> P (a :: b :: l)) -> forall l, P l.
Proof.
  intros H0 H1 H2. fix IH 1. intros [|a [|b l]]; [exact H0 | apply H1 | apply H2, IH].
Qed.

Lemma list_ind4 {A} (P : list A -> Prop) :
  P [] -> (forall a, P [a]) -> (forall a b, P [a; b]) -> (forall a b c, P [a; b; c]) ->
  (forall a b c d l, P l -> P (a :: b :: c :: d :: l)) -> forall l, P l.
Proof.
  intros H0 H1 H2 H3 H4. fix IH 1.
  intros [|a [|b [|c [|d l]]]]; [exact H0 | apply H1 | apply H2 | apply H3 | apply H4, IH].
Qed.

Lemma len4_step {A} (a b c d : A) l :
  (length (a :: b :: c :: d :: l) mod 4 = 0)%nat -> (length l mod 4 = 0)%nat.
Proof.
  cbn [length]. intros H.
  replace (S (S (S (S (length l))))) with (length l + 1 * 4)%nat in H by lia.
  rewrite Nat.mod_add in H by lia. exact H.
Qed.

(** * 1. 8-bit multiply through 16-bit words *)

Lemma srai16_8_word16 xl xh :
  in_range 8 xl -> in_range 8 xh ->
  srai16_8 (word16 xl xh) = if xh <? 128 then xh else xh + 65280.
Proof.
  unfold in_range. change (2 ^ 8) with 256. intros Hl Hh.
  unfold srai16_8, word16, wrap, sgn.
  change (2 ^ 16) with 65536. change (2 ^ (16 - 1)) with 32768.
  destruct (Z.ltb_spec (xl + 256 * xh) 32768); destruct (Z.ltb_spec xh 128); dlia.
Qed.

Lemma mul8_word_correct xl xh yl yh :
  in_range 8 xl -> in_range 8 xh -> in_range 8 yl -> in_range 8 yh ->
  mul8_word (word16 xl xh) (word16 yl yh) = word16 (i_mul 8 xl yl) (i_mul 8 xh yh).
Proof.
  intros Hxl Hxh Hyl Hyh.
  unfold mul8_word. rewrite !srai16_8_word16 by assumption.
  unfold in_range in *. change (2 ^ 8) with 256 in *.
  unfold slli16_8, mullo16, blend_odd, i_mul, wrap.
  change (2 ^ 16) with 65536. change (2 ^ 8) with 256.
  unfold word16 at 3. f_equal.
  - unfold word16.
    replace ((xl + 256 * xh) * (yl + 256 * yh))
      with (xl * yl + 256 * (xl * yh + xh * yl + 256 * (xh * yh))) by ring.
    set (p := xl * yl). set (q := xl * yh + xh * yl + 256 * (xh * yh)). dlia.
  - f_equal.
    destruct (Z.ltb_spec xh 128); destruct (Z.ltb_spec yh 128).
    + set (p := xh * yh). dlia.
    + replace (xh * (yh + 65280)) with (xh * yh + 65280 * xh) by ring.
      set (p := xh * yh). dlia.
    + replace ((xh + 65280) * yh) with (xh * yh + 65280 * yh) by ring.
      set (p := xh * yh). dlia.
    + replace ((xh + 65280) * (yh + 65280))
        with (xh * yh + 65280 * (xh + yh) + 65536 * 65025) by ring.
      set (p := xh * yh). dlia.
Qed.

(** * 2. whole register *)

Lemma word16_lo lo hi : in_range 8 lo -> word16 lo hi mod 256 = lo.
Proof. unfold in_range, word16. change (2 ^ 8) with 256. intros. dlia. Qed.

Lemma word16_hi lo hi : in_range 8 lo -> word16 lo hi / 256 = hi.
Proof. unfold in_range, word16. change (2 ^ 8) with 256. intros. dlia. Qed.

Lemma i_mul8_in_range a b : in_range 8 (i_mul 8 a b).
Proof. unfold in_range, i_mul, wrap. change (2 ^ 8) with 256. dlia. Qed.

Lemma mul8_correct (x y : list Z) :
  Forall (in_range 8) x -> Forall (in_range 8) y -> length x = length y ->
  Nat.even (length x) = true ->
  mul8 x y = map2 (i_mul 8) x y.
Proof.
  revert y. induction x as [|a|a b x IH] using list_ind2; intros y Fx Fy Hlen Hev.
  - destruct y; [reflexivity | discriminate].
  - discriminate.
  - destruct y as [|c [|d y]]; try discriminate.
    inversion Fx as [|? ? Ha Fx1]; subst. inversion Fx1 as [|? ? Hb Fx2]; subst.
    inversion Fy as [|? ? Hc Fy1]; subst. inversion Fy1 as [|? ? Hd Fy2]; subst.
    cbn [length] in Hlen. cbn [length Nat.even] in Hev.
    specialize (IH y Fx2 Fy2 ltac:(lia) Hev).
    unfold mul8 in *. cbn [pairs map2]. unfold unpairs in *. cbn [flat_map app].
    rewrite IH. rewrite mul8_word_correct by assumption.
    rewrite word16_lo, word16_hi by apply i_mul8_in_range. reflexivity.
Qed.

(** * 3. 64-bit multiply from 32-bit partial products *)

Lemma mul64_emul_correct x y : in_range 64 x -> in_range 64 y -> mul64_emul x y = i_mul 64 x y.
Proof.
  unfold in_range. intros Hx Hy.
  unfold mul64_emul, i_mul, wrap, lo32, hi32.
  change (2 ^ 64) with 18446744073709551616 in *. change (2 ^ 32) with 4294967296.
  set (xl := x mod 4294967296). set (xh := x / 4294967296).
  set (yl := y mod 4294967296). set (yh := y / 4294967296).
  assert (Ex : x = xl + 4294967296 * xh) by (subst xl xh; dlia).
  assert (Ey : y = yl + 4294967296 * yh) by (subst yl yh; dlia).
  rewrite Ex, Ey. clearbody xl xh yl yh. clear Ex Ey Hx Hy.
  replace ((xl + 4294967296 * xh) * (yl + 4294967296 * yh))
    with (xl * yl + 4294967296 * (xl * yh) + 4294967296 * (xh * yl)
          + 18446744073709551616 * (xh * yh)) by ring.
  set (p := xl * yl). set (q := xl * yh). set (r := xh * yl). set (s := xh * yh).
  clearbody p q r s. dlia.
Qed.

(** * 4. byte blend with a lane-uniform mask *)

Local Ltac pow256 :=
  repeat match goal with
         | |- context [256 ^ Z.of_nat ?k] =>
             let v := eval vm_compute in (256 ^ Z.of_nat k) in
             change (256 ^ Z.of_nat k) with v
         end.

Lemma bytes_reassemble b :
  in_range 64 b ->
  fold_right Z.add 0 (map (fun k => byte_of k b * 256 ^ Z.of_nat k) (seq 0 8)) = b.
Proof.
  unfold in_range. change (2 ^ 64) with 18446744073709551616. intros Hb.
  unfold byte_of. cbn [map seq fold_right]. pow256.
  rewrite Z.div_1_r.
  set (q1 := b / 256).
  replace (b / 65536) with (q1 / 256) by (subst q1; rewrite Z.div_div by lia; reflexivity).
  set (q2 := q1 / 256).
  replace (b / 16777216) with (q2 / 256)
    by (subst q2 q1; rewrite !Z.div_div by lia; reflexivity).
  set (q3 := q2 / 256).
  replace (b / 4294967296) with (q3 / 256)
    by (subst q3 q2 q1; rewrite !Z.div_div by lia; reflexivity).
  set (q4 := q3 / 256).
  replace (b / 1099511627776) with (q4 / 256)
    by (subst q4 q3 q2 q1; rewrite !Z.div_div by lia; reflexivity).
  set (q5 := q4 / 256).
  replace (b / 281474976710656) with (q5 / 256)
    by (subst q5 q4 q3 q2 q1; rewrite !Z.div_div by lia; reflexivity).
  set (q6 := q5 / 256).
  replace (b / 72057594037927936) with (q6 / 256)
    by (subst q6 q5 q4 q3 q2 q1; rewrite !Z.div_div by lia; reflexivity).
  set (q7 := q6 / 256).
  assert (H1 : b = 256 * q1 + b mod 256) by (subst q1; dlia).
  assert (H2 : q1 = 256 * q2 + q1 mod 256) by (subst q2; dlia).
  assert (H3 : q2 = 256 * q3 + q2 mod 256) by (subst q3; dlia).
  assert (H4 : q3 = 256 * q4 + q3 mod 256) by (subst q4; dlia).
  assert (H5 : q4 = 256 * q5 + q4 mod 256) by (subst q5; dlia).
  assert (H6 : q5 = 256 * q6 + q5 mod 256) by (subst q6; dlia).
  assert (H7 : q6 = 256 * q7 + q6 mod 256) by (subst q7; dlia).
  assert (H8 : q7 mod 256 = q7).
  { apply Z.mod_small. subst q7 q6 q5 q4 q3 q2 q1. rewrite !Z.div_div by lia.
    change (256 * 256 * 256 * 256 * 256 * 256 * 256) with 72057594037927936. dlia. }
  rewrite H8. clearbody q1 q2 q3 q4 q5 q6 q7. lia.
Qed.

Lemma byte_of_ones k : (k < 8)%nat -> byte_of k (2 ^ 64 - 1) = 255.
Proof.
  intros Hk. do 8 (destruct k as [|k]; [vm_compute; reflexivity|]). lia.
Qed.

Lemma byte_of_zero k : byte_of k 0 = 0.
Proof. unfold byte_of. rewrite Z.div_0_l; [reflexivity|]. apply Z.pow_nonzero; lia. Qed.

Lemma blendv64_ones a b : in_range 64 a -> in_range 64 b -> blendv64 a b (2 ^ 64 - 1) = b.
Proof.
  intros _ Hb. unfold blendv64.
  etransitivity; [|apply (bytes_reassemble b Hb)]. apply (f_equal (fold_right Z.add 0)).
  apply map_ext_in. intros k Hk. apply in_seq in Hk.
  rewrite byte_of_ones by lia. reflexivity.
Qed.

Lemma blendv64_zero a b : in_range 64 a -> in_range 64 b -> blendv64 a b 0 = a.
Proof.
  intros Ha _. unfold blendv64.
  etransitivity; [|apply (bytes_reassemble a Ha)]. apply (f_equal (fold_right Z.add 0)).
  apply map_ext_in. intros k Hk. rewrite byte_of_zero. reflexivity.
Qed.

(** * 5. sign flip *)

Lemma land_sign_small x : 0 <= x < 2 ^ 63 -> Z.land x (2 ^ 63) = 0.
Proof.
  intros Hx. apply Z.bits_inj'. intros n Hn.
  rewrite Z.land_spec, Z.bits_0, Z.pow2_bits_eqb by lia.
  destruct (Z.eqb_spec 63 n) as [<-|_]; [|apply andb_false_r].
  rewrite andb_true_r. apply Z.testbit_false; [lia|].
  rewrite Z.div_small by lia. reflexivity.
Qed.

Lemma lxor_sign_small x : 0 <= x < 2 ^ 63 -> Z.lxor x (2 ^ 63) = x + 2 ^ 63.
Proof. intros Hx. symmetry. apply Z.add_nocarry_lxor, land_sign_small, Hx. Qed.

Lemma lxor_sign x :
  in_range 64 x ->
  Z.lxor x sign_bit64 = if x <? 2 ^ 63 then x + 2 ^ 63 else x - 2 ^ 63.
Proof.
  unfold in_range, sign_bit64. intros Hx.
  destruct (Z.ltb_spec x (2 ^ 63)) as [Hlt|Hge].
  - apply lxor_sign_small. lia.
  - assert (Hx' : 0 <= x - 2 ^ 63 < 2 ^ 63)
      by (change (2 ^ 64) with (2 ^ 63 + 2 ^ 63) in Hx; lia).
    replace x with ((x - 2 ^ 63) + 2 ^ 63) at 1 by lia.
    rewrite <- (lxor_sign_small _ Hx').
    rewrite Z.lxor_assoc, Z.lxor_nilpotent, Z.lxor_0_r. reflexivity.
Qed.

Lemma sgn_flip x : in_range 64 x -> sgn 64 (Z.lxor x sign_bit64) = x - 2 ^ 63.
Proof.
  intros Hx. rewrite lxor_sign by assumption.
  unfold in_range, sgn in *. change (2 ^ (64 - 1)) with (2 ^ 63).
  change (2 ^ 64) with 18446744073709551616 in *.
  change (2 ^ 63) with 9223372036854775808 in *.
  destruct (Z.ltb_spec x 9223372036854775808).
  - destruct (Z.ltb_spec (x + 9223372036854775808) 9223372036854775808); lia.
  - destruct (Z.ltb_spec (x - 9223372036854775808) 9223372036854775808); lia.
Qed.

Lemma sgn_flip_order x y :
  in_range 64 x -> in_range 64 y ->
  (sgn 64 (Z.lxor y sign_bit64) <? sgn 64 (Z.lxor x sign_bit64)) = (y <? x).
Proof.
  intros Hx Hy. rewrite !sgn_flip by assumption.
  destruct (Z.ltb_spec (y - 2 ^ 63) (x - 2 ^ 63)); destruct (Z.ltb_spec y x); lia.
Qed.

(** * 9. i_max / i_min specifications (used below) *)

Lemma ival_inj sg w a b : 0 < w -> in_range w a -> in_range w b -> ival sg w a = ival sg w b -> a = b.
Proof.
  unfold in_range, ival, sgn. intros Hw Ha Hb.
  destruct sg; [|auto].
  pose proof (pow2_split w Hw). pose proof (pow2_pos (w - 1) ltac:(lia)).
  destruct (Z.ltb_spec a (2 ^ (w - 1))); destruct (Z.ltb_spec b (2 ^ (w - 1))); lia.
Qed.

Lemma i_max_spec sg w a b :
  in_range w a -> in_range w b -> 0 < w ->
  ival sg w (i_max sg w a b) = Z.max (ival sg w a) (ival sg w b) /\ (i_max sg w a b = a \/ i_max sg w a b = b).
Proof.
  intros _ _ _. unfold i_max.
  destruct (Z.ltb_spec (ival sg w a) (ival sg w b)); split; auto; lia.
Qed.

Lemma i_min_spec sg w a b :
  in_range w a -> in_range w b -> 0 < w ->
  ival sg w (i_min sg w a b) = Z.min (ival sg w a) (ival sg w b) /\ (i_min sg w a b = a \/ i_min sg w a b = b).
Proof.
  intros _ _ _. unfold i_min.
  destruct (Z.ltb_spec (ival sg w b) (ival sg w a)); split; auto; lia.
Qed.

(** * 6. compare-and-blend max/min *)

Lemma blendv64_cmpgt a b x y :
  in_range 64 a -> in_range 64 b ->
  blendv64 a b (cmpgt64 x y) = if sgn 64 y <? sgn 64 x then b else a.
Proof.
  intros Ha Hb. unfold cmpgt64.
  destruct (sgn 64 y <? sgn 64 x); [apply blendv64_ones | apply blendv64_zero]; assumption.
Qed.

Lemma max64_emul_correct sg x y : in_range 64 x -> in_range 64 y -> max64_emul sg x y = i_max sg 64 x y.
Proof.
  intros Hx Hy. unfold max64_emul, i_max.
  destruct sg; rewrite blendv64_cmpgt by assumption.
  - cbn [ival].
    destruct (Z.ltb_spec (sgn 64 y) (sgn 64 x)); destruct (Z.ltb_spec (sgn 64 x) (sgn 64 y));
      try reflexivity; try lia.
    apply (ival_inj true 64); [lia | assumption | assumption |]. cbn [ival]. lia.
  - rewrite sgn_flip_order by assumption. cbn [ival].
    destruct (Z.ltb_spec y x); destruct (Z.ltb_spec x y); lia.
Qed.

Lemma min64_emul_correct sg x y : in_range 64 x -> in_range 64 y -> min64_emul sg x y = i_min sg 64 x y.
Proof.
  intros Hx Hy. unfold min64_emul, i_min.
  destruct sg; rewrite blendv64_cmpgt by assumption.
  - reflexivity.
  - rewrite sgn_flip_order by assumption. reflexivity.
Qed.

(** * 7. results stay in range *)

Lemma wrap_range w z : 0 < w -> in_range w (wrap w z).
Proof. intros Hw. unfold in_range, wrap. apply Z.mod_pos_bound, pow2_pos. lia. Qed.

Lemma i_add_range w a b : 0 < w -> in_range w (i_add w a b).
Proof. apply wrap_range. Qed.
Lemma i_sub_range w a b : 0 < w -> in_range w (i_sub w a b).
Proof. apply wrap_range. Qed.
Lemma i_mul_range w a b : 0 < w -> in_range w (i_mul w a b).
Proof. apply wrap_range. Qed.
Lemma i_max_range sg w a b : in_range w a -> in_range w b -> in_range w (i_max sg w a b).
Proof. intros. unfold i_max. destruct (_ <? _); assumption. Qed.
Lemma i_min_range sg w a b : in_range w a -> in_range w b -> in_range w (i_min sg w a b).
Proof. intros. unfold i_min. destruct (_ <? _); assumption. Qed.
Lemma i_div_range sg w a b q :
  0 < w -> in_range w a -> in_range w b -> i_div sg w a b = Some q -> in_range w q.
Proof.
  intros Hw Ha Hb. unfold i_div.
  destruct (Z.eqb_spec b 0) as [|Hb0]; [discriminate|].
  intros E. injection E as <-. destruct sg.
  - apply wrap_range, Hw.
  - unfold in_range in *. split.
    + apply Z.div_pos; lia.
    + apply Z.le_lt_trans with a; [|lia]. apply Z.div_le_upper_bound; nia.
Qed.

(** * 8. strided sums *)

Definition Zsum (l : list Z) : Z := fold_right Z.add 0 l.

Lemma mod4_absorb m x1 x2 x3 x4 r :
  0 < m -> (x1 mod m + x2 mod m + x3 mod m + x4 mod m + r) mod m = (x1 + x2 + x3 + x4 + r) mod m.
Proof.
  intros Hm.
  rewrite (Z.mod_eq x1 m), (Z.mod_eq x2 m), (Z.mod_eq x3 m), (Z.mod_eq x4 m) by lia.
  set (q1 := x1 / m). set (q2 := x2 / m). set (q3 := x3 / m). set (q4 := x4 / m).
  replace (x1 - m * q1 + (x2 - m * q2) + (x3 - m * q3) + (x4 - m * q4) + r)
    with ((x1 + x2 + x3 + x4 + r) + (- q1 - q2 - q3 - q4) * m) by ring.
  apply Z_mod_plus_full.
Qed.

Lemma strided4_sum w s1 s2 s3 s4 (l : list Z) :
  0 < w -> (length l mod 4 = 0)%nat ->
  strided4 (i_add w) s1 s2 s3 s4 l mod 2 ^ w = (s1 + s2 + s3 + s4 + Zsum l) mod 2 ^ w.
Proof.
  intros Hw. pose proof (pow2_pos w ltac:(lia)) as Hm.
  revert s1 s2 s3 s4.
  induction l as [|a|a b|a b c|a b c d l IH] using list_ind4; intros s1 s2 s3 s4 Hlen;
    try (vm_compute in Hlen; discriminate).
  - cbn [strided4 Zsum fold_right]. unfold i_add, wrap.
    rewrite Z.mod_mod by lia. rewrite <- Zplus_mod. f_equal. lia.
  - apply len4_step in Hlen. cbn [strided4]. rewrite IH by assumption.
    unfold i_add, wrap. rewrite mod4_absorb by lia.
    f_equal. unfold Zsum. cbn [fold_right]. lia.
Qed.

(** * 10. strided max / min *)

Lemma fold_max_pull p q L : fold_right Z.max (Z.max p q) L = Z.max p (fold_right Z.max q L).
Proof. induction L as [|x L IH]; cbn [fold_right]; [reflexivity | rewrite IH; lia]. Qed.

Lemma fold_min_pull p q L : fold_right Z.min (Z.min p q) L = Z.min p (fold_right Z.min q L).
Proof. induction L as [|x L IH]; cbn [fold_right]; [reflexivity | rewrite IH; lia]. Qed.

Lemma max_swap4 a b c d : Z.max (Z.max a b) (Z.max c d) = Z.max (Z.max a c) (Z.max b d).
Proof. lia. Qed.

Lemma max_rearr X a b c d :
  Z.max X (Z.max (Z.max a b) (Z.max c d)) = Z.max a (Z.max b (Z.max c (Z.max d X))).
Proof. lia. Qed.

Lemma strided4_max_gen sg w (l : list Z) :
  0 < w -> (length l mod 4 = 0)%nat -> Forall (in_range w) l ->
  forall s1 s2 s3 s4,
  in_range w s1 -> in_range w s2 -> in_range w s3 -> in_range w s4 ->
  ival sg w (strided4 (i_max sg w) s1 s2 s3 s4 l) =
  fold_right Z.max (Z.max (Z.max (ival sg w s1) (ival sg w s2)) (Z.max (ival sg w s3) (ival sg w s4)))
             (map (ival sg w) l).
Proof.
  intros Hw.
  induction l as [|a|a b|a b c|a b c d l IH] using list_ind4; intros Hlen Fl s1 s2 s3 s4 R1 R2 R3 R4;
    try (vm_compute in Hlen; discriminate).
  - cbn [strided4 map fold_right].
    pose proof (i_max_range sg w s1 s2 R1 R2) as R12.
    pose proof (i_max_range sg w s3 s4 R3 R4) as R34.
    rewrite (proj1 (i_max_spec sg w _ _ R12 R34 Hw)).
    rewrite (proj1 (i_max_spec sg w _ _ R1 R2 Hw)), (proj1 (i_max_spec sg w _ _ R3 R4 Hw)).
    reflexivity.
  - apply len4_step in Hlen.
    inversion Fl as [|? ? Ra Fl1]; subst. inversion Fl1 as [|? ? Rb Fl2]; subst.
    inversion Fl2 as [|? ? Rc Fl3]; subst. inversion Fl3 as [|? ? Rd Fl4]; subst.
    cbn [strided4 map fold_right].
    rewrite IH by (try assumption; apply i_max_range; assumption).
    rewrite !(proj1 (i_max_spec sg w _ _ R1 Ra Hw)), !(proj1 (i_max_spec sg w _ _ R2 Rb Hw)),
            !(proj1 (i_max_spec sg w _ _ R3 Rc Hw)), !(proj1 (i_max_spec sg w _ _ R4 Rd Hw)).
    set (v1 := ival sg w s1). set (v2 := ival sg w s2). set (v3 := ival sg w s3). set (v4 := ival sg w s4).
    set (va := ival sg w a). set (vb := ival sg w b). set (vc := ival sg w c). set (vd := ival sg w d).
    rewrite (max_swap4 v1 va v2 vb), (max_swap4 v3 vc v4 vd),
            (max_swap4 (Z.max v1 v2) (Z.max va vb) (Z.max v3 v4) (Z.max vc vd)), max_rearr.
    rewrite !fold_max_pull. reflexivity.
Qed.

Lemma min_swap4 a b c d : Z.min (Z.min a b) (Z.min c d) = Z.min (Z.min a c) (Z.min b d).
Proof. lia. Qed.

Lemma min_rearr X a b c d :
  Z.min X (Z.min (Z.min a b) (Z.min c d)) = Z.min a (Z.min b (Z.min c (Z.min d X))).
Proof. lia. Qed.

Lemma strided4_min_gen sg w (l : list Z) :
  0 < w -> (length l mod 4 = 0)%nat -> Forall (in_range w) l ->
  forall s1 s2 s3 s4,
  in_range w s1 -> in_range w s2 -> in_range w s3 -> in_range w s4 ->
  ival sg w (strided4 (i_min sg w) s1 s2 s3 s4 l) =
  fold_right Z.min (Z.min (Z.min (ival sg w s1) (ival sg w s2)) (Z.min (ival sg w s3) (ival sg w s4)))
             (map (ival sg w) l).
Proof.
  intros Hw.
  induction l as [|a|a b|a b c|a b c d l IH] using list_ind4; intros Hlen Fl s1 s2 s3 s4 R1 R2 R3 R4;
    try (vm_compute in Hlen; discriminate).
  - cbn [strided4 map fold_right].
    pose proof (i_min_range sg w s1 s2 R1 R2) as R12.
    pose proof (i_min_range sg w s3 s4 R3 R4) as R34.
    rewrite (proj1 (i_min_spec sg w _ _ R12 R34 Hw)).
    rewrite (proj1 (i_min_spec sg w _ _ R1 R2 Hw)), (proj1 (i_min_spec sg w _ _ R3 R4 Hw)).
    reflexivity.
  - apply len4_step in Hlen.
    inversion Fl as [|? ? Ra Fl1]; subst. inversion Fl1 as [|? ? Rb Fl2]; subst.
    inversion Fl2 as [|? ? Rc Fl3]; subst. inversion Fl3 as [|? ? Rd Fl4]; subst.
    cbn [strided4 map fold_right].
    rewrite IH by (try assumption; apply i_min_range; assumption).
    rewrite !(proj1 (i_min_spec sg w _ _ R1 Ra Hw)), !(proj1 (i_min_spec sg w _ _ R2 Rb Hw)),
            !(proj1 (i_min_spec sg w _ _ R3 Rc Hw)), !(proj1 (i_min_spec sg w _ _ R4 Rd Hw)).
    set (v1 := ival sg w s1). set (v2 := ival sg w s2). set (v3 := ival sg w s3). set (v4 := ival sg w s4).
    set (va := ival sg w a). set (vb := ival sg w b). set (vc := ival sg w c). set (vd := ival sg w d).
    rewrite (min_swap4 v1 va v2 vb), (min_swap4 v3 vc v4 vd),
            (min_swap4 (Z.min v1 v2) (Z.min va vb) (Z.min v3 v4) (Z.min vc vd)), min_rearr.
    rewrite !fold_min_pull. reflexivity.
Qed.

Lemma strided4_max sg w s (l : list Z) :
  0 < w -> (length l mod 4 = 0)%nat -> in_range w s -> Forall (in_range w) l ->
  ival sg w (strided4 (i_max sg w) s s s s l) = fold_right Z.max (ival sg w s) (map (ival sg w) l).
Proof.
  intros Hw Hlen Rs Fl. rewrite strided4_max_gen by assumption.
  f_equal. lia.
Qed.

Lemma strided4_min sg w s (l : list Z) :
  0 < w -> (length l mod 4 = 0)%nat -> in_range w s -> Forall (in_range w) l ->
  ival sg w (strided4 (i_min sg w) s s s s l) = fold_right Z.min (ival sg w s) (map (ival sg w) l).
Proof.
  intros Hw Hlen Rs Fl. rewrite strided4_min_gen by assumption.
  f_equal. lia.
Qed.
