(* generic_cosine and its helper op_cosine::cosine (C06).  Part of the tie Gen/GenKernels.v = Model/Kernels.v. *)
From Coq Require Import List Arith Bool String.
From CF Require Import Base.Mem Model.Tables Model.SimdApi Model.Kernels.
From CF Require Import Gen.GenKernels.
Import ListNotations.
From CF Require Import Proofs.GenKernelsReduce.

(** * Monad laws, pointwise (no functional extensionality) *)

Lemma bind_ext_pt {T A B} (c : M T A) (f g : A -> M T B) (m : mem T) :
  (forall a m', f a m' = g a m') -> bind c f m = bind c g m.
Proof. intros H. unfold bind. destruct (c m); auto. Qed.

Lemma bind_assoc_pt {T A B C} (c : M T A) (f : A -> M T B) (g : B -> M T C) (m : mem T) :
  bind (bind c f) g m = bind c (fun a => bind (f a) g) m.
Proof. unfold bind. destruct (c m); reflexivity. Qed.

Section Eq.
  Context {T : Type}.
  Variable R : SimdOps T.
  Variable Mth : MathOps T.

  (** * Cosine *)

  (* op_cosine::cosine, rendered into the monad (the fallible [M::div] is a [lift_opt] in the last branch), is the
     lifting of the option-valued hand definition: the same three branches under the same two tests *)
  Lemma gen_cosine_helper_is_model dot nx ny : gen_cosine Mth dot nx ny = lift_opt (cosine Mth dot nx ny).
  Proof.
    unfold gen_cosine, cosine.
    destruct (m_cmp_eq Mth nx (m_zero Mth) && m_cmp_eq Mth ny (m_zero Mth)); [reflexivity|].
    destruct (m_cmp_eq Mth nx (m_zero Mth) || m_cmp_eq Mth ny (m_zero Mth)); [reflexivity|].
    destruct (m_div Mth dot (m_sqrt Mth (m_mul Mth nx ny))); reflexivity.
  Qed.

  Lemma gen_cosine_is_model dims : forall m, gen_generic_cosine R Mth dims m = generic_cosine R Mth dims m.
  Proof.
    intros m. unfold gen_generic_cosine, generic_cosine, three_phase. cbv zeta.
    rewrite bind_assoc_pt. apply bind_ext_pt. intros [i [na nb]] m1. cbv beta iota.
    rewrite bind_assoc_pt. apply bind_ext_pt. intros [i2 [na2 nb2]] m2. cbv beta iota.
    rewrite bind_assoc_pt. apply bind_ext_pt. intros [i3 [na3 nb3]] m3. cbv beta iota.
    change (bind (gen_generic_dot_product R Mth dims) (fun dot => gen_cosine Mth dot na3 nb3) m3
            = bind (generic_dot_product R Mth dims) (fun dot => lift_opt (cosine Mth dot na3 nb3)) m3).
    rewrite gen_dot_product_is_model. apply bind_ext_pt. intros dot m4.
    rewrite gen_cosine_helper_is_model. reflexivity.
  Qed.

End Eq.
