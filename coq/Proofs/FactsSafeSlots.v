(* Reflection over the safe-wrapper tables regenerated from /repo. *)
From Coq Require Import String List Bool Arith.
From CF Require Import Model.Tables Model.TableSem Proofs.TableProofs.
From CF Require Import Gen.GenExports Gen.GenSafe Gen.GenMacros Gen.GenDispatch.
Import ListNotations.

Lemma safe_entries_ok : forallb (safe_entry_ok exports safe_macros) safe_entries = true.
Proof. vm_compute. reflexivity. Qed.

Lemma safe_names_unique : nodup_strings (map s_const safe_entries ++ map s_any safe_entries) = true.
Proof. vm_compute. reflexivity. Qed.

Lemma every_safe_macro_used_is_defined :
  forallb (fun s => match find_safe_macro safe_macros (s_macro s) with Some _ => true | None => false end)
          safe_entries = true.
Proof. vm_compute. reflexivity. Qed.

Lemma C09_slots_proof :
  forall s, In s safe_entries ->
  exists m k,
    find_safe_macro safe_macros (s_macro s) = Some m /\ safe_kernel s = Some k /\
    forall f, s_name f s = safe_name_spec f (s_ty s) k /\
      exists sf, safe_fn_of m f = Some sf /\
        (exists d, In d (sf_dispatch sf) /\ ds_slot d = SFallback) /\
        forall d, In d (sf_dispatch sf) ->
          exists n e, lookup_positional (sm_positional m) (s_slots s) (ds_fnvar d) = Some n
                      /\ find_export exports f n = Some e
                      /\ e_ty e = s_ty s /\ e_op e = k
                      /\ e_reg e = allowed_backend (ds_slot d) (s_ty s).
Proof.
  intros s H. apply safe_entry_ok_slots. apply (forallb_In _ _ safe_entries_ok). exact H.
Qed.
