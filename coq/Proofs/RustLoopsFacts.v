(* Facts about the scalar-loop fragment (Model/RustLoops.v): the loop
     for (idx, (a, b)) in zip(xs, ys).enumerate() { result[idx] = f(a, b); }
   over arrays of equal length, started on ANY array of that length, stores the lane-wise results in order — and panics
   exactly when some f(a, b) does (the stores themselves are always in bounds).  Generic in the element type, the lane
   operation and the length. *)
From Coq Require Import ZArith List Bool Lia.
From CF Require Import Model.Prim Model.SimdApi Model.RustLoops Proofs.ListFacts Proofs.ReduceCorrect Proofs.IntrinsicsFacts.
Import ListNotations.
Local Open Scope Z_scope.

Lemma arr_set_mid {A} (pre post : list A) p v :
  arr_set (pre ++ p :: post) (Z.of_nat (length pre)) v = Some (pre ++ v :: post).
Proof.
  unfold arr_set. rewrite app_length. cbn [length].
  replace ((0 <=? Z.of_nat (length pre)) && (Z.of_nat (length pre) <? Z.of_nat (length pre + S (length post)))) with true
    by (symmetry; apply andb_true_intro; split; [apply Z.leb_le | apply Z.ltb_lt]; lia).
  rewrite Nat2Z.id.
  rewrite firstn_app, firstn_all, Nat.sub_diag. cbn [firstn]. rewrite app_nil_r.
  replace (S (length pre)) with (length (pre ++ [p])) by (rewrite app_length; cbn; lia).
  replace (pre ++ p :: post) with ((pre ++ [p]) ++ post) by (rewrite <- app_assoc; reflexivity).
  rewrite skipn_app, skipn_all, Nat.sub_diag. reflexivity.
Qed.

Section Store.
  Context {A : Type}.

  Lemma fze_store_opt_at (f : A -> A -> option A) xs : forall ys pre post,
    length ys = length xs -> length post = length xs ->
    for_zip_enum (fun idx a b st => obind (f a b) (fun q => arr_set st idx q)) (Z.of_nat (length pre)) xs ys (pre ++ post)
    = option_map (fun r => pre ++ r) (sequence (map2 f xs ys)).
  Proof.
    induction xs as [|a xs IH]; intros [|b ys] pre [|p post] Ly Lp; cbn [length] in Ly, Lp; try discriminate.
    - reflexivity.
    - cbn [for_zip_enum map2 sequence]. destruct (f a b) as [q|]; [|reflexivity].
      cbn [obind]. rewrite arr_set_mid. cbn [obind].
      replace (pre ++ q :: post) with ((pre ++ [q]) ++ post) by (rewrite <- app_assoc; reflexivity).
      replace (Z.of_nat (length pre) + 1) with (Z.of_nat (length (pre ++ [q]))) by (rewrite app_length; cbn [length]; lia).
      rewrite IH by lia.
      destruct (sequence (map2 f xs ys)) as [r|]; [|reflexivity].
      cbn [option_map]. rewrite <- app_assoc. reflexivity.
  Qed.

  (* the body may panic (integer division) *)
  Lemma fze_store_opt (f : A -> A -> option A) xs ys init :
    length xs = length ys -> length init = length xs ->
    for_zip_enum (fun idx a b st => obind (f a b) (fun q => arr_set st idx q)) 0 xs ys init = sequence (map2 f xs ys).
  Proof.
    intros Ly Li. pose proof (fze_store_opt_at f xs ys [] init (eq_sym Ly) Li) as H. cbn [length app] in H.
    change (Z.of_nat 0) with 0 in H. rewrite H. destruct (sequence (map2 f xs ys)); reflexivity.
  Qed.

  Lemma sequence_total (g : A -> A -> A) xs ys : sequence (map2 (fun a b => Some (g a b)) xs ys) = Some (map2 g xs ys).
  Proof.
    revert ys. induction xs as [|a xs IH]; intros [|b ys]; cbn [map2 sequence]; try reflexivity. rewrite IH. reflexivity.
  Qed.

  (* the body is total *)
  Lemma fze_store_tot (g : A -> A -> A) xs ys init :
    length xs = length ys -> length init = length xs ->
    for_zip_enum (fun idx a b st => arr_set st idx (g a b)) 0 xs ys init = Some (map2 g xs ys).
  Proof.
    intros Ly Li. rewrite <- sequence_total. exact (fze_store_opt (fun a b => Some (g a b)) xs ys init Ly Li).
  Qed.
End Store.

(** * Integer division lanes stay in range *)

Lemma i_div_range sg w a b q : 0 < w -> in_range w a -> in_range w b -> i_div sg w a b = Some q -> in_range w q.
Proof.
  intros Hw Ha Hb. unfold i_div. destruct (b =? 0) eqn:Eb; [discriminate|]. apply Z.eqb_neq in Eb.
  intros H. inversion H; subst q; clear H. destruct sg.
  - apply in_range_wrap. exact Hw.
  - unfold in_range in *. assert (0 < b) by lia. split.
    + apply Z.div_pos; lia.
    + apply Z.le_lt_trans with a; [|lia]. apply Z.div_le_upper_bound; [lia|]. nia.
Qed.

(* ... and the loop panics exactly when some divisor lane is zero *)
Lemma seq_div_none sg w x y :
  length x = length y -> (sequence (map2 (i_div sg w) x y) = None <-> In 0 y).
Proof.
  revert y. induction x as [|a x IH]; intros [|b y] L; cbn [length] in L; try discriminate.
  - cbn. split; [discriminate | intros []].
  - cbn [map2 sequence In]. unfold i_div at 1. destruct (b =? 0) eqn:Eb.
    + apply Z.eqb_eq in Eb. split; [intros _; left; congruence | reflexivity].
    + apply Z.eqb_neq in Eb. specialize (IH y ltac:(lia)).
      destruct (sequence (map2 (i_div sg w) x y)) as [r|].
      * split; [discriminate|]. intros [H|H]; [congruence|]. apply IH in H. discriminate.
      * split; [intros _; right; apply IH; reflexivity | reflexivity].
Qed.

Lemma seq_div_range sg w x y r :
  0 < w -> Forall (in_range w) x -> Forall (in_range w) y ->
  sequence (map2 (i_div sg w) x y) = Some r -> Forall (in_range w) r.
Proof.
  intros Hw Fx. revert y r. induction Fx as [|a x Ha Fx IH]; intros y r Fy H.
  - cbn in H. inversion H. constructor.
  - destruct Fy as [|b y Hb Fy]; [cbn in H; inversion H; constructor|].
    cbn [map2 sequence] in H. destruct (i_div sg w a b) as [q|] eqn:E; [|discriminate].
    destruct (sequence (map2 (i_div sg w) x y)) as [r'|] eqn:E'; [|discriminate].
    inversion H; subst r. constructor.
    + exact (i_div_range sg w a b q Hw Ha Hb E).
    + exact (IH y r' Fy E').
Qed.
