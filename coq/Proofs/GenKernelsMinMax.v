(* The 6 min/max kernels (C05).
   Part of the tie Gen/GenKernels.v (regenerated from op_*.rs on every run) = Model/Kernels.v; see
   Proofs/GenKernelsProofs.v.  One file per kernel family so that a change of ONE kernel's source breaks only the
   properties that speak about that family. *)
From Coq Require Import List Arith Bool String.
From CF Require Import Base.Mem Model.Tables Model.SimdApi Model.Kernels.
From CF Require Import Gen.GenKernels.
Import ListNotations.

Section Eq.
  Context {T : Type}.
  Variable R : SimdOps T.
  Variable Mth : MathOps T.

  Lemma gen_max_horizontal_is_model dims : gen_generic_max_horizontal R Mth dims = generic_max_horizontal R Mth dims.
  Proof. reflexivity. Qed.
  Lemma gen_min_horizontal_is_model dims : gen_generic_min_horizontal R Mth dims = generic_min_horizontal R Mth dims.
  Proof. reflexivity. Qed.
  Lemma gen_max_vertical_is_model dims : gen_generic_max_vertical R Mth dims = generic_max_vertical R Mth dims.
  Proof. reflexivity. Qed.
  Lemma gen_min_vertical_is_model dims : gen_generic_min_vertical R Mth dims = generic_min_vertical R Mth dims.
  Proof. reflexivity. Qed.
  Lemma gen_max_value_is_model dims value :
    gen_generic_max_value R Mth dims value = generic_max_value R Mth dims value.
  Proof. reflexivity. Qed.
  Lemma gen_min_value_is_model dims value :
    gen_generic_min_value R Mth dims value = generic_min_value R Mth dims value.
  Proof. reflexivity. Qed.
End Eq.
