(* The three emulated integer operations at INSTRUCTION level (byte-list registers, Model/Intrinsics.v) compute the
   word-level emulations of Model/Regs.v, for registers of any length:
     - 8-bit multiply through 16-bit words: mullo_epi16 / srai_epi16 8 / slli_epi16 8 / byte blend (AVX2: blendv_epi8
       with the 0xFF00FF00 mask, AVX-512: mask_blend_epi8 with 0xAAAA...),
     - 64-bit multiply from 32-bit partial products: mul_epu32 / shuffle_epi32 0xB1 / mullo_epi32 / slli_epi64 32 /
       add_epi32 / and_si256 / add_epi64,
     - 64-bit max/min: cmpgt_epi64 (+ xor with the sign bit for unsigned) / blendv_epi8.
   View changes between lane widths are proved once (8 <-> 16, 32 <-> 64, bytes <-> 64).  Standard library only. *)
From Coq Require Import ZArith List Arith Bool Lia ZifyBool.
From CF Require Import Model.Prim Model.SimdApi Model.Regs Model.Intrinsics.
From CF Require Import Proofs.ListFacts Proofs.ReduceCorrect Proofs.IntrinsicsFacts.
From CF Require Proofs.RegArith.
Import ListNotations.
Local Open Scope Z_scope.

Local Ltac dlia := Z.div_mod_to_equations; lia.

(** * Locality of the lane-wise families: whole lanes in front can be split off *)

Lemma mod0_mul k n : (0 < k)%nat -> (n mod k = 0)%nat -> exists q, n = (k * q)%nat.
Proof. intros Hk H. exists (n / k)%nat. pose proof (Nat.div_mod n k ltac:(lia)). lia. Qed.

Lemma vlift2_app w k f a1 a2 b1 b2 : wk w k -> length a1 = length b1 -> (length a1 mod k = 0)%nat ->
  vlift2 w f (a1 ++ a2) (b1 ++ b2) = vlift2 w f a1 b1 ++ vlift2 w f a2 b2.
Proof.
  intros H Hl Hm. unfold vlift2.
  rewrite !(lanes_of_app w k) by (try assumption; rewrite <- Hl; assumption).
  destruct (mod0_mul k (length a1) (proj1 H) Hm) as [q Hq].
  rewrite map2_app' by (rewrite (lanes_of_length w k a1 q), (lanes_of_length w k b1 q); auto; lia).
  apply bytes_of_app.
Qed.

Lemma vlift1_app w k f a1 a2 : wk w k -> (length a1 mod k = 0)%nat ->
  vlift1 w f (a1 ++ a2) = vlift1 w f a1 ++ vlift1 w f a2.
Proof. intros H Hm. unfold vlift1. rewrite (lanes_of_app w k) by assumption. rewrite map_app. apply bytes_of_app. Qed.

Lemma le_bytes_mod k z : le_bytes k (z mod 256 ^ Z.of_nat k) = le_bytes k z.
Proof.
  revert z. induction k as [|k IH]; intros z; [reflexivity|].
  cbn [le_bytes]. rewrite Nat2Z.inj_succ, Z.pow_succ_r by lia.
  assert (Hp : 0 < 256 ^ Z.of_nat k) by (apply Z.pow_pos_nonneg; lia).
  rewrite Z.rem_mul_r by lia.
  set (q := (z / 256) mod 256 ^ Z.of_nat k).
  replace ((z mod 256 + 256 * q) mod 256) with (z mod 256) by dlia.
  replace ((z mod 256 + 256 * q) / 256) with q by dlia.
  f_equal. subst q. apply IH.
Qed.

Lemma le_bytes_join j k u v : 0 <= u < 256 ^ Z.of_nat j ->
  le_bytes j u ++ le_bytes k v = le_bytes (j + k) (u + 256 ^ Z.of_nat j * v).
Proof.
  intros Hu. rewrite le_bytes_app.
  set (P := 256 ^ Z.of_nat j) in *.
  assert (E1 : (u + P * v) mod P = u).
  { replace (u + P * v) with (u + v * P) by ring. rewrite Z.mod_add by lia. apply Z.mod_small. exact Hu. }
  assert (E2 : (u + P * v) / P = v).
  { replace (u + P * v) with (u + v * P) by ring. rewrite Z.div_add by lia. rewrite Z.div_small by exact Hu. lia. }
  rewrite E2. f_equal. rewrite <- (le_bytes_mod j (u + P * v)). fold P. rewrite E1. reflexivity.
Qed.

(** * 8 <-> 16 *)

Lemma lanes_of_8 a : lanes_of 8 a = a.
Proof.
  induction a as [|b a IH]; [reflexivity|].
  change (b :: a) with ([b] ++ a). rewrite (lanes_of_app_chunk 8 1) by auto with wk.
  rewrite IH. cbn [le_val app]. f_equal. lia.
Qed.

Lemma bytes_of_8 x : Forall (in_range 8) x -> bytes_of 8 x = x.
Proof.
  induction 1 as [|a x Ha _ IH]; [reflexivity|]. rewrite bytes_of_cons, IH.
  change (nbytes 8) with 1%nat. cbn [le_bytes app]. f_equal. apply Z.mod_small. exact Ha.
Qed.

Lemma le_bytes2_word16 lo hi : in_range 8 lo -> in_range 8 hi -> le_bytes 2 (word16 lo hi) = [lo; hi].
Proof.
  unfold in_range, word16. change (2 ^ 8) with 256. intros Hl Hh. cbn [le_bytes]. f_equal; [dlia|]. f_equal. dlia.
Qed.

Lemma bytes16_pairs x : Forall (in_range 8) x -> Nat.even (length x) = true -> bytes_of 16 (pairs x) = x.
Proof.
  induction x as [|a|a b x IH] using RegArith.list_ind2; intros Fx Hev.
  - reflexivity.
  - discriminate.
  - inversion Fx as [|? ? Ha Fx1]; subst. inversion Fx1 as [|? ? Hb Fx2]; subst.
    cbn [pairs]. rewrite bytes_of_cons. change (nbytes 16) with 2%nat.
    rewrite le_bytes2_word16 by assumption. cbn [app]. f_equal. f_equal. apply IH; assumption.
Qed.

Lemma pairs_range x : Forall (in_range 8) x -> Forall (in_range 16) (pairs x).
Proof.
  induction x as [|a|a b x IH] using RegArith.list_ind2; intros Fx; cbn [pairs]; try constructor.
  - inversion Fx as [|? ? Ha Fx1]; subst. inversion Fx1 as [|? ? Hb Fx2]; subst.
    unfold in_range, word16 in *. change (2 ^ 8) with 256 in *. change (2 ^ 16) with 65536. lia.
  - inversion Fx as [|? ? Ha Fx1]; subst. inversion Fx1 as [|? ? Hb Fx2]; subst. apply IH. assumption.
Qed.

Lemma pairs_length x : Nat.even (length x) = true -> (2 * length (pairs x))%nat = length x.
Proof.
  induction x as [|a|a b x IH] using RegArith.list_ind2; intros Hev; cbn [pairs length] in *; try lia; try discriminate.
  specialize (IH Hev). lia.
Qed.

Lemma lanes8_bytes16 z : Forall (in_range 16) z -> lanes_of 8 (bytes_of 16 z) = unpairs z.
Proof.
  intros Fz. rewrite lanes_of_8. induction Fz as [|a z Ha _ IH]; [reflexivity|].
  rewrite bytes_of_cons, IH. change (nbytes 16) with 2%nat. unfold unpairs. cbn [flat_map le_bytes app].
  f_equal. f_equal. unfold in_range in Ha. change (2 ^ 16) with 65536 in Ha. dlia.
Qed.

Lemma bytes8_unpairs z : Forall (in_range 16) z -> bytes_of 8 (unpairs z) = bytes_of 16 z.
Proof.
  intros Fz. rewrite <- (lanes8_bytes16 z Fz). rewrite lanes_of_8. apply bytes_of_8.
  eapply Forall_impl; [|apply bytes_of_bytes]. intros b Hb. apply in_range_8_byte. exact Hb.
Qed.

(* byte blend of 16-bit words under the mask 0xFF00 in every word: even byte from [e], odd byte from [o] *)
Lemma blendv_words e o : length e = length o -> Forall (in_range 16) o ->
  vblendv_epi8 (bytes_of 16 e) (bytes_of 16 o) (bytes_of 16 (repeat 65280 (length e))) = bytes_of 16 (map2 blend_odd e o).
Proof.
  revert o. induction e as [|a e IH]; intros [|b o] Hl Fo; cbn [length] in Hl; try lia; [reflexivity|].
  inversion Fo as [|? ? Hb Fo']; subst.
  cbn [length repeat map2]. rewrite !bytes_of_cons. change (nbytes 16) with 2%nat.
  unfold vblendv_epi8 in *. rewrite map3_app by (rewrite !le_bytes_length; reflexivity).
  rewrite IH by (try assumption; lia). f_equal.
  cbn [le_bytes map3]. unfold blendv_byte, blend_odd.
  change (65280 mod 256) with 0. change (65280 / 256 mod 256) with 255.
  change (128 <=? 0) with false. change (128 <=? 255) with true. cbn iota.
  unfold in_range in Hb. change (2 ^ 16) with 65536 in Hb.
  f_equal; [dlia|]. f_equal. dlia.
Qed.

(* the same blend selected by the bits of a mask register k = ...101010 (one bit per byte) *)
Fixpoint altmask (n : nat) : Z := match n with O => 0 | S n' => 2 + 4 * altmask n' end.

Lemma mask_blend_words e o : length e = length o -> Forall (in_range 16) o ->
  vmask_blend_epi8 (altmask (length e)) (bytes_of 16 e) (bytes_of 16 o) = bytes_of 16 (map2 blend_odd e o).
Proof.
  revert o. induction e as [|a e IH]; intros [|b o] Hl Fo; cbn [length] in Hl; try lia; [reflexivity|].
  inversion Fo as [|? ? Hb Fo']; subst.
  cbn [length altmask map2]. rewrite !bytes_of_cons. change (nbytes 16) with 2%nat.
  cbn [le_bytes app vmask_blend_epi8].
  set (k := altmask (length e)).
  assert (O1 : Z.odd (2 + 4 * k) = false).
  { replace (2 + 4 * k) with (0 + 2 * (1 + 2 * k)) by ring. rewrite Z.odd_add_mul_2. reflexivity. }
  assert (O2 : Z.odd (1 + 2 * k) = true) by (rewrite Z.odd_add_mul_2; reflexivity).
  rewrite O1. replace ((2 + 4 * k) / 2) with (1 + 2 * k) by dlia. rewrite O2.
  replace ((1 + 2 * k) / 2) with k by dlia.
  subst k. rewrite IH by (try assumption; lia).
  unfold blend_odd. unfold in_range in Hb. change (2 ^ 16) with 65536 in Hb.
  f_equal; [dlia|]. f_equal. dlia.
Qed.

(** * The 8-bit multiply *)

Lemma Forall16_map (f : Z -> Z) x : (forall a, in_range 16 (f a)) -> Forall (in_range 16) (map f x).
Proof. apply Forall_map'. Qed.

Lemma srai16_range a : in_range 16 (srai_lane 16 8 a).
Proof. apply in_range_wrap. lia. Qed.
Lemma slli16_range a : in_range 16 (slli_lane 16 8 a).
Proof. apply in_range_wrap. lia. Qed.
Lemma mul16_range a b : in_range 16 (i_mul 16 a b).
Proof. apply in_range_wrap. lia. Qed.

Lemma mul8_fusion (X Y : list Z) :
  map2 blend_odd (map2 (i_mul 16) X Y)
       (map (slli_lane 16 8) (map2 (i_mul 16) (map (srai_lane 16 8) X) (map (srai_lane 16 8) Y)))
  = map2 mul8_word X Y.
Proof. revert Y. induction X as [|a X IH]; intros [|b Y]; cbn [map map2]; try reflexivity. rewrite IH. reflexivity. Qed.

(* the instruction sequence, given the blend as a function [blend even odd] that is the word blend *)
Lemma mul8_sequence (blend : list Z -> list Z -> list Z) x y :
  length x = length y -> Forall (in_range 8) x -> Forall (in_range 8) y -> Nat.even (length x) = true ->
  (forall e o, length e = length (pairs x) -> length o = length (pairs x) -> Forall (in_range 16) o ->
               blend (bytes_of 16 e) (bytes_of 16 o) = bytes_of 16 (map2 blend_odd e o)) ->
  blend (vmullo 16 (bytes_of 8 x) (bytes_of 8 y))
        (vslli 16 8 (vmullo 16 (vsrai 16 8 (bytes_of 8 x)) (vsrai 16 8 (bytes_of 8 y))))
  = bytes_of 8 (mul8 x y).
Proof.
  intros Hl Fx Fy Hev Hblend.
  assert (Hevy : Nat.even (length y) = true) by (rewrite <- Hl; exact Hev).
  rewrite (bytes_of_8 x Fx), (bytes_of_8 y Fy).
  rewrite <- (bytes16_pairs x Fx Hev) at 1 2. rewrite <- (bytes16_pairs y Fy Hevy) at 1 2.
  pose proof (pairs_range x Fx) as Px. pose proof (pairs_range y Fy) as Py.
  assert (Hpl : length (pairs x) = length (pairs y)).
  { pose proof (pairs_length x Hev). pose proof (pairs_length y Hevy). lia. }
  unfold vmullo, vsrai, vslli.
  rewrite !(vlift1_bytes 16 2) by auto with wk.
  rewrite !(vlift2_bytes 16 2) by (auto with wk; apply Forall16_map; apply srai16_range).
  rewrite (vlift1_bytes 16 2) by (auto with wk; apply Forall_map2; apply mul16_range).
  rewrite Hblend.
  - rewrite mul8_fusion. unfold mul8. symmetry. apply bytes8_unpairs.
    apply Forall_map2. intros a b. unfold mul8_word, blend_odd.
    pose proof (in_range_wrap 16 (mullo16 (srai16_8 a) (srai16_8 b) * 256) ltac:(lia)) as Ho.
    fold (slli16_8 (mullo16 (srai16_8 a) (srai16_8 b))) in Ho.
    generalize dependent (slli16_8 (mullo16 (srai16_8 a) (srai16_8 b))). generalize (mullo16 a b). intros q p Hp.
    unfold in_range in *. change (2 ^ 16) with 65536 in *. dlia.
  - apply map2_length. exact Hpl.
  - rewrite map_length, map2_length; rewrite !map_length; [reflexivity | exact Hpl].
  - apply Forall16_map. apply slli16_range.
Qed.

(** * 32 <-> 64 *)

Definition pair32 (f : Z -> Z -> Z) (x y : Z) : Z :=
  f (x mod 2 ^ 32) (y mod 2 ^ 32) + 2 ^ 32 * f ((x / 2 ^ 32) mod 2 ^ 32) ((y / 2 ^ 32) mod 2 ^ 32).
Definition swap32 (y : Z) : Z := (y / 2 ^ 32) mod 2 ^ 32 + 2 ^ 32 * (y mod 2 ^ 32).
Definition and_hi (s : Z) : Z := 2 ^ 32 * ((s / 2 ^ 32) mod 2 ^ 32).

Lemma lanes32_chunk8 x : lanes_of 32 (le_bytes 8 x) = [x mod 2 ^ 32; (x / 2 ^ 32) mod 2 ^ 32].
Proof.
  change 8%nat with (4 + 4)%nat. rewrite le_bytes_app.
  rewrite <- (app_nil_r (le_bytes 4 (x / 256 ^ Z.of_nat 4))).
  rewrite (lanes_of_app_chunk 32 4) by (auto with wk; apply le_bytes_length).
  rewrite (lanes_of_app_chunk 32 4) by (auto with wk; apply le_bytes_length).
  rewrite lanes_of_nil, !le_val_le_bytes. reflexivity.
Qed.

Lemma bytes32_pair u v : 0 <= u < 2 ^ 32 -> bytes_of 32 [u; v] = le_bytes 8 (u + 2 ^ 32 * v).
Proof.
  intros Hu. unfold bytes_of. cbn [flat_map]. change (nbytes 32) with 4%nat. rewrite app_nil_r.
  apply (le_bytes_join 4 4). exact Hu.
Qed.

Lemma vlift2_32_chunk f x y : (forall a b, in_range 32 (f a b)) ->
  vlift2 32 f (le_bytes 8 x) (le_bytes 8 y) = le_bytes 8 (pair32 f x y).
Proof.
  intros Hf. unfold vlift2. rewrite !lanes32_chunk8. cbn [map2]. rewrite bytes32_pair by apply Hf. reflexivity.
Qed.

Lemma vlift2_32_on_64 f X Y : (forall a b, in_range 32 (f a b)) -> length X = length Y ->
  vlift2 32 f (bytes_of 64 X) (bytes_of 64 Y) = bytes_of 64 (map2 (pair32 f) X Y).
Proof.
  intros Hf. revert Y. induction X as [|x X IH]; intros [|y Y] Hl; cbn [length] in Hl; try lia; [reflexivity|].
  cbn [map2]. rewrite !bytes_of_cons. change (nbytes 64) with 8%nat.
  rewrite (vlift2_app 32 4) by (auto with wk; rewrite !le_bytes_length; reflexivity).
  rewrite vlift2_32_chunk by exact Hf. rewrite IH by lia. reflexivity.
Qed.

Lemma pair32_range f x y : (forall a b, in_range 32 (f a b)) -> in_range 64 (pair32 f x y).
Proof.
  intros Hf. unfold pair32. pose proof (Hf (x mod 2 ^ 32) (y mod 2 ^ 32)) as H1.
  pose proof (Hf ((x / 2 ^ 32) mod 2 ^ 32) ((y / 2 ^ 32) mod 2 ^ 32)) as H2.
  unfold in_range in *. change (2 ^ 64) with (2 ^ 32 * 2 ^ 32). change (2 ^ 32) with 4294967296 in *. lia.
Qed.

(* PSHUFD 0xB1 swaps the two dwords of every qword *)
Lemma vshuffle177_on_64 Y : Nat.even (length Y) = true ->
  vshuffle_epi32 177 (bytes_of 64 Y) = bytes_of 64 (map swap32 Y).
Proof.
  induction Y as [|a|a b Y IH] using RegArith.list_ind2; intros Hev.
  - reflexivity.
  - discriminate.
  - cbn [length Nat.even] in Hev. specialize (IH Hev).
    unfold vshuffle_epi32 in *. cbn [map]. rewrite !bytes_of_cons. change (nbytes 64) with 8%nat.
    rewrite app_assoc.
    rewrite (lanes_of_app 32 4) by (auto with wk; rewrite app_length, !le_bytes_length; reflexivity).
    rewrite (lanes_of_app 32 4 (le_bytes 8 a)) by (auto with wk; rewrite !le_bytes_length; reflexivity).
    rewrite !lanes32_chunk8.
    cbn [app]. 
    match goal with |- context [chunks 4 (?p :: ?q :: ?r :: ?s :: ?L)] =>
      change (p :: q :: r :: s :: L) with ([p; q; r; s] ++ L); rewrite (chunks_app 4 [p; q; r; s] L) by (try lia; reflexivity)
    end.
    cbn [flat_map]. rewrite bytes_of_app, IH.
    match goal with |- bytes_of 32 (shuffle4 0 177 [?p; ?q; ?r; ?s]) ++ _ = _ =>
      replace (shuffle4 0 177 [p; q; r; s]) with ([q; p] ++ [s; r]) by reflexivity
    end.
    rewrite bytes_of_app, <- app_assoc.
    rewrite !bytes32_pair by (apply Z.mod_pos_bound; lia). reflexivity.
Qed.

(** * Bitwise operations on wider lanes *)

Lemma land_mod256 a m : Z.land a m mod 256 = Z.land (a mod 256) (m mod 256).
Proof.
  change 256 with (2 ^ 8). rewrite <- !Z.land_ones by lia.
  apply Z.bits_inj'. intros n Hn. rewrite !Z.land_spec.
  destruct (Z.testbit a n), (Z.testbit m n), (Z.testbit (Z.ones 8) n); reflexivity.
Qed.
Lemma land_div256 a m : Z.land a m / 256 = Z.land (a / 256) (m / 256).
Proof. change 256 with (2 ^ 8). rewrite <- !Z.shiftr_div_pow2 by lia. apply Z.shiftr_land. Qed.
Lemma lxor_mod256 a m : Z.lxor a m mod 256 = Z.lxor (a mod 256) (m mod 256).
Proof.
  change 256 with (2 ^ 8). rewrite <- !Z.land_ones by lia.
  apply Z.bits_inj'. intros n Hn. rewrite !Z.lxor_spec, !Z.land_spec, !Z.lxor_spec.
  destruct (Z.testbit a n), (Z.testbit m n), (Z.testbit (Z.ones 8) n); reflexivity.
Qed.
Lemma lxor_div256 a m : Z.lxor a m / 256 = Z.lxor (a / 256) (m / 256).
Proof. change 256 with (2 ^ 8). rewrite <- !Z.shiftr_div_pow2 by lia. apply Z.shiftr_lxor. Qed.

Lemma land_le_bytes k a m : map2 Z.land (le_bytes k a) (le_bytes k m) = le_bytes k (Z.land a m).
Proof.
  revert a m. induction k as [|k IH]; intros a m; [reflexivity|].
  cbn [le_bytes map2]. rewrite IH, land_mod256, land_div256. reflexivity.
Qed.
Lemma lxor_le_bytes k a m : map2 Z.lxor (le_bytes k a) (le_bytes k m) = le_bytes k (Z.lxor a m).
Proof.
  revert a m. induction k as [|k IH]; intros a m; [reflexivity|].
  cbn [le_bytes map2]. rewrite IH, lxor_mod256, lxor_div256. reflexivity.
Qed.

Lemma vand_on w A M : length A = length M -> vand (bytes_of w A) (bytes_of w M) = bytes_of w (map2 Z.land A M).
Proof.
  revert M. induction A as [|a A IH]; intros [|m M] Hl; cbn [length] in Hl; try lia; [reflexivity|].
  cbn [map2]. rewrite !bytes_of_cons. unfold vand in *.
  rewrite map2_app' by (rewrite !le_bytes_length; reflexivity). rewrite IH by lia. rewrite land_le_bytes. reflexivity.
Qed.
Lemma vxor_on w A M : length A = length M -> vxor (bytes_of w A) (bytes_of w M) = bytes_of w (map2 Z.lxor A M).
Proof.
  revert M. induction A as [|a A IH]; intros [|m M] Hl; cbn [length] in Hl; try lia; [reflexivity|].
  cbn [map2]. rewrite !bytes_of_cons. unfold vxor in *.
  rewrite map2_app' by (rewrite !le_bytes_length; reflexivity). rewrite IH by lia. rewrite lxor_le_bytes. reflexivity.
Qed.

Lemma map2_repeat_r' {A B C} (f : A -> B -> C) x v : map2 f x (repeat v (length x)) = map (fun a => f a v) x.
Proof. induction x as [|a x IH]; cbn [length repeat map2 map]; [reflexivity | rewrite IH; reflexivity]. Qed.

(* and with 0xFFFFFFFF00000000 in every qword keeps the high dword *)
Lemma land_255_bytes l : Forall is_byte l -> map2 Z.land l (repeat 255 (length l)) = l.
Proof.
  induction 1 as [|b l Hb _ IH]; [reflexivity|]. cbn [length repeat map2]. rewrite IH. f_equal.
  change 255 with (Z.ones 8). rewrite Z.land_ones by lia. apply Z.mod_small. exact Hb.
Qed.

Lemma and_hi_chunk s : map2 Z.land (le_bytes 8 s) (le_bytes 8 18446744069414584320) = le_bytes 8 (and_hi s).
Proof.
  unfold and_hi. change 8%nat with (4 + 4)%nat. rewrite (le_bytes_app 4 4 s).
  change (le_bytes (4 + 4) 18446744069414584320) with ([0; 0; 0; 0] ++ repeat 255 (length (le_bytes 4 (s / 256 ^ Z.of_nat 4)))).
  rewrite map2_app' by (rewrite le_bytes_length; reflexivity).
  rewrite land_255_bytes by apply le_bytes_bytes.
  replace (map2 Z.land (le_bytes 4 s) [0; 0; 0; 0]) with (le_bytes 4 0)
    by (cbn [le_bytes map2]; rewrite !Z.land_0_r; reflexivity).
  rewrite <- (le_bytes_mod 4 (s / 256 ^ Z.of_nat 4)).
  rewrite (le_bytes_join 4 4) by (change (256 ^ Z.of_nat 4) with 4294967296; lia).
  reflexivity.
Qed.

Lemma vand_hi_on_64 S :
  vand (bytes_of 64 S) (bytes_of 64 (repeat 18446744069414584320 (length S))) = bytes_of 64 (map and_hi S).
Proof.
  induction S as [|s S IH]; [reflexivity|].
  cbn [length repeat map]. rewrite !bytes_of_cons. change (nbytes 64) with 8%nat. unfold vand in *.
  rewrite map2_app' by (rewrite !le_bytes_length; reflexivity). rewrite IH, and_hi_chunk. reflexivity.
Qed.

Lemma and_hi_range s : in_range 64 (and_hi s).
Proof.
  unfold and_hi, in_range. pose proof (Z.mod_pos_bound (s / 2 ^ 32) (2 ^ 32) ltac:(lia)).
  change (2 ^ 64) with (2 ^ 32 * 2 ^ 32). change (2 ^ 32) with 4294967296 in *. lia.
Qed.

(** * The 64-bit multiply *)

Lemma swap32_lo y : in_range 64 y -> swap32 y mod 2 ^ 32 = y / 2 ^ 32.
Proof.
  unfold in_range, swap32. change (2 ^ 64) with 18446744073709551616. change (2 ^ 32) with 4294967296. intros H. dlia.
Qed.
Lemma swap32_hi y : (swap32 y / 2 ^ 32) mod 2 ^ 32 = y mod 2 ^ 32.
Proof. unfold swap32. change (2 ^ 32) with 4294967296. dlia. Qed.
Lemma swap32_range y : in_range 64 (swap32 y).
Proof.
  unfold swap32, in_range. change (2 ^ 64) with 18446744073709551616. change (2 ^ 32) with 4294967296. dlia.
Qed.

(* the per-qword value computed by the instruction sequence *)
Definition mul64_word (x y : Z) : Z :=
  let c := pair32 (i_mul 32) x (swap32 y) in
  i_add 64 (mul_epu32_lane x y) (and_hi (pair32 (i_add 32) (slli_lane 64 32 c) c)).

Lemma mul64_word_correct x y : in_range 64 x -> in_range 64 y -> mul64_word x y = mul64_emul x y.
Proof.
  intros Hx Hy. unfold mul64_word, mul64_emul. cbv zeta.
  assert (Exh : (x / 2 ^ 32) mod 2 ^ 32 = x / 2 ^ 32).
  { unfold in_range in Hx. change (2 ^ 64) with 18446744073709551616 in Hx. change (2 ^ 32) with 4294967296. dlia. }
  assert (Ec : pair32 (i_mul 32) x (swap32 y)
               = wrap 32 (lo32 x * hi32 y) + 2 ^ 32 * wrap 32 (hi32 x * lo32 y)).
  { unfold pair32. rewrite (swap32_lo y Hy), swap32_hi, Exh. reflexivity. }
  rewrite Ec. unfold lo32, hi32, mul_epu32_lane.
  set (cl := wrap 32 (x mod 2 ^ 32 * (y / 2 ^ 32))). set (ch := wrap 32 (x / 2 ^ 32 * (y mod 2 ^ 32))).
  assert (Hcl : in_range 32 cl) by (apply in_range_wrap; lia).
  assert (Hch : in_range 32 ch) by (apply in_range_wrap; lia).
  set (p := x mod 2 ^ 32 * (y mod 2 ^ 32)). clearbody cl ch p. clear Exh Ec Hx Hy.
  unfold pair32, and_hi, slli_lane, i_add, wrap, in_range in *.
  change (2 ^ 64) with 18446744073709551616. change (2 ^ 32) with 4294967296 in *.
  dlia.
Qed.

Lemma mul_epu32_range a b : in_range 64 (mul_epu32_lane a b).
Proof.
  unfold mul_epu32_lane, in_range. pose proof (Z.mod_pos_bound a (2 ^ 32) ltac:(lia)). pose proof (Z.mod_pos_bound b (2 ^ 32) ltac:(lia)).
  change (2 ^ 64) with (2 ^ 32 * 2 ^ 32). change (2 ^ 32) with 4294967296 in *. nia.
Qed.

Lemma mul64_fusion (X Y : list Z) :
  map2 (i_add 64) (map2 mul_epu32_lane X Y)
       (map and_hi (map2 (pair32 (i_add 32))
                         (map (slli_lane 64 32) (map2 (pair32 (i_mul 32)) X (map swap32 Y)))
                         (map2 (pair32 (i_mul 32)) X (map swap32 Y))))
  = map2 mul64_word X Y.
Proof. revert Y. induction X as [|a X IH]; intros [|b Y]; cbn [map map2]; try reflexivity. rewrite IH. reflexivity. Qed.

Lemma map2_ext_in {A B C} (P : A -> Prop) (Q : B -> Prop) (f g : A -> B -> C) x y :
  (forall a b, P a -> Q b -> f a b = g a b) -> Forall P x -> Forall Q y -> map2 f x y = map2 g x y.
Proof.
  intros H Fx. revert y. induction Fx as [|a x Ha _ IH]; intros y Fy; [reflexivity|].
  destruct Fy as [|b y Hb Fy]; cbn [map2]; [reflexivity|]. rewrite H, IH by assumption. reflexivity.
Qed.

Lemma mul64_sequence X Y :
  length X = length Y -> Forall (in_range 64) X -> Forall (in_range 64) Y -> Nat.even (length X) = true ->
  let bX := bytes_of 64 X in
  let bY := bytes_of 64 Y in
  let C := vmullo 32 bX (vshuffle_epi32 177 bY) in
  vadd 64 (vmul_epu32 bX bY)
          (vand (vadd 32 (vslli 64 32 C) C) (bytes_of 64 (repeat 18446744069414584320 (length X))))
  = bytes_of 64 (map2 mul64_emul X Y).
Proof.
  intros Hl FX FY Hev. cbv zeta.
  assert (Hi32m : forall a b, in_range 32 (i_mul 32 a b)) by (intros; apply in_range_wrap; lia).
  assert (Hi32a : forall a b, in_range 32 (i_add 32 a b)) by (intros; apply in_range_wrap; lia).
  rewrite vshuffle177_on_64 by (rewrite <- Hl; exact Hev).
  unfold vmullo, vadd, vslli, vmul_epu32.
  rewrite (vlift2_32_on_64 (i_mul 32)) by (auto; rewrite map_length; exact Hl).
  set (C := map2 (pair32 (i_mul 32)) X (map swap32 Y)).
  assert (FC : Forall (in_range 64) C) by (apply Forall_map2; intros; apply pair32_range; exact Hi32m).
  assert (LC : length C = length X) by (apply map2_length; rewrite map_length; exact Hl).
  rewrite (vlift1_bytes 64 8) by auto with wk.
  rewrite (vlift2_32_on_64 (i_add 32)) by (auto; rewrite map_length; reflexivity).
  rewrite (vlift2_bytes 64 8 mul_epu32_lane) by auto with wk.
  match goal with |- context [vand (bytes_of 64 ?S) _] =>
    replace (length X) with (length S) by (rewrite map2_length; rewrite map_length; [exact LC | reflexivity])
  end.
  rewrite vand_hi_on_64.
  rewrite (vlift2_bytes 64 8);
    [ | auto with wk | apply Forall_map2; apply mul_epu32_range | apply Forall_map'; apply and_hi_range ].
  subst C. rewrite mul64_fusion. f_equal.
  apply (map2_ext_in (in_range 64) (in_range 64)); [|assumption|assumption].
  intros a b Ha Hb. apply mul64_word_correct; assumption.
Qed.

(** * Byte blend of 64-bit lanes, 64-bit compare, max / min *)

Lemma byte_of_div k z : byte_of k (z / 256) = byte_of (S k) z.
Proof.
  unfold byte_of. rewrite Nat2Z.inj_succ, Z.pow_succ_r by lia.
  rewrite Z.div_div by (try apply Z.pow_pos_nonneg; lia). reflexivity.
Qed.

Lemma le_bytes_byte_of k z : le_bytes k z = map (fun j => byte_of j z) (seq 0 k).
Proof.
  revert z. induction k as [|k IH]; intros z; [reflexivity|].
  cbn [le_bytes seq map]. f_equal.
  - unfold byte_of. change (256 ^ Z.of_nat 0) with 1. rewrite Z.div_1_r. reflexivity.
  - rewrite IH, <- seq_shift, map_map. apply map_ext. intros j. apply byte_of_div.
Qed.

Lemma blendv64_le_val a b m :
  blendv64 a b m = le_val (map3 blendv_byte (le_bytes 8 a) (le_bytes 8 b) (le_bytes 8 m)).
Proof.
  rewrite !le_bytes_byte_of. unfold blendv64. cbn [seq map map3 fold_right le_val]. unfold blendv_byte.
  change (256 ^ Z.of_nat 0) with 1. change (256 ^ Z.of_nat 1) with 256. change (256 ^ Z.of_nat 2) with 65536.
  change (256 ^ Z.of_nat 3) with 16777216. change (256 ^ Z.of_nat 4) with 4294967296.
  change (256 ^ Z.of_nat 5) with 1099511627776. change (256 ^ Z.of_nat 6) with 281474976710656.
  change (256 ^ Z.of_nat 7) with 72057594037927936.
  ring.
Qed.

Lemma blendv_byte_is_byte a b m : is_byte a -> is_byte b -> is_byte (blendv_byte a b m).
Proof. unfold blendv_byte. intros. destruct (128 <=? m); assumption. Qed.

Lemma Forall_map3_in {A B C D} (P : A -> Prop) (Q : B -> Prop) (R : D -> Prop) (f : A -> B -> C -> D) x y z :
  (forall a b c, P a -> Q b -> R (f a b c)) -> Forall P x -> Forall Q y -> Forall R (map3 f x y z).
Proof.
  intros H Fx. revert y z. induction Fx as [|a x Ha _ IH]; intros y z Fy; [constructor|].
  destruct Fy as [|b y Hb Fy]; destruct z as [|c z]; cbn [map3]; constructor; auto.
Qed.

Lemma map3_length {A B C D} (f : A -> B -> C -> D) x y z :
  length x = length y -> length x = length z -> length (map3 f x y z) = length x.
Proof.
  revert y z. induction x as [|a x IH]; intros [|b y] [|c z] H1 H2; cbn in *; try lia. rewrite IH; lia.
Qed.

Lemma blendv_chunk8 a b m :
  map3 blendv_byte (le_bytes 8 a) (le_bytes 8 b) (le_bytes 8 m) = le_bytes 8 (blendv64 a b m).
Proof.
  rewrite blendv64_le_val.
  set (L := map3 blendv_byte (le_bytes 8 a) (le_bytes 8 b) (le_bytes 8 m)).
  assert (HL : length L = 8%nat) by (subst L; rewrite map3_length; rewrite !le_bytes_length; reflexivity).
  rewrite <- HL. symmetry. apply le_bytes_le_val. subst L.
  eapply Forall_map3_in; [intros; apply blendv_byte_is_byte; eassumption | apply le_bytes_bytes | apply le_bytes_bytes].
Qed.

Lemma blendv64_range a b m : in_range 64 (blendv64 a b m).
Proof.
  rewrite blendv64_le_val. unfold in_range. change (2 ^ 64) with (256 ^ Z.of_nat 8).
  set (L := map3 blendv_byte (le_bytes 8 a) (le_bytes 8 b) (le_bytes 8 m)).
  assert (HL : length L = 8%nat) by (subst L; rewrite map3_length; rewrite !le_bytes_length; reflexivity).
  rewrite <- HL. apply le_val_range. subst L.
  eapply Forall_map3_in; [intros; apply blendv_byte_is_byte; eassumption | apply le_bytes_bytes | apply le_bytes_bytes].
Qed.

Lemma vblendv_on_64 A B M : length A = length B -> length A = length M ->
  vblendv_epi8 (bytes_of 64 A) (bytes_of 64 B) (bytes_of 64 M) = bytes_of 64 (map3 blendv64 A B M).
Proof.
  revert B M. induction A as [|a A IH]; intros [|b B] [|m M] H1 H2; cbn [length] in *; try lia; [reflexivity|].
  cbn [map3]. rewrite !bytes_of_cons. change (nbytes 64) with 8%nat. unfold vblendv_epi8 in *.
  rewrite map3_app by (rewrite !le_bytes_length; reflexivity). rewrite IH by lia. rewrite blendv_chunk8. reflexivity.
Qed.

Lemma cmpgt64_range a b : in_range 64 (cmpgt_lane 64 a b).
Proof. unfold cmpgt_lane, in_range. change (2 ^ 64) with 18446744073709551616. destruct (_ <? _); lia. Qed.

Lemma lxor_sign_range x : in_range 64 x -> in_range 64 (Z.lxor x sign_bit64).
Proof.
  intros Hx. rewrite (RegArith.lxor_sign x Hx). unfold in_range in *.
  change (2 ^ 64) with 18446744073709551616 in *. change (2 ^ 63) with 9223372036854775808.
  destruct (Z.ltb_spec x 9223372036854775808); lia.
Qed.

(* blend(a, b, cmpgt(p, q)) with a, b, p, q registers of 64-bit lanes *)
Lemma blend_cmp_on_64 A B P Q :
  length A = length B -> length A = length P -> length P = length Q ->
  Forall (in_range 64) P -> Forall (in_range 64) Q ->
  vblendv_epi8 (bytes_of 64 A) (bytes_of 64 B) (vcmpgt 64 (bytes_of 64 P) (bytes_of 64 Q))
  = bytes_of 64 (map3 blendv64 A B (map2 cmpgt64 P Q)).
Proof.
  intros H1 H2 H3 FP FQ. unfold vcmpgt. rewrite (vlift2_bytes 64 8) by auto with wk.
  rewrite vblendv_on_64 by (try assumption; rewrite map2_length; lia). reflexivity.
Qed.

Lemma vxor_sign_on_64 X : Forall (in_range 64) X ->
  vxor (bytes_of 64 X) (bytes_of 64 (repeat 9223372036854775808 (length X))) = bytes_of 64 (map (fun x => Z.lxor x sign_bit64) X).
Proof. intros FX. rewrite vxor_on by (rewrite repeat_length; reflexivity). rewrite map2_repeat_r'. reflexivity. Qed.

Lemma max64_fusion_s (X Y : list Z) : map3 blendv64 Y X (map2 cmpgt64 X Y) = map2 (max64_emul true) X Y.
Proof. revert Y. induction X as [|a X IH]; intros [|b Y]; cbn [map3 map2]; try reflexivity. rewrite IH. reflexivity. Qed.
Lemma min64_fusion_s (X Y : list Z) : map3 blendv64 X Y (map2 cmpgt64 X Y) = map2 (min64_emul true) X Y.
Proof. revert Y. induction X as [|a X IH]; intros [|b Y]; cbn [map3 map2]; try reflexivity. rewrite IH. reflexivity. Qed.
Lemma max64_fusion_u (X Y : list Z) :
  map3 blendv64 Y X (map2 cmpgt64 (map (fun x => Z.lxor x sign_bit64) X) (map (fun x => Z.lxor x sign_bit64) Y))
  = map2 (max64_emul false) X Y.
Proof. revert Y. induction X as [|a X IH]; intros [|b Y]; cbn [map3 map2 map]; try reflexivity. rewrite IH. reflexivity. Qed.
Lemma min64_fusion_u (X Y : list Z) :
  map3 blendv64 X Y (map2 cmpgt64 (map (fun x => Z.lxor x sign_bit64) X) (map (fun x => Z.lxor x sign_bit64) Y))
  = map2 (min64_emul false) X Y.
Proof. revert Y. induction X as [|a X IH]; intros [|b Y]; cbn [map3 map2 map]; try reflexivity. rewrite IH. reflexivity. Qed.

Section MaxMin64.
  Variables X Y : list Z.
  Hypothesis Hl : length X = length Y.
  Hypothesis FX : Forall (in_range 64) X.
  Hypothesis FY : Forall (in_range 64) Y.
  Let bX := bytes_of 64 X.
  Let bY := bytes_of 64 Y.
  Let sb := bytes_of 64 (repeat 9223372036854775808 (length X)).

  Lemma max64_sequence_s : vblendv_epi8 bY bX (vcmpgt 64 bX bY) = bytes_of 64 (map2 (max64_emul true) X Y).
  Proof. subst bX bY. rewrite blend_cmp_on_64 by (auto; lia). f_equal. apply max64_fusion_s. Qed.
  Lemma min64_sequence_s : vblendv_epi8 bX bY (vcmpgt 64 bX bY) = bytes_of 64 (map2 (min64_emul true) X Y).
  Proof. subst bX bY. rewrite blend_cmp_on_64 by (auto; lia). f_equal. apply min64_fusion_s. Qed.

  Lemma Fxor l : Forall (in_range 64) l -> Forall (in_range 64) (map (fun x => Z.lxor x sign_bit64) l).
  Proof. induction 1; cbn [map]; constructor; auto using lxor_sign_range. Qed.

  Lemma max64_sequence_u :
    vblendv_epi8 bY bX (vcmpgt 64 (vxor bX sb) (vxor bY sb)) = bytes_of 64 (map2 (max64_emul false) X Y).
  Proof.
    subst bX bY sb. rewrite (vxor_sign_on_64 X FX). rewrite Hl at 1. rewrite (vxor_sign_on_64 Y FY).
    rewrite blend_cmp_on_64 by (rewrite ?map_length; auto using Fxor; lia). f_equal. apply max64_fusion_u.
  Qed.
  Lemma min64_sequence_u :
    vblendv_epi8 bX bY (vcmpgt 64 (vxor bX sb) (vxor bY sb)) = bytes_of 64 (map2 (min64_emul false) X Y).
  Proof.
    subst bX bY sb. rewrite (vxor_sign_on_64 X FX). rewrite Hl at 1. rewrite (vxor_sign_on_64 Y FY).
    rewrite blend_cmp_on_64 by (rewrite ?map_length; auto using Fxor; lia). f_equal. apply min64_fusion_u.
  Qed.
End MaxMin64.
