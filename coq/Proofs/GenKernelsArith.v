(* The 8 element-wise arithmetic kernels (C02).
   Part of the tie Gen/GenKernels.v (regenerated from op_*.rs on every run) = Model/Kernels.v; see
   Proofs/GenKernelsProofs.v.  One file per kernel family so that a change of ONE kernel's source breaks only the
   properties that speak about that family. *)
From Coq Require Import List Arith Bool String.
From CF Require Import Base.Mem Model.Tables Model.SimdApi Model.Kernels.
From CF Require Import Gen.GenKernels.
Import ListNotations.

Section Eq.
  Context {T : Type}.
  Variable R : SimdOps T.
  Variable Mth : MathOps T.

  Lemma gen_add_vector_is_model dims : gen_generic_add_vector R Mth dims = generic_add_vector R Mth dims.
  Proof. reflexivity. Qed.
  Lemma gen_sub_vector_is_model dims : gen_generic_sub_vector R Mth dims = generic_sub_vector R Mth dims.
  Proof. reflexivity. Qed.
  Lemma gen_mul_vector_is_model dims : gen_generic_mul_vector R Mth dims = generic_mul_vector R Mth dims.
  Proof. reflexivity. Qed.
  Lemma gen_div_vector_is_model dims : gen_generic_div_vector R Mth dims = generic_div_vector R Mth dims.
  Proof. reflexivity. Qed.
  Lemma gen_add_value_is_model dims value :
    gen_generic_add_value R Mth dims value = generic_add_value R Mth dims value.
  Proof. reflexivity. Qed.
  Lemma gen_sub_value_is_model dims value :
    gen_generic_sub_value R Mth dims value = generic_sub_value R Mth dims value.
  Proof. reflexivity. Qed.
  Lemma gen_mul_value_is_model dims value :
    gen_generic_mul_value R Mth dims value = generic_mul_value R Mth dims value.
  Proof. reflexivity. Qed.
  Lemma gen_div_value_is_model dims value :
    gen_generic_div_value R Mth dims value = generic_div_value R Mth dims value.
  Proof. reflexivity. Qed.
End Eq.
