(* C06 (iii): the float cosine distance is EXACTLY symmetric in its two arguments — for every back end whose lanes are
   Flocq's correctly rounded operations ([FloatLanewise]: Fallback, Avx2, Avx2Fma, Avx512), every length and ALL
   inputs (NaN, infinities, signed zeros, subnormals included): [run cosine a b] and [run cosine b a] both return,
   and return the same [binary_float] value (one NaN: bit-identical up to the NaN payload).

   Proof.  (1) IEEE multiplication and the fused multiply-add commute in their first two arguments as FUNCTIONS
   ([Bmult_comm], [Bfma_comm]: case analysis; the finite*finite results are built from the same SpecFloat, compared
   through [B2SF_inj]).  (2) Proofs/KernelValue.v: cosine a b = cosine (dot_ref a b) (norm_ref a) (norm_ref b).
   (3) [dot_ref a b = dot_ref b a] by lock-step induction over the three loops ([pure3_rel]) — the accumulators are
   equal at every step because each step is an fmadd (or mul-then-add) whose first two operands are swapped;
   swapping a and b swaps the two norms, and [cosine d nx ny = cosine d ny nx] (&&, || and the product commute).
   Flocq's reals bring the 4 standard-library axioms; no others. *)
From Coq Require Import ZArith List Arith Bool Lia.
From Flocq Require Import Core.Zaux Core.Defs Calc.Operations IEEE754.BinarySingleNaN.
From CF Require Import Base.Mem Model.SimdApi Model.Kernels Model.Tables Model.Prim Model.Regs.
From CF Require Import Proofs.MemProofs Proofs.KernelRules Proofs.KernelSafety Proofs.KernelBounds Proofs.OpsWf
     Proofs.ListFacts Proofs.FloatBackends Proofs.BackendTable Proofs.KernelValue.
Import ListNotations.

(** * (1) commutativity of the IEEE product and fused multiply-add *)
Section Comm.
  Context {prec emax : Z} {Hp : FLX.Prec_gt_0 prec} {He : Prec_lt_emax prec emax}.
  Notation bf := (binary_float prec emax).

  Lemma Bmult_comm (x y : bf) : Bmult mode_NE x y = Bmult mode_NE y x.
  Proof.
    destruct x as [sx|sx| |sx mx ex Hx], y as [sy|sy| |sy my ey Hy]; cbn [Bmult];
      try reflexivity; try (rewrite xorb_comm; reflexivity).
    apply B2SF_inj. rewrite !B2SF_SF2B.
    rewrite (xorb_comm sx sy), (Pos.mul_comm mx my), (Z.add_comm ex ey). reflexivity.
  Qed.

  Lemma Fmult_comm' (x y : float radix2) : Fmult x y = Fmult y x.
  Proof. destruct x as [mx ex], y as [my ey]. unfold Fmult. rewrite Z.mul_comm, Z.add_comm. reflexivity. Qed.

  Lemma Bfma_szero_comm m (x y z : bf) : Bfma_szero prec emax m x y z = Bfma_szero prec emax m y x z.
  Proof. unfold Bfma_szero. rewrite (xorb_comm (Bsign x) (Bsign y)). reflexivity. Qed.

  Lemma Bfma_comm (x y z : bf) : Bfma mode_NE x y z = Bfma mode_NE y x z.
  Proof.
    destruct x as [sx|sx| |sx mx ex Hx], y as [sy|sy| |sy my ey Hy]; cbn [Bfma];
      try reflexivity; try (rewrite (xorb_comm sx sy); reflexivity).
    all: destruct z as [sz|sz| |sz mz ez Hz]; try reflexivity.
    all: try (f_equal; apply (Bfma_szero_comm mode_NE)).
    all: rewrite (Fmult_comm' {| Fnum := SpecFloat.cond_Zopp sx (Z.pos mx); Fexp := ex |}),
           (Bfma_szero_comm mode_NE (B754_finite sx mx ex Hx)); reflexivity.
  Qed.

  Lemma f_mul_comm (x y : bf) : f_mul x y = f_mul y x. Proof. apply Bmult_comm. Qed.
  Lemma f_fma_comm (x y z : bf) : f_fma x y z = f_fma y x z. Proof. apply Bfma_comm. Qed.
End Comm.

(** * list facts *)
Lemma map2_comm {A C} (f : A -> A -> C) x y : (forall p q, f p q = f q p) -> map2 f x y = map2 f y x.
Proof.
  intros H. revert y. induction x as [|p x IH]; intros [|q y]; try reflexivity.
  cbn [map2]. rewrite H, IH. reflexivity.
Qed.
Lemma map3_comm12 {A C} (f : A -> A -> A -> C) x y z :
  (forall p q r, f p q r = f q p r) -> map3 f x y z = map3 f y x z.
Proof.
  intros H. revert y z. induction x as [|p x IH]; intros [|q y] [|r z]; try reflexivity.
  cbn [map3]. rewrite H, IH. reflexivity.
Qed.
Lemma map3_comm12_Forall {A C} (P : A -> Prop) (f : A -> A -> A -> C) x y z :
  Forall P x -> Forall P y -> Forall P z ->
  (forall p q r, P p -> P q -> P r -> f p q r = f q p r) -> map3 f x y z = map3 f y x z.
Proof.
  intros Fx. revert y z. induction Fx as [|p x Pp Fx IH]; intros [|q y] [|r z] Fy Fz H; try reflexivity.
  inversion Fy; subst. inversion Fz; subst. cbn [map3]. rewrite H, IH by assumption. reflexivity.
Qed.
Lemma Forall_map3 {A C} (P : A -> Prop) (Q : C -> Prop) (f : A -> A -> A -> C) x y z :
  Forall P x -> Forall P y -> Forall P z ->
  (forall p q r, P p -> P q -> P r -> Q (f p q r)) -> Forall Q (map3 f x y z).
Proof.
  intros Fx. revert y z. induction Fx as [|p x Pp Fx IH]; intros [|q y] [|r z] Fy Fz H; try constructor.
  - inversion Fy; subst. inversion Fz; subst. apply H; assumption.
  - inversion Fy; subst. inversion Fz; subst. apply IH; assumption.
Qed.

(** * (3) symmetry of the kernels *)
Section Sym.
  Context {prec emax : Z} {Hp : FLX.Prec_gt_0 prec} {He : Prec_lt_emax prec emax}.
  Notation bf := (binary_float prec emax).
  Variable R : SimdOps bf.
  Variables vmax vmin : bf -> bf -> bf.
  Variable fused : bool.
  Hypothesis FL : FloatLanewise R vmax vmin fused.
  Notation Ln := (lanes R).
  Let HL : 1 <= Ln := wf_L R (fl_wf R vmax vmin fused FL).
  Notation Mth := (@float_math prec emax Hp He).
  Notation okl := (fun r : vreg bf => length r = Ln).

  Lemma fmadd_comm x y z : okl x -> okl y -> okl z -> r_fmadd R x y z = r_fmadd R y x z.
  Proof.
    intros Lx Ly Lz. rewrite !(fl_fmadd R vmax vmin fused FL) by assumption. destruct fused.
    - apply map3_comm12. intros. apply f_fma_comm.
    - f_equal. apply map2_comm. intros. apply f_mul_comm.
  Qed.
  Lemma fmadd_len x y z : okl x -> okl y -> okl z -> okl (r_fmadd R x y z).
  Proof.
    intros Lx Ly Lz. cbv beta in *. rewrite (fl_fmadd R vmax vmin fused FL) by assumption. destruct fused.
    - rewrite map3_length. lia.
    - rewrite !map2_length. lia.
  Qed.

  Definition dwf (d : dense bf) : Prop := length d = 8 /\ Forall okl d.

  Lemma dwf_dense_at (sl : list bf) i : i + Ln * 8 <= length sl -> dwf (dense_at Ln sl i).
  Proof.
    intros H. split; [reflexivity|]. unfold dense_at.
    repeat (constructor; [rewrite firstn_length, skipn_length; lia|]). constructor.
  Qed.
  Lemma dwf_zero : dwf (zeroed_dense R).
  Proof.
    unfold zeroed_dense, dense_copy, NUM_LANES. rewrite (fl_zero R vmax vmin fused FL). split; [reflexivity|].
    cbn [repeat]. repeat (constructor; [apply repeat_length|]). constructor.
  Qed.
  Lemma fmadd_dense_comm x y z : dwf x -> dwf y -> dwf z -> r_fmadd_dense R x y z = r_fmadd_dense R y x z.
  Proof.
    intros [_ Fx] [_ Fy] [_ Fz]. rewrite !(fl_fmadd_dense R vmax vmin fused FL). unfold apply_dense3.
    apply (map3_comm12_Forall okl); auto. intros p q r. apply fmadd_comm.
  Qed.
  Lemma fmadd_dense_wf x y z : dwf x -> dwf y -> dwf z -> dwf (r_fmadd_dense R x y z).
  Proof.
    intros [Lx Fx] [Ly Fy] [Lz Fz]. rewrite (fl_fmadd_dense R vmax vmin fused FL). unfold apply_dense3. split.
    - rewrite map3_length. unfold dense, vreg in *. lia.
    - apply (Forall_map3 okl); auto. intros p q r. apply fmadd_len.
  Qed.
  Lemma roll_len d : dwf d -> okl (sum_to_register R d).
  Proof.
    intros [L8 F]. unfold sum_to_register, rollup, nth_reg.
    assert (K : forall k, k < 8 -> length (nth k d []) = Ln).
    { intros k Hk. rewrite Forall_forall in F. apply F. apply nth_In. unfold dense, vreg in *. lia. }
    pose proof (wf_add R (fl_wf R vmax vmin fused FL)) as A.
    apply A; apply A; apply A || apply K; try apply K; lia.
  Qed.

  Variable dims : nat.
  Variables a b : list bf.
  Hypothesis Ha : length a = dims.
  Hypothesis Hb : length b = dims.

  Lemma blk_len (sl : list bf) i : i + Ln <= length sl -> okl (blk R sl i).
  Proof. intros H. unfold blk. rewrite firstn_length, skipn_length. lia. Qed.

  Theorem dot_ref_comm : dot_ref R Mth dims a b = dot_ref R Mth dims b a.
  Proof.
    unfold dot_ref.
    apply (pure3_rel Ln dims HL (fun x x' => x = x' /\ dwf x) (fun x x' => x = x' /\ okl x) (fun x x' => x = x')).
    - split; [reflexivity | apply dwf_zero].
    - intros i x x' Hi [<- Hx].
      assert (Da : dwf (dense_at Ln a i)) by (apply dwf_dense_at; lia).
      assert (Db : dwf (dense_at Ln b i)) by (apply dwf_dense_at; lia).
      split; [apply fmadd_dense_comm; assumption | apply fmadd_dense_wf; assumption].
    - intros x x' [<- Hx]. split; [reflexivity | apply roll_len; exact Hx].
    - intros i x x' Hi [<- Hx].
      assert (La : okl (blk R a i)) by (apply blk_len; lia).
      assert (Lb : okl (blk R b i)) by (apply blk_len; lia).
      split; [apply fmadd_comm; assumption | apply fmadd_len; assumption].
    - intros x x' [<- _]. reflexivity.
    - intros i x x' Hi <-. cbn [float_math m_add m_mul]. f_equal. apply f_mul_comm.
  Qed.

  Lemma cosine_comm (d nx ny : bf) : cosine Mth d nx ny = cosine Mth d ny nx.
  Proof.
    unfold cosine. cbn [float_math m_cmp_eq m_zero m_one m_div m_sqrt m_mul m_sub].
    rewrite (andb_comm (f_eq nx f_zero)), (orb_comm (f_eq nx f_zero)), (f_mul_comm nx ny). reflexivity.
  Qed.

  Theorem cosine_symmetric res res' :
    match generic_cosine R Mth dims (init_mem a b res), generic_cosine R Mth dims (init_mem b a res') with
    | Ok x m, Ok y m' => x = y /\ run_ok (init_mem a b res) m /\ run_ok (init_mem b a res') m'
    | _, _ => False
    end.
  Proof.
    pose proof (cosine_run R Mth HL a b res dims Ha Hb) as H1.
    pose proof (cosine_run R Mth HL b a res' dims Hb Ha) as H2.
    rewrite <- dot_ref_comm, cosine_comm in H2.
    set (c := cosine Mth (dot_ref R Mth dims a b) (norm_ref R Mth dims a) (norm_ref R Mth dims b)) in *.
    assert (Hc : c <> None).
    { unfold c, cosine. cbn [float_math m_div]. destruct (_ && _); [discriminate|]. destruct (_ || _); discriminate. }
    destruct (generic_cosine R Mth dims (init_mem a b res)) as [x m|m| |]; try contradiction;
      destruct (generic_cosine R Mth dims (init_mem b a res')) as [y m'|m'| |]; try contradiction;
        destruct H1 as [S1 E1]; destruct H2 as [S2 E2]; try congruence.
    split; [congruence | split; assumption].
  Qed.
End Sym.

Theorem cosine_symmetric_any :
  forall prec emax (Hp : FLX.Prec_gt_0 prec) (He : Prec_lt_emax prec emax)
         (R : SimdOps (binary_float prec emax)) vmax vmin fused,
    FloatLanewise R vmax vmin fused ->
    forall dims a b res res', length a = dims -> length b = dims ->
      match generic_cosine R float_math dims (init_mem a b res),
            generic_cosine R float_math dims (init_mem b a res') with
      | Ok x m, Ok y m' => x = y /\ run_ok (init_mem a b res) m /\ run_ok (init_mem b a res') m'
      | _, _ => False
      end.
Proof.
  intros prec emax Hp He R vmax vmin fused FL dims a b res res' Ha Hb.
  exact (cosine_symmetric R vmax vmin fused FL dims a b Ha Hb res res').
Qed.

(* every modelled float back end *)
Theorem f32_cosine_symmetric r R a b res res' dims :
  f32_ops r = Some R -> length a = dims -> length b = dims ->
  match generic_cosine R float_math dims (init_mem a b res), generic_cosine R float_math dims (init_mem b a res') with
  | Ok x m, Ok y m' => x = y /\ run_ok (init_mem a b res) m /\ run_ok (init_mem b a res') m'
  | _, _ => False
  end.
Proof.
  intros HR Ha Hb. exact (cosine_symmetric R _ _ _ (f32_ops_faithful r R HR) dims a b Ha Hb res res').
Qed.

Theorem f64_cosine_symmetric r R a b res res' dims :
  f64_ops r = Some R -> length a = dims -> length b = dims ->
  match generic_cosine R float_math dims (init_mem a b res), generic_cosine R float_math dims (init_mem b a res') with
  | Ok x m, Ok y m' => x = y /\ run_ok (init_mem a b res) m /\ run_ok (init_mem b a res') m'
  | _, _ => False
  end.
Proof.
  intros HR Ha Hb. exact (cosine_symmetric R _ _ _ (f64_ops_faithful r R HR) dims a b Ha Hb res res').
Qed.
