(* Memory-safety invariant of kernel runs and the step lemmas every kernel proof is assembled from.
   Axiom-free. *)
From Coq Require Import List Arith Bool Lia.
From CF Require Import Base.Mem Model.SimdApi Model.Kernels Proofs.MemProofs Proofs.KernelRules.
Import ListNotations.

Section Safety.
  Context {T : Type}.
  Variable m0 : mem T.          (* the memory the kernel was started on *)

  (* Inputs untouched, result slice keeps its length, every logged event lies inside its slice, reads only
     target inputs and writes only target the result. *)
  Definition Safe0 (m : mem T) : Prop :=
    mA m = mA m0 /\ mB m = mB m0 /\ length (mR m) = length (mR m0)
    /\ Forall (fun e => event_in_bounds m0 e /\ event_ok e = true) (trace m).

  (* ... plus a property of the current contents of the result slice. *)
  Definition SafeR (Phi : list T -> Prop) (m : mem T) : Prop := Safe0 m /\ Phi (mR m).

  Lemma Safe0_init : trace m0 = [] -> Safe0 m0.
  Proof. intros H. unfold Safe0. rewrite H. auto. Qed.

  Lemma slice_of_input m s : Safe0 m -> s <> SR -> slice_of m s = slice_of m0 s.
  Proof. intros (HA & HB & _) Hs. destruct s; cbn; congruence. Qed.

  Lemma load_bind (Phi : list T -> Prop) sc s i w {B} (f : list T -> M T B) Q PI :
    s <> SR -> i + w <= length (slice_of m0 s) ->
    triple (SafeR Phi) (f (firstn w (skipn i (slice_of m0 s)))) Q PI ->
    triple (SafeR Phi) (bind (load_gen sc s i w) f) Q PI.
  Proof.
    intros Hs Hb Hf. eapply triple_bind with
        (Qa := fun v m => v = firstn w (skipn i (slice_of m0 s)) /\ SafeR Phi m).
    - apply triple_load_gen. intros m [Hm HP]. rewrite (slice_of_input m s Hm Hs). split; [exact Hb|].
      split; [reflexivity|]. split; [|exact HP].
      destruct Hm as (HA & HB & HR & HT). unfold Safe0, log. cbn. repeat split; auto.
      apply Forall_app. split; [exact HT|]. constructor; [|constructor].
      split; [exact Hb|]. cbn. destruct s; cbn; congruence.
    - intros v m [-> Hm]. apply Hf. exact Hm.
  Qed.

  Lemma store_bind (Phi Phi' : list T -> Prop) sc i v {B} (f : unit -> M T B) Q PI :
    i + length v <= length (mR m0) ->
    (forall r, length r = length (mR m0) -> Phi r -> Phi' (splice r i v)) ->
    triple (SafeR Phi') (f tt) Q PI ->
    triple (SafeR Phi) (bind (store_gen sc i v) f) Q PI.
  Proof.
    intros Hb HPhi Hf. eapply triple_bind with (Qa := fun _ m => SafeR Phi' m).
    - apply triple_store_gen. intros m [(HA & HB & HR & HT) HP]. split; [lia|].
      split; [|cbn; apply HPhi; auto].
      unfold Safe0. cbn. repeat split; auto.
      + rewrite length_splice; lia.
      + apply Forall_app. split; [exact HT|]. constructor; [|constructor].
        split; [exact Hb|reflexivity].
    - intros []. exact Hf.
  Qed.

  Lemma store_last (Phi Phi' : list T -> Prop) sc i v (Q : unit -> mem T -> Prop) PI :
    i + length v <= length (mR m0) ->
    (forall r, length r = length (mR m0) -> Phi r -> Phi' (splice r i v)) ->
    (forall m, SafeR Phi' m -> Q tt m) ->
    triple (SafeR Phi) (store_gen sc i v) Q PI.
  Proof.
    intros Hb HPhi HQ.
    apply triple_store_gen. intros m [(HA & HB & HR & HT) HP]. split; [lia|].
    apply HQ. split; [|cbn; apply HPhi; auto].
    unfold Safe0. cbn. repeat split; auto.
    - rewrite length_splice; lia.
    - apply Forall_app. split; [exact HT|]. constructor; [|constructor].
      split; [exact Hb|reflexivity].
  Qed.

  (* the registers a dense load returns *)
  Definition dense_at (Ln : nat) (sl : list T) (i : nat) : dense T :=
    [firstn Ln (skipn (i + Ln * 0) sl); firstn Ln (skipn (i + Ln * 1) sl);
     firstn Ln (skipn (i + Ln * 2) sl); firstn Ln (skipn (i + Ln * 3) sl);
     firstn Ln (skipn (i + Ln * 4) sl); firstn Ln (skipn (i + Ln * 5) sl);
     firstn Ln (skipn (i + Ln * 6) sl); firstn Ln (skipn (i + Ln * 7) sl)].

  Lemma load_dense_bind (R : SimdOps T) (Phi : list T -> Prop) s i {B} (f : dense T -> M T B) Q PI :
    s <> SR -> i + lanes R * 8 <= length (slice_of m0 s) ->
    triple (SafeR Phi) (f (dense_at (lanes R) (slice_of m0 s) i)) Q PI ->
    triple (SafeR Phi) (bind (load_dense R s i) f) Q PI.
  Proof.
    intros Hs Hb Hf. unfold load_dense.
    repeat (apply triple_bind_assoc; apply load_bind; [exact Hs | lia | ]).
    apply triple_bind_ret_l. exact Hf.
  Qed.

  Lemma write_dense_bind (R : SimdOps T) (Phi0 Phi8 : list T -> Prop) i (l : dense T)
        {B} (f : unit -> M T B) Q PI :
    (forall k, k < 8 -> length (nth_reg l k) = lanes R) ->
    i + lanes R * 8 <= length (mR m0) ->
    (forall r, length r = length (mR m0) -> Phi0 r ->
       Phi8 (splice (splice (splice (splice (splice (splice (splice (splice r
              (i + lanes R * 0) (nth_reg l 0)) (i + lanes R * 1) (nth_reg l 1))
              (i + lanes R * 2) (nth_reg l 2)) (i + lanes R * 3) (nth_reg l 3))
              (i + lanes R * 4) (nth_reg l 4)) (i + lanes R * 5) (nth_reg l 5))
              (i + lanes R * 6) (nth_reg l 6)) (i + lanes R * 7) (nth_reg l 7))) ->
    triple (SafeR Phi8) (f tt) Q PI ->
    triple (SafeR Phi0) (bind (write_dense R i l) f) Q PI.
  Proof.
    intros Hlen Hb HPhi Hf. unfold write_dense.
    pose proof (Hlen 0 ltac:(lia)) as L0. pose proof (Hlen 1 ltac:(lia)) as L1.
    pose proof (Hlen 2 ltac:(lia)) as L2. pose proof (Hlen 3 ltac:(lia)) as L3.
    pose proof (Hlen 4 ltac:(lia)) as L4. pose proof (Hlen 5 ltac:(lia)) as L5.
    pose proof (Hlen 6 ltac:(lia)) as L6. pose proof (Hlen 7 ltac:(lia)) as L7.
    set (P0 := Phi0).
    set (P1 := fun r => exists r0, length r0 = length (mR m0) /\ Phi0 r0 /\ r = splice r0 (i + lanes R * 0) (nth_reg l 0)).
    set (P2 := fun r => exists r0, length r0 = length (mR m0) /\ P1 r0 /\ r = splice r0 (i + lanes R * 1) (nth_reg l 1)).
    set (P3 := fun r => exists r0, length r0 = length (mR m0) /\ P2 r0 /\ r = splice r0 (i + lanes R * 2) (nth_reg l 2)).
    set (P4 := fun r => exists r0, length r0 = length (mR m0) /\ P3 r0 /\ r = splice r0 (i + lanes R * 3) (nth_reg l 3)).
    set (P5 := fun r => exists r0, length r0 = length (mR m0) /\ P4 r0 /\ r = splice r0 (i + lanes R * 4) (nth_reg l 4)).
    set (P6 := fun r => exists r0, length r0 = length (mR m0) /\ P5 r0 /\ r = splice r0 (i + lanes R * 5) (nth_reg l 5)).
    set (P7 := fun r => exists r0, length r0 = length (mR m0) /\ P6 r0 /\ r = splice r0 (i + lanes R * 6) (nth_reg l 6)).
    apply triple_bind_assoc. apply (store_bind P0 P1); [unfold store; lia | intros r Hr HP; exists r; auto |].
    apply triple_bind_assoc. apply (store_bind P1 P2); [lia | intros r Hr HP; exists r; auto |].
    apply triple_bind_assoc. apply (store_bind P2 P3); [lia | intros r Hr HP; exists r; auto |].
    apply triple_bind_assoc. apply (store_bind P3 P4); [lia | intros r Hr HP; exists r; auto |].
    apply triple_bind_assoc. apply (store_bind P4 P5); [lia | intros r Hr HP; exists r; auto |].
    apply triple_bind_assoc. apply (store_bind P5 P6); [lia | intros r Hr HP; exists r; auto |].
    apply triple_bind_assoc. apply (store_bind P6 P7); [lia | intros r Hr HP; exists r; auto |].
    apply (store_bind P7 Phi8); [lia | | exact Hf].
    intros r7 Hr7 (r6 & Hr6 & (r5 & Hr5 & (r4 & Hr4 & (r3 & Hr3 & (r2 & Hr2 & (r1 & Hr1 & (r0 & Hr0 & HP0 & E1)
      & E2) & E3) & E4) & E5) & E6) & E7).
    subst. apply HPhi; auto.
  Qed.

  (* write_dense as eight single-register steps of an index-parametrised invariant *)
  Lemma write_dense_steps (R : SimdOps T) (Phi : nat -> list T -> Prop) i (l : dense T)
        {B} (f : unit -> M T B) Q PI :
    (forall k, k < 8 -> length (nth_reg l k) = lanes R) ->
    i + lanes R * 8 <= length (mR m0) ->
    (forall q r, q < 8 -> length r = length (mR m0) -> Phi (i + lanes R * q) r ->
                 Phi (i + lanes R * S q) (splice r (i + lanes R * q) (nth_reg l q))) ->
    triple (SafeR (Phi (i + lanes R * 8))) (f tt) Q PI ->
    triple (SafeR (Phi i)) (bind (write_dense R i l) f) Q PI.
  Proof.
    intros Hlen Hb Hstep Hf.
    apply (write_dense_bind R (Phi i) (Phi (i + lanes R * 8))); auto.
    intros r Hr HP.
    assert (S1 : forall q r', q < 8 -> length r' = length (mR m0) ->
                   length (splice r' (i + lanes R * q) (nth_reg l q)) = length (mR m0)).
    { intros q r' Hq Hr'. rewrite length_splice; [exact Hr'|]. rewrite (Hlen q Hq), Hr'. nia. }
    replace i with (i + lanes R * 0) in HP by lia.
    pose proof (Hstep 0 _ ltac:(lia) Hr HP) as P1. pose proof (S1 0 _ ltac:(lia) Hr) as L1.
    pose proof (Hstep 1 _ ltac:(lia) L1 P1) as P2. pose proof (S1 1 _ ltac:(lia) L1) as L2.
    pose proof (Hstep 2 _ ltac:(lia) L2 P2) as P3. pose proof (S1 2 _ ltac:(lia) L2) as L3.
    pose proof (Hstep 3 _ ltac:(lia) L3 P3) as P4. pose proof (S1 3 _ ltac:(lia) L3) as L4.
    pose proof (Hstep 4 _ ltac:(lia) L4 P4) as P5. pose proof (S1 4 _ ltac:(lia) L4) as L5.
    pose proof (Hstep 5 _ ltac:(lia) L5 P5) as P6. pose proof (S1 5 _ ltac:(lia) L5) as L6.
    pose proof (Hstep 6 _ ltac:(lia) L6 P6) as P7. pose proof (S1 6 _ ltac:(lia) L6) as L7.
    exact (Hstep 7 _ ltac:(lia) L7 P7).
  Qed.
End Safety.
