(* Hoare-style reasoning for the state/error monad of Base/Mem.v: triples, rules for bind / while_lt,
   specifications of the memory primitives.  Stdlib only, axiom-free. *)
From Coq Require Import List Arith Bool Lia.
From CF Require Import Base.Mem.
Import ListNotations.

Section Triples.
  Context {T : Type}.

  (* {P} c {Q | I}: from a state satisfying P, c never faults and never runs out of fuel; it either returns
     r in a state satisfying Q r, or panics in a state satisfying I. *)
  Definition triple {R} (P : mem T -> Prop) (c : M T R) (Q : R -> mem T -> Prop) (I : mem T -> Prop) : Prop :=
    forall m, P m ->
      match c m with
      | Ok r m' => Q r m'
      | Panic m' => I m'
      | Fault _ => False
      | OutOfFuel => False
      end.

  Lemma triple_ret {R} (P : mem T -> Prop) (r : R) (Q : R -> mem T -> Prop) I :
    (forall m, P m -> Q r m) -> triple P (ret r) Q I.
  Proof. intros H m Hm. cbn. auto. Qed.

  Lemma triple_bind {A B} (P : mem T -> Prop) (c : M T A) (f : A -> M T B)
        (Qa : A -> mem T -> Prop) (Q : B -> mem T -> Prop) I :
    triple P c Qa I -> (forall a, triple (Qa a) (f a) Q I) -> triple P (bind c f) Q I.
  Proof.
    intros Hc Hf m Hm. unfold bind. specialize (Hc m Hm).
    destruct (c m) as [a m'| m' | e |]; auto. apply Hf; auto.
  Qed.

  Lemma triple_conseq {R} (P P' : mem T -> Prop) (c : M T R) (Q Q' : R -> mem T -> Prop) I :
    triple P' c Q' I -> (forall m, P m -> P' m) -> (forall r m, Q' r m -> Q r m) -> triple P c Q I.
  Proof.
    intros H HP HQ m Hm. specialize (H m (HP m Hm)). destruct (c m); auto.
  Qed.

  Lemma triple_panic {R} (P : mem T -> Prop) (Q : R -> mem T -> Prop) (I : mem T -> Prop) :
    (forall m, P m -> I m) -> triple P (@panic T R) Q I.
  Proof. intros H m Hm. cbn. auto. Qed.

  Lemma triple_lift_opt {R} (P : mem T -> Prop) (o : option R) (Q : R -> mem T -> Prop) (I : mem T -> Prop) :
    (forall r m, o = Some r -> P m -> Q r m) -> (forall m, o = None -> P m -> I m) ->
    triple P (lift_opt o) Q I.
  Proof. intros H1 H2 m Hm. destruct o; cbn; auto. Qed.

  (* while_lt with an exact iteration count: bound = i + n * step. *)
  Lemma while_lt_rule {St} (Inv : nat -> St -> mem T -> Prop) (I : mem T -> Prop)
        (step : nat) (body : nat -> St -> M T St) :
    1 <= step ->
    forall n i fuel s,
      n < fuel ->
      (forall k s', k < n ->
         triple (Inv (i + k * step) s') (body (i + k * step) s') (fun s'' => Inv (i + S k * step) s'') I) ->
      triple (Inv i s) (while_lt fuel i (i + n * step) step body s)
             (fun r m => fst r = i + n * step /\ Inv (fst r) (snd r) m) I.
  Proof.
    intros Hstep. induction n as [|n IH]; intros i fuel s Hfuel Hbody.
    - destruct fuel as [|fuel]; [lia|]. cbn [while_lt].
      replace (i <? i + 0 * step) with false by (symmetry; apply Nat.ltb_ge; lia).
      apply triple_ret. intros m Hm. cbn. split; [lia|]. exact Hm.
    - destruct fuel as [|fuel]; [lia|]. cbn [while_lt].
      replace (i <? i + S n * step) with true by (symmetry; apply Nat.ltb_lt; nia).
      eapply triple_bind.
      + pose proof (Hbody 0 s ltac:(lia)) as H0. rewrite Nat.mul_0_l, Nat.add_0_r in H0. exact H0.
      + intros s'. cbn beta.
        replace (i + S n * step) with ((i + step) + n * step) by lia.
        eapply triple_conseq.
        * apply (IH (i + step) fuel s'); [lia|].
          intros k s'' Hk.
          replace (i + step + k * step) with (i + S k * step) by lia.
          replace (i + step + S k * step) with (i + S (S k) * step) by lia.
          apply Hbody. lia.
        * intros m Hm. replace (i + 1 * step) with (i + step) in Hm by lia. exact Hm.
        * intros r m Hr. exact Hr.
  Qed.
End Triples.

(* Monad laws, as equalities of applied computations (no functional extensionality needed: the triple only
   ever looks at [c m]). *)
Lemma triple_ext {T R} (P : mem T -> Prop) (c c' : M T R) Q I :
  (forall m, c m = c' m) -> triple P c' Q I -> triple P c Q I.
Proof. intros E H m Hm. rewrite E. apply H; exact Hm. Qed.

Lemma triple_bind_assoc {T A B C} (P : mem T -> Prop) (c : M T A) (f : A -> M T B) (g : B -> M T C) Q I :
  triple P (bind c (fun x => bind (f x) g)) Q I -> triple P (bind (bind c f) g) Q I.
Proof.
  apply triple_ext. intros m. unfold bind. destruct (c m); reflexivity.
Qed.

Lemma triple_bind_ret_l {T A B} (P : mem T -> Prop) (a : A) (f : A -> M T B) Q I :
  triple P (f a) Q I -> triple P (bind (ret a) f) Q I.
Proof. apply triple_ext. intros m. reflexivity. Qed.

Lemma triple_bind_ret_r {T A} (P : mem T -> Prop) (c : M T A) Q I :
  triple P (bind c (fun x => ret x)) Q I -> triple P c Q I.
Proof. apply triple_ext. intros m. unfold bind. destruct (c m); reflexivity. Qed.

Lemma lift_opt_bind {T A B} (P : mem T -> Prop) (o : option A) (f : A -> M T B) Q (I : mem T -> Prop) :
  (forall m, P m -> I m) -> (forall r, o = Some r -> triple P (f r) Q I) ->
  triple P (bind (lift_opt o) f) Q I.
Proof.
  intros HP Hf. destruct o as [r|]; cbn [lift_opt].
  - apply triple_bind_ret_l. apply Hf. reflexivity.
  - intros m Hm. cbn. apply HP. exact Hm.
Qed.

Lemma lift_opt_bind_c {T A B} (P : mem T -> Prop) (o : option A) (f : A -> M T B) Q (I : mem T -> Prop) :
  (o = None -> forall m, P m -> I m) -> (forall r, o = Some r -> triple P (f r) Q I) ->
  triple P (bind (lift_opt o) f) Q I.
Proof.
  intros HP Hf. destruct o as [r|]; cbn [lift_opt].
  - apply triple_bind_ret_l. apply Hf. reflexivity.
  - intros m Hm. cbn. apply HP; auto.
Qed.

(** * List facts used by the primitive specifications *)

Lemma length_splice {T} (l : list T) i v :
  i + length v <= length l -> length (splice l i v) = length l.
Proof.
  intros H. unfold splice. rewrite !app_length, firstn_length, skipn_length. lia.
Qed.

Lemma firstn_splice_before {T} (l : list T) i v :
  i <= length l -> firstn i (splice l i v) = firstn i l.
Proof.
  intros H. unfold splice. rewrite firstn_app. rewrite firstn_length, Nat.min_l by lia.
  rewrite Nat.sub_diag. cbn. rewrite app_nil_r. rewrite firstn_firstn. f_equal. lia.
Qed.

Lemma skipn_splice_after {T} (l : list T) i v :
  i + length v <= length l -> skipn (i + length v) (splice l i v) = skipn (i + length v) l.
Proof.
  intros H. unfold splice. rewrite app_assoc.
  rewrite skipn_app. rewrite app_length, firstn_length, Nat.min_l by lia.
  rewrite Nat.sub_diag. cbn [skipn].
  rewrite skipn_all2; [reflexivity|]. rewrite app_length, firstn_length. lia.
Qed.

Lemma splice_app_prefix {T} (p rest v : list T) :
  length v <= length rest ->
  splice (p ++ rest) (length p) v = (p ++ v) ++ skipn (length v) rest.
Proof.
  intros H. unfold splice. rewrite firstn_app, firstn_all, Nat.sub_diag. cbn [firstn]. rewrite app_nil_r.
  rewrite skipn_app. rewrite skipn_all2 by lia. cbn [app].
  replace (length p + length v - length p) with (length v) by lia. rewrite app_assoc. reflexivity.
Qed.

(** * Primitive specifications *)

Section Prims.
  Context {T : Type}.

  Lemma triple_load_gen (P : mem T -> Prop) sc s i w (Q : list T -> mem T -> Prop) I :
    (forall m, P m -> i + w <= length (slice_of m s)
                      /\ Q (firstn w (skipn i (slice_of m s)))
                           (log {| ev_write := false; ev_scalar := sc; ev_slice := s; ev_idx := i; ev_width := w |} m)) ->
    triple P (load_gen sc s i w) Q I.
  Proof.
    intros H m Hm. destruct (H m Hm) as [Hb HQ]. unfold load_gen.
    replace (i + w <=? length (slice_of m s)) with true by (symmetry; apply Nat.leb_le; exact Hb).
    exact HQ.
  Qed.

  Lemma triple_store_gen (P : mem T -> Prop) sc i v (Q : unit -> mem T -> Prop) I :
    (forall m, P m -> i + length v <= length (mR m)
                      /\ Q tt {| mA := mA m; mB := mB m; mR := splice (mR m) i v;
                                 trace := trace m ++ [{| ev_write := true; ev_scalar := sc; ev_slice := SR;
                                                         ev_idx := i; ev_width := length v |}] |}) ->
    triple P (store_gen sc i v) Q I.
  Proof.
    intros H m Hm. destruct (H m Hm) as [Hb HQ]. unfold store_gen.
    replace (i + length v <=? length (mR m)) with true by (symmetry; apply Nat.leb_le; exact Hb).
    exact HQ.
  Qed.
End Prims.
