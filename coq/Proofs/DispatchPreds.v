(* C09, availability half: the is_*_available predicates (bodies regenerated from dispatch.rs) answer true only
   if the features they stand for are available on the machine, and - std builds - whenever they are; hence the
   slot the chain selects is available, and no better supplied, compiled-in slot is. *)
From Coq Require Import String List Bool Arith Lia.
From CF Require Import Model.Tables Model.TableSem Model.Features Model.DispatchSpec Proofs.FeatureLemmas.
From CF Require Import Proofs.TableProofs Gen.GenDispatch Proofs.FactsDispatch.
Import ListNotations.

Lemma in_all_preds x : In x all_preds.
Proof. destruct x; cbn; tauto. Qed.

Section Generic.
  Variable ps : list pred.
  Variable archs : list arch.
  Variable defs : list pred_def.
  Variable chain : list chain_entry.
  Hypothesis Hps : forall x, In x ps.
  Hypothesis Harchs : forall a, In a archs.

  Lemma preds_sound_generic :
    preds_sound_okb ps archs defs = true ->
    forall bc avail, machine_ok bc avail ->
    forall x, eval_pred defs bc avail x = true -> forall f, In f (pred_features x) -> avail f = true.
  Proof.
    intros Hok bc avail Hm x Hx f Hf.
    pose proof (forallb_In _ _ Hok x (Hps x)) as H. cbv beta in H.
    pose proof (forallb_In _ _ H (bc_arch bc) (Harchs _)) as Hsub. cbv beta in Hsub.
    destruct Hm as [Hc [Hb Ht]].
    apply (closure_sound avail (tested_pred defs x ++ baseline_of (bc_arch bc)) Hc).
    - intros g Hg. apply in_app_or in Hg. destruct Hg as [Hg|Hg]; [|exact (Hb g Hg)].
      destruct (tested_pred_sound defs bc avail x Hx g Hg) as [E|E]; [exact E|exact (Ht g E)].
    - exact (fsubset_incl _ _ Hsub f Hf).
  Qed.

  Lemma preds_complete_generic :
    preds_complete_okb ps defs = true ->
    forall bc avail, closed avail -> bc_std bc = true ->
    forall x d, find (fun d => pred_eqb (pd_pred d) x) defs = Some d -> eval_cfg bc (pd_cfg d) = true ->
      (forall f, In f (pred_features x) -> avail f = true) -> eval_pred defs bc avail x = true.
  Proof.
    intros Hok bc avail Hc Hstd x d Ed Hcfg Hf.
    pose proof (forallb_In _ _ Hok x (Hps x)) as H. cbv beta in H. rewrite Ed in H.
    destruct (rt_sufficient_def d) as [l|] eqn:El; [|discriminate].
    unfold eval_pred. rewrite Ed, Hcfg. cbn [andb].
    apply (eval_pred_def_std bc avail d l Hstd El).
    intros f Hl. apply (closure_sound avail (pred_features x) Hc Hf). exact (fsubset_incl _ _ H f Hl).
  Qed.

  Lemma never_unavailable_generic :
    preds_sound_okb ps archs defs = true -> chain_feats_ok chain = true ->
    forall bc avail sup x, machine_ok bc avail ->
      select_chain chain bc (eval_pouts defs bc avail) sup = Some x ->
      slot_available avail x = true.
  Proof.
    intros Hs Hc bc avail sup x Hm Hsel.
    destruct (select_chain_some _ _ _ _ _ Hsel) as [c [Hin [Hcx [_ Hg]]]]. subst x.
    unfold slot_available. apply forallb_forall. intros f Hf.
    pose proof (forallb_In _ _ Hc c Hin) as H. cbv beta in H. apply andb_true_iff in H. destruct H as [H _].
    pose proof (fsubset_incl _ _ H f Hf) as Hfm. apply in_flat_map in Hfm. destruct Hfm as [p [Hp Hfp]].
    rewrite forallb_forall in Hg. specialize (Hg p Hp). rewrite pout_eval_pouts in Hg.
    exact (preds_sound_generic Hs bc avail Hm p Hg f Hfp).
  Qed.
End Generic.

(** * The regenerated tables *)

Lemma preds_sound_reflect : preds_sound_okb all_preds all_archs pred_defs = true.
Proof. vm_compute. reflexivity. Qed.
Lemma preds_complete_reflect : preds_complete_okb all_preds pred_defs = true.
Proof. vm_compute. reflexivity. Qed.
Lemma chain_feats_reflect : chain_feats_ok dispatch_chain = true.
Proof. vm_compute. reflexivity. Qed.

Lemma predicates_sound :
  forall bc avail, machine_ok bc avail ->
  forall x, eval_pred pred_defs bc avail x = true -> pred_holds avail x = true.
Proof.
  intros bc avail Hm x Hx. unfold pred_holds. apply forallb_forall.
  exact (preds_sound_generic all_preds all_archs pred_defs in_all_preds in_all_archs preds_sound_reflect bc avail Hm x Hx).
Qed.

(* where the predicate exists at all: x86 (AVX-512: and the nightly feature), aarch64 for NEON *)
Definition pred_compiled (bc : buildcfg) (x : pred) : bool :=
  match x with
  | PAvx512 => is_x86 bc && bc_nightly bc
  | PAvx2 | PFma => is_x86 bc
  | PNeon => match bc_arch bc with Aarch64 => true | _ => false end
  end.

Lemma predicates_complete :
  forall bc avail, machine_ok bc avail -> bc_std bc = true ->
  forall x, pred_compiled bc x = true -> pred_holds avail x = true -> eval_pred pred_defs bc avail x = true.
Proof.
  intros bc avail [Hc _] Hstd x Hcomp Hh.
  unfold pred_holds in Hh. rewrite forallb_forall in Hh.
  destruct (find (fun d => pred_eqb (pd_pred d) x) pred_defs) as [d|] eqn:Ed.
  - apply (preds_complete_generic all_preds pred_defs in_all_preds preds_complete_reflect bc avail Hc Hstd x d Ed); [|exact Hh].
    destruct bc as [a n sd tf]. cbn [bc_std] in Hstd. subst sd.
    destruct x; cbn in Ed; injection Ed as <-;
      destruct a, n; cbn in Hcomp |- *; solve [reflexivity|discriminate Hcomp].
  - destruct x; cbn in Ed; discriminate Ed.
Qed.

Lemma never_unavailable :
  forall bc avail sup x, machine_ok bc avail ->
    select_chain dispatch_chain bc (eval_pouts pred_defs bc avail) sup = Some x ->
    slot_available avail x = true.
Proof. exact (never_unavailable_generic all_preds all_archs pred_defs dispatch_chain in_all_preds in_all_archs preds_sound_reflect chain_feats_reflect). Qed.

Lemma guard_spec_complete bc avail :
  machine_ok bc avail -> bc_std bc = true ->
  forall y, compiled bc y = true -> slot_available avail y = true ->
    guard_spec y (eval_pouts pred_defs bc avail) = true.
Proof.
  intros Hm Hstd y Hcomp Hav.
  assert (P : forall x, pred_compiled bc x = true -> pred_holds avail x = true ->
                        pout (eval_pouts pred_defs bc avail) x = true).
  { intros x H1 H2. rewrite pout_eval_pouts. exact (predicates_complete bc avail Hm Hstd x H1 H2). }
  unfold slot_available in Hav.
  destruct y; cbn [guard_spec compiled slot_features forallb] in *.
  - apply (P PAvx512); [exact Hcomp|exact Hav].
  - rewrite andb_true_r in Hav. apply andb_true_iff in Hav. destruct Hav as [H1 H2].
    change (pout (eval_pouts pred_defs bc avail) PAvx2 && pout (eval_pouts pred_defs bc avail) PFma = true).
    rewrite (P PAvx2 Hcomp), (P PFma Hcomp); [reflexivity| |]; unfold pred_holds; cbn [pred_features forallb];
      rewrite ?andb_true_r; assumption.
  - apply (P PAvx2); [exact Hcomp|exact Hav].
  - apply (P PNeon); [exact Hcomp|exact Hav].
  - reflexivity.
Qed.

Lemma best_available :
  forall bc avail sup x, machine_ok bc avail -> bc_std bc = true ->
    select_chain dispatch_chain bc (eval_pouts pred_defs bc avail) sup = Some x ->
    forall y, slot_rank y < slot_rank x -> is_supplied sup y = true -> compiled bc y = true ->
      slot_available avail y = false.
Proof.
  intros bc avail sup x Hm Hstd Hsel y Hr Hsup Hcomp.
  rewrite chain_selects_spec in Hsel.
  set (p := eval_pouts pred_defs bc avail) in *.
  assert (Ht : is_supplied sup y && compiled bc y && guard_spec y p = false).
  { unfold select_spec, priority in Hsel. cbn [find] in Hsel.
    destruct x, y; cbn [slot_rank] in Hr; try lia;
      repeat match type of Hsel with
             | (if ?t then _ else _) = _ => destruct t eqn:?; try discriminate Hsel
             end; first [assumption | reflexivity]. }
  rewrite Hsup, Hcomp in Ht. cbn [andb] in Ht.
  destruct (slot_available avail y) eqn:Ea; [|reflexivity].
  unfold p in Ht. rewrite (guard_spec_complete bc avail Hm Hstd y Hcomp Ea) in Ht. discriminate Ht.
Qed.
