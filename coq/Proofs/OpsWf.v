(* Lane-count preservation for back ends built from lane-wise operations with the trait's default dense
   methods; the symbolic back end of every lane count L >= 1 is well formed.  Axiom-free. *)
From Coq Require Import List Arith Bool Lia.
From CF Require Import Base.Mem Model.SimdApi Model.Kernels Model.Sym Proofs.KernelBounds.
Import ListNotations.

Lemma map2_length {A B C} (f : A -> B -> C) x y : length (map2 f x y) = Nat.min (length x) (length y).
Proof. revert y. induction x as [|a x IH]; intros [|b y]; cbn; auto. Qed.

Lemma map3_length {A B C D} (f : A -> B -> C -> D) x y z :
  length (map3 f x y z) = Nat.min (length x) (Nat.min (length y) (length z)).
Proof. revert y z. induction x as [|a x IH]; intros [|b y] [|c z]; cbn; auto. Qed.

Lemma nth_map2 {A B C} (f : A -> B -> C) x y k da db dc :
  k < length x -> k < length y -> nth k (map2 f x y) dc = f (nth k x da) (nth k y db).
Proof.
  revert y k. induction x as [|a x IH]; intros [|b y] k Hx Hy; cbn in *; try lia.
  destruct k; [reflexivity|]. apply IH; lia.
Qed.

Lemma nth_map3 {A B C D} (f : A -> B -> C -> D) x y z k da db dc dd :
  k < length x -> k < length y -> k < length z ->
  nth k (map3 f x y z) dd = f (nth k x da) (nth k y db) (nth k z dc).
Proof.
  revert y z k. induction x as [|a x IH]; intros [|b y] [|c z] k Hx Hy Hz; cbn in *; try lia.
  destruct k; [reflexivity|]. apply IH; lia.
Qed.

Section Wf.
  Context {T : Type}.
  Variable R : SimdOps T.
  Hypothesis HL : 1 <= lanes R.

  Lemma dense_wf_length d : dense_wf R d -> 8 <= length d.
  Proof.
    intros H. specialize (H 7 ltac:(lia)). unfold nth_reg in H.
    destruct (le_lt_dec (length d) 7) as [Hle|]; [|lia].
    rewrite nth_overflow in H by lia. cbn in H. lia.
  Qed.

  Lemma apply_dense2_wf (op : vreg T -> vreg T -> vreg T) a b :
    (forall x y, length x = lanes R -> length y = lanes R -> length (op x y) = lanes R) ->
    dense_wf R a -> dense_wf R b -> dense_wf R (apply_dense2 op a b).
  Proof.
    intros Ho Ha Hb k Hk. pose proof (dense_wf_length a Ha). pose proof (dense_wf_length b Hb).
    unfold apply_dense2, nth_reg. rewrite nth_map2 with (da := @nil T) (db := @nil T);
      [| eapply Nat.lt_le_trans; eassumption | eapply Nat.lt_le_trans; eassumption].
    apply Ho; [apply Ha | apply Hb]; exact Hk.
  Qed.

  Lemma apply_dense2_opt_spec (op : vreg T -> vreg T -> option (vreg T)) a b z :
    apply_dense2_opt op a b = Some z ->
    length z = Nat.min (length a) (length b) /\
    forall k, k < length z -> op (nth k a []) (nth k b []) = Some (nth k z []).
  Proof.
    revert b z. induction a as [|x a IH]; intros [|y b] z H; cbn in H.
    - inversion H; subst. cbn. split; [reflexivity|]. intros k Hk. lia.
    - inversion H; subst. cbn. split; [reflexivity|]. intros k Hk. lia.
    - inversion H; subst. cbn. split; [reflexivity|]. intros k Hk. lia.
    - destruct (op x y) as [c|] eqn:E; [|discriminate].
      destruct (apply_dense2_opt op a b) as [r|] eqn:E2; [|discriminate].
      inversion H; subst. destruct (IH b r E2) as [Hl Hn]. cbn. split; [lia|].
      intros [|k] Hk; [exact E|]. apply Hn. lia.
  Qed.

  Lemma apply_dense2_opt_wf (op : vreg T -> vreg T -> option (vreg T)) a b z :
    (forall x y r, length x = lanes R -> length y = lanes R -> op x y = Some r -> length r = lanes R) ->
    dense_wf R a -> dense_wf R b -> apply_dense2_opt op a b = Some z -> dense_wf R z.
  Proof.
    intros Ho Ha Hb Hz k Hk. pose proof (dense_wf_length a Ha). pose proof (dense_wf_length b Hb).
    destruct (apply_dense2_opt_spec op a b z Hz) as [Hl Hn].
    unfold nth_reg. eapply Ho; [apply (Ha k Hk) | apply (Hb k Hk) | apply Hn; lia].
  Qed.
End Wf.

(* A back end assembled with the trait's default dense methods from length-preserving register operations
   is well formed. *)
Lemma with_default_dense_wf {T} Ln (filled : T -> vreg T) zeroed add sub mul div fmadd max min sumv maxv minv :
  1 <= Ln ->
  (forall v, length (filled v) = Ln) ->
  (forall x y, length x = Ln -> length y = Ln -> length (add x y) = Ln) ->
  (forall x y, length x = Ln -> length y = Ln -> length (sub x y) = Ln) ->
  (forall x y, length x = Ln -> length y = Ln -> length (mul x y) = Ln) ->
  (forall x y, length x = Ln -> length y = Ln -> length (max x y) = Ln) ->
  (forall x y, length x = Ln -> length y = Ln -> length (min x y) = Ln) ->
  (forall x y z, length x = Ln -> length y = Ln -> div x y = Some z -> length z = Ln) ->
  ops_wf (with_default_dense Ln filled zeroed add sub mul div fmadd max min sumv maxv minv).
Proof.
  intros HL Hf Ha Hs Hm Hx Hn Hd.
  constructor; cbn; auto; intros; try (apply apply_dense2_wf; cbn; auto).
  match goal with
  | H1 : apply_dense2_opt div ?a ?b = Some ?z |- _ =>
      eapply apply_dense2_opt_wf with (a := a) (b := b) (op := div); cbn; eauto
  end.
Qed.

Lemma sym_ops_wf Ln : 1 <= Ln -> ops_wf (sym_ops Ln).
Proof.
  intros HL. unfold sym_ops. apply with_default_dense_wf; auto.
  - intros v. apply repeat_length.
  - intros x y Hx Hy. rewrite map2_length. lia.
  - intros x y Hx Hy. rewrite map2_length. lia.
  - intros x y Hx Hy. rewrite map2_length. lia.
  - intros x y Hx Hy. rewrite map2_length. lia.
  - intros x y Hx Hy. rewrite map2_length. lia.
  - intros x y z Hx Hy E. inversion E; subst. rewrite map2_length. lia.
Qed.
