(* Horizontal max/min for any back end whose register operation is a lane-wise selecting operation:
   instantiates Extreme.extreme_correct for the shape of generic_max_horizontal / generic_min_horizontal.
   Generic in the element type.  Axiom-free. *)
From Coq Require Import List Arith Bool Lia.
From CF Require Import Base.Mem Model.SimdApi Model.Kernels Model.Tables.
From CF Require Import Proofs.MemProofs Proofs.KernelRules Proofs.KernelSafety Proofs.KernelBounds
     Proofs.OpsWf Proofs.ListFacts Proofs.Extreme.
Import ListNotations.

Section Horiz.
  Context {T : Type}.
  Variable okv : T -> Prop.
  Variable le : T -> T -> Prop.
  Hypothesis le_refl : forall x, okv x -> le x x.
  Hypothesis le_trans : forall x y z, okv x -> okv y -> okv z -> le x y -> le y z -> le x z.
  Notation Ref := (Refines okv le).

  Variable R : SimdOps T.
  Hypothesis HL : 1 <= lanes R.
  Notation Ln := (lanes R).
  Variable Mth : MathOps T.

  (* the operations of this reduction: max or min *)
  Variable rop : vreg T -> vreg T -> vreg T.
  Variable rop_dense : dense T -> dense T -> dense T.
  Variable tov : vreg T -> T.
  Variable vop sop : T -> T -> T.
  Variable e : T.

  Definition okr (x : vreg T) : Prop := length x = Ln /\ Forall okv x.
  Definition okd (d : dense T) : Prop := length d = 8 /\ forall k, k < 8 -> okr (nth_reg d k).

  Hypothesis Hoke : okv e.
  Hypothesis Hfilled : r_filled R e = repeat e Ln.
  Hypothesis Hvop : selecting okv le vop.
  Hypothesis Hsop : selecting okv le sop.
  Hypothesis Hrop : forall x y, okr x -> okr y -> rop x y = map2 vop x y.
  Hypothesis Hrop_dense : forall x y, rop_dense x y = apply_dense2 rop x y.
  Hypothesis Htov : forall x, okr x -> Ref [tov x] (e :: x).

  Lemma rop_ok x y : okr x -> okr y -> okr (rop x y) /\ Ref (rop x y) (x ++ y).
  Proof.
    intros Hx Hy. rewrite (Hrop x y Hx Hy). destruct Hx as [Lx Fx], Hy as [Ly Fy]. split.
    - split; [rewrite map2_length; lia|].
      destruct (Refines_map2 okv le le_refl vop x y Hvop ltac:(lia) Fx Fy) as (F & _). exact F.
    - apply Refines_map2; auto. lia.
  Qed.

  Lemma okd_list d : okd d ->
    d = [nth_reg d 0; nth_reg d 1; nth_reg d 2; nth_reg d 3; nth_reg d 4; nth_reg d 5; nth_reg d 6; nth_reg d 7].
  Proof.
    intros [H8 _]. unfold nth_reg.
    do 8 (destruct d as [|? d]; [cbn in H8; lia|]). destruct d; [reflexivity | cbn in H8; lia].
  Qed.

  Lemma okd_ok d k : okd d -> k < 8 -> Forall okv (nth_reg d k).
  Proof. intros [_ H] Hk. apply (H k Hk). Qed.

  Lemma apply2_nth x y k :
    okd x -> okd y -> k < 8 -> nth_reg (apply_dense2 rop x y) k = rop (nth_reg x k) (nth_reg y k).
  Proof.
    intros [Lx _] [Ly _] Hk. unfold apply_dense2, nth_reg.
    apply nth_map2 with (da := @nil T) (db := @nil T); unfold dense, vreg in *; lia.
  Qed.

  Lemma dense_step_ok acc X :
    okd acc -> okd X ->
    okd (apply_dense2 rop acc X) /\ Ref (concat (apply_dense2 rop acc X)) (concat acc ++ concat X).
  Proof.
    intros Ha HX.
    assert (Ho : okd (apply_dense2 rop acc X)).
    { split.
      - destruct Ha as [La _], HX as [LX _]. unfold apply_dense2. rewrite map2_length.
        unfold dense, vreg in *. lia.
      - intros k Hk. rewrite apply2_nth by assumption. apply rop_ok; [apply Ha | apply HX]; exact Hk. }
    split; [exact Ho|].
    rewrite (okd_list _ Ho). rewrite !apply2_nth by (assumption || lia).
    assert (P : forall k, k < 8 -> Ref (rop (nth_reg acc k) (nth_reg X k)) (nth_reg acc k ++ nth_reg X k)).
    { intros k Hk. apply rop_ok; [apply Ha | apply HX]; exact Hk. }
    rewrite (okd_list acc Ha) at 9. rewrite (okd_list X HX) at 9.
    cbn [concat]. rewrite !app_nil_r.
    eapply Refines_equiv.
    - repeat apply Refines_app; (apply P; lia).
    - repeat (apply Forall_app; split); (apply okd_ok; [assumption | lia]).
    - intros x. rewrite !in_app_iff. tauto.
  Qed.

  Lemma roll_ok d : okd d -> okr (rollup rop d) /\ Ref (rollup rop d) (concat d).
  Proof.
    intros Hd. unfold rollup.
    assert (K : forall k, k < 8 -> okr (nth_reg d k)) by apply Hd.
    destruct (rop_ok _ _ (K 0 ltac:(lia)) (K 1 ltac:(lia))) as [O01 E01].
    destruct (rop_ok _ _ (K 2 ltac:(lia)) (K 3 ltac:(lia))) as [O23 E23].
    destruct (rop_ok _ _ (K 4 ltac:(lia)) (K 5 ltac:(lia))) as [O45 E45].
    destruct (rop_ok _ _ (K 6 ltac:(lia)) (K 7 ltac:(lia))) as [O67 E67].
    destruct (rop_ok _ _ O01 O23) as [O03 E03]. destruct (rop_ok _ _ O45 O67) as [O47 E47].
    destruct (rop_ok _ _ O03 O47) as [O07 E07]. split; [exact O07|].
    rewrite (okd_list d Hd) at 9. cbn [concat]. rewrite app_nil_r.
    eapply Refines_trans; [exact le_refl | exact le_trans | exact E07 |].
    eapply Refines_equiv.
    - apply Refines_app.
      + eapply Refines_trans; [exact le_refl | exact le_trans | exact E03 | apply Refines_app; eassumption].
      + eapply Refines_trans; [exact le_refl | exact le_trans | exact E47 | apply Refines_app; eassumption].
    - repeat (apply Forall_app; split); (apply okd_ok; [assumption | lia]).
    - intros x. rewrite !in_app_iff. tauto.
  Qed.

  Variables a b res : list T.
  Variable dims : nat.
  Hypothesis Ha : length a = dims.
  Hypothesis Hoka : Forall okv a.
  Let m0 := init_mem a b res.

  Lemma okd_dense_at (sl : list T) i : Forall okv sl -> i + Ln * 8 <= length sl -> okd (dense_at Ln sl i).
  Proof.
    intros F Hb. split; [reflexivity|]. intros k Hk. unfold nth_reg. rewrite nth_dense_at by exact Hk. split.
    - rewrite firstn_length, skipn_length. nia.
    - apply Forall_block. exact F.
  Qed.

  Lemma concat_dense_at (sl : list T) i : concat (dense_at Ln sl i) = firstn (Ln * 8) (skipn i sl).
  Proof.
    unfold dense_at. cbn [concat]. rewrite app_nil_r.
    replace (Ln * 8) with (Ln + (Ln + (Ln + (Ln + (Ln + (Ln + (Ln + Ln))))))) by lia.
    rewrite !firstn_add_split, !skipn_skipn_add.
    repeat (f_equal; try (f_equal; lia)).
  Qed.

  (* the kernel shape shared by generic_max_horizontal and generic_min_horizontal *)
  Theorem horiz_extreme :
    match three_phase R dims (filled_dense R e)
            (fun i mx => bind (load_dense R SA i) (fun l1 => ret (rop_dense mx l1)))
            (rollup rop)
            (fun i mx => bind (load SA i (L R)) (fun l1 => ret (rop mx l1)))
            tov
            (fun i mx => bind (read1 (dflt Mth) SA i) (fun x => ret (sop mx x))) m0 with
    | Ok r m => run_ok m0 m /\ In r (e :: a) /\ forall z, In z (e :: a) -> le z r
    | _ => False
    end.
  Proof.
    apply (extreme_correct okv le le_refl le_trans R HL a b res dims Ha Hoka e Hoke okd okr).
    - (* init *)
      unfold filled_dense, dense_copy, NUM_LANES. rewrite Hfilled. cbn [repeat]. split.
      + split; [reflexivity|]. intros k Hk. unfold nth_reg.
        do 8 (destruct k as [|k]; [cbn [nth]; split; [apply repeat_length|
              apply Forall_forall; intros z Hz; apply repeat_spec in Hz; subst; exact Hoke]|]). lia.
      + cbn [concat]. rewrite app_nil_r, <- !repeat_app.
        apply Refines_repeat; auto. lia.
    - (* dense *)
      intros i acc Hin Hacc.
      apply load_dense_bind; [discriminate | unfold m0; cbn [slice_of init_mem mA mB mR]; lia |].
      unfold m0; cbn [slice_of init_mem mA mB mR]; fold m0.
      apply triple_ret. intros m Hm. split; [exact Hm|].
      rewrite Hrop_dense.
      assert (OX : okd (dense_at Ln a i)) by (apply okd_dense_at; [assumption | lia]).
      destruct (dense_step_ok acc _ Hacc OX) as [O E]. split; [exact O|].
      rewrite concat_dense_at in E. exact E.
    - apply roll_ok.
    - (* lane *)
      intros i acc Hin Hacc. unfold L.
      apply load_bind; [discriminate | unfold m0; cbn [slice_of init_mem mA mB mR]; lia |].
      unfold m0; cbn [slice_of init_mem mA mB mR]; fold m0.
      apply triple_ret. intros m Hm. split; [exact Hm|].
      apply rop_ok; [exact Hacc|]. split; [rewrite firstn_length, skipn_length; lia | apply Forall_block; exact Hoka].
    - exact Htov.
    - (* scalar *)
      intros i s Hi Hs. unfold read1.
      apply triple_bind_assoc. apply load_bind; [discriminate | unfold m0; cbn [slice_of init_mem mA mB mR]; lia |].
      apply triple_bind_ret_l. unfold m0; cbn [slice_of init_mem mA mB mR]; fold m0.
      apply triple_ret. intros m Hm. split; [exact Hm|].
      pose proof (hd_firstn1 (dflt Mth) a i ltac:(lia)) as E.
      pose proof (Forall_block okv a i 1 Hoka) as Fb. rewrite E in Fb. inversion Fb as [|? ? Hx _]; subst.
      rewrite E at 2.
      change ([sop s (hd (dflt Mth) (firstn 1 (skipn i a)))])
        with (map2 sop [s] [hd (dflt Mth) (firstn 1 (skipn i a))]).
      apply Refines_map2; auto.
  Qed.
End Horiz.
