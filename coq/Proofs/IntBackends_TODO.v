(* STATEMENTS to be proved (helper task).  Deliver Proofs/IntBackends.v with the same Record and the same
   theorem names/statements, proved.  This TODO file is not part of the build. *)
From Coq Require Import ZArith List Arith Bool Lia.
From CF Require Import Base.Mem Model.SimdApi Model.Kernels Model.Tables Model.Prim Model.Regs.
From CF Require Import Proofs.KernelBounds Proofs.OpsWf Proofs.ListFacts Proofs.ReduceCorrect Proofs.IntReduce.
From CF Require Proofs.RegArith.
Import ListNotations.

(* What C13 establishes, beyond [IntReduce.IntLanewise], for the element-wise and extreme operations of an
   integer back end ([in_range], [Zsum], [eqm] are ReduceCorrect's; [sequence] is ListFacts'). *)
Record IntElementwise (w : Z) (sg : bool) (R : SimdOps Z) : Prop := {
  ie_filled : forall v, r_filled R v = repeat v (lanes R);
  ie_max : forall x y, length x = lanes R -> length y = lanes R ->
                       Forall (in_range w) x -> Forall (in_range w) y -> r_max R x y = map2 (i_max sg w) x y;
  ie_min : forall x y, length x = lanes R -> length y = lanes R ->
                       Forall (in_range w) x -> Forall (in_range w) y -> r_min R x y = map2 (i_min sg w) x y;
  ie_div : forall x y, length x = lanes R -> length y = lanes R ->
                       Forall (in_range w) x -> Forall (in_range w) y ->
                       r_div R x y = sequence (map2 (i_div sg w) x y);
  ie_mul_dense : forall x y, r_mul_dense R x y = apply_dense2 (r_mul R) x y;
  ie_max_dense : forall x y, r_max_dense R x y = apply_dense2 (r_max R) x y;
  ie_min_dense : forall x y, r_min_dense R x y = apply_dense2 (r_min R) x y;
  ie_div_dense : forall x y, r_div_dense R x y = apply_dense2_opt (r_div R) x y;
  ie_maxv : forall x, length x = lanes R -> Forall (in_range w) x ->
                      in_range w (r_max_to_value R x) /\
                      ival sg w (r_max_to_value R x)
                      = fold_right Z.max (ival sg w (i_MIN sg w)) (map (ival sg w) x);
  ie_minv : forall x, length x = lanes R -> Forall (in_range w) x ->
                      in_range w (r_min_to_value R x) /\
                      ival sg w (r_min_to_value R x)
                      = fold_right Z.min (ival sg w (i_MAX sg w)) (map (ival sg w) x)
}.

Definition widths : list Z := [8; 16; 32; 64]%Z.

(* Fallback: Register = T *)
Theorem fallback_int_lanewise sg w : In w widths -> IntLanewise w (fallback_ops (int_math sg w)).
Abort.
Theorem fallback_int_elementwise sg w : In w widths -> IntElementwise w sg (fallback_ops (int_math sg w)).
Abort.

(* AVX2 (256-bit) *)
Theorem avx2_int_lanewise sg w : In w widths -> IntLanewise w (avx2_int_ops sg w).
Abort.
Theorem avx2_int_elementwise sg w : In w widths -> IntElementwise w sg (avx2_int_ops sg w).
Abort.

(* AVX-512 *)
Theorem avx512_int_lanewise sg w : In w widths -> IntLanewise w (avx512_int_ops sg w).
Abort.
Theorem avx512_int_elementwise sg w : In w widths -> IntElementwise w sg (avx512_int_ops sg w).
Abort.

(* lane counts *)
Theorem avx2_int_lanes sg w : In w widths -> Z.of_nat (lanes (avx2_int_ops sg w)) = (256 / w)%Z.
Abort.
Theorem avx512_int_lanes sg w : In w widths -> Z.of_nat (lanes (avx512_int_ops sg w)) = (512 / w)%Z.
Abort.
