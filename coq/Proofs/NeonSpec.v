(* The NEON float specification [GenRegsSpec.neon_float_ops] (the lane-level statement the generated NEON float
   definitions are proved against) is lane-wise faithful in the sense of C13 ([FloatBackends.FloatLanewise], the
   record proved for the x86 models): correctly rounded add / sub / mul / div per lane, FUSED fmadd, lane max / min
   = FMAX / FMIN which are selecting operations for the numeric order on non-NaN lanes, dense forms = the register
   form on the eight registers, across-vector sum an addition tree over exactly the lanes, across-vector max / min a
   lane bounding all lanes (non-NaN lanes).  4 x f32 and 2 x f64. *)
From Coq Require Import ZArith List Arith Bool Lia Permutation.
From Flocq Require Import IEEE754.BinarySingleNaN.
From CF Require Import Base.Mem Model.SimdApi Model.Kernels Model.Tables Model.Prim Model.Regs Model.Intrinsics.
From CF Require Import Proofs.KernelBounds Proofs.OpsWf Proofs.ListFacts Proofs.Extreme Proofs.HorizExtreme
     Proofs.FloatOrder Proofs.FloatBackends Proofs.GenRegsSpec.
Import ListNotations.

Section NeonFloat.
  Context {prec emax : Z} {Hp : FLX.Prec_gt_0 prec} {He : Prec_lt_emax prec emax}.
  Notation bf := (binary_float prec emax).

  Lemma f_lt_zeros (s1 s2 : bool) : f_lt (B754_zero s1 : bf) (B754_zero s2) = false.
  Proof. reflexivity. Qed.

  (* neither a < b nor b < a, both non-NaN: numerically equal; FMAX / FMIN then return an operand *)
  Lemma neon_fmax_selecting : selecting okf fle (@neon_fmax prec emax).
  Proof.
    intros x y Hx Hy. unfold neon_fmax. unfold okf in Hx, Hy. rewrite Hx, Hy. cbn [orb].
    destruct (f_lt x y) eqn:E1.
    - split; [right; reflexivity|]. split; [apply f_lt_fle; assumption | apply fle_refl; exact Hy].
    - destruct (f_lt y x) eqn:E2.
      + split; [left; reflexivity|]. split; [apply fle_refl; exact Hx | apply f_lt_fle; assumption].
      + destruct x as [sx|sx| |sx mx ex Bx]; try discriminate Hx;
          try (split; [left; reflexivity|]; split; [apply fle_refl; exact Hx | exact E1]).
        destruct y as [sy|sy| |sy my ey By]; try discriminate Hy;
          try (split; [left; reflexivity|]; split; [apply fle_refl; exact Hx | exact E1]).
        split; [destruct sx, sy; cbn [andb]; auto|]. split; unfold fle; apply f_lt_zeros.
  Qed.

  Lemma neon_fmin_selecting : selecting okf fge (@neon_fmin prec emax).
  Proof.
    intros x y Hx Hy. unfold neon_fmin, fge. unfold okf in Hx, Hy. rewrite Hx, Hy. cbn [orb].
    destruct (f_lt x y) eqn:E1.
    - split; [left; reflexivity|]. split; [apply fle_refl; exact Hx | apply f_lt_fle; assumption].
    - destruct (f_lt y x) eqn:E2.
      + split; [right; reflexivity|]. split; [apply f_lt_fle; assumption | apply fle_refl; exact Hy].
      + destruct x as [sx|sx| |sx mx ex Bx]; try discriminate Hx;
          try (split; [left; reflexivity|]; split; [apply fle_refl; exact Hx | exact E2]).
        destruct y as [sy|sy| |sy my ey By]; try discriminate Hy;
          try (split; [left; reflexivity|]; split; [apply fle_refl; exact Hx | exact E2]).
        split; [destruct sx, sy; cbn [orb]; auto|]. split; unfold fle; apply f_lt_zeros.
  Qed.

  Local Notation fle_refl' := (@fle_refl prec emax).
  Local Notation fle_trans' := (@fle_trans prec emax).
  Local Notation fge_refl' := (@fge_refl prec emax).
  Local Notation fge_trans' := (@fge_trans prec emax).

  Ltac neon_tree okfx :=
    repeat first
      [ eapply (Ref_node (@okf prec emax) (@fle prec emax) fle_refl' fle_trans' (@neon_fmax prec emax) _ _ _ _ neon_fmax_selecting)
      | eapply (Ref_node (@okf prec emax) (@fge prec emax) fge_refl' fge_trans' (@neon_fmin prec emax) _ _ _ _ neon_fmin_selecting)
      | (apply (Ref_leaf (@okf prec emax) (@fle prec emax) fle_refl'); okfx)
      | (apply (Ref_leaf (@okf prec emax) (@fge prec emax) fge_refl'); okfx) ].

  Ltac Forall_inv_all F :=
    repeat match type of F with
           | Forall _ (_ :: _) => let H := fresh "Hok" in let F' := fresh "F" in
                                  inversion F as [|? ? H F']; subst; clear F; rename F' into F
           end.

  Ltac destr4 x Hx := destruct x as [|a0 [|a1 [|a2 [|a3 [|? ?]]]]]; cbn [length] in Hx; try discriminate Hx.
  Ltac destr2 x Hx := destruct x as [|a0 [|a1 [|? ?]]]; cbn [length] in Hx; try discriminate Hx.

  Theorem neon_float_lanewise Ln : (Ln = 4 \/ Ln = 2)%nat ->
    FloatLanewise (neon_float_ops Ln) neon_fmax neon_fmin true.
  Proof.
    intros HLn. unfold neon_float_ops.
    constructor; cbn [with_default_dense lanes r_filled r_zeroed r_add r_sub r_mul r_div r_fmadd r_max r_min
                       r_add_dense r_sub_dense r_mul_dense r_max_dense r_min_dense r_div_dense r_fmadd_dense
                       r_sum_to_value r_max_to_value r_min_to_value]; try reflexivity.
    - apply with_default_dense_wf.
      + lia.
      + intros v. apply repeat_length.
      + intros x y Hx Hy. rewrite map2_length. lia.
      + intros x y Hx Hy. rewrite map2_length. lia.
      + intros x y Hx Hy. rewrite map2_length. lia.
      + intros x y Hx Hy. rewrite map2_length. lia.
      + intros x y Hx Hy. rewrite map2_length. lia.
      + intros x y z Hx Hy E. inversion E. rewrite map2_length. lia.
    - intros x y _ _. symmetry. apply sequence_some_map2.
    - intros x Hx. destruct HLn as [-> | ->].
      + destr4 x Hx. cbn [neon_reduce]. eexists. split; [repeat first [apply st_node | apply st_leaf]|].
        cbn [app]. apply Permutation_refl.
      + destr2 x Hx. cbn [neon_reduce]. eexists. split; [repeat first [apply st_node | apply st_leaf]|].
        cbn [app]. apply Permutation_refl.
    - intros x Hx F. destruct HLn as [-> | ->].
      + destr4 x Hx. Forall_inv_all F. cbn [neon_reduce].
        apply (Ref_add_bottom okf fle); [| apply okf_inf | apply bottom_max].
        eapply (Refines_equiv okf fle); [neon_tree assumption | repeat constructor; assumption |].
        intros z. cbn [In app]. tauto.
      + destr2 x Hx. Forall_inv_all F. cbn [neon_reduce].
        apply (Ref_add_bottom okf fle); [| apply okf_inf | apply bottom_max].
        eapply (Refines_equiv okf fle); [neon_tree assumption | repeat constructor; assumption |].
        intros z. cbn [In app]. tauto.
    - intros x Hx F. destruct HLn as [-> | ->].
      + destr4 x Hx. Forall_inv_all F. cbn [neon_reduce].
        apply (Ref_add_bottom okf fge); [| apply okf_inf | apply bottom_min].
        eapply (Refines_equiv okf fge); [neon_tree assumption | repeat constructor; assumption |].
        intros z. cbn [In app]. tauto.
      + destr2 x Hx. Forall_inv_all F. cbn [neon_reduce].
        apply (Ref_add_bottom okf fge); [| apply okf_inf | apply bottom_min].
        eapply (Refines_equiv okf fge); [neon_tree assumption | repeat constructor; assumption |].
        intros z. cbn [In app]. tauto.
  Qed.
End NeonFloat.

Theorem neon_f32_faithful : forall R, f32_model Neon = Some R -> FloatLanewise R neon_fmax neon_fmin true.
Proof. intros R H. inversion H; subst. apply neon_float_lanewise. left. reflexivity. Qed.
Theorem neon_f64_faithful : forall R, f64_model Neon = Some R -> FloatLanewise R neon_fmax neon_fmin true.
Proof. intros R H. inversion H; subst. apply neon_float_lanewise. right. reflexivity. Qed.
