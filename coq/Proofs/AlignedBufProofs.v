(* Lemma library for Model/AlignedBuf.v (C16). *)
From Coq Require Import ZArith List Bool Lia.
From CF Require Import Gen.GenConstsUtils Model.AlignedBuf.
Import ListNotations.
Open Scope Z_scope.

(* ---------------------------------------------------------------------------------------------- *)
(* Hypotheses of the theorems                                                                     *)
(* ---------------------------------------------------------------------------------------------- *)

(* what the literals of the source must satisfy (checked by computation on the generated constants) *)
Definition params_ok (p : ab_params) : Prop :=
  0 < CH p /\ CHa p = CH p /\ CHd p = CH p /\ 1 <= ADD p /\ 0 < AL p /\ AL p mod 64 = 0
  /\ CH p mod AL p = 0 /\ FILL p = 0.

(* element sizes the type accepts: size_of::<T>() > 0 dividing the chunk *)
Definition valid_size (p : ab_params) (size : Z) : Prop := 0 < size /\ CH p mod size = 0.

(* the allocator contract (ORACLE): a non-empty request gets a non-null base aligned as asked, and the block is
   fresh (no live block has that base) *)
Definition pick_ok (pick : picker) : Prop :=
  forall h n a, 0 < n -> 0 < a ->
    0 < pick h n a /\ pick h n a mod a = 0 /\ lookup h (pick h n a) = None.

(* ---------------------------------------------------------------------------------------------- *)
(* lists                                                                                          *)
(* ---------------------------------------------------------------------------------------------- *)

Lemma firstn_app_len : forall (A : Type) (a b : list A) n, length a = n -> firstn n (a ++ b) = a.
Proof.
  intros A a; induction a as [|x a IH]; intros b n Hn; cbn in *; subst n; cbn.
  - reflexivity.
  - f_equal. apply IH. reflexivity.
Qed.

Lemma skipn_app_len : forall (A : Type) (a b : list A) n, length a = n -> skipn n (a ++ b) = b.
Proof.
  intros A a; induction a as [|x a IH]; intros b n Hn; cbn in *; subst n; cbn.
  - reflexivity.
  - apply IH. reflexivity.
Qed.

Lemma repeat_split : forall (A : Type) (z : A) (a N : nat), (a <= N)%nat -> repeat z N = repeat z a ++ repeat z (N - a).
Proof. intros A z a N H. rewrite <- repeat_app. f_equal. lia. Qed.

Lemma concat_repeat_repeat : forall (A : Type) (z : A) (a n : nat), concat (repeat (repeat z a) n) = repeat z (n * a).
Proof.
  intros A z a n; induction n as [|n IH]; cbn [repeat concat Nat.mul].
  - reflexivity.
  - rewrite IH. rewrite <- repeat_app. reflexivity.
Qed.

Lemma group_repeat : forall (z : Z) (size n N : nat), (n * size <= N)%nat ->
  group n size (repeat z N) = repeat (repeat z size) n.
Proof.
  intros z size n; induction n as [|n IH]; intros N H; cbn [group repeat].
  - reflexivity.
  - assert (Hs : (size <= N)%nat) by lia.
    rewrite (repeat_split Z z size N Hs).
    rewrite firstn_app_len by apply repeat_length.
    rewrite skipn_app_len by apply repeat_length.
    f_equal. apply IH. lia.
Qed.

Lemma group_concat : forall (size : nat) (data : list (list Z)) (rest : list Z),
  Forall (fun e => length e = size) data ->
  group (length data) size (concat data ++ rest) = data.
Proof.
  intros size data; induction data as [|e data IH]; intros rest H; cbn [group length concat].
  - reflexivity.
  - inversion H as [|? ? He Hd]; subst.
    rewrite <- app_assoc.
    rewrite firstn_app_len by reflexivity.
    rewrite skipn_app_len by reflexivity.
    f_equal. apply IH. exact Hd.
Qed.

Lemma length_concat_uniform : forall (size : nat) (data : list (list Z)),
  Forall (fun e => length e = size) data -> length (concat data) = (length data * size)%nat.
Proof.
  intros size data H; induction H as [|e data He Hd IH]; cbn [concat length Nat.mul].
  - reflexivity.
  - rewrite app_length, IH, He. reflexivity.
Qed.

Lemma group_length : forall n size l, length (group n size l) = n.
Proof. intros n; induction n as [|n IH]; intros size l; cbn [group length]; [reflexivity | rewrite IH; reflexivity]. Qed.

(* ---------------------------------------------------------------------------------------------- *)
(* heap                                                                                           *)
(* ---------------------------------------------------------------------------------------------- *)

Lemma lookup_store_same : forall h a x y, lookup h a = Some x -> lookup (store h a y) a = Some y.
Proof.
  intros h; induction h as [|[b bs] r IH]; intros a x y H; cbn [lookup store] in *.
  - discriminate H.
  - destruct (Z.eqb_spec b a) as [E|E]; cbn [lookup].
    + rewrite (proj2 (Z.eqb_eq b a) E). reflexivity.
    + rewrite (proj2 (Z.eqb_neq b a) E). eapply IH; exact H.
Qed.

Lemma lookup_store_other : forall h a a' y, a' <> a -> lookup (store h a y) a' = lookup h a'.
Proof.
  intros h; induction h as [|[b bs] r IH]; intros a a' y H; cbn [lookup store].
  - reflexivity.
  - destruct (Z.eqb_spec b a) as [E|E]; cbn [lookup].
    + subst b. rewrite (proj2 (Z.eqb_neq a a')) by congruence. reflexivity.
    + destruct (Z.eqb_spec b a'); [reflexivity | apply IH; exact H].
Qed.

Lemma lookup_cons_same : forall h a bs, lookup ((a, bs) :: h) a = Some bs.
Proof. intros; cbn [lookup]. rewrite Z.eqb_refl. reflexivity. Qed.

Lemma lookup_cons_other : forall h a bs a', a' <> a -> lookup ((a, bs) :: h) a' = lookup h a'.
Proof. intros h a bs a' H; cbn [lookup]. rewrite (proj2 (Z.eqb_neq a a')) by congruence. reflexivity. Qed.

(* ---------------------------------------------------------------------------------------------- *)
(* arithmetic of zeroed()                                                                         *)
(* ---------------------------------------------------------------------------------------------- *)

Lemma stride_eq : forall p, params_ok p -> stride p = CH p.
Proof.
  intros p (Hch & _ & _ & _ & Hal & _ & Hmod & _). unfold stride.
  pose proof (proj2 (Z.div_exact (CH p) (AL p) ltac:(lia)) Hmod) as E.
  set (q := CH p / AL p) in *.
  assert (Hq : (CH p + AL p - 1) / AL p = q).
  { symmetry. apply Z.div_unique with (r := AL p - 1); [left; lia | lia]. }
  rewrite Hq. lia.
Qed.

Lemma default_chunk_eq : forall p, params_ok p -> default_chunk p = repeat 0 (Z.to_nat (CH p)).
Proof.
  intros p Hp. unfold default_chunk. rewrite (stride_eq p Hp).
  destruct Hp as (_ & _ & _ & _ & _ & _ & _ & Hf). rewrite Hf, Z.sub_diag. cbn [Z.to_nat repeat].
  apply app_nil_r.
Qed.

Lemma zero_bytes_eq : forall p chunks, params_ok p -> 0 <= chunks ->
  concat (repeat (default_chunk p) (Z.to_nat chunks)) = repeat 0 (Z.to_nat (chunks * CH p)).
Proof.
  intros p chunks Hp Hc. rewrite (default_chunk_eq p Hp), concat_repeat_repeat.
  destruct Hp as (Hch & _). rewrite Z2Nat.inj_mul by lia. reflexivity.
Qed.

Lemma valid_npc : forall p size, params_ok p -> valid_size p size ->
  1 <= CH p / size /\ (CH p / size) * size = CH p.
Proof.
  intros p size (Hch & _) (Hs & Hmod).
  pose proof (proj2 (Z.div_exact (CH p) size ltac:(lia)) Hmod) as E.
  set (q := CH p / size) in *. split; [nia | lia].
Qed.

(* the sizing facts of the property: storage covers the length and the reported capacity *)
Lemma chunk_arith : forall p len size, params_ok p -> valid_size p size -> 0 <= len ->
  let npc := CH p / size in
  let chunks := len / npc + ADD p in
  len * size <= CH p * chunks /\ (npc * chunks) * size = CH p * chunks /\ len < npc * chunks /\ 1 <= chunks.
Proof.
  intros p len size Hp Hv Hlen npc chunks.
  destruct (valid_npc p size Hp Hv) as [Hn1 Hn2]. fold npc in Hn1, Hn2.
  destruct Hp as (Hch & _ & _ & Hadd & _). destruct Hv as (Hs & _).
  pose proof (Z.div_mod len npc ltac:(lia)) as Hdm.
  pose proof (Z.mod_pos_bound len npc ltac:(lia)) as Hmb.
  pose proof (Z.div_pos len npc Hlen ltac:(lia)) as Hq.
  set (q := len / npc) in *. set (r := len mod npc) in *.
  assert (Hc : chunks = q + ADD p) by reflexivity.
  assert (H3 : len < npc * chunks) by (rewrite Hc; nia).
  assert (H2 : (npc * chunks) * size = CH p * chunks) by (rewrite <- Hn2; ring).
  repeat split; [ | exact H2 | exact H3 | lia].
  rewrite <- H2. nia.
Qed.

Lemma chunk_count_ok : forall p prof len size, params_ok p -> valid_size p size -> 0 <= len ->
  len / (CH p / size) + ADD p < USIZE ->
  chunk_count p prof len size = Ok (CH p / size, len / (CH p / size) + ADD p).
Proof.
  intros p prof len size Hp Hv Hlen Hno.
  destruct (valid_npc p size Hp Hv) as [Hn1 _].
  destruct Hp as (_ & Ha & Hd & _). destruct Hv as (Hs & Hmod).
  unfold chunk_count. rewrite Ha, Hd.
  rewrite (proj2 (Z.eqb_neq size 0)) by lia.
  rewrite Hmod. cbn [Z.eqb negb].
  rewrite (proj2 (Z.eqb_neq (CH p / size) 0)) by lia.
  unfold usize_checked_add_expect, usize_add.
  rewrite (proj2 (Z.ltb_lt _ _) Hno).
  destruct (CHK p); reflexivity.
Qed.

(* invalid element sizes are rejected before anything is allocated *)
Lemma chunk_count_rejects : forall p prof len size, params_ok p -> 0 <= size -> ~ valid_size p size ->
  chunk_count p prof len size = Panic PRemZero \/ chunk_count p prof len size = Panic PAssert.
Proof.
  intros p prof len size (_ & Ha & _) Hs Hnv. unfold chunk_count. rewrite Ha.
  destruct (Z.eqb_spec size 0) as [E|E]; [left; reflexivity|].
  destruct (Z.eqb_spec (CH p mod size) 0) as [E2|E2]; cbn [negb].
  - exfalso. apply Hnv. split; [lia | exact E2].
  - right; reflexivity.
Qed.

Lemma mod64_of_aligned : forall base al, 0 < al -> al mod 64 = 0 -> base mod al = 0 -> base mod 64 = 0.
Proof.
  intros base al Hal H64 Hb.
  pose proof (proj2 (Z.div_exact base al ltac:(lia)) Hb) as E1.
  pose proof (proj2 (Z.div_exact al 64 ltac:(lia)) H64) as E2.
  rewrite E1, E2. rewrite <- Z.mul_assoc, Z.mul_comm. apply Z.mod_mul. lia.
Qed.

(* ---------------------------------------------------------------------------------------------- *)
(* zeroed                                                                                         *)
(* ---------------------------------------------------------------------------------------------- *)

Lemma zeroed_guarded : forall p prof pick h len size,
  params_ok p -> pick_ok pick -> valid_size p size -> 0 <= len ->
  let npc := CH p / size in
  let chunks := len / npc + ADD p in
  chunks < USIZE -> chunks * CH p <= ISIZE_MAX ->
  exists base,
    zeroed p prof pick h len size
    = Ok ((base, repeat 0 (Z.to_nat (chunks * CH p))) :: h,
          {| b_len := len; b_alloc := npc * chunks; b_ptr := base; b_nchunks := chunks |})
    /\ 0 < base /\ base mod AL p = 0 /\ lookup h base = None.
Proof.
  intros p prof pick h len size Hp Hpick Hv Hlen npc chunks Hno Hfeas.
  destruct (chunk_arith p len size Hp Hv Hlen) as (A1 & A2 & A3 & A4). fold npc chunks in A1, A2, A3, A4.
  pose proof Hp as (Hch & _ & _ & _ & Hal & _).
  unfold zeroed. rewrite (chunk_count_ok p prof len size Hp Hv Hlen Hno). fold npc chunks.
  cbn [bind]. rewrite (stride_eq p Hp).
  rewrite (proj2 (Z.ltb_ge _ _) Hfeas).
  rewrite (zero_bytes_eq p chunks Hp ltac:(lia)).
  unfold alloc. rewrite repeat_length.
  rewrite Z2Nat.id by nia.
  rewrite (proj2 (Z.eqb_neq (chunks * CH p) 0)) by nia.
  destruct (Hpick h (chunks * CH p) (AL p) ltac:(nia) Hal) as (B1 & B2 & B3).
  exists (pick h (chunks * CH p) (AL p)).
  split; [| repeat split; assumption].
  unfold usize_mul.
  assert (Hm : npc * chunks < USIZE).
  { destruct Hv as (Hs & _). unfold ISIZE_MAX in Hfeas. unfold USIZE.
    assert (npc * chunks <= npc * chunks * size) by nia.
    assert (2 ^ 63 - 1 < 2 ^ 64) by (vm_compute; reflexivity). lia. }
  rewrite (proj2 (Z.ltb_lt _ _) Hm). cbn [bind]. reflexivity.
Qed.

(* views over a zero block *)
Lemma as_slice_zero_block : forall h base N len size alloc nch,
  0 <= len -> 0 < size -> len * size <= Z.of_nat N ->
  as_slice ((base, repeat 0 N) :: h) {| b_len := len; b_alloc := alloc; b_ptr := base; b_nchunks := nch |} size
  = Some (repeat (repeat 0 (Z.to_nat size)) (Z.to_nat len)).
Proof.
  intros h base N len size al nch Hlen Hs Hfit.
  unfold as_slice, view_ok, block_bytes. cbn [b_len b_ptr]. rewrite lookup_cons_same, repeat_length.
  rewrite (proj2 (Z.leb_le _ _) Hfit). f_equal. apply group_repeat.
  rewrite <- Z2Nat.inj_mul by lia. apply Nat2Z.inj_le. rewrite Z2Nat.id by nia. exact Hfit.
Qed.

(* a buffer is well formed in a heap: its block exists, is non-empty and covers the view *)
Definition wf_buf (h : heap) (b : buf) (size : Z) : Prop :=
  exists bytes, lookup h (b_ptr b) = Some bytes /\ (0 < length bytes)%nat
                /\ 0 <= b_len b /\ b_len b * size <= Z.of_nat (length bytes) /\ b_ptr b mod 64 = 0.

Definition elems_ok (size : Z) (len : Z) (data : list (list Z)) : Prop :=
  Z.of_nat (length data) = len /\ Forall (fun e => length e = Z.to_nat size) data.

Lemma copy_ok : forall h b size data,
  0 < size -> wf_buf h b size -> elems_ok size (b_len b) data ->
  exists h',
    copy_from_slice h b size data = Ok h'
    /\ as_slice h' b size = Some data
    /\ wf_buf h' b size
    /\ (forall a, a <> b_ptr b -> lookup h' a = lookup h a)
    /\ skipn (Z.to_nat (b_len b * size)) (block_bytes h' (b_ptr b))
       = skipn (Z.to_nat (b_len b * size)) (block_bytes h (b_ptr b))
    /\ length (block_bytes h' (b_ptr b)) = length (block_bytes h (b_ptr b)).
Proof.
  intros h b size data Hs (bytes & Hl & Hne & Hlen & Hfit & Hal) (Hd1 & Hd2).
  set (n := Z.to_nat (b_len b * size)).
  set (bytes' := concat data ++ skipn n bytes).
  assert (Hcl : length (concat data) = n).
  { rewrite (length_concat_uniform _ _ Hd2). unfold n. rewrite <- Hd1.
    rewrite Z2Nat.inj_mul by lia. rewrite Nat2Z.id. reflexivity. }
  assert (Hn : (n <= length bytes)%nat).
  { unfold n. apply Nat2Z.inj_le. rewrite Z2Nat.id by nia. exact Hfit. }
  assert (Hlen' : length bytes' = length bytes).
  { unfold bytes'. rewrite app_length, skipn_length, Hcl. lia. }
  exists (store h (b_ptr b) bytes').
  assert (Hl' : lookup (store h (b_ptr b) bytes') (b_ptr b) = Some bytes') by (eapply lookup_store_same; exact Hl).
  assert (Hvo : view_ok h b size = true).
  { unfold view_ok, block_bytes. rewrite Hl. apply Z.leb_le. exact Hfit. }
  repeat split.
  - unfold copy_from_slice. rewrite Hvo. cbn [negb].
    rewrite (proj2 (Z.eqb_eq _ _) Hd1). cbn [negb]. unfold block_bytes. rewrite Hl. reflexivity.
  - unfold as_slice, view_ok, block_bytes. rewrite Hl', Hlen'.
    rewrite (proj2 (Z.leb_le _ _) Hfit). f_equal.
    replace (Z.to_nat (b_len b)) with (length data) by (rewrite <- Hd1, Nat2Z.id; reflexivity).
    unfold bytes'. apply group_concat. exact Hd2.
  - exists bytes'. rewrite Hlen'. repeat split; assumption.
  - intros a Ha. apply lookup_store_other. exact Ha.
  - unfold block_bytes. rewrite Hl', Hl. unfold bytes'. fold n. apply skipn_app_len. exact Hcl.
  - unfold block_bytes. rewrite Hl', Hl. exact Hlen'.
Qed.

Lemma clone_ok : forall p pick h b size,
  pick_ok pick -> 0 < AL p -> AL p mod 64 = 0 -> wf_buf h b size ->
  exists h' c,
    clone p pick h b = (h', c)
    /\ b_len c = b_len b /\ allocated_size c = allocated_size b /\ b_nchunks c = b_nchunks b
    /\ b_ptr c <> b_ptr b
    /\ wf_buf h' c size /\ wf_buf h' b size
    /\ as_slice h' c size = as_slice h b size
    /\ as_slice h' b size = as_slice h b size
    /\ (forall a, a <> b_ptr c -> lookup h' a = lookup h a).
Proof.
  intros p pick h b size Hpick Hal H64 (bytes & Hl & Hne & Hlen & Hfit & Hptr).
  unfold clone, block_bytes. rewrite Hl. unfold alloc.
  rewrite (proj2 (Z.eqb_neq (Z.of_nat (length bytes)) 0)) by lia.
  destruct (Hpick h (Z.of_nat (length bytes)) (AL p) ltac:(lia) Hal) as (B1 & B2 & B3).
  set (base := pick h (Z.of_nat (length bytes)) (AL p)) in *.
  assert (Hneq : base <> b_ptr b) by (intro E; rewrite E in B3; congruence).
  eexists; eexists; split; [reflexivity|].
  cbn [b_len b_alloc b_ptr b_nchunks allocated_size].
  repeat split; try reflexivity.
  - exact Hneq.
  - exists bytes. cbn [b_ptr b_len]. rewrite lookup_cons_same.
    repeat split; try assumption. exact (mod64_of_aligned base (AL p) Hal H64 B2).
  - exists bytes. rewrite lookup_cons_other by congruence. repeat split; assumption.
  - unfold as_slice, view_ok, block_bytes. cbn [b_ptr b_len]. rewrite lookup_cons_same, Hl. reflexivity.
  - unfold as_slice, view_ok, block_bytes. rewrite lookup_cons_other by congruence. reflexivity.
  - intros a Ha. apply lookup_cons_other. exact Ha.
Qed.

(* a view depends only on the buffer's own block *)
Lemma as_slice_frame : forall h h' b size,
  lookup h' (b_ptr b) = lookup h (b_ptr b) -> as_slice h' b size = as_slice h b size.
Proof. intros h h' b size H. unfold as_slice, view_ok, block_bytes. rewrite H. reflexivity. Qed.

Lemma wf_buf_frame : forall h h' b size,
  lookup h' (b_ptr b) = lookup h (b_ptr b) -> wf_buf h b size -> wf_buf h' b size.
Proof. intros h h' b size H (bytes & Hl & R). exists bytes. rewrite H. split; assumption. Qed.

(* ---------------------------------------------------------------------------------------------- *)
(* The statements of C16 for arbitrary well-formed literals                                       *)
(* ---------------------------------------------------------------------------------------------- *)

(* everything the property says about a freshly created buffer *)
Definition zeroed_good (p : ab_params) (h : heap) (len size : Z) (r : heap * buf) : Prop :=
  let '(h', b) := r in
  let npc := CH p / size in
  let chunks := b_nchunks b in
  b_len b = len
  /\ chunks = len / npc + ADD p
  /\ allocated_size b = npc * chunks
  /\ len * size <= CH p * chunks
  /\ allocated_size b * size = CH p * chunks
  /\ len < allocated_size b
  /\ length (block_bytes h' (b_ptr b)) = Z.to_nat (CH p * chunks)
  /\ as_ptr b mod 64 = 0
  /\ as_slice h' b size = Some (repeat (repeat 0 (Z.to_nat size)) (Z.to_nat len))
  /\ wf_buf h' b size
  /\ (forall a, lookup h a <> None -> lookup h' a = lookup h a).

Lemma zeroed_good_of_guarded : forall p prof pick h len size,
  params_ok p -> pick_ok pick -> valid_size p size -> 0 <= len ->
  len / (CH p / size) + ADD p < USIZE ->
  (len / (CH p / size) + ADD p) * CH p <= ISIZE_MAX ->
  exists r, zeroed p prof pick h len size = Ok r /\ zeroed_good p h len size r.
Proof.
  intros p prof pick h len size Hp Hpick Hv Hlen Hno Hfeas.
  destruct (zeroed_guarded p prof pick h len size Hp Hpick Hv Hlen Hno Hfeas) as (base & Hz & B1 & B2 & B3).
  destruct (chunk_arith p len size Hp Hv Hlen) as (A1 & A2 & A3 & A4).
  pose proof Hp as (Hch & _ & _ & _ & Hal & H64 & _). pose proof Hv as (Hs & _).
  set (npc := CH p / size) in *. set (chunks := len / npc + ADD p) in *.
  eexists; split; [exact Hz|].
  assert (Hfit : len * size <= Z.of_nat (Z.to_nat (chunks * CH p))) by (rewrite Z2Nat.id by nia; lia).
  assert (Hmod : base mod 64 = 0) by exact (mod64_of_aligned base (AL p) Hal H64 B2).
  unfold zeroed_good. cbn [b_len b_alloc b_ptr b_nchunks allocated_size as_ptr]. fold npc.
  repeat split; try assumption; try reflexivity.
  - unfold block_bytes. rewrite lookup_cons_same, repeat_length. f_equal. ring.
  - apply as_slice_zero_block; assumption.
  - eexists. cbn [b_ptr b_len]. rewrite lookup_cons_same. rewrite repeat_length.
    repeat split; try assumption; try reflexivity.
    apply Nat2Z.inj_lt. rewrite Z2Nat.id by nia. cbn [Z.of_nat]. nia.
  - intros a Ha. apply lookup_cons_other. intro E. subst a. congruence.
Qed.

(* with the chunk count checked (CHK) or in a debug build, zeroed never returns an undersized buffer: it returns a
   good one or panics, for EVERY len < 2^64 *)
Lemma zeroed_sound : forall p prof pick h len size,
  params_ok p -> pick_ok pick -> valid_size p size -> 0 <= len < USIZE ->
  CHK p = true \/ prof = Debug ->
  match zeroed p prof pick h len size with
  | Ok r => zeroed_good p h len size r
  | Panic k => k = PCapacity \/ k = PExpect \/ k = PAddOverflow
  | Fault => False
  end.
Proof.
  intros p prof pick h len size Hp Hpick Hv Hlen Hform.
  set (npc := CH p / size). set (chunks := len / npc + ADD p).
  destruct (Z.ltb_spec chunks USIZE) as [Hno|Hov].
  - destruct (Z.leb_spec (chunks * CH p) ISIZE_MAX) as [Hfeas|Hinf].
    + destruct (zeroed_good_of_guarded p prof pick h len size Hp Hpick Hv ltac:(lia) Hno Hfeas) as (r & Hz & Hg).
      rewrite Hz. exact Hg.
    + unfold zeroed. rewrite (chunk_count_ok p prof len size Hp Hv ltac:(lia) Hno). fold npc chunks.
      cbn [bind]. rewrite (stride_eq p Hp). rewrite (proj2 (Z.ltb_lt _ _) Hinf). left; reflexivity.
  - destruct (valid_npc p size Hp Hv) as [Hn1 _]. fold npc in Hn1.
    pose proof Hp as (_ & Ha & Hd & _). destruct Hv as (Hs & Hmod).
    unfold zeroed, chunk_count. rewrite Ha, Hd.
    rewrite (proj2 (Z.eqb_neq size 0)) by lia. rewrite Hmod. cbn [Z.eqb negb]. fold npc.
    rewrite (proj2 (Z.eqb_neq npc 0)) by lia.
    unfold usize_checked_add_expect, usize_add. fold chunks.
    rewrite (proj2 (Z.ltb_ge _ _) Hov).
    destruct Hform as [Hc|Hd']; [rewrite Hc | rewrite Hd'; destruct (CHK p)]; cbn [bind is_debug]; auto.
Qed.

Lemma zeroed_rejects : forall p prof pick h len size,
  params_ok p -> 0 <= size -> ~ valid_size p size ->
  zeroed p prof pick h len size = Panic PRemZero \/ zeroed p prof pick h len size = Panic PAssert.
Proof.
  intros p prof pick h len size Hp Hs Hnv. unfold zeroed.
  destruct (chunk_count_rejects p prof len size Hp Hs Hnv) as [E|E]; rewrite E; cbn [bind]; auto.
Qed.

(* write-then-read and clone independence, for any well-formed buffer *)
Lemma write_read : forall h b size data,
  0 < size -> wf_buf h b size -> elems_ok size (b_len b) data ->
  exists h', copy_from_slice h b size data = Ok h' /\ as_slice h' b size = Some data
             /\ wf_buf h' b size
             /\ (forall a, a <> b_ptr b -> lookup h' a = lookup h a)
             /\ skipn (Z.to_nat (b_len b * size)) (block_bytes h' (b_ptr b))
                = skipn (Z.to_nat (b_len b * size)) (block_bytes h (b_ptr b)).
Proof.
  intros h b size data Hs Hwf Hd.
  destruct (copy_ok h b size data Hs Hwf Hd) as (h' & H1 & H2 & H3 & H4 & H5 & _).
  exists h'. repeat split; assumption.
Qed.

Lemma copy_len_mismatch : forall h b size data,
  wf_buf h b size -> Z.of_nat (length data) <> b_len b -> copy_from_slice h b size data = Panic PCopyLen.
Proof.
  intros h b size data (bytes & Hl & _ & _ & Hfit & _) Hne. unfold copy_from_slice, view_ok, block_bytes.
  rewrite Hl. rewrite (proj2 (Z.leb_le _ _) Hfit). cbn [negb].
  rewrite (proj2 (Z.eqb_neq _ _) Hne). reflexivity.
Qed.

Lemma clone_independent : forall p pick h b size,
  pick_ok pick -> params_ok p -> 0 < size -> wf_buf h b size ->
  exists h1 c,
    clone p pick h b = (h1, c)
    /\ b_len c = b_len b /\ allocated_size c = allocated_size b
    /\ as_ptr c <> as_ptr b /\ as_ptr c mod 64 = 0
    /\ as_slice h1 c size = as_slice h b size          (* same contents at clone time *)
    /\ as_slice h1 b size = as_slice h b size
    /\ (forall data, elems_ok size (b_len c) data ->    (* writing the clone leaves the original alone *)
          exists h2, copy_from_slice h1 c size data = Ok h2
                     /\ as_slice h2 c size = Some data /\ as_slice h2 b size = as_slice h b size)
    /\ (forall data, elems_ok size (b_len b) data ->    (* writing the original leaves the clone alone *)
          exists h2, copy_from_slice h1 b size data = Ok h2
                     /\ as_slice h2 b size = Some data /\ as_slice h2 c size = as_slice h b size).
Proof.
  intros p pick h b size Hpick Hp Hs Hwf.
  pose proof Hp as (_ & _ & _ & _ & Hal & H64 & _).
  destruct (clone_ok p pick h b size Hpick Hal H64 Hwf) as (h1 & c & Hc & C1 & C2 & C3 & C4 & C5 & C6 & C7 & C8 & C9).
  exists h1, c. split; [exact Hc|].
  assert (Hcm : as_ptr c mod 64 = 0) by (destruct C5 as (? & _ & _ & _ & _ & M); exact M).
  repeat split; try assumption.
  - intros data Hd.
    destruct (copy_ok h1 c size data Hs C5 Hd) as (h2 & W1 & W2 & _ & W4 & _).
    exists h2. repeat split; try assumption.
    rewrite <- C8. apply as_slice_frame. apply W4. unfold as_ptr in *. congruence.
  - intros data Hd.
    destruct (copy_ok h1 b size data Hs C6 Hd) as (h2 & W1 & W2 & _ & W4 & _).
    exists h2. repeat split; try assumption.
    rewrite <- C7. apply as_slice_frame. apply W4. exact C4.
Qed.

(* ---------------------------------------------------------------------------------------------- *)
(* The allocator contract is satisfiable: the adversarial bump allocator of the model meets it.   *)
(* ---------------------------------------------------------------------------------------------- *)

Lemma heap_top_bound : forall h a bs, lookup h a = Some bs -> a <= heap_top h.
Proof.
  intros h; induction h as [|[b bs'] r IH]; intros a bs H; cbn [lookup heap_top] in *.
  - discriminate H.
  - destruct (Z.eqb_spec b a) as [E|E].
    + subst. lia.
    + specialize (IH a bs H). lia.
Qed.

Lemma heap_top_pos : forall h, 4096 <= heap_top h.
Proof. intros h; induction h as [|[b bs] r IH]; cbn [heap_top]; lia. Qed.

Lemma adv_pick_ok : pick_ok adv_pick.
Proof.
  intros h n a Hn Ha. unfold adv_pick.
  pose proof (heap_top_pos h) as Ht.
  pose proof (Z.div_mod (heap_top h) a ltac:(lia)) as Hdm.
  pose proof (Z.mod_pos_bound (heap_top h) a Ha) as Hmb.
  pose proof (Z.div_pos (heap_top h) a ltac:(lia) Ha) as Hq.
  set (q := heap_top h / a) in *. set (r := heap_top h mod a) in *.
  set (k := if Z.even (q + 1) then q + 1 + 1 else q + 1).
  assert (Hk : q + 1 <= k) by (unfold k; destruct (Z.even (q + 1)); lia).
  assert (Hgt : heap_top h < k * a) by nia.
  repeat split.
  - lia.
  - apply Z.mod_mul. lia.
  - destruct (lookup h (k * a)) as [bs|] eqn:E; [|reflexivity].
    pose proof (heap_top_bound h _ _ E). lia.
Qed.

(* ---------------------------------------------------------------------------------------------- *)
(* The literals of the current source                                                             *)
(* ---------------------------------------------------------------------------------------------- *)

Lemma gen_params_ok : params_ok gen_ab_params.
Proof. unfold params_ok. vm_compute. repeat split; try reflexivity; discriminate. Qed.

(* The unguarded statement "every len < 2^64 yields a panic or a good buffer".  It holds when the chunk count is
   checked; with the plain `+` it holds in debug builds only and is REFUTED for release builds. *)
Definition never_undersized (p : ab_params) (prof : profile) : Prop :=
  forall pick h len size, pick_ok pick -> valid_size p size -> 0 <= len < USIZE ->
    match zeroed p prof pick h len size with
    | Ok r => zeroed_good p h len size r
    | Panic k => k = PCapacity \/ k = PExpect \/ k = PAddOverflow
    | Fault => False
    end.

Definition undersized_witness (p : ab_params) (prof : profile) : Prop :=
  exists len size, valid_size p size /\ 0 <= len < USIZE /\
    match zeroed p prof adv_pick [] len size with
    | Ok (h', b) => allocated_size b < b_len b /\ b_nchunks b = 0 /\ as_slice h' b size = None
    | _ => False
    end.

(* the form of the source selects the statement: checked -> total in every profile;
   unchecked -> total in debug, refuted in release with the witness (len = 2^64 - 1, size = 64) *)
Definition total_or_refuted (p : ab_params) : Prop :=
  if CHK p then forall prof, never_undersized p prof
  else never_undersized p Debug /\ undersized_witness p Release.

Lemma gen_total_or_refuted : total_or_refuted gen_ab_params.
Proof.
  unfold total_or_refuted.
  destruct (CHK gen_ab_params) eqn:Hc.
  - intros prof pick h len size Hpick Hv Hlen.
    apply zeroed_sound; auto using gen_params_ok.
  - split.
    + intros pick h len size Hpick Hv Hlen. apply zeroed_sound; auto using gen_params_ok.
    + exists (2 ^ 64 - 1), 64. vm_compute. repeat split; try reflexivity; discriminate.
Qed.
