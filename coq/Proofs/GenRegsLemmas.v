(* C13, generated register model: the lemmas and the tactic [solve_method] that close the generated refinement goals
   (Gen/GenRegsGoals*.v).  Integers: every instruction (or emulation sequence) applied to [bytes_of w] of well-formed
   lanes yields [bytes_of w] of the lane-wise SCALAR operation ("enc-form" rewriting, Proofs/IntrinsicsFacts.v and
   Proofs/IntrinsicsEmul.v); the model side is brought to the same scalar form by the C13 facts about the models
   ([IntLanewise], [IntElementwise]).  Floats and Fallback: by unfolding and computation. *)
From Coq Require Import ZArith List Arith Bool Lia.
From Flocq Require Import IEEE754.BinarySingleNaN.
From CF Require Import Base.Mem Model.Tables Model.Prim Model.SimdApi Model.Kernels Model.Regs Model.Intrinsics Model.RegTable.
From CF Require Import Proofs.KernelBounds Proofs.OpsWf Proofs.ListFacts Proofs.ReduceCorrect Proofs.IntReduce
     Proofs.IntBackends Proofs.BackendTable Proofs.IntrinsicsFacts Proofs.IntrinsicsEmul Proofs.GenRegsSpec.
From CF Require Proofs.RegArith.
From CF Require Import Model.RustLoops Proofs.RustLoopsFacts.
Import ListNotations.
Local Open Scope Z_scope.

(** * Side conditions: lengths and ranges of lane-wise scalar results *)

Lemma len_map2 {A B C} (f : A -> B -> C) x y n : length x = n -> length y = n -> length (map2 f x y) = n.
Proof. intros Hx Hy. rewrite map2_length; lia. Qed.

Lemma F_add w x y : 0 < w -> Forall (in_range w) (map2 (i_add w) x y).
Proof. intros. apply Forall_map2. intros. apply in_range_wrap. assumption. Qed.
Lemma F_sub w x y : 0 < w -> Forall (in_range w) (map2 (i_sub w) x y).
Proof. intros. apply Forall_map2. intros. apply in_range_wrap. assumption. Qed.
Lemma F_mul w x y : 0 < w -> Forall (in_range w) (map2 (i_mul w) x y).
Proof. intros. apply Forall_map2. intros. apply in_range_wrap. assumption. Qed.
Lemma F_max sg w x y : Forall (in_range w) x -> Forall (in_range w) y -> Forall (in_range w) (map2 (i_max sg w) x y).
Proof. intros. eapply Forall_map2_in; eauto. intros. apply in_range_i_max; assumption. Qed.
Lemma F_min sg w x y : Forall (in_range w) x -> Forall (in_range w) y -> Forall (in_range w) (map2 (i_min sg w) x y).
Proof. intros. eapply Forall_map2_in; eauto. intros. apply in_range_i_min; assumption. Qed.

Create HintDb genregs.
#[global] Hint Resolve len_map2 F_add F_sub F_mul F_max F_min wk8 wk16 wk32 wk64 : genregs.
#[global] Hint Extern 1 (0 < _) => lia : genregs.
#[global] Hint Extern 1 (Nat.even _ = true) => reflexivity : genregs.
Lemma map2_length_min {A B C} (f : A -> B -> C) x y : length (map2 f x y) = Nat.min (length x) (length y).
Proof. revert y. induction x as [|a x IH]; intros [|b y]; cbn [map2 length Nat.min]; try reflexivity. rewrite IH. reflexivity. Qed.
(* lengths of nested map2 / firstn / skipn terms over registers of known length *)
Ltac len_tac :=
  repeat first [ rewrite map2_length_min | rewrite skipn_length | rewrite firstn_length | rewrite map_length | rewrite repeat_length ];
  lia.
#[global] Hint Extern 4 (@eq nat ?a ?b) =>
  (tryif first [has_evar a | has_evar b] then fail else solve [reflexivity | len_tac]) : genregs.

Ltac side := solve [ eauto 10 with genregs ].

(* a list of known length becomes its elements *)
Ltac explode_list x H :=
  let rec go x H :=
    lazymatch type of H with
    | length ?l = O => destruct l; [clear H | discriminate H]
    | length ?l = S ?n =>
        let a := fresh "a" in
        let l' := fresh "l" in
        destruct l as [|a l']; [discriminate H|]; cbn [length] in H; apply eq_add_S in H; go l' H
    end in
  go x H.

(** * Integer instructions on [bytes_of w] of well-formed lanes *)

Lemma E_add w k x y : wk w k -> Forall (in_range w) x -> Forall (in_range w) y ->
  vadd w (bytes_of w x) (bytes_of w y) = bytes_of w (map2 (i_add w) x y).
Proof. intros. apply (vlift2_bytes w k); assumption. Qed.
Lemma E_sub w k x y : wk w k -> Forall (in_range w) x -> Forall (in_range w) y ->
  vsub w (bytes_of w x) (bytes_of w y) = bytes_of w (map2 (i_sub w) x y).
Proof. intros. apply (vlift2_bytes w k); assumption. Qed.
Lemma E_mullo w k x y : wk w k -> Forall (in_range w) x -> Forall (in_range w) y ->
  vmullo w (bytes_of w x) (bytes_of w y) = bytes_of w (map2 (i_mul w) x y).
Proof. intros. apply (vlift2_bytes w k); assumption. Qed.
Lemma E_max_s w k x y : wk w k -> Forall (in_range w) x -> Forall (in_range w) y ->
  vmax_s w (bytes_of w x) (bytes_of w y) = bytes_of w (map2 (i_max true w) x y).
Proof. intros. apply (vlift2_bytes w k); assumption. Qed.
Lemma E_max_u w k x y : wk w k -> Forall (in_range w) x -> Forall (in_range w) y ->
  vmax_u w (bytes_of w x) (bytes_of w y) = bytes_of w (map2 (i_max false w) x y).
Proof. intros. apply (vlift2_bytes w k); assumption. Qed.
Lemma E_min_s w k x y : wk w k -> Forall (in_range w) x -> Forall (in_range w) y ->
  vmin_s w (bytes_of w x) (bytes_of w y) = bytes_of w (map2 (i_min true w) x y).
Proof. intros. apply (vlift2_bytes w k); assumption. Qed.
Lemma E_min_u w k x y : wk w k -> Forall (in_range w) x -> Forall (in_range w) y ->
  vmin_u w (bytes_of w x) (bytes_of w y) = bytes_of w (map2 (i_min false w) x y).
Proof. intros. apply (vlift2_bytes w k); assumption. Qed.

(* the emulation sequences, with the scalar operation on the right *)

Lemma set1_mask16 : vset1 32 8 4278255360 = bytes_of 16 (repeat 65280 16).
Proof. vm_compute. reflexivity. Qed.

Lemma altmask_32 : 12297829382473034410 = altmask 32.
Proof. vm_compute. reflexivity. Qed.

Lemma mul8_spec x y n : length x = (2 * n)%nat -> length y = (2 * n)%nat ->
  Forall (in_range 8) x -> Forall (in_range 8) y -> mul8 x y = map2 (i_mul 8) x y.
Proof.
  intros Lx Ly Fx Fy. apply RegArith.mul8_correct; try assumption; try lia.
  rewrite Lx. rewrite Nat.even_mul. reflexivity.
Qed.

(* AVX2: blendv_epi8(even, odd, set1_epi32(0xFF00FF00)) *)
Lemma P_mul8_avx2 x y : length x = 32%nat -> length y = 32%nat -> Forall (in_range 8) x -> Forall (in_range 8) y ->
  vblendv_epi8 (vmullo 16 (bytes_of 8 x) (bytes_of 8 y))
               (vslli 16 8 (vmullo 16 (vsrai 16 8 (bytes_of 8 x)) (vsrai 16 8 (bytes_of 8 y))))
               (vset1 32 8 4278255360)
  = bytes_of 8 (map2 (i_mul 8) x y).
Proof.
  intros Lx Ly Fx Fy. rewrite <- (mul8_spec x y 16) by assumption.
  assert (Hev : Nat.even (length x) = true) by (rewrite Lx; reflexivity).
  assert (Hp : length (pairs x) = 16%nat) by (pose proof (pairs_length x Hev); lia).
  apply (mul8_sequence (fun e o => vblendv_epi8 e o (vset1 32 8 4278255360))); try assumption; try lia.
  intros e o He Ho Fo. rewrite set1_mask16. rewrite <- Hp, <- He. apply blendv_words; [lia | exact Fo].
Qed.

(* AVX-512: mask_blend_epi8(0xAAAA..., even, odd) *)
Lemma P_mul8_avx512 x y : length x = 64%nat -> length y = 64%nat -> Forall (in_range 8) x -> Forall (in_range 8) y ->
  vmask_blend_epi8 12297829382473034410
                   (vmullo 16 (bytes_of 8 x) (bytes_of 8 y))
                   (vslli 16 8 (vmullo 16 (vsrai 16 8 (bytes_of 8 x)) (vsrai 16 8 (bytes_of 8 y))))
  = bytes_of 8 (map2 (i_mul 8) x y).
Proof.
  intros Lx Ly Fx Fy. rewrite <- (mul8_spec x y 32) by assumption.
  assert (Hev : Nat.even (length x) = true) by (rewrite Lx; reflexivity).
  assert (Hp : length (pairs x) = 32%nat) by (pose proof (pairs_length x Hev); lia).
  apply (mul8_sequence (fun e o => vmask_blend_epi8 12297829382473034410 e o)); try assumption; try lia.
  intros e o He Ho Fo. rewrite altmask_32. rewrite <- Hp, <- He. apply mask_blend_words; [lia | exact Fo].
Qed.

Lemma mul64_spec x y : Forall (in_range 64) x -> Forall (in_range 64) y -> map2 mul64_emul x y = map2 (i_mul 64) x y.
Proof. intros Fx Fy. apply (map2_ext_in (in_range 64) (in_range 64)); try assumption. intros. apply RegArith.mul64_emul_correct; assumption. Qed.
Lemma max64_spec sg x y : Forall (in_range 64) x -> Forall (in_range 64) y -> map2 (max64_emul sg) x y = map2 (i_max sg 64) x y.
Proof. intros Fx Fy. apply (map2_ext_in (in_range 64) (in_range 64)); try assumption. intros. apply RegArith.max64_emul_correct; assumption. Qed.
Lemma min64_spec sg x y : Forall (in_range 64) x -> Forall (in_range 64) y -> map2 (min64_emul sg) x y = map2 (i_min sg 64) x y.
Proof. intros Fx Fy. apply (map2_ext_in (in_range 64) (in_range 64)); try assumption. intros. apply RegArith.min64_emul_correct; assumption. Qed.

(* AVX2 i64 / u64 multiply *)
Lemma P_mul64_avx2 x y : length x = 4%nat -> length y = 4%nat -> Forall (in_range 64) x -> Forall (in_range 64) y ->
  vadd 64 (vmul_epu32 (bytes_of 64 x) (bytes_of 64 y))
          (vand (vadd 32 (vslli 64 32 (vmullo 32 (bytes_of 64 x) (vshuffle_epi32 177 (bytes_of 64 y))))
                         (vmullo 32 (bytes_of 64 x) (vshuffle_epi32 177 (bytes_of 64 y))))
                (vset1 64 4 18446744069414584320))
  = bytes_of 64 (map2 (i_mul 64) x y).
Proof.
  intros Lx Ly Fx Fy. rewrite <- (mul64_spec x y Fx Fy).
  unfold vset1. rewrite <- Lx at 1.
  apply (mul64_sequence x y); try assumption; try lia. rewrite Lx. reflexivity.
Qed.

(* 64-bit max / min by compare and blend (any register length) *)
Lemma P_max64_s n x y : length x = n -> length y = n -> Forall (in_range 64) x -> Forall (in_range 64) y ->
  vblendv_epi8 (bytes_of 64 y) (bytes_of 64 x) (vcmpgt 64 (bytes_of 64 x) (bytes_of 64 y))
  = bytes_of 64 (map2 (i_max true 64) x y).
Proof. intros Lx Ly Fx Fy. rewrite <- (max64_spec true x y Fx Fy). apply max64_sequence_s; try assumption; lia. Qed.
Lemma P_min64_s n x y : length x = n -> length y = n -> Forall (in_range 64) x -> Forall (in_range 64) y ->
  vblendv_epi8 (bytes_of 64 x) (bytes_of 64 y) (vcmpgt 64 (bytes_of 64 x) (bytes_of 64 y))
  = bytes_of 64 (map2 (i_min true 64) x y).
Proof. intros Lx Ly Fx Fy. rewrite <- (min64_spec true x y Fx Fy). apply min64_sequence_s; try assumption; lia. Qed.
Lemma P_max64_u n x y : length x = n -> length y = n -> Forall (in_range 64) x -> Forall (in_range 64) y ->
  vblendv_epi8 (bytes_of 64 y) (bytes_of 64 x)
               (vcmpgt 64 (vxor (bytes_of 64 x) (vset1 64 n 9223372036854775808))
                          (vxor (bytes_of 64 y) (vset1 64 n 9223372036854775808)))
  = bytes_of 64 (map2 (i_max false 64) x y).
Proof.
  intros Lx Ly Fx Fy. rewrite <- (max64_spec false x y Fx Fy). unfold vset1. rewrite <- Lx.
  apply max64_sequence_u; try assumption; lia.
Qed.
Lemma P_min64_u n x y : length x = n -> length y = n -> Forall (in_range 64) x -> Forall (in_range 64) y ->
  vblendv_epi8 (bytes_of 64 x) (bytes_of 64 y)
               (vcmpgt 64 (vxor (bytes_of 64 x) (vset1 64 n 9223372036854775808))
                          (vxor (bytes_of 64 y) (vset1 64 n 9223372036854775808)))
  = bytes_of 64 (map2 (i_min false 64) x y).
Proof.
  intros Lx Ly Fx Fy. rewrite <- (min64_spec false x y Fx Fy). unfold vset1. rewrite <- Lx.
  apply min64_sequence_u; try assumption; lia.
Qed.

(* broadcast and reductions *)
Lemma E_set1 w k n v : wk w k -> in_range w v -> lanes_of w (vset1 w n v) = repeat v n.
Proof. apply lanes_vset1. Qed.
Lemma E_dec w k x : wk w k -> Forall (in_range w) x -> lanes_of w (bytes_of w x) = x.
Proof. apply lanes_bytes. Qed.

(* halves of a register: extract*128::<1> and the cast to the low half, on [bytes_of w] *)
Lemma firstn_bytes_of w k n x : wk w k -> firstn (k * n) (bytes_of w x) = bytes_of w (firstn n x).
Proof.
  intros H. rewrite <- (wk_nbytes _ _ H). revert x. induction n as [|n IH]; intros x.
  - rewrite Nat.mul_0_r. reflexivity.
  - destruct x as [|a x]; [rewrite !firstn_nil; reflexivity|].
    cbn [firstn]. rewrite !bytes_of_cons.
    replace (nbytes w * S n)%nat with (length (le_bytes (nbytes w) a) + nbytes w * n)%nat by (rewrite le_bytes_length; lia).
    rewrite firstn_app_2. rewrite IH. reflexivity.
Qed.
Lemma skipn_bytes_of w k n x : wk w k -> skipn (k * n) (bytes_of w x) = bytes_of w (skipn n x).
Proof.
  intros H. rewrite <- (wk_nbytes _ _ H). revert x. induction n as [|n IH]; intros x.
  - rewrite Nat.mul_0_r. reflexivity.
  - destruct x as [|a x]; [rewrite !skipn_nil; reflexivity|].
    cbn [skipn]. rewrite !bytes_of_cons.
    replace (nbytes w * S n)%nat with (length (le_bytes (nbytes w) a) + nbytes w * n)%nat by (rewrite le_bytes_length; lia).
    rewrite skipn_app, skipn_all2 by lia.
    replace (length (le_bytes (nbytes w) a) + nbytes w * n - length (le_bytes (nbytes w) a))%nat with (nbytes w * n)%nat by lia.
    cbn [app]. apply IH.
Qed.

Lemma E_low_32 x : vlow 16 (bytes_of 32 x) = bytes_of 32 (firstn 4 x).
Proof. apply (firstn_bytes_of 32 4 4). auto with wk. Qed.
Lemma E_low_64 x : vlow 16 (bytes_of 64 x) = bytes_of 64 (firstn 2 x).
Proof. apply (firstn_bytes_of 64 8 2). auto with wk. Qed.
Lemma E_hi_32 x : length x = 8%nat -> vextract 16 1 (bytes_of 32 x) = bytes_of 32 (skipn 4 x).
Proof.
  intros L. unfold vextract. change (16 * Z.to_nat 1)%nat with (4 * 4)%nat. rewrite (skipn_bytes_of 32 4 4) by auto with wk.
  change 16%nat with (4 * 4)%nat. rewrite (firstn_bytes_of 32 4 4) by auto with wk.
  rewrite firstn_all2 by (rewrite skipn_length; lia). reflexivity.
Qed.
Lemma E_hi_64 x : length x = 4%nat -> vextract 16 1 (bytes_of 64 x) = bytes_of 64 (skipn 2 x).
Proof.
  intros L. unfold vextract. change (16 * Z.to_nat 1)%nat with (8 * 2)%nat. rewrite (skipn_bytes_of 64 8 2) by auto with wk.
  change 16%nat with (8 * 2)%nat. rewrite (firstn_bytes_of 64 8 2) by auto with wk.
  rewrite firstn_all2 by (rewrite skipn_length; lia). reflexivity.
Qed.

Lemma E_low_8 x : vlow 16 (bytes_of 8 x) = bytes_of 8 (firstn 16 x).
Proof. apply (firstn_bytes_of 8 1 16). auto with wk. Qed.
Lemma E_low_16 x : vlow 16 (bytes_of 16 x) = bytes_of 16 (firstn 8 x).
Proof. apply (firstn_bytes_of 16 2 8). auto with wk. Qed.
Lemma E_hi_8 x : length x = 32%nat -> vextract 16 1 (bytes_of 8 x) = bytes_of 8 (skipn 16 x).
Proof.
  intros L. unfold vextract. change (16 * Z.to_nat 1)%nat with (1 * 16)%nat. rewrite (skipn_bytes_of 8 1 16) by auto with wk.
  change 16%nat with (1 * 16)%nat at 1. rewrite (firstn_bytes_of 8 1 16) by auto with wk.
  rewrite firstn_all2 by (rewrite skipn_length; lia). reflexivity.
Qed.
Lemma E_hi_16 x : length x = 16%nat -> vextract 16 1 (bytes_of 16 x) = bytes_of 16 (skipn 8 x).
Proof.
  intros L. unfold vextract. change (16 * Z.to_nat 1)%nat with (2 * 8)%nat. rewrite (skipn_bytes_of 16 2 8) by auto with wk.
  change 16%nat with (2 * 8)%nat. rewrite (firstn_bytes_of 16 2 8) by auto with wk.
  rewrite firstn_all2 by (rewrite skipn_length; lia). reflexivity.
Qed.

(* AVX-512: shuffle_i64x2::<_MM_SHUFFLE(1, 0, 3, 2)>(reg, reg) swaps the 256-bit halves; castsi512_si256 keeps the low one *)
Lemma shuffle78_low a : length a = 64%nat -> vlow 32 (vshuffle_i64x2 78 a a) = skipn 32 a.
Proof. intros L. explode_list a L. reflexivity. Qed.
Lemma E_swap_hi_8 x : length x = 64%nat -> vlow 32 (vshuffle_i64x2 78 (bytes_of 8 x) (bytes_of 8 x)) = bytes_of 8 (skipn 32 x).
Proof.
  intros L. rewrite shuffle78_low by (rewrite (bytes_of_length 8 1) by auto with wk; lia).
  apply (skipn_bytes_of 8 1 32). auto with wk.
Qed.
Lemma E_swap_hi_16 x : length x = 32%nat -> vlow 32 (vshuffle_i64x2 78 (bytes_of 16 x) (bytes_of 16 x)) = bytes_of 16 (skipn 16 x).
Proof.
  intros L. rewrite shuffle78_low by (rewrite (bytes_of_length 16 2) by auto with wk; lia).
  apply (skipn_bytes_of 16 2 16). auto with wk.
Qed.
Lemma E_low32_8 x : vlow 32 (bytes_of 8 x) = bytes_of 8 (firstn 32 x).
Proof. apply (firstn_bytes_of 8 1 32). auto with wk. Qed.
Lemma E_low32_16 x : vlow 32 (bytes_of 16 x) = bytes_of 16 (firstn 16 x).
Proof. apply (firstn_bytes_of 16 2 16). auto with wk. Qed.

(* the four strided accumulators over a list of 16 / 8 elements, spelled out *)
Lemma strided4_16 (op : Z -> Z -> Z) s l : length l = 16%nat ->
  strided4 op s s s s l =
  op (op (op (op (op (op s (nth 0 l 0)) (nth 4 l 0)) (nth 8 l 0)) (nth 12 l 0))
         (op (op (op (op s (nth 1 l 0)) (nth 5 l 0)) (nth 9 l 0)) (nth 13 l 0)))
     (op (op (op (op (op s (nth 2 l 0)) (nth 6 l 0)) (nth 10 l 0)) (nth 14 l 0))
         (op (op (op (op s (nth 3 l 0)) (nth 7 l 0)) (nth 11 l 0)) (nth 15 l 0))).
Proof. intros L. explode_list l L. reflexivity. Qed.
Lemma strided4_8 (op : Z -> Z -> Z) s l : length l = 8%nat ->
  strided4 op s s s s l =
  op (op (op (op s (nth 0 l 0)) (nth 4 l 0)) (op (op s (nth 1 l 0)) (nth 5 l 0)))
     (op (op (op s (nth 2 l 0)) (nth 6 l 0)) (op (op s (nth 3 l 0)) (nth 7 l 0))).
Proof. intros L. explode_list l L. reflexivity. Qed.

Lemma F_firstn {A} (P : A -> Prop) n x : Forall P x -> Forall P (firstn n x).
Proof. intros F. apply Forall_forall. intros a Ha. rewrite Forall_forall in F. apply F. eapply In_firstn_In; eassumption. Qed.
Lemma F_skipn {A} (P : A -> Prop) n x : Forall P x -> Forall P (skipn n x).
Proof. intros F. apply Forall_forall. intros a Ha. rewrite Forall_forall in F. apply F. eapply In_skipn_In; eassumption. Qed.
#[global] Hint Resolve F_firstn F_skipn : genregs.

(* the AVX2 horizontal folds of the 32- and 64-bit types (no scalar loop), in scalar form *)
Section Avx2Folds.
  Variable sg : bool.
  Lemma a2_sum32 x : length x = 8%nat ->
    r_sum_to_value (avx2_int_ops sg 32) x = tree4 (i_add 32) (map2 (i_add 32) (skipn 4 x) (firstn 4 x)).
  Proof. intros L. rewrite a2_sumv. unfold avx2_hfold, upper_half, lower_half. rewrite L. reflexivity. Qed.
  Lemma a2_max32 x : length x = 8%nat ->
    r_max_to_value (avx2_int_ops sg 32) x = tree4 (i_max sg 32) (map2 (i_max sg 32) (skipn 4 x) (firstn 4 x)).
  Proof. intros L. rewrite a2_maxv. unfold avx2_hfold, upper_half, lower_half. rewrite L. reflexivity. Qed.
  Lemma a2_min32 x : length x = 8%nat ->
    r_min_to_value (avx2_int_ops sg 32) x = tree4 (i_min sg 32) (map2 (i_min sg 32) (skipn 4 x) (firstn 4 x)).
  Proof. intros L. rewrite a2_minv. unfold avx2_hfold, upper_half, lower_half. rewrite L. reflexivity. Qed.
  Lemma a2_sum64 x : length x = 4%nat ->
    r_sum_to_value (avx2_int_ops sg 64) x = pair2 (i_add 64) (map2 (i_add 64) (skipn 2 x) (firstn 2 x)).
  Proof. intros L. rewrite a2_sumv. unfold avx2_hfold, upper_half, lower_half. rewrite L. reflexivity. Qed.
  Lemma a2_max64 x : length x = 4%nat -> Forall (in_range 64) x ->
    r_max_to_value (avx2_int_ops sg 64) x = pair2 (i_max sg 64) (map2 (i_max sg 64) (skipn 2 x) (firstn 2 x)).
  Proof.
    intros L F. rewrite a2_maxv. unfold avx2_hfold, upper_half, lower_half. rewrite L.
    change (r_max (avx2_int_ops sg 64)) with (map2 (max64_emul sg)).
    rewrite max64_spec by auto with genregs. reflexivity.
  Qed.
  Lemma a2_min64 x : length x = 4%nat -> Forall (in_range 64) x ->
    r_min_to_value (avx2_int_ops sg 64) x = pair2 (i_min sg 64) (map2 (i_min sg 64) (skipn 2 x) (firstn 2 x)).
  Proof.
    intros L F. rewrite a2_minv. unfold avx2_hfold, upper_half, lower_half. rewrite L.
    change (r_min (avx2_int_ops sg 64)) with (map2 (min64_emul sg)).
    rewrite min64_spec by auto with genregs. reflexivity.
  Qed.
End Avx2Folds.

(* ... and of the 8- and 16-bit types: four strided scalar accumulators over the combined halves *)
Section Avx2Folds8.
  Variable sg : bool.
  Lemma a2_sum8 x : length x = 32%nat ->
    r_sum_to_value (avx2_int_ops sg 8) x = strided4 (i_add 8) 0 0 0 0 (map2 (i_add 8) (skipn 16 x) (firstn 16 x)).
  Proof. intros L. rewrite a2_sumv. unfold avx2_hfold, upper_half, lower_half. rewrite L. reflexivity. Qed.
  Lemma a2_max8 x : length x = 32%nat ->
    r_max_to_value (avx2_int_ops sg 8) x
    = strided4 (i_max sg 8) (i_MIN sg 8) (i_MIN sg 8) (i_MIN sg 8) (i_MIN sg 8) (map2 (i_max sg 8) (skipn 16 x) (firstn 16 x)).
  Proof. intros L. rewrite a2_maxv. unfold avx2_hfold, upper_half, lower_half. rewrite L. reflexivity. Qed.
  Lemma a2_min8 x : length x = 32%nat ->
    r_min_to_value (avx2_int_ops sg 8) x
    = strided4 (i_min sg 8) (i_MAX sg 8) (i_MAX sg 8) (i_MAX sg 8) (i_MAX sg 8) (map2 (i_min sg 8) (skipn 16 x) (firstn 16 x)).
  Proof. intros L. rewrite a2_minv. unfold avx2_hfold, upper_half, lower_half. rewrite L. reflexivity. Qed.
  Lemma a2_sum16 x : length x = 16%nat ->
    r_sum_to_value (avx2_int_ops sg 16) x = strided4 (i_add 16) 0 0 0 0 (map2 (i_add 16) (skipn 8 x) (firstn 8 x)).
  Proof. intros L. rewrite a2_sumv. unfold avx2_hfold, upper_half, lower_half. rewrite L. reflexivity. Qed.
  Lemma a2_max16 x : length x = 16%nat ->
    r_max_to_value (avx2_int_ops sg 16) x
    = strided4 (i_max sg 16) (i_MIN sg 16) (i_MIN sg 16) (i_MIN sg 16) (i_MIN sg 16) (map2 (i_max sg 16) (skipn 8 x) (firstn 8 x)).
  Proof. intros L. rewrite a2_maxv. unfold avx2_hfold, upper_half, lower_half. rewrite L. reflexivity. Qed.
  Lemma a2_min16 x : length x = 16%nat ->
    r_min_to_value (avx2_int_ops sg 16) x
    = strided4 (i_min sg 16) (i_MAX sg 16) (i_MAX sg 16) (i_MAX sg 16) (i_MAX sg 16) (map2 (i_min sg 16) (skipn 8 x) (firstn 8 x)).
  Proof. intros L. rewrite a2_minv. unfold avx2_hfold, upper_half, lower_half. rewrite L. reflexivity. Qed.

  (* AVX-512: the 256-bit halves are combined first, then the AVX2 fold *)
  Lemma a5_sum8 x : length x = 64%nat ->
    r_sum_to_value (avx512_int_ops sg 8) x = r_sum_to_value (avx2_int_ops sg 8) (map2 (i_add 8) (skipn 32 x) (firstn 32 x)).
  Proof. intros L. rewrite a5_sumv. match goal with |- context [(?w <=? 16)%Z] => change (w <=? 16)%Z with true end. cbv beta iota. unfold upper_half, lower_half. rewrite L. reflexivity. Qed.
  Lemma a5_max8 x : length x = 64%nat ->
    r_max_to_value (avx512_int_ops sg 8) x = r_max_to_value (avx2_int_ops sg 8) (map2 (i_max sg 8) (skipn 32 x) (firstn 32 x)).
  Proof. intros L. rewrite a5_maxv. match goal with |- context [(?w <=? 16)%Z] => change (w <=? 16)%Z with true end. cbv beta iota. unfold upper_half, lower_half. rewrite L. reflexivity. Qed.
  Lemma a5_min8 x : length x = 64%nat ->
    r_min_to_value (avx512_int_ops sg 8) x = r_min_to_value (avx2_int_ops sg 8) (map2 (i_min sg 8) (skipn 32 x) (firstn 32 x)).
  Proof. intros L. rewrite a5_minv. match goal with |- context [(?w <=? 16)%Z] => change (w <=? 16)%Z with true end. cbv beta iota. unfold upper_half, lower_half. rewrite L. reflexivity. Qed.
  Lemma a5_sum16 x : length x = 32%nat ->
    r_sum_to_value (avx512_int_ops sg 16) x = r_sum_to_value (avx2_int_ops sg 16) (map2 (i_add 16) (skipn 16 x) (firstn 16 x)).
  Proof. intros L. rewrite a5_sumv. match goal with |- context [(?w <=? 16)%Z] => change (w <=? 16)%Z with true end. cbv beta iota. unfold upper_half, lower_half. rewrite L. reflexivity. Qed.
  Lemma a5_max16 x : length x = 32%nat ->
    r_max_to_value (avx512_int_ops sg 16) x = r_max_to_value (avx2_int_ops sg 16) (map2 (i_max sg 16) (skipn 16 x) (firstn 16 x)).
  Proof. intros L. rewrite a5_maxv. match goal with |- context [(?w <=? 16)%Z] => change (w <=? 16)%Z with true end. cbv beta iota. unfold upper_half, lower_half. rewrite L. reflexivity. Qed.
  Lemma a5_min16 x : length x = 32%nat ->
    r_min_to_value (avx512_int_ops sg 16) x = r_min_to_value (avx2_int_ops sg 16) (map2 (i_min sg 16) (skipn 16 x) (firstn 16 x)).
  Proof. intros L. rewrite a5_minv. match goal with |- context [(?w <=? 16)%Z] => change (w <=? 16)%Z with true end. cbv beta iota. unfold upper_half, lower_half. rewrite L. reflexivity. Qed.
End Avx2Folds8.

(** * The tactic *)

(* closed sub-terms of the constant arguments (`_MM_SHUFFLE(2, 3, 0, 1)`) are evaluated *)
Ltac eval_consts :=
  repeat match goal with
         | |- context [rs_or ?a ?b] => let v := eval vm_compute in (rs_or a b) in
                                        lazymatch v with Z0 => idtac | Zpos _ => idtac | Zneg _ => idtac end;
                                        change (rs_or a b) with v
         end.

Ltac open_dense :=
  repeat match goal with
         | X : DenseLane _ |- _ => destruct X
         | H : dall _ _ |- _ => unfold dall in H; cbn [da db dc dd de df dg dh] in H;
                                destruct H as (? & ? & ? & ? & ? & ? & ? & ?)
         end.

Ltac open_ok :=
  repeat match goal with
         | H : okreg _ _ _ _ |- _ => let L := fresh "L" in let F := fresh "F" in destruct H as [L F]
         end.

Ltac norm_lanes R :=
  let n := eval vm_compute in (lanes R) in
  change (lanes R) with n in *.

(* rebound by the generated goal files to Gen/GenRegs.unfold_gen (the list of generated names) and, for the non-generic
   back ends, Gen/GenRegs.unfold_gen_math (`AutoMath::m` at a concrete element type: the field of the regenerated record) *)
Ltac unfold_gen_hook := idtac.
Ltac unfold_math_hook := idtac.

Ltac unfold_all :=
  unfold_gen_hook; unfold_math_hook; cbv beta iota delta [da db dc dd de df dg dh dmap dl];
  cbn [map]; eval_consts.

(* integer LHS: push [bytes_of] outwards; n = the lane count of the register *)
Ltac enc_step n :=
  let h := eval vm_compute in (Nat.div n 2) in
  first
    [ rewrite E_swap_hi_8 by side | rewrite E_swap_hi_16 by side | rewrite E_low32_8 | rewrite E_low32_16
    | rewrite E_low_8 | rewrite E_low_16 | rewrite E_hi_8 by side | rewrite E_hi_16 by side
    | rewrite E_low_32 | rewrite E_low_64 | rewrite E_hi_32 by side | rewrite E_hi_64 by side
    | rewrite (P_max64_s h) by side
    | rewrite (P_min64_s h) by side
    | rewrite (P_max64_u h) by side
    | rewrite (P_min64_u h) by side
    | rewrite P_mul8_avx2 by side
    | rewrite P_mul8_avx512 by side
    | rewrite P_mul64_avx2 by side
    | rewrite (P_max64_s n) by side
    | rewrite (P_min64_s n) by side
    | rewrite (P_max64_u n) by side
    | rewrite (P_min64_u n) by side
    | erewrite E_add by side
    | erewrite E_sub by side
    | erewrite E_mullo by side
    | erewrite E_max_s by side
    | erewrite E_max_u by side
    | erewrite E_min_s by side
    | erewrite E_min_u by side ].

Ltac enc_norm n := repeat (enc_step n).

Ltac dec_norm :=
  repeat first [ erewrite E_dec by side | erewrite E_set1 by (first [side | assumption]) ].

(* the model side, through the C13 facts about the model *)
Ltac sideR R := solve [ norm_lanes R; eauto 10 with genregs ].

Ltac model_step R IL IE :=
  first
    [ rewrite (il_fmadd _ _ IL)
    | rewrite (il_zero _ _ IL) | rewrite (ie_filled _ _ _ IE)
    | (* innermost first: an instance whose arguments are not yet in scalar form is skipped by backtracking *)
      match goal with
      | |- context [r_add R ?x ?y] => rewrite (il_add _ _ IL x y) by sideR R
      | |- context [r_sub R ?x ?y] => rewrite (il_sub _ _ IL x y) by sideR R
      | |- context [r_mul R ?x ?y] => rewrite (il_mul _ _ IL x y) by sideR R
      | |- context [r_max R ?x ?y] => rewrite (ie_max _ _ _ IE x y) by sideR R
      | |- context [r_min R ?x ?y] => rewrite (ie_min _ _ _ IE x y) by sideR R
      end ].

Ltac model_norm R IL IE :=
  unfold sum_to_register, max_to_register, min_to_register, rollup, nth_reg;
  cbn [nth];
  repeat (model_step R IL IE).

Ltac explode_all :=
  repeat match goal with
         | H : length ?l = _ |- _ => is_var l; explode_list l H
         end.

(* no universally quantified register / scalar was introduced *)
Ltac closed_goal :=
  lazymatch goal with
  | _ : in_range _ _ |- _ => fail
  | _ : length _ = _ |- _ => fail
  | _ => idtac
  end.

Lemma list8_eq {A} (a1 a2 a3 a4 a5 a6 a7 a8 b1 b2 b3 b4 b5 b6 b7 b8 : A) :
  a1 = b1 -> a2 = b2 -> a3 = b3 -> a4 = b4 -> a5 = b5 -> a6 = b6 -> a7 = b7 -> a8 = b8 ->
  [a1; a2; a3; a4; a5; a6; a7; a8] = [b1; b2; b3; b4; b5; b6; b7; b8].
Proof. intros; subst; reflexivity. Qed.

(* dense forms: bring the model side to the list of its eight registers, then one goal per register *)
Ltac split_dense IL IE :=
  try (first [ rewrite (il_add_dense _ _ IL) | rewrite (il_sub_dense _ _ IL) | rewrite (il_fmadd_dense _ _ IL)
             | rewrite (ie_mul_dense _ _ _ IE) | rewrite (ie_max_dense _ _ _ IE) | rewrite (ie_min_dense _ _ _ IE)
             | unfold filled_dense, zeroed_dense, dense_copy, NUM_LANES; cbn [repeat] ];
       cbn [apply_dense2 map2];
       apply list8_eq).

(** * Scalar loops and panics (Model/RustLoops.v) *)

(* every loop `for (idx, (a, b)) in zip(xs, ys).enumerate() { result[idx] = f(a, b); }` whose arrays are already in lane
   form becomes [sequence (map2 f xs ys)] (f may panic) or [Some (map2 g xs ys)]; [obind (Some _)] is then reduced, which
   exposes the next loop (roll-ups, fmadd = mul then add) *)
Ltac loop_step :=
  dec_norm;
  first [ rewrite fze_store_opt by side | rewrite fze_store_tot by side ];
  cbn [obind].
Ltac loop_norm := loop_step; repeat loop_step.

(* integer division: one case per register, in the order of evaluation; a zero divisor lane (None) on both sides, or the
   quotients, which are in range again *)
Ltac div_cases :=
  repeat match goal with
         | |- context [sequence (map2 (i_div ?sg ?w) ?x ?y)] =>
             let E := fresh "E" in
             destruct (sequence (map2 (i_div sg w) x y)) eqn:E;
             [ apply seq_div_range in E; [ | lia | assumption | assumption ] | ];
             cbn [obind option_map]; try reflexivity
         end.

Ltac solve_int r t R :=
  let IL := fresh "IL" in
  let IE := fresh "IE" in
  destruct (int_model_faithful r t R eq_refl) as [IL IE];
  cbn [width is_signed] in IL, IE;
  cbv beta iota delta [method_goal bin_goal dbin_goal roll_goal fold_goal obin_goal odbin_goal tot2 ddec];
  intros; open_dense; open_ok; norm_lanes R;
  unfold_all;
  first
    [ (* closed: constants, lane counts *) closed_goal; vm_compute; reflexivity
    | (* scalar loops over the transmuted lanes; panics *)
      lazymatch goal with |- context [for_zip_enum] => idtac end;
      loop_norm;
      first
        [ (* the body never panics: the value, as for the instruction-level methods *)
          cbn [option_map]; apply f_equal;
          cbv beta iota delta [da db dc dd de df dg dh dl]; cbn [map];
          split_dense IL IE; (let n := eval vm_compute in (lanes R) in enc_norm n); dec_norm; model_norm R IL IE; norm_lanes R;
          reflexivity
        | (* integer division *)
          try rewrite (ie_div_dense _ _ _ IE); cbn [apply_dense2_opt];
          repeat match goal with
                 | |- context [r_div R ?x ?y] => rewrite (ie_div _ _ _ IE x y) by sideR R
                 end;
          div_cases;
          cbv beta iota delta [da db dc dd de df dg dh dl]; cbn [map];
          dec_norm; reflexivity ]
    | split_dense IL IE; (let n := eval vm_compute in (lanes R) in enc_norm n); dec_norm; model_norm R IL IE; norm_lanes R; reflexivity
    | (* across-vector reductions of the instruction set: the model is the same fold *)
      unfold vreduce_add, vreduce_max, vreduce_min; dec_norm; cbv zeta; reflexivity
    | (* AVX2 folds of the 32/64-bit types: halves combined by an instruction, then scalar std operations *)
      (let n := eval vm_compute in (lanes R) in enc_norm n); dec_norm;
      try (first [ rewrite a5_sum8 by side | rewrite a5_max8 by side | rewrite a5_min8 by side
                 | rewrite a5_sum16 by side | rewrite a5_max16 by side | rewrite a5_min16 by side ]);
      first [ rewrite a2_sum32 by side | rewrite a2_max32 by side | rewrite a2_min32 by side
            | rewrite a2_sum64 by side | rewrite a2_max64 by side | rewrite a2_min64 by side
            | rewrite a2_sum8 by side; rewrite strided4_16 by side
            | rewrite a2_max8 by side; rewrite strided4_16 by side
            | rewrite a2_min8 by side; rewrite strided4_16 by side
            | rewrite a2_sum16 by side; rewrite strided4_8 by side
            | rewrite a2_max16 by side; rewrite strided4_8 by side
            | rewrite a2_min16 by side; rewrite strided4_8 by side ];
      reflexivity
    | (* a fold over the transmuted lanes of a short register *)
      dec_norm; explode_all; reflexivity ].

Ltac solve_float R :=
  cbv beta iota delta [method_goal bin_goal dbin_goal roll_goal fold_goal];
  intros; open_dense; open_ok; norm_lanes R;
  unfold_all;
  first [ reflexivity | explode_all; reflexivity ].

Ltac solve_fallback :=
  intros T Mt;
  cbv beta iota delta [method_goal bin_goal dbin_goal roll_goal fold_goal obin_goal odbin_goal tot2 ddec fb_inst];
  intros; open_dense; open_ok;
  change (lanes (fallback_ops Mt)) with 1%nat in *;
  explode_all; unfold_all;
  first [ reflexivity
        | (* Math::div may panic: one case per call, in the order of evaluation *)
          cbn [fallback_ops r_div r_div_dense apply_dense2_opt lane1 hd];
          repeat match goal with
                 | |- context [m_div Mt ?a ?b] => destruct (m_div Mt a b); cbn [obind option_map]; try reflexivity
                 end ].

Ltac solve_method :=
  lazymatch goal with
  | |- reg_goal ?r ?t ?m (GI ?d) =>
      let R := eval cbv [int_model int_ops is_float int_signed is_signed width] in (int_model r t) in
      lazymatch R with
      | Some ?R' => change (is_float t = false /\ method_goal Z (list Z) R' (bytes_of (width t)) (lanes_of (width t)) (in_range (width t)) m d);
                    cbn [width]; split; [reflexivity | solve_int r t R']
      end
  | |- reg_goal ?r ?t ?m (GF32 ?d) =>
      let R := eval cbv [f32_model f32_ops] in (f32_model r) in
      lazymatch R with
      | Some ?R' => change (t = F32 /\ method_goal f32 (list f32) R' (fun x => x) (fun x => x) (fun _ => True) m d);
                    split; [reflexivity | solve_float R']
      end
  | |- reg_goal ?r ?t ?m (GF64 ?d) =>
      let R := eval cbv [f64_model f64_ops] in (f64_model r) in
      lazymatch R with
      | Some ?R' => change (t = F64 /\ method_goal f64 (list f64) R' (fun x => x) (fun x => x) (fun _ => True) m d);
                    split; [reflexivity | solve_float R']
      end
  | |- fb_goal _ _ => solve_fallback
  end.
