(* Real-number rounding-error calculus for C04 (float reductions).

   Format: FLT (radix 2, precision prec, minimal exponent emin), rounding to nearest even [rnd];
   u = 2^-prec is the unit roundoff, E k = (1+u)^k - 1, gamma k = k u / (1 - k u).

   [RApxD v d S A]  : the real v approximates the exact sum S of a collection of terms whose absolute values sum
                      to A, every term having suffered at most d roundings:  |S| <= A  and  |v - S| <= E d * A.
   [RApx v c S A]   : the same for a value that CONTAINS c terms, with the invariant "a value containing c >= 1
                      terms has suffered at most c + 2 roundings on any leaf-to-root path" (d = c + 2); c = 0 forces
                      A = 0, hence v = S = 0.
   The rules: a term enters with at most 3 roundings ([RApx_enter_*]); an addition of two format numbers
   ([RApx_add]) and a fused multiply-add whose exact product does not lie in the subnormal range
   ([RApx_fma]) preserve the invariant.  Finally E (n+2) <= gamma (n+3).

   Flocq's reals bring the 4 standard-library axioms named in DESIGN §2.8; no others. *)
From Coq Require Import ZArith Reals Lra Lia List Psatz.
From Flocq Require Import Core Relative Plus_error.
Import ListNotations.
Local Open Scope R_scope.

Definition Rsum (l : list R) : R := fold_right Rplus 0 l.

Lemma Rsum_app x y : Rsum (x ++ y) = Rsum x + Rsum y.
Proof.
  unfold Rsum. induction x as [|a x IH]; cbn [app fold_right]; [lra|]. rewrite IH. lra.
Qed.

Section RoundErr.
  Variables prec emin : Z.
  Context {Hp : Prec_gt_0 prec}.
  Notation fexp := (FLT_exp emin prec).
  Notation format := (generic_format radix2 fexp).

  Definition rnd (x : R) : R := round radix2 fexp ZnearestE x.
  Definition u : R := bpow radix2 (- prec).
  Definition E (k : nat) : R := (1 + u) ^ k - 1.
  Definition gamma (k : nat) : R := INR k * u / (1 - INR k * u).

  (** * u, E, gamma *)
  Lemma u_pos : 0 < u. Proof. apply bpow_gt_0. Qed.

  Lemma u_uro : u = u_ro radix2 prec.
  Proof.
    unfold u, u_ro. replace (- prec + 1)%Z with (1 + - prec)%Z by lia. rewrite bpow_plus.
    change (bpow radix2 1) with 2. lra.
  Qed.

  Lemma u_lt_1 : u < 1.
  Proof. rewrite u_uro. apply u_ro_lt_1. exact Hp. Qed.

  Lemma pow1u_ge1 k : 1 <= (1 + u) ^ k.
  Proof. apply pow_R1_Rle. pose proof u_pos. lra. Qed.

  Lemma pow1u_mono k k' : (k <= k')%nat -> (1 + u) ^ k <= (1 + u) ^ k'.
  Proof. intros H. apply Rle_pow; [pose proof u_pos; lra | exact H]. Qed.

  Lemma E_pow k : (1 + u) ^ k = 1 + E k. Proof. unfold E. lra. Qed.
  Lemma E_nonneg k : 0 <= E k. Proof. unfold E. pose proof (pow1u_ge1 k). lra. Qed.
  Lemma E_mono k k' : (k <= k')%nat -> E k <= E k'.
  Proof. intros H. unfold E. pose proof (pow1u_mono k k' H). lra. Qed.
  Lemma E_0 : E 0 = 0. Proof. unfold E. cbn [pow]. lra. Qed.
  Lemma E_S k : E (S k) = E k + u * (1 + u) ^ k.
  Proof. unfold E. cbn [pow]. ring. Qed.
  Lemma E_1 : E 1 = u. Proof. rewrite E_S, E_0. cbn [pow]. lra. Qed.
  Lemma u_le_E k : (1 <= k)%nat -> u <= E k.
  Proof. intros H. rewrite <- E_1. apply E_mono. exact H. Qed.

  Lemma pow1u_le_inv k : INR k * u < 1 -> (1 + u) ^ k <= / (1 - INR k * u).
  Proof.
    pose proof u_pos as Hu.
    induction k as [|k IH]; intros Hk.
    - cbn [pow INR]. rewrite Rmult_0_l, Rminus_0_r, Rinv_1. lra.
    - rewrite S_INR in *.
      assert (Hk' : INR k * u < 1) by nra.
      specialize (IH Hk'). cbn [pow].
      assert (P1 : 0 < 1 - INR k * u) by lra.
      assert (P2 : 0 < 1 - (INR k + 1) * u) by lra.
      apply Rmult_le_reg_r with (1 - (INR k + 1) * u); [exact P2|].
      rewrite Rinv_l by lra.
      assert (Q : (1 + u) * (1 - (INR k + 1) * u) <= 1 - INR k * u).
      { pose proof (pos_INR k). nra. }
      assert (IH' : (1 + u) ^ k * (1 - INR k * u) <= 1).
      { apply Rmult_le_reg_r with (/ (1 - INR k * u)); [apply Rinv_0_lt_compat; exact P1|].
        rewrite Rmult_assoc, Rinv_r by lra. lra. }
      pose proof (pow1u_ge1 k) as G.
      replace ((1 + u) * (1 + u) ^ k * (1 - (INR k + 1) * u))
        with ((1 + u) ^ k * ((1 + u) * (1 - (INR k + 1) * u))) by ring.
      apply Rle_trans with ((1 + u) ^ k * (1 - INR k * u)); [|exact IH'].
      apply Rmult_le_compat_l; [lra | exact Q].
  Qed.

  Lemma E_le_gamma k : INR k * u < 1 -> E k <= gamma k.
  Proof.
    intros Hk. pose proof (pow1u_le_inv k Hk) as H. unfold E, gamma.
    assert (P : 0 < 1 - INR k * u) by lra.
    replace (INR k * u / (1 - INR k * u)) with (/ (1 - INR k * u) - 1); [lra|].
    field. lra.
  Qed.

  Lemma gamma_nonneg k : INR k * u < 1 -> 0 <= gamma k.
  Proof. intros Hk. eapply Rle_trans; [apply (E_nonneg k) | apply E_le_gamma; exact Hk]. Qed.

  (** * Rounding errors of one operation *)
  Lemma format_rnd x : format (rnd x).
  Proof. apply generic_format_round; [apply FLT_exp_valid; exact Hp | apply valid_rnd_N]. Qed.

  Lemma rnd_format x : format x -> rnd x = x.
  Proof. intros H. apply round_generic; [apply valid_rnd_N | exact H]. Qed.

  Lemma rnd_0 : rnd 0 = 0.
  Proof. apply round_0. apply valid_rnd_N. Qed.

  (* the sum of two format numbers: always a relative error (a subnormal sum is exact) *)
  Lemma rnd_plus_err x y : format x -> format y -> Rabs (rnd (x + y) - (x + y)) <= u * Rabs (x + y).
  Proof.
    intros Fx Fy.
    destruct (FLT_plus_error_N_ex radix2 emin prec (fun t => negb (Z.even t)) x y Fx Fy) as (eps & He & Hr).
    unfold rnd. rewrite Hr.
    replace ((x + y) * (1 + eps) - (x + y)) with (eps * (x + y)) by ring.
    rewrite Rabs_mult. apply Rmult_le_compat_r; [apply Rabs_pos|].
    eapply Rle_trans; [exact He|]. rewrite u_uro. apply u_rod1pu_ro_le_u_ro.
  Qed.

  (* a real outside the subnormal range (or zero) *)
  Definition nosub (x : R) : Prop := x = 0 \/ bpow radix2 (emin + prec - 1) <= Rabs x.

  Lemma rnd_rel_err x : nosub x -> Rabs (rnd x - x) <= u * Rabs x.
  Proof.
    intros [->|H].
    - rewrite rnd_0, Rminus_0_r, Rabs_R0. lra.
    - rewrite u_uro. unfold u_ro. apply relative_error_N_FLT; [exact Hp | exact H].
  Qed.

  Lemma half_emin : / 2 * bpow radix2 emin = u * bpow radix2 (emin + prec - 1).
  Proof.
    unfold u. rewrite <- bpow_plus. replace (- prec + (emin + prec - 1))%Z with (-1 + emin)%Z by lia.
    rewrite bpow_plus. change (bpow radix2 (-1)) with (/ 2). reflexivity.
  Qed.

  (* fused multiply-add: exact product e outside the subnormal range, addend in the format *)
  Lemma rnd_fma_err e w : nosub e -> format w ->
    Rabs (rnd (e + w) - (e + w)) <= u * Rabs (e + w) \/ Rabs (rnd (e + w) - (e + w)) <= u * Rabs e.
  Proof.
    intros [->|He] Fw.
    - left. rewrite Rplus_0_l, (rnd_format w Fw), Rminus_diag_eq, Rabs_R0 by reflexivity.
      pose proof u_pos. pose proof (Rabs_pos w). nra.
    - destruct (Rle_or_lt (bpow radix2 (emin + prec - 1)) (Rabs (e + w))) as [M|M].
      + left. apply rnd_rel_err. right. exact M.
      + right. eapply Rle_trans.
        * unfold rnd. apply error_le_half_ulp. apply FLT_exp_valid. exact Hp.
        * rewrite ulp_FLT_small; [| exact Hp | eapply Rlt_le_trans; [exact M | apply bpow_le; lia]].
          rewrite half_emin. apply Rmult_le_compat_l; [pose proof u_pos; lra | exact He].
  Qed.

  (** * Approximation with a rounding depth *)
  Definition RApxD (v : R) (d : nat) (S A : R) : Prop := Rabs S <= A /\ Rabs (v - S) <= E d * A.

  Lemma RApxD_A_nonneg v d S A : RApxD v d S A -> 0 <= A.
  Proof. intros [H _]. pose proof (Rabs_pos S). lra. Qed.

  Lemma RApxD_mono v d d' S A : RApxD v d S A -> (d <= d')%nat -> RApxD v d' S A.
  Proof.
    intros [H1 H2] Hd. split; [exact H1|]. eapply Rle_trans; [exact H2|].
    apply Rmult_le_compat_r; [pose proof (Rabs_pos S); lra | apply E_mono; exact Hd].
  Qed.

  Lemma RApxD_abs v d S A : RApxD v d S A -> Rabs v <= (1 + u) ^ d * A.
  Proof.
    intros [H1 H2]. rewrite E_pow.
    replace v with (S + (v - S)) by ring. eapply Rle_trans; [apply Rabs_triang|]. lra.
  Qed.

  Lemma RApxD_id t : RApxD t 0 t (Rabs t).
  Proof. split; [lra|]. rewrite Rminus_diag_eq, Rabs_R0, E_0 by reflexivity. lra. Qed.

  Lemma RApxD_plus v w d d' S S' A A' :
    RApxD v d S A -> RApxD w d' S' A' -> RApxD (v + w) (Nat.max d d') (S + S') (A + A').
  Proof.
    intros H H'.
    apply RApxD_mono with (d' := Nat.max d d') in H; [|apply Nat.le_max_l].
    apply RApxD_mono with (d' := Nat.max d d') in H'; [|apply Nat.le_max_r].
    destruct H as [H1 H2], H' as [H1' H2']. split.
    - eapply Rle_trans; [apply Rabs_triang|]. lra.
    - replace (v + w - (S + S')) with ((v - S) + (w - S')) by ring.
      eapply Rle_trans; [apply Rabs_triang|]. lra.
  Qed.

  (* one more rounding, of absolute size at most u * B with B dominated by the majorant of v *)
  Lemma RApxD_round v r d S A B :
    RApxD v d S A -> Rabs (r - v) <= u * B -> B <= (1 + u) ^ d * A -> RApxD r (Datatypes.S d) S A.
  Proof.
    intros [H1 H2] Hr HB. split; [exact H1|].
    replace (r - S) with ((r - v) + (v - S)) by ring.
    eapply Rle_trans; [apply Rabs_triang|]. rewrite E_S.
    pose proof u_pos as Hu.
    assert (u * B <= u * ((1 + u) ^ d * A)) by (apply Rmult_le_compat_l; lra).
    lra.
  Qed.

  Lemma RApxD_round_rel v r d S A :
    RApxD v d S A -> Rabs (r - v) <= u * Rabs v -> RApxD r (Datatypes.S d) S A.
  Proof. intros H Hr. apply (RApxD_round v r d S A (Rabs v) H Hr). apply (RApxD_abs v d S A H). Qed.

  (* the square of a once-rounded value *)
  Lemma RApxD_square dlt s : Rabs (dlt - s) <= u * Rabs s -> RApxD (dlt * dlt) 2 (s * s) (Rabs (s * s)).
  Proof.
    intros H. split; [lra|].
    replace (dlt * dlt - s * s) with ((dlt - s) * (2 * s + (dlt - s))) by ring.
    rewrite Rabs_mult.
    assert (H2 : Rabs (2 * s + (dlt - s)) <= 2 * Rabs s + u * Rabs s).
    { eapply Rle_trans; [apply Rabs_triang|]. rewrite Rabs_mult, (Rabs_pos_eq 2) by lra. lra. }
    pose proof (Rabs_pos (dlt - s)) as P1. pose proof (Rabs_pos s) as P2. pose proof u_pos as Hu.
    rewrite (Rabs_mult s s).
    replace (E 2) with (2 * u + u * u) by (unfold E; cbn [pow]; ring).
    apply Rle_trans with ((u * Rabs s) * (2 * Rabs s + u * Rabs s)); [|right; ring].
    apply Rmult_le_compat; try assumption. apply Rabs_pos.
  Qed.

  (** * Approximation by a value containing c terms: depth <= c + 2 *)
  Definition RApx (v : R) (c : nat) (S A : R) : Prop := RApxD v (c + 2) S A /\ (c = 0%nat -> A = 0).

  Lemma RApx_zero : RApx 0 0 0 0.
  Proof. split; [|reflexivity]. split; rewrite ?Rminus_0_r, Rabs_R0; lra. Qed.

  Lemma RApx_zero_inv v S A : RApx v 0 S A -> v = 0 /\ S = 0 /\ A = 0.
  Proof.
    intros [[H1 H2] H0]. specialize (H0 eq_refl). subst A.
    assert (S0 : S = 0). { pose proof (Rabs_pos S). apply Rabs_eq_R0. lra. }
    subst S. rewrite Rmult_0_r, Rminus_0_r in H2.
    assert (v = 0). { pose proof (Rabs_pos v). apply Rabs_eq_R0. lra. }
    auto.
  Qed.

  Lemma RApx_A_nonneg v c S A : RApx v c S A -> 0 <= A.
  Proof. intros [H _]. eapply RApxD_A_nonneg; exact H. Qed.

  Lemma RApx_S_le v c S A : RApx v c S A -> Rabs S <= A.
  Proof. intros [[H _] _]. exact H. Qed.

  Lemma RApx_abs v c S A : RApx v c S A -> Rabs v <= (1 + u) ^ (c + 2) * A.
  Proof. intros [H _]. apply (RApxD_abs v (c + 2) S A H). Qed.

  (* a single term enters: with at most 3 roundings *)
  Lemma RApx_enter v t : RApxD v 3 t (Rabs t) -> RApx v 1 t (Rabs t).
  Proof. intros H. split; [exact H | discriminate]. Qed.

  Lemma RApx_enter_exact t : RApx t 1 t (Rabs t).
  Proof. apply RApx_enter. apply RApxD_mono with (d := 0%nat); [apply RApxD_id | lia]. Qed.

  (* the exact real e (a product; at most 2 roundings w.r.t. the term t) is rounded *)
  Lemma RApx_enter_round e t : nosub e -> RApxD e 2 t (Rabs t) -> RApx (rnd e) 1 t (Rabs t).
  Proof.
    intros Hn He. apply RApx_enter. apply RApxD_round_rel with (v := e); [exact He|].
    apply rnd_rel_err. exact Hn.
  Qed.

  (* addition of two format numbers *)
  Lemma RApx_add v w c c' S S' A A' :
    format v -> format w -> RApx v c S A -> RApx w c' S' A' ->
    RApx (rnd (v + w)) (c + c') (S + S') (A + A').
  Proof.
    intros Fv Fw Hv Hw.
    destruct c as [|c].
    { destruct (RApx_zero_inv _ _ _ Hv) as (-> & -> & ->).
      rewrite !Rplus_0_l, (rnd_format w Fw). exact Hw. }
    destruct c' as [|c'].
    { destruct (RApx_zero_inv _ _ _ Hw) as (-> & -> & ->).
      rewrite !Rplus_0_r, Nat.add_0_r, (rnd_format v Fv). exact Hv. }
    split; [|lia].
    destruct Hv as [Hv _], Hw as [Hw _].
    pose proof (RApxD_plus _ _ _ _ _ _ _ _ Hv Hw) as Hp'.
    apply RApxD_mono with (d := Datatypes.S (Nat.max (Datatypes.S c + 2) (Datatypes.S c' + 2))); [|lia].
    apply RApxD_round_rel with (v := v + w); [exact Hp'|].
    apply rnd_plus_err; assumption.
  Qed.

  (* fused multiply-add: the exact product e (at most 2 roundings w.r.t. its term t) is added to w *)
  Lemma RApx_fma e t w c' S' A' :
    nosub e -> RApxD e 2 t (Rabs t) -> format w -> RApx w c' S' A' ->
    RApx (rnd (e + w)) (c' + 1) (S' + t) (A' + Rabs t).
  Proof.
    intros Hn He Fw [Hw _]. split; [|lia].
    pose proof (RApxD_plus _ _ _ _ _ _ _ _ He Hw) as Hp'.
    rewrite (Rplus_comm S' t), (Rplus_comm A' (Rabs t)).
    apply RApxD_mono with (d := Datatypes.S (Nat.max 2 (c' + 2))); [|lia].
    destruct (rnd_fma_err e w Hn Fw) as [Hr|Hr].
    - apply RApxD_round_rel with (v := e + w); [exact Hp' | exact Hr].
    - apply RApxD_round with (v := e + w) (B := Rabs e); [exact Hp' | exact Hr |].
      eapply Rle_trans; [apply (RApxD_abs _ _ _ _ He)|].
      pose proof (RApxD_A_nonneg _ _ _ _ Hw) as PA. pose proof (Rabs_pos t) as Pt.
      pose proof (pow1u_mono 2 (Nat.max 2 (c' + 2)) ltac:(lia)) as Hm.
      pose proof (pow1u_ge1 2) as G2.
      apply Rle_trans with ((1 + u) ^ Nat.max 2 (c' + 2) * Rabs t).
      + apply Rmult_le_compat_r; assumption.
      + apply Rmult_le_compat_l; lra.
  Qed.

  (* the end: gamma (n + 3) *)
  Lemma RApx_final v n S A :
    RApx v n S A -> INR (n + 3) * u < 1 -> Rabs (v - S) <= gamma (n + 3) * A.
  Proof.
    intros [[H1 H2] _] Hn. eapply Rle_trans; [exact H2|].
    apply Rmult_le_compat_r; [pose proof (Rabs_pos S); lra|].
    eapply Rle_trans; [apply (E_mono (n + 2) (n + 3)); lia | apply E_le_gamma; exact Hn].
  Qed.

  (** * Exactly representable values: multiples of 2^e of magnitude at most 2^(e+prec) *)
  Lemma format_mult e K :
    (emin <= e)%Z -> Rabs (IZR K * bpow radix2 e) <= bpow radix2 (e + prec) -> format (IZR K * bpow radix2 e).
  Proof.
    intros He Hb.
    assert (Pp : (0 <= prec)%Z) by (pose proof Hp; unfold Prec_gt_0 in *; lia).
    assert (E2 : IZR (2 ^ prec) = bpow radix2 prec) by (apply (IZR_Zpower radix2); exact Pp).
    assert (HK : (Z.abs K <= 2 ^ prec)%Z).
    { apply le_IZR. rewrite abs_IZR, E2.
      rewrite Rabs_mult, (Rabs_pos_eq (bpow radix2 e)) in Hb by apply bpow_ge_0.
      rewrite bpow_plus in Hb. apply Rmult_le_reg_l with (bpow radix2 e); [apply bpow_gt_0|]. lra. }
    destruct (Z_lt_le_dec (Z.abs K) (2 ^ prec)) as [Hlt|Hge].
    - apply generic_format_FLT. apply FLT_spec with (f := Float radix2 K e); [reflexivity | exact Hlt | exact He].
    - assert (HKe : Z.abs K = (2 ^ prec)%Z) by lia.
      destruct (Z.abs_spec K) as [[_ EK]|[_ EK]]; rewrite EK in HKe.
      + rewrite HKe, E2, <- bpow_plus. apply generic_format_FLT_bpow; [exact Hp | lia].
      + replace K with (- (2 ^ prec))%Z by lia.
        rewrite opp_IZR, E2, Ropp_mult_distr_l_reverse, <- bpow_plus.
        apply generic_format_opp. apply generic_format_FLT_bpow; [exact Hp | lia].
  Qed.
End RoundErr.
