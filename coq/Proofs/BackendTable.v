(* Every (register, element type) pair of the export tables that has an executable model (Model/Regs.v:
   [int_ops], [f32_ops], [f64_ops]) is lane-wise faithful: this is where the per-back-end theorems of
   Proofs/IntBackends.v and Proofs/FloatBackends.v meet the table-driven semantics [run_export_*] of
   Model/Exports.v, so that C02/C03/C05 can be stated "for every row of the export table". *)
From Coq Require Import ZArith List Arith Bool Lia.
From Flocq Require Import IEEE754.BinarySingleNaN.
From CF Require Import Base.Mem Model.SimdApi Model.Kernels Model.Tables Model.Prim Model.Regs.
From CF Require Import Proofs.KernelBounds Proofs.OpsWf Proofs.ReduceCorrect Proofs.IntReduce Proofs.IntBackends
     Proofs.Extreme Proofs.FloatOrder Proofs.FloatBackends.
Import ListNotations.

Lemma width_in_widths t : is_float t = false -> In (width t) widths.
Proof. destruct t; cbn; intros H; try discriminate; auto 6. Qed.

Theorem int_ops_faithful r t R :
  int_ops r t = Some R ->
  IntLanewise (width t) R /\ IntElementwise (width t) (is_signed t) R /\ (0 < width t)%Z.
Proof.
  unfold int_ops, int_signed. destruct (is_float t) eqn:Ft; [discriminate|].
  pose proof (width_in_widths t Ft) as Hw. pose proof (widths_pos _ Hw) as Hp.
  destruct r; intros E; inversion E; subst; clear E.
  - split; [apply fallback_int_lanewise | split; [apply fallback_int_elementwise|]]; assumption.
  - split; [apply avx2_int_lanewise | split; [apply avx2_int_elementwise|]]; assumption.
  - split; [apply avx2_int_lanewise | split; [apply avx2_int_elementwise|]]; assumption.
  - split; [apply avx512_int_lanewise | split; [apply avx512_int_elementwise|]]; assumption.
Qed.

(* lane counts: Register bits / element bits (Fallback: one lane) *)
Definition reg_bits (r : reg) : Z :=
  match r with Fallback => 0 | Avx2 | Avx2Fma => 256 | Avx512 => 512 | Neon => 128 end.
Theorem int_ops_lanes r t R :
  int_ops r t = Some R ->
  Z.of_nat (lanes R) = match r with Fallback => 1%Z | _ => (reg_bits r / width t)%Z end.
Proof.
  unfold int_ops, int_signed. destruct (is_float t) eqn:Ft; [discriminate|].
  pose proof (width_in_widths t Ft) as Hw.
  destruct r; intros E; inversion E; subst; clear E; cbn [reg_bits].
  - reflexivity.
  - apply avx2_int_lanes; assumption.
  - apply avx2_int_lanes; assumption.
  - apply avx512_int_lanes; assumption.
Qed.

Section Floats.
  Context {prec emax : Z} {Hp : FLX.Prec_gt_0 prec} {He : Prec_lt_emax prec emax}.
  Notation bf := (binary_float prec emax).

  (* the lane max/min of a back end, and whether its fmadd is fused *)
  Definition lane_max (r : reg) : bf -> bf -> bf := match r with Fallback => f_max | _ => x86_max end.
  Definition lane_min (r : reg) : bf -> bf -> bf := match r with Fallback => f_min | _ => x86_min end.
  Definition fused_reg (r : reg) : bool := match r with Avx2Fma | Avx512 => true | _ => false end.

  Lemma lane_max_selecting r : selecting okf fle (lane_max r).
  Proof. destruct r; cbn [lane_max]; first [apply f_max_selecting | apply x86_max_selecting]. Qed.
  Lemma lane_min_selecting r : selecting okf fge (lane_min r).
  Proof. destruct r; cbn [lane_min]; first [apply f_min_selecting | apply x86_min_selecting]. Qed.
End Floats.

Theorem f32_ops_faithful r R :
  f32_ops r = Some R -> FloatLanewise R (lane_max r) (lane_min r) (fused_reg r).
Proof.
  destruct r; intros E; inversion E; subst; clear E; cbn [lane_max lane_min fused_reg].
  - apply fallback_float_lanewise.
  - apply avx2_float_lanewise. left; reflexivity.
  - apply avx2_float_lanewise. left; reflexivity.
  - apply avx512_float_lanewise. left; reflexivity.
Qed.

Theorem f64_ops_faithful r R :
  f64_ops r = Some R -> FloatLanewise R (lane_max r) (lane_min r) (fused_reg r).
Proof.
  destruct r; intros E; inversion E; subst; clear E; cbn [lane_max lane_min fused_reg].
  - apply fallback_float_lanewise.
  - apply avx2_float_lanewise. right; reflexivity.
  - apply avx2_float_lanewise. right; reflexivity.
  - apply avx512_float_lanewise. right; reflexivity.
Qed.

Theorem f32_ops_lanes r R :
  f32_ops r = Some R -> Z.of_nat (lanes R) = match r with Fallback => 1%Z | _ => (reg_bits r / 32)%Z end.
Proof. destruct r; intros E; inversion E; subst; reflexivity. Qed.
Theorem f64_ops_lanes r R :
  f64_ops r = Some R -> Z.of_nat (lanes R) = match r with Fallback => 1%Z | _ => (reg_bits r / 64)%Z end.
Proof. destruct r; intros E; inversion E; subst; reflexivity. Qed.
