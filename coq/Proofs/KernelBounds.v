(* C07 / C08: every generic kernel, over ANY well-formed register geometry (any lane count L >= 1), called as
   documented, terminates, never leaves its slices, never writes an input, never reads its result.
   Axiom-free. *)
From Coq Require Import List Arith Bool Lia.
From CF Require Import Base.Mem Model.SimdApi Model.Kernels Model.Tables.
From CF Require Import Proofs.MemProofs Proofs.KernelRules Proofs.KernelSafety.
Import ListNotations.

Section Bounds.
  Context {T : Type}.
  Variable R : SimdOps T.
  Variable Mth : MathOps T.

  Definition dense_wf (d : dense T) : Prop := forall k, k < 8 -> length (nth_reg d k) = lanes R.

  Lemma dense_at_wf sl i : i + (lanes R) * 8 <= length sl -> dense_wf (dense_at (lanes R) sl i).
  Proof.
    intros H k Hk. unfold dense_at, nth_reg.
    do 8 (destruct k as [|k]; [cbn [nth]; rewrite firstn_length, skipn_length; lia|]). lia.
  Qed.

  Lemma dense_copy_wf r : length r = (lanes R) -> dense_wf (dense_copy r).
  Proof.
    intros H k Hk. unfold dense_copy, nth_reg, NUM_LANES.
    do 8 (destruct k as [|k]; [cbn; exact H|]). lia.
  Qed.

  Lemma firstn_skipn_len (sl : list T) i w : i + w <= length sl -> length (firstn w (skipn i sl)) = w.
  Proof. intros H. rewrite firstn_length, skipn_length. lia. Qed.

  (* Lane-count preservation: all a back end has to satisfy for memory safety. *)
  Record ops_wf : Prop := {
    wf_L : 1 <= lanes R;
    wf_filled : forall v, length (r_filled R v) = lanes R;
    wf_add : forall x y, length x = lanes R -> length y = lanes R -> length (r_add R x y) = lanes R;
    wf_sub : forall x y, length x = lanes R -> length y = lanes R -> length (r_sub R x y) = lanes R;
    wf_mul : forall x y, length x = lanes R -> length y = lanes R -> length (r_mul R x y) = lanes R;
    wf_max : forall x y, length x = lanes R -> length y = lanes R -> length (r_max R x y) = lanes R;
    wf_min : forall x y, length x = lanes R -> length y = lanes R -> length (r_min R x y) = lanes R;
    wf_div : forall x y z, length x = lanes R -> length y = lanes R -> r_div R x y = Some z ->
                           length z = lanes R;
    wf_add_dense : forall a b, dense_wf a -> dense_wf b -> dense_wf (r_add_dense R a b);
    wf_sub_dense : forall a b, dense_wf a -> dense_wf b -> dense_wf (r_sub_dense R a b);
    wf_mul_dense : forall a b, dense_wf a -> dense_wf b -> dense_wf (r_mul_dense R a b);
    wf_max_dense : forall a b, dense_wf a -> dense_wf b -> dense_wf (r_max_dense R a b);
    wf_min_dense : forall a b, dense_wf a -> dense_wf b -> dense_wf (r_min_dense R a b);
    wf_div_dense : forall a b z, dense_wf a -> dense_wf b -> r_div_dense R a b = Some z -> dense_wf z
  }.

  Hypothesis WF : ops_wf.

  Variable m0 : mem T.
  Variable dims : nat.
  Hypothesis HA : length (mA m0) = dims.

  Notation Ln := (lanes R).
  Let HL : 1 <= lanes R := wf_L WF.

  Definition Inv : mem T -> Prop := SafeR m0 (fun _ => True).

  Ltac tstep :=
    first
      [ apply triple_ret; intros; auto
      | apply triple_bind_ret_l
      | apply load_dense_bind; [discriminate | cbn [slice_of]; lia | ]
      | apply load_bind; [discriminate | cbn [slice_of]; lia | ]
      | apply triple_bind_assoc ].

  (* a reduction-shaped kernel: all steps only load (from A and, when available, B) and return *)
  Ltac reduction :=
    apply (three_phase_rule R HL dims (fun _ _ => Inv) (fun _ _ => Inv) (fun _ _ => Inv) Inv);
    [ intros k s Hk; pose proof (dense_in dims Ln HL k Hk); cbn [slice_of];
      try (destruct s as [? ?]); repeat tstep
    | auto
    | intros k s Hk; pose proof (lane_in dims Ln HL k Hk); unfold L; cbn [slice_of];
      try (destruct s as [? ?]); repeat tstep
    | auto
    | intros i s Hi; unfold read1; cbn [slice_of]; try (destruct s as [? ?]); repeat tstep ].

  (* reduction-shaped kernels: all steps only load and return *)
  Lemma sum_safe : triple Inv (generic_sum R Mth dims) (fun _ => Inv) Inv.
  Proof. unfold generic_sum. reduction. Qed.
  Lemma norm_safe : triple Inv (generic_squared_norm R Mth dims) (fun _ => Inv) Inv.
  Proof. unfold generic_squared_norm. reduction. Qed.
  Lemma maxh_safe : triple Inv (generic_max_horizontal R Mth dims) (fun _ => Inv) Inv.
  Proof. unfold generic_max_horizontal. reduction. Qed.
  Lemma minh_safe : triple Inv (generic_min_horizontal R Mth dims) (fun _ => Inv) Inv.
  Proof. unfold generic_min_horizontal. reduction. Qed.

  Section ReductionsB.
    Hypothesis HB : length (mB m0) = dims.

    Lemma dot_safe : triple Inv (generic_dot_product R Mth dims) (fun _ => Inv) Inv.
    Proof. unfold generic_dot_product. reduction. Qed.
    Lemma euclid_safe : triple Inv (generic_euclidean R Mth dims) (fun _ => Inv) Inv.
    Proof. unfold generic_euclidean. reduction. Qed.

    Lemma cosine_safe : triple Inv (generic_cosine R Mth dims) (fun _ => Inv) Inv.
    Proof.
      unfold generic_cosine.
      eapply triple_bind with (Qa := fun _ => Inv).
      - reduction.
      - intros [na nb]. eapply triple_bind with (Qa := fun _ => Inv); [apply dot_safe|].
        intros dot. apply triple_lift_opt; auto.
    Qed.
  End ReductionsB.

  Section Maps.
    Hypothesis HR : length (mR m0) = dims.

    Ltac mstep :=
      first
        [ apply triple_ret; intros; auto
        | apply triple_bind_ret_l
        | apply load_dense_bind; [discriminate | cbn [slice_of]; lia | ]
        | apply load_bind; [discriminate | cbn [slice_of]; lia | ]
        | apply lift_opt_bind; [auto | intros ? ?]
        | apply triple_bind_assoc ].

    Ltac wdense Hwf :=
      cbn [slice_of] in *;
      apply triple_bind_ret_r;
      apply (write_dense_bind m0 R (fun _ => True) (fun _ => True));
      [ Hwf | lia | auto | apply triple_ret; auto ].

    Ltac slast Hlen :=
      cbn [slice_of] in *;
      apply (store_last m0 (fun _ => True) (fun _ => True)); [ Hlen | auto | auto ].

    Lemma three_phase_unit_safe dense_step lane_step scalar_step :
      (forall k, k < qn dims Ln -> k * Dn Ln + Ln * 8 <= dims ->
                 triple Inv (dense_step (k * Dn Ln) tt) (fun _ => Inv) Inv) ->
      (forall k, k < mn dims Ln -> qn dims Ln * Dn Ln + k * Ln + Ln <= dims ->
                 triple Inv (lane_step (qn dims Ln * Dn Ln + k * Ln) tt) (fun _ => Inv) Inv) ->
      (forall i, i < dims -> triple Inv (scalar_step i tt) (fun _ => Inv) Inv) ->
      triple Inv (three_phase R dims tt dense_step (fun u : unit => u) lane_step (fun u : unit => u) scalar_step)
             (fun _ => Inv) Inv.
    Proof.
      intros H1 H2 H3.
      apply (three_phase_rule R HL dims (fun _ _ => Inv) (fun _ _ => Inv) (fun _ _ => Inv) Inv); auto.
      - intros k [] Hk. apply H1; auto. apply (dense_in dims Ln HL k Hk).
      - intros k [] Hk. apply H2; auto. apply (lane_in dims Ln HL k Hk).
      - intros i [] Hi. apply H3. lia.
    Qed.

    Section WithB.
      Hypothesis HB : length (mB m0) = dims.

      Lemma map_vector_safe op_dense op sop :
        (forall a b, dense_wf a -> dense_wf b -> dense_wf (op_dense a b)) ->
        (forall x y, length x = Ln -> length y = Ln -> length (op x y) = Ln) ->
        triple Inv (map_vector R Mth dims op_dense op sop) (fun _ => Inv) Inv.
      Proof.
        intros Hd Ho. unfold map_vector. apply three_phase_unit_safe.
        - intros k Hk Hin. repeat mstep.
          wdense ltac:(apply Hd; apply dense_at_wf; cbn [slice_of]; lia).
        - intros k Hk Hin. unfold L. repeat mstep.
          slast ltac:(rewrite Ho; [lia | apply firstn_skipn_len; lia | apply firstn_skipn_len; lia]).
        - intros i Hi. unfold read1, write1. repeat mstep. slast ltac:(cbn; lia).
      Qed.

      Lemma div_vector_safe : triple Inv (generic_div_vector R Mth dims) (fun _ => Inv) Inv.
      Proof.
        unfold generic_div_vector. apply three_phase_unit_safe.
        - intros k Hk Hin. repeat mstep.
          wdense ltac:(eapply (wf_div_dense WF); [| | eassumption]; apply dense_at_wf; cbn [slice_of]; lia).
        - intros k Hk Hin. unfold L. repeat mstep.
          slast ltac:(idtac; match goal with
                      | H : r_div R ?x ?y = Some ?z |- _ =>
                          rewrite (wf_div WF x y z);
                          [lia | apply firstn_skipn_len; lia | apply firstn_skipn_len; lia | exact H]
                      end).
        - intros i Hi. unfold read1, write1. repeat mstep. slast ltac:(cbn; lia).
      Qed.
    End WithB.

    Lemma map_value_safe value bd br op_dense op sop :
      dense_wf bd -> length br = Ln ->
      (forall a b, dense_wf a -> dense_wf b -> dense_wf (op_dense a b)) ->
      (forall x y, length x = Ln -> length y = Ln -> length (op x y) = Ln) ->
      triple Inv (map_value R Mth dims value bd br op_dense op sop) (fun _ => Inv) Inv.
    Proof.
      intros Hbd Hbr Hd Ho. unfold map_value. apply three_phase_unit_safe.
      - intros k Hk Hin. repeat mstep.
        wdense ltac:(apply Hd; [apply dense_at_wf; cbn [slice_of]; lia | exact Hbd]).
      - intros k Hk Hin. unfold L. repeat mstep.
        slast ltac:(rewrite Ho; [lia | apply firstn_skipn_len; lia | exact Hbr]).
      - intros i Hi. unfold read1, write1. repeat mstep. slast ltac:(cbn; lia).
    Qed.

    Lemma div_value_safe value : triple Inv (generic_div_value R Mth dims value) (fun _ => Inv) Inv.
    Proof.
      unfold generic_div_value. apply three_phase_unit_safe.
      - intros k Hk Hin. repeat mstep.
        wdense ltac:(eapply (wf_div_dense WF); [| | eassumption];
                     [apply dense_at_wf; cbn [slice_of]; lia | apply dense_copy_wf; apply (wf_filled WF)]).
      - intros k Hk Hin. unfold L. repeat mstep.
        slast ltac:(idtac; match goal with
                    | H : r_div R ?x ?y = Some ?z |- _ =>
                        rewrite (wf_div WF x y z);
                        [lia | apply firstn_skipn_len; lia | apply (wf_filled WF) | exact H]
                    end).
      - intros i Hi. unfold read1, write1. repeat mstep. slast ltac:(cbn; lia).
    Qed.
  End Maps.
End Bounds.

(** * All 19 kernels *)

Definition run_ok {T} (m0 : mem T) (m : mem T) : Prop :=
  mA m = mA m0 /\ mB m = mB m0 /\ length (mR m) = length (mR m0)
  /\ Forall (fun e => event_in_bounds m0 e /\ event_ok e = true) (trace m).

Lemma triple_run {T A} (m0 : mem T) (c : M T A) :
  trace m0 = [] ->
  triple (Inv m0) c (fun _ => Inv m0) (Inv m0) ->
  match c m0 with
  | Ok _ m | Panic m => run_ok m0 m
  | Fault _ | OutOfFuel => False
  end.
Proof.
  intros Ht H. specialize (H m0). unfold Inv, SafeR in H.
  assert (P : Safe0 m0 m0 /\ True) by (split; [apply Safe0_init; exact Ht | exact I]).
  specialize (H P). destruct (c m0); auto; destruct H as [H _]; exact H.
Qed.

Theorem kernels_in_bounds {T} (R : SimdOps T) (Mth : MathOps T) (k : kernel) (dims : nat) (v : T)
        (a b res : list T) :
  ops_wf R ->
  length a = dims ->
  (kernel_uses_b k = true -> length b = dims) ->
  (kernel_writes k = true -> length res = dims) ->
  match run_kernel R Mth k dims v (init_mem a b res) with
  | Ok _ m | Panic m => run_ok (init_mem a b res) m
  | Fault _ | OutOfFuel => False
  end.
Proof.
  intros WF Ha Hb Hr. apply triple_run; [reflexivity|].
  set (m0 := init_mem a b res).
  assert (HA : length (mA m0) = dims) by exact Ha.
  pose proof (wf_L R WF) as HL.
  assert (val : forall c : M T T, triple (Inv m0) c (fun _ => Inv m0) (Inv m0) ->
                triple (Inv m0) (bind c (fun x => ret (RValue x))) (fun _ => Inv m0) (Inv m0)).
  { intros c Hc. eapply triple_bind; [exact Hc|]. intros x. apply triple_ret. auto. }
  assert (unt : forall c : M T unit, triple (Inv m0) c (fun _ => Inv m0) (Inv m0) ->
                triple (Inv m0) (bind c (fun _ => ret (@RUnit T))) (fun _ => Inv m0) (Inv m0)).
  { intros c Hc. eapply triple_bind; [exact Hc|]. intros x. apply triple_ret. auto. }
  assert (HF : length (r_filled R v) = lanes R) by apply (wf_filled R WF).
  assert (HFD : dense_wf R (filled_dense R v)) by (apply dense_copy_wf; exact HF).
  assert (HF0 : length (nth_reg (filled_dense R v) 0) = lanes R) by (apply HFD; lia).
  destruct k; cbv beta zeta delta [run_kernel]; (apply val || apply unt);
    try (specialize (Hb eq_refl)); try (specialize (Hr eq_refl)).
  - apply dot_safe; auto.
  - apply cosine_safe; auto.
  - apply euclid_safe; auto.
  - apply norm_safe; auto.
  - apply sum_safe; auto.
  - apply maxh_safe; auto.
  - apply map_vector_safe; auto; apply WF.
  - apply map_value_safe; auto; apply WF.
  - apply minh_safe; auto.
  - apply map_vector_safe; auto; apply WF.
  - apply map_value_safe; auto; apply WF.
  - apply map_value_safe; auto; try apply WF; try (apply dense_copy_wf; exact HF).
  - apply map_value_safe; auto; try apply WF; try (apply dense_copy_wf; exact HF).
  - apply map_value_safe; auto; try apply WF; try (apply dense_copy_wf; exact HF).
  - apply div_value_safe; auto.
  - apply map_vector_safe; auto; apply WF.
  - apply map_vector_safe; auto; apply WF.
  - apply map_vector_safe; auto; apply WF.
  - apply div_vector_safe; auto.
Qed.
