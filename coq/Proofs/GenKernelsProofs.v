(* The GENERATED kernel model (Gen/GenKernels.v, regenerated on every run from cfavml/src/danger/op_*.rs by
   tools/translate_kernels.py: a statement-by-statement rendering of each Rust body) IS the hand-written model
   (Model/Kernels.v) all kernel theorems are about.

   18 of the 19 equalities hold by conversion alone ([reflexivity]: unfolding [three_phase] / [map_vector] /
   [map_value] and the [let]s gives literally the generated term), as equalities of computations [M T _].
   [generic_cosine] is the one kernel whose hand model is not written flat (it runs [three_phase] as a
   sub-computation and then continues, and it calls the option-valued [cosine]); there the two terms differ by
   associativity of [bind], which — [M T R] being a function type and no extensionality axiom being used — is an
   equality at every memory: [forall m, gen m = hand m].  That is all any theorem about a kernel can observe.

   A change of the source (a loop bound, an increment, a start index, the order / slice of a load or store, an
   operand, the accumulator, a missing loop, ...) changes the generated term, and the lemma of that kernel stops
   compiling; a construct the translator does not know removes the definition (and lands in
   [gen_kernels_untranslated]), with the same effect.  Axiom-free. *)
From Coq Require Import List Arith Bool String.
From CF Require Import Base.Mem Model.Tables Model.SimdApi Model.Kernels.
From CF Require Import Gen.GenKernels.
From CF Require Import Proofs.KernelBounds.
Import ListNotations.

From CF Require Export Proofs.GenKernelsArith Proofs.GenKernelsReduce Proofs.GenKernelsMinMax Proofs.GenKernelsCosine.

Section Eq.
  Context {T : Type}.
  Variable R : SimdOps T.
  Variable Mth : MathOps T.

  (** * Uniform entry point over the generated kernels (same dispatch as [run_kernel]) *)
  Definition gen_run_kernel (k : kernel) (dims : nat) (value : T) : M T (@kresult T) :=
    let val (c : M T T) : M T kresult := v <- c ;; ret (RValue v) in
    let unit (c : M T unit) : M T kresult := _ <- c ;; ret RUnit in
    match k with
    | KDot => val (gen_generic_dot_product R Mth dims)
    | KCosine => val (gen_generic_cosine R Mth dims)
    | KEuclid => val (gen_generic_euclidean R Mth dims)
    | KNorm => val (gen_generic_squared_norm R Mth dims)
    | KSum => val (gen_generic_sum R Mth dims)
    | KMaxH => val (gen_generic_max_horizontal R Mth dims)
    | KMinH => val (gen_generic_min_horizontal R Mth dims)
    | KMaxV => unit (gen_generic_max_vertical R Mth dims)
    | KMinV => unit (gen_generic_min_vertical R Mth dims)
    | KMaxVal => unit (gen_generic_max_value R Mth dims value)
    | KMinVal => unit (gen_generic_min_value R Mth dims value)
    | KAddVal => unit (gen_generic_add_value R Mth dims value)
    | KSubVal => unit (gen_generic_sub_value R Mth dims value)
    | KMulVal => unit (gen_generic_mul_value R Mth dims value)
    | KDivVal => unit (gen_generic_div_value R Mth dims value)
    | KAddVec => unit (gen_generic_add_vector R Mth dims)
    | KSubVec => unit (gen_generic_sub_vector R Mth dims)
    | KMulVec => unit (gen_generic_mul_vector R Mth dims)
    | KDivVec => unit (gen_generic_div_vector R Mth dims)
    end.

  (* the 19 equalities, together *)
  Theorem gen_kernels_equal :
    (forall dims, gen_generic_sum R Mth dims = generic_sum R Mth dims)
    /\ (forall dims, gen_generic_dot_product R Mth dims = generic_dot_product R Mth dims)
    /\ (forall dims, gen_generic_squared_norm R Mth dims = generic_squared_norm R Mth dims)
    /\ (forall dims, gen_generic_euclidean R Mth dims = generic_euclidean R Mth dims)
    /\ (forall dims m, gen_generic_cosine R Mth dims m = generic_cosine R Mth dims m)
    /\ (forall dims, gen_generic_max_horizontal R Mth dims = generic_max_horizontal R Mth dims)
    /\ (forall dims, gen_generic_min_horizontal R Mth dims = generic_min_horizontal R Mth dims)
    /\ (forall dims, gen_generic_max_vertical R Mth dims = generic_max_vertical R Mth dims)
    /\ (forall dims, gen_generic_min_vertical R Mth dims = generic_min_vertical R Mth dims)
    /\ (forall dims value, gen_generic_max_value R Mth dims value = generic_max_value R Mth dims value)
    /\ (forall dims value, gen_generic_min_value R Mth dims value = generic_min_value R Mth dims value)
    /\ (forall dims, gen_generic_add_vector R Mth dims = generic_add_vector R Mth dims)
    /\ (forall dims, gen_generic_sub_vector R Mth dims = generic_sub_vector R Mth dims)
    /\ (forall dims, gen_generic_mul_vector R Mth dims = generic_mul_vector R Mth dims)
    /\ (forall dims, gen_generic_div_vector R Mth dims = generic_div_vector R Mth dims)
    /\ (forall dims value, gen_generic_add_value R Mth dims value = generic_add_value R Mth dims value)
    /\ (forall dims value, gen_generic_sub_value R Mth dims value = generic_sub_value R Mth dims value)
    /\ (forall dims value, gen_generic_mul_value R Mth dims value = generic_mul_value R Mth dims value)
    /\ (forall dims value, gen_generic_div_value R Mth dims value = generic_div_value R Mth dims value).
  Proof.
    repeat split; intros;
      first [ apply gen_cosine_is_model | reflexivity ].
  Qed.

  (* at the level of the uniform entry point: on every memory the generated kernels run exactly as the model's *)
  Theorem gen_kernels_are_model (k : kernel) (dims : nat) (value : T) (m : mem T) :
    gen_run_kernel k dims value m = run_kernel R Mth k dims value m.
  Proof.
    destruct k; try reflexivity.
    (* KCosine *)
    change (bind (gen_generic_cosine R Mth dims) (fun v => ret (RValue v)) m
            = bind (generic_cosine R Mth dims) (fun v => ret (RValue v)) m).
    unfold bind. rewrite gen_cosine_is_model. reflexivity.
  Qed.
End Eq.

(** * The in-bounds theorem (Proofs/KernelBounds.kernels_in_bounds), about the translated source *)
Theorem gen_kernels_in_bounds {T} (R : SimdOps T) (Mth : MathOps T) (k : kernel) (dims : nat) (v : T)
        (a b res : list T) :
  ops_wf R ->
  List.length a = dims ->
  (kernel_uses_b k = true -> List.length b = dims) ->
  (kernel_writes k = true -> List.length res = dims) ->
  match gen_run_kernel R Mth k dims v (init_mem a b res) with
  | Ok _ m | Panic m => run_ok (init_mem a b res) m
  | Fault _ | OutOfFuel => False
  end.
Proof.
  intros WF Ha Hb Hr. rewrite gen_kernels_are_model. apply kernels_in_bounds; assumption.
Qed.

(** * Nothing was left out: every `generic_*` fn of op_*.rs was translated, and these are the 19 kernels of the
      model ([kernel_rust_name] over [all_kernels], i.e. the names the export tables refer to). *)
Fixpoint str_mem (s : string) (l : list string) : bool :=
  match l with [] => false | x :: l' => if String.eqb s x then true else str_mem s l' end.

Theorem gen_kernels_complete :
  gen_kernels_untranslated = []
  /\ List.length gen_kernel_sources = 19
  /\ gen_kernel_count = 19
  /\ forallb (fun k => str_mem (kernel_rust_name k) (map fst gen_kernel_sources)) all_kernels = true
  /\ List.length all_kernels = 19
  /\ map fst gen_helper_sources = ["cosine"%string].
Proof. vm_compute. repeat split; reflexivity. Qed.
