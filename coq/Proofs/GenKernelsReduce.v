(* The 4 additive reductions: sum, dot product, squared norm, squared Euclidean (C03, C04).
   Part of the tie Gen/GenKernels.v (regenerated from op_*.rs on every run) = Model/Kernels.v; see
   Proofs/GenKernelsProofs.v.  One file per kernel family so that a change of ONE kernel's source breaks only the
   properties that speak about that family. *)
From Coq Require Import List Arith Bool String.
From CF Require Import Base.Mem Model.Tables Model.SimdApi Model.Kernels.
From CF Require Import Gen.GenKernels.
Import ListNotations.

Section Eq.
  Context {T : Type}.
  Variable R : SimdOps T.
  Variable Mth : MathOps T.

  Lemma gen_sum_is_model dims : gen_generic_sum R Mth dims = generic_sum R Mth dims.
  Proof. reflexivity. Qed.
  Lemma gen_dot_product_is_model dims : gen_generic_dot_product R Mth dims = generic_dot_product R Mth dims.
  Proof. reflexivity. Qed.
  Lemma gen_squared_norm_is_model dims : gen_generic_squared_norm R Mth dims = generic_squared_norm R Mth dims.
  Proof. reflexivity. Qed.
  Lemma gen_euclidean_is_model dims : gen_generic_euclidean R Mth dims = generic_euclidean R Mth dims.
  Proof. reflexivity. Qed.
End Eq.
