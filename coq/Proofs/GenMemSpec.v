(* C07, the "memory" tie: WHAT is proved about the table Gen/GenSimdApi.gen_mem_table (tools/translate_mem.py).

   The kernel model reads memory with `load s i (lanes R)` (elements [i, i + lanes R) of slice s) and writes it with
   `store i reg` (elements [i, i + length reg)); the source does it with `R::load(ptr)` / `R::write(ptr, reg)`, whose
   bodies are one load / store intrinsic on `ptr`.  [entry_sound] is the statement schema that ties the two, written
   once, for ARBITRARY tables (so nothing generated sits in a goal while it is proved): looked up in the trusted table
   Model/MemIntrinsics.v, the access of an entry (1) is a load for `load`, a store for `write`; (2) covers a whole
   register: bytes accessed = size_of of the impl's `type Register`; (3) that size is L * size_of::<T>() where L is
   the [lanes] of the lane-level model of that (register, element type) — Model/Regs.v for Fallback / Avx2 / Avx2Fma /
   Avx512, the NEON lane-wise specification of Proofs/GenRegsSpec.v — and L is also what the trait's default
   `elements_per_lane` (as translated) computes at those sizes; (4) requires no alignment beyond the element's own
   (every pointer into a `&[T]` is acceptable), and none at all for the vector back ends.
   Each clause has a boolean checker; the checkers are run on the generated table by vm_compute
   (Proofs/GenMemProofs.v) and their conjunction is proved here to give [entry_sound]. *)
From Coq Require Import ZArith List Arith Bool String Lia.
From CF Require Import Base.Mem Model.Tables Model.Prim Model.SimdApi Model.Regs Model.RegTable Model.MemIntrinsics.
From CF Require Import Proofs.GenRegsSpec.
Import ListNotations.
Local Open Scope nat_scope.

(** * The lane count of the lane-level model of a (register, element type) *)

Definition orelse {A} (a b : option A) : option A := match a with Some x => Some x | None => b end.

(* [int_model] / [f32_model] / [f64_model] (Proofs/GenRegsSpec.v) are Model/Regs.v for the x86 registers and the NEON
   specification; they leave Fallback to [fb_goal], so Fallback is read from [int_ops] / [f32_ops] / [f64_ops]. *)
Definition model_lanes (r : reg) (t : ty) : option nat :=
  match t with
  | F32 => option_map lanes (orelse (f32_model r) (f32_ops r))
  | F64 => option_map lanes (orelse (f64_model r) (f64_ops r))
  | _ => option_map lanes (orelse (int_model r t) (int_ops r t))
  end.

(* it IS the lane count of whatever register model an export row is run with (run_export_int / _f32 / _f64 of Model/Exports.v) *)
Lemma model_lanes_int_ops r t R : int_ops r t = Some R -> model_lanes r t = Some (lanes R).
Proof.
  intros H. assert (Ft : is_float t = false).
  { unfold int_ops in H. destruct (is_float t); [discriminate | reflexivity]. }
  assert (E : model_lanes r t = option_map lanes (orelse (int_model r t) (int_ops r t))).
  { destruct t; try reflexivity; discriminate Ft. }
  rewrite E. destruct r; cbn [int_model orelse]; rewrite ?H; try reflexivity.
  unfold int_ops in H. rewrite Ft in H. discriminate H.
Qed.
Lemma model_lanes_f32_ops r R : f32_ops r = Some R -> model_lanes r F32 = Some (lanes R).
Proof. destruct r; cbn; intros H; inversion H; reflexivity. Qed.
Lemma model_lanes_f64_ops r R : f64_ops r = Some R -> model_lanes r F64 = Some (lanes R).
Proof. destruct r; cbn; intros H; inversion H; reflexivity. Qed.

(** * Reading an entry through the trusted table *)

Definition acc (s : size_spec) (elem_bytes : nat) : nat := match s with Bytes n => n | OfPointee => elem_bytes end.
Definition reg_type_bytes (rt : reg_type) (elem_bytes : nat) : option nat :=
  match rt with RT_elem => Some elem_bytes | RT_vec n => assoc n vec_types end.

Record mem_view := {
  mv_kind : mem_kind;
  mv_bytes : nat;          (* bytes accessed, starting at the pointer *)
  mv_align : nat;          (* alignment the pointer must have *)
  mv_reg_bytes : nat;      (* size_of::<Self::Register>() *)
  mv_elem_bytes : nat;     (* size_of::<T>() *)
  mv_pointee : pointee
}.

Definition view (e : mem_entry) (t : ty) : option mem_view :=
  match mem_intrinsic (me_intrinsic e), reg_type_bytes (me_regty e) (ty_bytes t) with
  | Some s, Some rb =>
      Some {| mv_kind := ms_kind s; mv_bytes := acc (ms_bytes s) (ty_bytes t); mv_align := acc (ms_align s) (ty_bytes t);
              mv_reg_bytes := rb; mv_elem_bytes := ty_bytes t; mv_pointee := ms_pointee s |}
  | _, _ => None
  end.

(* the element types an entry speaks about: its own, or all ten for the generic `impl<T>` *)
Definition entry_tys (e : mem_entry) : list ty := match me_ty e with Some t => [t] | None => all_tys end.
Definition applies (e : mem_entry) (t : ty) : Prop := match me_ty e with Some t' => t' = t | None => True end.

Lemma applies_in e t : applies e t -> In t (entry_tys e).
Proof.
  unfold applies, entry_tys. destruct (me_ty e) as [t'|].
  - intros ->. left; reflexivity.
  - intros _. destruct t; cbn; auto 12.
Qed.

Definition kind_of (m : rmeth) : option mem_kind :=
  match m with MLoad => Some KLoad | MWrite => Some KStore | _ => None end.
Definition kind_eqb (a b : mem_kind) : bool := match a, b with KLoad, KLoad | KStore, KStore => true | _, _ => false end.

Definition pointee_matches (p : pointee) (t : ty) : bool :=
  match p with
  | PF32 => ty_eqb t F32
  | PF64 => ty_eqb t F64
  | PInt sg bits => negb (is_float t) && Bool.eqb sg (is_signed t) && (bits =? 8 * ty_bytes t)
  | PElem => true
  | PVec _ => false
  end.

(** * The checkers (one clause each), at one (entry, element type) *)

Definition chk_known (e : mem_entry) (t : ty) : bool := match view e t with Some _ => true | None => false end.
Definition chk_kind (e : mem_entry) (t : ty) : bool :=
  match view e t, kind_of (me_meth e) with Some v, Some k => kind_eqb (mv_kind v) k | _, _ => false end.
Definition chk_whole (e : mem_entry) (t : ty) : bool :=
  match view e t with Some v => mv_bytes v =? mv_reg_bytes v | None => false end.
Definition chk_lanes (epl : nat -> nat -> nat) (e : mem_entry) (t : ty) : bool :=
  match view e t, model_lanes (me_reg e) t with
  | Some v, Some L =>
      (0 <? mv_elem_bytes v) && (mv_reg_bytes v mod mv_elem_bytes v =? 0)
      && (mv_reg_bytes v =? L * mv_elem_bytes v) && (epl (mv_reg_bytes v) (mv_elem_bytes v) =? L)
  | _, _ => false
  end.
Definition chk_align (e : mem_entry) (t : ty) : bool :=
  match view e t with
  | Some v => (0 <? mv_align v) && (mv_elem_bytes v mod mv_align v =? 0)
              && match me_regty e with RT_vec _ => mv_align v =? 1 | RT_elem => true end
  | None => false
  end.
Definition chk_pointee (e : mem_entry) (t : ty) : bool :=
  match view e t with Some v => me_cast e || pointee_matches (mv_pointee v) t | None => false end.

Definition on_tys (chk : mem_entry -> ty -> bool) (e : mem_entry) : bool := forallb (chk e) (entry_tys e).
Definition tbl_check (chk : mem_entry -> ty -> bool) (tbl : list mem_entry) : bool := forallb (on_tys chk) tbl.

Lemma tbl_check_at chk tbl e t : tbl_check chk tbl = true -> In e tbl -> applies e t -> chk e t = true.
Proof.
  intros H He Ha. unfold tbl_check in H. rewrite forallb_forall in H. specialize (H e He).
  unfold on_tys in H. rewrite forallb_forall in H. apply H. apply applies_in. exact Ha.
Qed.

(** * The Prop reading *)

Definition entry_sound (epl : nat -> nat -> nat) (e : mem_entry) (t : ty) : Prop :=
  exists v L,
    view e t = Some v /\ model_lanes (me_reg e) t = Some L
    /\ kind_of (me_meth e) = Some (mv_kind v)                 (* `load` loads, `write` stores *)
    /\ mv_bytes v = mv_reg_bytes v                            (* a whole register, no more, no less *)
    /\ mv_elem_bytes v = ty_bytes t /\ 0 < ty_bytes t
    /\ mv_reg_bytes v = L * ty_bytes t                        (* = exactly L elements, L the model's [lanes] *)
    /\ epl (mv_reg_bytes v) (ty_bytes t) = L                  (* ... which is what `elements_per_lane()` returns *)
    /\ Nat.divide (mv_align v) (ty_bytes t)                   (* an element-aligned pointer is aligned enough *)
    /\ (me_regty e <> RT_elem -> mv_align v = 1).             (* vector back ends: no alignment requirement at all *)

Lemma view_elem_bytes e t v : view e t = Some v -> mv_elem_bytes v = ty_bytes t.
Proof.
  unfold view. destruct (mem_intrinsic (me_intrinsic e)); [|discriminate].
  destruct (reg_type_bytes (me_regty e) (ty_bytes t)); [|discriminate].
  intros H; inversion H; reflexivity.
Qed.

Lemma kind_eqb_eq a b : kind_eqb a b = true -> a = b.
Proof. destruct a, b; cbn; congruence. Qed.

Lemma checks_sound epl e t :
  chk_kind e t = true -> chk_whole e t = true -> chk_lanes epl e t = true -> chk_align e t = true ->
  entry_sound epl e t.
Proof.
  unfold chk_kind, chk_whole, chk_lanes, chk_align, entry_sound.
  destruct (view e t) as [v|] eqn:Ev; [|discriminate].
  destruct (kind_of (me_meth e)) as [k|]; [|discriminate].
  destruct (model_lanes (me_reg e) t) as [L|]; [|discriminate].
  intros Hk Hw Hl Ha. pose proof (view_elem_bytes _ _ _ Ev) as Eb.
  apply kind_eqb_eq in Hk. apply Nat.eqb_eq in Hw.
  apply andb_prop in Hl. destruct Hl as [Hl H4]. apply andb_prop in Hl. destruct Hl as [Hl H3].
  apply andb_prop in Hl. destruct Hl as [H1 H2].
  apply Nat.ltb_lt in H1. apply Nat.eqb_eq in H3. apply Nat.eqb_eq in H4.
  apply andb_prop in Ha. destruct Ha as [Ha A3]. apply andb_prop in Ha. destruct Ha as [A1 A2].
  apply Nat.ltb_lt in A1. apply Nat.eqb_eq in A2.
  rewrite Eb in *.
  exists v, L. repeat split; try assumption.
  - rewrite Hk. reflexivity.
  - apply Nat.mod_divide; [lia | exact A2].
  - intros Hne. destruct (me_regty e); [contradiction Hne; reflexivity|]. apply Nat.eqb_eq. exact A3.
Qed.

Theorem tbl_sound epl tbl :
  tbl_check chk_kind tbl = true -> tbl_check chk_whole tbl = true -> tbl_check (chk_lanes epl) tbl = true ->
  tbl_check chk_align tbl = true ->
  Forall (fun e => forall t, applies e t -> entry_sound epl e t) tbl.
Proof.
  intros H1 H2 H3 H4. apply Forall_forall. intros e He t Ha.
  apply checks_sound; eapply tbl_check_at; eassumption.
Qed.

(* what "a whole register = L elements" means for the bytes touched: the access at element index i covers exactly
   the byte range of elements [i, i + L) — the range `load s i L` / `store i reg` (length reg = L) name *)
Lemma whole_register_is_lanes epl e t :
  entry_sound epl e t ->
  exists v L, view e t = Some v /\ model_lanes (me_reg e) t = Some L
              /\ forall i, i * ty_bytes t + mv_bytes v = (i + L) * ty_bytes t.
Proof.
  intros (v & L & Ev & EL & _ & Hw & _ & _ & Hr & _). exists v, L. split; [exact Ev|]. split; [exact EL|].
  intros i. rewrite Hw, Hr. rewrite Nat.mul_add_distr_r. reflexivity.
Qed.

(** * Coverage: which (register, element type) have a `load` and a `write` entry *)

Definition meth_is (m : rmeth) (want_load : bool) : bool :=
  match m, want_load with MLoad, true | MWrite, false => true | _, _ => false end.
Definition entry_for (r : reg) (t : ty) (want_load : bool) (e : mem_entry) : bool :=
  reg_eqb (me_reg e) r && meth_is (me_meth e) want_load
  && match me_ty e with Some t' => ty_eqb t' t | None => true end.
Definition has_entry (tbl : list mem_entry) (r : reg) (t : ty) (want_load : bool) : bool :=
  existsb (entry_for r t want_load) tbl.
Definition covers (tbl : list mem_entry) (r : reg) (t : ty) : bool := has_entry tbl r t true && has_entry tbl r t false.

Lemma reg_eqb_true a b : reg_eqb a b = true -> a = b.
Proof. destruct a, b; cbn; congruence. Qed.
Lemma ty_eqb_true a b : ty_eqb a b = true -> a = b.
Proof. destruct a, b; cbn; congruence. Qed.

Lemma has_entry_sound tbl r t ld :
  has_entry tbl r t ld = true ->
  exists e, In e tbl /\ me_reg e = r /\ applies e t /\ me_meth e = (if ld then MLoad else MWrite).
Proof.
  unfold has_entry. rewrite existsb_exists. intros (e & He & H). exists e. split; [exact He|].
  unfold entry_for in H. apply andb_prop in H. destruct H as [H H3]. apply andb_prop in H. destruct H as [H1 H2].
  split; [apply reg_eqb_true; exact H1|]. split.
  - unfold applies. destruct (me_ty e); [apply ty_eqb_true; exact H3 | exact I].
  - destruct (me_meth e), ld; cbn in H2; try discriminate; reflexivity.
Qed.

(* no (register, element type, method) is answered by two entries *)
Definition same_key (e e' : mem_entry) : bool :=
  reg_eqb (me_reg e) (me_reg e') && (meth_is (me_meth e) true && meth_is (me_meth e') true
                                     || meth_is (me_meth e) false && meth_is (me_meth e') false)
  && match me_ty e, me_ty e' with Some a, Some b => ty_eqb a b | _, _ => true end.
Definition keys_unique (tbl : list mem_entry) : bool :=
  forallb (fun e => List.length (filter (same_key e) tbl) =? 1) tbl.

(* every impl pair of the source has its two entries *)
Definition pair_covered (tbl : list mem_entry) (p : reg * option ty) : bool :=
  existsb (fun e => reg_eqb (me_reg e) (fst p) && meth_is (me_meth e) true
                    && match me_ty e, snd p with Some a, Some b => ty_eqb a b | None, None => true | _, _ => false end) tbl
  && existsb (fun e => reg_eqb (me_reg e) (fst p) && meth_is (me_meth e) false
                       && match me_ty e, snd p with Some a, Some b => ty_eqb a b | None, None => true | _, _ => false end) tbl.
