(* List lemmas shared by the functional-correctness proofs.  Axiom-free. *)
From Coq Require Import List Arith Bool Lia.
From CF Require Import Base.Mem Model.SimdApi Proofs.MemProofs Proofs.OpsWf.
Import ListNotations.

Lemma firstn_add_split {T} (l : list T) j w :
  firstn (j + w) l = firstn j l ++ firstn w (skipn j l).
Proof.
  revert l. induction j as [|j IH]; intros l; cbn [Nat.add firstn skipn app]; [reflexivity|].
  destruct l as [|x l]; cbn [firstn skipn app].
  - rewrite firstn_nil. reflexivity.
  - rewrite IH. reflexivity.
Qed.

Lemma skipn_skipn_add {T} (l : list T) j w : skipn w (skipn j l) = skipn (j + w) l.
Proof.
  revert l. induction j as [|j IH]; intros l; cbn [Nat.add skipn]; [reflexivity|].
  destruct l as [|x l]; cbn [skipn]; [apply skipn_nil | apply IH].
Qed.

Lemma map2_app {A B C} (f : A -> B -> C) x1 x2 y1 y2 :
  length x1 = length y1 -> map2 f (x1 ++ x2) (y1 ++ y2) = map2 f x1 y1 ++ map2 f x2 y2.
Proof.
  revert y1. induction x1 as [|a x1 IH]; intros [|b y1] H; cbn in *; try lia; [reflexivity|].
  rewrite IH by lia. reflexivity.
Qed.

Lemma map2_firstn_step {A B C} (f : A -> B -> C) a b j w :
  j <= length a -> j <= length b ->
  map2 f (firstn (j + w) a) (firstn (j + w) b)
  = map2 f (firstn j a) (firstn j b) ++ map2 f (firstn w (skipn j a)) (firstn w (skipn j b)).
Proof.
  intros Ha Hb. rewrite !firstn_add_split. apply map2_app. rewrite !firstn_length. lia.
Qed.

Lemma map2_full {A B C} (f : A -> B -> C) a b n :
  length a = n -> length b = n -> map2 f (firstn n a) (firstn n b) = map2 f a b.
Proof. intros Ha Hb. rewrite <- Ha at 1. rewrite <- Hb at 1. rewrite !firstn_all. reflexivity. Qed.

Lemma map2_repeat_r {A B C} (f : A -> B -> C) x v :
  map2 f x (repeat v (length x)) = map (fun a => f a v) x.
Proof. induction x as [|a x IH]; cbn; [reflexivity|]. rewrite IH. reflexivity. Qed.

Lemma map_firstn_step {A B} (g : A -> B) a j w :
  map g (firstn (j + w) a) = map g (firstn j a) ++ map g (firstn w (skipn j a)).
Proof. rewrite firstn_add_split, map_app. reflexivity. Qed.

(* The prefix-invariant step shared by every element-wise kernel: the result slice is [P ++ untouched
   suffix]; writing the next block v at index |P| extends the prefix. *)
Lemma prefix_step {T} (P v res : list T) j :
  length P = j -> j + length v <= length res ->
  splice (P ++ skipn j res) j v = (P ++ v) ++ skipn (j + length v) res.
Proof.
  intros HP Hb. rewrite <- HP at 2. rewrite splice_app_prefix.
  - rewrite skipn_skipn_add. reflexivity.
  - rewrite skipn_length. lia.
Qed.

Lemma hd_firstn1 {T} (d : T) (l : list T) i :
  i < length l -> firstn 1 (skipn i l) = [hd d (firstn 1 (skipn i l))].
Proof.
  intros H. destruct (skipn i l) as [|x r] eqn:E.
  - assert (length (skipn i l) = 0) by (rewrite E; reflexivity). rewrite skipn_length in *. lia.
  - reflexivity.
Qed.

Lemma nth_dense_at {T} (Ln : nat) (sl : list T) i k :
  k < 8 -> nth k (KernelSafety.dense_at Ln sl i) [] = firstn Ln (skipn (i + Ln * k) sl).
Proof.
  intros Hk. unfold KernelSafety.dense_at.
  do 8 (destruct k as [|k]; [reflexivity|]). lia.
Qed.

(* sequence of optional results (integer division lanes) *)
Fixpoint sequence {T} (l : list (option T)) : option (list T) :=
  match l with
  | [] => Some []
  | None :: _ => None
  | Some x :: r => match sequence r with Some xs => Some (x :: xs) | None => None end
  end.

Lemma sequence_app {T} (x y : list (option T)) :
  sequence (x ++ y) = match sequence x, sequence y with
                      | Some a, Some b => Some (a ++ b)
                      | _, _ => None
                      end.
Proof.
  induction x as [|[a|] x IH]; cbn.
  - destruct (sequence y); reflexivity.
  - rewrite IH. destruct (sequence x), (sequence y); reflexivity.
  - reflexivity.
Qed.

Lemma sequence_length {T} (l : list (option T)) r : sequence l = Some r -> length r = length l.
Proof.
  revert r. induction l as [|[a|] l IH]; intros r H; cbn in H.
  - inversion H. reflexivity.
  - destruct (sequence l) as [xs|]; [|discriminate]. inversion H; subst. cbn. rewrite (IH xs eq_refl). reflexivity.
  - discriminate.
Qed.

Lemma In_firstn_In {T} (x : T) n l : In x (firstn n l) -> In x l.
Proof.
  revert l. induction n as [|n IH]; intros [|y l] H; cbn in *; try contradiction.
  destruct H as [->|H]; auto.
Qed.

Lemma In_skipn_In {T} (x : T) n l : In x (skipn n l) -> In x l.
Proof.
  revert l. induction n as [|n IH]; intros [|y l] H; cbn in *; auto.
Qed.

Lemma Forall_block {T} (P : T -> Prop) (sl : list T) j w : Forall P sl -> Forall P (firstn w (skipn j sl)).
Proof.
  intros H. rewrite Forall_forall in *. intros x Hx. apply H.
  apply (In_skipn_In x j). apply (In_firstn_In x w). exact Hx.
Qed.
