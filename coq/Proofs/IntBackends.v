(* C13: the three integer back-end models of Model/Regs.v (Fallback with one lane, AVX2 with 256/w lanes,
   AVX-512 with 512/w lanes) perform the wrapping scalar operations lane by lane ([IntReduce.IntLanewise])
   and their element-wise / extreme operations are the scalar ones ([IntElementwise]), for every width
   w in {8,16,32,64} and both signednesses.  Statements from Proofs/IntBackends_TODO.v, proved.
   Standard library only; no axioms. *)
From Coq Require Import ZArith List Arith Bool Lia.
From CF Require Import Base.Mem Model.SimdApi Model.Kernels Model.Tables Model.Prim Model.Regs.
From CF Require Import Proofs.KernelBounds Proofs.OpsWf Proofs.ListFacts Proofs.ReduceCorrect Proofs.IntReduce.
From CF Require Proofs.RegArith.
Import ListNotations.

(* What C13 establishes, beyond [IntReduce.IntLanewise], for the element-wise and extreme operations of an
   integer back end ([in_range], [Zsum], [eqm] are ReduceCorrect's; [sequence] is ListFacts'). *)
Record IntElementwise (w : Z) (sg : bool) (R : SimdOps Z) : Prop := {
  ie_filled : forall v, r_filled R v = repeat v (lanes R);
  ie_max : forall x y, length x = lanes R -> length y = lanes R ->
                       Forall (in_range w) x -> Forall (in_range w) y -> r_max R x y = map2 (i_max sg w) x y;
  ie_min : forall x y, length x = lanes R -> length y = lanes R ->
                       Forall (in_range w) x -> Forall (in_range w) y -> r_min R x y = map2 (i_min sg w) x y;
  ie_div : forall x y, length x = lanes R -> length y = lanes R ->
                       Forall (in_range w) x -> Forall (in_range w) y ->
                       r_div R x y = sequence (map2 (i_div sg w) x y);
  ie_mul_dense : forall x y, r_mul_dense R x y = apply_dense2 (r_mul R) x y;
  ie_max_dense : forall x y, r_max_dense R x y = apply_dense2 (r_max R) x y;
  ie_min_dense : forall x y, r_min_dense R x y = apply_dense2 (r_min R) x y;
  ie_div_dense : forall x y, r_div_dense R x y = apply_dense2_opt (r_div R) x y;
  ie_maxv : forall x, length x = lanes R -> Forall (in_range w) x ->
                      in_range w (r_max_to_value R x) /\
                      ival sg w (r_max_to_value R x)
                      = fold_right Z.max (ival sg w (i_MIN sg w)) (map (ival sg w) x);
  ie_minv : forall x, length x = lanes R -> Forall (in_range w) x ->
                      in_range w (r_min_to_value R x) /\
                      ival sg w (r_min_to_value R x)
                      = fold_right Z.min (ival sg w (i_MAX sg w)) (map (ival sg w) x)
}.

Definition widths : list Z := [8; 16; 32; 64]%Z.

(** * List facts: halves, pairs, division lanes *)

Lemma halves_app {T} (x : list T) : lower_half x ++ upper_half x = x.
Proof. apply firstn_skipn. Qed.

Lemma div2_double n : Nat.div (2 * n) 2 = n.
Proof. rewrite Nat.mul_comm. apply Nat.div_mul. lia. Qed.

Lemma lower_len {T} (x : list T) n : length x = 2 * n -> length (lower_half x) = n.
Proof. intros H. unfold lower_half. rewrite firstn_length, H, div2_double. lia. Qed.

Lemma upper_len {T} (x : list T) n : length x = 2 * n -> length (upper_half x) = n.
Proof. intros H. unfold upper_half. rewrite skipn_length, H, div2_double. lia. Qed.

Lemma Forall_halves {T} (P : T -> Prop) (x : list T) :
  Forall P x -> Forall P (upper_half x) /\ Forall P (lower_half x).
Proof.
  intros F. rewrite <- (halves_app x) in F. apply Forall_app in F. destruct F; split; assumption.
Qed.

Lemma pairs_length n : forall l, length l = 2 * n -> length (pairs l) = n.
Proof.
  induction n as [|n IH]; intros l H.
  - destruct l; [reflexivity | cbn in H; lia].
  - destruct l as [|a [|b l]]; cbn [length] in H; try lia.
    cbn [pairs length]. rewrite IH by lia. reflexivity.
Qed.

Lemma unpairs_length l : length (unpairs l) = 2 * length l.
Proof.
  unfold unpairs. induction l as [|a l IH]; [reflexivity|].
  cbn [flat_map app length]. rewrite IH. lia.
Qed.

(* [mul8] preserves an even lane count whatever the lane contents *)
Lemma mul8_length x y n : length x = 2 * n -> length y = 2 * n -> length (mul8 x y) = 2 * n.
Proof.
  intros Hx Hy. unfold mul8. rewrite unpairs_length, map2_length.
  rewrite (pairs_length n x Hx), (pairs_length n y Hy). lia.
Qed.

Lemma div_lanes_seq sg w x y : div_lanes sg w x y = sequence (map2 (i_div sg w) x y).
Proof.
  unfold div_lanes. revert y. induction x as [|a x IH]; intros [|b y]; try reflexivity.
  cbn [map2 sequence]. destruct (i_div sg w a b) as [q|]; [|reflexivity].
  rewrite IH. reflexivity.
Qed.

Lemma div_lanes_length sg w x y z :
  div_lanes sg w x y = Some z -> length z = Nat.min (length x) (length y).
Proof.
  rewrite div_lanes_seq. intros H. apply sequence_length in H. rewrite H. apply map2_length.
Qed.

Lemma map2_ext_Forall {A} (P : A -> Prop) (f g : A -> A -> A) :
  (forall a b, P a -> P b -> f a b = g a b) ->
  forall x y, Forall P x -> Forall P y -> map2 f x y = map2 g x y.
Proof.
  intros H x. induction x as [|a x IH]; intros [|b y] Fx Fy; try reflexivity.
  inversion Fx; subst. inversion Fy; subst. cbn [map2]. rewrite H, IH by assumption. reflexivity.
Qed.

Lemma len1 {T} (x : list T) : length x = 1 -> exists a, x = [a].
Proof. destruct x as [|a [|b x]]; cbn; intros H; try lia. exists a. reflexivity. Qed.

(* a back end whose dense operations are the trait's defaults is well formed as soon as its register
   operations preserve the lane count *)
Lemma mk_ops_wf {T} (R : SimdOps T) :
  1 <= lanes R ->
  (forall v, length (r_filled R v) = lanes R) ->
  (forall x y, length x = lanes R -> length y = lanes R -> length (r_add R x y) = lanes R) ->
  (forall x y, length x = lanes R -> length y = lanes R -> length (r_sub R x y) = lanes R) ->
  (forall x y, length x = lanes R -> length y = lanes R -> length (r_mul R x y) = lanes R) ->
  (forall x y, length x = lanes R -> length y = lanes R -> length (r_max R x y) = lanes R) ->
  (forall x y, length x = lanes R -> length y = lanes R -> length (r_min R x y) = lanes R) ->
  (forall x y z, length x = lanes R -> length y = lanes R -> r_div R x y = Some z -> length z = lanes R) ->
  r_add_dense R = apply_dense2 (r_add R) -> r_sub_dense R = apply_dense2 (r_sub R) ->
  r_mul_dense R = apply_dense2 (r_mul R) -> r_max_dense R = apply_dense2 (r_max R) ->
  r_min_dense R = apply_dense2 (r_min R) -> r_div_dense R = apply_dense2_opt (r_div R) ->
  ops_wf R.
Proof.
  intros HL Hf Ha Hs Hm Hx Hn Hd Ea Es Em Ex En Ed.
  constructor; auto.
  - intros a b. rewrite Ea. apply apply_dense2_wf; assumption.
  - intros a b. rewrite Es. apply apply_dense2_wf; assumption.
  - intros a b. rewrite Em. apply apply_dense2_wf; assumption.
  - intros a b. rewrite Ex. apply apply_dense2_wf; assumption.
  - intros a b. rewrite En. apply apply_dense2_wf; assumption.
  - intros a b z Wa Wb. rewrite Ed. intros E.
    exact (apply_dense2_opt_wf R HL (r_div R) a b z Hd Wa Wb E).
Qed.

(** * Arithmetic of the horizontal folds, for a fixed width *)

Section Width.
  Local Open Scope Z_scope.
  Variable w : Z.
  Hypothesis Hw : 0 < w.
  Variable sg : bool.
  Notation okv := (in_range w).
  Local Notation "x == y" := (eqm w x y) (at level 70).
  Notation iv := (ival sg w).

  Lemma pow_split : 2 ^ w = 2 * 2 ^ (w - 1).
  Proof. apply RegArith.pow2_split, Hw. Qed.
  Lemma pow_half_pos : 0 < 2 ^ (w - 1).
  Proof. apply RegArith.pow2_pos. lia. Qed.

  Lemma okv_add p q : okv (i_add w p q). Proof. apply wrap_in_range; exact Hw. Qed.
  Lemma okv_max p q : okv p -> okv q -> okv (i_max sg w p q).
  Proof. intros. unfold i_max. destruct (_ <? _); assumption. Qed.
  Lemma okv_min p q : okv p -> okv q -> okv (i_min sg w p q).
  Proof. intros. unfold i_min. destruct (_ <? _); assumption. Qed.
  Lemma okv_0 : okv 0.
  Proof. unfold in_range. pose proof pow_split. pose proof pow_half_pos. lia. Qed.

  Lemma iv_max a b : iv (i_max sg w a b) = Z.max (iv a) (iv b).
  Proof. unfold i_max. destruct (Z.ltb_spec (iv a) (iv b)); lia. Qed.
  Lemma iv_min a b : iv (i_min sg w a b) = Z.min (iv a) (iv b).
  Proof. unfold i_min. destruct (Z.ltb_spec (iv b) (iv a)); lia. Qed.

  Lemma MIN_range : okv (i_MIN sg w).
  Proof.
    unfold in_range, i_MIN. pose proof pow_split. pose proof pow_half_pos. destruct sg; lia.
  Qed.
  Lemma MAX_range : okv (i_MAX sg w).
  Proof.
    unfold in_range, i_MAX. pose proof pow_split. pose proof pow_half_pos. destruct sg; lia.
  Qed.
  Lemma MIN_le a : okv a -> iv (i_MIN sg w) <= iv a.
  Proof.
    unfold in_range, ival, i_MIN, sgn. pose proof pow_split. pose proof pow_half_pos. intros Ha.
    destruct sg; [|lia].
    destruct (Z.ltb_spec (2 ^ (w - 1)) (2 ^ (w - 1))); destruct (Z.ltb_spec a (2 ^ (w - 1))); lia.
  Qed.
  Lemma MAX_ge a : okv a -> iv a <= iv (i_MAX sg w).
  Proof.
    unfold in_range, ival, i_MAX, sgn. pose proof pow_split. pose proof pow_half_pos. intros Ha.
    destruct sg; [|lia].
    destruct (Z.ltb_spec (2 ^ (w - 1) - 1) (2 ^ (w - 1))); destruct (Z.ltb_spec a (2 ^ (w - 1))); lia.
  Qed.

  Lemma Forall_map2_ok (f : Z -> Z -> Z) x y :
    (forall p q, okv p -> okv q -> okv (f p q)) -> Forall okv x -> Forall okv y -> Forall okv (map2 f x y).
  Proof.
    intros H. revert y. induction x as [|p x IH]; intros [|q y] Fx Fy; cbn [map2]; try constructor;
      inversion Fx; inversion Fy; subst; auto.
  Qed.

  (** ** sums *)
  Lemma Zsum_cons a l : Zsum (a :: l) = a + Zsum l. Proof. reflexivity. Qed.

  Lemma Zsum_map2_add a b : length a = length b -> Zsum (map2 (i_add w) a b) == Zsum a + Zsum b.
  Proof.
    revert b. induction a as [|p a IH]; intros [|q b] H; cbn [length] in H; try lia.
    - apply eqm_refl.
    - cbn [map2]. rewrite !Zsum_cons.
      replace (p + Zsum a + (q + Zsum b)) with ((p + q) + (Zsum a + Zsum b)) by lia.
      apply eqm_add; [exact Hw | apply eqm_wrap; exact Hw | apply IH; lia].
  Qed.

  Lemma Zsum_halves x n : length x = (2 * n)%nat ->
    Zsum (map2 (i_add w) (upper_half x) (lower_half x)) == Zsum x.
  Proof.
    intros H. eapply eqm_trans.
    - apply Zsum_map2_add. rewrite (upper_len x n H), (lower_len x n H). reflexivity.
    - rewrite <- (halves_app x) at 3. rewrite Zsum_app. rewrite Z.add_comm. apply eqm_refl.
  Qed.

  Lemma strided4_add_range l : forall s1 s2 s3 s4, okv (strided4 (i_add w) s1 s2 s3 s4 l).
  Proof.
    induction l as [|a|a b|a b c|a b c d l IH] using RegArith.list_ind4; intros s1 s2 s3 s4;
      cbn [strided4]; try apply okv_add. apply IH.
  Qed.

  Lemma strided4_add_ok l : (length l mod 4 = 0)%nat ->
    okv (strided4 (i_add w) 0 0 0 0 l) /\ strided4 (i_add w) 0 0 0 0 l == Zsum l.
  Proof.
    intros H. split; [apply strided4_add_range|].
    unfold eqm. rewrite (RegArith.strided4_sum w 0 0 0 0 l Hw H). reflexivity.
  Qed.

  Lemma tree4_add_ok l : length l = 4%nat -> okv (tree4 (i_add w) l) /\ tree4 (i_add w) l == Zsum l.
  Proof.
    intros H. destruct l as [|a [|b [|c [|d [|e l]]]]]; cbn [length] in H; try lia.
    unfold tree4. cbn [nth]. split; [apply okv_add|].
    eapply eqm_trans; [apply eqm_wrap; exact Hw|].
    eapply eqm_trans; [apply eqm_add; [exact Hw | apply eqm_wrap; exact Hw | apply eqm_wrap; exact Hw]|].
    rewrite !Zsum_cons. replace (a + (b + (c + (d + Zsum [])))) with (a + b + (c + d)) by (cbn; lia).
    apply eqm_refl.
  Qed.

  Lemma pair2_add_ok l : length l = 2%nat -> okv (pair2 (i_add w) l) /\ pair2 (i_add w) l == Zsum l.
  Proof.
    intros H. destruct l as [|a [|b [|c l]]]; cbn [length] in H; try lia.
    unfold pair2. cbn [nth]. split; [apply okv_add|].
    eapply eqm_trans; [apply eqm_wrap; exact Hw|].
    rewrite !Zsum_cons. replace (a + (b + Zsum [])) with (a + b) by (cbn; lia). apply eqm_refl.
  Qed.

  (* the shape of the half-folded register that each branch of [avx2_hfold] expects *)
  Definition hshape (n : nat) : Prop :=
    if w <=? 16 then (n mod 4 = 0)%nat else if w =? 32 then n = 4%nat else n = 2%nat.

  Lemma avx2_hsum_ok x n : length x = (2 * n)%nat -> hshape n ->
    okv (avx2_hfold w (map2 (i_add w)) (i_add w) 0 x) /\
    avx2_hfold w (map2 (i_add w)) (i_add w) 0 x == Zsum x.
  Proof.
    intros H S. unfold avx2_hfold, hshape in *.
    pose proof (Zsum_halves x n H) as E.
    assert (Lf : length (map2 (i_add w) (upper_half x) (lower_half x)) = n)
      by (rewrite map2_length, (upper_len x n H), (lower_len x n H); lia).
    set (f := map2 (i_add w) (upper_half x) (lower_half x)) in *.
    destruct (w <=? 16); [|destruct (w =? 32)].
    - rewrite <- Lf in S. destruct (strided4_add_ok f S) as [R1 R2]. split; [exact R1 | eapply eqm_trans; eauto].
    - rewrite <- Lf in S. destruct (tree4_add_ok f S) as [R1 R2]. split; [exact R1 | eapply eqm_trans; eauto].
    - rewrite <- Lf in S. destruct (pair2_add_ok f S) as [R1 R2]. split; [exact R1 | eapply eqm_trans; eauto].
  Qed.

  Lemma fold_left_add_ok l : forall s, okv s ->
    okv (fold_left (i_add w) l s) /\ fold_left (i_add w) l s == s + Zsum l.
  Proof.
    induction l as [|a l IH]; intros s Hs; cbn [fold_left].
    - split; [exact Hs|]. cbn. rewrite Z.add_0_r. apply eqm_refl.
    - destruct (IH (i_add w s a) (okv_add s a)) as [R1 R2]. split; [exact R1|].
      eapply eqm_trans; [exact R2|]. rewrite Zsum_cons, Z.add_assoc.
      apply eqm_add; [exact Hw | apply eqm_wrap; exact Hw | apply eqm_refl].
  Qed.

  (** ** maxima *)
  Lemma fmax_ge m l : m <= fold_right Z.max m l.
  Proof. induction l as [|a l IH]; cbn [fold_right]; lia. Qed.
  Lemma fmax_app m a b :
    fold_right Z.max m (a ++ b) = Z.max (fold_right Z.max m a) (fold_right Z.max m b).
  Proof.
    induction a as [|p a IH]; cbn [app fold_right]; [pose proof (fmax_ge m b); lia | rewrite IH; lia].
  Qed.
  Lemma fmax_map2 m a : forall b, length a = length b ->
    fold_right Z.max m (map2 Z.max a b) = Z.max (fold_right Z.max m a) (fold_right Z.max m b).
  Proof.
    induction a as [|p a IH]; intros [|q b] H; cbn [length] in H; try lia; cbn [map2 fold_right]; [lia|].
    rewrite IH by lia. lia.
  Qed.
  Lemma map_iv_max a : forall b,
    map iv (map2 (i_max sg w) a b) = map2 Z.max (map iv a) (map iv b).
  Proof.
    induction a as [|p a IH]; intros [|q b]; try reflexivity. cbn [map2 map]. rewrite IH, iv_max. reflexivity.
  Qed.
  Lemma fmax_halves m x n : length x = (2 * n)%nat ->
    fold_right Z.max m (map iv (map2 (i_max sg w) (upper_half x) (lower_half x)))
    = fold_right Z.max m (map iv x).
  Proof.
    intros H. rewrite map_iv_max, fmax_map2
      by (rewrite !map_length, (upper_len x n H), (lower_len x n H); reflexivity).
    transitivity (fold_right Z.max m (map iv (lower_half x ++ upper_half x)));
      [|rewrite halves_app; reflexivity].
    rewrite map_app, fmax_app. lia.
  Qed.
  Lemma fmax_init m p l : m <= p -> fold_right Z.max p l = Z.max p (fold_right Z.max m l).
  Proof. intros H. induction l as [|a l IH]; cbn [fold_right]; [lia | rewrite IH; lia]. Qed.

  Lemma strided4_max_range l : forall s1 s2 s3 s4, okv s1 -> okv s2 -> okv s3 -> okv s4 -> Forall okv l ->
    okv (strided4 (i_max sg w) s1 s2 s3 s4 l).
  Proof.
    induction l as [|a|a b|a b c|a b c d l IH] using RegArith.list_ind4; intros s1 s2 s3 s4 R1 R2 R3 R4 F;
      cbn [strided4]; try (apply okv_max; apply okv_max; assumption).
    inversion F as [|? ? Ra F1]; subst. inversion F1 as [|? ? Rb F2]; subst.
    inversion F2 as [|? ? Rc F3]; subst. inversion F3 as [|? ? Rd F4]; subst.
    apply IH; try apply okv_max; assumption.
  Qed.

  Lemma strided4_max_ok l : (length l mod 4 = 0)%nat -> Forall okv l ->
    okv (strided4 (i_max sg w) (i_MIN sg w) (i_MIN sg w) (i_MIN sg w) (i_MIN sg w) l) /\
    iv (strided4 (i_max sg w) (i_MIN sg w) (i_MIN sg w) (i_MIN sg w) (i_MIN sg w) l)
    = fold_right Z.max (iv (i_MIN sg w)) (map iv l).
  Proof.
    intros H F. split; [apply strided4_max_range; auto using MIN_range|].
    apply RegArith.strided4_max; auto. apply MIN_range.
  Qed.

  Lemma tree4_max_ok l : length l = 4%nat -> Forall okv l ->
    okv (tree4 (i_max sg w) l) /\ iv (tree4 (i_max sg w) l) = fold_right Z.max (iv (i_MIN sg w)) (map iv l).
  Proof.
    intros H F. destruct l as [|a [|b [|c [|d [|e l]]]]]; cbn [length] in H; try lia.
    inversion F as [|? ? Ra F1]; subst. inversion F1 as [|? ? Rb F2]; subst.
    inversion F2 as [|? ? Rc F3]; subst. inversion F3 as [|? ? Rd F4]; subst.
    unfold tree4. cbn [nth map fold_right]. split; [repeat apply okv_max; assumption|].
    rewrite !iv_max. pose proof (MIN_le d Rd). lia.
  Qed.

  Lemma pair2_max_ok l : length l = 2%nat -> Forall okv l ->
    okv (pair2 (i_max sg w) l) /\ iv (pair2 (i_max sg w) l) = fold_right Z.max (iv (i_MIN sg w)) (map iv l).
  Proof.
    intros H F. destruct l as [|a [|b [|c l]]]; cbn [length] in H; try lia.
    inversion F as [|? ? Ra F1]; subst. inversion F1 as [|? ? Rb F2]; subst.
    unfold pair2. cbn [nth map fold_right]. split; [repeat apply okv_max; assumption|].
    rewrite !iv_max. pose proof (MIN_le b Rb). lia.
  Qed.

  Lemma avx2_hmax_ok (lane_op : vreg Z -> vreg Z -> vreg Z) x n :
    (forall a b, Forall okv a -> Forall okv b -> lane_op a b = map2 (i_max sg w) a b) ->
    length x = (2 * n)%nat -> hshape n -> Forall okv x ->
    okv (avx2_hfold w lane_op (i_max sg w) (i_MIN sg w) x) /\
    iv (avx2_hfold w lane_op (i_max sg w) (i_MIN sg w) x)
    = fold_right Z.max (iv (i_MIN sg w)) (map iv x).
  Proof.
    intros Hop H S F. unfold avx2_hfold, hshape in *.
    destruct (Forall_halves _ x F) as [Fu Fl]. rewrite (Hop _ _ Fu Fl).
    pose proof (fmax_halves (iv (i_MIN sg w)) x n H) as E.
    assert (Lf : length (map2 (i_max sg w) (upper_half x) (lower_half x)) = n)
      by (rewrite map2_length, (upper_len x n H), (lower_len x n H); lia).
    assert (Ff : Forall okv (map2 (i_max sg w) (upper_half x) (lower_half x)))
      by (apply Forall_map2_ok; auto using okv_max).
    set (f := map2 (i_max sg w) (upper_half x) (lower_half x)) in *.
    rewrite <- E. rewrite <- Lf in S.
    destruct (w <=? 16); [|destruct (w =? 32)].
    - apply strided4_max_ok; assumption.
    - apply tree4_max_ok; assumption.
    - apply pair2_max_ok; assumption.
  Qed.

  Lemma fold_left_max_ok l : forall s, okv s -> Forall okv l ->
    okv (fold_left (i_max sg w) l s) /\
    iv (fold_left (i_max sg w) l s) = fold_right Z.max (iv s) (map iv l).
  Proof.
    induction l as [|a l IH]; intros s Hs F; cbn [fold_left map fold_right].
    - split; [exact Hs | reflexivity].
    - inversion F as [|? ? Ra F1]; subst.
      destruct (IH (i_max sg w s a) (okv_max s a Hs Ra) F1) as [R1 R2]. split; [exact R1|].
      rewrite R2, iv_max, Z.max_comm. apply RegArith.fold_max_pull.
  Qed.

  Lemma reduce_max_ok x : x <> [] -> Forall okv x ->
    okv (fold_left (i_max sg w) (tl x) (hd 0 x)) /\
    iv (fold_left (i_max sg w) (tl x) (hd 0 x)) = fold_right Z.max (iv (i_MIN sg w)) (map iv x).
  Proof.
    intros Hx F. destruct x as [|h t]; [congruence|]. cbn [hd tl map fold_right].
    inversion F as [|? ? Rh Ft]; subst.
    destruct (fold_left_max_ok t h Rh Ft) as [R1 R2]. split; [exact R1|].
    rewrite R2. apply fmax_init. apply MIN_le, Rh.
  Qed.

  (** ** minima *)
  Lemma fmin_le m l : fold_right Z.min m l <= m.
  Proof. induction l as [|a l IH]; cbn [fold_right]; lia. Qed.
  Lemma fmin_app m a b :
    fold_right Z.min m (a ++ b) = Z.min (fold_right Z.min m a) (fold_right Z.min m b).
  Proof.
    induction a as [|p a IH]; cbn [app fold_right]; [pose proof (fmin_le m b); lia | rewrite IH; lia].
  Qed.
  Lemma fmin_map2 m a : forall b, length a = length b ->
    fold_right Z.min m (map2 Z.min a b) = Z.min (fold_right Z.min m a) (fold_right Z.min m b).
  Proof.
    induction a as [|p a IH]; intros [|q b] H; cbn [length] in H; try lia; cbn [map2 fold_right]; [lia|].
    rewrite IH by lia. lia.
  Qed.
  Lemma map_iv_min a : forall b,
    map iv (map2 (i_min sg w) a b) = map2 Z.min (map iv a) (map iv b).
  Proof.
    induction a as [|p a IH]; intros [|q b]; try reflexivity. cbn [map2 map]. rewrite IH, iv_min. reflexivity.
  Qed.
  Lemma fmin_halves m x n : length x = (2 * n)%nat ->
    fold_right Z.min m (map iv (map2 (i_min sg w) (upper_half x) (lower_half x)))
    = fold_right Z.min m (map iv x).
  Proof.
    intros H. rewrite map_iv_min, fmin_map2
      by (rewrite !map_length, (upper_len x n H), (lower_len x n H); reflexivity).
    transitivity (fold_right Z.min m (map iv (lower_half x ++ upper_half x)));
      [|rewrite halves_app; reflexivity].
    rewrite map_app, fmin_app. lia.
  Qed.
  Lemma fmin_init m p l : p <= m -> fold_right Z.min p l = Z.min p (fold_right Z.min m l).
  Proof. intros H. induction l as [|a l IH]; cbn [fold_right]; [lia | rewrite IH; lia]. Qed.

  Lemma strided4_min_range l : forall s1 s2 s3 s4, okv s1 -> okv s2 -> okv s3 -> okv s4 -> Forall okv l ->
    okv (strided4 (i_min sg w) s1 s2 s3 s4 l).
  Proof.
    induction l as [|a|a b|a b c|a b c d l IH] using RegArith.list_ind4; intros s1 s2 s3 s4 R1 R2 R3 R4 F;
      cbn [strided4]; try (apply okv_min; apply okv_min; assumption).
    inversion F as [|? ? Ra F1]; subst. inversion F1 as [|? ? Rb F2]; subst.
    inversion F2 as [|? ? Rc F3]; subst. inversion F3 as [|? ? Rd F4]; subst.
    apply IH; try apply okv_min; assumption.
  Qed.

  Lemma strided4_min_ok l : (length l mod 4 = 0)%nat -> Forall okv l ->
    okv (strided4 (i_min sg w) (i_MAX sg w) (i_MAX sg w) (i_MAX sg w) (i_MAX sg w) l) /\
    iv (strided4 (i_min sg w) (i_MAX sg w) (i_MAX sg w) (i_MAX sg w) (i_MAX sg w) l)
    = fold_right Z.min (iv (i_MAX sg w)) (map iv l).
  Proof.
    intros H F. split; [apply strided4_min_range; auto using MAX_range|].
    apply RegArith.strided4_min; auto. apply MAX_range.
  Qed.

  Lemma tree4_min_ok l : length l = 4%nat -> Forall okv l ->
    okv (tree4 (i_min sg w) l) /\ iv (tree4 (i_min sg w) l) = fold_right Z.min (iv (i_MAX sg w)) (map iv l).
  Proof.
    intros H F. destruct l as [|a [|b [|c [|d [|e l]]]]]; cbn [length] in H; try lia.
    inversion F as [|? ? Ra F1]; subst. inversion F1 as [|? ? Rb F2]; subst.
    inversion F2 as [|? ? Rc F3]; subst. inversion F3 as [|? ? Rd F4]; subst.
    unfold tree4. cbn [nth map fold_right]. split; [repeat apply okv_min; assumption|].
    rewrite !iv_min. pose proof (MAX_ge d Rd). lia.
  Qed.

  Lemma pair2_min_ok l : length l = 2%nat -> Forall okv l ->
    okv (pair2 (i_min sg w) l) /\ iv (pair2 (i_min sg w) l) = fold_right Z.min (iv (i_MAX sg w)) (map iv l).
  Proof.
    intros H F. destruct l as [|a [|b [|c l]]]; cbn [length] in H; try lia.
    inversion F as [|? ? Ra F1]; subst. inversion F1 as [|? ? Rb F2]; subst.
    unfold pair2. cbn [nth map fold_right]. split; [repeat apply okv_min; assumption|].
    rewrite !iv_min. pose proof (MAX_ge b Rb). lia.
  Qed.

  Lemma avx2_hmin_ok (lane_op : vreg Z -> vreg Z -> vreg Z) x n :
    (forall a b, Forall okv a -> Forall okv b -> lane_op a b = map2 (i_min sg w) a b) ->
    length x = (2 * n)%nat -> hshape n -> Forall okv x ->
    okv (avx2_hfold w lane_op (i_min sg w) (i_MAX sg w) x) /\
    iv (avx2_hfold w lane_op (i_min sg w) (i_MAX sg w) x)
    = fold_right Z.min (iv (i_MAX sg w)) (map iv x).
  Proof.
    intros Hop H S F. unfold avx2_hfold, hshape in *.
    destruct (Forall_halves _ x F) as [Fu Fl]. rewrite (Hop _ _ Fu Fl).
    pose proof (fmin_halves (iv (i_MAX sg w)) x n H) as E.
    assert (Lf : length (map2 (i_min sg w) (upper_half x) (lower_half x)) = n)
      by (rewrite map2_length, (upper_len x n H), (lower_len x n H); lia).
    assert (Ff : Forall okv (map2 (i_min sg w) (upper_half x) (lower_half x)))
      by (apply Forall_map2_ok; auto using okv_min).
    set (f := map2 (i_min sg w) (upper_half x) (lower_half x)) in *.
    rewrite <- E. rewrite <- Lf in S.
    destruct (w <=? 16); [|destruct (w =? 32)].
    - apply strided4_min_ok; assumption.
    - apply tree4_min_ok; assumption.
    - apply pair2_min_ok; assumption.
  Qed.

  Lemma fold_left_min_ok l : forall s, okv s -> Forall okv l ->
    okv (fold_left (i_min sg w) l s) /\
    iv (fold_left (i_min sg w) l s) = fold_right Z.min (iv s) (map iv l).
  Proof.
    induction l as [|a l IH]; intros s Hs F; cbn [fold_left map fold_right].
    - split; [exact Hs | reflexivity].
    - inversion F as [|? ? Ra F1]; subst.
      destruct (IH (i_min sg w s a) (okv_min s a Hs Ra) F1) as [R1 R2]. split; [exact R1|].
      rewrite R2, iv_min, Z.min_comm. apply RegArith.fold_min_pull.
  Qed.

  Lemma reduce_min_ok x : x <> [] -> Forall okv x ->
    okv (fold_left (i_min sg w) (tl x) (hd 0 x)) /\
    iv (fold_left (i_min sg w) (tl x) (hd 0 x)) = fold_right Z.min (iv (i_MAX sg w)) (map iv x).
  Proof.
    intros Hx F. destruct x as [|h t]; [congruence|]. cbn [hd tl map fold_right].
    inversion F as [|? ? Rh Ft]; subst.
    destruct (fold_left_min_ok t h Rh Ft) as [R1 R2]. split; [exact R1|].
    rewrite R2. apply fmin_init. apply MAX_ge, Rh.
  Qed.
End Width.

(** * The three back ends *)

Ltac split_widths Hw := unfold widths in Hw; cbn [In] in Hw; destruct Hw as [<-|[<-|[<-|[<-|[]]]]].

Lemma widths_pos w : In w widths -> (0 < w)%Z.
Proof. intros Hw. split_widths Hw; lia. Qed.

(** ** Fallback: Register = T *)

Ltac fb_red :=
  cbn [fallback_ops lanes r_filled r_zeroed r_add r_sub r_mul r_div r_fmadd r_max r_min
       r_sum_to_value r_max_to_value r_min_to_value lane1 hd
       int_math m_zero m_add m_sub m_mul m_div m_cmp_max m_cmp_min].

(* The statements about [fallback_ops (int_math sg w)] mention [int_math], whose [m_sqrt] field is
   [i_sqrt] (computed through Flocq's f64 square root), so [Print Assumptions] of anything that mentions
   it lists Flocq's four real-number axioms.  To show that the proofs themselves use none, they are
   carried out for an arbitrary scalar layer whose add/sub/mul/div/max/min/zero are the integer ones
   ([m_sqrt], [m_abs], [m_cmp_eq], [m_one], [m_max], [m_min] are left arbitrary): these generic lemmas
   are closed under the global context. *)
Definition int_like (sg : bool) (w : Z) (M : MathOps Z) : Prop :=
  m_zero M = 0%Z /\ m_add M = i_add w /\ m_sub M = i_sub w /\ m_mul M = i_mul w /\
  m_div M = i_div sg w /\ m_cmp_max M = i_max sg w /\ m_cmp_min M = i_min sg w.

Lemma int_math_int_like sg w : int_like sg w (int_math sg w).
Proof. repeat split. Qed.

Lemma fallback_lanewise_gen sg w M : (0 < w)%Z -> int_like sg w M -> IntLanewise w (fallback_ops M).
Proof.
  intros Hw HM. destruct M. unfold int_like in HM. cbn [SimdApi.m_zero SimdApi.m_add SimdApi.m_sub
    SimdApi.m_mul SimdApi.m_div SimdApi.m_cmp_max SimdApi.m_cmp_min] in HM.
  destruct HM as (-> & -> & -> & -> & -> & -> & ->).
  constructor; try reflexivity.
  - apply mk_ops_wf; try reflexivity.
    intros x y z _ _. fb_red. destruct (i_div sg w _ _); intros E; inversion E. reflexivity.
  - intros x y Hx Hy _ _. destruct (len1 x Hx) as [a ->]. destruct (len1 y Hy) as [b ->]. reflexivity.
  - intros x y Hx Hy _ _. destruct (len1 x Hx) as [a ->]. destruct (len1 y Hy) as [b ->]. reflexivity.
  - intros x y Hx Hy _ _. destruct (len1 x Hx) as [a ->]. destruct (len1 y Hy) as [b ->]. reflexivity.
  - intros x Hx F. destruct (len1 x Hx) as [a ->]. inversion F; subst. fb_red.
    split; [assumption|]. rewrite Zsum_cons. cbn [Zsum fold_right]. rewrite Z.add_0_r. apply eqm_refl.
Qed.

Lemma fallback_elementwise_gen sg w M : (0 < w)%Z -> int_like sg w M -> IntElementwise w sg (fallback_ops M).
Proof.
  intros Hw HM. destruct M. unfold int_like in HM. cbn [SimdApi.m_zero SimdApi.m_add SimdApi.m_sub
    SimdApi.m_mul SimdApi.m_div SimdApi.m_cmp_max SimdApi.m_cmp_min] in HM.
  destruct HM as (-> & -> & -> & -> & -> & -> & ->).
  constructor; try reflexivity.
  - intros x y Hx Hy _ _. destruct (len1 x Hx) as [a ->]. destruct (len1 y Hy) as [b ->]. reflexivity.
  - intros x y Hx Hy _ _. destruct (len1 x Hx) as [a ->]. destruct (len1 y Hy) as [b ->]. reflexivity.
  - intros x y Hx Hy _ _. destruct (len1 x Hx) as [a ->]. destruct (len1 y Hy) as [b ->].
    fb_red. cbn [map2 sequence]. destruct (i_div sg w a b); reflexivity.
  - intros x Hx F. destruct (len1 x Hx) as [a ->]. inversion F as [|? ? Ra _]; subst. fb_red.
    split; [assumption|]. cbn [map fold_right]. pose proof (MIN_le w Hw sg a Ra); lia.
  - intros x Hx F. destruct (len1 x Hx) as [a ->]. inversion F as [|? ? Ra _]; subst. fb_red.
    split; [assumption|]. cbn [map fold_right]. pose proof (MAX_ge w Hw sg a Ra); lia.
Qed.

Theorem fallback_int_lanewise sg w : In w widths -> IntLanewise w (fallback_ops (int_math sg w)).
Proof.
  intros Hw. apply (fallback_lanewise_gen sg); [apply widths_pos, Hw | apply int_math_int_like].
Qed.

Theorem fallback_int_elementwise sg w : In w widths -> IntElementwise w sg (fallback_ops (int_math sg w)).
Proof.
  intros Hw. apply fallback_elementwise_gen; [apply widths_pos, Hw | apply int_math_int_like].
Qed.

(** ** AVX2 (256-bit) *)

Lemma mul8_ok x y n : length x = 2 * n -> length y = 2 * n ->
  Forall (in_range 8) x -> Forall (in_range 8) y -> mul8 x y = map2 (i_mul 8) x y.
Proof.
  intros Hx Hy Fx Fy. apply RegArith.mul8_correct; try assumption; [congruence|].
  rewrite Hx, Nat.even_mul. reflexivity.
Qed.

Lemma a2_filled sg w v : r_filled (avx2_int_ops sg w) v = repeat v (lanes (avx2_int_ops sg w)).
Proof. reflexivity. Qed.
Lemma a2_mul sg w : r_mul (avx2_int_ops sg w)
  = if (w =? 8)%Z then mul8 else if (w =? 64)%Z then map2 mul64_emul else map2 (i_mul w).
Proof. reflexivity. Qed.
Lemma a2_max sg w : r_max (avx2_int_ops sg w)
  = if (w =? 64)%Z then map2 (max64_emul sg) else map2 (i_max sg w).
Proof. reflexivity. Qed.
Lemma a2_min sg w : r_min (avx2_int_ops sg w)
  = if (w =? 64)%Z then map2 (min64_emul sg) else map2 (i_min sg w).
Proof. reflexivity. Qed.
Lemma a2_sumv sg w : r_sum_to_value (avx2_int_ops sg w) = avx2_hfold w (map2 (i_add w)) (i_add w) 0%Z.
Proof. reflexivity. Qed.
Lemma a2_maxv sg w : r_max_to_value (avx2_int_ops sg w)
  = avx2_hfold w (r_max (avx2_int_ops sg w)) (i_max sg w) (i_MIN sg w).
Proof. reflexivity. Qed.
Lemma a2_minv sg w : r_min_to_value (avx2_int_ops sg w)
  = avx2_hfold w (r_min (avx2_int_ops sg w)) (i_min sg w) (i_MAX sg w).
Proof. reflexivity. Qed.

Lemma a2_mul_len sg w x y n : length x = 2 * n -> length y = 2 * n ->
  length (r_mul (avx2_int_ops sg w) x y) = 2 * n.
Proof.
  intros Hx Hy. rewrite a2_mul. destruct (w =? 8)%Z; [apply mul8_length; assumption|].
  destruct (w =? 64)%Z; rewrite map2_length; lia.
Qed.

Lemma a2_mul_ok sg w x y n : length x = 2 * n -> length y = 2 * n ->
  Forall (in_range w) x -> Forall (in_range w) y -> r_mul (avx2_int_ops sg w) x y = map2 (i_mul w) x y.
Proof.
  intros Hx Hy Fx Fy. rewrite a2_mul.
  destruct (Z.eqb_spec w 8) as [->|_]; [apply (mul8_ok x y n); assumption|].
  destruct (Z.eqb_spec w 64) as [->|_]; [|reflexivity].
  apply (map2_ext_Forall (in_range 64)); [|assumption..]. apply RegArith.mul64_emul_correct.
Qed.

Lemma a2_max_len sg w x y : length (r_max (avx2_int_ops sg w) x y) = Nat.min (length x) (length y).
Proof. rewrite a2_max. destruct (w =? 64)%Z; apply map2_length. Qed.
Lemma a2_min_len sg w x y : length (r_min (avx2_int_ops sg w) x y) = Nat.min (length x) (length y).
Proof. rewrite a2_min. destruct (w =? 64)%Z; apply map2_length. Qed.

Lemma a2_max_ok sg w x y : Forall (in_range w) x -> Forall (in_range w) y ->
  r_max (avx2_int_ops sg w) x y = map2 (i_max sg w) x y.
Proof.
  intros Fx Fy. rewrite a2_max. destruct (Z.eqb_spec w 64) as [->|_]; [|reflexivity].
  apply (map2_ext_Forall (in_range 64)); [|assumption..]. apply RegArith.max64_emul_correct.
Qed.
Lemma a2_min_ok sg w x y : Forall (in_range w) x -> Forall (in_range w) y ->
  r_min (avx2_int_ops sg w) x y = map2 (i_min sg w) x y.
Proof.
  intros Fx Fy. rewrite a2_min. destruct (Z.eqb_spec w 64) as [->|_]; [|reflexivity].
  apply (map2_ext_Forall (in_range 64)); [|assumption..]. apply RegArith.min64_emul_correct.
Qed.

Lemma avx2_lanewise_gen sg w n :
  (0 < w)%Z -> lanes (avx2_int_ops sg w) = 2 * n -> 1 <= n -> hshape w n ->
  IntLanewise w (avx2_int_ops sg w).
Proof.
  intros Hw HL Hn Hs. constructor.
  - apply mk_ops_wf; try reflexivity.
    + lia.
    + intros v. rewrite a2_filled. apply repeat_length.
    + intros x y Hx Hy. change (r_add (avx2_int_ops sg w)) with (map2 (i_add w)). rewrite map2_length. lia.
    + intros x y Hx Hy. change (r_sub (avx2_int_ops sg w)) with (map2 (i_sub w)). rewrite map2_length. lia.
    + intros x y Hx Hy. rewrite HL in *. apply a2_mul_len; assumption.
    + intros x y Hx Hy. rewrite a2_max_len. lia.
    + intros x y Hx Hy. rewrite a2_min_len. lia.
    + intros x y z Hx Hy E. change (r_div (avx2_int_ops sg w)) with (div_lanes sg w) in E.
      apply div_lanes_length in E. lia.
  - reflexivity.
  - reflexivity.
  - reflexivity.
  - intros x y Hx Hy Fx Fy. rewrite HL in *. apply (a2_mul_ok sg w x y n); assumption.
  - reflexivity.
  - reflexivity.
  - reflexivity.
  - reflexivity.
  - intros x Hx F. rewrite a2_sumv. rewrite HL in Hx. apply (avx2_hsum_ok w Hw x n); assumption.
Qed.

Lemma avx2_elementwise_gen sg w n :
  (0 < w)%Z -> lanes (avx2_int_ops sg w) = 2 * n -> 1 <= n -> hshape w n ->
  IntElementwise w sg (avx2_int_ops sg w).
Proof.
  intros Hw HL Hn Hs. constructor.
  - reflexivity.
  - intros x y _ _. apply a2_max_ok.
  - intros x y _ _. apply a2_min_ok.
  - intros x y _ _ _ _. apply div_lanes_seq.
  - reflexivity.
  - reflexivity.
  - reflexivity.
  - reflexivity.
  - intros x Hx F. rewrite a2_maxv. rewrite HL in Hx.
    apply (avx2_hmax_ok w Hw sg _ x n); try assumption. apply a2_max_ok.
  - intros x Hx F. rewrite a2_minv. rewrite HL in Hx.
    apply (avx2_hmin_ok w Hw sg _ x n); try assumption. apply a2_min_ok.
Qed.

Lemma avx2_shape sg w : In w widths ->
  exists n, lanes (avx2_int_ops sg w) = 2 * n /\ 1 <= n /\ hshape w n.
Proof.
  intros Hw. split_widths Hw; [exists 16 | exists 8 | exists 4 | exists 2];
    (split; [reflexivity | split; [lia | vm_compute; reflexivity]]).
Qed.

Theorem avx2_int_lanewise sg w : In w widths -> IntLanewise w (avx2_int_ops sg w).
Proof.
  intros Hw. destruct (avx2_shape sg w Hw) as (n & HL & Hn & Hs).
  apply (avx2_lanewise_gen sg w n); auto using widths_pos.
Qed.

Theorem avx2_int_elementwise sg w : In w widths -> IntElementwise w sg (avx2_int_ops sg w).
Proof.
  intros Hw. destruct (avx2_shape sg w Hw) as (n & HL & Hn & Hs).
  apply (avx2_elementwise_gen sg w n); auto using widths_pos.
Qed.

(** ** AVX-512 *)

Lemma a5_filled sg w v : r_filled (avx512_int_ops sg w) v = repeat v (lanes (avx512_int_ops sg w)).
Proof. reflexivity. Qed.
Lemma a5_mul sg w : r_mul (avx512_int_ops sg w) = if (w =? 8)%Z then mul8 else map2 (i_mul w).
Proof. reflexivity. Qed.
Lemma a5_sumv sg w : r_sum_to_value (avx512_int_ops sg w)
  = if (w <=? 16)%Z
    then fun reg => r_sum_to_value (avx2_int_ops sg w)
                      (r_add (avx2_int_ops sg w) (upper_half reg) (lower_half reg))
    else fun reg => fold_left (i_add w) reg 0%Z.
Proof. reflexivity. Qed.
Lemma a5_maxv sg w : r_max_to_value (avx512_int_ops sg w)
  = if (w <=? 16)%Z
    then fun reg => r_max_to_value (avx2_int_ops sg w)
                      (r_max (avx2_int_ops sg w) (upper_half reg) (lower_half reg))
    else fun reg => fold_left (i_max sg w) (tl reg) (hd 0%Z reg).
Proof. reflexivity. Qed.
Lemma a5_minv sg w : r_min_to_value (avx512_int_ops sg w)
  = if (w <=? 16)%Z
    then fun reg => r_min_to_value (avx2_int_ops sg w)
                      (r_min (avx2_int_ops sg w) (upper_half reg) (lower_half reg))
    else fun reg => fold_left (i_min sg w) (tl reg) (hd 0%Z reg).
Proof. reflexivity. Qed.

Lemma a5_mul_len sg w x y n : length x = 2 * n -> length y = 2 * n ->
  length (r_mul (avx512_int_ops sg w) x y) = 2 * n.
Proof.
  intros Hx Hy. rewrite a5_mul. destruct (w =? 8)%Z; [apply mul8_length; assumption|].
  rewrite map2_length; lia.
Qed.

Lemma a5_mul_ok sg w x y n : length x = 2 * n -> length y = 2 * n ->
  Forall (in_range w) x -> Forall (in_range w) y -> r_mul (avx512_int_ops sg w) x y = map2 (i_mul w) x y.
Proof.
  intros Hx Hy Fx Fy. rewrite a5_mul.
  destruct (Z.eqb_spec w 8) as [->|_]; [apply (mul8_ok x y n); assumption | reflexivity].
Qed.

(* the lane count is 2n; for the widths folded through the AVX2 code the 256-bit half (n lanes) is
   itself 2k lanes with k of the shape [avx2_hfold] expects *)
Definition shape512 (w : Z) (n : nat) : Prop :=
  if (w <=? 16)%Z then exists k, n = 2 * k /\ hshape w k else True.

Lemma avx512_lanewise_gen sg w n :
  (0 < w)%Z -> lanes (avx512_int_ops sg w) = 2 * n -> 1 <= n -> shape512 w n ->
  IntLanewise w (avx512_int_ops sg w).
Proof.
  intros Hw HL Hn Hs. constructor.
  - apply mk_ops_wf; try reflexivity.
    + lia.
    + intros v. rewrite a5_filled. apply repeat_length.
    + intros x y Hx Hy. change (r_add (avx512_int_ops sg w)) with (map2 (i_add w)). rewrite map2_length. lia.
    + intros x y Hx Hy. change (r_sub (avx512_int_ops sg w)) with (map2 (i_sub w)). rewrite map2_length. lia.
    + intros x y Hx Hy. rewrite HL in *. apply a5_mul_len; assumption.
    + intros x y Hx Hy. change (r_max (avx512_int_ops sg w)) with (map2 (i_max sg w)). rewrite map2_length. lia.
    + intros x y Hx Hy. change (r_min (avx512_int_ops sg w)) with (map2 (i_min sg w)). rewrite map2_length. lia.
    + intros x y z Hx Hy E. change (r_div (avx512_int_ops sg w)) with (div_lanes sg w) in E.
      apply div_lanes_length in E. lia.
  - reflexivity.
  - reflexivity.
  - reflexivity.
  - intros x y Hx Hy Fx Fy. rewrite HL in *. apply (a5_mul_ok sg w x y n); assumption.
  - reflexivity.
  - reflexivity.
  - reflexivity.
  - reflexivity.
  - intros x Hx F. rewrite a5_sumv. rewrite HL in Hx. unfold shape512 in Hs.
    destruct (w <=? 16)%Z.
    + destruct Hs as (k & Ek & Hk). cbv beta.
      change (r_add (avx2_int_ops sg w)) with (map2 (i_add w)). rewrite a2_sumv.
      assert (Lf : length (map2 (i_add w) (upper_half x) (lower_half x)) = 2 * k)
        by (rewrite map2_length, (upper_len x n Hx), (lower_len x n Hx); lia).
      destruct (avx2_hsum_ok w Hw _ k Lf Hk) as [R1 R2]. split; [exact R1|].
      eapply eqm_trans; [exact R2|]. apply (Zsum_halves w Hw x n Hx).
    + destruct (fold_left_add_ok w Hw x 0%Z (okv_0 w Hw)) as [R1 R2]. split; [exact R1|].
      rewrite Z.add_0_l in R2. exact R2.
Qed.

Lemma avx512_elementwise_gen sg w n :
  (0 < w)%Z -> lanes (avx512_int_ops sg w) = 2 * n -> 1 <= n -> shape512 w n ->
  IntElementwise w sg (avx512_int_ops sg w).
Proof.
  intros Hw HL Hn Hs. constructor.
  - reflexivity.
  - reflexivity.
  - reflexivity.
  - intros x y _ _ _ _. apply div_lanes_seq.
  - reflexivity.
  - reflexivity.
  - reflexivity.
  - reflexivity.
  - intros x Hx F. rewrite a5_maxv. rewrite HL in Hx. unfold shape512 in Hs.
    destruct (w <=? 16)%Z.
    + destruct Hs as (k & Ek & Hk). cbv beta.
      destruct (Forall_halves _ x F) as [Fu Fl]. rewrite (a2_max_ok sg w _ _ Fu Fl), a2_maxv.
      assert (Lf : length (map2 (i_max sg w) (upper_half x) (lower_half x)) = 2 * k)
        by (rewrite map2_length, (upper_len x n Hx), (lower_len x n Hx); lia).
      assert (Ff : Forall (in_range w) (map2 (i_max sg w) (upper_half x) (lower_half x)))
        by (apply Forall_map2_ok; auto using okv_max).
      destruct (avx2_hmax_ok w Hw sg _ _ k (a2_max_ok sg w) Lf Hk Ff) as [R1 R2]. split; [exact R1|].
      rewrite R2. apply (fmax_halves w sg _ x n Hx).
    + apply (reduce_max_ok w Hw sg x); [|exact F]. intros ->. cbn in Hx. lia.
  - intros x Hx F. rewrite a5_minv. rewrite HL in Hx. unfold shape512 in Hs.
    destruct (w <=? 16)%Z.
    + destruct Hs as (k & Ek & Hk). cbv beta.
      destruct (Forall_halves _ x F) as [Fu Fl]. rewrite (a2_min_ok sg w _ _ Fu Fl), a2_minv.
      assert (Lf : length (map2 (i_min sg w) (upper_half x) (lower_half x)) = 2 * k)
        by (rewrite map2_length, (upper_len x n Hx), (lower_len x n Hx); lia).
      assert (Ff : Forall (in_range w) (map2 (i_min sg w) (upper_half x) (lower_half x)))
        by (apply Forall_map2_ok; auto using okv_min).
      destruct (avx2_hmin_ok w Hw sg _ _ k (a2_min_ok sg w) Lf Hk Ff) as [R1 R2]. split; [exact R1|].
      rewrite R2. apply (fmin_halves w sg _ x n Hx).
    + apply (reduce_min_ok w Hw sg x); [|exact F]. intros ->. cbn in Hx. lia.
Qed.

Lemma avx512_shape sg w : In w widths ->
  exists n, lanes (avx512_int_ops sg w) = 2 * n /\ 1 <= n /\ shape512 w n.
Proof.
  intros Hw. split_widths Hw; [exists 32 | exists 16 | exists 8 | exists 4];
    (split; [reflexivity | split; [lia|]]).
  - exists 16. split; [reflexivity | vm_compute; reflexivity].
  - exists 8. split; [reflexivity | vm_compute; reflexivity].
  - exact I.
  - exact I.
Qed.

Theorem avx512_int_lanewise sg w : In w widths -> IntLanewise w (avx512_int_ops sg w).
Proof.
  intros Hw. destruct (avx512_shape sg w Hw) as (n & HL & Hn & Hs).
  apply (avx512_lanewise_gen sg w n); auto using widths_pos.
Qed.

Theorem avx512_int_elementwise sg w : In w widths -> IntElementwise w sg (avx512_int_ops sg w).
Proof.
  intros Hw. destruct (avx512_shape sg w Hw) as (n & HL & Hn & Hs).
  apply (avx512_elementwise_gen sg w n); auto using widths_pos.
Qed.

(** ** lane counts *)

Theorem avx2_int_lanes sg w : In w widths -> Z.of_nat (lanes (avx2_int_ops sg w)) = (256 / w)%Z.
Proof. intros Hw. split_widths Hw; reflexivity. Qed.

Theorem avx512_int_lanes sg w : In w widths -> Z.of_nat (lanes (avx512_int_ops sg w)) = (512 / w)%Z.
Proof. intros Hw. split_widths Hw; reflexivity. Qed.
