(* C04: the float reductions (sum, dot product, squared norm, squared Euclidean distance), generically in the
   back end ([FloatLanewise R vmax vmin fused]: fused and unfused back ends alike).

   1. [ghost_reduce_rule]: the generic three-phase rule with a ghost summary — same shape as
      [ReduceCorrect.reduce_correct]: hypotheses about init / dense_step / roll / lane_step / tovalue / scalar_step
      as Hoare triples over the memory-safety invariant, conclusion about [three_phase].
   2. The skeleton (Section [Skel]): every float carries a ghost (c, S, A) — how many terms it contains, their
      exact sum, the sum of their absolute values — through a per-value relation [Apx] that is preserved by
      [f_add] as long as the ghost stays within the global budget [Bnd]; registers and dense accumulators carry
      ghost lists lane by lane; the roll-up and the back end's horizontal addition tree ([fl_sumv]) add ghosts.
      The four kernels are instances, given the lane rules of their entering terms.
   3. Instance A (Section [Bound]): [Apx x g] = x finite and [RApx (B2R x) c S A] (RoundErr.v): the a-priori
      bound gamma(n+3) * sum |t_j|, with no overflow anywhere, from the input-scaling hypothesis alone.
   4. Instance B (Section [Exact]): [Apx x g] = x finite, B2R x = S exactly, S a multiple of 2^e: exactness.

   Flocq's reals bring the 4 standard-library axioms named in DESIGN §2.8; no others. *)
From Coq Require Import ZArith Reals Lra Lia List Arith Bool Permutation Psatz.
From Flocq Require Import Core BinarySingleNaN.
From CF Require Import Base.Mem Model.SimdApi Model.Kernels Model.Tables Model.Prim Model.Regs.
From CF Require Import Proofs.MemProofs Proofs.KernelRules Proofs.KernelSafety Proofs.KernelBounds Proofs.OpsWf
     Proofs.ListFacts Proofs.FloatBackends Proofs.BackendTable Proofs.RoundErr.
Import ListNotations.

(** * Ghost summaries *)
Record gh : Type := mkg { gc : nat; gS : R; gA : R }.
Definition gzero : gh := mkg 0 0 0.
Definition gadd (g g' : gh) : gh := mkg (gc g + gc g') (gS g + gS g') (gA g + gA g').
Definition gsum (l : list gh) : gh := fold_right gadd gzero l.
Definition gpos (g : gh) : Prop := (0 <= gA g)%R.

Lemma gh_eq c c' s s' a a' : c = c' -> s = s' -> a = a' -> mkg c s a = mkg c' s' a'.
Proof. intros; subst; reflexivity. Qed.

Lemma gadd_0_r g : gadd g gzero = g.
Proof. destruct g as [c s a]. unfold gadd, gzero. cbn [gc gS gA]. apply gh_eq; [lia | lra | lra]. Qed.
Lemma gadd_0_l g : gadd gzero g = g.
Proof. destruct g as [c s a]. unfold gadd, gzero. cbn [gc gS gA]. apply gh_eq; [lia | lra | lra]. Qed.
Lemma gadd_comm g g' : gadd g g' = gadd g' g.
Proof. unfold gadd. apply gh_eq; [lia | lra | lra]. Qed.
Lemma gadd_assoc g1 g2 g3 : gadd g1 (gadd g2 g3) = gadd (gadd g1 g2) g3.
Proof. unfold gadd. cbn [gc gS gA]. apply gh_eq; [lia | lra | lra]. Qed.

Lemma gsum_app x y : gsum (x ++ y) = gadd (gsum x) (gsum y).
Proof.
  induction x as [|g x IH]; cbn [app gsum fold_right].
  - symmetry. apply gadd_0_l.
  - fold (gsum (x ++ y)). fold (gsum x). rewrite IH. apply gadd_assoc.
Qed.

Lemma gsum_cons g l : gsum (g :: l) = gadd g (gsum l).
Proof. reflexivity. Qed.

Lemma gsum_map2_gadd x y : length x = length y -> gsum (map2 gadd x y) = gadd (gsum x) (gsum y).
Proof.
  revert y. induction x as [|g x IH]; intros [|g' y] H; cbn [length] in H; try discriminate.
  - cbn. symmetry. apply gadd_0_l.
  - cbn [map2]. rewrite !gsum_cons, IH by lia.
    unfold gadd. cbn [gc gS gA]. apply gh_eq; [lia | lra | lra].
Qed.

Lemma gsum_perm x y : Permutation x y -> gsum x = gsum y.
Proof.
  induction 1 as [|g x y _ IH|g g' x|x y z _ IH1 _ IH2].
  - reflexivity.
  - rewrite !gsum_cons, IH. reflexivity.
  - rewrite !gsum_cons, !gadd_assoc, (gadd_comm g' g). reflexivity.
  - congruence.
Qed.

Lemma gpos_gadd g g' : gpos g -> gpos g' -> gpos (gadd g g').
Proof. unfold gpos, gadd. cbn [gA]. lra. Qed.
Lemma gpos_gzero : gpos gzero. Proof. unfold gpos, gzero. cbn [gA]. lra. Qed.

Lemma gpos_gsum l : Forall gpos l -> gpos (gsum l).
Proof.
  induction 1 as [|g l Hg _ IH]; [apply gpos_gzero|]. rewrite gsum_cons. apply gpos_gadd; assumption.
Qed.

Lemma gpos_gsum_F2 {X} (H : X -> gh -> Prop) zs gs :
  (forall p g, H p g -> gpos g) -> Forall2 H zs gs -> gpos (gsum gs).
Proof.
  intros Hpos F. apply gpos_gsum. induction F as [|z g zs gs Hz _ IH]; constructor; eauto.
Qed.

Lemma gpos_gsum_map2 {Y} (ok : Y -> Y -> Prop) (tgx : Y -> Y -> gh) xs ys :
  (forall x y, ok x y -> gpos (tgx x y)) -> Forall2 ok xs ys -> gpos (gsum (map2 tgx xs ys)).
Proof.
  intros Hpos F. apply gpos_gsum. induction F as [|x y xs ys Hxy _ IH]; cbn [map2]; constructor; eauto.
Qed.

(* components of sums *)
Lemma gc_gsum l : gc (gsum l) = fold_right Nat.add 0 (map gc l).
Proof. induction l as [|g l IH]; [reflexivity|]. rewrite gsum_cons. cbn [gadd gc map fold_right]. rewrite IH. reflexivity. Qed.
Lemma gS_gsum l : gS (gsum l) = Rsum (map gS l).
Proof.
  induction l as [|g l IH]; [reflexivity|]. rewrite gsum_cons. cbn [gadd gS map]. rewrite IH. reflexivity.
Qed.
Lemma gA_gsum l : gA (gsum l) = Rsum (map gA l).
Proof.
  induction l as [|g l IH]; [reflexivity|]. rewrite gsum_cons. cbn [gadd gA map]. rewrite IH. reflexivity.
Qed.

(** * List facts *)
Lemma Forall2_firstn {A B} (P : A -> B -> Prop) n x y : Forall2 P x y -> Forall2 P (firstn n x) (firstn n y).
Proof.
  intros F. revert n. induction F as [|a b x y Hab _ IH]; intros [|n]; cbn [firstn]; constructor; auto.
Qed.
Lemma Forall2_skipn {A B} (P : A -> B -> Prop) n x y : Forall2 P x y -> Forall2 P (skipn n x) (skipn n y).
Proof.
  intros F. revert n. induction F as [|a b x y Hab F IH]; intros [|n]; cbn [skipn]; try constructor; auto.
Qed.
Lemma Forall2_length' {A B} (P : A -> B -> Prop) x y : Forall2 P x y -> length x = length y.
Proof. induction 1; cbn [length]; congruence. Qed.
Lemma Forall2_diag {A} (P : A -> A -> Prop) x : Forall (fun p => P p p) x -> Forall2 P x x.
Proof. induction 1; constructor; auto. Qed.

Lemma map3_dup_l {A C D} (f : A -> C -> D) x z : map3 (fun p _ r => f p r) x x z = map2 f x z.
Proof. revert z. induction x as [|a x IH]; intros [|c z]; cbn [map3 map2]; try reflexivity. rewrite IH. reflexivity. Qed.
Lemma map3_sub_dup {A B C D} (g : A -> A -> B) (f : B -> B -> C -> D) x y z :
  map3 f (map2 g x y) (map2 g x y) z = map3 (fun p q r => f (g p q) (g p q) r) x y z.
Proof.
  revert y z. induction x as [|a x IH]; intros [|b y] [|c z]; cbn [map3 map2]; try reflexivity.
  rewrite IH. reflexivity.
Qed.
Lemma map2_flip {A B C} (f : A -> B -> C) x y : map2 f x y = map2 (fun q p => f p q) y x.
Proof. revert y. induction x as [|a x IH]; intros [|b y]; cbn [map2]; try reflexivity. rewrite IH. reflexivity. Qed.

(** * The generic three-phase rule with a ghost summary *)
Section Rule.
  Context {T G : Type}.
  Variable R : SimdOps T.
  Hypothesis HL : 1 <= lanes R.
  Notation Ln := (lanes R).

  Variables a b res : list T.
  Variable dims : nat.
  Let m0 := init_mem a b res.
  Let Inv : mem T -> Prop := SafeR m0 (fun _ => True).

  (* [tot i]: the ghost summary of the first i terms *)
  Variable tot : nat -> G.
  Variable P1 : dense T -> G -> Prop.
  Variable P2 : vreg T -> G -> Prop.
  Variable P3 : T -> G -> Prop.

  Variable init : dense T.
  Variable dense_step : nat -> dense T -> M T (dense T).
  Variable roll : dense T -> vreg T.
  Variable lane_step : nat -> vreg T -> M T (vreg T).
  Variable tovalue : vreg T -> T.
  Variable scalar_step : nat -> T -> M T T.

  Hypothesis Hinit : P1 init (tot 0).
  Hypothesis Hdense : forall i acc, i + Ln * 8 <= dims -> P1 acc (tot i) ->
      triple Inv (dense_step i acc) (fun acc' m => Inv m /\ P1 acc' (tot (i + Ln * 8))) (fun _ => False).
  Hypothesis Hroll : forall i acc, i <= dims -> P1 acc (tot i) -> P2 (roll acc) (tot i).
  Hypothesis Hlane : forall i acc, i + Ln <= dims -> P2 acc (tot i) ->
      triple Inv (lane_step i acc) (fun acc' m => Inv m /\ P2 acc' (tot (i + Ln))) (fun _ => False).
  Hypothesis Htov : forall i acc, i <= dims -> P2 acc (tot i) -> P3 (tovalue acc) (tot i).
  Hypothesis Hscalar : forall i s, i < dims -> P3 s (tot i) ->
      triple Inv (scalar_step i s) (fun s' m => Inv m /\ P3 s' (tot (i + 1))) (fun _ => False).

  Theorem ghost_reduce_rule :
    match three_phase R dims init dense_step roll lane_step tovalue scalar_step m0 with
    | Ok r m => run_ok m0 m /\ P3 r (tot dims)
    | _ => False
    end.
  Proof.
    assert (H : triple (fun m => Inv m /\ P1 init (tot 0))
                       (three_phase R dims init dense_step roll lane_step tovalue scalar_step)
                       (fun s m => Inv m /\ P3 s (tot dims)) (fun _ => False)).
    { apply (three_phase_rule R HL dims
               (fun i acc m => Inv m /\ P1 acc (tot i))
               (fun i acc m => Inv m /\ P2 acc (tot i))
               (fun i s m => Inv m /\ P3 s (tot i)) (fun _ => False)).
      - intros k acc Hk. pose proof (dense_in dims Ln HL k Hk) as Hin.
        intros m (Hm & Hacc). specialize (Hdense (k * Dn Ln) acc Hin Hacc m Hm).
        destruct (dense_step (k * Dn Ln) acc m) as [acc' m'| | |]; auto.
        replace (S k * Dn Ln) with (k * Dn Ln + Ln * 8) by (unfold Dn; lia). exact Hdense.
      - intros acc m (Hm & Hacc). split; [exact Hm|]. apply Hroll; [|exact Hacc].
        pose proof (tail_bound dims Ln HL). lia.
      - intros k acc Hk. pose proof (lane_in dims Ln HL k Hk) as Hin.
        intros m (Hm & Hacc). specialize (Hlane (qn dims Ln * Dn Ln + k * Ln) acc Hin Hacc m Hm).
        destruct (lane_step (qn dims Ln * Dn Ln + k * Ln) acc m) as [acc' m'| | |]; auto.
        replace (qn dims Ln * Dn Ln + S k * Ln) with (qn dims Ln * Dn Ln + k * Ln + Ln) by lia. exact Hlane.
      - intros acc m (Hm & Hacc). split; [exact Hm|]. apply Htov; [|exact Hacc].
        pose proof (tail_bound dims Ln HL). lia.
      - intros i s Hi m (Hm & Hs). specialize (Hscalar i s ltac:(lia) Hs m Hm).
        destruct (scalar_step i s m) as [s' m'| | |]; auto.
        replace (S i) with (i + 1) by lia. exact Hscalar. }
    specialize (H m0).
    assert (P0 : Inv m0 /\ P1 init (tot 0)).
    { split; [|exact Hinit]. split; [apply Safe0_init; reflexivity | exact I]. }
    specialize (H P0).
    destruct (three_phase R dims init dense_step roll lane_step tovalue scalar_step m0) as [r m| | |]; auto.
    destruct H as ((Hs & _) & Hr). split; [exact Hs | exact Hr].
  Qed.
End Rule.

(** * The skeleton: ghosts carried lane by lane through a float back end *)
Section Skel.
  Context {prec emax : Z} {Hp : FLX.Prec_gt_0 prec} {He : Prec_lt_emax prec emax}.
  Notation bf := (binary_float prec emax).

  Variable R : SimdOps bf.
  Variables (vmax vmin : bf -> bf -> bf) (fused : bool).
  Hypothesis FL : FloatLanewise R vmax vmin fused.
  Notation Ln := (lanes R).
  Let HL : 1 <= Ln := wf_L R (fl_wf R vmax vmin fused FL).

  (* the per-value relation and the global budget *)
  Variable Apx : bf -> gh -> Prop.
  Variable cmax : nat.
  Variable Amax : Rdefinitions.R.
  Definition Bnd (g : gh) : Prop := gc g <= cmax /\ (gA g <= Amax)%R.

  Hypothesis Apx_pos : forall x g, Apx x g -> gpos g.
  Hypothesis Apx_zero : Apx f_zero gzero.
  Hypothesis Apx_add : forall x y g g', Apx x g -> Apx y g' -> Bnd (gadd g g') -> Apx (f_add x y) (gadd g g').

  Ltac bnd := unfold Bnd, gpos, gadd, gzero in *; cbn [gc gS gA] in *;
              repeat match goal with H : _ /\ _ |- _ => destruct H end; try split; try lia; try lra.

  Lemma Bnd_l g g' : Bnd (gadd g g') -> gpos g' -> Bnd g.
  Proof. intros. bnd. Qed.
  Lemma Bnd_r g g' : Bnd (gadd g g') -> gpos g -> Bnd g'.
  Proof. intros. bnd. Qed.

  (* a register / a dense accumulator holding ghost g *)
  Definition holdsR (x : vreg bf) (g : gh) : Prop :=
    length x = Ln /\ exists gs, Forall2 Apx x gs /\ gsum gs = g.
  Definition holdsD (d : dense bf) (g : gh) : Prop :=
    length d = 8 /\ exists gl, Forall2 holdsR d gl /\ gsum gl = g.

  Lemma holdsR_pos x g : holdsR x g -> gpos g.
  Proof. intros (_ & gs & F & <-). eapply gpos_gsum_F2; [exact Apx_pos | exact F]. Qed.
  Lemma holdsD_pos d g : holdsD d g -> gpos g.
  Proof. intros (_ & gl & F & <-). eapply gpos_gsum_F2; [exact holdsR_pos | exact F]. Qed.

  (* lane-wise lifting of a ternary step (x, y: the entering operands; z: the accumulator) *)
  Lemma lift3 {X Y} (H : X -> gh -> Prop) (ok : Y -> Y -> Prop) (tgx : Y -> Y -> gh) (op : Y -> Y -> X -> X) :
    (forall p g, H p g -> gpos g) ->
    (forall x y, ok x y -> gpos (tgx x y)) ->
    (forall x y z g, ok x y -> H z g -> Bnd (gadd g (tgx x y)) -> H (op x y z) (gadd g (tgx x y))) ->
    forall xs ys, Forall2 ok xs ys -> forall zs gs, Forall2 H zs gs -> length xs = length zs ->
      Bnd (gadd (gsum gs) (gsum (map2 tgx xs ys))) ->
      Forall2 H (map3 op xs ys zs) (map2 gadd gs (map2 tgx xs ys)).
  Proof.
    intros Hpos Tpos Hop xs ys Fxy.
    induction Fxy as [|x y xs ys Hxy Fxy IH]; intros zs gs Fz Hlen HB.
    - destruct Fz; [|discriminate]. constructor.
    - destruct Fz as [|z g zs gs Hz Fz]; [discriminate|]. cbn [map3 map2].
      pose proof (Hpos _ _ Hz) as P1. pose proof (Tpos _ _ Hxy) as P2.
      pose proof (gpos_gsum_F2 H zs gs Hpos Fz) as P3.
      pose proof (gpos_gsum_map2 ok tgx xs ys Tpos Fxy) as P4.
      cbn [map2] in HB. rewrite !gsum_cons in HB.
      constructor.
      + apply Hop; [exact Hxy | exact Hz |]. clear IH. bnd.
      + apply IH; [exact Fz | cbn [length] in Hlen; lia |]. clear IH. bnd.
  Qed.

  Lemma lift3_sum {X Y} (H : X -> gh -> Prop) (ok : Y -> Y -> Prop) (tgx : Y -> Y -> gh) xs ys zs gs :
    Forall2 ok xs ys -> Forall2 H zs gs -> length xs = length zs ->
    gsum (map2 gadd gs (map2 tgx xs ys)) = gadd (gsum gs) (gsum (map2 tgx xs ys)).
  Proof.
    intros Fxy Fz Hlen. apply gsum_map2_gadd. rewrite map2_length.
    rewrite <- (Forall2_length' _ _ _ Fz), <- (Forall2_length' _ _ _ Fxy). lia.
  Qed.

  (* lane-wise addition of two registers *)
  Lemma radd_ok x y g g' : holdsR x g -> holdsR y g' -> Bnd (gadd g g') -> holdsR (r_add R x y) (gadd g g').
  Proof.
    intros (Lx & gx & Fx & <-) (Ly & gy & Fy & <-) HB.
    rewrite (fl_add R vmax vmin fused FL) by assumption.
    split; [rewrite map2_length; lia|].
    exists (map2 gadd gx gy). split.
    - clear Lx Ly. revert y gy Fy HB. induction Fx as [|p g x gx Hp' Fx IH]; intros y gy Fy HB.
      + destruct Fy; constructor.
      + destruct Fy as [|q g' y gy Hq Fy]; [constructor|]. cbn [map2].
        pose proof (Apx_pos _ _ Hp') as P1. pose proof (Apx_pos _ _ Hq) as P2.
        pose proof (gpos_gsum_F2 Apx x gx Apx_pos Fx) as P3.
        pose proof (gpos_gsum_F2 Apx y gy Apx_pos Fy) as P4.
        rewrite !gsum_cons in HB. constructor.
        * apply Apx_add; [exact Hp' | exact Hq |]. clear IH. bnd.
        * apply IH; [exact Fy|]. clear IH. bnd.
    - apply gsum_map2_gadd. rewrite <- (Forall2_length' _ _ _ Fx), <- (Forall2_length' _ _ _ Fy). lia.
  Qed.

  (* the zero-initialised accumulators *)
  Lemma zero_reg_ok : holdsR (r_zeroed R) gzero.
  Proof.
    rewrite (fl_zero R vmax vmin fused FL). split; [apply repeat_length|].
    exists (repeat gzero Ln). clear HL. split.
    - generalize Ln. intros n. induction n as [|n IH]; cbn [repeat]; constructor; auto.
    - generalize Ln. intros n. induction n as [|n IH]; cbn [repeat]; [reflexivity|]. rewrite gsum_cons, IH. apply gadd_0_l.
  Qed.

  Lemma zero_ok : holdsD (zeroed_dense R) gzero.
  Proof.
    unfold zeroed_dense, dense_copy, NUM_LANES. cbn [repeat]. split; [reflexivity|].
    exists (repeat gzero 8). cbn [repeat]. split.
    - repeat constructor; apply zero_reg_ok.
    - cbn [gsum fold_right]. rewrite !gadd_0_l. reflexivity.
  Qed.

  (* the roll-up ((a+b)+(c+d))+((e+f)+(g+h)) *)
  Lemma roll_ok d g : holdsD d g -> Bnd g -> holdsR (sum_to_register R d) g.
  Proof.
    intros (L8 & gl & F & <-) HB.
    do 8 (destruct F as [|? ? ? ? ? F]; [cbn [length] in L8; lia|]).
    destruct F; [|cbn [length] in L8; lia].
    unfold sum_to_register, rollup, nth_reg. cbn [nth].
    repeat match goal with H : holdsR _ _ |- _ => pose proof (holdsR_pos _ _ H); revert H end. intros.
    rewrite !gsum_cons in HB. cbn [gsum fold_right] in HB.
    match goal with
    | H0 : holdsR ?r0 ?g0, H1 : holdsR ?r1 ?g1, H2 : holdsR ?r2 ?g2, H3 : holdsR ?r3 ?g3,
      H4 : holdsR ?r4 ?g4, H5 : holdsR ?r5 ?g5, H6 : holdsR ?r6 ?g6, H7 : holdsR ?r7 ?g7
      |- holdsR (r_add R (r_add R (r_add R ?r7 ?r6) (r_add R ?r5 ?r4)) (r_add R (r_add R ?r3 ?r2) (r_add R ?r1 ?r0))) _ =>
        assert (A76 : holdsR (r_add R r7 r6) (gadd g7 g6)) by (apply radd_ok; [assumption | assumption | bnd]);
        assert (A54 : holdsR (r_add R r5 r4) (gadd g5 g4)) by (apply radd_ok; [assumption | assumption | bnd]);
        assert (A32 : holdsR (r_add R r3 r2) (gadd g3 g2)) by (apply radd_ok; [assumption | assumption | bnd]);
        assert (A10 : holdsR (r_add R r1 r0) (gadd g1 g0)) by (apply radd_ok; [assumption | assumption | bnd]);
        assert (A74 : holdsR (r_add R (r_add R r7 r6) (r_add R r5 r4)) (gadd (gadd g7 g6) (gadd g5 g4)))
          by (apply radd_ok; [assumption | assumption | bnd]);
        assert (A30 : holdsR (r_add R (r_add R r3 r2) (r_add R r1 r0)) (gadd (gadd g3 g2) (gadd g1 g0)))
          by (apply radd_ok; [assumption | assumption | bnd]);
        assert (A70 : holdsR (r_add R (r_add R (r_add R r7 r6) (r_add R r5 r4)) (r_add R (r_add R r3 r2) (r_add R r1 r0)))
                             (gadd (gadd (gadd g7 g6) (gadd g5 g4)) (gadd (gadd g3 g2) (gadd g1 g0))))
          by (apply radd_ok; [assumption | assumption | bnd]);
        replace (gsum [g7; g6; g5; g4; g3; g2; g1; g0])
          with (gadd (gadd (gadd g7 g6) (gadd g5 g4)) (gadd (gadd g3 g2) (gadd g1 g0)));
        [exact A70 | unfold gsum, gadd, gzero; cbn [fold_right gc gS gA]; apply gh_eq; [lia | lra | lra]]
    end.
  Qed.

  (* the back end's horizontal sum: an addition tree over the lanes *)
  Lemma tree_ok v l : sum_tree v l -> forall gs, Forall2 Apx l gs -> Bnd (gsum gs) -> Apx v (gsum gs).
  Proof.
    induction 1 as [x|x y lx ly Tx IHx Ty IHy]; intros gs F HB.
    - inversion F as [|? g ? ? Hx F']; subst. inversion F'; subst.
      cbn [gsum fold_right]. rewrite gadd_0_r. exact Hx.
    - apply Forall2_app_inv_l in F. destruct F as (g1 & g2 & F1 & F2 & ->).
      rewrite gsum_app in *.
      pose proof (gpos_gsum_F2 Apx _ _ Apx_pos F1) as P1. pose proof (gpos_gsum_F2 Apx _ _ Apx_pos F2) as P2.
      apply Apx_add; [apply IHx; [exact F1 | bnd] | apply IHy; [exact F2 | bnd] | exact HB].
  Qed.

  Lemma tov_ok x g : holdsR x g -> Bnd g -> Apx (r_sum_to_value R x) g.
  Proof.
    intros (Lx & gs & F & <-) HB.
    destruct (fl_sumv R vmax vmin fused FL x Lx) as (l & T & Pm).
    destruct (Permutation_Forall2 (Permutation_sym Pm) F) as (gs' & Pg & F').
    rewrite (gsum_perm _ _ Pg) in *. apply (tree_ok _ l T gs' F' HB).
  Qed.

  (** ** Kernels: terms entering lane by lane *)
  Section Terms.
    Variable tg : bf -> bf -> gh.                       (* ghost of the term of an element pair *)
    Variable okt : bf -> bf -> Prop.                    (* what is assumed of an element pair *)
    Variable stp : bf -> bf -> bf -> bf.                (* lane of the register step: x, y, accumulator *)
    Variable sstp : bf -> bf -> bf -> bf.               (* the scalar-tail step *)
    Variable vstp : vreg bf -> vreg bf -> vreg bf -> vreg bf.
    Hypothesis tg_pos : forall x y, okt x y -> gpos (tg x y).
    Hypothesis stp_ok : forall x y z g, okt x y -> Apx z g -> Bnd (gadd g (tg x y)) -> Apx (stp x y z) (gadd g (tg x y)).
    Hypothesis sstp_ok : forall x y z g, okt x y -> Apx z g -> Bnd (gadd g (tg x y)) -> Apx (sstp x y z) (gadd g (tg x y)).
    Hypothesis vstp_eq : forall x y z, length x = Ln -> length y = Ln -> length z = Ln -> vstp x y z = map3 stp x y z.

    Variables a b : list bf.
    Variable dims : nat.
    Hypothesis Hab : Forall2 okt a b.
    Hypothesis Ha : length a = dims.
    Let Hb : length b = dims. Proof. rewrite <- (Forall2_length' _ _ _ Hab). exact Ha. Qed.

    Definition blk (i n : nat) : gh := gsum (map2 tg (firstn n (skipn i a)) (firstn n (skipn i b))).
    Definition tot (i : nat) : gh := blk 0 i.

    Lemma blk_add i n1 n2 : blk i (n1 + n2) = gadd (blk i n1) (blk (i + n1) n2).
    Proof.
      unfold blk. rewrite !firstn_add_split, !skipn_skipn_add.
      rewrite map2_app by (rewrite !firstn_length, !skipn_length; lia).
      apply gsum_app.
    Qed.

    Lemma blk_ok i n : Forall2 okt (firstn n (skipn i a)) (firstn n (skipn i b)).
    Proof. apply Forall2_firstn, Forall2_skipn, Hab. Qed.

    Lemma blk_pos i n : gpos (blk i n).
    Proof. unfold blk. eapply gpos_gsum_map2; [exact tg_pos | apply blk_ok]. Qed.

    Lemma tot_add i n : tot (i + n) = gadd (tot i) (blk i n).
    Proof. unfold tot. rewrite blk_add. reflexivity. Qed.

    Lemma tot_full : tot dims = gsum (map2 tg a b).
    Proof. unfold tot, blk. cbn [skipn]. rewrite map2_full by assumption. reflexivity. Qed.

    Hypothesis HBtot : Bnd (tot dims).

    Lemma Bnd_tot i : i <= dims -> Bnd (tot i).
    Proof.
      intros Hi. replace dims with (i + (dims - i)) in HBtot by lia. rewrite tot_add in HBtot.
      apply (Bnd_l _ _ HBtot). apply blk_pos.
    Qed.

    (* one register step *)
    Definition okxy (x y : vreg bf) : Prop := length x = Ln /\ length y = Ln /\ Forall2 okt x y.
    Definition tgx (x y : vreg bf) : gh := gsum (map2 tg x y).

    Lemma tgx_pos x y : okxy x y -> gpos (tgx x y).
    Proof. intros (_ & _ & F). eapply gpos_gsum_map2; [exact tg_pos | exact F]. Qed.

    Lemma vstp_ok x y z g : okxy x y -> holdsR z g -> Bnd (gadd g (tgx x y)) -> holdsR (vstp x y z) (gadd g (tgx x y)).
    Proof.
      intros (Lx & Ly & Fxy) (Lz & gs & Fz & <-) HB.
      rewrite vstp_eq by assumption. split; [rewrite map3_length; lia|].
      exists (map2 gadd gs (map2 tg x y)). split.
      - apply (lift3 Apx okt tg stp Apx_pos tg_pos stp_ok x y Fxy z gs Fz); [lia | exact HB].
      - apply (lift3_sum Apx okt tg x y z gs Fxy Fz). lia.
    Qed.

    Lemma okxy_blk i : i + Ln <= dims -> okxy (firstn Ln (skipn i a)) (firstn Ln (skipn i b)).
    Proof.
      intros Hi. split; [|split]; [rewrite firstn_length, skipn_length; lia .. | apply blk_ok].
    Qed.

    Lemma lane_ok i z : i + Ln <= dims -> holdsR z (tot i) ->
      holdsR (vstp (firstn Ln (skipn i a)) (firstn Ln (skipn i b)) z) (tot (i + Ln)).
    Proof.
      intros Hi Hz. rewrite tot_add. apply (vstp_ok _ _ z (tot i) (okxy_blk i Hi) Hz).
      change (tgx (firstn Ln (skipn i a)) (firstn Ln (skipn i b))) with (blk i Ln).
      rewrite <- tot_add. apply Bnd_tot. exact Hi.
    Qed.

    (* one dense step: eight register steps *)
    Lemma blk8 i :
      blk i (Ln * 8) = gsum [blk (i + Ln * 0) Ln; blk (i + Ln * 1) Ln; blk (i + Ln * 2) Ln; blk (i + Ln * 3) Ln;
                             blk (i + Ln * 4) Ln; blk (i + Ln * 5) Ln; blk (i + Ln * 6) Ln; blk (i + Ln * 7) Ln].
    Proof.
      replace (Ln * 8) with (Ln + (Ln + (Ln + (Ln + (Ln + (Ln + (Ln + (Ln + 0)))))))) by lia.
      rewrite !blk_add. cbn [gsum fold_right].
      replace (i + Ln * 0) with i by lia. replace (i + Ln * 1) with (i + Ln) by lia.
      replace (i + Ln * 2) with (i + Ln + Ln) by lia. replace (i + Ln * 3) with (i + Ln + Ln + Ln) by lia.
      replace (i + Ln * 4) with (i + Ln + Ln + Ln + Ln) by lia.
      replace (i + Ln * 5) with (i + Ln + Ln + Ln + Ln + Ln) by lia.
      replace (i + Ln * 6) with (i + Ln + Ln + Ln + Ln + Ln + Ln) by lia.
      replace (i + Ln * 7) with (i + Ln + Ln + Ln + Ln + Ln + Ln + Ln) by lia.
      unfold blk at 9. cbn [firstn map2 gsum fold_right]. reflexivity.
    Qed.

    Lemma dense_ok i acc : i + Ln * 8 <= dims -> holdsD acc (tot i) ->
      holdsD (map3 vstp (dense_at Ln a i) (dense_at Ln b i) acc) (tot (i + Ln * 8)).
    Proof.
      intros Hi (L8 & gl & F & E).
      assert (Fxy : Forall2 okxy (dense_at Ln a i) (dense_at Ln b i)).
      { unfold dense_at. repeat constructor; try (rewrite firstn_length, skipn_length; lia); apply blk_ok. }
      assert (Et : gsum (map2 tgx (dense_at Ln a i) (dense_at Ln b i)) = blk i (Ln * 8)).
      { rewrite blk8. reflexivity. }
      split; [rewrite map3_length; unfold dense_at; cbn [length]; lia|].
      exists (map2 gadd gl (map2 tgx (dense_at Ln a i) (dense_at Ln b i))). split.
      - apply (lift3 holdsR okxy tgx vstp holdsR_pos tgx_pos vstp_ok _ _ Fxy acc gl F).
        + unfold dense_at. cbn [length]. lia.
        + rewrite E, Et, <- tot_add. apply Bnd_tot. exact Hi.
      - rewrite (lift3_sum holdsR okxy tgx _ _ acc gl Fxy F) by (unfold dense_at; cbn [length]; lia).
        rewrite E, Et, <- tot_add. reflexivity.
    Qed.

    (* one scalar step *)
    Lemma scalar_ok i s d : i < dims -> Apx s (tot i) ->
      Apx (sstp (hd d (firstn 1 (skipn i a))) (hd d (firstn 1 (skipn i b))) s) (tot (i + 1)).
    Proof.
      intros Hi Hs. rewrite tot_add.
      pose proof (hd_firstn1 d a i ltac:(lia)) as Ea. pose proof (hd_firstn1 d b i ltac:(lia)) as Eb.
      pose proof (blk_ok i 1) as F. rewrite Ea, Eb in F. inversion F as [|? ? ? ? Hxy _].
      assert (E1 : blk i 1 = tg (hd d (firstn 1 (skipn i a))) (hd d (firstn 1 (skipn i b)))).
      { unfold blk. rewrite Ea, Eb. cbn [map2 gsum fold_right]. apply gadd_0_r. }
      rewrite E1. apply sstp_ok; [exact Hxy | exact Hs |]. rewrite <- E1, <- tot_add. apply Bnd_tot. lia.
    Qed.

    (* the generic kernel: steps that return the pure step functions of the loaded blocks *)
    Variables bmem res : list bf.
    Variable d0 : bf.
    Variable dstep : nat -> dense bf -> M bf (dense bf).
    Variable lstep : nat -> vreg bf -> M bf (vreg bf).
    Variable sstepM : nat -> bf -> M bf bf.
    Let m0 := init_mem a bmem res.
    Let Inv : mem bf -> Prop := SafeR m0 (fun _ => True).
    Hypothesis Hd : forall i acc, i + Ln * 8 <= dims ->
      triple Inv (dstep i acc)
             (fun acc' m => Inv m /\ acc' = map3 vstp (dense_at Ln a i) (dense_at Ln b i) acc) (fun _ => False).
    Hypothesis Hl : forall i acc, i + Ln <= dims ->
      triple Inv (lstep i acc)
             (fun acc' m => Inv m /\ acc' = vstp (firstn Ln (skipn i a)) (firstn Ln (skipn i b)) acc) (fun _ => False).
    Hypothesis Hs : forall i s, i < dims ->
      triple Inv (sstepM i s)
             (fun s' m => Inv m /\ s' = sstp (hd d0 (firstn 1 (skipn i a))) (hd d0 (firstn 1 (skipn i b))) s)
             (fun _ => False).

    Theorem reduce_skel :
      match three_phase R dims (zeroed_dense R) dstep (sum_to_register R) lstep (r_sum_to_value R) sstepM m0 with
      | Ok r m => run_ok m0 m /\ Apx r (gsum (map2 tg a b))
      | _ => False
      end.
    Proof.
      rewrite <- tot_full.
      apply (ghost_reduce_rule R HL a bmem res dims tot holdsD holdsR Apx).
      - assert (E0 : tot 0 = gzero) by reflexivity. rewrite E0. apply zero_ok.
      - intros i acc Hi Hacc m Hm. specialize (Hd i acc Hi m Hm).
        destruct (dstep i acc m) as [acc' m'| | |]; auto. destruct Hd as [Hm' ->].
        split; [exact Hm'|]. apply dense_ok; assumption.
      - intros i acc Hi Hacc. apply roll_ok; [exact Hacc | apply Bnd_tot; exact Hi].
      - intros i acc Hi Hacc m Hm. specialize (Hl i acc Hi m Hm).
        destruct (lstep i acc m) as [acc' m'| | |]; auto. destruct Hl as [Hm' ->].
        split; [exact Hm'|]. apply lane_ok; assumption.
      - intros i acc Hi Hacc. apply tov_ok; [exact Hacc | apply Bnd_tot; exact Hi].
      - intros i s0 Hi Hs0 m Hm. specialize (Hs i s0 Hi m Hm).
        destruct (sstepM i s0 m) as [s' m'| | |]; auto. destruct Hs as [Hm' ->].
        split; [exact Hm'|]. apply scalar_ok; assumption.
    Qed.
  End Terms.
End Skel.

(** * The four kernels as instances of the skeleton *)
Section Skel2.
  Context {prec emax : Z} {Hp : FLX.Prec_gt_0 prec} {He : Prec_lt_emax prec emax}.
  Notation bf := (binary_float prec emax).

  Variable R : SimdOps bf.
  Variables (vmax vmin : bf -> bf -> bf) (fused : bool).
  Hypothesis FL : FloatLanewise R vmax vmin fused.
  Notation Ln := (lanes R).
  Notation Mth := (@float_math prec emax Hp He).

  (* the lane of fmadd: fused, or multiply then add *)
  Definition fm (x y z : bf) : bf := if fused then f_fma x y z else f_add (f_mul x y) z.

  Lemma fmadd_eq x y z : length x = Ln -> length y = Ln -> length z = Ln -> r_fmadd R x y z = map3 fm x y z.
  Proof.
    intros Lx Ly Lz. rewrite (fl_fmadd R vmax vmin fused FL) by assumption. unfold fm.
    destruct fused; [reflexivity | apply map2_map2_map3].
  Qed.

  Lemma map3_ign_mid {A B C D} (f : A -> C -> D) (x : list A) (y : list B) z :
    length y = length x -> map3 (fun p _ r => f p r) x y z = map2 f x z.
  Proof.
    revert y z. induction x as [|p x IH]; intros [|q y] [|r z] H; cbn [length] in H; try discriminate;
      cbn [map3 map2]; try reflexivity.
    rewrite IH by lia. reflexivity.
  Qed.

  Variable Apx : bf -> gh -> Prop.
  Variable cmax : nat.
  Variable Amax : Rdefinitions.R.
  Hypothesis Apx_pos : forall x g, Apx x g -> gpos g.
  Hypothesis Apx_zero : Apx f_zero gzero.
  Hypothesis Apx_add : forall x y g g', Apx x g -> Apx y g' -> Bnd cmax Amax (gadd g g') -> Apx (f_add x y) (gadd g g').

  Variables a b res : list bf.
  Variable dims : nat.
  Hypothesis Ha : length a = dims.
  Let m0 := init_mem a b res.

  Ltac ld := first [ apply load_dense_bind; [discriminate | unfold m0; cbn [slice_of init_mem mA mB mR]; lia |]
                   | apply load_bind; [discriminate | unfold m0; cbn [slice_of init_mem mA mB mR]; lia |] ].
  Ltac fin := unfold m0; cbn [slice_of init_mem mA mB mR]; cbv zeta; apply triple_ret; intros m Hm; split; [exact Hm|].

  (** ** dot product *)
  Section Dot.
    Variable tg : bf -> bf -> gh.
    Variable okt : bf -> bf -> Prop.
    Hypothesis tg_pos : forall x y, okt x y -> gpos (tg x y).
    Hypothesis stp_ok : forall x y z g, okt x y -> Apx z g -> Bnd cmax Amax (gadd g (tg x y)) ->
                                        Apx (fm x y z) (gadd g (tg x y)).
    Hypothesis sstp_ok : forall x y z g, okt x y -> Apx z g -> Bnd cmax Amax (gadd g (tg x y)) ->
                                         Apx (f_add z (f_mul x y)) (gadd g (tg x y)).
    Hypothesis Hab : Forall2 okt a b.
    Hypothesis HB : Bnd cmax Amax (gsum (map2 tg a b)).
    Let Hb : length b = dims. Proof. rewrite <- (Forall2_length' _ _ _ Hab). exact Ha. Qed.

    Theorem dot_skel :
      match generic_dot_product R Mth dims m0 with
      | Ok r m => run_ok m0 m /\ Apx r (gsum (map2 tg a b))
      | _ => False
      end.
    Proof.
      unfold generic_dot_product.
      eapply (reduce_skel R vmax vmin fused FL Apx cmax Amax Apx_pos Apx_zero Apx_add tg okt
                fm (fun x y z => f_add z (f_mul x y)) (r_fmadd R) tg_pos stp_ok sstp_ok fmadd_eq
                a b dims Hab Ha) with (d0 := dflt Mth).
      - rewrite (tot_full tg okt a b dims Hab Ha). exact HB.
      - intros i acc Hi. ld. ld. fin.
        rewrite (fl_fmadd_dense R vmax vmin fused FL). reflexivity.
      - intros i acc Hi. unfold L. ld. ld. fin. reflexivity.
      - intros i s Hi. unfold read1.
        apply triple_bind_assoc. ld. apply triple_bind_ret_l.
        apply triple_bind_assoc. ld. apply triple_bind_ret_l. fin. reflexivity.
    Qed.
  End Dot.

  (** ** squared norm: the dot product of a with itself *)
  Section Norm.
    Variable tg : bf -> bf -> gh.
    Variable okt : bf -> bf -> Prop.
    Hypothesis tg_pos : forall x y, okt x y -> gpos (tg x y).
    Hypothesis stp_ok : forall x y z g, okt x y -> Apx z g -> Bnd cmax Amax (gadd g (tg x y)) ->
                                        Apx (fm x y z) (gadd g (tg x y)).
    Hypothesis sstp_ok : forall x y z g, okt x y -> Apx z g -> Bnd cmax Amax (gadd g (tg x y)) ->
                                         Apx (f_add z (f_mul x y)) (gadd g (tg x y)).
    Hypothesis Haa : Forall2 okt a a.
    Hypothesis HB : Bnd cmax Amax (gsum (map2 tg a a)).

    Theorem norm_skel :
      match generic_squared_norm R Mth dims m0 with
      | Ok r m => run_ok m0 m /\ Apx r (gsum (map2 tg a a))
      | _ => False
      end.
    Proof.
      unfold generic_squared_norm.
      eapply (reduce_skel R vmax vmin fused FL Apx cmax Amax Apx_pos Apx_zero Apx_add tg okt
                fm (fun x y z => f_add z (f_mul x y)) (r_fmadd R) tg_pos stp_ok sstp_ok fmadd_eq
                a a dims Haa Ha) with (d0 := dflt Mth).
      - rewrite (tot_full tg okt a a dims Haa Ha). exact HB.
      - intros i acc Hi. ld. fin.
        rewrite (fl_fmadd_dense R vmax vmin fused FL). reflexivity.
      - intros i acc Hi. unfold L. ld. fin. reflexivity.
      - intros i s Hi. unfold read1.
        apply triple_bind_assoc. ld. apply triple_bind_ret_l. fin. reflexivity.
    Qed.
  End Norm.

  (** ** horizontal sum *)
  Section Sum.
    Variable tg : bf -> bf -> gh.
    Variable okt : bf -> bf -> Prop.
    Hypothesis tg_pos : forall x y, okt x y -> gpos (tg x y).
    Hypothesis stp_ok : forall x y z g, okt x y -> Apx z g -> Bnd cmax Amax (gadd g (tg x y)) ->
                                        Apx (f_add z x) (gadd g (tg x y)).
    Hypothesis Haa : Forall2 okt a a.
    Hypothesis HB : Bnd cmax Amax (gsum (map2 tg a a)).

    Theorem sum_skel :
      match generic_sum R Mth dims m0 with
      | Ok r m => run_ok m0 m /\ Apx r (gsum (map2 tg a a))
      | _ => False
      end.
    Proof.
      unfold generic_sum.
      eapply (reduce_skel R vmax vmin fused FL Apx cmax Amax Apx_pos Apx_zero Apx_add tg okt
                (fun x _ z => f_add z x) (fun x _ z => f_add z x) (fun x _ z => r_add R z x) tg_pos stp_ok stp_ok)
        with (a := a) (b := a) (d0 := dflt Mth).
      - intros x y z Lx Ly Lz. rewrite (fl_add R vmax vmin fused FL) by assumption.
        rewrite map3_ign_mid by lia. apply map2_flip.
      - exact Haa.
      - exact Ha.
      - rewrite (tot_full tg okt a a dims Haa Ha). exact HB.
      - intros i acc Hi. ld. fin.
        rewrite (fl_add_dense R vmax vmin fused FL). unfold apply_dense2.
        rewrite map3_ign_mid by reflexivity. apply map2_flip.
      - intros i acc Hi. unfold L. ld. fin. reflexivity.
      - intros i s Hi. unfold read1.
        apply triple_bind_assoc. ld. apply triple_bind_ret_l. fin. reflexivity.
    Qed.
  End Sum.

  (** ** squared Euclidean distance *)
  Section Euclid.
    Variable tg : bf -> bf -> gh.
    Variable okt : bf -> bf -> Prop.
    Hypothesis tg_pos : forall x y, okt x y -> gpos (tg x y).
    Hypothesis stp_ok : forall x y z g, okt x y -> Apx z g -> Bnd cmax Amax (gadd g (tg x y)) ->
                                        Apx (fm (f_sub x y) (f_sub x y) z) (gadd g (tg x y)).
    Hypothesis sstp_ok : forall x y z g, okt x y -> Apx z g -> Bnd cmax Amax (gadd g (tg x y)) ->
                                         Apx (f_add z (f_mul (f_sub x y) (f_sub x y))) (gadd g (tg x y)).
    Hypothesis Hab : Forall2 okt a b.
    Hypothesis HB : Bnd cmax Amax (gsum (map2 tg a b)).
    Let Hb : length b = dims. Proof. rewrite <- (Forall2_length' _ _ _ Hab). exact Ha. Qed.

    Theorem euclid_skel :
      match generic_euclidean R Mth dims m0 with
      | Ok r m => run_ok m0 m /\ Apx r (gsum (map2 tg a b))
      | _ => False
      end.
    Proof.
      unfold generic_euclidean.
      eapply (reduce_skel R vmax vmin fused FL Apx cmax Amax Apx_pos Apx_zero Apx_add tg okt
                (fun x y z => fm (f_sub x y) (f_sub x y) z)
                (fun x y z => f_add z (f_mul (f_sub x y) (f_sub x y)))
                (fun x y z => r_fmadd R (r_sub R x y) (r_sub R x y) z) tg_pos stp_ok sstp_ok)
        with (a := a) (b := b) (d0 := dflt Mth).
      - intros x y z Lx Ly Lz. rewrite (fl_sub R vmax vmin fused FL) by assumption.
        rewrite fmadd_eq by (rewrite ?map2_length; lia). apply map3_sub_dup.
      - exact Hab.
      - exact Ha.
      - rewrite (tot_full tg okt a b dims Hab Ha). exact HB.
      - intros i acc Hi. ld. ld. fin.
        rewrite (fl_fmadd_dense R vmax vmin fused FL), (fl_sub_dense R vmax vmin fused FL).
        unfold apply_dense3, apply_dense2. apply map3_sub_dup.
      - intros i acc Hi. unfold L. ld. ld. fin. reflexivity.
      - intros i s Hi. unfold read1.
        apply triple_bind_assoc. ld. apply triple_bind_ret_l.
        apply triple_bind_assoc. ld. apply triple_bind_ret_l. fin. reflexivity.
    Qed.
  End Euclid.
End Skel2.

(** * Correctly rounded operations when nothing overflows *)
Section Ops.
  Context {prec emax : Z} {Hp : FLX.Prec_gt_0 prec} {He : Prec_lt_emax prec emax}.
  Notation bf := (binary_float prec emax).
  Notation emin := (SpecFloat.emin prec emax).
  Notation rnd := (RoundErr.rnd prec emin).
  Notation fin x := (is_finite x = true).
  Local Open Scope R_scope.

  Lemma format_B2R (x : bf) : generic_format radix2 (FLT_exp emin prec) (B2R x).
  Proof. apply (generic_format_B2R prec emax x). Qed.

  Lemma f_add_correct (x y : bf) : fin x -> fin y -> Rabs (rnd (B2R x + B2R y)) < bpow radix2 emax ->
    B2R (f_add x y) = rnd (B2R x + B2R y) /\ fin (f_add x y).
  Proof.
    intros Fx Fy Hlt. pose proof (@Bplus_correct prec emax Hp He mode_NE x y Fx Fy) as H.
    change (round radix2 (SpecFloat.fexp prec emax) (round_mode mode_NE) (B2R x + B2R y))
      with (rnd (B2R x + B2R y)) in H.
    rewrite Rlt_bool_true in H by exact Hlt. unfold f_add. tauto.
  Qed.

  Lemma f_sub_correct (x y : bf) : fin x -> fin y -> Rabs (rnd (B2R x - B2R y)) < bpow radix2 emax ->
    B2R (f_sub x y) = rnd (B2R x - B2R y) /\ fin (f_sub x y).
  Proof.
    intros Fx Fy Hlt. pose proof (@Bminus_correct prec emax Hp He mode_NE x y Fx Fy) as H.
    change (round radix2 (SpecFloat.fexp prec emax) (round_mode mode_NE) (B2R x - B2R y))
      with (rnd (B2R x - B2R y)) in H.
    rewrite Rlt_bool_true in H by exact Hlt. unfold f_sub. tauto.
  Qed.

  Lemma f_mul_correct (x y : bf) : fin x -> fin y -> Rabs (rnd (B2R x * B2R y)) < bpow radix2 emax ->
    B2R (f_mul x y) = rnd (B2R x * B2R y) /\ fin (f_mul x y).
  Proof.
    intros Fx Fy Hlt. pose proof (@Bmult_correct prec emax Hp He mode_NE x y) as H.
    change (round radix2 (SpecFloat.fexp prec emax) (round_mode mode_NE) (B2R x * B2R y))
      with (rnd (B2R x * B2R y)) in H.
    rewrite Rlt_bool_true in H by exact Hlt. unfold f_mul. destruct H as (H1 & H2 & _).
    split; [exact H1|]. rewrite H2, Fx, Fy. reflexivity.
  Qed.

  Lemma f_fma_correct (x y z : bf) : fin x -> fin y -> fin z ->
    Rabs (rnd (B2R x * B2R y + B2R z)) < bpow radix2 emax ->
    B2R (f_fma x y z) = rnd (B2R x * B2R y + B2R z) /\ fin (f_fma x y z).
  Proof.
    intros Fx Fy Fz Hlt. pose proof (@Bfma_correct prec emax Hp He mode_NE x y z Fx Fy Fz) as H.
    cbv zeta in H.
    change (round radix2 (SpecFloat.fexp prec emax) (round_mode mode_NE) (B2R x * B2R y + B2R z))
      with (rnd (B2R x * B2R y + B2R z)) in H.
    rewrite Rlt_bool_true in H by exact Hlt. unfold f_fma. tauto.
  Qed.

  Lemma emin_le_0 : (emin <= 0)%Z.
  Proof. unfold SpecFloat.emin. pose proof Hp. pose proof He. unfold FLX.Prec_gt_0, Prec_lt_emax in *. lia. Qed.

  Lemma one_lt_emax : 1 < bpow radix2 emax.
  Proof.
    change 1 with (bpow radix2 0). apply bpow_lt. pose proof Hp. pose proof He.
    unfold FLX.Prec_gt_0, Prec_lt_emax in *. lia.
  Qed.

  Lemma format_one : generic_format radix2 (FLT_exp emin prec) 1.
  Proof.
    change 1 with (bpow radix2 0). apply generic_format_bpow. unfold FLT_exp.
    pose proof emin_le_0. pose proof Hp. unfold FLX.Prec_gt_0 in *. lia.
  Qed.
End Ops.

(** * Instance A: the a-priori bound *)
Section Bound.
  Context {prec emax : Z} {Hp : FLX.Prec_gt_0 prec} {He : Prec_lt_emax prec emax}.
  Notation bf := (binary_float prec emax).
  Notation emin := (SpecFloat.emin prec emax).
  Notation rnd := (RoundErr.rnd prec emin).
  Notation u := (RoundErr.u prec).
  Notation RApx := (RoundErr.RApx prec).
  Notation RApxD := (RoundErr.RApxD prec).
  Notation nosub := (RoundErr.nosub prec emin).
  Notation gamma := (RoundErr.gamma prec).
  Notation fin x := (is_finite x = true).
  Notation real := Rdefinitions.R.
  Local Open Scope R_scope.

  Variable dims : nat.
  Variable Atot : real.
  (* the input-scaling hypothesis: no partial sum can overflow *)
  Hypothesis H2 : (1 + u) ^ (dims + 3) * Atot < bpow radix2 emax.

  Definition ApxB (x : bf) (g : gh) : Prop := fin x /\ RApx (B2R x) (gc g) (gS g) (gA g).
  Notation BndB := (Bnd dims Atot).
  Definition mkt (t : real) : gh := mkg 1 t (Rabs t).

  Lemma no_ovf v c S A : RApx v c S A -> (c <= dims)%nat -> A <= Atot -> Rabs v < bpow radix2 emax.
  Proof.
    intros H Hc HA. eapply Rle_lt_trans; [apply (RApx_abs prec v c S A H)|].
    eapply Rle_lt_trans; [|exact H2].
    pose proof (RApx_A_nonneg prec _ _ _ _ H) as PA.
    pose proof (pow1u_mono prec (c + 2) (dims + 3) ltac:(lia)) as Hm.
    pose proof (pow1u_ge1 prec (c + 2)) as G.
    apply Rmult_le_compat; lra.
  Qed.

  Lemma ApxB_pos x g : ApxB x g -> gpos g.
  Proof. intros [_ H]. exact (RApx_A_nonneg prec _ _ _ _ H). Qed.

  Lemma ApxB_zero : ApxB f_zero gzero.
  Proof. split; [reflexivity|]. cbn [f_zero B2R gzero gc gS gA]. apply RApx_zero. Qed.

  Lemma ApxB_add x y g g' : ApxB x g -> ApxB y g' -> BndB (gadd g g') -> ApxB (f_add x y) (gadd g g').
  Proof.
    intros [Fx Hx] [Fy Hy] [Bc BA]. cbn [gadd gc gA] in Bc, BA.
    pose proof (RApx_add prec emin _ _ _ _ _ _ _ _ (format_B2R x) (format_B2R y) Hx Hy) as Hr.
    destruct (f_add_correct x y Fx Fy (no_ovf _ _ _ _ Hr Bc BA)) as [E F].
    split; [exact F|]. rewrite E. exact Hr.
  Qed.

  Ltac bb := unfold Bnd, gpos, gadd, mkt in *; cbn [gc gS gA] in *;
             repeat match goal with H : _ /\ _ |- _ => destruct H end; try split; try lia; try lra.

  (* a product enters *)
  Lemma mul_okB x y t : fin x -> fin y -> nosub (B2R x * B2R y) -> RApxD (B2R x * B2R y) 2 t (Rabs t) ->
    BndB (mkt t) -> ApxB (f_mul x y) (mkt t).
  Proof.
    intros Fx Fy Hn He' [Bc BA]. cbn [mkt gc gA] in Bc, BA.
    pose proof (RApx_enter_round prec emin _ _ Hn He') as Hr.
    destruct (f_mul_correct x y Fx Fy (no_ovf _ _ _ _ Hr Bc BA)) as [E F].
    split; [exact F|]. rewrite E. exact Hr.
  Qed.

  Lemma fm_okB fused x y z g t :
    fin x -> fin y -> nosub (B2R x * B2R y) -> RApxD (B2R x * B2R y) 2 t (Rabs t) ->
    ApxB z g -> BndB (gadd g (mkt t)) -> ApxB (fm fused x y z) (gadd g (mkt t)).
  Proof.
    intros Fx Fy Hn He' Hz HB. pose proof (ApxB_pos _ _ Hz) as Pz.
    unfold fm. destruct fused.
    - destruct Hz as [Fz Hz]. destruct HB as [Bc BA]. cbn [gadd mkt gc gA] in Bc, BA.
      pose proof (RApx_fma prec emin _ _ _ _ _ _ Hn He' (format_B2R z) Hz) as Hr.
      destruct (f_fma_correct x y z Fx Fy Fz (no_ovf _ _ _ _ Hr Bc BA)) as [E F].
      split; [exact F|]. rewrite E. exact Hr.
    - rewrite gadd_comm. apply ApxB_add; [|exact Hz | rewrite gadd_comm; exact HB].
      apply mul_okB; try assumption. pose proof (Rabs_pos t). bb.
  Qed.

  Lemma smul_okB x y z g t :
    fin x -> fin y -> nosub (B2R x * B2R y) -> RApxD (B2R x * B2R y) 2 t (Rabs t) ->
    ApxB z g -> BndB (gadd g (mkt t)) -> ApxB (f_add z (f_mul x y)) (gadd g (mkt t)).
  Proof.
    intros Fx Fy Hn He' Hz HB. pose proof (ApxB_pos _ _ Hz) as Pz.
    apply ApxB_add; [exact Hz | | exact HB].
    apply mul_okB; try assumption. pose proof (Rabs_pos t). bb.
  Qed.

  (* an element enters (sum) *)
  Lemma elem_okB x : fin x -> ApxB x (mkt (B2R x)).
  Proof. intros Fx. split; [exact Fx|]. cbn [mkt gc gS gA]. apply RApx_enter_exact. Qed.

  (* the rounded difference of two elements (squared Euclidean distance) *)
  Lemma sub_okB x y : fin x -> fin y -> BndB (mkt ((B2R x - B2R y) * (B2R x - B2R y))) ->
    fin (f_sub x y) /\ B2R (f_sub x y) = rnd (B2R x - B2R y) /\
    RApxD (B2R (f_sub x y) * B2R (f_sub x y)) 2
          ((B2R x - B2R y) * (B2R x - B2R y)) (Rabs ((B2R x - B2R y) * (B2R x - B2R y))).
  Proof.
    intros Fx Fy [Bc BA]. cbn [mkt gc gA] in Bc, BA.
    set (s := B2R x - B2R y) in *.
    assert (Err : Rabs (rnd s - s) <= u * Rabs s).
    { unfold s, Rminus. apply (rnd_plus_err prec emin); [apply format_B2R|].
      apply generic_format_opp, format_B2R. }
    assert (Hlt : Rabs (rnd s) < bpow radix2 emax).
    { destruct (Rle_or_lt (Rabs s) 1) as [Hs|Hs].
      - eapply Rle_lt_trans; [|apply one_lt_emax].
        unfold RoundErr.rnd. apply abs_round_le_generic; [apply FLT_exp_valid; exact Hp | apply valid_rnd_N | apply format_one | exact Hs].
      - assert (Hss : Rabs s <= Atot).
        { eapply Rle_trans; [|exact BA]. rewrite Rabs_mult. pose proof (Rabs_pos s). nra. }
        assert (Hr : Rabs (rnd s) <= (1 + u) * Rabs s).
        { replace (rnd s) with (s + (rnd s - s)) by ring. eapply Rle_trans; [apply Rabs_triang|]. lra. }
        eapply Rle_lt_trans; [exact Hr|]. eapply Rle_lt_trans; [|exact H2].
        pose proof (RoundErr.u_pos prec) as Hu.
        pose proof (pow1u_mono prec 1 (dims + 3) ltac:(lia)) as Hm. rewrite pow_1 in Hm.
        pose proof (Rabs_pos s). apply Rmult_le_compat; lra. }
    destruct (f_sub_correct x y Fx Fy Hlt) as [E F].
    split; [exact F|]. split; [exact E|]. rewrite E. apply RApxD_square. exact Err.
  Qed.

  Definition sq (x y : bf) : real := (B2R x - B2R y) * (B2R x - B2R y).
  Definition dsq (x y : bf) : real := rnd (B2R x - B2R y) * rnd (B2R x - B2R y).

  Lemma efm_okB fused x y z g :
    fin x -> fin y -> nosub (dsq x y) -> ApxB z g -> BndB (gadd g (mkt (sq x y))) ->
    ApxB (fm fused (f_sub x y) (f_sub x y) z) (gadd g (mkt (sq x y))).
  Proof.
    intros Fx Fy Hn Hz HB. pose proof (ApxB_pos _ _ Hz) as Pz.
    assert (Bt : BndB (mkt (sq x y))) by (pose proof (Rabs_pos (sq x y)); bb).
    destruct (sub_okB x y Fx Fy Bt) as (Fd & Ed & Hd).
    apply fm_okB; try assumption. rewrite Ed. exact Hn.
  Qed.

  Lemma esmul_okB x y z g :
    fin x -> fin y -> nosub (dsq x y) -> ApxB z g -> BndB (gadd g (mkt (sq x y))) ->
    ApxB (f_add z (f_mul (f_sub x y) (f_sub x y))) (gadd g (mkt (sq x y))).
  Proof.
    intros Fx Fy Hn Hz HB. pose proof (ApxB_pos _ _ Hz) as Pz.
    assert (Bt : BndB (mkt (sq x y))) by (pose proof (Rabs_pos (sq x y)); bb).
    destruct (sub_okB x y Fx Fy Bt) as (Fd & Ed & Hd).
    apply smul_okB; try assumption. rewrite Ed. exact Hn.
  Qed.

  (* totals of a list of single-term ghosts *)
  Lemma gsum_mkt (term : bf -> bf -> real) a b :
    gsum (map2 (fun x y => mkt (term x y)) a b)
    = mkg (length (map2 term a b)) (Rsum (map2 term a b)) (Rsum (map2 (fun x y => Rabs (term x y)) a b)).
  Proof.
    revert b. induction a as [|x a IH]; intros [|y b]; try reflexivity.
    cbn [map2]. rewrite gsum_cons, IH. reflexivity.
  Qed.

  Lemma mkt_pos t : gpos (mkt t).
  Proof. unfold gpos, mkt. cbn [gA]. apply Rabs_pos. Qed.

  (* from the final ghost to the statement *)
  Lemma finishB (term : bf -> bf -> real) a b r :
    length a = dims -> length b = dims -> INR (dims + 3) * u < 1 ->
    ApxB r (gsum (map2 (fun x y => mkt (term x y)) a b)) ->
    fin r /\ Rabs (B2R r - Rsum (map2 term a b))
             <= gamma (dims + 3) * Rsum (map2 (fun x y => Rabs (term x y)) a b).
  Proof.
    intros La Lb H3 [F H]. split; [exact F|]. rewrite gsum_mkt in H. cbn [gc gS gA] in H.
    rewrite map2_length, La, Lb, Nat.min_id in H. apply (RApx_final prec _ _ _ _ H H3).
  Qed.

  Lemma BndB_total (term : bf -> bf -> real) a b :
    length a = dims -> length b = dims -> Rsum (map2 (fun x y => Rabs (term x y)) a b) <= Atot ->
    BndB (gsum (map2 (fun x y => mkt (term x y)) a b)).
  Proof.
    intros La Lb HA. rewrite gsum_mkt. split; cbn [gc gA]; [|exact HA].
    rewrite map2_length, La, Lb, Nat.min_id. lia.
  Qed.
End Bound.

Lemma map2_diag {A B} (f : A -> A -> B) a : map2 f a a = map (fun x => f x x) a.
Proof. induction a as [|x a IH]; [reflexivity|]. cbn [map2 map]. rewrite IH. reflexivity. Qed.

Lemma Forall2_and3 {A B} (P : A -> Prop) (Q : B -> Prop) (Rl : A -> B -> Prop) a b :
  Forall P a -> Forall Q b -> Forall2 Rl a b -> Forall2 (fun x y => P x /\ Q y /\ Rl x y) a b.
Proof.
  intros Fa Fb F. revert Fa Fb. induction F as [|x y a b Hxy F IH]; intros Fa Fb; [constructor|].
  inversion Fa; subst. inversion Fb; subst. constructor; auto.
Qed.

Lemma Forall2_diag_and {A} (P : A -> Prop) (Q : A -> Prop) a :
  Forall P a -> Forall Q a -> Forall2 (fun x y => P x /\ P y /\ y = x /\ Q x) a a.
Proof.
  intros Fa Fq. induction a as [|x a IH]; [constructor|].
  inversion Fa; subst. inversion Fq; subst. constructor; auto.
Qed.

(** * C04_bound: the four reductions *)
Section BoundThm.
  Context {prec emax : Z} {Hp : FLX.Prec_gt_0 prec} {He : Prec_lt_emax prec emax}.
  Notation bf := (binary_float prec emax).
  Notation emin := (SpecFloat.emin prec emax).
  Notation rnd := (RoundErr.rnd prec emin).
  Notation u := (RoundErr.u prec).
  Notation nosub := (RoundErr.nosub prec emin).
  Notation gamma := (RoundErr.gamma prec).
  Notation fin x := (is_finite x = true).
  Notation Mth := (@float_math prec emax Hp He).
  Local Open Scope R_scope.

  Variable Rg : SimdOps bf.
  Variables (vmax vmin : bf -> bf -> bf) (fused : bool).
  Hypothesis FL : FloatLanewise Rg vmax vmin fused.
  Variables a b res : list bf.
  Variable dims : nat.
  Hypothesis Ha : length a = dims.
  Hypothesis Fa : Forall (fun x => fin x) a.
  Hypothesis H3 : INR (dims + 3) * u < 1.

  Lemma RApxD_id2 t : RoundErr.RApxD prec t 2 t (Rabs t).
  Proof. apply RApxD_mono with (d := 0%nat); [apply RApxD_id | lia]. Qed.

  (** ** dot product: terms a_j * b_j *)
  Theorem dot_bound :
    length b = dims -> Forall (fun x => fin x) b ->
    Forall2 (fun x y => nosub (B2R x * B2R y)) a b ->
    (1 + u) ^ (dims + 3) * Rsum (map2 (fun x y => Rabs (B2R x * B2R y)) a b) < bpow radix2 emax ->
    match generic_dot_product Rg Mth dims (init_mem a b res) with
    | Ok r m => run_ok (init_mem a b res) m /\ fin r /\
                Rabs (B2R r - Rsum (map2 (fun x y => B2R x * B2R y) a b))
                <= gamma (dims + 3) * Rsum (map2 (fun x y => Rabs (B2R x * B2R y)) a b)
    | _ => False
    end.
  Proof.
    intros Hb Fb H1 H2.
    set (Atot := Rsum (map2 (fun x y => Rabs (B2R x * B2R y)) a b)) in *.
    pose proof (dot_skel Rg vmax vmin fused FL ApxB dims Atot ApxB_pos ApxB_zero (ApxB_add dims Atot H2)
                  a b res dims Ha (fun x y => mkt (B2R x * B2R y))
                  (fun x y => fin x /\ fin y /\ nosub (B2R x * B2R y))) as K.
    match type of K with ?P1 -> ?P2 -> ?P3 -> ?P4 -> ?P5 -> _ =>
      assert (Q1 : P1); [|assert (Q2 : P2); [|assert (Q3 : P3); [|assert (Q4 : P4); [|assert (Q5 : P5)]]]] end.
    - intros x y _. apply mkt_pos.
    - intros x y z g (Fx & Fy & Hn) Hz HB. apply (fm_okB dims Atot H2); try assumption. apply RApxD_id2.
    - intros x y z g (Fx & Fy & Hn) Hz HB. apply (smul_okB dims Atot H2); try assumption. apply RApxD_id2.
    - apply Forall2_and3; assumption.
    - apply (BndB_total dims Atot (fun x y => B2R x * B2R y)); try assumption. unfold Atot. lra.
    - specialize (K Q1 Q2 Q3 Q4 Q5).
      destruct (generic_dot_product Rg Mth dims (init_mem a b res)) as [r m| | |]; try contradiction.
      destruct K as [K1 K2]. split; [exact K1|].
      apply (finishB dims (fun x y => B2R x * B2R y) a b r Ha Hb H3 K2).
  Qed.

  (** ** squared norm: terms a_j^2 *)
  Theorem norm_bound :
    Forall (fun x => nosub (B2R x * B2R x)) a ->
    (1 + u) ^ (dims + 3) * Rsum (map (fun x => Rabs (B2R x * B2R x)) a) < bpow radix2 emax ->
    match generic_squared_norm Rg Mth dims (init_mem a b res) with
    | Ok r m => run_ok (init_mem a b res) m /\ fin r /\
                Rabs (B2R r - Rsum (map (fun x => B2R x * B2R x) a))
                <= gamma (dims + 3) * Rsum (map (fun x => Rabs (B2R x * B2R x)) a)
    | _ => False
    end.
  Proof.
    intros H1 H2.
    rewrite <- (map2_diag (fun x y => Rabs (B2R x * B2R y)) a) in *.
    rewrite <- (map2_diag (fun x y => B2R x * B2R y) a).
    set (Atot := Rsum (map2 (fun x y => Rabs (B2R x * B2R y)) a a)) in *.
    pose proof (norm_skel Rg vmax vmin fused FL ApxB dims Atot ApxB_pos ApxB_zero (ApxB_add dims Atot H2)
                  a b res dims Ha (fun x y => mkt (B2R x * B2R y))
                  (fun x y => fin x /\ fin y /\ nosub (B2R x * B2R y))) as K.
    match type of K with ?P1 -> ?P2 -> ?P3 -> ?P4 -> ?P5 -> _ =>
      assert (Q1 : P1); [|assert (Q2 : P2); [|assert (Q3 : P3); [|assert (Q4 : P4); [|assert (Q5 : P5)]]]] end.
    - intros x y _. apply mkt_pos.
    - intros x y z g (Fx & Fy & Hn) Hz HB. apply (fm_okB dims Atot H2); try assumption. apply RApxD_id2.
    - intros x y z g (Fx & Fy & Hn) Hz HB. apply (smul_okB dims Atot H2); try assumption. apply RApxD_id2.
    - apply Forall2_diag. clear -Fa H1. induction a as [|x l IH]; [constructor|].
      inversion Fa; subst. inversion H1; subst. constructor; auto.
    - apply (BndB_total dims Atot (fun x y => B2R x * B2R y)); try assumption. unfold Atot. lra.
    - specialize (K Q1 Q2 Q3 Q4 Q5).
      destruct (generic_squared_norm Rg Mth dims (init_mem a b res)) as [r m| | |]; try contradiction.
      destruct K as [K1 K2]. split; [exact K1|].
      apply (finishB dims (fun x y => B2R x * B2R y) a a r Ha Ha H3 K2).
  Qed.

  (** ** horizontal sum: terms a_j *)
  Theorem sum_bound :
    (1 + u) ^ (dims + 3) * Rsum (map (fun x => Rabs (B2R x)) a) < bpow radix2 emax ->
    match generic_sum Rg Mth dims (init_mem a b res) with
    | Ok r m => run_ok (init_mem a b res) m /\ fin r /\
                Rabs (B2R r - Rsum (map (fun x => B2R x) a))
                <= gamma (dims + 3) * Rsum (map (fun x => Rabs (B2R x)) a)
    | _ => False
    end.
  Proof.
    intros H2.
    rewrite <- (map2_diag (fun x _ => Rabs (B2R x)) a) in *.
    rewrite <- (map2_diag (fun x _ => B2R x) a).
    set (Atot := Rsum (map2 (fun x _ => Rabs (B2R x)) a a)) in *.
    pose proof (sum_skel Rg vmax vmin fused FL ApxB dims Atot ApxB_pos ApxB_zero (ApxB_add dims Atot H2)
                  a b res dims Ha (fun x _ => mkt (B2R x)) (fun x _ => fin x)) as K.
    match type of K with ?P1 -> ?P2 -> ?P3 -> ?P4 -> _ =>
      assert (Q1 : P1); [|assert (Q2 : P2); [|assert (Q3 : P3); [|assert (Q4 : P4)]]] end.
    - intros x y _. apply mkt_pos.
    - intros x y z g Fx Hz HB. apply (ApxB_add dims Atot H2); [exact Hz | apply elem_okB; exact Fx | exact HB].
    - apply Forall2_diag. exact Fa.
    - apply (BndB_total dims Atot (fun x _ => B2R x)); try assumption. unfold Atot. lra.
    - specialize (K Q1 Q2 Q3 Q4).
      destruct (generic_sum Rg Mth dims (init_mem a b res)) as [r m| | |]; try contradiction.
      destruct K as [K1 K2]. split; [exact K1|].
      apply (finishB dims (fun x _ => B2R x) a a r Ha Ha H3 K2).
  Qed.

  (** ** squared Euclidean distance: terms (a_j - b_j)^2; the computed product is rnd(a_j - b_j)^2 *)
  Theorem euclid_bound :
    length b = dims -> Forall (fun x => fin x) b ->
    Forall2 (fun x y => nosub (dsq x y)) a b ->
    (1 + u) ^ (dims + 3) * Rsum (map2 (fun x y => Rabs (sq x y)) a b) < bpow radix2 emax ->
    match generic_euclidean Rg Mth dims (init_mem a b res) with
    | Ok r m => run_ok (init_mem a b res) m /\ fin r /\
                Rabs (B2R r - Rsum (map2 sq a b)) <= gamma (dims + 3) * Rsum (map2 (fun x y => Rabs (sq x y)) a b)
    | _ => False
    end.
  Proof.
    intros Hb Fb H1 H2.
    set (Atot := Rsum (map2 (fun x y => Rabs (sq x y)) a b)) in *.
    pose proof (euclid_skel Rg vmax vmin fused FL ApxB dims Atot ApxB_pos ApxB_zero (ApxB_add dims Atot H2)
                  a b res dims Ha (fun x y => mkt (sq x y))
                  (fun x y => fin x /\ fin y /\ nosub (dsq x y))) as K.
    match type of K with ?P1 -> ?P2 -> ?P3 -> ?P4 -> ?P5 -> _ =>
      assert (Q1 : P1); [|assert (Q2 : P2); [|assert (Q3 : P3); [|assert (Q4 : P4); [|assert (Q5 : P5)]]]] end.
    - intros x y _. apply mkt_pos.
    - intros x y z g (Fx & Fy & Hn) Hz HB. apply (efm_okB dims Atot H2); assumption.
    - intros x y z g (Fx & Fy & Hn) Hz HB. apply (esmul_okB dims Atot H2); assumption.
    - apply Forall2_and3; assumption.
    - apply (BndB_total dims Atot sq); try assumption. unfold Atot. lra.
    - specialize (K Q1 Q2 Q3 Q4 Q5).
      destruct (generic_euclidean Rg Mth dims (init_mem a b res)) as [r m| | |]; try contradiction.
      destruct K as [K1 K2]. split; [exact K1|].
      apply (finishB dims sq a b r Ha Hb H3 K2).
  Qed.
End BoundThm.

(** * Instance B: exactness when every term is a multiple of 2^e and the absolute sum is at most 2^(e+prec) *)
Section Exact.
  Context {prec emax : Z} {Hp : FLX.Prec_gt_0 prec} {He : Prec_lt_emax prec emax}.
  Notation bf := (binary_float prec emax).
  Notation emin := (SpecFloat.emin prec emax).
  Notation rnd := (RoundErr.rnd prec emin).
  Notation fin x := (is_finite x = true).
  Notation real := Rdefinitions.R.
  Local Open Scope R_scope.

  Variable e : Z.
  Hypothesis He_min : (emin <= e)%Z.
  Variable dims : nat.
  Variable Atot : real.
  Hypothesis HA1 : Atot <= bpow radix2 (e + prec).
  Hypothesis HA2 : Atot < bpow radix2 emax.

  Definition mult_e (t : real) : Prop := exists K : Z, t = IZR K * bpow radix2 e.
  Definition ApxE (x : bf) (g : gh) : Prop :=
    fin x /\ B2R x = gS g /\ Rabs (gS g) <= gA g /\ mult_e (gS g).
  Notation BndE := (Bnd dims Atot).

  Lemma mult_e_0 : mult_e 0.
  Proof. exists 0%Z. lra. Qed.
  Lemma mult_e_plus s t : mult_e s -> mult_e t -> mult_e (s + t).
  Proof. intros [K ->] [K' ->]. exists (K + K')%Z. rewrite plus_IZR. ring. Qed.

  (* a multiple within the budget is representable, and rounding it is the identity *)
  Lemma exact_ok t : mult_e t -> Rabs t <= Atot -> rnd t = t /\ Rabs t < bpow radix2 emax.
  Proof.
    intros [K ->] Hb. split; [|lra].
    apply rnd_format. apply (format_mult prec emin e K He_min). lra.
  Qed.

  Lemma ApxE_pos x g : ApxE x g -> gpos g.
  Proof. intros (_ & _ & H & _). unfold gpos. pose proof (Rabs_pos (gS g)). lra. Qed.

  Lemma ApxE_zero : ApxE f_zero gzero.
  Proof.
    split; [reflexivity|]. cbn [f_zero B2R gzero gS gA]. split; [reflexivity|].
    split; [rewrite Rabs_R0; lra | apply mult_e_0].
  Qed.

  Lemma ApxE_add x y g g' : ApxE x g -> ApxE y g' -> BndE (gadd g g') -> ApxE (f_add x y) (gadd g g').
  Proof.
    intros (Fx & Ex & Bx & Mx) (Fy & Ey & By & My) [Bc BA]. cbn [gadd gc gA] in Bc, BA.
    assert (Bs : Rabs (gS g + gS g') <= gA g + gA g') by (eapply Rle_trans; [apply Rabs_triang | lra]).
    destruct (exact_ok (gS g + gS g') (mult_e_plus _ _ Mx My) ltac:(lra)) as [Er Hlt].
    rewrite <- Ex, <- Ey in Er, Hlt.
    destruct (f_add_correct x y Fx Fy ltac:(rewrite Er; exact Hlt)) as [E F].
    split; [exact F|]. cbn [gadd gS gA]. split; [rewrite E, Er, Ex, Ey; reflexivity|].
    split; [exact Bs | apply mult_e_plus; assumption].
  Qed.

  Ltac be := unfold Bnd, gpos, gadd, mkt in *; cbn [gc gS gA] in *;
             repeat match goal with H : _ /\ _ |- _ => destruct H end; try split; try lia; try lra.

  Lemma mul_okE x y t : fin x -> fin y -> B2R x * B2R y = t -> mult_e t -> BndE (mkt t) -> ApxE (f_mul x y) (mkt t).
  Proof.
    intros Fx Fy Et Mt [Bc BA]. cbn [mkt gc gA] in Bc, BA.
    destruct (exact_ok t Mt BA) as [Er Hlt]. rewrite <- Et in Er, Hlt.
    destruct (f_mul_correct x y Fx Fy ltac:(rewrite Er; exact Hlt)) as [E F].
    split; [exact F|]. cbn [mkt gS gA]. split; [rewrite E, Er; exact Et|]. split; [lra | exact Mt].
  Qed.

  Lemma fm_okE fused x y z g t :
    fin x -> fin y -> B2R x * B2R y = t -> mult_e t -> ApxE z g -> BndE (gadd g (mkt t)) ->
    ApxE (fm fused x y z) (gadd g (mkt t)).
  Proof.
    intros Fx Fy Et Mt Hz HB. pose proof (ApxE_pos _ _ Hz) as Pz.
    unfold fm. destruct fused.
    - destruct Hz as (Fz & Ez & Bz & Mz). destruct HB as [Bc BA]. cbn [gadd mkt gc gA] in Bc, BA.
      assert (Bs : Rabs (gS g + t) <= gA g + Rabs t) by (eapply Rle_trans; [apply Rabs_triang | lra]).
      destruct (exact_ok (gS g + t) (mult_e_plus _ _ Mz Mt) ltac:(lra)) as [Er Hlt].
      assert (Eq : B2R x * B2R y + B2R z = gS g + t) by (rewrite Et, Ez; ring).
      rewrite <- Eq in Er, Hlt.
      destruct (f_fma_correct x y z Fx Fy Fz ltac:(rewrite Er; exact Hlt)) as [E F].
      split; [exact F|]. cbn [gadd mkt gS gA]. split; [rewrite E, Er; exact Eq|].
      split; [exact Bs | apply mult_e_plus; assumption].
    - rewrite gadd_comm. apply ApxE_add; [|exact Hz | rewrite gadd_comm; exact HB].
      apply mul_okE; try assumption. pose proof (Rabs_pos t). be.
  Qed.

  Lemma smul_okE x y z g t :
    fin x -> fin y -> B2R x * B2R y = t -> mult_e t -> ApxE z g -> BndE (gadd g (mkt t)) ->
    ApxE (f_add z (f_mul x y)) (gadd g (mkt t)).
  Proof.
    intros Fx Fy Et Mt Hz HB. pose proof (ApxE_pos _ _ Hz) as Pz.
    apply ApxE_add; [exact Hz | | exact HB].
    apply mul_okE; try assumption. pose proof (Rabs_pos t). be.
  Qed.

  Lemma elem_okE x : fin x -> mult_e (B2R x) -> ApxE x (mkt (B2R x)).
  Proof. intros Fx Mx. split; [exact Fx|]. cbn [mkt gS gA]. split; [reflexivity|]. split; [lra | exact Mx]. Qed.

  (* an exactly representable difference *)
  Lemma sub_okE x y : fin x -> fin y ->
    generic_format radix2 (FLT_exp emin prec) (B2R x - B2R y) -> BndE (mkt (sq x y)) ->
    fin (f_sub x y) /\ B2R (f_sub x y) = B2R x - B2R y.
  Proof.
    intros Fx Fy Fmt [Bc BA]. cbn [mkt gc gA] in Bc, BA. unfold sq in BA.
    set (s := B2R x - B2R y) in *.
    assert (Er : rnd s = s) by (apply rnd_format; exact Fmt).
    assert (Hlt : Rabs (rnd s) < bpow radix2 emax).
    { rewrite Er. destruct (Rle_or_lt (Rabs s) 1) as [Hs|Hs].
      - eapply Rle_lt_trans; [exact Hs | apply one_lt_emax].
      - eapply Rle_lt_trans; [|exact HA2]. eapply Rle_trans; [|exact BA].
        rewrite Rabs_mult. pose proof (Rabs_pos s). nra. }
    destruct (f_sub_correct x y Fx Fy Hlt) as [E F]. split; [exact F|]. rewrite E. exact Er.
  Qed.

  Lemma efm_okE fused x y z g :
    fin x -> fin y -> generic_format radix2 (FLT_exp emin prec) (B2R x - B2R y) -> mult_e (sq x y) ->
    ApxE z g -> BndE (gadd g (mkt (sq x y))) ->
    ApxE (fm fused (f_sub x y) (f_sub x y) z) (gadd g (mkt (sq x y))).
  Proof.
    intros Fx Fy Fmt Mt Hz HB. pose proof (ApxE_pos _ _ Hz) as Pz.
    assert (Bt : BndE (mkt (sq x y))) by (pose proof (Rabs_pos (sq x y)); be).
    destruct (sub_okE x y Fx Fy Fmt Bt) as (Fd & Ed).
    apply fm_okE; try assumption. rewrite Ed. reflexivity.
  Qed.

  Lemma esmul_okE x y z g :
    fin x -> fin y -> generic_format radix2 (FLT_exp emin prec) (B2R x - B2R y) -> mult_e (sq x y) ->
    ApxE z g -> BndE (gadd g (mkt (sq x y))) ->
    ApxE (f_add z (f_mul (f_sub x y) (f_sub x y))) (gadd g (mkt (sq x y))).
  Proof.
    intros Fx Fy Fmt Mt Hz HB. pose proof (ApxE_pos _ _ Hz) as Pz.
    assert (Bt : BndE (mkt (sq x y))) by (pose proof (Rabs_pos (sq x y)); be).
    destruct (sub_okE x y Fx Fy Fmt Bt) as (Fd & Ed).
    apply smul_okE; try assumption. rewrite Ed. reflexivity.
  Qed.

  Lemma finishE (term : bf -> bf -> real) a b r :
    ApxE r (gsum (map2 (fun x y => mkt (term x y)) a b)) -> fin r /\ B2R r = Rsum (map2 term a b).
  Proof. intros (F & E & _). split; [exact F|]. rewrite gsum_mkt in E. exact E. Qed.
End Exact.

Lemma Forall2_diag_of {A} (P : A -> Prop) a : Forall P a -> Forall2 (fun x _ => P x) a a.
Proof. induction 1; constructor; auto. Qed.

Lemma Forall_and {A} (P Q : A -> Prop) a : Forall P a -> Forall Q a -> Forall (fun x => P x /\ Q x) a.
Proof. intros H. induction H; intros HQ; inversion HQ; subst; constructor; auto. Qed.

(** * C04_exact: the four reductions *)
Section ExactThm.
  Context {prec emax : Z} {Hp : FLX.Prec_gt_0 prec} {He : Prec_lt_emax prec emax}.
  Notation bf := (binary_float prec emax).
  Notation emin := (SpecFloat.emin prec emax).
  Notation fin x := (is_finite x = true).
  Notation format := (generic_format radix2 (FLT_exp emin prec)).
  Notation Mth := (@float_math prec emax Hp He).
  Local Open Scope R_scope.

  Variable Rg : SimdOps bf.
  Variables (vmax vmin : bf -> bf -> bf) (fused : bool).
  Hypothesis FL : FloatLanewise Rg vmax vmin fused.
  Variables a b res : list bf.
  Variable dims : nat.
  Hypothesis Ha : length a = dims.
  Hypothesis Fa : Forall (fun x => fin x) a.
  Variable e : Z.
  Hypothesis He_min : (emin <= e)%Z.

  Theorem dot_exact_f :
    length b = dims -> Forall (fun x => fin x) b ->
    Forall2 (fun x y => mult_e e (B2R x * B2R y)) a b ->
    Rsum (map2 (fun x y => Rabs (B2R x * B2R y)) a b) <= bpow radix2 (e + prec) ->
    Rsum (map2 (fun x y => Rabs (B2R x * B2R y)) a b) < bpow radix2 emax ->
    match generic_dot_product Rg Mth dims (init_mem a b res) with
    | Ok r m => run_ok (init_mem a b res) m /\ fin r /\ B2R r = Rsum (map2 (fun x y => B2R x * B2R y) a b)
    | _ => False
    end.
  Proof.
    intros Hb Fb H1 HA1 HA2.
    set (Atot := Rsum (map2 (fun x y => Rabs (B2R x * B2R y)) a b)) in *.
    pose proof (dot_skel Rg vmax vmin fused FL (ApxE e) dims Atot (ApxE_pos e) (ApxE_zero e)
                  (ApxE_add e He_min dims Atot HA1 HA2)
                  a b res dims Ha (fun x y => mkt (B2R x * B2R y))
                  (fun x y => fin x /\ fin y /\ mult_e e (B2R x * B2R y))) as K.
    match type of K with ?P1 -> ?P2 -> ?P3 -> ?P4 -> ?P5 -> _ =>
      assert (Q1 : P1); [|assert (Q2 : P2); [|assert (Q3 : P3); [|assert (Q4 : P4); [|assert (Q5 : P5)]]]] end.
    - intros x y _. apply mkt_pos.
    - intros x y z g (Fx & Fy & Hn) Hz HB. apply (fm_okE e He_min dims Atot HA1 HA2); auto.
    - intros x y z g (Fx & Fy & Hn) Hz HB. apply (smul_okE e He_min dims Atot HA1 HA2); auto.
    - apply Forall2_and3; assumption.
    - apply (BndB_total dims Atot (fun x y => B2R x * B2R y)); try assumption. unfold Atot. lra.
    - specialize (K Q1 Q2 Q3 Q4 Q5).
      destruct (generic_dot_product Rg Mth dims (init_mem a b res)) as [r m| | |]; try contradiction.
      destruct K as [K1 K2]. split; [exact K1|].
      apply (finishE e (fun x y => B2R x * B2R y) a b r K2).
  Qed.

  Theorem norm_exact_f :
    Forall (fun x => mult_e e (B2R x * B2R x)) a ->
    Rsum (map (fun x => Rabs (B2R x * B2R x)) a) <= bpow radix2 (e + prec) ->
    Rsum (map (fun x => Rabs (B2R x * B2R x)) a) < bpow radix2 emax ->
    match generic_squared_norm Rg Mth dims (init_mem a b res) with
    | Ok r m => run_ok (init_mem a b res) m /\ fin r /\ B2R r = Rsum (map (fun x => B2R x * B2R x) a)
    | _ => False
    end.
  Proof.
    intros H1 HA1 HA2.
    rewrite <- (map2_diag (fun x y => Rabs (B2R x * B2R y)) a) in *.
    rewrite <- (map2_diag (fun x y => B2R x * B2R y) a).
    set (Atot := Rsum (map2 (fun x y => Rabs (B2R x * B2R y)) a a)) in *.
    pose proof (norm_skel Rg vmax vmin fused FL (ApxE e) dims Atot (ApxE_pos e) (ApxE_zero e)
                  (ApxE_add e He_min dims Atot HA1 HA2)
                  a b res dims Ha (fun x y => mkt (B2R x * B2R y))
                  (fun x y => fin x /\ fin y /\ mult_e e (B2R x * B2R y))) as K.
    match type of K with ?P1 -> ?P2 -> ?P3 -> ?P4 -> ?P5 -> _ =>
      assert (Q1 : P1); [|assert (Q2 : P2); [|assert (Q3 : P3); [|assert (Q4 : P4); [|assert (Q5 : P5)]]]] end.
    - intros x y _. apply mkt_pos.
    - intros x y z g (Fx & Fy & Hn) Hz HB. apply (fm_okE e He_min dims Atot HA1 HA2); auto.
    - intros x y z g (Fx & Fy & Hn) Hz HB. apply (smul_okE e He_min dims Atot HA1 HA2); auto.
    - apply Forall2_diag. clear -Fa H1. induction a as [|x l IH]; [constructor|].
      inversion Fa; subst. inversion H1; subst. constructor; auto.
    - apply (BndB_total dims Atot (fun x y => B2R x * B2R y)); try assumption. unfold Atot. lra.
    - specialize (K Q1 Q2 Q3 Q4 Q5).
      destruct (generic_squared_norm Rg Mth dims (init_mem a b res)) as [r m| | |]; try contradiction.
      destruct K as [K1 K2]. split; [exact K1|].
      apply (finishE e (fun x y => B2R x * B2R y) a a r K2).
  Qed.

  Theorem sum_exact_f :
    Forall (fun x => mult_e e (B2R x)) a ->
    Rsum (map (fun x => Rabs (B2R x)) a) <= bpow radix2 (e + prec) ->
    Rsum (map (fun x => Rabs (B2R x)) a) < bpow radix2 emax ->
    match generic_sum Rg Mth dims (init_mem a b res) with
    | Ok r m => run_ok (init_mem a b res) m /\ fin r /\ B2R r = Rsum (map (fun x => B2R x) a)
    | _ => False
    end.
  Proof.
    intros H1 HA1 HA2.
    rewrite <- (map2_diag (fun x _ => Rabs (B2R x)) a) in *.
    rewrite <- (map2_diag (fun x _ => B2R x) a).
    set (Atot := Rsum (map2 (fun x _ => Rabs (B2R x)) a a)) in *.
    pose proof (sum_skel Rg vmax vmin fused FL (ApxE e) dims Atot (ApxE_pos e) (ApxE_zero e)
                  (ApxE_add e He_min dims Atot HA1 HA2)
                  a b res dims Ha (fun x _ => mkt (B2R x)) (fun x _ => fin x /\ mult_e e (B2R x))) as K.
    match type of K with ?P1 -> ?P2 -> ?P3 -> ?P4 -> _ =>
      assert (Q1 : P1); [|assert (Q2 : P2); [|assert (Q3 : P3); [|assert (Q4 : P4)]]] end.
    - intros x y _. apply mkt_pos.
    - intros x y z g [Fx Mx] Hz HB.
      apply (ApxE_add e He_min dims Atot HA1 HA2); [exact Hz | apply elem_okE; assumption | exact HB].
    - apply Forall2_diag_of. apply Forall_and; assumption.
    - apply (BndB_total dims Atot (fun x _ => B2R x)); try assumption. unfold Atot. lra.
    - specialize (K Q1 Q2 Q3 Q4).
      destruct (generic_sum Rg Mth dims (init_mem a b res)) as [r m| | |]; try contradiction.
      destruct K as [K1 K2]. split; [exact K1|].
      apply (finishE e (fun x _ => B2R x) a a r K2).
  Qed.

  (* squared Euclidean distance: the differences themselves must be representable *)
  Theorem euclid_exact_f :
    length b = dims -> Forall (fun x => fin x) b ->
    Forall2 (fun x y => format (B2R x - B2R y) /\ mult_e e (sq x y)) a b ->
    Rsum (map2 (fun x y => Rabs (sq x y)) a b) <= bpow radix2 (e + prec) ->
    Rsum (map2 (fun x y => Rabs (sq x y)) a b) < bpow radix2 emax ->
    match generic_euclidean Rg Mth dims (init_mem a b res) with
    | Ok r m => run_ok (init_mem a b res) m /\ fin r /\ B2R r = Rsum (map2 sq a b)
    | _ => False
    end.
  Proof.
    intros Hb Fb H1 HA1 HA2.
    set (Atot := Rsum (map2 (fun x y => Rabs (sq x y)) a b)) in *.
    pose proof (euclid_skel Rg vmax vmin fused FL (ApxE e) dims Atot (ApxE_pos e) (ApxE_zero e)
                  (ApxE_add e He_min dims Atot HA1 HA2)
                  a b res dims Ha (fun x y => mkt (sq x y))
                  (fun x y => fin x /\ fin y /\ (format (B2R x - B2R y) /\ mult_e e (sq x y)))) as K.
    match type of K with ?P1 -> ?P2 -> ?P3 -> ?P4 -> ?P5 -> _ =>
      assert (Q1 : P1); [|assert (Q2 : P2); [|assert (Q3 : P3); [|assert (Q4 : P4); [|assert (Q5 : P5)]]]] end.
    - intros x y _. apply mkt_pos.
    - intros x y z g (Fx & Fy & Hf & Hn) Hz HB. apply (efm_okE e He_min dims Atot HA1 HA2); assumption.
    - intros x y z g (Fx & Fy & Hf & Hn) Hz HB. apply (esmul_okE e He_min dims Atot HA1 HA2); assumption.
    - apply Forall2_and3; assumption.
    - apply (BndB_total dims Atot sq); try assumption. unfold Atot. lra.
    - specialize (K Q1 Q2 Q3 Q4 Q5).
      destruct (generic_euclidean Rg Mth dims (init_mem a b res)) as [r m| | |]; try contradiction.
      destruct K as [K1 K2]. split; [exact K1|].
      apply (finishE e sq a b r K2).
  Qed.
End ExactThm.

(** * One-hot vectors: the marker is counted exactly once, wherever it is, for every length *)
Section OneHot.
  Context {prec emax : Z} {Hp : FLX.Prec_gt_0 prec} {He : Prec_lt_emax prec emax}.
  Notation bf := (binary_float prec emax).
  Notation fin x := (is_finite x = true).
  Notation Mth := (@float_math prec emax Hp He).
  Local Open Scope R_scope.

  Definition is_zero (x : bf) : Prop := fin x /\ B2R x = 0.

  Lemma Rsum_zeros (f : bf -> Rdefinitions.R) l : Forall (fun x => f x = 0) l -> Rsum (map f l) = 0.
  Proof. induction 1 as [|x l Hx _ IH]; [reflexivity|]. cbn [map Rsum fold_right]. fold (Rsum (map f l)). rewrite Hx, IH. lra. Qed.

  Theorem sum_onehot Rg vmax vmin fused (FL : FloatLanewise Rg vmax vmin fused) (l1 l2 b res : list bf) :
    Forall is_zero l1 -> Forall is_zero l2 ->
    let a := l1 ++ [f_one] ++ l2 in
    match generic_sum Rg Mth (length a) (init_mem a b res) with
    | Ok r m => run_ok (init_mem a b res) m /\ fin r /\ B2R r = 1
    | _ => False
    end.
  Proof.
    intros Z1 Z2 a.
    assert (F1 : fin (@f_one prec emax Hp He)) by apply is_finite_Bone.
    assert (E1 : B2R (@f_one prec emax Hp He) = 1) by apply Bone_correct.
    assert (Fa : Forall (fun x : bf => fin x) a).
    { unfold a. apply Forall_app. split; [|apply Forall_app; split].
      - eapply Forall_impl; [|exact Z1]. intros x [H _]. exact H.
      - constructor; [exact F1 | constructor].
      - eapply Forall_impl; [|exact Z2]. intros x [H _]. exact H. }
    assert (Ma : Forall (fun x : bf => mult_e 0 (B2R x)) a).
    { unfold a. apply Forall_app. split; [|apply Forall_app; split].
      - eapply Forall_impl; [|exact Z1]. intros x [_ H]. rewrite H. exists 0%Z. lra.
      - constructor; [|constructor]. rewrite E1. exists 1%Z. cbn [bpow]. lra.
      - eapply Forall_impl; [|exact Z2]. intros x [_ H]. rewrite H. exists 0%Z. lra. }
    assert (Sv : forall f : Rdefinitions.R -> Rdefinitions.R, f 0 = 0 -> Rsum (map (fun x : bf => f (B2R x)) a) = f 1).
    { intros f f0. unfold a. rewrite !map_app, !Rsum_app. cbn [map Rsum fold_right]. rewrite E1.
      rewrite (Rsum_zeros (fun x => f (B2R x)) l1), (Rsum_zeros (fun x => f (B2R x)) l2); [lra | |].
      - eapply Forall_impl; [|exact Z2]. intros x [_ H]. rewrite H. exact f0.
      - eapply Forall_impl; [|exact Z1]. intros x [_ H]. rewrite H. exact f0. }
    pose proof (Sv Rabs Rabs_R0) as SA. rewrite Rabs_R1 in SA.
    pose proof (Sv (fun t => t) eq_refl) as SS. cbv beta in SS.
    pose proof (sum_exact_f Rg vmax vmin fused FL a b res (length a) eq_refl Fa 0 emin_le_0 Ma) as K.
    rewrite SA, SS in K. apply K.
    - change 1 with (bpow radix2 0). apply bpow_le. pose proof Hp. unfold FLX.Prec_gt_0 in *. lia.
    - apply one_lt_emax.
  Qed.
End OneHot.

(** * Every modelled back end: the rows of [f32_ops] / [f64_ops] (Model/Regs.v) *)
Section Table.
  Context {prec emax : Z} {Hp : FLX.Prec_gt_0 prec} {He : Prec_lt_emax prec emax}.
  Notation bf := (binary_float prec emax).
  Variable ops : reg -> option (SimdOps bf).
  Hypothesis faithful : forall r R, ops r = Some R -> FloatLanewise R (lane_max r) (lane_min r) (fused_reg r).

  Definition dot_bound_ops r R (HR : ops r = Some R) := dot_bound R _ _ _ (faithful r R HR).
  Definition norm_bound_ops r R (HR : ops r = Some R) := norm_bound R _ _ _ (faithful r R HR).
  Definition sum_bound_ops r R (HR : ops r = Some R) := sum_bound R _ _ _ (faithful r R HR).
  Definition euclid_bound_ops r R (HR : ops r = Some R) := euclid_bound R _ _ _ (faithful r R HR).
  Definition dot_exact_ops r R (HR : ops r = Some R) := dot_exact_f R _ _ _ (faithful r R HR).
  Definition norm_exact_ops r R (HR : ops r = Some R) := norm_exact_f R _ _ _ (faithful r R HR).
  Definition sum_exact_ops r R (HR : ops r = Some R) := sum_exact_f R _ _ _ (faithful r R HR).
  Definition euclid_exact_ops r R (HR : ops r = Some R) := euclid_exact_f R _ _ _ (faithful r R HR).
  Definition sum_onehot_ops r R (HR : ops r = Some R) := sum_onehot R _ _ _ (faithful r R HR).

  (* everything at once, for one row of the table *)
  Definition all_ops r R (HR : ops r = Some R) :=
    conj (sum_bound_ops r R HR) (conj (dot_bound_ops r R HR) (conj (norm_bound_ops r R HR) (conj (euclid_bound_ops r R HR)
    (conj (sum_exact_ops r R HR) (conj (dot_exact_ops r R HR) (conj (norm_exact_ops r R HR) (conj (euclid_exact_ops r R HR)
    (sum_onehot_ops r R HR)))))))).
End Table.

(** * The notation spelled out; the table of back ends; a concrete instance *)
Lemma reads :
  forall (prec emin e : Z) (k : nat) (x : Rdefinitions.R),
    (u prec = bpow radix2 (- prec)
    /\ gamma prec k = INR k * u prec / (1 - INR k * u prec)
    /\ (nosub prec emin x <-> (x = 0 \/ bpow radix2 (emin + prec - 1) <= Rabs x))
    /\ rnd prec emin x = round radix2 (FLT_exp emin prec) ZnearestE x
    /\ (mult_e e x <-> exists K : Z, x = IZR K * bpow radix2 e)
    /\ (forall (emax : Z) (p q : binary_float prec emax),
          sq p q = (B2R p - B2R q) * (B2R p - B2R q)
          /\ dsq p q = rnd prec (SpecFloat.emin prec emax) (B2R p - B2R q)
                       * rnd prec (SpecFloat.emin prec emax) (B2R p - B2R q)))%R.
Proof.
  intros. split; [reflexivity|]. split; [reflexivity|]. split; [reflexivity|]. split; [reflexivity|].
  split; [reflexivity|]. intros. split; reflexivity.
Qed.

Lemma backends :
  (forall r R, f32_ops r = Some R -> FloatLanewise R (lane_max r) (lane_min r) (fused_reg r))
  /\ (forall r R, f64_ops r = Some R -> FloatLanewise R (lane_max r) (lane_min r) (fused_reg r))
  /\ (forall r, r <> Neon -> f32_ops r <> None /\ f64_ops r <> None)
  /\ fused_reg Fallback = false /\ fused_reg Avx2 = false /\ fused_reg Avx2Fma = true /\ fused_reg Avx512 = true.
Proof.
  split; [exact f32_ops_faithful|]. split; [exact f64_ops_faithful|]. split; [|repeat split].
  intros r Hr. destruct r; try (split; discriminate). contradiction.
Qed.

Lemma nonvacuous :
  let a : list f32 := [f_one; f_one] in
  let b : list f32 := [f_one; f_one] in
  ((Forall (fun x => is_finite x = true) a /\ Forall (fun x => is_finite x = true) b
   /\ Forall2 (fun x y => nosub 24 (SpecFloat.emin 24 128) (B2R x * B2R y)) a b
   /\ (1 + u 24) ^ (2 + 3) * Rsum (map2 (fun x y => Rabs (B2R x * B2R y)) a b) < bpow radix2 128
   /\ INR (2 + 3) * u 24 < 1
   /\ Forall2 (fun x y => mult_e 0 (B2R x * B2R y)) a b
   /\ Rsum (map2 (fun x y => Rabs (B2R x * B2R y)) a b) <= bpow radix2 (0 + 24))
  /\ match generic_dot_product (fallback_ops float_math) float_math 2 (init_mem a b []) with
     | Ok r m => B2R r = 2
     | _ => False
     end)%R.
Proof.
  intros a b.
  assert (F1 : is_finite (@f_one 24 128 prec32 emax32) = true) by apply is_finite_Bone.
  assert (E1 : B2R (@f_one 24 128 prec32 emax32) = 1%R) by apply Bone_correct.
  assert (Fa : Forall (fun x : f32 => is_finite x = true) a) by (repeat constructor; exact F1).
  assert (U : u 24 = (/ 16777216)%R).
  { unfold u. change (bpow radix2 (-24)) with (/ IZR (Z.pow_pos 2 24))%R.
    replace (Z.pow_pos 2 24) with 16777216%Z by (vm_compute; reflexivity). reflexivity. }
  assert (SA : Rsum (map2 (fun x y : binary_float 24 128 => Rabs (B2R x * B2R y)) a b) = 2%R).
  { unfold a, b. cbn [map2 Rsum fold_right]. rewrite E1, Rmult_1_l, Rabs_R1. lra. }
  assert (SS : Rsum (map2 (fun x y : binary_float 24 128 => (B2R x * B2R y)%R) a b) = 2%R).
  { unfold a, b. cbn [map2 Rsum fold_right]. rewrite E1. lra. }
  assert (B128 : (4 < bpow radix2 128)%R).
  { change 4%R with (bpow radix2 2). apply bpow_lt. lia. }
  assert (B24 : (2 <= bpow radix2 (0 + 24))%R).
  { change 2%R with (bpow radix2 1). apply bpow_le. lia. }
  assert (M : Forall2 (fun x y : binary_float 24 128 => mult_e 0 (B2R x * B2R y)) a b).
  { unfold a, b. repeat constructor; rewrite E1; exists 1%Z; cbn [bpow]; lra. }
  assert (N : Forall2 (fun x y : binary_float 24 128 => nosub 24 (SpecFloat.emin 24 128) (B2R x * B2R y)) a b).
  { assert (N1 : nosub 24 (SpecFloat.emin 24 128) (B2R (@f_one 24 128 prec32 emax32) * B2R (@f_one 24 128 prec32 emax32))).
    { right. rewrite E1, Rmult_1_l, Rabs_R1. change 1%R with (bpow radix2 0). apply bpow_le.
      vm_compute; discriminate. }
    unfold a, b. apply Forall2_cons; [exact N1|]. apply Forall2_cons; [exact N1|]. apply Forall2_nil. }
  split.
  - split; [exact Fa|]. split; [exact Fa|]. split; [exact N|]. rewrite SA. split; [|split; [|split; [exact M | exact B24]]].
    + rewrite U. cbn [pow Nat.add]. lra.
    + rewrite U. cbn [Nat.add INR]. lra.
  - pose proof (dot_exact_f (fallback_ops float_math) _ _ _ fallback_float_lanewise a b [] 2 eq_refl Fa 0
                  ltac:(vm_compute; discriminate) eq_refl Fa M) as K.
    rewrite SA, SS in K. apply K; [exact B24 | lra].
Qed.
