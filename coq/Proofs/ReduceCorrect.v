(* Integer reductions are exact modulo 2^w, generically in the back end: a three-phase kernel whose dense,
   single-register and scalar steps each add (modulo 2^w) the terms of the block they consume to their
   accumulator, whose roll-up and to-value conversions preserve the accumulated sum modulo 2^w, returns the
   sum of ALL terms modulo 2^w — for every length.  Axiom-free. *)
From Coq Require Import ZArith List Arith Bool Lia.
From CF Require Import Base.Mem Model.SimdApi Model.Kernels Model.Tables Model.Prim.
From CF Require Import Proofs.MemProofs Proofs.KernelRules Proofs.KernelSafety Proofs.KernelBounds
     Proofs.OpsWf Proofs.ListFacts.
Import ListNotations.

Definition Zsum (l : list Z) : Z := fold_right Z.add 0%Z l.
Definition in_range (w z : Z) : Prop := (0 <= z < 2 ^ w)%Z.

Lemma Zsum_app x y : Zsum (x ++ y) = (Zsum x + Zsum y)%Z.
Proof. induction x as [|a x IH]; cbn; [reflexivity|]. unfold Zsum in *. rewrite IH. lia. Qed.

Definition eqm (w x y : Z) : Prop := (x mod 2 ^ w = y mod 2 ^ w)%Z.
Lemma eqm_refl w x : eqm w x x. Proof. reflexivity. Qed.
Lemma eqm_sym w x y : eqm w x y -> eqm w y x. Proof. unfold eqm; congruence. Qed.
Lemma eqm_trans w x y z : eqm w x y -> eqm w y z -> eqm w x z. Proof. unfold eqm; congruence. Qed.

Section EqmW.
  Variable w : Z.
  Hypothesis Hw : (0 < w)%Z.
  Local Notation "x == y" := (eqm w x y) (at level 70).

  Lemma pow_pos_w : (0 < 2 ^ w)%Z. Proof. apply Z.pow_pos_nonneg; lia. Qed.

  Lemma eqm_add x x' y y' : x == x' -> y == y' -> (x + y)%Z == (x' + y')%Z.
  Proof.
    unfold eqm. intros H1 H2. pose proof pow_pos_w.
    rewrite (Z.add_mod x y), (Z.add_mod x' y') by lia. rewrite H1, H2. reflexivity.
  Qed.
  Lemma eqm_mul x x' y y' : x == x' -> y == y' -> (x * y)%Z == (x' * y')%Z.
  Proof.
    unfold eqm. intros H1 H2. pose proof pow_pos_w.
    rewrite (Z.mul_mod x y), (Z.mul_mod x' y') by lia. rewrite H1, H2. reflexivity.
  Qed.
  Lemma eqm_sub x x' y y' : x == x' -> y == y' -> (x - y)%Z == (x' - y')%Z.
  Proof.
    unfold eqm. intros H1 H2. pose proof pow_pos_w.
    rewrite (Zminus_mod x y), (Zminus_mod x' y'). rewrite H1, H2. reflexivity.
  Qed.
  Lemma eqm_wrap x : wrap w x == x.
  Proof. unfold eqm, wrap. pose proof pow_pos_w. apply Z.mod_mod. lia. Qed.
  Lemma eqm_in_range x y : in_range w x -> in_range w y -> x == y -> x = y.
  Proof. unfold eqm, in_range. intros Hx Hy H. rewrite !Z.mod_small in H by lia. exact H. Qed.
  Lemma wrap_in_range x : in_range w (wrap w x).
  Proof. unfold in_range, wrap. pose proof pow_pos_w. apply Z.mod_pos_bound. lia. Qed.
End EqmW.

Section Reduce.
  Variable w : Z.
  Hypothesis Hw : (0 < w)%Z.
  Local Notation "x == y" := (eqm w x y) (at level 70).

  Variable R : SimdOps Z.
  Hypothesis HL : 1 <= lanes R.
  Notation Ln := (lanes R).

  Variables a b res : list Z.
  Variable dims : nat.
  Let m0 := init_mem a b res.
  Let Inv : mem Z -> Prop := SafeR m0 (fun _ => True).

  (* [blk i n]: the exact (unreduced) sum of the terms of indices [i, i+n) *)
  Variable blk : nat -> nat -> Z.
  Hypothesis blk0 : forall i, blk i 0 = 0%Z.
  Hypothesis blk_add : forall i n1 n2, blk i (n1 + n2) = (blk i n1 + blk (i + n1) n2)%Z.

  Variable okd : dense Z -> Prop.
  Variable okr : vreg Z -> Prop.
  Definition dsum (d : dense Z) : Z := Zsum (concat d).

  Variable init : dense Z.
  Variable dense_step : nat -> dense Z -> M Z (dense Z).
  Variable roll : dense Z -> vreg Z.
  Variable lane_step : nat -> vreg Z -> M Z (vreg Z).
  Variable tovalue : vreg Z -> Z.
  Variable scalar_step : nat -> Z -> M Z Z.

  Hypothesis Hinit : okd init /\ dsum init == 0%Z.
  Hypothesis Hdense : forall i acc, i + Ln * 8 <= dims -> okd acc ->
      triple Inv (dense_step i acc)
             (fun acc' m => Inv m /\ okd acc' /\ dsum acc' == (dsum acc + blk i (Ln * 8))%Z) (fun _ => False).
  Hypothesis Hroll : forall acc, okd acc -> okr (roll acc) /\ Zsum (roll acc) == dsum acc.
  Hypothesis Hlane : forall i acc, i + Ln <= dims -> okr acc ->
      triple Inv (lane_step i acc)
             (fun acc' m => Inv m /\ okr acc' /\ Zsum acc' == (Zsum acc + blk i Ln)%Z) (fun _ => False).
  Hypothesis Htov : forall acc, okr acc -> in_range w (tovalue acc) /\ tovalue acc == Zsum acc.
  Hypothesis Hscalar : forall i s, i < dims -> in_range w s ->
      triple Inv (scalar_step i s)
             (fun s' m => Inv m /\ in_range w s' /\ s' == (s + blk i 1)%Z) (fun _ => False).

  Theorem reduce_correct :
    match three_phase R dims init dense_step roll lane_step tovalue scalar_step m0 with
    | Ok r m => run_ok m0 m /\ in_range w r /\ r == blk 0 dims
    | _ => False
    end.
  Proof.
    assert (H : triple (fun m => Inv m /\ okd init /\ dsum init == blk 0 0)
                       (three_phase R dims init dense_step roll lane_step tovalue scalar_step)
                       (fun s m => Inv m /\ in_range w s /\ s == blk 0 dims) (fun _ => False)).
    { apply (three_phase_rule R HL dims
               (fun i acc m => Inv m /\ okd acc /\ dsum acc == blk 0 i)
               (fun i acc m => Inv m /\ okr acc /\ Zsum acc == blk 0 i)
               (fun i s m => Inv m /\ in_range w s /\ s == blk 0 i) (fun _ => False)).
      - intros k acc Hk. pose proof (dense_in dims Ln HL k Hk) as Hin.
        intros m (Hm & Hok & Hs). specialize (Hdense (k * Dn Ln) acc Hin Hok m Hm).
        destruct (dense_step (k * Dn Ln) acc m) as [acc' m'| | |]; auto.
        destruct Hdense as (Hm' & Hok' & Hs'). split; [assumption|]. split; [assumption|].
        replace (S k * Dn Ln) with (k * Dn Ln + Ln * 8) by (unfold Dn; lia).
        rewrite blk_add. eapply eqm_trans; [exact Hs'|]. apply eqm_add; [lia | exact Hs | apply eqm_refl].
      - intros acc m (Hm & Hok & Hs). destruct (Hroll acc Hok) as [Hr1 Hr2]. split; [assumption|]. split; [assumption|].
        eapply eqm_trans; eauto.
      - intros k acc Hk. pose proof (lane_in dims Ln HL k Hk) as Hin.
        intros m (Hm & Hok & Hs). specialize (Hlane (qn dims Ln * Dn Ln + k * Ln) acc Hin Hok m Hm).
        destruct (lane_step (qn dims Ln * Dn Ln + k * Ln) acc m) as [acc' m'| | |]; auto.
        destruct Hlane as (Hm' & Hok' & Hs'). split; [assumption|]. split; [assumption|].
        replace (qn dims Ln * Dn Ln + S k * Ln) with (qn dims Ln * Dn Ln + k * Ln + Ln) by lia.
        rewrite blk_add. eapply eqm_trans; [exact Hs'|]. apply eqm_add; [lia | exact Hs | apply eqm_refl].
      - intros acc m (Hm & Hok & Hs). destruct (Htov acc Hok) as [Ht1 Ht2]. split; [assumption|]. split; [assumption|].
        eapply eqm_trans; eauto.
      - intros i s Hi m (Hm & Hok & Hs). specialize (Hscalar i s ltac:(lia) Hok m Hm).
        destruct (scalar_step i s m) as [s' m'| | |]; auto.
        destruct Hscalar as (Hm' & Hok' & Hs'). split; [assumption|]. split; [assumption|].
        replace (S i) with (i + 1) by lia.
        rewrite blk_add. eapply eqm_trans; [exact Hs'|]. apply eqm_add; [lia | exact Hs | apply eqm_refl]. }
    specialize (H m0).
    assert (P0 : Inv m0 /\ okd init /\ dsum init == blk 0 0).
    { split; [|split].
      - split; [apply Safe0_init; reflexivity | exact I].
      - apply Hinit.
      - rewrite blk0. apply Hinit. }
    specialize (H P0).
    destruct (three_phase R dims init dense_step roll lane_step tovalue scalar_step m0) as [r m| | |]; auto.
    destruct H as ((Hs & _) & Hr & He). split; [exact Hs|]. split; assumption.
  Qed.
End Reduce.
