(* C08: the undefined register in `<Avx2 as SimdRegister<f64>>::sum_to_value` never reaches the result.
   For every fully defined input register the extracted value is defined, is the same whatever the undefined
   register holds (poison or any garbage), and is the fold the register model of Model/Regs.v uses
   ([avx2_fsum] on 4 lanes).  Parametric in the word-level representation of a lane (any lo/hi/join with
   join (lo v) (hi v) = v). *)
From Coq Require Import ZArith List.
From CF Require Import Model.Prim Model.Regs Model.Poison.
Import ListNotations.

Section PoisonProofs.
  Variables V W : Type.
  Variable lo hi : V -> W.
  Variable join : W -> W -> V.
  Variable add : V -> V -> V.
  Hypothesis join_split : forall v, join (lo v) (hi v) = v.

  (* any content of the undefined register, defined or not, of any length *)
  Lemma sum_to_value_defined (undef : ps W) r0 r1 r2 r3 :
    avx2_f64_sum_to_value_with V W lo hi join add undef [Some r0; Some r1; Some r2; Some r3]
    = Some (add (add r2 r0) (add r3 r1)).
  Proof.
    unfold avx2_f64_sum_to_value_with. cbn. rewrite join_split. reflexivity.
  Qed.

  Lemma sum_to_value_no_poison r0 r1 r2 r3 :
    avx2_f64_sum_to_value V W lo hi join add [Some r0; Some r1; Some r2; Some r3]
    = Some (add (add r2 r0) (add r3 r1)).
  Proof. apply sum_to_value_defined. Qed.
End PoisonProofs.

(* ... and that value is the register model's fold *)
Lemma sum_to_value_is_avx2_fsum
      {prec emax : Z} {Hp : FLX.Prec_gt_0 prec} {He : BinarySingleNaN.Prec_lt_emax prec emax}
      (W : Type) (lo hi : BinarySingleNaN.binary_float prec emax -> W) join
      (r0 r1 r2 r3 : BinarySingleNaN.binary_float prec emax) :
  (forall v, join (lo v) (hi v) = v) ->
  avx2_f64_sum_to_value _ W lo hi join f_add [Some r0; Some r1; Some r2; Some r3]
  = Some (avx2_fsum [r0; r1; r2; r3]).
Proof.
  intros J. rewrite (sum_to_value_no_poison _ W lo hi join f_add J). reflexivity.
Qed.

(* the property is not an accident of strictness: an undefined INPUT lane does poison the result *)
Lemma sum_to_value_strict V W lo hi join add r0 r1 r3 :
  avx2_f64_sum_to_value V W lo hi join add [Some r0; Some r1; None; Some r3] = None.
Proof. reflexivity. Qed.
