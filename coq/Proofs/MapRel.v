(* Element-wise kernels, relational form: when the register operation is lane-wise [vop] but the scalar tail uses a
   DIFFERENT scalar operation [sop] (float max/min: x86 MAXPS lanes vs f32::max in the tail — they differ on NaN
   and on the sign of zero), the result at EVERY index j < dims still satisfies any relation [P x y r] that both
   operations satisfy, and nothing else is written.  Same skeleton and rules as MapCorrect.  Generic in the
   element type.  Axiom-free. *)
From Coq Require Import List Arith Bool Lia.
From CF Require Import Base.Mem Model.SimdApi Model.Kernels Model.Tables.
From CF Require Import Proofs.MemProofs Proofs.KernelRules Proofs.KernelSafety Proofs.KernelBounds
     Proofs.OpsWf Proofs.ListFacts.
Import ListNotations.

Lemma nth_firstn_lt {T} (l : list T) w q d : q < w -> nth q (firstn w l) d = nth q l d.
Proof.
  revert w q. induction l as [|x l IH]; intros w q H.
  - rewrite firstn_nil. reflexivity.
  - destruct w as [|w]; [lia|]. destruct q as [|q]; [reflexivity|]. cbn. apply IH. lia.
Qed.

Lemma nth_skipn_add {T} (l : list T) j q d : nth q (skipn j l) d = nth (j + q) l d.
Proof.
  revert l. induction j as [|j IH]; intros l; [reflexivity|].
  destruct l as [|x l]; cbn [skipn]; [destruct q; reflexivity|]. apply IH.
Qed.

Lemma nth_block {T} (l : list T) j w q d : q < w -> nth q (firstn w (skipn j l)) d = nth (j + q) l d.
Proof. intros H. rewrite nth_firstn_lt by exact H. apply nth_skipn_add. Qed.

Lemma nth_splice_before {T} (l v : list T) i k d : i <= length l -> k < i -> nth k (splice l i v) d = nth k l d.
Proof.
  intros Hi Hk. unfold splice. rewrite app_nth1 by (rewrite firstn_length; lia).
  apply nth_firstn_lt. exact Hk.
Qed.

Lemma nth_splice_in {T} (l v : list T) i q d : i <= length l -> q < length v -> nth (i + q) (splice l i v) d = nth q v d.
Proof.
  intros Hi Hq. unfold splice. rewrite app_nth2 by (rewrite firstn_length; lia).
  rewrite firstn_length, Nat.min_l by lia. replace (i + q - i) with q by lia.
  apply app_nth1. exact Hq.
Qed.

Lemma Forall_nth_ok {T} (P : T -> Prop) (l : list T) k d : Forall P l -> k < length l -> P (nth k l d).
Proof. intros F H. rewrite Forall_forall in F. apply F. apply nth_In. exact H. Qed.

Section MapRel.
  Context {T : Type}.
  Variable R : SimdOps T.
  Variable Mth : MathOps T.
  Hypothesis HL : 1 <= lanes R.
  Notation Ln := (lanes R).
  Notation d := (dflt Mth).

  Variables a b res : list T.
  Variable dims : nat.
  Hypothesis Ha : length a = dims.
  Hypothesis Hr : length res = dims.
  Let m0 := init_mem a b res.

  Variable okv : T -> Prop.
  Hypothesis Hoka : Forall okv a.

  Variable P : T -> T -> T -> Prop.
  Variable vop sop : T -> T -> T.
  Variable op_dense : dense T -> dense T -> dense T.
  Variable op : vreg T -> vreg T -> vreg T.
  Hypothesis Hop : forall x y, length x = Ln -> length y = Ln -> Forall okv x -> Forall okv y ->
                               op x y = map2 vop x y.
  Hypothesis Hdense : forall x y, dense_wf R x -> dense_wf R y -> op_dense x y = apply_dense2 op x y.
  Hypothesis HPv : forall x y, okv x -> okv y -> P x y (vop x y).
  Hypothesis HPs : forall x y, okv x -> okv y -> P x y (sop x y).

  (* the second operand as a list: the slice b, or the broadcast value repeated *)
  Section Blocks.
    Variable bb : list T.
    Hypothesis Hb : length bb = dims.
    Hypothesis Hokb : Forall okv bb.

    Definition PhiR (i : nat) (r : list T) : Prop :=
      (forall j, j < i -> P (nth j a d) (nth j bb d) (nth j r d)) /\ skipn i r = skipn i res.

    Lemma PhiR_step j v r :
      length r = dims -> j + length v <= dims -> PhiR j r ->
      (forall q, q < length v -> P (nth (j + q) a d) (nth (j + q) bb d) (nth q v d)) ->
      PhiR (j + length v) (splice r j v).
    Proof.
      intros Hlr Hj [HP Hs] Hv. split.
      - intros k Hk. destruct (Nat.lt_ge_cases k j) as [Hlt|Hge].
        + rewrite nth_splice_before by lia. apply HP. exact Hlt.
        + replace k with (j + (k - j)) by lia. rewrite nth_splice_in by lia. apply Hv. lia.
      - rewrite skipn_splice_after by lia.
        rewrite <- !skipn_skipn_add. rewrite Hs. reflexivity.
    Qed.

    Lemma block_rel j :
      j + Ln <= dims ->
      let v := op (firstn Ln (skipn j a)) (firstn Ln (skipn j bb)) in
      length v = Ln /\ forall q, q < length v -> P (nth (j + q) a d) (nth (j + q) bb d) (nth q v d).
    Proof.
      intros Hj v. unfold v.
      assert (La : length (firstn Ln (skipn j a)) = Ln) by (rewrite firstn_length, skipn_length; lia).
      assert (Lb : length (firstn Ln (skipn j bb)) = Ln) by (rewrite firstn_length, skipn_length; lia).
      rewrite Hop by (try assumption; apply Forall_block; assumption).
      assert (E : length (map2 vop (firstn Ln (skipn j a)) (firstn Ln (skipn j bb))) = Ln)
        by (rewrite map2_length, La, Lb; lia).
      split; [exact E|]. rewrite E. intros q Hq.
      rewrite nth_map2 with (da := d) (db := d) by lia.
      rewrite !nth_block by exact Hq.
      apply HPv; apply Forall_nth_ok; try assumption; lia.
    Qed.
  End Blocks.

  (* ---------------------------------------------------------------------------------------------- *)
  Section Vector.
    Hypothesis Hb : length b = dims.
    Hypothesis Hokb : Forall okv b.
    Notation Phi := (PhiR b).

    Theorem map_vector_rel :
      match map_vector R Mth dims op_dense op sop m0 with
      | Ok _ m => run_ok m0 m /\ length (mR m) = dims
                  /\ forall j, j < dims -> P (nth j a d) (nth j b d) (nth j (mR m) d)
      | _ => False
      end.
    Proof.
      assert (H : triple (SafeR m0 (fun r => length r = dims /\ Phi 0 r)) (map_vector R Mth dims op_dense op sop)
                         (fun _ m => SafeR m0 (fun r => length r = dims /\ Phi dims r) m) (fun _ => False)).
      { unfold map_vector.
        apply (three_phase_rule R HL dims (fun i _ => SafeR m0 (fun r => length r = dims /\ Phi i r))
                                (fun i _ => SafeR m0 (fun r => length r = dims /\ Phi i r))
                                (fun i _ => SafeR m0 (fun r => length r = dims /\ Phi i r)) (fun _ => False)); auto.
        - (* dense block *)
          intros k [] Hk. pose proof (dense_in dims Ln HL k Hk) as Hin.
          apply load_dense_bind; [discriminate | unfold m0; cbn [slice_of init_mem mA mB mR]; lia |].
          apply load_dense_bind; [discriminate | unfold m0; cbn [slice_of init_mem mA mB mR]; lia |].
          unfold m0; cbn [slice_of init_mem mA mB mR]; fold m0.
          assert (Wa : dense_wf R (dense_at Ln a (k * Dn Ln))) by (apply dense_at_wf; lia).
          assert (Wb : dense_wf R (dense_at Ln b (k * Dn Ln))) by (apply dense_at_wf; lia).
          rewrite (Hdense _ _ Wa Wb).
          set (l := apply_dense2 op (dense_at Ln a (k * Dn Ln)) (dense_at Ln b (k * Dn Ln))).
          assert (Hnth : forall q, q < 8 ->
                    nth_reg l q = op (firstn Ln (skipn (k * Dn Ln + Ln * q) a))
                                     (firstn Ln (skipn (k * Dn Ln + Ln * q) b))).
          { intros q Hq. unfold l, apply_dense2, nth_reg.
            rewrite nth_map2 with (da := @nil T) (db := @nil T) by (cbn; lia).
            rewrite !nth_dense_at by lia. reflexivity. }
          apply triple_bind_ret_r.
          apply (write_dense_steps m0 R (fun i r => length r = dims /\ Phi i r) (k * Dn Ln) l).
          + intros q Hq. rewrite (Hnth q Hq).
            apply (block_rel b Hb Hokb (k * Dn Ln + Ln * q)). unfold Dn in *. nia.
          + unfold m0; cbn [init_mem mR]; lia.
          + intros q r Hq Hlen [Hlr HP]. rewrite (Hnth q Hq).
            destruct (block_rel b Hb Hokb (k * Dn Ln + Ln * q) ltac:(unfold Dn in *; nia)) as [E1 E2].
            cbv zeta in E1, E2. split.
            * rewrite length_splice; [exact Hlr|]. rewrite E1, Hlr. unfold Dn in *. nia.
            * replace (k * Dn Ln + Ln * S q)
                with (k * Dn Ln + Ln * q + length (op (firstn Ln (skipn (k * Dn Ln + Ln * q) a))
                                                      (firstn Ln (skipn (k * Dn Ln + Ln * q) b))))
                by (rewrite E1; lia).
              apply (PhiR_step b Hb); [exact Hlr | rewrite E1; unfold Dn in *; nia | exact HP | exact E2].
          + replace (k * Dn Ln + Ln * 8) with (S k * Dn Ln) by (unfold Dn; lia). apply triple_ret. auto.
        - (* single register *)
          intros k [] Hk. pose proof (lane_in dims Ln HL k Hk) as Hin. unfold L.
          apply load_bind; [discriminate | unfold m0; cbn [slice_of init_mem mA mB mR]; lia |].
          apply load_bind; [discriminate | unfold m0; cbn [slice_of init_mem mA mB mR]; lia |].
          unfold m0; cbn [slice_of init_mem mA mB mR]; fold m0.
          destruct (block_rel b Hb Hokb (qn dims Ln * Dn Ln + k * Ln) ltac:(lia)) as [E1 E2]. cbv zeta in E1, E2.
          apply (store_last m0 (fun r => length r = dims /\ Phi (qn dims Ln * Dn Ln + k * Ln) r)
                            (fun r => length r = dims /\ Phi (qn dims Ln * Dn Ln + S k * Ln) r)).
          + rewrite E1. unfold m0; cbn [init_mem mR]; lia.
          + intros r Hlen [Hlr HP]. split.
            * rewrite length_splice; [exact Hlr|]. rewrite E1, Hlr. lia.
            * replace (qn dims Ln * Dn Ln + S k * Ln)
                with (qn dims Ln * Dn Ln + k * Ln + length (op (firstn Ln (skipn (qn dims Ln * Dn Ln + k * Ln) a))
                                                               (firstn Ln (skipn (qn dims Ln * Dn Ln + k * Ln) b))))
                by (rewrite E1; lia).
              apply (PhiR_step b Hb); [exact Hlr | rewrite E1; lia | exact HP | exact E2].
          + auto.
        - (* scalar tail *)
          intros i [] Hi. unfold read1, write1.
          apply triple_bind_assoc. apply load_bind; [discriminate | unfold m0; cbn [slice_of init_mem mA mB mR]; lia |].
          apply triple_bind_ret_l.
          apply triple_bind_assoc. apply load_bind; [discriminate | unfold m0; cbn [slice_of init_mem mA mB mR]; lia |].
          apply triple_bind_ret_l. unfold m0; cbn [slice_of init_mem mA mB mR]; fold m0.
          apply (store_last m0 (fun r => length r = dims /\ Phi i r) (fun r => length r = dims /\ Phi (S i) r)).
          + unfold m0; cbn [length init_mem mR]; lia.
          + intros r Hlen [Hlr HP]. split.
            * rewrite length_splice; [exact Hlr|]. cbn [length]. lia.
            * replace (S i) with (i + length [sop (hd d (firstn 1 (skipn i a))) (hd d (firstn 1 (skipn i b)))])
                by (cbn [length]; lia).
              apply (PhiR_step b Hb); [exact Hlr | cbn [length]; lia | exact HP |].
              cbn [length]. intros q Hq. assert (q = 0) by lia. subst q. cbn [nth].
              assert (Ea : hd d (firstn 1 (skipn i a)) = nth (i + 0) a d).
              { rewrite <- (nth_block a i 1 0 d) by lia. destruct (firstn 1 (skipn i a)); reflexivity. }
              assert (Eb : hd d (firstn 1 (skipn i b)) = nth (i + 0) b d).
              { rewrite <- (nth_block b i 1 0 d) by lia. destruct (firstn 1 (skipn i b)); reflexivity. }
              rewrite Ea, Eb. apply HPs; apply Forall_nth_ok; try assumption; lia.
          + auto. }
      specialize (H m0).
      assert (P0 : SafeR m0 (fun r => length r = dims /\ Phi 0 r) m0).
      { split; [apply Safe0_init; reflexivity|]. unfold m0; cbn [init_mem mR]. split; [exact Hr|].
        split; [intros j Hj; lia | reflexivity]. }
      specialize (H P0). destruct (map_vector R Mth dims op_dense op sop m0) as [[] m| | |]; auto.
      destruct H as [Hs [Hlr [HP _]]]. split; [exact Hs|]. split; [exact Hlr | exact HP].
    Qed.
  End Vector.

  (* ---------------------------------------------------------------------------------------------- *)
  Section Value.
    Variable value : T.
    Hypothesis Hokv : okv value.
    Let br := repeat value Ln.
    Let bb := repeat value dims.

    Lemma bb_len : length bb = dims. Proof. apply repeat_length. Qed.
    Lemma bb_ok : Forall okv bb.
    Proof. apply Forall_forall. intros x Hx. apply repeat_spec in Hx. subst. exact Hokv. Qed.
    Lemma bb_nth j : j < dims -> nth j bb d = value.
    Proof.
      intros H. unfold bb. clear - H. revert j H. induction dims as [|n IH]; intros j H; [lia|].
      destruct j as [|j]; cbn [repeat nth]; [reflexivity|]. apply IH. lia.
    Qed.
    Lemma bb_block j : j + Ln <= dims -> firstn Ln (skipn j bb) = br.
    Proof.
      intros H. unfold bb, br. clear - H.
      assert (S : forall k n, skipn k (repeat value n) = repeat value (n - k)).
      { induction k as [|k IH]; intros n; cbn [skipn]; [f_equal; lia|].
        destruct n as [|n]; cbn [repeat]; [reflexivity|]. apply IH. }
      assert (F : forall k n, k <= n -> firstn k (repeat value n) = repeat value k).
      { induction k as [|k IH]; intros n Hk; cbn [firstn]; [reflexivity|].
        destruct n as [|n]; [lia|]. cbn [repeat firstn]. f_equal. apply IH. lia. }
      rewrite S. apply F. lia.
    Qed.
    Notation Phi := (PhiR bb).

    Theorem map_value_rel :
      match map_value R Mth dims value (dense_copy br) br op_dense op sop m0 with
      | Ok _ m => run_ok m0 m /\ length (mR m) = dims
                  /\ forall j, j < dims -> P (nth j a d) value (nth j (mR m) d)
      | _ => False
      end.
    Proof.
      assert (Wbd : dense_wf R (dense_copy br)) by (apply dense_copy_wf; apply repeat_length).
      assert (H : triple (SafeR m0 (fun r => length r = dims /\ Phi 0 r))
                         (map_value R Mth dims value (dense_copy br) br op_dense op sop)
                         (fun _ m => SafeR m0 (fun r => length r = dims /\ Phi dims r) m) (fun _ => False)).
      { unfold map_value.
        apply (three_phase_rule R HL dims (fun i _ => SafeR m0 (fun r => length r = dims /\ Phi i r))
                                (fun i _ => SafeR m0 (fun r => length r = dims /\ Phi i r))
                                (fun i _ => SafeR m0 (fun r => length r = dims /\ Phi i r)) (fun _ => False)); auto.
        - intros k [] Hk. pose proof (dense_in dims Ln HL k Hk) as Hin.
          apply load_dense_bind; [discriminate | unfold m0; cbn [slice_of init_mem mA mB mR]; lia |].
          unfold m0; cbn [slice_of init_mem mA mB mR]; fold m0.
          assert (Wa : dense_wf R (dense_at Ln a (k * Dn Ln))) by (apply dense_at_wf; lia).
          rewrite (Hdense _ _ Wa Wbd).
          set (l := apply_dense2 op (dense_at Ln a (k * Dn Ln)) (dense_copy br)).
          assert (Hnth : forall q, q < 8 ->
                    nth_reg l q = op (firstn Ln (skipn (k * Dn Ln + Ln * q) a))
                                     (firstn Ln (skipn (k * Dn Ln + Ln * q) bb))).
          { intros q Hq. unfold l, apply_dense2, nth_reg.
            rewrite nth_map2 with (da := @nil T) (db := @nil T) by (cbn; lia).
            rewrite nth_dense_at by lia. rewrite bb_block by (unfold Dn in *; nia). f_equal.
            unfold dense_copy, NUM_LANES. do 8 (destruct q as [|q]; [reflexivity|]). lia. }
          apply triple_bind_ret_r.
          apply (write_dense_steps m0 R (fun i r => length r = dims /\ Phi i r) (k * Dn Ln) l).
          + intros q Hq. rewrite (Hnth q Hq).
            apply (block_rel bb bb_len bb_ok (k * Dn Ln + Ln * q)). unfold Dn in *. nia.
          + unfold m0; cbn [init_mem mR]; lia.
          + intros q r Hq Hlen [Hlr HP]. rewrite (Hnth q Hq).
            destruct (block_rel bb bb_len bb_ok (k * Dn Ln + Ln * q) ltac:(unfold Dn in *; nia)) as [E1 E2].
            cbv zeta in E1, E2. split.
            * rewrite length_splice; [exact Hlr|]. rewrite E1, Hlr. unfold Dn in *. nia.
            * replace (k * Dn Ln + Ln * S q)
                with (k * Dn Ln + Ln * q + length (op (firstn Ln (skipn (k * Dn Ln + Ln * q) a))
                                                      (firstn Ln (skipn (k * Dn Ln + Ln * q) bb))))
                by (rewrite E1; lia).
              apply (PhiR_step bb bb_len); [exact Hlr | rewrite E1; unfold Dn in *; nia | exact HP | exact E2].
          + replace (k * Dn Ln + Ln * 8) with (S k * Dn Ln) by (unfold Dn; lia). apply triple_ret. auto.
        - intros k [] Hk. pose proof (lane_in dims Ln HL k Hk) as Hin. unfold L.
          apply load_bind; [discriminate | unfold m0; cbn [slice_of init_mem mA mB mR]; lia |].
          unfold m0; cbn [slice_of init_mem mA mB mR]; fold m0.
          rewrite <- (bb_block (qn dims Ln * Dn Ln + k * Ln)) by lia.
          destruct (block_rel bb bb_len bb_ok (qn dims Ln * Dn Ln + k * Ln) ltac:(lia)) as [E1 E2]. cbv zeta in E1, E2.
          apply (store_last m0 (fun r => length r = dims /\ Phi (qn dims Ln * Dn Ln + k * Ln) r)
                            (fun r => length r = dims /\ Phi (qn dims Ln * Dn Ln + S k * Ln) r)).
          + rewrite E1. unfold m0; cbn [init_mem mR]; lia.
          + intros r Hlen [Hlr HP]. split.
            * rewrite length_splice; [exact Hlr|]. rewrite E1, Hlr. lia.
            * replace (qn dims Ln * Dn Ln + S k * Ln)
                with (qn dims Ln * Dn Ln + k * Ln + length (op (firstn Ln (skipn (qn dims Ln * Dn Ln + k * Ln) a))
                                                               (firstn Ln (skipn (qn dims Ln * Dn Ln + k * Ln) bb))))
                by (rewrite E1; lia).
              apply (PhiR_step bb bb_len); [exact Hlr | rewrite E1; lia | exact HP | exact E2].
          + auto.
        - intros i [] Hi. unfold read1, write1.
          apply triple_bind_assoc. apply load_bind; [discriminate | unfold m0; cbn [slice_of init_mem mA mB mR]; lia |].
          apply triple_bind_ret_l. unfold m0; cbn [slice_of init_mem mA mB mR]; fold m0.
          apply (store_last m0 (fun r => length r = dims /\ Phi i r) (fun r => length r = dims /\ Phi (S i) r)).
          + unfold m0; cbn [length init_mem mR]; lia.
          + intros r Hlen [Hlr HP]. split.
            * rewrite length_splice; [exact Hlr|]. cbn [length]. lia.
            * replace (S i) with (i + length [sop (hd d (firstn 1 (skipn i a))) value]) by (cbn [length]; lia).
              apply (PhiR_step bb bb_len); [exact Hlr | cbn [length]; lia | exact HP |].
              cbn [length]. intros q Hq. assert (q = 0) by lia. subst q. cbn [nth].
              assert (Ea : hd d (firstn 1 (skipn i a)) = nth (i + 0) a d).
              { rewrite <- (nth_block a i 1 0 d) by lia. destruct (firstn 1 (skipn i a)); reflexivity. }
              rewrite Ea, bb_nth by lia. apply HPs; [apply Forall_nth_ok; try assumption; lia | exact Hokv].
          + auto. }
      specialize (H m0).
      assert (P0 : SafeR m0 (fun r => length r = dims /\ Phi 0 r) m0).
      { split; [apply Safe0_init; reflexivity|]. unfold m0; cbn [init_mem mR]. split; [exact Hr|].
        split; [intros j Hj; lia | reflexivity]. }
      specialize (H P0).
      destruct (map_value R Mth dims value (dense_copy br) br op_dense op sop m0) as [[] m| | |]; auto.
      destruct H as [Hs [Hlr [HP _]]]. split; [exact Hs|]. split; [exact Hlr|].
      intros j Hj. rewrite <- (bb_nth j Hj). apply HP. exact Hj.
    Qed.
  End Value.
End MapRel.
