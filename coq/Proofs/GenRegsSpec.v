(* C13, the "generated register model" tie: WHAT is proved about every definition of Gen/GenRegs.v.

   [reg_goal r t m d] is the statement schema, hand-written once: the generated instruction-level definition [d] of
   method [m] of `impl SimdRegister<t> for r`, run on the byte-level (integers) / lane-level (floats) encoding of
   arbitrary well-formed registers, computes what the LANE-LEVEL model of that back end says — Model/Regs.v for the
   x86 back ends, and for NEON (no hand model exists) the lane-wise scalar specification [neon_int_ops] /
   [neon_float_ops] below, whose fields ARE the scalar operations mapped over the lanes.  For Fallback (one generic
   impl) the statement quantifies over the element type and its Math implementation.
   The table of generated definitions is Gen/GenRegs.gen_reg_table; the theorem is [Forall entry_goal gen_reg_table]
   (Proofs/GenRegsProofs.v). *)
From Coq Require Import ZArith List Arith Bool Lia.
From Flocq Require Import IEEE754.BinarySingleNaN.
From CF Require Import Base.Mem Model.Tables Model.Prim Model.SimdApi Model.Kernels Model.Regs Model.Intrinsics Model.RegTable.
From CF Require Import Proofs.KernelBounds Proofs.OpsWf Proofs.ListFacts Proofs.ReduceCorrect Proofs.IntReduce
     Proofs.IntBackends Proofs.BackendTable.
Import ListNotations.
Local Open Scope Z_scope.

(** * NEON: the lane-wise scalar specification (128-bit registers) *)

Definition neon_int_ops (sg : bool) (w : Z) : SimdOps Z :=
  let Ln := Z.to_nat (128 / w) in
  let add := map2 (i_add w) in
  let sub := map2 (i_sub w) in
  let mul := map2 (i_mul w) in
  let max := map2 (i_max sg w) in
  let min := map2 (i_min sg w) in
  let div := div_lanes sg w in
  {| lanes := Ln;
     r_filled := fun v => repeat v Ln; r_zeroed := repeat 0 Ln;
     r_add := add; r_sub := sub; r_mul := mul; r_div := div;
     r_fmadd := fun l1 l2 acc => add (mul l1 l2) acc;                    (* unfused: mul then add (impl_neon.rs) *)
     r_max := max; r_min := min;
     r_sum_to_value := fun reg => fold_left (i_add w) reg 0;
     r_max_to_value := fun reg => fold_left (i_max sg w) (tl reg) (hd 0 reg);
     r_min_to_value := fun reg => fold_left (i_min sg w) (tl reg) (hd 0 reg);
     r_add_dense := apply_dense2 add; r_sub_dense := apply_dense2 sub; r_mul_dense := apply_dense2 mul;
     r_div_dense := apply_dense2_opt div;
     r_fmadd_dense := fun l1 l2 acc => apply_dense2 add (apply_dense2 mul l1 l2) acc;   (* overridden *)
     r_max_dense := apply_dense2 max; r_min_dense := apply_dense2 min |}.

Section NeonFloat.
  Context {prec emax : Z} {Hp : FLX.Prec_gt_0 prec} {He : Prec_lt_emax prec emax}.
  Notation bf := (binary_float prec emax).
  (* add / sub / mul / div correctly rounded per lane, fmadd FUSED (vfmaq), max / min = FMAX / FMIN per lane,
     across-vector folds = the pairwise trees of FADDP / FMAXV / FMINV *)
  Definition neon_float_ops (Ln : nat) : SimdOps bf :=
    with_default_dense Ln
      (fun v => repeat v Ln) (repeat f_zero Ln)
      (map2 f_add) (map2 f_sub) (map2 f_mul) (fun x y => Some (map2 f_div x y))
      (map3 f_fma) (map2 neon_fmax) (map2 neon_fmin)
      (neon_reduce f_add) (neon_reduce neon_fmax) (neon_reduce neon_fmin).
End NeonFloat.

(* the integer specification is lane-wise faithful in the sense of C13 (same records as the x86 models) *)
Lemma neon_shape sg w : In w widths -> exists n, lanes (neon_int_ops sg w) = S n.
Proof. intros Hw. split_widths Hw; [exists 15%nat | exists 7%nat | exists 3%nat | exists 1%nat]; reflexivity. Qed.

Theorem neon_int_lanewise sg w : In w widths -> IntLanewise w (neon_int_ops sg w).
Proof.
  intros Hin. pose proof (widths_pos _ Hin) as Hw. destruct (neon_shape sg w Hin) as [n HL].
  constructor; try reflexivity.
  - apply mk_ops_wf; try reflexivity.
    + rewrite HL. lia.
    + intros v. apply repeat_length.
    + intros x y Hx Hy. change (r_add (neon_int_ops sg w)) with (map2 (i_add w)). rewrite map2_length. lia.
    + intros x y Hx Hy. change (r_sub (neon_int_ops sg w)) with (map2 (i_sub w)). rewrite map2_length. lia.
    + intros x y Hx Hy. change (r_mul (neon_int_ops sg w)) with (map2 (i_mul w)). rewrite map2_length. lia.
    + intros x y Hx Hy. change (r_max (neon_int_ops sg w)) with (map2 (i_max sg w)). rewrite map2_length. lia.
    + intros x y Hx Hy. change (r_min (neon_int_ops sg w)) with (map2 (i_min sg w)). rewrite map2_length. lia.
    + intros x y z Hx Hy E. change (r_div (neon_int_ops sg w)) with (div_lanes sg w) in E.
      apply div_lanes_length in E. lia.
  - intros x Hx F. change (r_sum_to_value (neon_int_ops sg w) x) with (fold_left (i_add w) x 0).
    destruct (fold_left_add_ok w Hw x 0 (okv_0 w Hw)) as [R1 R2]. split; [exact R1|].
    rewrite Z.add_0_l in R2. exact R2.
Qed.

Theorem neon_int_elementwise sg w : In w widths -> IntElementwise w sg (neon_int_ops sg w).
Proof.
  intros Hin. pose proof (widths_pos _ Hin) as Hw. destruct (neon_shape sg w Hin) as [n HL].
  constructor; try reflexivity.
  - intros x y _ _ _ _. apply div_lanes_seq.
  - intros x Hx F. apply (reduce_max_ok w Hw sg x); [|exact F]. intros ->. rewrite HL in Hx. discriminate.
  - intros x Hx F. apply (reduce_min_ok w Hw sg x); [|exact F]. intros ->. rewrite HL in Hx. discriminate.
Qed.

(** * Which lane-level model each (register, element type) is measured against *)

Definition int_model (r : reg) (t : ty) : option (SimdOps Z) :=
  match r with
  | Neon => if is_float t then None else Some (neon_int_ops (is_signed t) (width t))
  | Fallback => None                         (* generic impl: [fb_goal] *)
  | _ => int_ops r t
  end.
Definition f32_model (r : reg) : option (SimdOps f32) :=
  match r with Neon => Some (neon_float_ops 4) | Fallback => None | _ => f32_ops r end.
Definition f64_model (r : reg) : option (SimdOps f64) :=
  match r with Neon => Some (neon_float_ops 2) | Fallback => None | _ => f64_ops r end.

Theorem int_model_faithful r t R :
  int_model r t = Some R -> IntLanewise (width t) R /\ IntElementwise (width t) (is_signed t) R.
Proof.
  destruct r; cbn [int_model]; try discriminate; intros H;
    try (destruct (int_ops_faithful _ _ _ H) as (A & B & _); split; assumption).
  destruct (is_float t) eqn:Ft; [discriminate|]. inversion H; subst.
  pose proof (width_in_widths t Ft). split; [apply neon_int_lanewise | apply neon_int_elementwise]; assumption.
Qed.

(** * DenseLane <-> the list of its eight registers *)

Definition dl {A} (d : DenseLane A) : list A := [da d; db d; dc d; dd d; de d; df d; dg d; dh d].
Definition dmap {A B} (f : A -> B) (d : DenseLane A) : DenseLane B :=
  mkDense (f (da d)) (f (db d)) (f (dc d)) (f (dd d)) (f (de d)) (f (df d)) (f (dg d)) (f (dh d)).
Definition dall {A} (P : A -> Prop) (d : DenseLane A) : Prop :=
  P (da d) /\ P (db d) /\ P (dc d) /\ P (dd d) /\ P (de d) /\ P (df d) /\ P (dg d) /\ P (dh d).

(** * The statement schema *)

Section MethodGoal.
  (* E: lane element; V: the generated code's register representation; enc / dec: lanes <-> representation *)
  Variables (E V : Type) (R : SimdOps E) (enc : vreg E -> V) (dec : V -> vreg E) (okv : E -> Prop).

  Definition okreg (x : vreg E) : Prop := length x = lanes R /\ Forall okv x.

  Definition bin_goal (f : V -> V -> V) (M : vreg E -> vreg E -> vreg E) : Prop :=
    forall x y, okreg x -> okreg y -> dec (f (enc x) (enc y)) = M x y.
  Definition dbin_goal (f : DenseLane V -> DenseLane V -> DenseLane V) (M : dense E -> dense E -> dense E) : Prop :=
    forall X Y, dall okreg X -> dall okreg Y -> map dec (dl (f (dmap enc X) (dmap enc Y))) = M (dl X) (dl Y).
  Definition roll_goal (f : DenseLane V -> V) (M : dense E -> vreg E) : Prop :=
    forall X, dall okreg X -> dec (f (dmap enc X)) = M (dl X).
  Definition fold_goal (f : V -> E) (M : vreg E -> E) : Prop :=
    forall x, okreg x -> f (enc x) = M x.

  (* generated definitions that MAY PANIC (option-valued, Model/RustLoops.v): against a TOTAL model method the statement
     is "never panics on well-formed registers, and returns the model's value"; against the model's partial [r_div] /
     [r_div_dense] it is equality of the option values: it panics exactly when the model says so *)
  Definition ddec (d : DenseLane V) : dense E := map dec (dl d).
  Definition obin_goal (f : V -> V -> option V) (M : vreg E -> vreg E -> option (vreg E)) : Prop :=
    forall x y, okreg x -> okreg y -> option_map dec (f (enc x) (enc y)) = M x y.
  Definition odbin_goal (f : DenseLane V -> DenseLane V -> option (DenseLane V))
             (M : dense E -> dense E -> option (dense E)) : Prop :=
    forall X Y, dall okreg X -> dall okreg Y -> option_map ddec (f (dmap enc X) (dmap enc Y)) = M (dl X) (dl Y).
  Definition tot2 {A B C} (M : A -> B -> C) : A -> B -> option C := fun a b => Some (M a b).

  Definition method_goal (m : rmeth) (d : gen_def V E) : Prop :=
    match m, d with
    | MElementsPerLane, D_n n => n = Z.of_nat (lanes R)
    | MElementsPerDense, D_n n => n = Z.of_nat (elements_per_dense R)
    | MZeroed, D_v f => dec f = r_zeroed R
    | MFilled, D_sv f => forall v, okv v -> dec (f v) = r_filled R v
    | MZeroedDense, D_d f => map dec (dl f) = zeroed_dense R
    | MFilledDense, D_sd f => forall v, okv v -> map dec (dl (f v)) = filled_dense R v
    | MAdd, D_vvv f => bin_goal f (r_add R)
    | MSub, D_vvv f => bin_goal f (r_sub R)
    | MMul, D_vvv f => bin_goal f (r_mul R)
    | MMax, D_vvv f => bin_goal f (r_max R)
    | MMin, D_vvv f => bin_goal f (r_min R)
    | MDiv, D_vvv f => forall x y, okreg x -> okreg y -> Some (dec (f (enc x) (enc y))) = r_div R x y
    | MFmadd, D_vvvv f =>
        forall x y z, okreg x -> okreg y -> okreg z -> dec (f (enc x) (enc y) (enc z)) = r_fmadd R x y z
    | MAddDense, D_ddd f => dbin_goal f (r_add_dense R)
    | MSubDense, D_ddd f => dbin_goal f (r_sub_dense R)
    | MMulDense, D_ddd f => dbin_goal f (r_mul_dense R)
    | MMaxDense, D_ddd f => dbin_goal f (r_max_dense R)
    | MMinDense, D_ddd f => dbin_goal f (r_min_dense R)
    | MDivDense, D_ddd f =>
        forall X Y, dall okreg X -> dall okreg Y ->
                    Some (map dec (dl (f (dmap enc X) (dmap enc Y)))) = r_div_dense R (dl X) (dl Y)
    | MFmaddDense, D_dddd f =>
        forall X Y Z, dall okreg X -> dall okreg Y -> dall okreg Z ->
                      map dec (dl (f (dmap enc X) (dmap enc Y) (dmap enc Z))) = r_fmadd_dense R (dl X) (dl Y) (dl Z)
    | MSumToValue, D_vs f => fold_goal f (r_sum_to_value R)
    | MMaxToValue, D_vs f => fold_goal f (r_max_to_value R)
    | MMinToValue, D_vs f => fold_goal f (r_min_to_value R)
    | MSumToRegister, D_dv f => roll_goal f (sum_to_register R)
    | MMaxToRegister, D_dv f => roll_goal f (max_to_register R)
    | MMinToRegister, D_dv f => roll_goal f (min_to_register R)
    (* option-valued generated definitions *)
    | MDiv, O_vvv f => obin_goal f (r_div R)
    | MDivDense, O_ddd f => odbin_goal f (r_div_dense R)
    | MAdd, O_vvv f => obin_goal f (tot2 (r_add R))
    | MSub, O_vvv f => obin_goal f (tot2 (r_sub R))
    | MMul, O_vvv f => obin_goal f (tot2 (r_mul R))
    | MMax, O_vvv f => obin_goal f (tot2 (r_max R))
    | MMin, O_vvv f => obin_goal f (tot2 (r_min R))
    | MFmadd, O_vvvv f =>
        forall x y z, okreg x -> okreg y -> okreg z ->
                      option_map dec (f (enc x) (enc y) (enc z)) = Some (r_fmadd R x y z)
    | MAddDense, O_ddd f => odbin_goal f (tot2 (r_add_dense R))
    | MSubDense, O_ddd f => odbin_goal f (tot2 (r_sub_dense R))
    | MMulDense, O_ddd f => odbin_goal f (tot2 (r_mul_dense R))
    | MMaxDense, O_ddd f => odbin_goal f (tot2 (r_max_dense R))
    | MMinDense, O_ddd f => odbin_goal f (tot2 (r_min_dense R))
    | MFmaddDense, O_dddd f =>
        forall X Y Z, dall okreg X -> dall okreg Y -> dall okreg Z ->
                      option_map ddec (f (dmap enc X) (dmap enc Y) (dmap enc Z))
                      = Some (r_fmadd_dense R (dl X) (dl Y) (dl Z))
    | MSumToRegister, O_dv f => forall X, dall okreg X -> option_map dec (f (dmap enc X)) = Some (sum_to_register R (dl X))
    | MMaxToRegister, O_dv f => forall X, dall okreg X -> option_map dec (f (dmap enc X)) = Some (max_to_register R (dl X))
    | MMinToRegister, O_dv f => forall X, dall okreg X -> option_map dec (f (dmap enc X)) = Some (min_to_register R (dl X))
    | _, _ => False        (* load / write (raw pointers) are never translated; a shape mismatch proves nothing *)
    end.
End MethodGoal.

Definition reg_goal (r : reg) (t : ty) (m : rmeth) (g : gen_any) : Prop :=
  match g with
  | GI d =>
      match int_model r t with
      | Some R => is_float t = false
                  /\ method_goal Z (list Z) R (bytes_of (width t)) (lanes_of (width t)) (in_range (width t)) m d
      | None => False
      end
  | GF32 d =>
      match f32_model r with
      | Some R => t = F32 /\ method_goal f32 (list f32) R (fun x => x) (fun x => x) (fun _ => True) m d
      | None => False
      end
  | GF64 d =>
      match f64_model r with
      | Some R => t = F64 /\ method_goal f64 (list f64) R (fun x => x) (fun x => x) (fun _ => True) m d
      | None => False
      end
  end.

Definition entry_goal (e : gen_entry) : Prop := let '(r, t, m, g) := e in reg_goal r t m g.

(** * Fallback: Register = T, one lane *)

Definition fb_inst (d : fb_def) (T : Type) (Mt : MathOps T) : gen_def T T :=
  match d with
  | FB_n f => D_n (f T Mt) | FB_v f => D_v (f T Mt) | FB_sv f => D_sv (f T Mt) | FB_vvv f => D_vvv (f T Mt)
  | FB_vvvv f => D_vvvv (f T Mt) | FB_vs f => D_vs (f T Mt) | FB_d f => D_d (f T Mt) | FB_sd f => D_sd (f T Mt)
  | FB_ddd f => D_ddd (f T Mt) | FB_dddd f => D_dddd (f T Mt) | FB_dv f => D_dv (f T Mt)
  | FB_vvvo f => O_vvv (f T Mt) | FB_dddo f => O_ddd (f T Mt)
  end.

Definition fb_goal (m : rmeth) (d : fb_def) : Prop :=
  forall (T : Type) (Mt : MathOps T),
    method_goal T T (fallback_ops Mt) (fun x => hd (m_zero Mt) x) (fun v => [v]) (fun _ => True) m (fb_inst d T Mt).

Definition fb_entry_goal (e : rmeth * fb_def) : Prop := fb_goal (fst e) (snd e).
