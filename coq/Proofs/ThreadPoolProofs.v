(* Lemma library for Model/ThreadPool.v (C17). *)
From Coq Require Import ZArith List Bool String Ascii Lia Arith.
From CF Require Import Gen.GenConstsUtils Model.AlignedBuf Model.ThreadPool.
Import ListNotations.
Open Scope Z_scope.

(* ---------------------------------------------------------------------------------------------- *)
(* usize::from_str                                                                                *)
(* ---------------------------------------------------------------------------------------------- *)

Lemma digit_of_range : forall c d, digit_of c = Some d -> 0 <= d <= 9.
Proof.
  intros c d. unfold digit_of.
  destruct ((48 <=? Z.of_N (N_of_ascii c)) && (Z.of_N (N_of_ascii c) <=? 57)) eqn:E; [|discriminate].
  apply andb_true_iff in E. destruct E as [E1 E2]. apply Z.leb_le in E1. apply Z.leb_le in E2.
  intros H; inversion H; subst. lia.
Qed.

Lemma parse_digits_range : forall s acc n, 0 <= acc -> parse_digits acc s = Some n -> acc <= n < USIZE \/ (s = EmptyString /\ n = acc).
Proof.
  intros s; induction s as [|c r IH]; intros acc n Hacc H; cbn [parse_digits] in H.
  - inversion H; subst. right; split; reflexivity.
  - destruct (digit_of c) as [d|] eqn:Ed; [|discriminate].
    pose proof (digit_of_range c d Ed) as Hd.
    destruct (Z.ltb_spec (acc * 10 + d) USIZE) as [Hlt|Hge]; [|discriminate].
    destruct (IH (acc * 10 + d) n ltac:(lia) H) as [Hr|[_ Hr]]; left; lia.
Qed.

(* a successfully parsed count is a usize *)
Lemma parse_usize_range : forall s n, parse_usize s = Some n -> 0 <= n < USIZE.
Proof.
  intros s n H. unfold parse_usize in H. destruct s as [|c r]; [discriminate|].
  assert (HU : 0 < USIZE) by (vm_compute; reflexivity).
  destruct ((Ascii.eqb c "+" || Ascii.eqb c "-") && match r with EmptyString => true | _ => false end); [discriminate|].
  destruct (Ascii.eqb c "+").
  - destruct (parse_digits_range r 0 n ltac:(lia) H) as [Hr|[_ Hr]]; lia.
  - destruct (parse_digits_range (String c r) 0 n ltac:(lia) H) as [Hr|[Hr _]]; [lia|discriminate].
Qed.

(* value classes of the property: empty, negative, and anything containing a non-digit are rejected *)
Lemma parse_usize_empty : parse_usize EmptyString = None.
Proof. reflexivity. Qed.

Lemma parse_usize_negative : forall s, parse_usize (String "-" s) = None.
Proof. intros s. unfold parse_usize. destruct s; reflexivity. Qed.

Lemma parse_digits_bad : forall s1 c s2 acc, digit_of c = None -> parse_digits acc (s1 ++ String c s2) = None.
Proof.
  intros s1; induction s1 as [|a r IH]; intros c s2 acc Hc; cbn [append parse_digits].
  - rewrite Hc. reflexivity.
  - destruct (digit_of a); [|reflexivity]. destruct (_ <? _); [apply IH; exact Hc | reflexivity].
Qed.

(* once the accumulated value has left usize the parse fails (huge numbers) *)
Lemma parse_digits_some_lt : forall s acc n, parse_digits acc s = Some n -> s <> EmptyString -> n < USIZE.
Proof.
  intros s; induction s as [|c r IH]; intros acc n H Hne; [congruence|].
  cbn [parse_digits] in H. destruct (digit_of c) as [d|]; [|discriminate].
  destruct (Z.ltb_spec (acc * 10 + d) USIZE) as [Hlt|]; [|discriminate].
  destruct r as [|c' r'].
  - cbn [parse_digits] in H. inversion H; subst. exact Hlt.
  - eapply IH; [exact H | discriminate].
Qed.

(* parse_usize is exactly the specification: optional '+', one or more digits, decimal value < 2^64 *)
Lemma digits_val_ge : forall s acc v, 0 <= acc -> digits_val acc s = Some v -> acc <= v.
Proof.
  intros s; induction s as [|c r IH]; intros acc v Hacc H; cbn [digits_val] in H.
  - inversion H; subst. lia.
  - destruct (digit_of c) as [d|] eqn:Ed; [|discriminate].
    pose proof (digit_of_range c d Ed) as Hd.
    pose proof (IH (acc * 10 + d) v ltac:(lia) H). lia.
Qed.

Lemma parse_digits_spec : forall s acc, 0 <= acc < USIZE ->
  parse_digits acc s = match digits_val acc s with Some v => if v <? USIZE then Some v else None | None => None end.
Proof.
  intros s; induction s as [|c r IH]; intros acc Hacc; cbn [parse_digits digits_val].
  - rewrite (proj2 (Z.ltb_lt acc USIZE)) by lia. reflexivity.
  - destruct (digit_of c) as [d|] eqn:Ed; [|reflexivity].
    pose proof (digit_of_range c d Ed) as Hd.
    destruct (Z.ltb_spec (acc * 10 + d) USIZE) as [Hlt|Hge].
    + apply IH. lia.
    + destruct (digits_val (acc * 10 + d) r) as [v|] eqn:Ev; [|reflexivity].
      pose proof (digits_val_ge r (acc * 10 + d) v ltac:(lia) Ev) as Hv.
      rewrite (proj2 (Z.ltb_ge v USIZE)) by lia. reflexivity.
Qed.

Lemma parse_usize_spec : forall s, parse_usize s = spec_parse_usize s.
Proof.
  intros s. assert (HU : 0 <= 0 < USIZE) by (split; [lia | vm_compute; reflexivity]).
  destruct s as [|c r]; [reflexivity|]. unfold parse_usize, spec_parse_usize.
  destruct (Ascii.eqb_spec c "+") as [Ep|Ep].
  - subst c. cbn [orb andb]. destruct r as [|c' r']; [reflexivity|]. apply parse_digits_spec. exact HU.
  - cbn [orb]. destruct (Ascii.eqb_spec c "-") as [Em|Em].
    + subst c. destruct r as [|c' r']; [reflexivity|]. cbn [andb]. apply parse_digits_spec. exact HU.
    + cbn [andb]. apply parse_digits_spec. exact HU.
Qed.

(* ---------------------------------------------------------------------------------------------- *)
(* booleans                                                                                       *)
(* ---------------------------------------------------------------------------------------------- *)

Lemma cast_bool_spec : forall tp v, cast_bool tp v = true <-> In v (TRUEV tp).
Proof.
  intros tp v. unfold cast_bool. rewrite existsb_exists. split.
  - intros (x & Hin & Heq). apply String.eqb_eq in Heq. subst. exact Hin.
  - intros Hin. exists v. split; [exact Hin | apply String.eqb_refl].
Qed.

Lemma config_bool_absent : forall tp e name, env_var e name = None -> config_bool tp e name = false.
Proof. intros tp e name H. unfold config_bool. rewrite H. reflexivity. Qed.

(* ---------------------------------------------------------------------------------------------- *)
(* thread count                                                                                   *)
(* ---------------------------------------------------------------------------------------------- *)

Lemma parse_or_nonneg : forall P v, 0 <= P -> 0 <= parse_or P v.
Proof.
  intros P v HP. unfold parse_or. destruct (parse_usize v) as [n|] eqn:E; [|exact HP].
  apply parse_usize_range in E. lia.
Qed.

Lemma config_num_threads_nonneg : forall tp e P, 0 <= P -> 0 <= config_num_threads tp e P.
Proof.
  intros tp e P HP. unfold config_num_threads. destruct (first_var e (config_vars tp)); [apply parse_or_nonneg|]; exact HP.
Qed.

(* the crate's own variable has priority and, when it parses, is the configured count *)
Lemma config_num_threads_own : forall tp e P v n,
  env_var e (V_NUM tp) = Some v -> parse_usize v = Some n -> config_num_threads tp e P = n.
Proof.
  intros tp e P v n Hv Hn. unfold config_num_threads, config_vars. cbn [first_var]. rewrite Hv. unfold parse_or. rewrite Hn. reflexivity.
Qed.

Lemma config_num_threads_own_invalid : forall tp e P v,
  env_var e (V_NUM tp) = Some v -> parse_usize v = None -> config_num_threads tp e P = P.
Proof.
  intros tp e P v Hv Hn. unfold config_num_threads, config_vars. cbn [first_var]. rewrite Hv. unfold parse_or. rewrite Hn. reflexivity.
Qed.

Lemma config_num_threads_unset : forall tp e P,
  COMPAT tp = false -> env_var e (V_NUM tp) = None -> config_num_threads tp e P = P.
Proof.
  intros tp e P Hc Hv. unfold config_num_threads, config_vars. rewrite Hc. cbn [first_var]. rewrite Hv. reflexivity.
Qed.

(* a positive request (or, when a configured 0 is mapped to the default, any request) reaches rayon as a positive
   number no larger than P, and rayon uses it as it is *)
Lemma threads_of_positive_request : forall tp e P avail cfg,
  COMBINE_MIN tp = true -> 1 <= P <= RAYON_MAX -> 0 < cfg ->
  rayon_threads e avail (requested tp cfg P) = Z.min cfg P.
Proof.
  intros tp e P avail cfg Hm HP Hc. unfold requested, rayon_threads. rewrite Hm.
  rewrite (proj2 (Z.eqb_neq cfg 0)) by lia.
  assert (E : (if ZERO_DEFAULT tp then Z.min cfg P else Z.min cfg P) = Z.min cfg P) by (destruct (ZERO_DEFAULT tp); reflexivity).
  rewrite E. rewrite (proj2 (Z.ltb_lt 0 (Z.min cfg P))) by lia. lia.
Qed.

Lemma threads_of_zero_request_default : forall tp e P avail,
  ZERO_DEFAULT tp = true -> 1 <= P <= RAYON_MAX ->
  rayon_threads e avail (requested tp 0 P) = P.
Proof.
  intros tp e P avail Hz HP. unfold requested, rayon_threads. rewrite Hz. cbn [Z.eqb].
  rewrite (proj2 (Z.ltb_lt 0 P)) by lia. lia.
Qed.

(* the size statement for one configured count *)
Definition size_ok (tp : tp_params) (e : env) (P avail : Z) : Prop :=
  let cfg := config_num_threads tp e P in
  let t := pool_threads tp e P avail in
  1 <= t <= P /\ (0 < cfg -> t = Z.min cfg P)
  /\ (forall v n, env_var e (V_NUM tp) = Some v -> parse_usize v = Some n -> 0 < n -> t = Z.min n P).

Lemma size_guarded : forall tp e P avail,
  COMBINE_MIN tp = true -> 1 <= P <= RAYON_MAX -> 1 <= avail ->
  ZERO_DEFAULT tp = true \/ config_num_threads tp e P <> 0 ->
  size_ok tp e P avail.
Proof.
  intros tp e P avail Hm HP Ha Hg. unfold size_ok, pool_threads.
  pose proof (config_num_threads_nonneg tp e P ltac:(lia)) as Hc.
  set (cfg := config_num_threads tp e P) in *.
  assert (Ht : 1 <= rayon_threads e avail (requested tp cfg P) <= P
               /\ (0 < cfg -> rayon_threads e avail (requested tp cfg P) = Z.min cfg P)).
  { destruct (Z.eq_dec cfg 0) as [E0|E0].
    - destruct Hg as [Hz|Hz]; [|congruence]. rewrite E0.
      rewrite (threads_of_zero_request_default tp e P avail Hz HP). split; [lia | intros; lia].
    - rewrite (threads_of_positive_request tp e P avail cfg Hm HP ltac:(lia)). split; [lia | reflexivity]. }
  destruct Ht as [Ht1 Ht2]. split; [exact Ht1|]. split; [exact Ht2|].
  intros v n Hv Hn Hpos. pose proof (config_num_threads_own tp e P v n Hv Hn) as Hown. fold cfg in Hown.
  rewrite <- Hown. apply Ht2. lia.
Qed.

(* with the plain min a configured 0 reaches rayon, which then follows RAYON_NUM_THREADS / the visible CPUs *)
Lemma zero_request_follows_rayon : forall tp e P avail,
  COMBINE_MIN tp = true -> ZERO_DEFAULT tp = false -> 1 <= P -> config_num_threads tp e P = 0 ->
  pool_threads tp e P avail = Z.min (rayon_default e avail) RAYON_MAX.
Proof.
  intros tp e P avail Hm Hz HP Hc. unfold pool_threads, requested, rayon_threads. rewrite Hc, Hm, Hz.
  rewrite (Z.min_l 0 P) by lia. cbn [Z.ltb Z.compare]. reflexivity.
Qed.

(* ---------------------------------------------------------------------------------------------- *)
(* pinning / create_pool                                                                          *)
(* ---------------------------------------------------------------------------------------------- *)

Lemma workers_length : forall t, List.length (workers t) = Z.to_nat t.
Proof. intros t. unfold workers. rewrite map_length, seq_length. reflexivity. Qed.

Lemma in_workers : forall t i, In i (workers t) <-> 0 <= i < t.
Proof.
  intros t i. unfold workers. rewrite in_map_iff. split.
  - intros (k & Hk & Hin). apply in_seq in Hin. lia.
  - intros Hi. exists (Z.to_nat i). split; [lia | apply in_seq; lia].
Qed.

Lemma pin_panics_iff : forall tp prof allowed i,
  pin_current tp prof allowed i = PinPanic <->
  OOB_PANIC tp = true /\ prof = Debug /\ 0 < Z.of_nat (List.length allowed) <= i.
Proof.
  intros tp prof allowed i. unfold pin_current.
  set (A := Z.of_nat (List.length allowed)).
  assert (HA : 0 <= A) by (unfold A; lia).
  destruct (Z.eqb_spec A 0) as [E|E].
  - split; [discriminate | lia].
  - destruct (Z.leb_spec A i) as [L|L].
    + destruct (OOB_PANIC tp); destruct prof; cbn [andb is_debug]; split; try discriminate; try tauto;
        try (intros (H1 & H2 & H3); discriminate); try (intros _; repeat split; lia).
    + split; [discriminate | lia].
Qed.

Definition abort_condition (tp : tp_params) (prof : profile) (e : env) (P avail : Z) (allowed : list Z) : Prop :=
  OOB_PANIC tp = true /\ prof = Debug /\ pinning_on tp e = true
  /\ 0 < Z.of_nat (List.length allowed) < pool_threads tp e P avail.

(* create_pool aborts exactly under the abort condition *)
Lemma create_pool_abort_iff : forall tp prof e P avail allowed,
  create_pool tp prof e P avail allowed = PoolAbort <-> abort_condition tp prof e P avail allowed.
Proof.
  intros tp prof e P avail allowed. unfold create_pool, abort_condition.
  set (t := pool_threads tp e P avail). set (A := Z.of_nat (List.length allowed)).
  destruct (pinning_on tp e); [|split; [discriminate | intros (_ & _ & H & _); discriminate]].
  destruct (existsb is_panic (map (pin_current tp prof allowed) (workers t))) eqn:E.
  - split; [intros _ | reflexivity].
    apply existsb_exists in E. destruct E as (r & Hin & Hr). apply in_map_iff in Hin. destruct Hin as (i & Hi & Hw).
    destruct r; try discriminate. apply pin_panics_iff in Hi. apply in_workers in Hw. fold A in Hi. intuition lia.
  - split; [discriminate|]. intros (H1 & H2 & _ & H4). exfalso.
    assert (Hp : existsb is_panic (map (pin_current tp prof allowed) (workers t)) = true).
    { apply existsb_exists. exists PinPanic. split; [|reflexivity]. apply in_map_iff. exists A. split.
      - apply pin_panics_iff. fold A. intuition lia.
      - apply in_workers. lia. }
    congruence.
Qed.

Lemma create_pool_ok : forall tp prof e P avail allowed,
  ~ abort_condition tp prof e P avail allowed ->
  exists aff, create_pool tp prof e P avail allowed = PoolOk (pool_threads tp e P avail) aff
              /\ List.length aff = Z.to_nat (pool_threads tp e P avail).
Proof.
  intros tp prof e P avail allowed Hn.
  destruct (create_pool tp prof e P avail allowed) as [t aff|] eqn:E.
  - unfold create_pool in E. destruct (pinning_on tp e).
    + destruct (existsb _ _); [discriminate|]. inversion E; subst. eexists; split; [reflexivity|].
      rewrite !map_length. apply workers_length.
    + inversion E; subst. eexists; split; [reflexivity|]. rewrite map_length. apply workers_length.
  - exfalso. apply Hn. apply create_pool_abort_iff. exact E.
Qed.

Lemma nth_map_const : forall (A B : Type) (b : B) (l : list A) n, nth n (map (fun _ => b) l) b = b.
Proof. intros A B b l; induction l as [|x l IH]; intros [|n]; cbn [map nth]; auto. Qed.

(* worker i is pinned to the i-th allowed core exactly when pinning is on and i is inside the mask *)
Lemma worker_affinity : forall tp prof e P avail allowed t aff i,
  create_pool tp prof e P avail allowed = PoolOk t aff -> 0 <= i < t ->
  nth (Z.to_nat i) aff None =
  if pinning_on tp e && (i <? Z.of_nat (List.length allowed)) then Some (nth (Z.to_nat i) allowed (-1)) else None.
Proof.
  intros tp prof e P avail allowed t aff i H Hi. unfold create_pool in H.
  assert (Hnth : nth (Z.to_nat i) (workers t) 0 = i).
  { unfold workers. rewrite (map_nth Z.of_nat (seq 0 (Z.to_nat t)) 0%nat).
    rewrite seq_nth by lia. lia. }
  assert (Hlen : (Z.to_nat i < List.length (workers t))%nat) by (rewrite workers_length; lia).
  destruct (pinning_on tp e); cbn [andb].
  - destruct (existsb is_panic (map (pin_current tp prof allowed) (workers (pool_threads tp e P avail)))) eqn:Ex; [discriminate|].
    inversion H; subst t aff. clear H.
    rewrite (nth_indep _ None (aff_of PinFalse)) by (rewrite !map_length; exact Hlen).
    rewrite (map_nth aff_of).
    rewrite (nth_indep _ PinFalse (pin_current tp prof allowed 0)) by (rewrite map_length; exact Hlen).
    rewrite (map_nth (pin_current tp prof allowed)). rewrite Hnth.
    unfold pin_current. set (A := Z.of_nat (List.length allowed)).
    destruct (Z.eqb_spec A 0) as [E0|E0].
    + rewrite (proj2 (Z.ltb_ge i A)) by lia. reflexivity.
    + destruct (Z.leb_spec A i) as [L|L].
      * rewrite (proj2 (Z.ltb_ge i A)) by lia. destruct (OOB_PANIC tp && is_debug prof) eqn:Ep; [|reflexivity].
        exfalso. rewrite <- not_true_iff_false in Ex. apply Ex. apply existsb_exists. exists PinPanic. split; [|reflexivity].
        apply in_map_iff. exists i. split; [|apply in_workers; lia].
        unfold pin_current. fold A. rewrite (proj2 (Z.eqb_neq A 0)) by lia. rewrite (proj2 (Z.leb_le A i)) by lia.
        rewrite Ep. reflexivity.
      * rewrite (proj2 (Z.ltb_lt i A)) by lia. reflexivity.
  - inversion H; subst t aff.
    apply nth_map_const.
Qed.

(* ---------------------------------------------------------------------------------------------- *)
(* the OnceLock machine                                                                           *)
(* ---------------------------------------------------------------------------------------------- *)

Lemma upd_same : forall f t x, upd f t x t = x.
Proof. intros. unfold upd. rewrite Nat.eqb_refl. reflexivity. Qed.

Lemma upd_other : forall f t x t', t' <> t -> upd f t x t' = f t'.
Proof. intros f t x t' H. unfold upd. rewrite (proj2 (Nat.eqb_neq t' t) H). reflexivity. Qed.

(* caching enabled: invariant *)
Definition inv_cached (s : mstate) : Prop :=
  match m_cell s with
  | CEmpty => forall t, m_pc s t = PStart
  | CRunning r => m_pc s r = PInit /\ forall t, t <> r -> m_pc s t = PStart
  | CDone v => exists p, v = Some p /\ forall t, m_pc s t = PStart \/ m_pc s t = PAfter (Some p) \/ m_pc s t = PRet false p
  end.

Lemma inv_cached_init : inv_cached init_state.
Proof. intros t. reflexivity. Qed.

Lemma inv_cached_step : forall ok s t, inv_cached s -> inv_cached (step false ok s t).
Proof.
  intros ok s t H. unfold step. destruct (m_abort s); [exact H|].
  unfold inv_cached in *.
  destruct (m_pc s t) as [| |[p|]|o i] eqn:Ept.
  - (* PStart *)
    destruct (m_cell s) as [|r|v] eqn:Ec; cbn [m_cell m_pc].
    + split; [apply upd_same|]. intros t' Hne. rewrite upd_other by exact Hne. apply H.
    + rewrite Ec. exact H.
    + destruct H as (p & Hv & Hall). exists p. split; [exact Hv|]. intros t'.
      destruct (Nat.eq_dec t' t) as [E|E]; [subst t'; rewrite upd_same; subst v; auto | rewrite upd_other by exact E; apply Hall].
  - (* PInit: only the runner can be here *)
    destruct (m_cell s) as [|r|v] eqn:Ec.
    + rewrite H in Ept. discriminate.
    + destruct H as [Hr Ho]. destruct (Nat.eq_dec t r) as [E|E]; [|rewrite (Ho t E) in Ept; discriminate]. subst r.
      cbn [m_cell m_pc]. destruct ok; cbn [m_cell m_pc].
      * exists (m_next s). split; [reflexivity|]. intros t'.
        destruct (Nat.eq_dec t' t) as [E|E]; [subst t'; rewrite upd_same; auto | rewrite upd_other by exact E; left; apply Ho; exact E].
      * split; assumption.
    + destruct H as (p & _ & Hall). destruct (Hall t) as [E|[E|E]]; rewrite E in Ept; discriminate.
  - (* PAfter (Some p) *)
    cbn [m_cell m_pc]. destruct (m_cell s) as [|r|v] eqn:Ec.
    + rewrite H in Ept. discriminate.
    + destruct H as [Hr Ho]. destruct (Nat.eq_dec t r) as [E|E]; [subst; congruence | rewrite (Ho t E) in Ept; discriminate].
    + destruct H as (q & Hv & Hall). exists q. split; [exact Hv|]. intros t'.
      destruct (Nat.eq_dec t' t) as [E|E]; [|rewrite upd_other by exact E; apply Hall].
      subst t'. rewrite upd_same. destruct (Hall t) as [E|[E|E]]; rewrite E in Ept; try discriminate.
      inversion Ept; subst. auto.
  - (* PAfter None: impossible with caching *)
    exfalso. destruct (m_cell s) as [|r|v] eqn:Ec.
    + rewrite H in Ept. discriminate.
    + destruct H as [Hr Ho]. destruct (Nat.eq_dec t r) as [E|E]; [subst; congruence | rewrite (Ho t E) in Ept; discriminate].
    + destruct H as (q & _ & Hall). destruct (Hall t) as [E|[E|E]]; rewrite E in Ept; discriminate.
  - exact H.
Qed.

Lemma inv_cached_run : forall ok sched s, inv_cached s -> inv_cached (fold_left (step false ok) sched s).
Proof.
  intros ok sched; induction sched as [|t r IH]; intros s H; cbn [fold_left]; [exact H|].
  apply IH. apply inv_cached_step. exact H.
Qed.

(* caching enabled: every caller that has returned holds the same, borrowed, pool *)
Lemma cached_shared : forall ok sched t1 t2 o1 o2 i1 i2,
  m_pc (run false ok sched) t1 = PRet o1 i1 -> m_pc (run false ok sched) t2 = PRet o2 i2 ->
  i1 = i2 /\ o1 = false /\ o2 = false.
Proof.
  intros ok sched t1 t2 o1 o2 i1 i2 H1 H2.
  pose proof (inv_cached_run ok sched init_state inv_cached_init) as Hinv. fold (run false ok sched) in Hinv.
  unfold inv_cached in Hinv. destruct (m_cell (run false ok sched)) as [|r|v].
  - rewrite Hinv in H1. discriminate.
  - destruct Hinv as [Hr Ho]. destruct (Nat.eq_dec t1 r) as [E|E]; [subst; congruence | rewrite (Ho t1 E) in H1; discriminate].
  - destruct Hinv as (p & _ & Hall).
    destruct (Hall t1) as [E1|[E1|E1]]; rewrite E1 in H1; try discriminate.
    destruct (Hall t2) as [E2|[E2|E2]]; rewrite E2 in H2; try discriminate.
    inversion H1; inversion H2; subst. auto.
Qed.

(* caching disabled: invariant *)
Definition inv_n (c : cell) (nx : nat) (f : nat -> pc) : Prop :=
  (forall t o i, f t = PRet o i -> o = true /\ (i < nx)%nat)
  /\ (forall t1 t2 o1 o2 i, t1 <> t2 -> f t1 = PRet o1 i -> f t2 = PRet o2 i -> False)
  /\ (forall t v, f t = PAfter v -> v = None)
  /\ (forall v, c = CDone v -> v = None).

Definition inv_nocache (s : mstate) : Prop := inv_n (m_cell s) (m_next s) (m_pc s).

Lemma inv_nocache_init : inv_nocache init_state.
Proof.
  unfold inv_nocache, inv_n. cbn [init_state m_cell m_next m_pc].
  refine (conj _ (conj _ (conj _ _))); intros; discriminate.
Qed.

(* a caller moves to a state that is not a return *)
Lemma inv_n_upd_nonret : forall c c' nx f t x,
  inv_n c nx f -> (forall o i, x <> PRet o i) -> (forall v, x = PAfter v -> v = None) ->
  (forall v, c' = CDone v -> v = None) -> inv_n c' nx (upd f t x).
Proof.
  intros c c' nx f t x (H1 & H2 & H3 & H4) Hx1 Hx2 Hc.
  refine (conj _ (conj _ (conj _ _))).
  - intros t' o i H. destruct (Nat.eq_dec t' t) as [E|E].
    + subst. rewrite upd_same in H. exfalso. eapply Hx1. exact H.
    + rewrite upd_other in H by exact E. eapply H1. exact H.
  - intros t1 t2 o1 o2 i Hne Ha Hb.
    destruct (Nat.eq_dec t1 t) as [E1|E1]; [subst; rewrite upd_same in Ha; eapply Hx1; exact Ha|].
    destruct (Nat.eq_dec t2 t) as [E2|E2]; [subst; rewrite upd_same in Hb; eapply Hx1; exact Hb|].
    rewrite upd_other in Ha, Hb by assumption. exact (H2 t1 t2 o1 o2 i Hne Ha Hb).
  - intros t' v H. destruct (Nat.eq_dec t' t) as [E|E].
    + subst. rewrite upd_same in H. apply Hx2. exact H.
    + rewrite upd_other in H by exact E. eapply H3. exact H.
  - exact Hc.
Qed.

(* a caller returns a fresh, owned pool *)
Lemma inv_n_upd_ret : forall c nx f t, inv_n c nx f -> inv_n c (S nx) (upd f t (PRet true nx)).
Proof.
  intros c nx f t (H1 & H2 & H3 & H4).
  refine (conj _ (conj _ (conj _ _))).
  - intros t' o i H. destruct (Nat.eq_dec t' t) as [E|E].
    + subst. rewrite upd_same in H. inversion H; subst. split; [reflexivity | lia].
    + rewrite upd_other in H by exact E. apply H1 in H. split; [tauto | lia].
  - intros t1 t2 o1 o2 i Hne Ha Hb.
    destruct (Nat.eq_dec t1 t) as [E1|E1]; destruct (Nat.eq_dec t2 t) as [E2|E2]; subst;
      rewrite ?upd_same in *; rewrite ?upd_other in * by assumption.
    + congruence.
    + inversion Ha; subst. apply H1 in Hb. lia.
    + inversion Hb; subst. apply H1 in Ha. lia.
    + exact (H2 t1 t2 o1 o2 i Hne Ha Hb).
  - intros t' v H. destruct (Nat.eq_dec t' t) as [E|E]; [subst; rewrite upd_same in H; discriminate|].
    rewrite upd_other in H by exact E. eapply H3. exact H.
  - exact H4.
Qed.

Lemma inv_nocache_step : forall ok s t, inv_nocache s -> inv_nocache (step true ok s t).
Proof.
  intros ok s t H. unfold step. destruct (m_abort s); [exact H|].
  unfold inv_nocache in *.
  destruct (m_pc s t) as [| |[p|]|o i] eqn:Ept.
  - (* PStart *)
    destruct (m_cell s) as [|r|v] eqn:Ec; cbn [m_cell m_pc m_next].
    + eapply inv_n_upd_nonret; [exact H | intros; discriminate | intros; discriminate | intros; discriminate].
    + rewrite Ec. exact H.
    + assert (Hv : v = None) by (destruct H as (_ & _ & _ & H4); apply H4; reflexivity). subst v.
      eapply inv_n_upd_nonret; [exact H | intros; discriminate | intros v E; inversion E; reflexivity | intros v E; inversion E; reflexivity].
  - (* PInit *)
    cbn [m_cell m_pc m_next].
    eapply inv_n_upd_nonret; [exact H | intros; discriminate | intros v E; inversion E; reflexivity | intros v E; inversion E; reflexivity].
  - (* PAfter (Some p): impossible without caching *)
    destruct H as (_ & _ & H3 & _). specialize (H3 t (Some p) Ept). discriminate.
  - (* PAfter None: a fresh, owned pool *)
    destruct ok; cbn [m_cell m_pc m_next]; [apply inv_n_upd_ret; exact H | exact H].
  - exact H.
Qed.

Lemma inv_nocache_run : forall ok sched s, inv_nocache s -> inv_nocache (fold_left (step true ok) sched s).
Proof.
  intros ok sched; induction sched as [|t r IH]; intros s H; cbn [fold_left]; [exact H|].
  apply IH. apply inv_nocache_step. exact H.
Qed.

(* caching disabled: every caller that has returned owns its own pool; distinct callers hold distinct pools *)
Lemma nocache_distinct : forall ok sched t1 t2 o1 o2 i1 i2,
  m_pc (run true ok sched) t1 = PRet o1 i1 -> m_pc (run true ok sched) t2 = PRet o2 i2 ->
  o1 = true /\ o2 = true /\ (t1 <> t2 -> i1 <> i2).
Proof.
  intros ok sched t1 t2 o1 o2 i1 i2 Ha Hb.
  destruct (inv_nocache_run ok sched init_state inv_nocache_init) as (H1 & H2 & _). fold (run true ok sched) in H1, H2.
  cbn beta in H1, H2.
  repeat split.
  - eapply H1; exact Ha.
  - eapply H1; exact Hb.
  - intros Hne E. subst i2. eapply H2; eassumption.
Qed.

(* the process aborts only if create_pool does *)
Lemma abort_only_if_create_fails : forall nocache sched s,
  m_abort s = false -> m_abort (fold_left (step nocache true) sched s) = false.
Proof.
  intros nocache sched; induction sched as [|t r IH]; intros s H; cbn [fold_left]; [exact H|].
  apply IH. unfold step. rewrite H.
  destruct (m_pc s t) as [| |[p|]|o i]; try exact H; cbn [m_abort]; try reflexivity.
  - destruct (m_cell s); try exact H; reflexivity.
  - destruct nocache; reflexivity.
Qed.

(* whoever holds the cell in state Running is inside the initialiser *)
Definition inv_runner (s : mstate) : Prop := forall r, m_cell s = CRunning r -> m_pc s r = PInit.

Lemma inv_runner_step : forall nc ok s t, inv_runner s -> inv_runner (step nc ok s t).
Proof.
  intros nc ok s t H. unfold step. destruct (m_abort s); [exact H|].
  destruct (m_pc s t) as [| |[p|]|o i] eqn:Ept.
  - destruct (m_cell s) as [|r0|v] eqn:Ec.
    + intros r E. cbn [m_cell m_pc] in *. inversion E; subst. apply upd_same.
    + exact H.
    + intros r E. cbn [m_cell] in E. discriminate.
  - destruct nc; [intros r E; discriminate|]. destruct ok; [intros r E; discriminate|].
    intros r E. cbn [m_cell m_pc] in *. apply H. exact E.
  - intros r E. cbn [m_cell m_pc] in *.
    destruct (Nat.eq_dec r t) as [E2|E2]; [subst; rewrite (H t E) in Ept; discriminate|].
    rewrite upd_other by exact E2. apply H. exact E.
  - destruct ok; intros r E; cbn [m_cell m_pc] in *; [|apply H; exact E].
    destruct (Nat.eq_dec r t) as [E2|E2]; [subst; rewrite (H t E) in Ept; discriminate|].
    rewrite upd_other by exact E2. apply H. exact E.
  - exact H.
Qed.

Lemma inv_runner_run : forall nc ok sched s, inv_runner s -> inv_runner (fold_left (step nc ok) sched s).
Proof.
  intros nc ok sched; induction sched as [|t r IH]; intros s H; cbn [fold_left]; [exact H|].
  apply IH. apply inv_runner_step. exact H.
Qed.

(* no deadlock: while some caller has not returned, some caller can take a step that changes the state *)
Lemma progress : forall nocache sched t,
  let s := run nocache true sched in
  (forall o i, m_pc s t <> PRet o i) ->
  exists t', step nocache true s t' <> s.
Proof.
  intros nocache sched t s Hnr.
  assert (Hab : m_abort s = false) by (apply abort_only_if_create_fails; reflexivity).
  assert (Hinv : inv_runner s) by (apply inv_runner_run; intros r E; discriminate).
  assert (Hne : forall (a b : mstate), m_pc a <> m_pc b -> a <> b) by (intros a b H E; apply H; rewrite E; reflexivity).
  assert (Hpcne : forall t0 x, m_pc s t0 <> x -> upd (m_pc s) t0 x <> m_pc s).
  { intros t0 x H E. apply H. rewrite <- E. rewrite upd_same. reflexivity. }
  destruct (m_pc s t) as [| |[p|]|o i] eqn:Ept.
  - destruct (m_cell s) as [|r|v] eqn:Ec.
    + exists t. unfold step. rewrite Hab, Ept, Ec. apply Hne. cbn [m_pc]. apply Hpcne. congruence.
    + exists r. unfold step. rewrite Hab, (Hinv r Ec).
      destruct nocache; apply Hne; cbn [m_pc]; apply Hpcne; rewrite (Hinv r Ec); discriminate.
    + exists t. unfold step. rewrite Hab, Ept, Ec. apply Hne. cbn [m_pc]. apply Hpcne. congruence.
  - exists t. unfold step. rewrite Hab, Ept. destruct nocache; apply Hne; cbn [m_pc]; apply Hpcne; congruence.
  - exists t. unfold step. rewrite Hab, Ept. apply Hne; cbn [m_pc]; apply Hpcne; congruence.
  - exists t. unfold step. rewrite Hab, Ept. apply Hne; cbn [m_pc]; apply Hpcne; congruence.
  - exfalso. eapply Hnr. reflexivity.
Qed.

(* ---------------------------------------------------------------------------------------------- *)
(* The statements of C17 for the current source                                                   *)
(* ---------------------------------------------------------------------------------------------- *)

(* size: proved for every configuration when a configured 0 means "default"; with the plain min it is proved for
   every configuration whose configured count is not 0 and REFUTED for a configured 0 *)
Definition size_total (tp : tp_params) : Prop :=
  forall e P avail, 1 <= P <= RAYON_MAX -> 1 <= avail -> size_ok tp e P avail.

Definition size_guarded_stmt (tp : tp_params) : Prop :=
  forall e P avail, 1 <= P <= RAYON_MAX -> 1 <= avail -> config_num_threads tp e P <> 0 -> size_ok tp e P avail.

Definition size_witness (tp : tp_params) : Prop :=
  exists e P avail, 1 <= P <= RAYON_MAX /\ 1 <= avail /\ P < pool_threads tp e P avail.

Definition size_total_or_refuted (tp : tp_params) : Prop :=
  if ZERO_DEFAULT tp then size_total tp else size_guarded_stmt tp /\ size_witness tp.

Lemma gen_size_total_or_refuted : forall compat, size_total_or_refuted (gen_tp_params compat).
Proof.
  intros compat. unfold size_total_or_refuted.
  assert (Hm : COMBINE_MIN (gen_tp_params compat) = true) by reflexivity.
  destruct (ZERO_DEFAULT (gen_tp_params compat)) eqn:Hz.
  - intros e P avail HP Ha. apply size_guarded; auto.
  - split.
    + intros e P avail HP Ha Hc. apply size_guarded; auto.
    + exists (env_of [(tp_var_num_threads, EVal "0"%string); ("RAYON_NUM_THREADS"%string, EVal "64"%string)]), 16, 16.
      vm_compute. repeat split; try reflexivity; discriminate.
Qed.

(* totality: proved for every configuration when the out-of-range pin index is not fatal; otherwise proved outside the
   abort condition and REFUTED inside it *)
Definition total_stmt (tp : tp_params) : Prop :=
  forall prof e P avail allowed,
    exists aff, create_pool tp prof e P avail allowed = PoolOk (pool_threads tp e P avail) aff
                /\ List.length aff = Z.to_nat (pool_threads tp e P avail).

Definition total_guarded_stmt (tp : tp_params) : Prop :=
  forall prof e P avail allowed,
    ~ (prof = Debug /\ pinning_on tp e = true /\ 0 < Z.of_nat (List.length allowed) < pool_threads tp e P avail) ->
    exists aff, create_pool tp prof e P avail allowed = PoolOk (pool_threads tp e P avail) aff
                /\ List.length aff = Z.to_nat (pool_threads tp e P avail).

Definition total_witness (tp : tp_params) : Prop :=
  exists prof e P avail allowed, 1 <= P /\ 1 <= avail /\ allowed <> [] /\ create_pool tp prof e P avail allowed = PoolAbort.

Definition total_or_refuted_tp (tp : tp_params) : Prop :=
  if OOB_PANIC tp then total_guarded_stmt tp /\ total_witness tp else total_stmt tp.

Lemma gen_total_or_refuted_tp : forall compat, total_or_refuted_tp (gen_tp_params compat).
Proof.
  intros compat. unfold total_or_refuted_tp.
  destruct (OOB_PANIC (gen_tp_params compat)) eqn:Ho.
  - split.
    + intros prof e P avail allowed Hn. apply create_pool_ok. unfold abort_condition. intuition.
    + exists Debug, (env_of []), 16, 4, [0; 1; 2; 3].
      assert (Hc : create_pool (gen_tp_params compat) Debug (env_of []) 16 4 [0; 1; 2; 3] = PoolAbort).
      { apply create_pool_abort_iff. unfold abort_condition. split; [exact Ho|]. split; [reflexivity|].
        destruct compat; vm_compute; repeat split; reflexivity. }
      repeat split; try lia; [discriminate | exact Hc].
  - intros prof e P avail allowed. apply create_pool_ok. unfold abort_condition. rewrite Ho. intuition discriminate.
Qed.

(* the cache flag: absent / not a true value -> shared; a true value -> fresh pools *)
Lemma gen_nocache_of : forall compat e,
  tp_nocache_disables = true ->
  nocache_of (gen_tp_params compat) e = config_bool (gen_tp_params compat) e tp_var_no_cache.
Proof. intros compat e H. unfold nocache_of. cbn [NOCACHE_DISABLES V_NOCACHE gen_tp_params]. rewrite H. reflexivity. Qed.

Lemma gen_flags_polarity : tp_nocache_disables = true /\ tp_pin_when_not_flag = true /\ tp_combine_is_min = true.
Proof. repeat split; reflexivity. Qed.

Lemma gen_true_values : tp_true_values = spec_true_values.
Proof. reflexivity. Qed.

(* the two flags, read off the environment: a flag is on exactly for a value of TRUE_VALUES *)
Lemma config_bool_true_iff : forall tp e name,
  config_bool tp e name = true <-> exists v, e name = EVal v /\ In v (TRUEV tp).
Proof.
  intros tp e name. unfold config_bool, env_var. destruct (e name) as [| |s].
  - split; [discriminate | intros (v & H & _); discriminate].
  - split; [discriminate | intros (v & H & _); discriminate].
  - rewrite cast_bool_spec. split.
    + intros H. exists s. split; [reflexivity | exact H].
    + intros (v & H & Hin). inversion H; subst. exact Hin.
Qed.

Lemma gen_nocache_iff : forall compat e,
  nocache_of (gen_tp_params compat) e = true <-> exists v, e tp_var_no_cache = EVal v /\ In v tp_true_values.
Proof.
  intros compat e. rewrite (gen_nocache_of compat e eq_refl). apply (config_bool_true_iff (gen_tp_params compat)).
Qed.

Lemma gen_pinning_off_iff : forall compat e,
  pinning_on (gen_tp_params compat) e = false <-> exists v, e tp_var_no_pinning = EVal v /\ In v tp_true_values.
Proof.
  intros compat e. unfold pinning_on.
  assert (Hp : PIN_NEG (gen_tp_params compat) = true) by reflexivity. rewrite Hp.
  rewrite negb_false_iff. apply (config_bool_true_iff (gen_tp_params compat)).
Qed.

(* an invalid value of the crate's own variable (empty, negative, non-numeric, too large: everything
   [spec_parse_usize] rejects) and an absent / non-unicode variable all configure the default P *)
Lemma config_default_classes : forall tp e P,
  COMPAT tp = false ->
  match e (V_NUM tp) with
  | EVal v => spec_parse_usize v = None -> config_num_threads tp e P = P
  | _ => config_num_threads tp e P = P
  end.
Proof.
  intros tp e P Hc. destruct (e (V_NUM tp)) as [| |v] eqn:Ev.
  - apply config_num_threads_unset; [exact Hc | unfold env_var; rewrite Ev; reflexivity].
  - apply config_num_threads_unset; [exact Hc | unfold env_var; rewrite Ev; reflexivity].
  - intros Hn. apply (config_num_threads_own_invalid tp e P v); [unfold env_var; rewrite Ev; reflexivity|].
    rewrite parse_usize_spec. exact Hn.
Qed.

(* the size statement in the shape that holds for BOTH forms of the source *)
Lemma gen_size_guarded : forall compat e P avail,
  1 <= P <= RAYON_MAX -> 1 <= avail ->
  tp_zero_is_default = true \/ config_num_threads (gen_tp_params compat) e P <> 0 ->
  size_ok (gen_tp_params compat) e P avail.
Proof. intros compat e P avail HP Ha Hg. apply size_guarded; auto. Qed.

Lemma gen_create_pool_abort_iff : forall compat prof e P avail allowed,
  create_pool (gen_tp_params compat) prof e P avail allowed = PoolAbort <->
  pin_oob_debug_panics = true /\ prof = Debug /\ pinning_on (gen_tp_params compat) e = true
  /\ 0 < Z.of_nat (List.length allowed) < pool_threads (gen_tp_params compat) e P avail.
Proof. intros. apply create_pool_abort_iff. Qed.

Lemma gen_literals :
  (tp_nocache_disables = true /\ tp_pin_when_not_flag = true /\ tp_combine_is_min = true)
  /\ tp_true_values = spec_true_values.
Proof. exact (conj gen_flags_polarity gen_true_values). Qed.

Lemma gen_config_default_classes : forall e P,
  match e tp_var_num_threads with
  | EVal v => spec_parse_usize v = None -> config_num_threads (gen_tp_params false) e P = P
  | _ => config_num_threads (gen_tp_params false) e P = P
  end.
Proof. intros e P. exact (config_default_classes (gen_tp_params false) e P eq_refl). Qed.

Lemma gen_zero_request_follows_rayon : forall compat e P avail,
  tp_zero_is_default = false -> 1 <= P -> config_num_threads (gen_tp_params compat) e P = 0 ->
  pool_threads (gen_tp_params compat) e P avail = Z.min (rayon_default e avail) RAYON_MAX.
Proof. intros compat e P avail Hz. apply zero_request_follows_rayon; [reflexivity | exact Hz]. Qed.

Lemma gen_worker_affinity : forall compat prof e P avail allowed t aff i,
  create_pool (gen_tp_params compat) prof e P avail allowed = PoolOk t aff -> 0 <= i < t ->
  nth (Z.to_nat i) aff None =
  if pinning_on (gen_tp_params compat) e && (i <? Z.of_nat (List.length allowed))
  then Some (nth (Z.to_nat i) allowed (-1)) else None.
Proof. intros compat. apply worker_affinity. Qed.

Lemma gen_flags : forall compat e,
  (nocache_of (gen_tp_params compat) e = true <-> exists v, e tp_var_no_cache = EVal v /\ In v tp_true_values)
  /\ (pinning_on (gen_tp_params compat) e = false <-> exists v, e tp_var_no_pinning = EVal v /\ In v tp_true_values).
Proof. intros compat e. split; [apply gen_nocache_iff | apply gen_pinning_off_iff]. Qed.

Lemma gen_cached_shared : forall compat e ok sched t1 t2 o1 o2 i1 i2,
  nocache_of (gen_tp_params compat) e = false ->
  m_pc (run (nocache_of (gen_tp_params compat) e) ok sched) t1 = PRet o1 i1 ->
  m_pc (run (nocache_of (gen_tp_params compat) e) ok sched) t2 = PRet o2 i2 ->
  i1 = i2 /\ o1 = false /\ o2 = false.
Proof. intros compat e ok sched t1 t2 o1 o2 i1 i2 H. rewrite H. apply cached_shared. Qed.

Lemma gen_no_abort : forall nocache sched, m_abort (run nocache true sched) = false.
Proof. intros nocache sched. apply abort_only_if_create_fails. reflexivity. Qed.

(* a pool that was created has at least one worker, and every worker came through its start handler *)
Lemma rayon_threads_pos : forall e avail n, 1 <= avail -> 1 <= rayon_threads e avail n.
Proof.
  intros e avail n Ha. unfold rayon_threads, rayon_default, RAYON_MAX.
  destruct (Z.ltb_spec 0 n) as [Hn|Hn]; [lia|].
  destruct (env_usize e "RAYON_NUM_THREADS") as [x|].
  - destruct (Z.ltb_spec 0 x); lia.
  - destruct (env_usize e "RAYON_RS_NUM_CPUS") as [x|]; [destruct (Z.ltb_spec 0 x); lia | lia].
Qed.

Lemma create_pool_ok_inv : forall tp prof e P avail allowed t aff,
  create_pool tp prof e P avail allowed = PoolOk t aff ->
  t = pool_threads tp e P avail /\ List.length aff = Z.to_nat t.
Proof.
  intros tp prof e P avail allowed t aff H. unfold create_pool in H. destruct (pinning_on tp e).
  - destruct (existsb _ _); [discriminate|]. inversion H; subst. split; [reflexivity|].
    rewrite !map_length. apply workers_length.
  - inversion H; subst. split; [reflexivity|]. rewrite map_length. apply workers_length.
Qed.

Lemma gen_workers_started : forall compat prof e P avail allowed t aff,
  1 <= avail ->
  create_pool (gen_tp_params compat) prof e P avail allowed = PoolOk t aff ->
  1 <= t /\ Z.of_nat (List.length aff) = t.
Proof.
  intros compat prof e P avail allowed t aff Ha H. apply create_pool_ok_inv in H. destruct H as [Ht Hl].
  assert (H1 : 1 <= t) by (subst t; unfold pool_threads; apply rayon_threads_pos; exact Ha).
  split; [exact H1 | lia].
Qed.
