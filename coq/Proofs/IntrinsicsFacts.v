(* Facts about the byte/lane views and the intrinsic families of Model/Intrinsics.v: round trips, the action of every
   lane-wise family on registers given as [bytes_of w lanes], view changes between lane widths (8 <-> 16, 32 <-> 64,
   8 <-> 64), byte-level operations (blend, and, xor) on wider lanes.  Standard library only; no axioms. *)
From Coq Require Import ZArith List Arith Bool Lia ZifyBool.
From CF Require Import Model.Prim Model.SimdApi Model.Regs Model.Intrinsics.
From CF Require Import Proofs.ListFacts Proofs.ReduceCorrect.
Import ListNotations.
Local Open Scope Z_scope.

Local Ltac dlia := Z.div_mod_to_equations; lia.

(** * Lists *)

Lemma map2_length {A B C} (f : A -> B -> C) x y : length x = length y -> length (map2 f x y) = length x.
Proof. revert y. induction x as [|a x IH]; intros [|b y] H; cbn in *; try lia. rewrite IH; lia. Qed.

Lemma map3_app {A B C D} (f : A -> B -> C -> D) x1 x2 y1 y2 z1 z2 :
  length x1 = length y1 -> length x1 = length z1 ->
  map3 f (x1 ++ x2) (y1 ++ y2) (z1 ++ z2) = map3 f x1 y1 z1 ++ map3 f x2 y2 z2.
Proof.
  revert y1 z1. induction x1 as [|a x1 IH]; intros [|b y1] [|c z1] H1 H2; cbn in *; try lia; [reflexivity|].
  rewrite IH by lia. reflexivity.
Qed.

Lemma map2_app' {A B C} (f : A -> B -> C) x1 x2 y1 y2 :
  length x1 = length y1 -> map2 f (x1 ++ x2) (y1 ++ y2) = map2 f x1 y1 ++ map2 f x2 y2.
Proof.
  revert y1. induction x1 as [|a x1 IH]; intros [|b y1] H; cbn in *; try lia; [reflexivity|].
  rewrite IH by lia. reflexivity.
Qed.

Lemma Forall_map2 {A B C} (P : C -> Prop) (f : A -> B -> C) x y : (forall a b, P (f a b)) -> Forall P (map2 f x y).
Proof. intros H. revert y. induction x as [|a x IH]; intros [|b y]; cbn; constructor; auto. Qed.
Lemma Forall_map' {A B} (P : B -> Prop) (f : A -> B) x : (forall a, P (f a)) -> Forall P (map f x).
Proof. intros H. induction x; cbn; constructor; auto. Qed.
Lemma Forall_map3 {A B C D} (P : D -> Prop) (f : A -> B -> C -> D) x y z :
  (forall a b c, P (f a b c)) -> Forall P (map3 f x y z).
Proof. intros H. revert y z. induction x as [|a x IH]; intros [|b y] [|c z]; cbn; constructor; auto. Qed.
Lemma Forall_repeat {A} (P : A -> Prop) v n : P v -> Forall P (repeat v n).
Proof. intros H. induction n; cbn; constructor; auto. Qed.

(** * Powers and ranges *)

Lemma pow256 k : 256 ^ Z.of_nat k = 2 ^ (8 * Z.of_nat k).
Proof. change 256 with (2 ^ 8). rewrite <- Z.pow_mul_r by lia. reflexivity. Qed.

Definition is_byte (b : Z) : Prop := 0 <= b < 256.

Lemma in_range_8_byte b : in_range 8 b <-> is_byte b.
Proof. unfold in_range, is_byte. change (2 ^ 8) with 256. tauto. Qed.

(** * le_val / le_bytes *)

Lemma le_bytes_length k z : length (le_bytes k z) = k.
Proof. revert z. induction k as [|k IH]; intros z; cbn [le_bytes length]; [reflexivity | rewrite IH; reflexivity]. Qed.

Lemma le_bytes_bytes k z : Forall is_byte (le_bytes k z).
Proof.
  revert z. induction k as [|k IH]; intros z; cbn [le_bytes]; constructor; [|apply IH].
  unfold is_byte. dlia.
Qed.

Lemma le_val_le_bytes k z : le_val (le_bytes k z) = z mod 256 ^ Z.of_nat k.
Proof.
  revert z. induction k as [|k IH]; intros z.
  - cbn [le_bytes le_val]. change (256 ^ Z.of_nat 0) with 1. rewrite Z.mod_1_r. reflexivity.
  - cbn [le_bytes le_val]. rewrite IH. rewrite Nat2Z.inj_succ, Z.pow_succ_r by lia.
    assert (Hp : 0 < 256 ^ Z.of_nat k) by (apply Z.pow_pos_nonneg; lia).
    rewrite (Z.rem_mul_r z 256 (256 ^ Z.of_nat k)) by lia. reflexivity.
Qed.

Lemma le_val_range bs : Forall is_byte bs -> 0 <= le_val bs < 256 ^ Z.of_nat (length bs).
Proof.
  induction 1 as [|b bs Hb _ IH]; cbn [le_val length].
  - change (256 ^ Z.of_nat 0) with 1. lia.
  - rewrite Nat2Z.inj_succ, Z.pow_succ_r by lia. unfold is_byte in Hb. nia.
Qed.

Lemma le_bytes_le_val bs : Forall is_byte bs -> le_bytes (length bs) (le_val bs) = bs.
Proof.
  induction 1 as [|b bs Hb Hbs IH]; cbn [le_val length le_bytes]; [reflexivity|].
  unfold is_byte in Hb. generalize dependent (le_val bs). intros v IH. f_equal.
  - dlia.
  - replace ((b + 256 * v) / 256) with v by dlia. exact IH.
Qed.

Lemma le_bytes_app j k z : le_bytes (j + k) z = le_bytes j z ++ le_bytes k (z / 256 ^ Z.of_nat j).
Proof.
  revert z. induction j as [|j IH]; intros z.
  - cbn [Nat.add le_bytes app]. change (256 ^ Z.of_nat 0) with 1. rewrite Z.div_1_r. reflexivity.
  - cbn [Nat.add le_bytes app]. rewrite IH. f_equal. f_equal. f_equal.
    rewrite Nat2Z.inj_succ, Z.pow_succ_r by lia.
    rewrite Z.div_div by (try apply Z.pow_pos_nonneg; lia). reflexivity.
Qed.

Lemma le_val_app a b : le_val (a ++ b) = le_val a + 256 ^ Z.of_nat (length a) * le_val b.
Proof.
  induction a as [|x a IH]; cbn [app le_val length].
  - change (256 ^ Z.of_nat 0) with 1. lia.
  - rewrite IH, Nat2Z.inj_succ, Z.pow_succ_r by lia. ring.
Qed.

(** * chunks *)

Lemma chunks_aux_enough {A} k (l : list A) : forall f1 f2, (length l <= f1)%nat -> (length l <= f2)%nat -> (0 < k)%nat ->
  chunks_aux f1 k l = chunks_aux f2 k l.
Proof.
  remember (length l) as n eqn:En. revert l En.
  induction n as [n IHn] using lt_wf_ind. intros l En f1 f2 H1 H2 Hk.
  destruct l as [|a l].
  - destruct f1, f2; reflexivity.
  - cbn [length] in En. destruct f1 as [|f1]; [lia|]. destruct f2 as [|f2]; [lia|].
    cbn [chunks_aux]. f_equal.
    assert (Hs : (length (skipn k (a :: l)) < n)%nat) by (rewrite skipn_length; cbn [length]; lia).
    apply (IHn _ Hs _ eq_refl); lia.
Qed.

Lemma chunks_nil {A} k : @chunks A k [] = [].
Proof. reflexivity. Qed.

Lemma chunks_app {A} k (a l : list A) : (0 < k)%nat -> length a = k -> chunks k (a ++ l) = a :: chunks k l.
Proof.
  intros Hk Ha. unfold chunks. destruct a as [|x a]; [cbn in Ha; lia|].
  rewrite app_length. cbn [length Nat.add app chunks_aux].
  change (x :: a ++ l) with ((x :: a) ++ l).
  rewrite firstn_app, Ha, Nat.sub_diag, firstn_O, app_nil_r, <- Ha, firstn_all.
  rewrite skipn_app, Nat.sub_diag, skipn_all, skipn_O. cbn [app]. f_equal.
  apply chunks_aux_enough; lia.
Qed.

(** * lanes_of / bytes_of *)

Definition wk (w : Z) (k : nat) : Prop := (0 < k)%nat /\ w = 8 * Z.of_nat k.

Lemma wk_nbytes w k : wk w k -> nbytes w = k.
Proof. intros [_ ->]. unfold nbytes. rewrite Z.mul_comm, Z.div_mul by lia. apply Nat2Z.id. Qed.
Lemma wk_pow w k : wk w k -> 256 ^ Z.of_nat k = 2 ^ w.
Proof. intros [_ ->]. apply pow256. Qed.
Lemma wk8 : wk 8 1. Proof. split; [lia | reflexivity]. Qed.
Lemma wk16 : wk 16 2. Proof. split; [lia | reflexivity]. Qed.
Lemma wk32 : wk 32 4. Proof. split; [lia | reflexivity]. Qed.
Lemma wk64 : wk 64 8. Proof. split; [lia | reflexivity]. Qed.
#[global] Hint Resolve wk8 wk16 wk32 wk64 : wk.

Lemma bytes_of_cons w x l : bytes_of w (x :: l) = le_bytes (nbytes w) x ++ bytes_of w l.
Proof. reflexivity. Qed.
Lemma bytes_of_app w l1 l2 : bytes_of w (l1 ++ l2) = bytes_of w l1 ++ bytes_of w l2.
Proof. unfold bytes_of. apply flat_map_app. Qed.
Lemma bytes_of_length w k l : wk w k -> length (bytes_of w l) = (k * length l)%nat.
Proof.
  intros H. rewrite <- (wk_nbytes _ _ H). induction l as [|x l IH]; [cbn; lia|].
  rewrite bytes_of_cons, app_length, le_bytes_length, IH. cbn [length]. lia.
Qed.
Lemma bytes_of_bytes w l : Forall is_byte (bytes_of w l).
Proof.
  induction l as [|x l IH]; [constructor|]. rewrite bytes_of_cons. apply Forall_app. split; [apply le_bytes_bytes | exact IH].
Qed.

Lemma lanes_of_app_chunk w k a l : wk w k -> length a = k -> lanes_of w (a ++ l) = le_val a :: lanes_of w l.
Proof.
  intros H Ha. unfold lanes_of. rewrite (wk_nbytes _ _ H). rewrite chunks_app by (destruct H; lia). reflexivity.
Qed.

(* the round trip lanes -> bytes -> lanes *)
Lemma lanes_bytes w k x : wk w k -> Forall (in_range w) x -> lanes_of w (bytes_of w x) = x.
Proof.
  intros H Fx. induction Fx as [|a x Ha _ IH]; [reflexivity|].
  rewrite bytes_of_cons, (wk_nbytes _ _ H).
  rewrite (lanes_of_app_chunk w k) by (auto using le_bytes_length). rewrite IH. f_equal.
  rewrite le_val_le_bytes, (wk_pow _ _ H). apply Z.mod_small. exact Ha.
Qed.

Lemma lanes_of_nil w : lanes_of w [] = [].
Proof. reflexivity. Qed.

(* a list of whole lanes: length a multiple of the lane size *)
Lemma lanes_of_app w k a l : wk w k -> (length a mod k = 0)%nat -> lanes_of w (a ++ l) = lanes_of w a ++ lanes_of w l.
Proof.
  intros H. remember (length a) as n eqn:En. revert a En.
  induction n as [n IHn] using lt_wf_ind. intros a En Hm.
  destruct H as [Hk Hw]. assert (H : wk w k) by (split; assumption).
  destruct (Nat.eq_dec n 0) as [->|Hn].
  - destruct a; [reflexivity | discriminate].
  - assert (Hge : (k <= n)%nat).
    { destruct (le_lt_dec k n); [assumption|]. rewrite Nat.mod_small in Hm by lia. lia. }
    rewrite <- (firstn_skipn k a). rewrite <- app_assoc.
    assert (Hf : length (firstn k a) = k) by (rewrite firstn_length; lia).
    rewrite (lanes_of_app_chunk w k _ (skipn k a ++ l)) by assumption.
    rewrite (lanes_of_app_chunk w k _ (skipn k a)) by assumption.
    cbn [app]. f_equal.
    apply (IHn (n - k)%nat); [lia | rewrite skipn_length; lia |].
    replace n with ((n - k) + 1 * k)%nat in Hm by lia. rewrite Nat.mod_add in Hm by lia. exact Hm.
Qed.

Lemma lanes_of_length w k a n : wk w k -> length a = (k * n)%nat -> length (lanes_of w a) = n.
Proof.
  intros H. revert a. induction n as [|n IH]; intros a Ha.
  - rewrite Nat.mul_0_r in Ha. destruct a; [reflexivity | discriminate].
  - rewrite <- (firstn_skipn k a).
    rewrite (lanes_of_app_chunk w k) by (auto; rewrite firstn_length; lia).
    cbn [length]. f_equal. apply IH. rewrite skipn_length. lia.
Qed.

Lemma lanes_of_range w k a : wk w k -> Forall is_byte a -> (length a mod k = 0)%nat -> Forall (in_range w) (lanes_of w a).
Proof.
  intros H. remember (length a) as n eqn:En. revert a En.
  induction n as [n IHn] using lt_wf_ind. intros a En Fa Hm.
  destruct H as [Hk Hw]. assert (H : wk w k) by (split; assumption).
  destruct (Nat.eq_dec n 0) as [->|Hn].
  - destruct a; [constructor | discriminate].
  - assert (Hge : (k <= n)%nat).
    { destruct (le_lt_dec k n); [assumption|]. rewrite Nat.mod_small in Hm by lia. lia. }
    rewrite <- (firstn_skipn k a).
    assert (Hf : length (firstn k a) = k) by (rewrite firstn_length; lia).
    rewrite (lanes_of_app_chunk w k) by assumption.
    constructor.
    + unfold in_range. rewrite <- (wk_pow _ _ H).
      assert (Hr : 0 <= le_val (firstn k a) < 256 ^ Z.of_nat (length (firstn k a))); [|rewrite Hf in Hr; exact Hr].
      apply le_val_range. apply Forall_forall. intros b Hb. rewrite Forall_forall in Fa. apply Fa.
      eapply In_firstn_In; eassumption.
    + apply (IHn (n - k)%nat); [lia | rewrite skipn_length; lia | |].
      * apply Forall_forall. intros b Hb. rewrite Forall_forall in Fa. apply Fa. eapply In_skipn_In; eassumption.
      * replace n with ((n - k) + 1 * k)%nat in Hm by lia. rewrite Nat.mod_add in Hm by lia. exact Hm.
Qed.

(* the round trip bytes -> lanes -> bytes *)
Lemma bytes_lanes w k a : wk w k -> Forall is_byte a -> (length a mod k = 0)%nat -> bytes_of w (lanes_of w a) = a.
Proof.
  intros H. remember (length a) as n eqn:En. revert a En.
  induction n as [n IHn] using lt_wf_ind. intros a En Fa Hm.
  destruct H as [Hk Hw]. assert (H : wk w k) by (split; assumption).
  destruct (Nat.eq_dec n 0) as [->|Hn].
  - destruct a; [reflexivity | discriminate].
  - assert (Hge : (k <= n)%nat).
    { destruct (le_lt_dec k n); [assumption|]. rewrite Nat.mod_small in Hm by lia. lia. }
    rewrite <- (firstn_skipn k a) at 1.
    assert (Hf : length (firstn k a) = k) by (rewrite firstn_length; lia).
    rewrite (lanes_of_app_chunk w k) by assumption.
    rewrite bytes_of_cons, (wk_nbytes _ _ H).
    rewrite <- Hf at 1. rewrite le_bytes_le_val.
    + rewrite (IHn (n - k)%nat); [apply firstn_skipn | lia | rewrite skipn_length; lia | |].
      * apply Forall_forall. intros b Hb. rewrite Forall_forall in Fa. apply Fa. eapply In_skipn_In; eassumption.
      * replace n with ((n - k) + 1 * k)%nat in Hm by lia. rewrite Nat.mod_add in Hm by lia. exact Hm.
    + apply Forall_forall. intros b Hb. rewrite Forall_forall in Fa. apply Fa. eapply In_firstn_In; eassumption.
Qed.

(** * Lane-wise families on registers given by their lanes *)

Lemma vlift1_bytes w k f x : wk w k -> Forall (in_range w) x -> vlift1 w f (bytes_of w x) = bytes_of w (map f x).
Proof. intros H Fx. unfold vlift1. rewrite (lanes_bytes w k) by assumption. reflexivity. Qed.

Lemma vlift2_bytes w k f x y : wk w k -> Forall (in_range w) x -> Forall (in_range w) y ->
  vlift2 w f (bytes_of w x) (bytes_of w y) = bytes_of w (map2 f x y).
Proof. intros H Fx Fy. unfold vlift2. rewrite !(lanes_bytes w k) by assumption. reflexivity. Qed.

(* ... and read back at the same width *)
Lemma lanes_vlift2 w k f x y : wk w k -> Forall (in_range w) x -> Forall (in_range w) y ->
  (forall a b, in_range w (f a b)) ->
  lanes_of w (vlift2 w f (bytes_of w x) (bytes_of w y)) = map2 f x y.
Proof.
  intros H Fx Fy Hf. rewrite (vlift2_bytes w k) by assumption. apply (lanes_bytes w k); [assumption|].
  apply Forall_map2. exact Hf.
Qed.

Lemma in_range_wrap w z : 0 < w -> in_range w (wrap w z).
Proof. intros Hw. unfold in_range, wrap. apply Z.mod_pos_bound. apply Z.pow_pos_nonneg; lia. Qed.
Lemma wk_pos w k : wk w k -> 0 < w.
Proof. intros [Hk ->]. lia. Qed.

Lemma in_range_i_max sg w a b : in_range w a -> in_range w b -> in_range w (i_max sg w a b).
Proof. unfold i_max. intros. destruct (_ <? _); assumption. Qed.
Lemma in_range_i_min sg w a b : in_range w a -> in_range w b -> in_range w (i_min sg w a b).
Proof. unfold i_min. intros. destruct (_ <? _); assumption. Qed.

(* max / min keep the range only of in-range arguments: a version with the ranges of the arguments *)
Lemma Forall_map2_in {A B C} (P : A -> Prop) (Q : B -> Prop) (R : C -> Prop) (f : A -> B -> C) x y :
  (forall a b, P a -> Q b -> R (f a b)) -> Forall P x -> Forall Q y -> Forall R (map2 f x y).
Proof.
  intros H Fx. revert y. induction Fx as [|a x Ha _ IH]; intros y Fy; [constructor|].
  destruct Fy as [|b y Hb Fy]; cbn; constructor; auto.
Qed.

Lemma lanes_vlift2_in w k f x y : wk w k -> Forall (in_range w) x -> Forall (in_range w) y ->
  (forall a b, in_range w a -> in_range w b -> in_range w (f a b)) ->
  lanes_of w (vlift2 w f (bytes_of w x) (bytes_of w y)) = map2 f x y.
Proof.
  intros H Fx Fy Hf. rewrite (vlift2_bytes w k) by assumption. apply (lanes_bytes w k); [assumption|].
  eapply Forall_map2_in; eauto.
Qed.

(** * Broadcast, zero *)

Lemma lanes_vset1 w k n v : wk w k -> in_range w v -> lanes_of w (vset1 w n v) = repeat v n.
Proof. intros H Hv. unfold vset1. apply (lanes_bytes w k); [assumption|]. apply Forall_repeat. exact Hv. Qed.

Lemma bytes_of_zeros w k n : wk w k -> bytes_of w (repeat 0 n) = repeat 0 (k * n).
Proof.
  intros H. rewrite <- (wk_nbytes _ _ H). induction n as [|n IH]; [rewrite Nat.mul_0_r; reflexivity|].
  cbn [repeat]. rewrite bytes_of_cons, IH.
  replace (nbytes w * S n)%nat with (nbytes w + nbytes w * n)%nat by lia. rewrite repeat_app. f_equal.
  generalize (nbytes w). intros j. induction j as [|j IHj]; [reflexivity|]. cbn [le_bytes repeat].
  rewrite Z.mod_0_l, Z.div_0_l by lia. f_equal. exact IHj.
Qed.

Lemma lanes_vsetzero w k n : wk w k -> lanes_of w (vsetzero (k * n)) = repeat 0 n.
Proof.
  intros H. unfold vsetzero. rewrite <- (bytes_of_zeros w k n H). apply (lanes_bytes w k); [assumption|].
  apply Forall_repeat. unfold in_range. pose proof (wk_pos _ _ H). split; [lia | apply Z.pow_pos_nonneg; lia].
Qed.
