(* C06 (iv): accuracy, range and identical-vector behaviour of the float cosine distance — for EVERY back end whose
   lanes are the correctly rounded IEEE operations ([FloatLanewise]: fused or not), every length n, and all finite
   inputs in the well-scaled domain

     (D1) no product a_j^2, b_j^2, a_j b_j lies in the subnormal range (it is 0 or >= 2^(emin+prec-1)),
     (D2) 4 * 2^(emin+prec-1) <= |a|^2 |b|^2   (so neither squared norm is zero and their product is normal),
     (D3) |a|^2, |b|^2, |a|^2 |b|^2 <= 2^(emax-2)   (nothing overflows),
     (D4) (n+8) u <= 1/16,

   the run returns a finite r with  | r - (1 - a.b / sqrt (|a|^2 |b|^2)) | <= 4 (n+8) u,  the sums being the EXACT real
   sums.  Hence -4(n+8)u <= r <= 2 + 4(n+8)u (Cauchy-Schwarz), and |r| <= 4(n+8)u when b = a.

   Proof: Proofs/KernelValue.v (cosine = formula of the three kernels' values), C04's bounds for the three
   reductions (Proofs/FloatReduce.v: the norms have non-negative terms, so their error is relative; the dot
   product's is relative to sum |a_j b_j| <= |a||b|), Flocq's correctness theorems for Bmult / Bsqrt / Bdiv / Bminus
   (one rounding each), Proofs/CosineReal.v for the propagation.
   Flocq's reals bring the 4 standard-library axioms; no others. *)
From Coq Require Import ZArith Reals List Bool Lra Lia Psatz.
From Flocq Require Import Core BinarySingleNaN.
From CF Require Import Base.Mem Model.SimdApi Model.Kernels Model.Tables Model.Prim Model.Regs.
From CF Require Import Proofs.KernelBounds Proofs.FloatBackends Proofs.BackendTable Proofs.RoundErr Proofs.FloatReduce
     Proofs.KernelValue Proofs.CosineReal.
Import ListNotations.
Local Open Scope R_scope.

Lemma map2_map_both {A B C} (g : A -> B) (f : B -> B -> C) x y :
  map2 f (map g x) (map g y) = map2 (fun p q => f (g p) (g q)) x y.
Proof.
  revert y. induction x as [|p x IH]; intros [|q y]; try reflexivity. cbn [map map2]. rewrite IH. reflexivity.
Qed.

Lemma Rsum_abs_sq {A} (g : A -> R) l :
  Rsum (map (fun x => Rabs (g x * g x)) l) = Rsum (map (fun x => g x * g x) l).
Proof.
  induction l as [|x l IH]; [reflexivity|]. cbn [map Rsum fold_right]. unfold Rsum in IH. rewrite IH.
  rewrite Rabs_pos_eq by nra. reflexivity.
Qed.

Section Acc.
  Context {prec emax : Z} {Hp : FLX.Prec_gt_0 prec} {He : Prec_lt_emax prec emax}.
  Notation bf := (binary_float prec emax).
  Notation emin := (SpecFloat.emin prec emax).
  Notation rnd := (RoundErr.rnd prec emin).
  Notation u := (RoundErr.u prec).
  Notation nosub := (RoundErr.nosub prec emin).
  Notation gamma := (RoundErr.gamma prec).
  Notation fin x := (is_finite x = true).
  Notation Mth := (@float_math prec emax Hp He).
  Notation lo := (bpow radix2 (emin + prec - 1)).

  Lemma emax_ge_2 : (2 <= emax)%Z.
  Proof. pose proof Hp. pose proof He. unfold FLX.Prec_gt_0, Prec_lt_emax in *. lia. Qed.
  Lemma lo_le_1 : lo <= 1.
  Proof. change 1 with (bpow radix2 0). apply bpow_le. pose proof emax_ge_2. unfold SpecFloat.emin. lia. Qed.
  Lemma lo_pos : 0 < lo. Proof. apply bpow_gt_0. Qed.
  Lemma emax_split : bpow radix2 emax = 4 * bpow radix2 (emax - 2).
  Proof. replace emax with (2 + (emax - 2))%Z at 1 by lia. rewrite bpow_plus. reflexivity. Qed.
  Lemma M_ge_1 : 1 <= bpow radix2 (emax - 2).
  Proof. change 1 with (bpow radix2 0). apply bpow_le. pose proof emax_ge_2. lia. Qed.

  (* one rounding, anywhere on the real line: relative error u, plus at most u * 2^(emin+prec-1) <= u below the
     normal range *)
  Lemma rnd_abs_err x : Rabs (rnd x - x) <= u * Rabs x + u.
  Proof.
    pose proof (u_pos prec) as Hu. pose proof (Rabs_pos x) as Hx.
    destruct (Rle_or_lt lo (Rabs x)) as [M|M].
    - pose proof (rnd_rel_err prec emin x (or_intror M)). lra.
    - apply Rle_trans with (u * lo).
      + eapply Rle_trans.
        * unfold RoundErr.rnd. apply error_le_half_ulp. apply FLT_exp_valid. exact Hp.
        * rewrite ulp_FLT_small; [| exact Hp | eapply Rlt_le_trans; [exact M | apply bpow_le; lia]].
          rewrite (half_emin prec emin). lra.
      + pose proof lo_le_1. nra.
  Qed.

  Variable Rg : SimdOps bf.
  Variables (vmax vmin : bf -> bf -> bf) (fused : bool).
  Hypothesis FL : FloatLanewise Rg vmax vmin fused.
  Variables a b res : list bf.
  Variable dims : nat.
  Hypothesis Ha : length a = dims.
  Hypothesis Hb : length b = dims.
  Hypothesis Fa : Forall (fun x => fin x) a.
  Hypothesis Fb : Forall (fun x => fin x) b.
  Hypothesis Hna : Forall (fun x => nosub (B2R x * B2R x)) a.
  Hypothesis Hnb : Forall (fun x => nosub (B2R x * B2R x)) b.
  Hypothesis Hnab : Forall2 (fun x y => nosub (B2R x * B2R y)) a b.

  Definition NXr (l : list bf) : R := Rsum (map (fun x => B2R x * B2R x) l).
  Definition DOTr (x y : list bf) : R := Rsum (map2 (fun p q => B2R p * B2R q) x y).
  Definition ABSr (x y : list bf) : R := Rsum (map2 (fun p q => Rabs (B2R p * B2R q)) x y).
  Notation NX := (NXr a). Notation NY := (NXr b). Notation DOT := (DOTr a b). Notation AA := (ABSr a b).
  Notation K := (INR (dims + 8)).

  Hypothesis HK : K * u <= / 16.
  Hypothesis Hlo : 4 * lo <= NX * NY.
  Hypothesis HhX : NX <= bpow radix2 (emax - 2).
  Hypothesis HhY : NY <= bpow radix2 (emax - 2).
  Hypothesis HhP : NX * NY <= bpow radix2 (emax - 2).

  Lemma NX_nonneg l : 0 <= NXr l.
  Proof. unfold NXr. rewrite <- (map_map (fun x => B2R x) (fun x => x * x)). apply Rsum_sq_nonneg. Qed.

  Lemma cs_facts : 0 <= AA /\ AA * AA <= NX * NY /\ Rabs DOT <= AA.
  Proof.
    pose proof (cauchy_schwarz_abs (map (fun x : bf => B2R x) a) (map (fun x : bf => B2R x) b)) as [C0 C1].
    pose proof (dot_le_abs (map (fun x : bf => B2R x) a) (map (fun x : bf => B2R x) b)) as C2.
    rewrite !map2_map_both in *. rewrite !map_map in C1. unfold ABSr, NXr, DOTr. auto.
  Qed.

  Lemma K_facts : 8 <= K /\ INR (dims + 3) = K - 5 /\ 0 < u /\ INR (dims + 3) * u <= / 16.
  Proof.
    pose proof (u_pos prec) as Hu. pose proof (pos_INR dims) as Hd.
    rewrite !plus_INR. cbn [INR]. repeat split; try lra.
    rewrite plus_INR in HK. cbn [INR] in HK. nra.
  Qed.

  Lemma NXY_pos : 0 < NX /\ 0 < NY.
  Proof.
    pose proof (NX_nonneg a). pose proof (NX_nonneg b). pose proof lo_pos.
    split; destruct (Rle_or_lt (NXr a) 0), (Rle_or_lt (NXr b) 0); nra.
  Qed.

  Lemma gamma_facts : 0 <= gamma (dims + 3) /\ gamma (dims + 3) <= 16 / 15 * ((K - 5) * u).
  Proof.
    destruct K_facts as (K8 & K3 & Hu & Hk3). split.
    - apply gamma_nonneg. lra.
    - unfold RoundErr.gamma. rewrite K3 in *. set (x := (K - 5) * u) in *.
      assert (0 <= x) by (unfold x; nra).
      apply Rmult_le_reg_r with (1 - x); [lra|].
      unfold Rdiv. rewrite Rmult_assoc, Rinv_l, Rmult_1_r by lra. nra.
  Qed.

  Lemma pow_facts : (1 + u) ^ (dims + 3) <= 2.
  Proof.
    destruct K_facts as (K8 & K3 & Hu & Hk3).
    eapply Rle_trans; [apply (pow1u_le_inv prec); lra|].
    rewrite <- (Rinv_inv 2). apply Rinv_le_contravar; lra.
  Qed.

  (* a float that is finite with a positive value takes the finite branch of Bsqrt *)
  Lemma sqrt_finite (x : bf) : fin x -> 0 < B2R x -> fin (f_sqrt x) /\ B2R (f_sqrt x) = rnd (sqrt (B2R x)).
  Proof.
    intros Fx Px. pose proof (Bsqrt_correct prec emax Hp He mode_NE x) as (H1 & H2 & _). unfold f_sqrt. split.
    - rewrite H2. destruct x as [s|s| |s m e Hm]; try discriminate; cbn in Px; [lra|].
      destruct s; [|reflexivity]. exfalso.
      pose proof (F2R_lt_0 radix2 (Float radix2 (Z.neg m) e) eq_refl). cbn in *. lra.
    - exact H1.
  Qed.

  Theorem cosine_accuracy :
    match generic_cosine Rg Mth dims (init_mem a b res) with
    | Ok r m => run_ok (init_mem a b res) m /\ fin r /\
                Rabs (B2R r - (1 - DOT / sqrt (NX * NY))) <= 4 * (K * u)
    | _ => False
    end.
  Proof.
    destruct K_facts as (K8 & K3 & Hu & Hk3). destruct gamma_facts as [Hg0 Hg].
    destruct cs_facts as (A0 & A2 & HDA). destruct NXY_pos as [PX PY].
    pose proof pow_facts as HPW. pose proof emax_split as ES. pose proof M_ge_1 as M1.
    pose proof lo_pos as LP. pose proof lo_le_1 as L1.
    set (g := gamma (dims + 3)) in *. set (M := bpow radix2 (emax - 2)) in *.
    assert (H3 : INR (dims + 3) * u < 1) by lra.
    assert (HL : (1 <= lanes Rg)%nat) by apply (wf_L Rg (fl_wf Rg vmax vmin fused FL)).
    (* the three reductions *)
    assert (OvX : (1 + u) ^ (dims + 3) * Rsum (map (fun x => Rabs (B2R x * B2R x)) a) < bpow radix2 emax).
    { rewrite (Rsum_abs_sq (fun x : bf => B2R x)). fold (NXr a). nra. }
    assert (OvY : (1 + u) ^ (dims + 3) * Rsum (map (fun x => Rabs (B2R x * B2R x)) b) < bpow radix2 emax).
    { rewrite (Rsum_abs_sq (fun x : bf => B2R x)). fold (NXr b). nra. }
    assert (AM : AA <= M).
    { apply sq_le_le; [lra|]. apply Rle_trans with (NXr a * NXr b); [exact A2|]. nra. }
    assert (OvD : (1 + u) ^ (dims + 3) * Rsum (map2 (fun x y => Rabs (B2R x * B2R y)) a b) < bpow radix2 emax).
    { fold (ABSr a b). nra. }
    pose proof (@norm_bound prec emax Hp He Rg vmax vmin fused FL a b res dims Ha Fa H3 Hna OvX) as BX.
    pose proof (@norm_bound prec emax Hp He Rg vmax vmin fused FL b a res dims Hb Fb H3 Hnb OvY) as BY.
    pose proof (@dot_bound prec emax Hp He Rg vmax vmin fused FL a b res dims Ha Fa H3 Hb Fb Hnab OvD) as BD.
    pose proof (cosine_decomposition bf Rg Mth a b res dims HL Ha Hb) as DEC.
    destruct (generic_dot_product Rg Mth dims (init_mem a b res)) as [df m1| | |]; try contradiction.
    destruct (generic_squared_norm Rg Mth dims (init_mem a b res)) as [xf m2| | |]; try contradiction.
    destruct (generic_squared_norm Rg Mth dims (init_mem b a res)) as [yf m3| | |]; try contradiction.
    destruct BX as (_ & FX & EX). destruct BY as (_ & FY & EY). destruct BD as (_ & FD & ED).
    rewrite (Rsum_abs_sq (fun x : bf => B2R x)) in EX, EY. fold (NXr a) in EX. fold (NXr b) in EY.
    fold (DOTr a b) (ABSr a b) in ED. fold g in EX, EY, ED.
    set (X := B2R xf) in *. set (Y := B2R yf) in *. set (D := B2R df) in *.
    set (S := sqrt (NXr a * NXr b)).
    assert (AS : AA <= S).
    { unfold S. rewrite <- (sqrt_square (ABSr a b)) by exact A0. apply sqrt_le_1_alt. exact A2. }
    pose proof (g_small u g K (Rlt_le _ _ Hu) HK Hg) as Gs.
    pose proof (u_small u K (Rlt_le _ _ Hu) K8 HK) as Us.
    (* the scalar chain on the reals *)
    set (p := rnd (X * Y)). set (s := rnd (sqrt p)). set (q := rnd (D / s)). set (r := rnd (1 - q)).
    pose proof (XY_bounds u g K (Rlt_le _ _ Hu) HK Hg (NXr a) (NXr b) X Y PX PY EX EY) as [XYl XYu].
    assert (XYlo : lo <= X * Y).
    { apply Rle_trans with (NXr a * NXr b * ((1 - g) * (1 - g))); [|exact XYl].
      assert (G2 : 14 / 15 * (14 / 15) <= (1 - g) * (1 - g)) by (apply Rmult_le_compat; lra).
      assert (G4 : NXr a * NXr b * (3 / 4) <= NXr a * NXr b * ((1 - g) * (1 - g))).
      { apply Rmult_le_compat_l; [apply Rmult_le_pos; lra | lra]. }
      lra. }
    assert (Ep : Rabs (p - X * Y) <= u * Rabs (X * Y)).
    { apply (@rnd_rel_err prec emin Hp). unfold RoundErr.nosub. right. rewrite Rabs_pos_eq by lra. exact XYlo. }
    pose proof (p_bounds u g K (Rlt_le _ _ Hu) K8 HK Hg0 Hg (NXr a) (NXr b) X Y p PX PY EX EY Ep) as [Pl Pu].
    fold S in Pl, Pu.
    assert (SS : S * S = NXr a * NXr b) by (apply sqrt_sqrt; nra).
    assert (Plo : lo <= p).
    { apply Rle_trans with (S * S * ((1 - g) * (1 - g) * (1 - u))); [|exact Pl]. rewrite SS.
      assert (G2 : 14 / 15 * (14 / 15) <= (1 - g) * (1 - g)) by (apply Rmult_le_compat; lra).
      assert (G3 : 14 / 15 * (14 / 15) * (127 / 128) <= (1 - g) * (1 - g) * (1 - u)).
      { apply Rmult_le_compat; lra. }
      assert (G4 : NXr a * NXr b * (1 / 2) <= NXr a * NXr b * ((1 - g) * (1 - g) * (1 - u))).
      { apply Rmult_le_compat_l; [apply Rmult_le_pos; lra | lra]. }
      lra. }
    assert (Phi : p < bpow radix2 emax).
    { apply Rle_lt_trans with (S * S * ((1 + g) * (1 + g) * (1 + u))); [exact Pu|]. rewrite SS.
      assert (G2 : (1 + g) * (1 + g) <= 16 / 15 * (16 / 15)) by (apply Rmult_le_compat; lra).
      assert (G3 : (1 + g) * (1 + g) * (1 + u) <= 16 / 15 * (16 / 15) * (129 / 128)).
      { apply Rmult_le_compat; try lra. apply Rmult_le_pos; lra. }
      assert (G4 : NXr a * NXr b * ((1 + g) * (1 + g) * (1 + u)) <= NXr a * NXr b * 2).
      { apply Rmult_le_compat_l; [apply Rmult_le_pos; lra | lra]. }
      lra. }
    assert (Es : Rabs (s - sqrt p) <= u * Rabs (sqrt p)).
    { apply (@rnd_rel_err prec emin Hp). unfold RoundErr.nosub. right. rewrite Rabs_pos_eq by apply sqrt_pos.
      rewrite <- (sqrt_square lo) by lra. apply sqrt_le_1_alt. nra. }
    pose proof (s_pos u g K (Rlt_le _ _ Hu) K8 HK Hg0 Hg (NXr a) (NXr b) X Y p s PX PY EX EY Ep Es) as Spos.
    assert (Eq : Rabs (q - D / s) <= u * Rabs (D / s) + u) by apply rnd_abs_err.
    pose proof (quot_abs u g K (Rlt_le _ _ Hu) K8 HK Hg0 Hg (NXr a) (NXr b) (DOTr a b) (ABSr a b) X Y D p s
                  PX PY AS HDA EX EY ED Ep Es) as Qa.
    pose proof (q_abs u g K (Rlt_le _ _ Hu) K8 HK Hg0 Hg (NXr a) (NXr b) (DOTr a b) (ABSr a b) X Y D p s q
                  PX PY AS HDA EX EY ED Ep Es Eq) as Qb.
    (* the scalar chain on the floats *)
    assert (Xpos : 0 < X).
    { pose proof EX as EX'. apply abs_le_inv in EX'. assert (g * NXr a <= / 15 * NXr a) by (apply Rmult_le_compat_r; lra). lra. }
    assert (Ypos : 0 < Y).
    { pose proof EY as EY'. apply abs_le_inv in EY'. assert (g * NXr b <= / 15 * NXr b) by (apply Rmult_le_compat_r; lra). lra. }
    assert (Zx : f_eq xf f_zero = false).
    { unfold f_eq. rewrite (Beqb_correct prec emax xf f_zero FX eq_refl). apply Req_bool_false. cbn. fold X. lra. }
    assert (Zy : f_eq yf f_zero = false).
    { unfold f_eq. rewrite (Beqb_correct prec emax yf f_zero FY eq_refl). apply Req_bool_false. cbn. fold Y. lra. }
    destruct (f_mul_correct xf yf FX FY) as [Pv Pf].
    { fold X Y p. rewrite Rabs_pos_eq by lra. exact Phi. }
    fold X Y p in Pv.
    destruct (sqrt_finite (f_mul xf yf) Pf) as [Sf Sv]; [rewrite Pv; lra|].
    rewrite Pv in Sv. fold s in Sv.
    pose proof (Bdiv_correct prec emax Hp He mode_NE df (f_sqrt (f_mul xf yf))) as DV.
    rewrite Sv in DV. fold D in DV.
    change (round radix2 (SpecFloat.fexp prec emax) (round_mode mode_NE) (D / s)) with q in DV.
    specialize (DV ltac:(lra)).
    rewrite Rlt_bool_true in DV by (apply Rle_lt_trans with (3 / 2); [exact Qb | lra]).
    destruct DV as (Qv & Qf & _). rewrite FD in Qf.
    assert (Hr1 : Rabs (r - (1 - q)) <= u * Rabs (1 - q)).
    { unfold r. apply (@rnd_plus_err prec emin Hp).
      - apply format_one.
      - rewrite <- Qv. apply generic_format_opp. apply format_B2R. }
    assert (Rb : Rabs r < bpow radix2 emax).
    { apply abs_le_inv in Qb. apply abs_le_inv in Hr1.
      assert (Rabs (1 - q) <= 5 / 2) by (apply Rabs_le; lra).
      assert (u * Rabs (1 - q) <= / 128 * (5 / 2)) by (apply Rmult_le_compat; try lra; apply Rabs_pos).
      apply Rle_lt_trans with 3; [|lra]. apply Rabs_le. lra. }
    destruct (f_sub_correct f_one (f_div df (f_sqrt (f_mul xf yf))) (is_finite_Bone prec emax Hp He) Qf) as [Rv Rf].
    { unfold f_one, f_div. rewrite Bone_correct, Qv. exact Rb. }
    unfold f_one, f_div in Rv. rewrite Bone_correct, Qv in Rv. fold r in Rv.
    (* the model's value *)
    unfold cosine in DEC. cbn [float_math m_cmp_eq m_zero m_one m_div m_sqrt m_mul m_sub] in DEC.
    rewrite Zx, Zy in DEC. cbn [andb orb] in DEC.
    destruct (generic_cosine Rg Mth dims (init_mem a b res)) as [rf m| m | |]; try contradiction.
    - destruct DEC as [OK E]. inversion E; subst rf. split; [exact OK|]. split; [exact Rf|].
      unfold f_one, f_div. rewrite Rv. fold S.
      exact (cosine_err u g K (Rlt_le _ _ Hu) K8 HK Hg0 Hg (NXr a) (NXr b) (DOTr a b) (ABSr a b) X Y D p s q r
               PX PY AS HDA EX EY ED Ep Es Eq Hr1).
    - destruct DEC as [_ E]. discriminate E.
  Qed.

  (* range: Cauchy-Schwarz puts the exact value in [0, 2] *)
  Lemma exact_in_range : -1 <= DOT / sqrt (NX * NY) <= 1.
  Proof.
    destruct cs_facts as (A0 & A2 & HDA). destruct NXY_pos as [PX PY].
    set (S := sqrt (NXr a * NXr b)).
    assert (AS : AA <= S).
    { unfold S. rewrite <- (sqrt_square (ABSr a b)) by exact A0. apply sqrt_le_1_alt. exact A2. }
    assert (SP : 0 < S) by (apply sqrt_lt_R0; nra).
    apply abs_le_inv in HDA.
    split; (apply Rmult_le_reg_r with S; [lra|]); unfold Rdiv; rewrite Rmult_assoc, Rinv_l, Rmult_1_r by lra; lra.
  Qed.

  Theorem cosine_range :
    match generic_cosine Rg Mth dims (init_mem a b res) with
    | Ok r m => - (4 * (K * u)) <= B2R r <= 2 + 4 * (K * u)
    | _ => False
    end.
  Proof.
    pose proof cosine_accuracy as H. pose proof exact_in_range as E.
    destruct (generic_cosine Rg Mth dims (init_mem a b res)) as [r m| | |]; try contradiction.
    destruct H as (_ & _ & H). apply abs_le_inv in H. lra.
  Qed.
End Acc.

(* identical vectors: the exact value is 0 *)
Theorem cosine_identical {prec emax : Z} {Hp : FLX.Prec_gt_0 prec} {He : Prec_lt_emax prec emax}
        (Rg : SimdOps (binary_float prec emax)) vmax vmin fused (FL : FloatLanewise Rg vmax vmin fused)
        (a res : list (binary_float prec emax)) (dims : nat) :
  length a = dims -> Forall (fun x => is_finite x = true) a ->
  Forall (fun x => RoundErr.nosub prec (SpecFloat.emin prec emax) (B2R x * B2R x)) a ->
  INR (dims + 8) * RoundErr.u prec <= / 16 ->
  4 * bpow radix2 (SpecFloat.emin prec emax + prec - 1) <= NXr a * NXr a ->
  NXr a <= bpow radix2 (emax - 2) -> NXr a * NXr a <= bpow radix2 (emax - 2) ->
  match generic_cosine Rg float_math dims (init_mem a a res) with
  | Ok r m => Rabs (B2R r) <= 4 * (INR (dims + 8) * RoundErr.u prec)
  | _ => False
  end.
Proof.
  intros Ha Fa Hna HK Hlo HhX HhP.
  assert (Hnab : Forall2 (fun x y => RoundErr.nosub prec (SpecFloat.emin prec emax) (B2R x * B2R y)) a a).
  { clear -Hna. induction Hna; constructor; auto. }
  pose proof (cosine_accuracy Rg vmax vmin fused FL a a res dims Ha Ha Fa Fa Hna Hna Hnab HK Hlo HhX HhX HhP) as H.
  destruct (generic_cosine Rg float_math dims (init_mem a a res)) as [r m| | |]; try contradiction.
  destruct H as (_ & _ & H).
  assert (E : DOTr a a = NXr a).
  { unfold DOTr, NXr. clear. induction a as [|x l IH]; [reflexivity|]. cbn [map map2 Rsum fold_right].
    unfold Rsum in IH. rewrite IH. reflexivity. }
  assert (P : 0 < NXr a).
  { pose proof (NX_nonneg a). pose proof (bpow_gt_0 radix2 (SpecFloat.emin prec emax + prec - 1)).
    destruct (Rle_or_lt (NXr a) 0); nra. }
  rewrite E in H. rewrite sqrt_square in H by lra.
  replace (1 - NXr a / NXr a) with 0 in H by (field; lra). rewrite Rminus_0_r in H. exact H.
Qed.

(* the notation of the statements, spelled out *)
Lemma accuracy_reads {prec emax : Z} (a b : list (binary_float prec emax)) :
  NXr a = Rsum (map (fun x => B2R x * B2R x) a)
  /\ DOTr a b = Rsum (map2 (fun p q => B2R p * B2R q) a b)
  /\ (forall l : list R, Rsum l = fold_right Rplus 0 l)
  /\ RoundErr.u prec = bpow radix2 (- prec)
  /\ (forall emin x, RoundErr.nosub prec emin x <-> (x = 0 \/ bpow radix2 (emin + prec - 1) <= Rabs x)).
Proof. repeat split; auto. Qed.

(* every modelled float back end of the export tables *)
Theorem f32_cosine_accuracy r (Rg : SimdOps f32) (a b res : list f32) (dims : nat) :
  f32_ops r = Some Rg -> length a = dims -> length b = dims ->
  Forall (fun x => is_finite x = true) a -> Forall (fun x => is_finite x = true) b ->
  Forall (fun x => RoundErr.nosub 24 (-149) (B2R x * B2R x)) a ->
  Forall (fun x => RoundErr.nosub 24 (-149) (B2R x * B2R x)) b ->
  Forall2 (fun x y => RoundErr.nosub 24 (-149) (B2R x * B2R y)) a b ->
  INR (dims + 8) * bpow radix2 (-24) <= / 16 ->
  4 * bpow radix2 (-126) <= NXr a * NXr b ->
  NXr a <= bpow radix2 126 -> NXr b <= bpow radix2 126 -> NXr a * NXr b <= bpow radix2 126 ->
  match generic_cosine Rg float_math dims (init_mem a b res) with
  | Ok x m => run_ok (init_mem a b res) m /\ is_finite x = true /\
              Rabs (B2R x - (1 - DOTr a b / sqrt (NXr a * NXr b))) <= 4 * (INR (dims + 8) * bpow radix2 (-24))
              /\ - (4 * (INR (dims + 8) * bpow radix2 (-24))) <= B2R x <= 2 + 4 * (INR (dims + 8) * bpow radix2 (-24))
  | _ => False
  end.
Proof.
  intros HR Ha Hb Fa Fb Hna Hnb Hnab HK Hlo HhX HhY HhP.
  pose proof (f32_ops_faithful r Rg HR) as FL.
  pose proof (cosine_accuracy Rg _ _ _ FL a b res dims Ha Hb Fa Fb Hna Hnb Hnab HK Hlo HhX HhY HhP) as H1.
  pose proof (cosine_range Rg _ _ _ FL a b res dims Ha Hb Fa Fb Hna Hnb Hnab HK Hlo HhX HhY HhP) as H2.
  unfold f32, f64 in *.
  destruct (generic_cosine Rg float_math dims (init_mem a b res)) as [x m| | |]; try contradiction.
  destruct H1 as (O & F & E). split; [exact O|]. split; [exact F|]. split; [exact E | exact H2].
Qed.

Theorem f64_cosine_accuracy r (Rg : SimdOps f64) (a b res : list f64) (dims : nat) :
  f64_ops r = Some Rg -> length a = dims -> length b = dims ->
  Forall (fun x => is_finite x = true) a -> Forall (fun x => is_finite x = true) b ->
  Forall (fun x => RoundErr.nosub 53 (-1074) (B2R x * B2R x)) a ->
  Forall (fun x => RoundErr.nosub 53 (-1074) (B2R x * B2R x)) b ->
  Forall2 (fun x y => RoundErr.nosub 53 (-1074) (B2R x * B2R y)) a b ->
  INR (dims + 8) * bpow radix2 (-53) <= / 16 ->
  4 * bpow radix2 (-1022) <= NXr a * NXr b ->
  NXr a <= bpow radix2 1022 -> NXr b <= bpow radix2 1022 -> NXr a * NXr b <= bpow radix2 1022 ->
  match generic_cosine Rg float_math dims (init_mem a b res) with
  | Ok x m => run_ok (init_mem a b res) m /\ is_finite x = true /\
              Rabs (B2R x - (1 - DOTr a b / sqrt (NXr a * NXr b))) <= 4 * (INR (dims + 8) * bpow radix2 (-53))
              /\ - (4 * (INR (dims + 8) * bpow radix2 (-53))) <= B2R x <= 2 + 4 * (INR (dims + 8) * bpow radix2 (-53))
  | _ => False
  end.
Proof.
  intros HR Ha Hb Fa Fb Hna Hnb Hnab HK Hlo HhX HhY HhP.
  pose proof (f64_ops_faithful r Rg HR) as FL.
  pose proof (cosine_accuracy Rg _ _ _ FL a b res dims Ha Hb Fa Fb Hna Hnb Hnab HK Hlo HhX HhY HhP) as H1.
  pose proof (cosine_range Rg _ _ _ FL a b res dims Ha Hb Fa Fb Hna Hnb Hnab HK Hlo HhX HhY HhP) as H2.
  unfold f32, f64 in *.
  destruct (generic_cosine Rg float_math dims (init_mem a b res)) as [x m| | |]; try contradiction.
  destruct H1 as (O & F & E). split; [exact O|]. split; [exact F|]. split; [exact E | exact H2].
Qed.

(* the domain is inhabited: a = b = [1; 1] in f32 on the AVX2+FMA model *)
Lemma accuracy_nonvacuous :
  let a : list f32 := [Bone; Bone] in
  match f32_ops Avx2Fma with
  | Some Rg => match generic_cosine Rg float_math 2 (init_mem a a []) with
               | Ok r _ => Rabs (B2R r) <= 4 * (INR 10 * bpow radix2 (-24))
               | _ => False
               end
  | None => False
  end.
Proof.
  cbv zeta. cbn [f32_ops].
  assert (N : NXr ([Bone; Bone] : list (binary_float 24 128)) = 2).
  { unfold NXr. cbn [map Rsum fold_right]. rewrite !Bone_correct. lra. }
  assert (B2 : bpow radix2 (-126) <= / 4).
  { change (/ 4) with (bpow radix2 (-2)). apply bpow_le. lia. }
  assert (B3 : 4 <= bpow radix2 126).
  { change 4 with (bpow radix2 2). apply bpow_le. lia. }
  assert (B4 : bpow radix2 (-24) <= / 1024).
  { change (/ 1024) with (bpow radix2 (-10)). apply bpow_le. lia. }
  unfold f32.
  apply (cosine_identical (avx2_float_ops 8 true) _ _ _ (f32_ops_faithful Avx2Fma _ eq_refl)
           ([Bone; Bone] : list (binary_float 24 128)) [] 2).
  - reflexivity.
  - constructor; [apply is_finite_Bone|]. constructor; [apply is_finite_Bone|]. constructor.
  - assert (H1 : RoundErr.nosub 24 (SpecFloat.emin 24 128) (B2R (@Bone 24 128 _ _) * B2R (@Bone 24 128 _ _))).
    { rewrite Bone_correct. right. rewrite Rmult_1_l, Rabs_R1.
      change 1 with (bpow radix2 0). apply bpow_le. unfold SpecFloat.emin. lia. }
    constructor; [exact H1|]. constructor; [exact H1|]. constructor.
  - unfold RoundErr.u. replace (INR (2 + 8)) with 10 by (simpl; lra). change (- (24))%Z with (-24)%Z.
    pose proof (bpow_gt_0 radix2 (-24)). lra.
  - rewrite N. replace (SpecFloat.emin 24 128 + 24 - 1)%Z with (-126)%Z by (unfold SpecFloat.emin; lia). lra.
  - rewrite N. change (128 - 2)%Z with 126%Z. lra.
  - rewrite N. change (128 - 2)%Z with 126%Z. lra.
Qed.
