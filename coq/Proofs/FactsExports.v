(* Reflection over the export tables regenerated from /repo (re-checked against the source on every run). *)
From Coq Require Import String List Bool Arith.
From CF Require Import Model.Tables Model.TableSem Proofs.TableProofs.
From CF Require Import Gen.GenExports Gen.GenSafe Gen.GenMacros Gen.GenDispatch.
Import ListNotations.

Lemma exports_rows_ok : forallb (export_row_ok export_macros) exports = true.
Proof. vm_compute. reflexivity. Qed.

Lemma export_names_unique : nodup_strings (all_export_names exports) = true.
Proof. vm_compute. reflexivity. Qed.

Lemma C11_rows_proof : forall e, In e exports -> export_row_ok export_macros e = true.
Proof. apply forallb_In. exact exports_rows_ok. Qed.

Lemma C11_names_proof :
  forall e f, In e exports -> e_name f e = export_name_spec f (e_ty e) (e_reg e) (e_op e).
Proof. intros e f H. apply export_row_ok_names with (ms := export_macros). apply C11_rows_proof; exact H. Qed.

Definition fma_tag_row_ok (e : export) : bool :=
  Bool.eqb (kernel_uses_fmadd (e_op e) && fused (e_reg e) (e_ty e))
           (String.eqb (e_xany e)
              (ty_name (e_ty e) ++ "_xany_" ++ arch_tag (e_reg e) ++ "_fma_" ++ kernel_opname (e_op e))%string).

Lemma fma_tag_rows : forallb fma_tag_row_ok exports = true.
Proof. vm_compute. reflexivity. Qed.

Lemma C11_fma_tag_proof :
  forall e, In e exports ->
    (kernel_uses_fmadd (e_op e) && fused (e_reg e) (e_ty e) = true
     <-> e_xany e = (ty_name (e_ty e) ++ "_xany_" ++ arch_tag (e_reg e) ++ "_fma_" ++ kernel_opname (e_op e))%string).
Proof.
  intros e H. pose proof (forallb_In _ _ fma_tag_rows e H) as R. unfold fma_tag_row_ok in R.
  apply Bool.eqb_prop in R. rewrite R. apply String.eqb_eq.
Qed.
