(* Reflection over the dispatch chain regenerated from dispatch.rs. *)
From Coq Require Import String List Bool Arith.
From CF Require Import Model.Tables Model.TableSem Proofs.TableProofs.
From CF Require Import Gen.GenExports Gen.GenSafe Gen.GenMacros Gen.GenDispatch.
Import ListNotations.

Lemma chain_wiring : chain_wiring_ok dispatch_pattern dispatch_chain = true.
Proof. vm_compute. reflexivity. Qed.

Lemma doc_priority : doc_priority_ok doc_priority_x86 doc_priority_arm = true.
Proof. vm_compute. reflexivity. Qed.

Lemma chain_archs_known :
  forallb (fun c => cfg_archs_known (ce_cfg c)) dispatch_chain
  && forallb (fun d => cfg_archs_known (pd_cfg d) && forallb (fun a => cfg_archs_known (fst a)) (pd_arms d))
             pred_defs = true.
Proof. vm_compute. reflexivity. Qed.

(* The macro's control structure against the specification, for every build configuration, every
   combination of predicate outcomes and every set of supplied optional slots. *)
Lemma chain_selects_spec :
  forall bc p s, select_chain dispatch_chain bc p s = select_spec bc p s.
Proof.
  intros [a n sd tf] [p1 p2 p3 p4] [s1 s2 s3 s4].
  destruct a, n, p1, p2, p3, p4, s1, s2, s3, s4; reflexivity.
Qed.

Lemma select_never_none : forall bc p s, select_spec bc p s <> None.
Proof.
  intros bc p s H. unfold select_spec in H.
  pose proof (find_none _ _ H SFallback) as F. cbn in F.
  assert (T : true = false) by (apply F; auto 10). discriminate T.
Qed.
