(* Proofs for C18: the scalar math layer (Gen/GenMath.v, regenerated from math/default.rs and math/fast_math.rs on
   every run) agrees with the primitive types (Model/Prim.v, Model/PrimMore.v).

   1. integer facts about the wrapping primitives, for every width w > 0 and both signednesses;
   2. float facts about the IEEE primitives, for every binary format (used at binary32 and binary64);
   3. the integer square root through binary64 is the floor of the root below 2^52;
   4. the generated records are, field by field, the specification Regs.int_math / Regs.float_math;
   5. the statements of Props/C18.v about the generated records. *)
From Coq Require Import ZArith Bool Lia List Reals Psatz SpecFloat.
From Flocq Require Import Core.Core IEEE754.BinarySingleNaN.
From CF Require Import Model.Tables Model.Prim Model.SimdApi Model.PrimMore Model.Regs Gen.GenMath.
Local Open Scope Z_scope.

(** * 1. Integers *)

Definition in_range (w x : Z) : Prop := 0 <= x < 2 ^ w.

Lemma pow2_split : forall w, 0 < w -> 2 ^ w = 2 * 2 ^ (w - 1).
Proof. intros w Hw. replace w with (Z.succ (w - 1)) at 1 by lia. apply Z.pow_succ_r. lia. Qed.

Lemma pow2_pos : forall w, 0 <= w -> 0 < 2 ^ w.
Proof. intros. apply Z.pow_pos_nonneg; lia. Qed.

Lemma wrap_small : forall w x, in_range w x -> wrap w x = x.
Proof. intros w x H. unfold wrap. apply Z.mod_small. exact H. Qed.

Lemma wrap_range : forall w x, 0 <= w -> in_range w (wrap w x).
Proof. intros w x Hw. unfold wrap, in_range. apply Z.mod_pos_bound. apply pow2_pos; lia. Qed.

Lemma sgn_range : forall w x, 0 < w -> in_range w x -> - 2 ^ (w - 1) <= sgn w x <= 2 ^ (w - 1) - 1.
Proof.
  intros w x Hw [H0 H1]. unfold sgn. rewrite (pow2_split w Hw) in *.
  destruct (x <? 2 ^ (w - 1)) eqn:E; [apply Z.ltb_lt in E | apply Z.ltb_ge in E]; lia.
Qed.

Lemma ival_eqm : forall sg w x, 0 <= w -> ival sg w x mod 2 ^ w = x mod 2 ^ w.
Proof.
  intros sg w x Hw. unfold ival, sgn. destruct sg; [|reflexivity].
  destruct (x <? 2 ^ (w - 1)); [reflexivity|].
  replace (x - 2 ^ w) with (x + (-1) * 2 ^ w) by ring. apply Z.mod_add.
  pose proof (pow2_pos w Hw). lia.
Qed.

Lemma ival_inj : forall sg w x y, 0 < w -> in_range w x -> in_range w y -> ival sg w x = ival sg w y -> x = y.
Proof.
  intros sg w x y Hw Hx Hy H.
  assert (E : x mod 2 ^ w = y mod 2 ^ w) by (rewrite <- (ival_eqm sg w x), <- (ival_eqm sg w y), H by lia; reflexivity).
  rewrite !Z.mod_small in E; assumption.
Qed.

Lemma ival_range : forall sg w x, 0 < w -> in_range w x -> int_lo sg w <= ival sg w x <= int_hi sg w.
Proof.
  intros sg w x Hw Hx. unfold ival, int_lo, int_hi. destruct sg.
  - apply sgn_range; assumption.
  - unfold in_range in Hx. lia.
Qed.

(* identities *)
Lemma i_add_0_l : forall w x, in_range w x -> i_add w 0 x = x.
Proof. intros. unfold i_add. rewrite Z.add_0_l. apply wrap_small; assumption. Qed.
Lemma i_add_0_r : forall w x, in_range w x -> i_add w x 0 = x.
Proof. intros. unfold i_add. rewrite Z.add_0_r. apply wrap_small; assumption. Qed.
Lemma i_mul_1_l : forall w x, in_range w x -> i_mul w 1 x = x.
Proof. intros. unfold i_mul. rewrite Z.mul_1_l. apply wrap_small; assumption. Qed.
Lemma i_mul_1_r : forall w x, in_range w x -> i_mul w x 1 = x.
Proof. intros. unfold i_mul. rewrite Z.mul_1_r. apply wrap_small; assumption. Qed.

(* MIN / MAX *)
Lemma i_MIN_val : forall sg w, 0 < w -> in_range w (i_MIN sg w) /\ ival sg w (i_MIN sg w) = int_lo sg w.
Proof.
  intros sg w Hw. unfold i_MIN, ival, int_lo, in_range, sgn. pose proof (pow2_split w Hw) as E.
  pose proof (pow2_pos (w - 1) ltac:(lia)) as P. destruct sg.
  - rewrite Z.ltb_irrefl. lia.
  - lia.
Qed.
Lemma i_MAX_val : forall sg w, 0 < w -> in_range w (i_MAX sg w) /\ ival sg w (i_MAX sg w) = int_hi sg w.
Proof.
  intros sg w Hw. unfold i_MAX, ival, int_hi, in_range, sgn. pose proof (pow2_split w Hw) as E.
  pose proof (pow2_pos (w - 1) ltac:(lia)) as P. destruct sg.
  - replace (2 ^ (w - 1) - 1 <? 2 ^ (w - 1)) with true by (symmetry; apply Z.ltb_lt; lia). lia.
  - lia.
Qed.
Lemma i_bounds : forall sg w x, 0 < w -> in_range w x ->
  ival sg w (i_MIN sg w) <= ival sg w x <= ival sg w (i_MAX sg w).
Proof.
  intros sg w x Hw Hx. rewrite (proj2 (i_MIN_val sg w Hw)), (proj2 (i_MAX_val sg w Hw)).
  apply ival_range; assumption.
Qed.

(* wrapping arithmetic: in range and congruent to the exact result modulo 2^w *)
Lemma i_add_spec : forall sg w a b, 0 < w ->
  in_range w (i_add w a b) /\ ival sg w (i_add w a b) mod 2 ^ w = (ival sg w a + ival sg w b) mod 2 ^ w.
Proof.
  intros sg w a b Hw. split; [apply wrap_range; lia|].
  rewrite ival_eqm by lia. unfold i_add, wrap. rewrite Z.mod_mod by (pose proof (pow2_pos w); lia).
  rewrite Z.add_mod by (pose proof (pow2_pos w); lia).
  rewrite (Z.add_mod (ival sg w a)) by (pose proof (pow2_pos w); lia).
  rewrite !ival_eqm by lia. reflexivity.
Qed.
Lemma i_sub_spec : forall sg w a b, 0 < w ->
  in_range w (i_sub w a b) /\ ival sg w (i_sub w a b) mod 2 ^ w = (ival sg w a - ival sg w b) mod 2 ^ w.
Proof.
  intros sg w a b Hw. split; [apply wrap_range; lia|].
  rewrite ival_eqm by lia. unfold i_sub, wrap. rewrite Z.mod_mod by (pose proof (pow2_pos w); lia).
  rewrite Zminus_mod. rewrite (Zminus_mod (ival sg w a)).
  rewrite !ival_eqm by lia. reflexivity.
Qed.
Lemma i_mul_spec : forall sg w a b, 0 < w ->
  in_range w (i_mul w a b) /\ ival sg w (i_mul w a b) mod 2 ^ w = (ival sg w a * ival sg w b) mod 2 ^ w.
Proof.
  intros sg w a b Hw. split; [apply wrap_range; lia|].
  rewrite ival_eqm by lia. unfold i_mul, wrap. rewrite Z.mod_mod by (pose proof (pow2_pos w); lia).
  rewrite Z.mul_mod by (pose proof (pow2_pos w); lia).
  rewrite (Z.mul_mod (ival sg w a)) by (pose proof (pow2_pos w); lia).
  rewrite !ival_eqm by lia. reflexivity.
Qed.
(* when the exact result is representable, it IS the result *)
Lemma ival_of_fit : forall sg w r v, 0 < w -> in_range w r -> int_lo sg w <= v <= int_hi sg w ->
  ival sg w r mod 2 ^ w = v mod 2 ^ w -> ival sg w r = v.
Proof.
  intros sg w r v Hw Hr Hv E. pose proof (ival_range sg w r Hw Hr) as Hi.
  pose proof (pow2_split w Hw) as P. pose proof (pow2_pos (w - 1) ltac:(lia)) as Q.
  assert (D : (ival sg w r - v) mod 2 ^ w = 0).
  { rewrite Zminus_mod, E, Z.sub_diag. apply Z.mod_0_l. lia. }
  apply Z.mod_divide in D; [|lia]. destruct D as [k Hk].
  unfold int_lo, int_hi in *. set (i := ival sg w r) in *. clearbody i.
  rewrite P in *. set (p := 2 ^ (w - 1)) in *. clearbody p.
  assert (K : k = 0) by (destruct sg; nia). subst k. lia.
Qed.

(* division *)
Lemma i_div_spec : forall sg w a b, 0 < w -> in_range w a -> in_range w b ->
  match i_div sg w a b with
  | None => b = 0
  | Some q => b <> 0 /\ in_range w q /\ q = wrap w (Z.quot (ival sg w a) (ival sg w b))
  end.
Proof.
  intros sg w a b Hw Ha Hb. unfold i_div. destruct (b =? 0) eqn:E.
  - apply Z.eqb_eq; assumption.
  - apply Z.eqb_neq in E. split; [assumption|]. destruct sg; cbn [ival].
    + split; [apply wrap_range; lia | reflexivity].
    + unfold in_range in *. assert (Hq : 0 <= a / b < 2 ^ w).
      { split; [apply Z.div_pos; lia|]. apply Z.div_lt_upper_bound; nia. }
      rewrite Z.quot_div_nonneg by lia. rewrite wrap_small by exact Hq. split; [exact Hq | reflexivity].
Qed.
Lemma i_div_exact : forall sg w a b q, 0 < w -> in_range w a -> in_range w b ->
  i_div sg w a b = Some q ->
  ~ (ival sg w a = int_lo sg w /\ ival sg w b = -1) ->
  ival sg w q = Z.quot (ival sg w a) (ival sg w b).
Proof.
  intros sg w a b q Hw Ha Hb Hd Hno.
  pose proof (i_div_spec sg w a b Hw Ha Hb) as S. rewrite Hd in S. destruct S as (Hb0 & Hq & ->).
  pose proof (ival_range sg w a Hw Ha) as Ra. pose proof (ival_range sg w b Hw Hb) as Rb.
  assert (Hbv : ival sg w b <> 0).
  { intro Z0. apply Hb0. apply (ival_inj sg w b 0 Hw Hb); [unfold in_range; pose proof (pow2_pos w); lia|].
    rewrite Z0. unfold ival, sgn. destruct sg; [|reflexivity].
    replace (0 <? 2 ^ (w - 1)) with true; [reflexivity|]. symmetry. apply Z.ltb_lt. apply pow2_pos. lia. }
  apply ival_of_fit; [assumption | apply wrap_range; lia | | ].
  - set (x := ival sg w a) in *. set (y := ival sg w b) in *. clearbody x y.
    assert (Habs : Z.abs (Z.quot x y) = Z.abs x / Z.abs y).
    { rewrite <- Z.quot_abs by assumption. apply Z.quot_div_nonneg; lia. }
    assert (Hle : Z.abs x / Z.abs y <= Z.abs x).
    { apply Z.div_le_upper_bound; nia. }
    pose proof (pow2_pos (w - 1) ltac:(lia)) as Q.
    unfold int_lo, int_hi in *. destruct sg.
    + destruct (Z.eq_dec x (- 2 ^ (w - 1))) as [Ex|Nx]; [|lia].
      destruct (Z.eq_dec y 1) as [Ey|Ny]; [subst y; rewrite Z.quot_1_r; lia|].
      assert (Hlt : Z.abs x / Z.abs y < 2 ^ (w - 1)).
      { apply Z.div_lt_upper_bound; [lia|]. assert (2 <= Z.abs y) by lia. nia. }
      lia.
    + assert (0 <= Z.quot x y) by (apply Z.quot_pos; lia). lia.
  - unfold wrap. rewrite ival_eqm by lia. apply Z.mod_mod. pose proof (pow2_pos w); lia.
Qed.

(* min / max / eq / abs *)
Lemma i_min_spec : forall sg w a b,
  (i_min sg w a b = a \/ i_min sg w a b = b) /\
  ival sg w (i_min sg w a b) = Z.min (ival sg w a) (ival sg w b).
Proof.
  intros sg w a b. unfold i_min. destruct (ival sg w b <? ival sg w a) eqn:E;
  [apply Z.ltb_lt in E | apply Z.ltb_ge in E]; split; auto; lia.
Qed.
Lemma i_max_spec : forall sg w a b,
  (i_max sg w a b = a \/ i_max sg w a b = b) /\
  ival sg w (i_max sg w a b) = Z.max (ival sg w a) (ival sg w b).
Proof.
  intros sg w a b. unfold i_max. destruct (ival sg w a <? ival sg w b) eqn:E;
  [apply Z.ltb_lt in E | apply Z.ltb_ge in E]; split; auto; lia.
Qed.
Lemma i_eq_spec : forall sg w a b, 0 < w -> in_range w a -> in_range w b ->
  (i_eq a b = true <-> a = b) /\ (i_eq a b = true <-> ival sg w a = ival sg w b).
Proof.
  intros sg w a b Hw Ha Hb. unfold i_eq. rewrite Z.eqb_eq. split; [tauto|].
  split; [intros ->; reflexivity | apply ival_inj; assumption].
Qed.
Lemma i_abs_spec : forall sg w a, 0 < w -> in_range w a ->
  in_range w (i_abs sg w a) /\
  (ival sg w a <> int_lo sg w \/ sg = false -> ival sg w (i_abs sg w a) = Z.abs (ival sg w a)).
Proof.
  intros sg w a Hw Ha. unfold i_abs. pose proof (ival_range sg w a Hw Ha) as R. destruct sg.
  - split; [apply wrap_range; lia|]. intros [N|N]; [|discriminate].
    apply ival_of_fit; [assumption | apply wrap_range; lia | | ].
    + cbn [ival] in *. unfold int_lo, int_hi in *. lia.
    + unfold wrap. rewrite ival_eqm by lia. apply Z.mod_mod. pose proof (pow2_pos w); lia.
  - split; [assumption|]. intros _. cbn [ival]. unfold in_range in Ha. lia.
Qed.

(** * 2. Floats *)

Section FloatFacts.
  Context {prec emax : Z} {Hp : FLX.Prec_gt_0 prec} {He : Prec_lt_emax prec emax}.
  Notation bf := (binary_float prec emax).
  Notation fexp := (SpecFloat.fexp prec emax).
  Local Instance fexp_valid : Valid_exp fexp := fexp_correct prec emax Hp.
  Local Instance fexp_mono : Monotone_exp fexp := fexp_monotone prec emax.
  Notation RN := (round radix2 fexp (round_mode mode_NE)).

  (* ordered comparison: a <= b *)
  Definition f_ordered_le (a b : bf) : Prop := Bcompare a b = Some Lt \/ Bcompare a b = Some Eq.

  Lemma Bcompare_not_nan : forall a b : bf, is_nan a = false -> is_nan b = false -> exists c, Bcompare a b = Some c.
  Proof.
    intros a b Ha Hb. unfold Bcompare.
    destruct a as [sa|sa| |sa ma ea Ba]; try discriminate; destruct b as [sb|sb| |sb mb eb Bb]; try discriminate;
      cbn; repeat match goal with |- context [if ?s then _ else _] => destruct s end; eauto;
      destruct (ea ?= eb); eauto.
  Qed.

  Lemma f_ordered_le_refl : forall a : bf, is_nan a = false -> f_ordered_le a a.
  Proof.
    intros a Ha. right. pose proof (Beqb_refl prec emax a) as R. rewrite Ha in R. cbn in R.
    unfold Beqb, SFeqb in R. unfold Bcompare. destruct (SFcompare (B2SF a) (B2SF a)) as [[| |]|]; try discriminate. reflexivity.
  Qed.

  Lemma finite_not_nan : forall y : bf, is_finite y = true -> is_nan y = false.
  Proof. intros [s|s| |s m e B]; try discriminate; reflexivity. Qed.

  (* zero is the additive identity (the sum with +0 of the one value -0 is +0, which equals it) *)
  Lemma f_add_zero : forall x : bf, f_is_nan x = false ->
    f_eq (f_add f_zero x) x = true /\ f_eq (f_add x f_zero) x = true /\
    (x <> B754_zero true -> f_add f_zero x = x /\ f_add x f_zero = x).
  Proof.
    intros x Hx. unfold f_add, f_zero, f_eq, f_is_nan in *.
    destruct x as [s|s| |s m e B]; try discriminate.
    - destruct s; cbn.
      + split; [reflexivity|]. split; [reflexivity|]. intros N. exfalso. apply N. reflexivity.
      + split; [reflexivity|]. split; [reflexivity|]. intros _. split; reflexivity.
    - cbn. destruct s; (split; [reflexivity|]; split; [reflexivity|]; intros _; split; reflexivity).
    - cbn [Bplus]. pose proof (Beqb_refl prec emax (B754_finite s m e B)) as R. cbn [is_nan negb] in R.
      rewrite R. repeat split; reflexivity.
  Qed.

  Lemma f_mul_one : forall x : bf, f_is_nan x = false -> f_mul f_one x = x /\ f_mul x f_one = x.
  Proof.
    intros x Hx. unfold f_mul, f_one, f_is_nan in *.
    destruct x as [s|s| |s m e B]; try discriminate.
    - generalize (is_finite_strict_Bone prec emax Hp He) (Bsign_Bone prec emax Hp He).
      destruct (@Bone prec emax Hp He) as [s1|s1| |s1 m1 e1 B1]; try discriminate. cbn. intros _ ->.
      destruct s; split; reflexivity.
    - generalize (is_finite_strict_Bone prec emax Hp He) (Bsign_Bone prec emax Hp He).
      destruct (@Bone prec emax Hp He) as [s1|s1| |s1 m1 e1 B1]; try discriminate. cbn. intros _ ->.
      destruct s; split; reflexivity.
    - set (x := B754_finite s m e B).
      assert (Hfx : is_finite x = true) by reflexivity.
      assert (Hrnd : forall r, r = B2R x -> Rlt_bool (Rabs (RN r)) (bpow radix2 emax) = true /\ RN r = B2R x).
      { intros r ->. rewrite round_generic; [|apply valid_rnd_N|apply generic_format_B2R].
        split; [|reflexivity]. apply Rlt_bool_true. apply abs_B2R_lt_emax. }
      split.
      + pose proof (Bmult_correct prec emax _ _ mode_NE Bone x) as C.
        rewrite Bone_correct, Rmult_1_l in C. destruct (Hrnd _ eq_refl) as [Hlt Hr]. rewrite Hlt, Hr in C.
        destruct C as (C1 & C2 & C3). rewrite is_finite_Bone, Hfx in C2. cbn in C2.
        apply B2R_Bsign_inj; try assumption.
        rewrite C3; [rewrite Bsign_Bone; apply xorb_false_l|]. apply finite_not_nan; assumption.
      + pose proof (Bmult_correct prec emax _ _ mode_NE x Bone) as C.
        rewrite Bone_correct, Rmult_1_r in C. destruct (Hrnd _ eq_refl) as [Hlt Hr]. rewrite Hlt, Hr in C.
        destruct C as (C1 & C2 & C3). rewrite is_finite_Bone, Hfx in C2. cbn in C2.
        apply B2R_Bsign_inj; try assumption.
        rewrite C3; [rewrite Bsign_Bone; apply xorb_false_r|]. apply finite_not_nan; assumption.
  Qed.

  (* -inf <= x <= +inf *)
  Lemma f_bounds : forall x : bf, f_is_nan x = false ->
    f_ordered_le (f_inf true) x /\ f_ordered_le x (f_inf false).
  Proof.
    intros x Hx. unfold f_ordered_le, f_inf, f_is_nan, Bcompare in *.
    destruct x as [s|s| |s m e B]; try discriminate; destruct s; cbn; auto.
  Qed.

  (* the explicit selections the math layer is written with ARE f_min / f_max (a NaN compares false) *)
  Lemma f_min_select : forall a b : bf, (if f_is_nan a || f_lt b a then b else a) = f_min a b.
  Proof.
    intros a b. unfold f_min. destruct (f_is_nan a) eqn:Ha; [reflexivity|]. cbn [orb].
    destruct (f_is_nan b) eqn:Hb; [|reflexivity].
    destruct b; try discriminate Hb. reflexivity.
  Qed.
  Lemma f_max_select : forall a b : bf, (if f_is_nan a || f_lt a b then b else a) = f_max a b.
  Proof.
    intros a b. unfold f_max. destruct (f_is_nan a) eqn:Ha; [reflexivity|]. cbn [orb].
    destruct (f_is_nan b) eqn:Hb; [|reflexivity].
    destruct b; try discriminate Hb. destruct a; try discriminate Ha; reflexivity.
  Qed.

  Lemma f_lt_nan_l : forall a b : bf, f_is_nan a = true -> f_lt a b = false.
  Proof. intros a b H. destruct a; try discriminate H. reflexivity. Qed.
  Lemma f_lt_nan_r : forall a b : bf, f_is_nan b = true -> f_lt a b = false.
  Proof. intros a b H. destruct b; try discriminate H. destruct a; reflexivity. Qed.

  Lemma f_min_spec : forall a b : bf, f_is_nan a = false -> f_is_nan b = false ->
    (f_min a b = a \/ f_min a b = b) /\ f_ordered_le (f_min a b) a /\ f_ordered_le (f_min a b) b.
  Proof.
    intros a b Ha Hb. unfold f_min. rewrite Ha, Hb. unfold f_is_nan in *.
    destruct (Bcompare_not_nan b a Hb Ha) as [c Hc].
    pose proof (Bcompare_swap prec emax b a) as Sw. rewrite Hc in Sw.
    unfold f_lt, Bltb, SFltb. change (SFcompare (B2SF b) (B2SF a)) with (Bcompare b a). rewrite Hc.
    unfold f_ordered_le. destruct c; cbn [CompOpp] in Sw.
    - split; [left; reflexivity|]. split; [apply f_ordered_le_refl; assumption | right; assumption].
    - split; [right; reflexivity|]. split; [left; assumption | apply f_ordered_le_refl; assumption].
    - split; [left; reflexivity|]. split; [apply f_ordered_le_refl; assumption | left; assumption].
  Qed.

  Lemma f_max_spec : forall a b : bf, f_is_nan a = false -> f_is_nan b = false ->
    (f_max a b = a \/ f_max a b = b) /\ f_ordered_le a (f_max a b) /\ f_ordered_le b (f_max a b).
  Proof.
    intros a b Ha Hb. unfold f_max. rewrite Ha, Hb. unfold f_is_nan in *.
    destruct (Bcompare_not_nan a b Ha Hb) as [c Hc].
    pose proof (Bcompare_swap prec emax a b) as Sw. rewrite Hc in Sw.
    unfold f_lt, Bltb, SFltb. change (SFcompare (B2SF a) (B2SF b)) with (Bcompare a b). rewrite Hc.
    unfold f_ordered_le. destruct c; cbn [CompOpp] in Sw.
    - split; [left; reflexivity|]. split; [apply f_ordered_le_refl; assumption | right; assumption].
    - split; [right; reflexivity|]. split; [left; assumption | apply f_ordered_le_refl; assumption].
    - split; [left; reflexivity|]. split; [apply f_ordered_le_refl; assumption | left; assumption].
  Qed.

  (* == is IEEE equality *)
  Lemma f_eq_spec : forall a b : bf,
    (f_eq a b = true <-> Bcompare a b = Some Eq) /\
    (f_is_nan a = true \/ f_is_nan b = true -> f_eq a b = false) /\
    (is_finite a = true -> is_finite b = true -> (f_eq a b = true <-> B2R a = B2R b)).
  Proof.
    intros a b. unfold f_eq, f_is_nan. split; [|split].
    - unfold Beqb, SFeqb, Bcompare. destruct (SFcompare (B2SF a) (B2SF b)) as [[| |]|]; split; congruence.
    - intros [H|H]; destruct a, b; try discriminate; reflexivity.
    - intros Fa Fb. rewrite (Beqb_correct prec emax a b Fa Fb).
      destruct (Req_bool_spec (B2R a) (B2R b)) as [E|N]; split; intros H; try reflexivity; try assumption;
        try discriminate. contradiction.
  Qed.

  Lemma f_eq_zeros : forall s1 s2, f_eq (B754_zero s1 : bf) (B754_zero s2) = true.
  Proof. intros [] []; reflexivity. Qed.

  Lemma f_eq_refl : forall x : bf, f_is_nan x = false -> f_eq x x = true.
  Proof. intros x Hx. unfold f_eq, f_is_nan in *. rewrite Beqb_refl, Hx. reflexivity. Qed.

  (* correct rounding (Flocq's theorems, restated for the operations the math layer is made of) *)
  Lemma f_add_correct : forall x y : bf, is_finite x = true -> is_finite y = true ->
    (Rabs (RN (B2R x + B2R y)) < bpow radix2 emax)%R ->
    B2R (f_add x y) = RN (B2R x + B2R y) /\ is_finite (f_add x y) = true.
  Proof.
    intros x y Fx Fy Hov. pose proof (Bplus_correct prec emax _ _ mode_NE x y Fx Fy) as C.
    rewrite Rlt_bool_true in C by exact Hov. destruct C as (C1 & C2 & _). split; assumption.
  Qed.
  Lemma f_sub_correct : forall x y : bf, is_finite x = true -> is_finite y = true ->
    (Rabs (RN (B2R x - B2R y)) < bpow radix2 emax)%R ->
    B2R (f_sub x y) = RN (B2R x - B2R y) /\ is_finite (f_sub x y) = true.
  Proof.
    intros x y Fx Fy Hov. pose proof (Bminus_correct prec emax _ _ mode_NE x y Fx Fy) as C.
    rewrite Rlt_bool_true in C by exact Hov. destruct C as (C1 & C2 & _). split; assumption.
  Qed.
  Lemma f_mul_correct : forall x y : bf, is_finite x = true -> is_finite y = true ->
    (Rabs (RN (B2R x * B2R y)) < bpow radix2 emax)%R ->
    B2R (f_mul x y) = RN (B2R x * B2R y) /\ is_finite (f_mul x y) = true.
  Proof.
    intros x y Fx Fy Hov. pose proof (Bmult_correct prec emax _ _ mode_NE x y) as C.
    rewrite Rlt_bool_true in C by exact Hov. destruct C as (C1 & C2 & _). rewrite Fx, Fy in C2. split; assumption.
  Qed.
  Lemma f_div_correct : forall x y : bf, is_finite x = true -> is_finite y = true -> B2R y <> 0%R ->
    (Rabs (RN (B2R x / B2R y)) < bpow radix2 emax)%R ->
    B2R (f_div x y) = RN (B2R x / B2R y) /\ is_finite (f_div x y) = true.
  Proof.
    intros x y Fx Fy Hy Hov. pose proof (Bdiv_correct prec emax _ _ mode_NE x y Hy) as C.
    rewrite Rlt_bool_true in C by exact Hov. destruct C as (C1 & C2 & _). rewrite Fx in C2. split; assumption.
  Qed.
  Lemma f_sqrt_correct : forall x : bf,
    B2R (f_sqrt x) = RN (sqrt (B2R x)) /\
    (is_finite x = true -> Bsign x = false -> is_finite (f_sqrt x) = true).
  Proof.
    intros x. pose proof (Bsqrt_correct prec emax _ _ mode_NE x) as (C1 & C2 & _). split; [exact C1|].
    intros Fx Sx. unfold f_sqrt. rewrite C2. destruct x as [s|s| |s m e B]; try discriminate; try reflexivity.
    cbn in Sx. subst s. reflexivity.
  Qed.
End FloatFacts.

(** * 3. Integer square root through binary64 *)

Section Isqrt.
  Notation fexp64 := (SpecFloat.fexp 53 1024).
  Notation RN := (round radix2 fexp64 (round_mode mode_NE)).
  Local Instance fexp64_valid : Valid_exp fexp64 := fexp_correct 53 1024 prec64.
  Local Instance fexp64_mono : Monotone_exp fexp64 := fexp_monotone 53 1024.

  (* m * 2^e with |m| < 2^53 and e >= -1074 is a binary64 number *)
  Lemma f64_format : forall m e, Z.abs m < 2 ^ 53 -> -1074 <= e ->
    generic_format radix2 fexp64 (F2R (Float radix2 m e)).
  Proof.
    intros m e Hm He. change fexp64 with (FLT_exp (-1074) 53).
    apply generic_format_FLT. apply (FLT_spec radix2 (-1074) 53 _ (Float radix2 m e)); [reflexivity | exact Hm | exact He].
  Qed.

  Lemma F2R_int : forall m, F2R (Float radix2 m 0) = IZR m.
  Proof. intros m. unfold F2R. cbn. ring. Qed.

  Lemma RN_int : forall m, Z.abs m < 2 ^ 53 -> RN (IZR m) = IZR m.
  Proof.
    intros m Hm. apply round_generic; [apply valid_rnd_N|]. rewrite <- F2R_int. apply f64_format; [exact Hm | lia].
  Qed.

  (* step 1: the conversion integer -> f64 is exact below 2^53 *)
  Lemma f_of_Z_exact : forall a, 0 <= a < 2 ^ 53 ->
    let x : f64 := f_of_Z a in B2R x = IZR a /\ is_finite x = true /\ Bsign x = false.
  Proof.
    intros a Ha x. unfold x, f_of_Z.
    pose proof (binary_normalize_correct 53 1024 prec64 emax64 mode_NE a 0 false) as C. cbv zeta in C.
    rewrite F2R_int in C. rewrite RN_int in C by lia.
    rewrite Rlt_bool_true in C.
    - destruct C as (C1 & C2 & C3). split; [exact C1|]. split; [exact C2|]. rewrite C3.
      destruct (Rcompare_spec (IZR a) 0) as [L|E|G]; try reflexivity. exfalso.
      apply lt_IZR in L. lia.
    - rewrite <- abs_IZR. cbn [bpow]. apply IZR_lt. apply Z.lt_trans with (2 ^ 53); [lia|]. vm_compute. reflexivity.
  Qed.

  (* step 2: the key inequality.  For 0 <= a < 2^52 and k = floor(sqrt a): k <= RN(sqrt a) < k + 1, because
     k and (k+1) - 2^-27 are binary64 numbers (k + 1 <= 2^26) and sqrt a <= (k+1) - 2^-27:
     a <= (k+1)^2 - 1 <= ((k+1) - 2^-27)^2. *)
  Lemma RN_sqrt_bounds : forall a, 0 <= a < 2 ^ 52 ->
    (IZR (Z.sqrt a) <= RN (sqrt (IZR a)) < IZR (Z.sqrt a + 1))%R.
  Proof.
    intros a Ha. set (k := Z.sqrt a).
    pose proof (Z.sqrt_spec a ltac:(lia)) as S. fold k in S. cbv zeta in S.
    pose proof (Z.sqrt_nonneg a) as K0. fold k in K0.
    assert (K1 : k + 1 <= 2 ^ 26).
    { assert (k < 2 ^ 26); [|lia]. unfold k. apply Z.sqrt_lt_square; [lia | lia |].
      change (Z.square (2 ^ 26)) with (2 ^ 52). lia. }
    clearbody k.
    split.
    - rewrite <- (RN_int k) by lia. apply round_le; [exact fexp64_valid | apply valid_rnd_N |].
      rewrite <- (sqrt_square (IZR k)) by (apply IZR_le; exact K0).
      apply sqrt_le_1_alt. rewrite <- mult_IZR. apply IZR_le. lia.
    - set (p := F2R (Float radix2 ((k + 1) * 2 ^ 27 - 1) (-27))).
      assert (Pf : generic_format radix2 fexp64 p).
      { apply f64_format; [|lia]. lia. }
      assert (Pv : p = (IZR (k + 1) - / IZR (2 ^ 27))%R).
      { unfold p, F2R. cbn [Fnum Fexp bpow]. rewrite minus_IZR, mult_IZR.
        change (Z.pow_pos radix2 27) with (2 ^ 27). change (IZR 1) with 1%R.
        assert (IZR (2 ^ 27) <> 0)%R by (apply IZR_neq; lia).
        field. assumption. }
      assert (E27 : (0 < / IZR (2 ^ 27))%R) by (apply Rinv_0_lt_compat, IZR_lt; lia).
      assert (E27' : (/ IZR (2 ^ 27) * IZR (2 ^ 27) = 1)%R) by (apply Rinv_l, IZR_neq; lia).
      assert (KR : (2 * IZR (k + 1) <= IZR (2 ^ 27))%R).
      { rewrite <- mult_IZR. apply IZR_le. lia. }
      assert (K1R : (1 <= IZR (k + 1))%R) by (apply IZR_le; lia).
      assert (E27'' : (/ IZR (2 ^ 27) < 1)%R).
      { rewrite <- Rinv_1. apply Rinv_lt_contravar; [rewrite Rmult_1_l|]; apply IZR_lt; lia. }
      assert (Pp : (0 <= p)%R) by (rewrite Pv; lra).
      apply Rle_lt_trans with p; [|rewrite Pv; lra].
      rewrite <- (round_generic radix2 fexp64 (round_mode mode_NE) p Pf).
      apply round_le; [exact fexp64_valid | apply valid_rnd_N |].
      rewrite <- (sqrt_square p Pp). apply sqrt_le_1_alt.
      apply Rle_trans with (IZR ((k + 1) * (k + 1) - 1)); [apply IZR_le; lia|].
      rewrite minus_IZR, mult_IZR, Pv. set (K := IZR (k + 1)) in *. set (e := (/ IZR (2 ^ 27))%R) in *.
      set (E := IZR (2 ^ 27)) in *. change (IZR 1) with 1%R.
      assert (2 * K * e <= 1)%R by (rewrite <- E27'; nra). nra.
  Qed.

  (* step 3: truncation of the rounded root *)
  Lemma trunc_sqrt : forall a, 0 <= a < 2 ^ 52 ->
    let y : f64 := f_sqrt (f_of_Z a) in
    is_finite y = true /\ Btrunc y = Z.sqrt a.
  Proof.
    intros a Ha y. destruct (f_of_Z_exact a ltac:(lia)) as (X1 & X2 & X3).
    set (x := f_of_Z a : f64) in *.
    pose proof (Bsqrt_correct 53 1024 prec64 emax64 mode_NE x) as (Y1 & Y2 & _).
    change (Bsqrt mode_NE x) with y in Y1, Y2. rewrite X1 in Y1.
    assert (Yf : is_finite y = true).
    { rewrite Y2. destruct x as [s|s| |s m e B]; try discriminate; try reflexivity. cbn in X3. subst s. reflexivity. }
    split; [exact Yf|].
    apply eq_IZR. rewrite (Btrunc_correct 53 1024 emax64 y), round_FIX_IZR, Y1.
    pose proof (RN_sqrt_bounds a Ha) as [B1 B2].
    f_equal. rewrite Ztrunc_floor.
    - apply Zfloor_imp. split; assumption.
    - apply Rle_trans with (IZR (Z.sqrt a)); [apply IZR_le, Z.sqrt_nonneg | exact B1].
  Qed.

  (* the integer square root of the library, `(a as f64).sqrt() as T`, is the floor of the root: every type,
     every non-negative value of the type below 2^52 *)
  Lemma i_sqrt_floor : forall sg w a, 0 < w -> 0 <= a < 2 ^ 52 -> a <= int_hi sg w ->
    i_sqrt sg w a = Z.sqrt a.
  Proof.
    intros sg w a Hw Ha Hhi.
    pose proof (pow2_split w Hw) as P. pose proof (pow2_pos (w - 1) ltac:(lia)) as Q.
    assert (Iv : ival sg w a = a).
    { unfold ival, sgn. destruct sg; [|reflexivity]. unfold int_hi in Hhi.
      replace (a <? 2 ^ (w - 1)) with true; [reflexivity|]. symmetry. apply Z.ltb_lt. lia. }
    unfold i_sqrt. rewrite Iv.
    destruct (trunc_sqrt a Ha) as [Yf Yt]. cbv zeta in Yf, Yt.
    set (y := f_sqrt (f_of_Z a : f64)) in *.
    assert (Ks : 0 <= Z.sqrt a <= a).
    { split; [apply Z.sqrt_nonneg | apply Z.sqrt_le_lin; lia]. }
    change (if sg then - 2 ^ (w - 1) else 0) with (int_lo sg w).
    change (if sg then 2 ^ (w - 1) - 1 else 2 ^ w - 1) with (int_hi sg w).
    assert (T : f_to_Z (int_lo sg w) (int_hi sg w) y = Z.sqrt a).
    { unfold f_to_Z. destruct y as [s|s| |s m e B]; try discriminate; rewrite Yt;
        unfold int_lo, int_hi in *; destruct sg;
        repeat match goal with |- context [?x <? ?y] => destruct (Z.ltb_spec x y) end; lia. }
    rewrite T. apply wrap_small. unfold in_range, int_hi in *. destruct sg; lia.
  Qed.
End Isqrt.

(** * 4. The generated records are the specification, field by field *)

Lemma gen_int_is_spec : forall v t M, gen_int_math v t = Some M ->
  mathops_ext M (int_math (is_signed t) (width t)).
Proof.
  intros v t M H.
  destruct v, t; cbn [gen_int_math] in H; inversion H; subst M; clear H;
  unfold mathops_ext; repeat split; intros; reflexivity.
Qed.

Lemma gen_int_defined : forall v t, is_float t = false -> exists M, gen_int_math v t = Some M.
Proof. intros [] [] H; try discriminate; cbn [gen_int_math]; eauto. Qed.

(* any way of writing the selection with `is_nan`, `<`, `||`, `&&`, `!` and `if` that IS f_min / f_max: case analysis on the
   NaN tests and comparisons that occur, a NaN operand compares false *)
Ltac float_select :=
  intros; unfold f_min, f_max;
  repeat match goal with |- context [f_is_nan ?x] => destruct (f_is_nan x) eqn:? end;
  repeat match goal with |- context [f_lt ?x ?y] => destruct (f_lt x y) eqn:? end;
  cbn [orb andb negb]; try reflexivity; exfalso;
  repeat match goal with
         | H : f_is_nan ?x = true, L : f_lt ?x ?y = true |- _ => rewrite (f_lt_nan_l x y H) in L; discriminate L
         | H : f_is_nan ?x = true, L : f_lt ?y ?x = true |- _ => rewrite (f_lt_nan_r y x H) in L; discriminate L
         end.
Ltac float_field :=
  first [reflexivity | apply f_min_select | apply f_max_select
        | solve [unfold gen_f32_math, gen_f64_math, std_f32, fast_f32, std_f64, fast_f64, float_math; cbn [m_cmp_min m_cmp_max]; float_select]].

Lemma gen_f32_is_spec : forall v, mathops_ext (gen_f32_math v) float_math.
Proof. intros []; unfold mathops_ext; repeat split; intros; float_field. Qed.
Lemma gen_f64_is_spec : forall v, mathops_ext (gen_f64_math v) float_math.
Proof. intros []; unfold mathops_ext; repeat split; intros; float_field. Qed.

(** * 5. Statements about the generated records *)

(* the float layers the translator produced: both variants at binary32 and binary64 *)
Inductive gen_float_layer :
  forall (prec emax : Z) (Hp : FLX.Prec_gt_0 prec) (He : Prec_lt_emax prec emax),
    MathOps (binary_float prec emax) -> Prop :=
| GF32 : forall v, gen_float_layer 24 128 prec32 emax32 (gen_f32_math v)
| GF64 : forall v, gen_float_layer 53 1024 prec64 emax64 (gen_f64_math v).

Lemma gen_float_is_spec : forall prec emax Hp He M,
  gen_float_layer prec emax Hp He M -> mathops_ext M (@float_math prec emax Hp He).
Proof. intros prec emax Hp He M []; [apply gen_f32_is_spec | apply gen_f64_is_spec]. Qed.

Ltac use_ext E :=
  destruct E as (Ezero & Eone & Emax & Emin & Esqrt & Eabs & Eeq & Ecmin & Ecmax & Eadd & Esub & Emul & Ediv);
  rewrite ?Ezero, ?Eone, ?Emax, ?Emin, ?Esqrt, ?Eabs, ?Eeq, ?Ecmin, ?Ecmax, ?Eadd, ?Esub, ?Emul, ?Ediv;
  cbn [int_math float_math m_zero m_one m_max m_min m_sqrt m_abs m_cmp_eq m_cmp_min m_cmp_max m_add m_sub m_mul m_div].

Lemma width_pos : forall t, 0 < width t.
Proof. intros []; reflexivity. Qed.

Section IntLayer.
  Variables (v : math_variant) (t : ty) (M : MathOps Z).
  Hypothesis HM : gen_int_math v t = Some M.
  Let sg := is_signed t.
  Let w := width t.

  Lemma int_identities : forall x, in_range w x ->
    m_add M (m_zero M) x = x /\ m_add M x (m_zero M) = x /\ m_mul M (m_one M) x = x /\ m_mul M x (m_one M) = x.
  Proof.
    intros x Hx. pose proof (gen_int_is_spec v t M HM) as E. use_ext E.
    repeat split; [apply i_add_0_l | apply i_add_0_r | apply i_mul_1_l | apply i_mul_1_r]; exact Hx.
  Qed.

  Lemma int_bounds :
    in_range w (m_min M) /\ in_range w (m_max M) /\
    ival sg w (m_min M) = int_lo sg w /\ ival sg w (m_max M) = int_hi sg w /\
    forall x, in_range w x -> ival sg w (m_min M) <= ival sg w x <= ival sg w (m_max M).
  Proof.
    pose proof (gen_int_is_spec v t M HM) as E. use_ext E. pose proof (width_pos t) as Hw.
    split; [apply i_MIN_val; exact Hw|]. split; [apply i_MAX_val; exact Hw|].
    split; [apply i_MIN_val; exact Hw|]. split; [apply i_MAX_val; exact Hw|].
    intros x Hx. apply i_bounds; assumption.
  Qed.

  Lemma int_arith : forall a b, in_range w a -> in_range w b ->
    (in_range w (m_add M a b) /\ ival sg w (m_add M a b) mod 2 ^ w = (ival sg w a + ival sg w b) mod 2 ^ w) /\
    (in_range w (m_sub M a b) /\ ival sg w (m_sub M a b) mod 2 ^ w = (ival sg w a - ival sg w b) mod 2 ^ w) /\
    (in_range w (m_mul M a b) /\ ival sg w (m_mul M a b) mod 2 ^ w = (ival sg w a * ival sg w b) mod 2 ^ w) /\
    match m_div M a b with
    | None => b = 0
    | Some q => b <> 0 /\ in_range w q /\ q = wrap w (Z.quot (ival sg w a) (ival sg w b)) /\
                (~ (ival sg w a = int_lo sg w /\ ival sg w b = -1) -> ival sg w q = Z.quot (ival sg w a) (ival sg w b))
    end.
  Proof.
    intros a b Ha Hb. pose proof (gen_int_is_spec v t M HM) as E. use_ext E. pose proof (width_pos t) as Hw.
    split; [apply i_add_spec; exact Hw|]. split; [apply i_sub_spec; exact Hw|]. split; [apply i_mul_spec; exact Hw|].
    pose proof (i_div_spec sg w a b Hw Ha Hb) as D.
    fold sg w. destruct (i_div sg w a b) as [q|] eqn:Dq; [|exact D].
    destruct D as (D1 & D2 & D3). split; [exact D1|]. split; [exact D2|]. split; [exact D3|]. intros N.
    apply (i_div_exact sg w a b q Hw Ha Hb Dq N).
  Qed.

  (* whenever the exact result fits the type it is the result *)
  Lemma int_arith_exact : forall a b, in_range w a -> in_range w b ->
    (int_lo sg w <= ival sg w a + ival sg w b <= int_hi sg w -> ival sg w (m_add M a b) = ival sg w a + ival sg w b) /\
    (int_lo sg w <= ival sg w a - ival sg w b <= int_hi sg w -> ival sg w (m_sub M a b) = ival sg w a - ival sg w b) /\
    (int_lo sg w <= ival sg w a * ival sg w b <= int_hi sg w -> ival sg w (m_mul M a b) = ival sg w a * ival sg w b).
  Proof.
    intros a b Ha Hb. destruct (int_arith a b Ha Hb) as ((A1 & A2) & (S1 & S2) & (M1 & M2) & _).
    pose proof (width_pos t) as Hw.
    repeat split; intros F; apply ival_of_fit; assumption.
  Qed.

  Lemma int_minmax : forall a b,
    ((m_cmp_min M a b = a \/ m_cmp_min M a b = b) /\ ival sg w (m_cmp_min M a b) = Z.min (ival sg w a) (ival sg w b)) /\
    ((m_cmp_max M a b = a \/ m_cmp_max M a b = b) /\ ival sg w (m_cmp_max M a b) = Z.max (ival sg w a) (ival sg w b)).
  Proof.
    intros a b. pose proof (gen_int_is_spec v t M HM) as E. use_ext E.
    split; [apply i_min_spec | apply i_max_spec].
  Qed.

  Lemma int_eq : forall a b, in_range w a -> in_range w b ->
    (m_cmp_eq M a b = true <-> a = b) /\ (m_cmp_eq M a b = true <-> ival sg w a = ival sg w b).
  Proof.
    intros a b Ha Hb. pose proof (gen_int_is_spec v t M HM) as E. use_ext E.
    apply i_eq_spec; [apply width_pos | assumption | assumption].
  Qed.

  Lemma int_abs : forall a, in_range w a ->
    in_range w (m_abs M a) /\
    (ival sg w a <> int_lo sg w \/ sg = false -> ival sg w (m_abs M a) = Z.abs (ival sg w a)).
  Proof.
    intros a Ha. pose proof (gen_int_is_spec v t M HM) as E. use_ext E.
    apply i_abs_spec; [apply width_pos | assumption].
  Qed.

  Lemma int_isqrt : forall a, 0 <= a < 2 ^ 52 -> a <= int_hi sg w -> m_sqrt M a = Z.sqrt a.
  Proof.
    intros a Ha Hh. pose proof (gen_int_is_spec v t M HM) as E. use_ext E.
    apply i_sqrt_floor; [apply width_pos | assumption | assumption].
  Qed.
End IntLayer.

Section FloatLayer.
  Variables (prec emax : Z) (Hp : FLX.Prec_gt_0 prec) (He : Prec_lt_emax prec emax).
  Variable M : MathOps (binary_float prec emax).
  Hypothesis HM : gen_float_layer prec emax Hp He M.
  Notation bf := (binary_float prec emax).
  Notation RN := (round radix2 (SpecFloat.fexp prec emax) (round_mode mode_NE)).

  Lemma float_ops_are_ieee :
    m_zero M = B754_zero false /\ m_one M = Bone /\ m_max M = B754_infinity false /\ m_min M = B754_infinity true /\
    (forall a, m_sqrt M a = Bsqrt mode_NE a) /\ (forall a, m_abs M a = Babs a) /\
    (forall a b, m_cmp_eq M a b = Beqb a b) /\
    (forall a b, m_add M a b = Bplus mode_NE a b) /\ (forall a b, m_sub M a b = Bminus mode_NE a b) /\
    (forall a b, m_mul M a b = Bmult mode_NE a b) /\ (forall a b, m_div M a b = Some (Bdiv mode_NE a b)).
  Proof.
    pose proof (gen_float_is_spec _ _ _ _ M HM) as E.
    destruct E as (Ezero & Eone & Emax & Emin & Esqrt & Eabs & Eeq & Ecmin & Ecmax & Eadd & Esub & Emul & Ediv).
    split; [exact Ezero|]. split; [exact Eone|]. split; [exact Emax|]. split; [exact Emin|].
    split; [exact Esqrt|]. split; [exact Eabs|]. split; [exact Eeq|]. split; [exact Eadd|].
    split; [exact Esub|]. split; [exact Emul|]. exact Ediv.
  Qed.

  Lemma float_identities : forall x : bf, f_is_nan x = false ->
    f_eq (m_add M (m_zero M) x) x = true /\ f_eq (m_add M x (m_zero M)) x = true /\
    (x <> B754_zero true -> m_add M (m_zero M) x = x /\ m_add M x (m_zero M) = x) /\
    m_mul M (m_one M) x = x /\ m_mul M x (m_one M) = x.
  Proof.
    intros x Hx. pose proof (gen_float_is_spec _ _ _ _ M HM) as E. use_ext E.
    destruct (f_add_zero x Hx) as (A1 & A2 & A3). destruct (f_mul_one x Hx) as (M1 & M2).
    repeat split; try assumption; apply A3; assumption.
  Qed.

  Lemma float_bounds : forall x : bf, f_is_nan x = false ->
    f_ordered_le (m_min M) x /\ f_ordered_le x (m_max M).
  Proof.
    intros x Hx. pose proof (gen_float_is_spec _ _ _ _ M HM) as E. use_ext E. apply f_bounds; assumption.
  Qed.

  Lemma float_minmax : forall a b : bf, f_is_nan a = false -> f_is_nan b = false ->
    ((m_cmp_min M a b = a \/ m_cmp_min M a b = b) /\
     f_ordered_le (m_cmp_min M a b) a /\ f_ordered_le (m_cmp_min M a b) b) /\
    ((m_cmp_max M a b = a \/ m_cmp_max M a b = b) /\
     f_ordered_le a (m_cmp_max M a b) /\ f_ordered_le b (m_cmp_max M a b)).
  Proof.
    intros a b Ha Hb. pose proof (gen_float_is_spec _ _ _ _ M HM) as E. use_ext E.
    split; [apply f_min_spec | apply f_max_spec]; assumption.
  Qed.

  Lemma float_eq : forall a b : bf,
    (m_cmp_eq M a b = true <-> Bcompare a b = Some Eq) /\
    (f_is_nan a = true \/ f_is_nan b = true -> m_cmp_eq M a b = false) /\
    (is_finite a = true -> is_finite b = true -> (m_cmp_eq M a b = true <-> B2R a = B2R b)) /\
    (forall s1 s2, m_cmp_eq M (B754_zero s1) (B754_zero s2) = true).
  Proof.
    intros a b. pose proof (gen_float_is_spec _ _ _ _ M HM) as E. use_ext E.
    destruct (f_eq_spec a b) as (E1 & E2 & E3). repeat split; try apply E1; try apply E3; auto.
    intros s1 s2. rewrite Eeq. apply f_eq_zeros.
  Qed.

  Lemma float_arith_rounded : forall x y : bf, is_finite x = true -> is_finite y = true ->
    ((Rabs (RN (B2R x + B2R y)) < bpow radix2 emax)%R ->
       B2R (m_add M x y) = RN (B2R x + B2R y) /\ is_finite (m_add M x y) = true) /\
    ((Rabs (RN (B2R x - B2R y)) < bpow radix2 emax)%R ->
       B2R (m_sub M x y) = RN (B2R x - B2R y) /\ is_finite (m_sub M x y) = true) /\
    ((Rabs (RN (B2R x * B2R y)) < bpow radix2 emax)%R ->
       B2R (m_mul M x y) = RN (B2R x * B2R y) /\ is_finite (m_mul M x y) = true) /\
    (B2R y <> 0%R -> (Rabs (RN (B2R x / B2R y)) < bpow radix2 emax)%R ->
       exists q, m_div M x y = Some q /\ B2R q = RN (B2R x / B2R y) /\ is_finite q = true).
  Proof.
    intros x y Fx Fy. pose proof (gen_float_is_spec _ _ _ _ M HM) as E. use_ext E.
    split; [apply f_add_correct; assumption|]. split; [apply f_sub_correct; assumption|].
    split; [apply f_mul_correct; assumption|].
    intros Hy Hov. exists (f_div x y). split; [reflexivity|]. apply f_div_correct; assumption.
  Qed.

  Lemma float_sqrt : forall x : bf,
    m_sqrt M x = Bsqrt mode_NE x /\ B2R (m_sqrt M x) = RN (sqrt (B2R x)) /\
    (is_finite x = true -> Bsign x = false -> is_finite (m_sqrt M x) = true).
  Proof.
    intros x. pose proof (gen_float_is_spec _ _ _ _ M HM) as E. use_ext E.
    split; [reflexivity|]. apply f_sqrt_correct.
  Qed.
End FloatLayer.
