(* C13, generated register model: the theorems.

   [gen_regs_refine]: EVERY entry of the regenerated table Gen/GenRegs.gen_reg_table — the instruction-level definition the
   translator produced from the CURRENT source of (register, element type, method) — satisfies the hand-written statement
   schema Proofs/GenRegsSpec.reg_goal: run on the byte / lane encoding of arbitrary well-formed registers it computes what
   the lane-level model (Model/Regs.v; for NEON the lane-wise scalar specification) says.  The per-entry lemmas are
   generated (Gen/GenRegsGoals_*.v: `Proof. solve_method. Qed.`), so a new or changed method is covered — or breaks
   the build, naming the method — without touching this file.
   [gen_table_keys]: the string table of what was translated is exactly the list of keys of the proved entries.
   [gen_priority_covered]: the methods the tie is mainly about ARE in the table (a method that silently became
   untranslatable would otherwise just disappear from the theorem). *)
From Coq Require Import ZArith List Arith Bool String Lia.
From Flocq Require Import IEEE754.BinarySingleNaN.
From CF Require Import Base.Mem Model.Tables Model.Prim Model.SimdApi Model.Kernels Model.Regs Model.Intrinsics Model.RegTable.
From CF Require Import Gen.GenRegs Gen.GenRegsGoals_Fallback Gen.GenRegsGoals Gen.GenRegsGoals_Avx2_u8 Gen.GenRegsGoals_Neon_i8
     Gen.GenRegsGoals_Avx2_i8 Gen.GenRegsGoals_Neon_u64.
From CF Require Import Proofs.ReduceCorrect Proofs.IntReduce Proofs.IntBackends Proofs.BackendTable
     Proofs.IntrinsicsFacts Proofs.GenRegsSpec Proofs.ListFacts Model.RustLoops Proofs.RustLoopsFacts Proofs.NeonSpec.
Import ListNotations.

Theorem gen_regs_refine : Forall entry_goal gen_reg_table.
Proof. exact gen_reg_table_ok. Qed.

Theorem gen_fallback_refine : Forall fb_entry_goal gen_fallback_table.
Proof. exact gen_fallback_table_ok. Qed.

Lemma gen_entry_goal e : In e gen_reg_table -> entry_goal e.
Proof. intros H. exact (proj1 (Forall_forall _ _) gen_regs_refine e H). Qed.

(* the keys *)
Definition fb_key (e : rmeth * fb_def) : string * string * string := ("Fallback", "T", rmeth_name (fst e))%string.

Theorem gen_table_keys : (map fb_key gen_fallback_table ++ map entry_key gen_reg_table)%list = gen_reg_methods.
Proof. reflexivity. Qed.

Theorem gen_counts :
  Z.of_nat (List.length gen_fallback_table + List.length gen_reg_table) = snd gen_reg_counts
  /\ Z.of_nat (List.length gen_reg_methods + List.length gen_reg_untranslated) = fst gen_reg_counts.
Proof. split; reflexivity. Qed.

(* coverage of the priority list *)
Definition rmeth_eqb (a b : rmeth) : bool := String.eqb (rmeth_name a) (rmeth_name b).
Definition has_entry (r : reg) (t : ty) (m : rmeth) : bool :=
  existsb (fun e => let '(r', t', m', _) := e in reg_eqb r r' && ty_eqb t t' && rmeth_eqb m m') gen_reg_table.

Definition int_tys : list ty := [I8; I16; I32; I64; U8; U16; U32; U64].
Definition float_tys : list ty := [F32; F64].
(* lane-wise arithmetic, broadcast, and their dense forms (div / div_dense are listed separately: integers divide in a
   scalar loop that may panic, option-valued shape) *)
Definition lane_methods : list rmeth :=
  [MFilled; MZeroed; MAdd; MSub; MMul; MMax; MMin; MFmadd;
   MFilledDense; MZeroedDense; MAddDense; MSubDense; MMulDense; MMaxDense; MMinDense; MFmaddDense;
   MSumToRegister; MMaxToRegister; MMinToRegister; MElementsPerLane; MElementsPerDense].
Definition fold_methods : list rmeth := [MSumToValue; MMaxToValue; MMinToValue].

Definition covered (r : reg) (ts : list ty) (ms : list rmeth) : bool :=
  forallb (fun t => forallb (has_entry r t) ms) ts.

(* Fallback: everything but elements_per_lane / elements_per_dense (mem::size_of of the generic type) *)
Definition lane_methods_fb : list rmeth :=
  [MFilled; MZeroed; MAdd; MSub; MMul; MMax; MMin; MFmadd;
   MFilledDense; MZeroedDense; MAddDense; MSubDense; MMulDense; MMaxDense; MMinDense; MFmaddDense;
   MSumToRegister; MMaxToRegister; MMinToRegister].
Definition fb_covered (ms : list rmeth) : bool :=
  forallb (fun m => existsb (fun e => rmeth_eqb m (fst e)) gen_fallback_table) ms.

(* which generated definitions are option-valued (may panic): exactly integer div / div_dense everywhere, and on NEON
   the 64-bit mul / max / min (scalar loops storing into an array) with what is built on them *)
Definition is_opt (g : gen_any) : bool :=
  match g with
  | GI (O_vvv _) | GI (O_vvvv _) | GI (O_ddd _) | GI (O_dddd _) | GI (O_dv _) => true
  | _ => false
  end.
Definition neon64_loop_methods : list rmeth :=
  [MMul; MMax; MMin; MFmadd; MMulDense; MMaxDense; MMinDense; MFmaddDense; MMaxToRegister; MMinToRegister].
Definition opt_expected (r : reg) (t : ty) (m : rmeth) : bool :=
  negb (is_float t)
  && (existsb (rmeth_eqb m) [MDiv; MDivDense]
      || (match r with Neon => true | _ => false end
          && (ty_eqb t I64 || ty_eqb t U64) && existsb (rmeth_eqb m) neon64_loop_methods)).

Theorem gen_opt_shapes :
  forallb (fun e => let '(r, t, m, g) := e in Bool.eqb (is_opt g) (opt_expected r t m)) gen_reg_table = true.
Proof. reflexivity. Qed.

Theorem gen_priority_covered :
  (* (a) AVX2 integers *)            covered Avx2 int_tys (MDiv :: MDivDense :: lane_methods ++ fold_methods)%list = true
  (* (b) AVX2 / AVX2+FMA floats *)   /\ covered Avx2 float_tys (MDiv :: MDivDense :: MMaxToValue :: MMinToValue :: lane_methods) = true
                                     /\ covered Avx2Fma float_tys (MDiv :: MDivDense :: MMaxToValue :: MMinToValue :: lane_methods) = true
                                     /\ covered Avx2 [F32] [MSumToValue] = true /\ covered Avx2Fma [F32] [MSumToValue] = true
  (* (c) AVX-512 *)                  /\ covered Avx512 int_tys (MDiv :: MDivDense :: lane_methods ++ fold_methods)%list = true
                                     /\ covered Avx512 float_tys (MDiv :: MDivDense :: lane_methods ++ fold_methods)%list = true
  (* (d) NEON *)                     /\ covered Neon int_tys (MDiv :: MDivDense :: lane_methods ++ fold_methods)%list = true
                                     /\ covered Neon float_tys (MDiv :: MDivDense :: lane_methods ++ fold_methods)%list = true
  (* (e) Fallback *)                 /\ fb_covered (MDiv :: MDivDense :: lane_methods_fb ++ fold_methods)%list = true.
Proof. repeat split; reflexivity. Qed.

Lemma has_entry_In r t m : has_entry r t m = true -> exists g, In (r, t, m, g) gen_reg_table.
Proof.
  unfold has_entry. rewrite existsb_exists. intros ([[[r' t'] m'] g] & Hin & H).
  apply andb_prop in H. destruct H as [H Hm]. apply andb_prop in H. destruct H as [Hr Ht].
  assert (r = r') by (destruct r, r'; cbn in Hr; congruence).
  assert (t = t') by (destruct t, t'; cbn in Ht; congruence).
  assert (m = m').
  { unfold rmeth_eqb in Hm. apply String.eqb_eq in Hm. destruct m, m'; cbn in Hm; try reflexivity; discriminate Hm. }
  subst. exists g. exact Hin.
Qed.

(* a covered method has a generated definition, and that definition refines the lane-level model *)
Theorem gen_covered_refines r t m :
  has_entry r t m = true -> exists g, In (r, t, m, g) gen_reg_table /\ reg_goal r t m g.
Proof.
  intros H. destruct (has_entry_In r t m H) as [g Hin]. exists g. split; [exact Hin|].
  exact (gen_entry_goal _ Hin).
Qed.

(** * Readable instances (what [reg_goal] unfolds to) *)

(* the emulated AVX2 u8 multiply: mullo_epi16 / srai_epi16 / slli_epi16 / blendv_epi8, from the bytes of the source *)
Theorem gen_avx2_u8_mul :
  forall x y, List.length x = 32 -> List.length y = 32 -> Forall (in_range 8) x -> Forall (in_range 8) y ->
    lanes_of 8 (gen_Avx2_u8_mul (bytes_of 8 x) (bytes_of 8 y)) = r_mul (avx2_int_ops false 8) x y
    /\ lanes_of 8 (gen_Avx2_u8_mul (bytes_of 8 x) (bytes_of 8 y)) = map2 (i_mul 8) x y.
Proof.
  intros x y Lx Ly Fx Fy.
  destruct gen_Avx2_u8_mul_ok as [_ G]. cbv beta iota delta [method_goal bin_goal] in G.
  assert (E : lanes_of 8 (gen_Avx2_u8_mul (bytes_of 8 x) (bytes_of 8 y)) = r_mul (avx2_int_ops false 8) x y)
    by (apply G; split; assumption).
  split; [exact E|]. rewrite E.
  apply (il_mul 8 _ (avx2_int_lanewise false 8 ltac:(cbn; tauto))); assumption.
Qed.

(* NEON f32 fmadd is fused (vfmaq_f32(acc, l1, l2)): one rounding per lane, operands in the right places *)
Theorem gen_neon_f32_fmadd :
  forall x y z : list f32, gen_Neon_f32_fmadd x y z = map3 f_fma x y z.
Proof.
  intros x y z. unfold gen_Neon_f32_fmadd, vfmaq_f32, vfmla.
  revert y z. induction x as [|a x IH]; intros [|b y] [|c z]; cbn [map3]; try reflexivity. rewrite IH. reflexivity.
Qed.

(* integer division (a scalar loop over the transmuted lanes in the source): the generated AVX2 i8 `div` on the bytes of
   arbitrary registers is the model's [r_div] = the lane-wise wrapping_div, and it PANICS exactly when some divisor lane
   is zero *)
Theorem gen_avx2_i8_div :
  forall x y, List.length x = 32 -> List.length y = 32 -> Forall (in_range 8) x -> Forall (in_range 8) y ->
    option_map (lanes_of 8) (gen_Avx2_i8_div (bytes_of 8 x) (bytes_of 8 y)) = r_div (avx2_int_ops true 8) x y
    /\ option_map (lanes_of 8) (gen_Avx2_i8_div (bytes_of 8 x) (bytes_of 8 y)) = sequence (map2 (i_div true 8) x y)
    /\ (gen_Avx2_i8_div (bytes_of 8 x) (bytes_of 8 y) = None <-> In 0%Z y).
Proof.
  intros x y Lx Ly Fx Fy.
  destruct gen_Avx2_i8_div_ok as [_ G]. cbv beta iota delta [method_goal obin_goal] in G.
  assert (E : option_map (lanes_of 8) (gen_Avx2_i8_div (bytes_of 8 x) (bytes_of 8 y)) = r_div (avx2_int_ops true 8) x y)
    by (apply G; split; assumption).
  assert (E2 : r_div (avx2_int_ops true 8) x y = sequence (map2 (i_div true 8) x y)) by apply div_lanes_seq.
  split; [exact E|]. split; [rewrite E; exact E2|].
  rewrite <- (seq_div_none true 8 x y) by lia. rewrite <- E2, <- E.
  destruct (gen_Avx2_i8_div (bytes_of 8 x) (bytes_of 8 y)); cbn [option_map]; split; intros H; try reflexivity; discriminate H.
Qed.

(* NEON u64 max (a scalar loop of core::cmp::max in the source): never panics, lane-wise unsigned maximum *)
Theorem gen_neon_u64_max :
  forall x y, List.length x = 2 -> List.length y = 2 -> Forall (in_range 64) x -> Forall (in_range 64) y ->
    option_map (lanes_of 64) (gen_Neon_u64_max (bytes_of 64 x) (bytes_of 64 y)) = Some (map2 (i_max false 64) x y).
Proof.
  intros x y Lx Ly Fx Fy.
  destruct gen_Neon_u64_max_ok as [_ G]. cbv beta iota delta [method_goal obin_goal tot2] in G.
  exact (G x y (conj Lx Fx) (conj Ly Fy)).
Qed.

(* NEON i8 add straight against the scalar specification *)
Theorem gen_neon_i8_add :
  forall x y, List.length x = 16 -> List.length y = 16 -> Forall (in_range 8) x -> Forall (in_range 8) y ->
    lanes_of 8 (gen_Neon_i8_add (bytes_of 8 x) (bytes_of 8 y)) = map2 (i_add 8) x y.
Proof.
  intros x y Lx Ly Fx Fy.
  destruct gen_Neon_i8_add_ok as [_ G]. cbv beta iota delta [method_goal bin_goal] in G.
  apply (G x y); split; assumption.
Qed.
