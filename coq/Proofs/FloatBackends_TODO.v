(* STATEMENTS to be proved (helper task).  Deliver Proofs/FloatOrder.v and Proofs/FloatBackends.v with these
   definitions and theorem names/statements, proved.  This TODO file is not part of the build. *)
From Coq Require Import ZArith List Arith Bool Lia.
From Flocq Require Import IEEE754.BinarySingleNaN.
From CF Require Import Base.Mem Model.SimdApi Model.Kernels Model.Tables Model.Prim Model.Regs.
From CF Require Import Proofs.KernelBounds Proofs.OpsWf Proofs.ListFacts Proofs.MapCorrect Proofs.DivCorrect
     Proofs.Extreme Proofs.HorizExtreme.
Import ListNotations.

(* ======================= Part 1: Proofs/FloatOrder.v ======================= *)
Section Order.
  Context {prec emax : Z} {Hp : FLX.Prec_gt_0 prec} {He : Prec_lt_emax prec emax}.
  Notation bf := (binary_float prec emax).

  Definition okf (x : bf) : Prop := f_is_nan x = false.          (* not NaN *)
  Definition fle (x y : bf) : Prop := f_lt y x = false.          (* x <= y numerically (+0 = -0) *)
  Definition fge (x y : bf) : Prop := fle y x.

  Lemma fle_refl x : okf x -> fle x x. Abort.
  Lemma fle_trans x y z : okf x -> okf y -> okf z -> fle x y -> fle y z -> fle x z. Abort.
  Lemma fge_refl x : okf x -> fge x x. Abort.
  Lemma fge_trans x y z : okf x -> okf y -> okf z -> fge x y -> fge y z -> fge x z. Abort.
  Lemma fle_total x y : okf x -> okf y -> fle x y \/ fle y x. Abort.

  (* the four max operations in the models select one argument and bound both; same for min w.r.t. >= *)
  Lemma x86_max_selecting : selecting okf fle (@x86_max prec emax). Abort.
  Lemma f_max_selecting : selecting okf fle (@f_max prec emax). Abort.
  Lemma x86_min_selecting : selecting okf fge (@x86_min prec emax). Abort.
  Lemma f_min_selecting : selecting okf fge (@f_min prec emax). Abort.
  Lemma inf_bottom x : okf x -> fle (f_inf true) x. Abort.           (* -inf <= x *)
  Lemma inf_top x : okf x -> fle x (f_inf false). Abort.              (* x <= +inf *)
  Lemma okf_inf s : okf (@f_inf prec emax s). Abort.
End Order.

(* ======================= Part 2: Proofs/FloatBackends.v ======================= *)
Section Backends.
  Context {prec emax : Z} {Hp : FLX.Prec_gt_0 prec} {He : Prec_lt_emax prec emax}.
  Notation bf := (binary_float prec emax).

  (* what C13 establishes for a float back end; vmax/vmin are its lane max/min (x86 semantics or f32::max) *)
  Record FloatLanewise (R : SimdOps bf) (vmax vmin : bf -> bf -> bf) (fused : bool) : Prop := {
    fl_wf : ops_wf R;
    fl_filled : forall v, r_filled R v = repeat v (lanes R);
    fl_zero : r_zeroed R = repeat f_zero (lanes R);
    fl_add : forall x y, length x = lanes R -> length y = lanes R -> r_add R x y = map2 f_add x y;
    fl_sub : forall x y, length x = lanes R -> length y = lanes R -> r_sub R x y = map2 f_sub x y;
    fl_mul : forall x y, length x = lanes R -> length y = lanes R -> r_mul R x y = map2 f_mul x y;
    fl_div : forall x y, length x = lanes R -> length y = lanes R ->
                         r_div R x y = sequence (map2 (fun p q => Some (f_div p q)) x y);
    fl_max : forall x y, length x = lanes R -> length y = lanes R -> r_max R x y = map2 vmax x y;
    fl_min : forall x y, length x = lanes R -> length y = lanes R -> r_min R x y = map2 vmin x y;
    fl_fmadd : forall x y z, length x = lanes R -> length y = lanes R -> length z = lanes R ->
                 r_fmadd R x y z = if fused then map3 f_fma x y z else map2 f_add (map2 f_mul x y) z;
    fl_add_dense : forall x y, r_add_dense R x y = apply_dense2 (r_add R) x y;
    fl_sub_dense : forall x y, r_sub_dense R x y = apply_dense2 (r_sub R) x y;
    fl_mul_dense : forall x y, r_mul_dense R x y = apply_dense2 (r_mul R) x y;
    fl_max_dense : forall x y, r_max_dense R x y = apply_dense2 (r_max R) x y;
    fl_min_dense : forall x y, r_min_dense R x y = apply_dense2 (r_min R) x y;
    fl_div_dense : forall x y, r_div_dense R x y = apply_dense2_opt (r_div R) x y;
    (* horizontal extremes of one register: selected from, and bounding, the lanes (no NaN) *)
    fl_maxv : forall x, length x = lanes R -> Forall okf x ->
                        Refines okf fle [r_max_to_value R x] (f_inf true :: x);
    fl_minv : forall x, length x = lanes R -> Forall okf x ->
                        Refines okf fge [r_min_to_value R x] (f_inf false :: x)
  }.

  Theorem fallback_float_lanewise : FloatLanewise (fallback_ops float_math) f_max f_min false. Abort.
  Theorem avx2_float_lanewise Ln fused : (Ln = 8 \/ Ln = 4)%nat ->
    FloatLanewise (avx2_float_ops Ln fused) x86_max x86_min fused. Abort.
  Theorem avx512_float_lanewise Ln : (Ln = 16 \/ Ln = 8)%nat ->
    FloatLanewise (avx512_float_ops Ln) x86_max x86_min true. Abort.

  (* ---- consequences for the kernels (use MapCorrect / DivCorrect / HorizExtreme) ---- *)
  Section Kernels.
    Variable R : SimdOps bf.
    Variables vmax vmin : bf -> bf -> bf.
    Variable fused : bool.
    Hypothesis FL : FloatLanewise R vmax vmin fused.
    Let Mth : MathOps bf := float_math.
    Variables a b res : list bf.
    Variable dims : nat.
    Hypothesis Ha : length a = dims.
    Hypothesis Hr : length res = dims.
    Let m0 := init_mem a b res.

    (* C02: every element is the correctly rounded IEEE result of the scalar operation (Flocq's Bplus etc. with
       round-to-nearest-even), bit for bit, NaN exactly where the scalar result is NaN; division never panics *)
    Theorem f_add_vector_exact : length b = dims ->
      match generic_add_vector R Mth dims m0 with
      | Ok _ m => run_ok m0 m /\ mR m = map2 f_add a b | _ => False end. Abort.
    Theorem f_sub_vector_exact : length b = dims ->
      match generic_sub_vector R Mth dims m0 with
      | Ok _ m => run_ok m0 m /\ mR m = map2 f_sub a b | _ => False end. Abort.
    Theorem f_mul_vector_exact : length b = dims ->
      match generic_mul_vector R Mth dims m0 with
      | Ok _ m => run_ok m0 m /\ mR m = map2 f_mul a b | _ => False end. Abort.
    Theorem f_div_vector_exact : length b = dims ->
      match generic_div_vector R Mth dims m0 with
      | Ok _ m => run_ok m0 m /\ mR m = map2 f_div a b | _ => False end. Abort.
    Theorem f_add_value_exact v :
      match generic_add_value R Mth dims v m0 with
      | Ok _ m => run_ok m0 m /\ mR m = map (fun x => f_add x v) a | _ => False end. Abort.
    Theorem f_sub_value_exact v :
      match generic_sub_value R Mth dims v m0 with
      | Ok _ m => run_ok m0 m /\ mR m = map (fun x => f_sub x v) a | _ => False end. Abort.
    Theorem f_mul_value_exact v :
      match generic_mul_value R Mth dims v m0 with
      | Ok _ m => run_ok m0 m /\ mR m = map (fun x => f_mul x v) a | _ => False end. Abort.
    Theorem f_div_value_exact v :
      match generic_div_value R Mth dims v m0 with
      | Ok _ m => run_ok m0 m /\ mR m = map (fun x => f_div x v) a | _ => False end. Abort.

    (* C05, vertical / by-value: lane max/min at every index (their meaning is x86_max_selecting etc.) *)
    Theorem f_max_vertical_exact : length b = dims ->
      match generic_max_vertical R Mth dims m0 with
      | Ok _ m => run_ok m0 m /\ length (mR m) = dims
                  /\ (forall j x y, nth_error a j = Some x -> nth_error b j = Some y -> okf x -> okf y ->
                        exists r, nth_error (mR m) j = Some r /\ (r = x \/ r = y) /\ fle x r /\ fle y r)
      | _ => False end. Abort.
    Theorem f_min_vertical_exact : length b = dims ->
      match generic_min_vertical R Mth dims m0 with
      | Ok _ m => run_ok m0 m /\ length (mR m) = dims
                  /\ (forall j x y, nth_error a j = Some x -> nth_error b j = Some y -> okf x -> okf y ->
                        exists r, nth_error (mR m) j = Some r /\ (r = x \/ r = y) /\ fle r x /\ fle r y)
      | _ => False end. Abort.
    Theorem f_max_value_exact v : okf v ->
      match generic_max_value R Mth dims v m0 with
      | Ok _ m => run_ok m0 m /\ length (mR m) = dims
                  /\ (forall j x, nth_error a j = Some x -> okf x ->
                        exists r, nth_error (mR m) j = Some r /\ (r = x \/ r = v) /\ fle x r /\ fle v r)
      | _ => False end. Abort.
    Theorem f_min_value_exact v : okf v ->
      match generic_min_value R Mth dims v m0 with
      | Ok _ m => run_ok m0 m /\ length (mR m) = dims
                  /\ (forall j x, nth_error a j = Some x -> okf x ->
                        exists r, nth_error (mR m) j = Some r /\ (r = x \/ r = v) /\ fle r x /\ fle r v)
      | _ => False end. Abort.

    (* C05, horizontal: for NaN-free input the result is an element of the vector (or the identity -inf / +inf,
       which is the result for the empty vector) and bounds every element *)
    Theorem f_max_horizontal_extreme : Forall okf a ->
      match generic_max_horizontal R Mth dims m0 with
      | Ok r m => run_ok m0 m /\ In r (f_inf true :: a) /\ forall z, In z (f_inf true :: a) -> fle z r
      | _ => False end. Abort.
    Theorem f_min_horizontal_extreme : Forall okf a ->
      match generic_min_horizontal R Mth dims m0 with
      | Ok r m => run_ok m0 m /\ In r (f_inf false :: a) /\ forall z, In z (f_inf false :: a) -> fle r z
      | _ => False end. Abort.
  End Kernels.
End Backends.
