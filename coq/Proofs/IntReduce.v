(* C03: for any integer back end whose lane operations are the wrapping scalar operations lane by lane
   ([IntLanewise]), the four reductions return the exact mathematical sum reduced modulo 2^w, for every
   length and every input.  Axiom-free. *)
From Coq Require Import ZArith List Arith Bool Lia.
From CF Require Import Base.Mem Model.SimdApi Model.Kernels Model.Tables Model.Prim Model.Regs.
From CF Require Import Proofs.MemProofs Proofs.KernelRules Proofs.KernelSafety Proofs.KernelBounds
     Proofs.OpsWf Proofs.ListFacts Proofs.ReduceCorrect.
Import ListNotations.

Section IntReduce.
  Variable w : Z.
  Hypothesis Hw : (0 < w)%Z.
  Variable sg : bool.
  Local Notation "x == y" := (eqm w x y) (at level 70).
  Notation okv := (in_range w).

  Variable R : SimdOps Z.
  Notation Ln := (lanes R).
  Let Mth := int_math sg w.

  (* What C13 establishes for each concrete integer back end. *)
  Record IntLanewise : Prop := {
    il_wf : ops_wf R;
    il_zero : r_zeroed R = repeat 0%Z Ln;
    il_add : forall x y, length x = Ln -> length y = Ln -> Forall okv x -> Forall okv y ->
                         r_add R x y = map2 (i_add w) x y;
    il_sub : forall x y, length x = Ln -> length y = Ln -> Forall okv x -> Forall okv y ->
                         r_sub R x y = map2 (i_sub w) x y;
    il_mul : forall x y, length x = Ln -> length y = Ln -> Forall okv x -> Forall okv y ->
                         r_mul R x y = map2 (i_mul w) x y;
    il_fmadd : forall x y z, r_fmadd R x y z = r_add R (r_mul R x y) z;
    il_add_dense : forall x y, r_add_dense R x y = apply_dense2 (r_add R) x y;
    il_sub_dense : forall x y, r_sub_dense R x y = apply_dense2 (r_sub R) x y;
    il_fmadd_dense : forall x y z, r_fmadd_dense R x y z
                                   = apply_dense2 (r_add R) (apply_dense2 (r_mul R) x y) z;
    il_sum : forall x, length x = Ln -> Forall okv x ->
                       in_range w (r_sum_to_value R x) /\ r_sum_to_value R x == Zsum x
  }.
  Hypothesis IL : IntLanewise.
  Let HL : 1 <= Ln := wf_L R (il_wf IL).

  (* ---- lane-level facts ---- *)
  Lemma Zsum_map2 (f g : Z -> Z -> Z) x y :
    (forall p q, f p q == g p q) -> Zsum (map2 f x y) == Zsum (map2 g x y).
  Proof.
    intros H. revert y. induction x as [|p x IH]; intros [|q y]; cbn; try apply eqm_refl.
    apply eqm_add; auto.
  Qed.
  Lemma Zsum_map2_plus x y : length x = length y -> Zsum (map2 Z.add x y) = (Zsum x + Zsum y)%Z.
  Proof.
    revert y. induction x as [|p x IH]; intros [|q y] H; cbn in *; try lia.
    unfold Zsum in *. rewrite IH by lia. lia.
  Qed.
  Lemma Forall_map2_range (f : Z -> Z -> Z) x y : (forall p q, okv (f p q)) -> Forall okv (map2 f x y).
  Proof.
    intros H. revert y. induction x as [|p x IH]; intros [|q y]; cbn; constructor; auto.
  Qed.
  Lemma okv_add p q : okv (i_add w p q). Proof. apply wrap_in_range; exact Hw. Qed.
  Lemma okv_sub p q : okv (i_sub w p q). Proof. apply wrap_in_range; exact Hw. Qed.
  Lemma okv_mul p q : okv (i_mul w p q). Proof. apply wrap_in_range; exact Hw. Qed.

  (* a register: the right lane count, lanes in range *)
  Definition okr (x : vreg Z) : Prop := length x = Ln /\ Forall okv x.
  Definition okd (d : dense Z) : Prop := length d = 8 /\ forall k, k < 8 -> okr (nth_reg d k).

  Lemma okd_wf d : okd d -> dense_wf R d.
  Proof. intros [_ H] k Hk. apply (H k Hk). Qed.

  Lemma add_ok x y : okr x -> okr y ->
    okr (r_add R x y) /\ Zsum (r_add R x y) == (Zsum x + Zsum y)%Z.
  Proof.
    intros [Lx Fx] [Ly Fy]. rewrite (il_add IL) by assumption. split.
    - split; [rewrite map2_length; lia | apply Forall_map2_range; apply okv_add].
    - eapply eqm_trans; [apply (Zsum_map2 _ Z.add); intros; apply eqm_wrap; exact Hw|].
      rewrite Zsum_map2_plus by lia. apply eqm_refl.
  Qed.
  Lemma sub_ok x y : okr x -> okr y -> okr (r_sub R x y) /\ r_sub R x y = map2 (i_sub w) x y.
  Proof.
    intros [Lx Fx] [Ly Fy]. rewrite (il_sub IL) by assumption. split; [|reflexivity].
    split; [rewrite map2_length; lia | apply Forall_map2_range; apply okv_sub].
  Qed.
  Lemma mul_ok x y : okr x -> okr y ->
    okr (r_mul R x y) /\ Zsum (r_mul R x y) == Zsum (map2 Z.mul x y).
  Proof.
    intros [Lx Fx] [Ly Fy]. rewrite (il_mul IL) by assumption. split.
    - split; [rewrite map2_length; lia | apply Forall_map2_range; apply okv_mul].
    - apply Zsum_map2. intros. apply eqm_wrap; exact Hw.
  Qed.
  Lemma fmadd_ok x y z : okr x -> okr y -> okr z ->
    okr (r_fmadd R x y z) /\ Zsum (r_fmadd R x y z) == (Zsum z + Zsum (map2 Z.mul x y))%Z.
  Proof.
    intros Hx Hy Hz. rewrite (il_fmadd IL). destruct (mul_ok x y Hx Hy) as [Hm Em].
    destruct (add_ok _ z Hm Hz) as [Ha Ea]. split; [exact Ha|].
    eapply eqm_trans; [exact Ea|]. rewrite Z.add_comm. apply eqm_add; [exact Hw | apply eqm_refl | exact Em].
  Qed.

  (* ---- dense-level facts ---- *)
  Lemma okd_list d : okd d ->
    d = [nth_reg d 0; nth_reg d 1; nth_reg d 2; nth_reg d 3; nth_reg d 4; nth_reg d 5; nth_reg d 6; nth_reg d 7].
  Proof.
    intros [H8 _]. unfold nth_reg.
    do 8 (destruct d as [|? d]; [cbn in H8; lia|]). destruct d; [reflexivity | cbn in H8; lia].
  Qed.

  Lemma dsum8 (r0 r1 r2 r3 r4 r5 r6 r7 : vreg Z) :
    dsum [r0; r1; r2; r3; r4; r5; r6; r7]
    = (Zsum r0 + Zsum r1 + Zsum r2 + Zsum r3 + Zsum r4 + Zsum r5 + Zsum r6 + Zsum r7)%Z.
  Proof. unfold dsum. cbn [concat]. rewrite !Zsum_app. cbn. lia. Qed.

  Lemma apply2_nth (op : vreg Z -> vreg Z -> vreg Z) x y k :
    okd x -> okd y -> k < 8 -> nth_reg (apply_dense2 op x y) k = op (nth_reg x k) (nth_reg y k).
  Proof.
    intros [Lx _] [Ly _] Hk. unfold apply_dense2, nth_reg.
    apply nth_map2 with (da := @nil Z) (db := @nil Z); unfold dense, vreg in *; lia.
  Qed.
  Lemma apply2_len (op : vreg Z -> vreg Z -> vreg Z) x y :
    okd x -> okd y -> length (apply_dense2 op x y) = 8.
  Proof. intros [Lx _] [Ly _]. unfold apply_dense2. rewrite map2_length. unfold dense, vreg in *. lia. Qed.

  (* a lane-wise binary step on dense accumulators: okd and the sums add up, given the register-level fact *)
  Lemma dense2_ok (op : vreg Z -> vreg Z -> vreg Z) (t : vreg Z -> vreg Z -> Z) x y :
    (forall p q, okr p -> okr q -> okr (op p q) /\ Zsum (op p q) == t p q) ->
    okd x -> okd y ->
    okd (apply_dense2 op x y) /\
    dsum (apply_dense2 op x y)
    == (t (nth_reg x 0) (nth_reg y 0) + t (nth_reg x 1) (nth_reg y 1) + t (nth_reg x 2) (nth_reg y 2)
        + t (nth_reg x 3) (nth_reg y 3) + t (nth_reg x 4) (nth_reg y 4) + t (nth_reg x 5) (nth_reg y 5)
        + t (nth_reg x 6) (nth_reg y 6) + t (nth_reg x 7) (nth_reg y 7))%Z.
  Proof.
    intros Hop Hx Hy.
    assert (Ho : okd (apply_dense2 op x y)).
    { split; [apply apply2_len; assumption|]. intros k Hk. rewrite apply2_nth by assumption.
      apply Hop; [apply Hx | apply Hy]; exact Hk. }
    split; [exact Ho|].
    rewrite (okd_list _ Ho). rewrite dsum8. rewrite !apply2_nth by (assumption || lia).
    repeat apply eqm_add; try exact Hw; apply Hop; (apply Hx || apply Hy); lia.
  Qed.

  Lemma dsum_nth d : okd d ->
    dsum d = (Zsum (nth_reg d 0) + Zsum (nth_reg d 1) + Zsum (nth_reg d 2) + Zsum (nth_reg d 3)
              + Zsum (nth_reg d 4) + Zsum (nth_reg d 5) + Zsum (nth_reg d 6) + Zsum (nth_reg d 7))%Z.
  Proof. intros H. rewrite (okd_list d H) at 1. apply dsum8. Qed.

  Lemma okd_dense_at sl i : Forall okv sl -> i + Ln * 8 <= length sl -> okd (dense_at Ln sl i).
  Proof.
    intros F Hb. split; [reflexivity|]. intros k Hk. unfold nth_reg. rewrite nth_dense_at by exact Hk. split.
    - rewrite firstn_length, skipn_length. nia.
    - apply Forall_block. exact F.
  Qed.

  Lemma okd_zero : okd (zeroed_dense R) /\ dsum (zeroed_dense R) = 0%Z.
  Proof.
    unfold zeroed_dense, dense_copy, NUM_LANES. rewrite (il_zero IL). cbn [repeat]. split.
    - split; [reflexivity|]. intros k Hk. unfold nth_reg.
      do 8 (destruct k as [|k]; [cbn [nth]; split; [apply repeat_length|
            apply Forall_forall; intros z Hz; apply repeat_spec in Hz; subst; unfold in_range;
            split; [lia | apply Z.pow_pos_nonneg; lia]]|]). lia.
    - rewrite dsum8.
      assert (Z0 : forall n, Zsum (repeat 0%Z n) = 0%Z) by (induction n; cbn; auto).
      rewrite Z0. reflexivity.
  Qed.

  Lemma roll_ok d : okd d -> okr (sum_to_register R d) /\ Zsum (sum_to_register R d) == dsum d.
  Proof.
    intros Hd. unfold sum_to_register, rollup.
    assert (K : forall k, k < 8 -> okr (nth_reg d k)) by apply Hd.
    destruct (add_ok _ _ (K 0 ltac:(lia)) (K 1 ltac:(lia))) as [O01 E01].
    destruct (add_ok _ _ (K 2 ltac:(lia)) (K 3 ltac:(lia))) as [O23 E23].
    destruct (add_ok _ _ (K 4 ltac:(lia)) (K 5 ltac:(lia))) as [O45 E45].
    destruct (add_ok _ _ (K 6 ltac:(lia)) (K 7 ltac:(lia))) as [O67 E67].
    destruct (add_ok _ _ O01 O23) as [O03 E03]. destruct (add_ok _ _ O45 O67) as [O47 E47].
    destruct (add_ok _ _ O03 O47) as [O07 E07]. split; [exact O07|].
    rewrite (dsum_nth d Hd).
    eapply eqm_trans; [exact E07|].
    eapply eqm_trans; [apply eqm_add; [exact Hw | exact E03 | exact E47]|].
    eapply eqm_trans; [apply eqm_add; [exact Hw | apply eqm_add; [exact Hw | exact E01 | exact E23]
                                                | apply eqm_add; [exact Hw | exact E45 | exact E67]]|].
    replace (Zsum (nth_reg d 0) + Zsum (nth_reg d 1) + (Zsum (nth_reg d 2) + Zsum (nth_reg d 3))
             + (Zsum (nth_reg d 4) + Zsum (nth_reg d 5) + (Zsum (nth_reg d 6) + Zsum (nth_reg d 7))))%Z
      with (Zsum (nth_reg d 0) + Zsum (nth_reg d 1) + Zsum (nth_reg d 2) + Zsum (nth_reg d 3)
            + Zsum (nth_reg d 4) + Zsum (nth_reg d 5) + Zsum (nth_reg d 6) + Zsum (nth_reg d 7))%Z by lia.
    apply eqm_refl.
  Qed.

  (* blocks of a slice as the concatenation of the 8 registers of a dense load *)
  Lemma block8 {A} (sl : list A) i n :
    firstn (n * 8) (skipn i sl)
    = firstn n (skipn (i + n * 0) sl) ++ firstn n (skipn (i + n * 1) sl) ++ firstn n (skipn (i + n * 2) sl)
      ++ firstn n (skipn (i + n * 3) sl) ++ firstn n (skipn (i + n * 4) sl) ++ firstn n (skipn (i + n * 5) sl)
      ++ firstn n (skipn (i + n * 6) sl) ++ firstn n (skipn (i + n * 7) sl).
  Proof.
    replace (n * 8) with (n + (n + (n + (n + (n + (n + (n + n))))))) by lia.
    rewrite !firstn_add_split, !skipn_skipn_add.
    repeat (f_equal; try (f_equal; lia)).
  Qed.

  (* ---------------------------------------------------------------------------------------------- *)
  Variables a b res : list Z.
  Variable dims : nat.
  Hypothesis Ha : length a = dims.
  Hypothesis Hoka : Forall okv a.
  Let m0 := init_mem a b res.
  Let Inv : mem Z -> Prop := SafeR m0 (fun _ => True).

  Lemma blk8 (blk : nat -> nat -> Z) i :
    (forall i n1 n2, blk i (n1 + n2) = (blk i n1 + blk (i + n1)%nat n2)%Z) ->
    blk i (Ln * 8) = (blk (i + Ln * 0)%nat Ln + blk (i + Ln * 1)%nat Ln + blk (i + Ln * 2)%nat Ln
                      + blk (i + Ln * 3)%nat Ln + blk (i + Ln * 4)%nat Ln + blk (i + Ln * 5)%nat Ln
                      + blk (i + Ln * 6)%nat Ln + blk (i + Ln * 7)%nat Ln)%Z.
  Proof.
    intros Hadd. replace (Ln * 8) with (Ln + (Ln + (Ln + (Ln + (Ln + (Ln + (Ln + Ln))))))) by lia.
    rewrite !Hadd.
    replace (i + Ln * 0) with i by lia. replace (i + Ln * 1) with (i + Ln) by lia.
    replace (i + Ln * 2) with (i + Ln + Ln) by lia. replace (i + Ln * 3) with (i + Ln + Ln + Ln) by lia.
    replace (i + Ln * 4) with (i + Ln + Ln + Ln + Ln) by lia.
    replace (i + Ln * 5) with (i + Ln + Ln + Ln + Ln + Ln) by lia.
    replace (i + Ln * 6) with (i + Ln + Ln + Ln + Ln + Ln + Ln) by lia.
    replace (i + Ln * 7) with (i + Ln + Ln + Ln + Ln + Ln + Ln + Ln) by lia. lia.
  Qed.

  Lemma okr_block sl j : Forall okv sl -> j + Ln <= length sl -> okr (firstn Ln (skipn j sl)).
  Proof.
    intros F Hb. split; [rewrite firstn_length, skipn_length; lia | apply Forall_block; exact F].
  Qed.

  Lemma scalar_elem sl i : Forall okv sl -> i < length sl ->
    okv (hd (dflt Mth) (firstn 1 (skipn i sl))) /\
    firstn 1 (skipn i sl) = [hd (dflt Mth) (firstn 1 (skipn i sl))].
  Proof.
    intros F Hi. pose proof (hd_firstn1 (dflt Mth) sl i Hi) as E. split; [|exact E].
    pose proof (Forall_block okv sl i 1 F) as Fb. rewrite E in Fb. inversion Fb; assumption.
  Qed.

  (** ** dot product *)
  Section Dot.
    Hypothesis Hb : length b = dims.
    Hypothesis Hokb : Forall okv b.

    Definition blk_dot (i n : nat) : Z :=
      Zsum (map2 Z.mul (firstn n (skipn i a)) (firstn n (skipn i b))).

    Lemma blk_dot_add i n1 n2 : blk_dot i (n1 + n2) = (blk_dot i n1 + blk_dot (i + n1)%nat n2)%Z.
    Proof.
      unfold blk_dot. rewrite !firstn_add_split, !skipn_skipn_add.
      rewrite map2_app by (rewrite !firstn_length, !skipn_length; lia).
      apply Zsum_app.
    Qed.

    Theorem dot_exact :
      match generic_dot_product R Mth dims m0 with
      | Ok r m => run_ok m0 m /\ in_range w r /\ r == Zsum (map2 Z.mul a b)
      | _ => False
      end.
    Proof.
      pose proof (reduce_correct w Hw R HL a b res dims blk_dot (fun i => eq_refl) blk_dot_add okd okr
                    (zeroed_dense R)
                    (fun i total => bind (load_dense R SA i) (fun l1 => bind (load_dense R SB i)
                                     (fun l2 => ret (r_fmadd_dense R l1 l2 total))))
                    (sum_to_register R)
                    (fun i total => bind (load SA i (L R)) (fun l1 => bind (load SB i (L R))
                                     (fun l2 => ret (r_fmadd R l1 l2 total))))
                    (r_sum_to_value R)
                    (fun i total => bind (read1 (dflt Mth) SA i) (fun x => bind (read1 (dflt Mth) SB i)
                                     (fun y => ret (m_add Mth total (m_mul Mth x y)))))) as RC.
      unfold generic_dot_product.
      assert (Final : blk_dot 0 dims = Zsum (map2 Z.mul a b)).
      { unfold blk_dot. cbn [skipn]. rewrite map2_full by assumption. reflexivity. }
      rewrite <- Final. apply RC; clear RC.
      - destruct okd_zero as [O E]. split; [exact O|]. rewrite E. apply eqm_refl.
      - (* dense *)
        intros i acc Hin Hacc.
        apply load_dense_bind; [discriminate | unfold m0; cbn [slice_of init_mem mA mB mR]; lia |].
        apply load_dense_bind; [discriminate | unfold m0; cbn [slice_of init_mem mA mB mR]; lia |].
        unfold m0; cbn [slice_of init_mem mA mB mR]; fold m0.
        apply triple_ret. intros m Hm. split; [exact Hm|].
        assert (OX : okd (dense_at Ln a i)) by (apply okd_dense_at; [assumption | lia]).
        assert (OY : okd (dense_at Ln b i)) by (apply okd_dense_at; [assumption | lia]).
        rewrite (il_fmadd_dense IL).
        destruct (dense2_ok (r_mul R) (fun p q => Zsum (map2 Z.mul p q)) _ _ mul_ok OX OY) as [OM EM].
        destruct (dense2_ok (r_add R) (fun p q => (Zsum p + Zsum q)%Z) _ _ add_ok OM Hacc) as [OA EA].
        split; [exact OA|].
        eapply eqm_trans; [exact EA|].
        rewrite (dsum_nth acc Hacc). rewrite (blk8 blk_dot i blk_dot_add).
        rewrite (dsum_nth _ OM) in EM.
        unfold blk_dot. unfold nth_reg in EM at 9 10 11 12 13 14 15 16 17 18 19 20 21 22 23 24.
        rewrite !nth_dense_at in EM by lia.
        match goal with |- eqm w ?lhs ?rhs =>
          replace lhs with ((Zsum (nth_reg acc 0) + Zsum (nth_reg acc 1) + Zsum (nth_reg acc 2)
                            + Zsum (nth_reg acc 3) + Zsum (nth_reg acc 4) + Zsum (nth_reg acc 5)
                            + Zsum (nth_reg acc 6) + Zsum (nth_reg acc 7))
                           + (Zsum (nth_reg (apply_dense2 (r_mul R) (dense_at Ln a i) (dense_at Ln b i)) 0)
                              + Zsum (nth_reg (apply_dense2 (r_mul R) (dense_at Ln a i) (dense_at Ln b i)) 1)
                              + Zsum (nth_reg (apply_dense2 (r_mul R) (dense_at Ln a i) (dense_at Ln b i)) 2)
                              + Zsum (nth_reg (apply_dense2 (r_mul R) (dense_at Ln a i) (dense_at Ln b i)) 3)
                              + Zsum (nth_reg (apply_dense2 (r_mul R) (dense_at Ln a i) (dense_at Ln b i)) 4)
                              + Zsum (nth_reg (apply_dense2 (r_mul R) (dense_at Ln a i) (dense_at Ln b i)) 5)
                              + Zsum (nth_reg (apply_dense2 (r_mul R) (dense_at Ln a i) (dense_at Ln b i)) 6)
                              + Zsum (nth_reg (apply_dense2 (r_mul R) (dense_at Ln a i) (dense_at Ln b i)) 7)))%Z
            by lia
        end.
        apply eqm_add; [exact Hw | apply eqm_refl | exact EM].
      - apply roll_ok.
      - (* lane *)
        intros i acc Hin Hacc. unfold L.
        apply load_bind; [discriminate | unfold m0; cbn [slice_of init_mem mA mB mR]; lia |].
        apply load_bind; [discriminate | unfold m0; cbn [slice_of init_mem mA mB mR]; lia |].
        unfold m0; cbn [slice_of init_mem mA mB mR]; fold m0.
        apply triple_ret. intros m Hm. split; [exact Hm|].
        apply fmadd_ok; [apply okr_block; [assumption | lia] | apply okr_block; [assumption | lia] | exact Hacc].
      - intros acc [Hl Hf]. apply (il_sum IL); assumption.
      - (* scalar *)
        intros i s Hi Hs. unfold read1.
        apply triple_bind_assoc. apply load_bind; [discriminate | unfold m0; cbn [slice_of init_mem mA mB mR]; lia |].
        apply triple_bind_ret_l.
        apply triple_bind_assoc. apply load_bind; [discriminate | unfold m0; cbn [slice_of init_mem mA mB mR]; lia |].
        apply triple_bind_ret_l. unfold m0; cbn [slice_of init_mem mA mB mR]; fold m0.
        apply triple_ret. intros m Hm. split; [exact Hm|].
        destruct (scalar_elem a i Hoka ltac:(lia)) as [Oa Ea].
        destruct (scalar_elem b i Hokb ltac:(lia)) as [Ob Eb].
        unfold Mth at 1 2. cbn [int_math m_add m_mul]. split; [apply okv_add|].
        unfold blk_dot. rewrite Ea, Eb. cbn [map2 Zsum fold_right].
        eapply eqm_trans; [apply eqm_wrap; exact Hw|]. rewrite Z.add_0_r.
        apply eqm_add; [exact Hw | apply eqm_refl | apply eqm_wrap; exact Hw].
    Qed.
  End Dot.
  (** ** squared norm *)
  Section Norm.

    Definition blk_norm (i n : nat) : Z :=
      Zsum (map2 Z.mul (firstn n (skipn i a)) (firstn n (skipn i a))).

    Lemma blk_norm_add i n1 n2 : blk_norm i (n1 + n2) = (blk_norm i n1 + blk_norm (i + n1)%nat n2)%Z.
    Proof.
      unfold blk_norm. rewrite !firstn_add_split, !skipn_skipn_add.
      rewrite map2_app by (rewrite !firstn_length, !skipn_length; lia).
      apply Zsum_app.
    Qed.

    Theorem norm_exact :
      match generic_squared_norm R Mth dims m0 with
      | Ok r m => run_ok m0 m /\ in_range w r /\ r == Zsum (map2 Z.mul a a)
      | _ => False
      end.
    Proof.
      pose proof (reduce_correct w Hw R HL a b res dims blk_norm (fun i => eq_refl) blk_norm_add okd okr
                    (zeroed_dense R)
                    (fun i total => bind (load_dense R SA i) (fun l1 => ret (r_fmadd_dense R l1 l1 total)))
                    (sum_to_register R)
                    (fun i total => bind (load SA i (L R)) (fun l1 => ret (r_fmadd R l1 l1 total)))
                    (r_sum_to_value R)
                    (fun i total => bind (read1 (dflt Mth) SA i) (fun x => ret (m_add Mth total (m_mul Mth x x))))) as RC.
      unfold generic_squared_norm.
      assert (Final : blk_norm 0 dims = Zsum (map2 Z.mul a a)).
      { unfold blk_norm. cbn [skipn]. rewrite map2_full by assumption. reflexivity. }
      rewrite <- Final. apply RC; clear RC.
      - destruct okd_zero as [O E]. split; [exact O|]. rewrite E. apply eqm_refl.
      - (* dense *)
        intros i acc Hin Hacc.
        apply load_dense_bind; [discriminate | unfold m0; cbn [slice_of init_mem mA mB mR]; lia |].
        unfold m0; cbn [slice_of init_mem mA mB mR]; fold m0.
        apply triple_ret. intros m Hm. split; [exact Hm|].
        assert (OX : okd (dense_at Ln a i)) by (apply okd_dense_at; [assumption | lia]).
        pose proof OX as OY.
        rewrite (il_fmadd_dense IL).
        destruct (dense2_ok (r_mul R) (fun p q => Zsum (map2 Z.mul p q)) _ _ mul_ok OX OY) as [OM EM].
        destruct (dense2_ok (r_add R) (fun p q => (Zsum p + Zsum q)%Z) _ _ add_ok OM Hacc) as [OA EA].
        split; [exact OA|].
        eapply eqm_trans; [exact EA|].
        rewrite (dsum_nth acc Hacc). rewrite (blk8 blk_norm i blk_norm_add).
        rewrite (dsum_nth _ OM) in EM.
        unfold blk_norm. unfold nth_reg in EM at 9 10 11 12 13 14 15 16 17 18 19 20 21 22 23 24.
        rewrite !nth_dense_at in EM by lia.
        match goal with |- eqm w ?lhs ?rhs =>
          replace lhs with ((Zsum (nth_reg acc 0) + Zsum (nth_reg acc 1) + Zsum (nth_reg acc 2)
                            + Zsum (nth_reg acc 3) + Zsum (nth_reg acc 4) + Zsum (nth_reg acc 5)
                            + Zsum (nth_reg acc 6) + Zsum (nth_reg acc 7))
                           + (Zsum (nth_reg (apply_dense2 (r_mul R) (dense_at Ln a i) (dense_at Ln a i)) 0)
                              + Zsum (nth_reg (apply_dense2 (r_mul R) (dense_at Ln a i) (dense_at Ln a i)) 1)
                              + Zsum (nth_reg (apply_dense2 (r_mul R) (dense_at Ln a i) (dense_at Ln a i)) 2)
                              + Zsum (nth_reg (apply_dense2 (r_mul R) (dense_at Ln a i) (dense_at Ln a i)) 3)
                              + Zsum (nth_reg (apply_dense2 (r_mul R) (dense_at Ln a i) (dense_at Ln a i)) 4)
                              + Zsum (nth_reg (apply_dense2 (r_mul R) (dense_at Ln a i) (dense_at Ln a i)) 5)
                              + Zsum (nth_reg (apply_dense2 (r_mul R) (dense_at Ln a i) (dense_at Ln a i)) 6)
                              + Zsum (nth_reg (apply_dense2 (r_mul R) (dense_at Ln a i) (dense_at Ln a i)) 7)))%Z
            by lia
        end.
        apply eqm_add; [exact Hw | apply eqm_refl | exact EM].
      - apply roll_ok.
      - (* lane *)
        intros i acc Hin Hacc. unfold L.
        apply load_bind; [discriminate | unfold m0; cbn [slice_of init_mem mA mB mR]; lia |].
        unfold m0; cbn [slice_of init_mem mA mB mR]; fold m0.
        apply triple_ret. intros m Hm. split; [exact Hm|].
        apply fmadd_ok; [apply okr_block; [assumption | lia] | apply okr_block; [assumption | lia] | exact Hacc].
      - intros acc [Hl Hf]. apply (il_sum IL); assumption.
      - (* scalar *)
        intros i s Hi Hs. unfold read1.
        apply triple_bind_assoc. apply load_bind; [discriminate | unfold m0; cbn [slice_of init_mem mA mB mR]; lia |].
        apply triple_bind_ret_l. unfold m0; cbn [slice_of init_mem mA mB mR]; fold m0.
        apply triple_ret. intros m Hm. split; [exact Hm|].
        destruct (scalar_elem a i Hoka ltac:(lia)) as [Oa Ea].
        unfold Mth at 1 2. cbn [int_math m_add m_mul]. split; [apply okv_add|].
        unfold blk_norm. rewrite Ea. cbn [map2 Zsum fold_right].
        eapply eqm_trans; [apply eqm_wrap; exact Hw|]. rewrite Z.add_0_r.
        apply eqm_add; [exact Hw | apply eqm_refl | apply eqm_wrap; exact Hw].
    Qed.
  End Norm.


  (** ** horizontal sum *)
  Section Sum.
    Definition blk_sum (i n : nat) : Z := Zsum (firstn n (skipn i a)).
    Lemma blk_sum_add i n1 n2 : blk_sum i (n1 + n2) = (blk_sum i n1 + blk_sum (i + n1)%nat n2)%Z.
    Proof. unfold blk_sum. rewrite !firstn_add_split, !skipn_skipn_add. apply Zsum_app. Qed.

    Theorem sum_exact :
      match generic_sum R Mth dims m0 with
      | Ok r m => run_ok m0 m /\ in_range w r /\ r == Zsum a
      | _ => False
      end.
    Proof.
      pose proof (reduce_correct w Hw R HL a b res dims blk_sum (fun i => eq_refl) blk_sum_add okd okr
                    (zeroed_dense R)
                    (fun i sum => bind (load_dense R SA i) (fun l1 => ret (r_add_dense R sum l1)))
                    (sum_to_register R)
                    (fun i sum => bind (load SA i (L R)) (fun l1 => ret (r_add R sum l1)))
                    (r_sum_to_value R)
                    (fun i sum => bind (read1 (dflt Mth) SA i) (fun x => ret (m_add Mth sum x)))) as RC.
      unfold generic_sum.
      assert (Final : blk_sum 0 dims = Zsum a).
      { unfold blk_sum. cbn [skipn]. rewrite <- Ha. rewrite firstn_all. reflexivity. }
      rewrite <- Final. apply RC; clear RC.
      - destruct okd_zero as [O E]. split; [exact O|]. rewrite E. apply eqm_refl.
      - intros i acc Hin Hacc.
        apply load_dense_bind; [discriminate | unfold m0; cbn [slice_of init_mem mA mB mR]; lia |].
        unfold m0; cbn [slice_of init_mem mA mB mR]; fold m0.
        apply triple_ret. intros m Hm. split; [exact Hm|].
        assert (OX : okd (dense_at Ln a i)) by (apply okd_dense_at; [assumption | lia]).
        rewrite (il_add_dense IL).
        destruct (dense2_ok (r_add R) (fun p q => (Zsum p + Zsum q)%Z) _ _ add_ok Hacc OX) as [OA EA].
        split; [exact OA|].
        eapply eqm_trans; [exact EA|].
        rewrite (dsum_nth acc Hacc). rewrite (blk8 blk_sum i blk_sum_add).
        unfold blk_sum. unfold nth_reg at 2 4 6 8 10 12 14 16. rewrite !nth_dense_at by lia.
        match goal with |- eqm w ?lhs ?rhs => replace lhs with rhs by lia end. apply eqm_refl.
      - apply roll_ok.
      - intros i acc Hin Hacc. unfold L.
        apply load_bind; [discriminate | unfold m0; cbn [slice_of init_mem mA mB mR]; lia |].
        unfold m0; cbn [slice_of init_mem mA mB mR]; fold m0.
        apply triple_ret. intros m Hm. split; [exact Hm|].
        apply add_ok; [exact Hacc | apply okr_block; [assumption | lia]].
      - intros acc [Hl Hf]. apply (il_sum IL); assumption.
      - intros i s Hi Hs. unfold read1.
        apply triple_bind_assoc. apply load_bind; [discriminate | unfold m0; cbn [slice_of init_mem mA mB mR]; lia |].
        apply triple_bind_ret_l. unfold m0; cbn [slice_of init_mem mA mB mR]; fold m0.
        apply triple_ret. intros m Hm. split; [exact Hm|].
        destruct (scalar_elem a i Hoka ltac:(lia)) as [Oa Ea].
        unfold Mth at 1. cbn [int_math m_add]. split; [apply okv_add|].
        unfold blk_sum. rewrite Ea. cbn [Zsum fold_right]. rewrite Z.add_0_r. apply eqm_wrap; exact Hw.
    Qed.
  End Sum.

  (** ** squared Euclidean distance *)
  Section Euclid.
    Hypothesis Hb : length b = dims.
    Hypothesis Hokb : Forall okv b.

    Definition sqd (x y : Z) : Z := (i_sub w x y * i_sub w x y)%Z.
    Definition blk_euc (i n : nat) : Z := Zsum (map2 sqd (firstn n (skipn i a)) (firstn n (skipn i b))).

    Lemma blk_euc_add i n1 n2 : blk_euc i (n1 + n2) = (blk_euc i n1 + blk_euc (i + n1)%nat n2)%Z.
    Proof.
      unfold blk_euc. rewrite !firstn_add_split, !skipn_skipn_add.
      rewrite map2_app by (rewrite !firstn_length, !skipn_length; lia).
      apply Zsum_app.
    Qed.

    Lemma mul_self_map2 (f : Z -> Z -> Z) x y :
      map2 Z.mul (map2 f x y) (map2 f x y) = map2 (fun p q => (f p q * f p q)%Z) x y.
    Proof. revert y. induction x as [|p x IH]; intros [|q y]; cbn; [reflexivity..|]. rewrite IH. reflexivity. Qed.

    Theorem euclid_exact :
      match generic_euclidean R Mth dims m0 with
      | Ok r m => run_ok m0 m /\ in_range w r /\ r == Zsum (map2 (fun x y => ((x - y) * (x - y))%Z) a b)
      | _ => False
      end.
    Proof.
      pose proof (reduce_correct w Hw R HL a b res dims blk_euc (fun i => eq_refl) blk_euc_add okd okr
                    (zeroed_dense R)
                    (fun i total => bind (load_dense R SA i) (fun l1 => bind (load_dense R SB i)
                                     (fun l2 => let diff := r_sub_dense R l1 l2 in
                                                ret (r_fmadd_dense R diff diff total))))
                    (sum_to_register R)
                    (fun i total => bind (load SA i (L R)) (fun l1 => bind (load SB i (L R))
                                     (fun l2 => let diff := r_sub R l1 l2 in ret (r_fmadd R diff diff total))))
                    (r_sum_to_value R)
                    (fun i total => bind (read1 (dflt Mth) SA i) (fun x => bind (read1 (dflt Mth) SB i)
                                     (fun y => let diff := m_sub Mth x y in
                                               ret (m_add Mth total (m_mul Mth diff diff)))))) as RC.
      unfold generic_euclidean.
      assert (Final : blk_euc 0 dims == Zsum (map2 (fun x y => ((x - y) * (x - y))%Z) a b)).
      { unfold blk_euc. cbn [skipn]. rewrite map2_full by assumption. apply Zsum_map2. intros p q. unfold sqd.
        apply eqm_mul; try exact Hw; apply eqm_wrap; exact Hw. }
      cut (match three_phase R dims (zeroed_dense R)
                   (fun i total => bind (load_dense R SA i) (fun l1 => bind (load_dense R SB i)
                                     (fun l2 => let diff := r_sub_dense R l1 l2 in
                                                ret (r_fmadd_dense R diff diff total))))
                   (sum_to_register R)
                   (fun i total => bind (load SA i (L R)) (fun l1 => bind (load SB i (L R))
                                     (fun l2 => let diff := r_sub R l1 l2 in ret (r_fmadd R diff diff total))))
                   (r_sum_to_value R)
                   (fun i total => bind (read1 (dflt Mth) SA i) (fun x => bind (read1 (dflt Mth) SB i)
                                     (fun y => let diff := m_sub Mth x y in
                                               ret (m_add Mth total (m_mul Mth diff diff))))) m0 with
           | Ok r m => run_ok m0 m /\ in_range w r /\ r == blk_euc 0 dims
           | _ => False end).
      { match goal with |- match ?c with _ => _ end -> match ?c' with _ => _ end =>
          change c' with c; destruct c as [r m| | |]; auto end.
        intros (H1 & H2 & H3). split; [exact H1|]. split; [exact H2|]. eapply eqm_trans; eauto. }
      apply RC; clear RC.
      - destruct okd_zero as [O E]. split; [exact O|]. rewrite E. apply eqm_refl.
      - intros i acc Hin Hacc.
        apply load_dense_bind; [discriminate | unfold m0; cbn [slice_of init_mem mA mB mR]; lia |].
        apply load_dense_bind; [discriminate | unfold m0; cbn [slice_of init_mem mA mB mR]; lia |].
        unfold m0; cbn [slice_of init_mem mA mB mR]; fold m0. cbv zeta.
        apply triple_ret. intros m Hm. split; [exact Hm|].
        assert (OX : okd (dense_at Ln a i)) by (apply okd_dense_at; [assumption | lia]).
        assert (OY : okd (dense_at Ln b i)) by (apply okd_dense_at; [assumption | lia]).
        rewrite (il_fmadd_dense IL), (il_sub_dense IL).
        set (Dd := apply_dense2 (r_sub R) (dense_at Ln a i) (dense_at Ln b i)).
        assert (OD : okd Dd).
        { destruct (dense2_ok (r_sub R) (fun p q => Zsum (map2 (i_sub w) p q)) (dense_at Ln a i) (dense_at Ln b i))
            as [O _]; auto.
          intros p q Hp Hq. destruct (sub_ok p q Hp Hq) as [O E]. split; [exact O|]. rewrite E. apply eqm_refl. }
        assert (ND : forall k, k < 8 -> nth_reg Dd k = map2 (i_sub w) (firstn Ln (skipn (i + Ln * k) a))
                                                               (firstn Ln (skipn (i + Ln * k) b))).
        { intros k Hk. unfold Dd. rewrite apply2_nth by assumption.
          destruct (sub_ok _ _ (proj2 OX k Hk) (proj2 OY k Hk)) as [_ E]. rewrite E.
          unfold nth_reg. rewrite !nth_dense_at by exact Hk. reflexivity. }
        destruct (dense2_ok (r_mul R) (fun p q => Zsum (map2 Z.mul p q)) _ _ mul_ok OD OD) as [OM EM].
        destruct (dense2_ok (r_add R) (fun p q => (Zsum p + Zsum q)%Z) _ _ add_ok OM Hacc) as [OA EA].
        split; [exact OA|].
        eapply eqm_trans; [exact EA|].
        rewrite (dsum_nth acc Hacc). rewrite (blk8 blk_euc i blk_euc_add).
        rewrite (dsum_nth _ OM) in EM.
        rewrite !ND in EM by lia. rewrite !mul_self_map2 in EM.
        unfold blk_euc. fold sqd in EM.
        match goal with |- eqm w ?lhs ?rhs =>
          replace lhs with ((Zsum (nth_reg acc 0) + Zsum (nth_reg acc 1) + Zsum (nth_reg acc 2)
                            + Zsum (nth_reg acc 3) + Zsum (nth_reg acc 4) + Zsum (nth_reg acc 5)
                            + Zsum (nth_reg acc 6) + Zsum (nth_reg acc 7))
                           + (Zsum (nth_reg (apply_dense2 (r_mul R) Dd Dd) 0)
                              + Zsum (nth_reg (apply_dense2 (r_mul R) Dd Dd) 1)
                              + Zsum (nth_reg (apply_dense2 (r_mul R) Dd Dd) 2)
                              + Zsum (nth_reg (apply_dense2 (r_mul R) Dd Dd) 3)
                              + Zsum (nth_reg (apply_dense2 (r_mul R) Dd Dd) 4)
                              + Zsum (nth_reg (apply_dense2 (r_mul R) Dd Dd) 5)
                              + Zsum (nth_reg (apply_dense2 (r_mul R) Dd Dd) 6)
                              + Zsum (nth_reg (apply_dense2 (r_mul R) Dd Dd) 7)))%Z
            by lia
        end.
        apply eqm_add; [exact Hw | apply eqm_refl | exact EM].
      - apply roll_ok.
      - intros i acc Hin Hacc. unfold L.
        apply load_bind; [discriminate | unfold m0; cbn [slice_of init_mem mA mB mR]; lia |].
        apply load_bind; [discriminate | unfold m0; cbn [slice_of init_mem mA mB mR]; lia |].
        unfold m0; cbn [slice_of init_mem mA mB mR]; fold m0. cbv zeta.
        apply triple_ret. intros m Hm. split; [exact Hm|].
        assert (Oa : okr (firstn Ln (skipn i a))) by (apply okr_block; [assumption | lia]).
        assert (Ob : okr (firstn Ln (skipn i b))) by (apply okr_block; [assumption | lia]).
        destruct (sub_ok _ _ Oa Ob) as [Od Ed].
        destruct (fmadd_ok _ _ _ Od Od Hacc) as [Of Ef]. split; [exact Of|].
        eapply eqm_trans; [exact Ef|]. unfold blk_euc. rewrite Ed, mul_self_map2. apply eqm_refl.
      - intros acc [Hl Hf]. apply (il_sum IL); assumption.
      - intros i s Hi Hs. unfold read1.
        apply triple_bind_assoc. apply load_bind; [discriminate | unfold m0; cbn [slice_of init_mem mA mB mR]; lia |].
        apply triple_bind_ret_l.
        apply triple_bind_assoc. apply load_bind; [discriminate | unfold m0; cbn [slice_of init_mem mA mB mR]; lia |].
        apply triple_bind_ret_l. unfold m0; cbn [slice_of init_mem mA mB mR]; fold m0. cbv zeta.
        apply triple_ret. intros m Hm. split; [exact Hm|].
        destruct (scalar_elem a i Hoka ltac:(lia)) as [Oa Ea].
        destruct (scalar_elem b i Hokb ltac:(lia)) as [Ob Eb].
        unfold Mth at 1 2 3. cbn [int_math m_add m_mul m_sub]. split; [apply okv_add|].
        unfold blk_euc. rewrite Ea, Eb. cbn [map2 Zsum fold_right]. unfold sqd.
        eapply eqm_trans; [apply eqm_wrap; exact Hw|]. rewrite Z.add_0_r.
        apply eqm_add; [exact Hw | apply eqm_refl | apply eqm_wrap; exact Hw].
    Qed.
  End Euclid.
End IntReduce.
