(* Reflection over the generated assert lists of the safe macros. *)
From Coq Require Import String List Bool Arith.
From CF Require Import Model.Tables Model.TableSem Proofs.TableProofs.
From CF Require Import Gen.GenExports Gen.GenSafe Gen.GenMacros Gen.GenDispatch.
Import ListNotations.

Lemma safe_asserts_ok : forallb safe_macro_asserts_ok safe_macros = true.
Proof. vm_compute. reflexivity. Qed.
