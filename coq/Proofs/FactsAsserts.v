(* Reflection over the generated assert lists of the safe macros. *)
From Coq Require Import String List Bool Arith.
From CF Require Import Model.Tables Model.TableSem Proofs.TableProofs.
From CF Require Import Gen.GenExports Gen.GenSafe Gen.GenMacros Gen.GenDispatch.
Import ListNotations.

Lemma safe_asserts_ok : forallb safe_macro_asserts_ok safe_macros = true.
Proof. vm_compute. reflexivity. Qed.

Lemma C01_asserts_proof :
  forall m f sf l,
    In m safe_macros -> safe_fn_of m f = Some sf ->
    asserts_pass l (sf_asserts sf) = true -> lens_fit f (sf_params sf) l.
Proof.
  intros m f sf l Hm Hsf Hp.
  pose proof (forallb_In _ _ safe_asserts_ok m Hm) as Hok. unfold safe_macro_asserts_ok in Hok.
  destruct (safe_fn_of m Const) as [c|] eqn:Ec; [|discriminate].
  destruct (safe_fn_of m Any) as [a|] eqn:Ea; [|discriminate].
  apply andb_true_iff in Hok. destruct Hok as [Hc Ha].
  apply safe_fn_asserts_ok_sound; [|exact Hp].
  destruct f; [rewrite Ec in Hsf | rewrite Ea in Hsf]; inversion Hsf; subst; assumption.
Qed.

Lemma C01_forms_proof :
  forall m, In m safe_macros -> exists c a, safe_fn_of m Const = Some c /\ safe_fn_of m Any = Some a.
Proof.
  intros m Hm. pose proof (forallb_In _ _ safe_asserts_ok m Hm) as Hok. unfold safe_macro_asserts_ok in Hok.
  destruct (safe_fn_of m Const) as [c|]; [|discriminate].
  destruct (safe_fn_of m Any) as [a|]; [|discriminate]. eauto.
Qed.
