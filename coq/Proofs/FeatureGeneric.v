(* C10/C09_guards — the Prop-level readings of the reflected checkers, proved ONCE for arbitrary tables
   (graph, predicate definitions, chain, exports, safe tables) so that Proofs/FeatureProofs.v only has to
   instantiate them with the regenerated tables: no proof step ever manipulates the big concrete constants
   (with the constants in the goal, `destruct`/`Qed` took minutes in conversion). *)
From Coq Require Import String List Bool Arith.
From CF Require Import Model.Tables Model.TableSem Model.Features.
From CF Require Import Proofs.TableProofs Proofs.FeatureLemmas.
Import ListNotations.
Open Scope string_scope.
Open Scope list_scope.

Section Generic.
  Variable g : graph.
  Variable defs : list pred_def.
  Variable chain : list chain_entry.
  Variable es : list export.
  Variable ses : list safe_entry.
  Variable sms : list safe_macro.

  Lemma nofma_ok_sound :
    nofma_ok g es = true ->
    forall x, In x es -> e_reg x = Avx2 ->
    forall i, In i (reach_intr_export g x) -> ~ In "fma" (closure (intr_req g i)).
  Proof.
    intros H x Hx Hr i Hi Hfma. unfold nofma_ok, exports_of in H.
    rewrite forallb_forall in H.
    assert (Hin : In x (filter (fun e => reg_eqb (e_reg e) Avx2) es))
      by (apply filter_In; split; [exact Hx|rewrite Hr; reflexivity]).
    specialize (H x Hin). rewrite forallb_forall in H. specialize (H i Hi).
    rewrite (In_mem_string _ _ Hfma) in H. discriminate H.
  Qed.

  (* the statement of C09_slots, for arbitrary tables *)
  Definition slots_stmt : Prop :=
    forall s, In s ses ->
    exists m k,
      find_safe_macro sms (s_macro s) = Some m /\ safe_kernel s = Some k /\
      forall f, s_name f s = safe_name_spec f (s_ty s) k /\
        exists sf, safe_fn_of m f = Some sf /\
          (exists d, In d (sf_dispatch sf) /\ ds_slot d = SFallback) /\
          forall d, In d (sf_dispatch sf) ->
            exists n e, lookup_positional (sm_positional m) (s_slots s) (ds_fnvar d) = Some n
                        /\ find_export es f n = Some e
                        /\ e_ty e = s_ty s /\ e_op e = k
                        /\ e_reg e = allowed_backend (ds_slot d) (s_ty s).

  Lemma dispatch_generic :
    slots_stmt -> dispatch_ok g defs chain es = true ->
    forall s, In s ses ->
    forall m f bc avail sup x e,
      machine_ok bc avail ->
      find_safe_macro sms (s_macro s) = Some m ->
      select_chain chain bc (eval_pouts defs bc avail) sup = Some x ->
      slot_export es m s f x = Some e ->
      forall ft, In ft (need_export g e) -> avail ft = true.
  Proof.
    intros Hslots0 Hdisp s Hs m f bc avail sup x e Hm Hfm Hsel Hse ft Hft.
    destruct (Hslots0 s Hs) as [m' [k [Hfm' [_ Hslots]]]].
    rewrite Hfm in Hfm'. injection Hfm' as <-.
    destruct (Hslots f) as [_ [sf [Hsf [_ Hd]]]].
    unfold slot_export in Hse. rewrite Hsf in Hse.
    destruct (find (fun d => slot_eqb (ds_slot d) x) (sf_dispatch sf)) as [d|] eqn:Ed; [|discriminate].
    apply find_some in Ed. destruct Ed as [Hdin Hdx]. apply slot_eqb_eq in Hdx.
    destruct (Hd d Hdin) as [n [e' [Hn [He' [_ [_ Hreg]]]]]].
    rewrite Hn in Hse. rewrite He' in Hse. injection Hse as ->.
    assert (Hine : In e es) by (unfold find_export in He'; apply find_some in He'; tauto).
    destruct (select_chain_some _ _ _ _ _ Hsel) as [c [Hc [Hcx [_ Hg]]]].
    assert (Hr : reg_in_slot (e_reg e) (ce_slot c) = true)
      by (rewrite Hreg, Hcx, Hdx; apply reg_in_allowed).
    pose proof (dispatch_ok_sound _ _ _ _ Hdisp e c (bc_arch bc) Hine Hc Hr ft Hft) as Hin.
    exact (tested_entry_avail defs bc avail c Hm Hg (bc_arch bc) eq_refl ft Hin).
  Qed.

  Lemma chain_guard_is_spec_generic :
    chain_guards_spec_ok chain = true ->
    forall c p, In c chain -> guard_spec (ce_slot c) p = forallb (pout p) (ce_guard c).
  Proof.
    intros Hok c p Hc. pose proof (forallb_In _ _ Hok c Hc) as H. cbv beta in H.
    pose proof (forallb_In _ _ H p (in_all_pouts p)) as E. apply Bool.eqb_prop in E. exact E.
  Qed.

  (* "every predicate of a link's guard is compiled wherever the link is" as a hypothesis on the tables *)
  Definition guards_compiled_stmt : Prop :=
    forall bc c x d,
      In c chain -> In x (ce_guard c) -> eval_cfg bc (ce_cfg c) = true ->
      find (fun d => pred_eqb (pd_pred d) x) defs = Some d -> eval_cfg bc (pd_cfg d) = true.

  Lemma guards_generic :
    chain_guards_spec_ok chain = true ->
    slots_need_ok g defs chain es = true ->
    slots_need_complete g defs chain es = true ->
    guards_compiled_stmt ->
    forall bc avail, machine_ok bc avail ->
    forall c, In c chain -> eval_cfg bc (ce_cfg c) = true ->
      (guard_spec (ce_slot c) (eval_pouts defs bc avail) = true ->
         forall f, In f (need_slot g es (ce_slot c)) -> avail f = true)
      /\ (bc_std bc = true ->
          (forall f, In f (need_slot g es (ce_slot c)) -> avail f = true) ->
          guard_spec (ce_slot c) (eval_pouts defs bc avail) = true).
  Proof.
    intros Hspec Hneedok Hcomplete Hcompiled bc avail Hm c Hc Hcfg.
    rewrite (chain_guard_is_spec_generic Hspec c _ Hc). split.
    - intros Hg f Hf.
      pose proof (forallb_In _ _ Hneedok c Hc) as H. cbv beta zeta in H.
      pose proof (forallb_In _ _ H (bc_arch bc) (in_all_archs _)) as Hsub. cbv beta in Hsub.
      exact (tested_entry_avail defs bc avail c Hm Hg (bc_arch bc) eq_refl f (fsubset_incl _ _ Hsub f Hf)).
    - intros Hstd Hneed. apply forallb_forall. intros x Hx. rewrite pout_eval_pouts.
      pose proof (forallb_In _ _ Hcomplete c Hc) as H. cbv beta zeta in H.
      pose proof (forallb_In _ _ H x Hx) as Hx'. cbv beta in Hx'.
      unfold eval_pred.
      destruct (find (fun d => pred_eqb (pd_pred d) x) defs) as [d|] eqn:Ed; [|discriminate].
      rewrite (Hcompiled bc c x d Hc Hx Hcfg Ed). cbn [andb].
      destruct (rt_sufficient_def d) as [l|] eqn:El; [|discriminate].
      apply (eval_pred_def_std bc avail d l Hstd El).
      intros f Hf. apply Hneed. exact (fsubset_incl _ _ Hx' f Hf).
  Qed.
End Generic.
