(* The integer kernels of EVERY modelled back end meet the executable specification Model/Spec.v — the same
   [spec_int] that, extracted to OCaml, is the oracle applied to the real implementation's output.
   [spec_int] speaks about the NUMBERS the bit patterns denote (V = signed / unsigned reading, exact arithmetic in
   Z, then reduction modulo 2^w); the kernel theorems of IntOps / IntReduce speak about wrapping bit-pattern
   operations.  This file proves the two agree, and packages all 18 non-cosine kernels in one statement. *)
From Coq Require Import ZArith List Arith Bool Lia.
From CF Require Import Base.Mem Model.SimdApi Model.Kernels Model.Tables Model.Prim Model.Regs Model.Spec.
From CF Require Import Proofs.KernelBounds Proofs.OpsWf Proofs.ListFacts Proofs.ReduceCorrect Proofs.IntReduce
     Proofs.IntBackends Proofs.IntOps Proofs.BackendTable.
From CF Require Proofs.RegArith.
Import ListNotations.
Local Open Scope Z_scope.
Ltac Zify.zify_post_hook ::= Z.div_mod_to_equations.

(* how an outcome of the kernel model meets a specification result *)
Definition meets {T} (m0 : mem T) (o : outcome T (kresult (T := T))) (s : sres T) : Prop :=
  match o with
  | Ok r m => run_ok m0 m /\
              match s, r with
              | SVec l, RUnit => mR m = l
              | SVal v, RValue x => x = v
              | SUnspecified, _ => True
              | _, _ => False
              end
  | Panic m => run_ok m0 m /\ (s = SPanic \/ s = SUnspecified)
  | _ => False
  end.

Section Scalars.
  Variable w : Z.
  Hypothesis Hw : 0 < w.
  Variable sg : bool.
  Notation okv := (in_range w).
  Notation Vv := (V sg w).

  Lemma pow_pos : 0 < 2 ^ w. Proof. apply Z.pow_pos_nonneg; lia. Qed.

  Lemma V_eqm x : eqm w (Vv x) x.
  Proof.
    unfold eqm, V, ival, sgn. destruct sg; [|reflexivity].
    destruct (x <? 2 ^ (w - 1)); [reflexivity|].
    replace (x - 2 ^ w) with (x + (-1) * 2 ^ w) by lia. apply Z.mod_add. pose proof pow_pos. lia.
  Qed.

  Lemma of_val_V x : okv x -> of_val w (Vv x) = x.
  Proof.
    intros Hx. unfold of_val, wrap. rewrite (V_eqm x). apply Z.mod_small. exact Hx.
  Qed.

  Lemma add_link x y : i_add w x y = of_val w (Vv x + Vv y).
  Proof. unfold i_add, of_val, wrap. apply (eqm_add w Hw); apply eqm_sym, V_eqm. Qed.
  Lemma sub_link x y : i_sub w x y = of_val w (Vv x - Vv y).
  Proof. unfold i_sub, of_val, wrap. apply (eqm_sub w Hw); apply eqm_sym, V_eqm. Qed.
  Lemma mul_link x y : i_mul w x y = of_val w (Vv x * Vv y).
  Proof. unfold i_mul, of_val, wrap. apply (eqm_mul w Hw); apply eqm_sym, V_eqm. Qed.

  Lemma max_link x y : okv x -> okv y -> i_max sg w x y = of_val w (Z.max (Vv x) (Vv y)).
  Proof.
    intros Hx Hy. unfold i_max. fold (Vv x) (Vv y). destruct (Z.ltb_spec (Vv x) (Vv y)).
    - rewrite Z.max_r by lia. symmetry. apply of_val_V. exact Hy.
    - rewrite Z.max_l by lia. symmetry. apply of_val_V. exact Hx.
  Qed.
  Lemma min_link x y : okv x -> okv y -> i_min sg w x y = of_val w (Z.min (Vv x) (Vv y)).
  Proof.
    intros Hx Hy. unfold i_min. fold (Vv x) (Vv y). destruct (Z.ltb_spec (Vv y) (Vv x)).
    - rewrite Z.min_r by lia. symmetry. apply of_val_V. exact Hy.
    - rewrite Z.min_l by lia. symmetry. apply of_val_V. exact Hx.
  Qed.

  Lemma div_link x y : okv x -> okv y -> y <> 0 -> i_div sg w x y = Some (of_val w (Z.quot (Vv x) (Vv y))).
  Proof.
    intros Hx Hy Hy0. unfold i_div. destruct (Z.eqb_spec y 0) as [|_]; [contradiction|]. f_equal.
    unfold V, ival, of_val. destruct sg; [reflexivity|].
    unfold in_range in *. rewrite Z.quot_div_nonneg by lia.
    unfold wrap. symmetry. apply Z.mod_small. split; [apply Z.div_pos; lia|].
    apply Z.le_lt_trans with x; [|lia]. apply Z.div_le_upper_bound; nia.
  Qed.

  Lemma map2_link (f : Z -> Z -> Z) (g : Z -> Z -> Z) a b :
    Forall okv a -> Forall okv b -> (forall x y, okv x -> okv y -> f x y = of_val w (g (Vv x) (Vv y))) ->
    map2 f a b = map2 (fun x y => of_val w (g (Vv x) (Vv y))) a b.
  Proof.
    intros Fa Fb H. revert b Fb. induction Fa as [|x a Hx Fa IH]; intros [|y b] Fb; try reflexivity.
    inversion Fb; subst. cbn [map2]. rewrite H, IH by assumption. reflexivity.
  Qed.
  Lemma map_link (f : Z -> Z -> Z) (g : Z -> Z -> Z) a v :
    Forall okv a -> okv v -> (forall x y, okv x -> okv y -> f x y = of_val w (g (Vv x) (Vv y))) ->
    map (fun x => f x v) a = map (fun x => of_val w (g (Vv x) (Vv v))) a.
  Proof.
    intros Fa Hv H. induction Fa as [|x a Hx Fa IH]; [reflexivity|]. cbn [map]. rewrite H, IH by assumption.
    reflexivity.
  Qed.

  (* sequence of quotients: all divisors non-zero *)
  Lemma seq_div_link a b l :
    Forall okv a -> Forall okv b -> sequence (map2 (i_div sg w) a b) = Some l ->
    l = map2 (fun x y => of_val w (Z.quot (Vv x) (Vv y))) a b.
  Proof.
    intros Fa. revert b l. induction Fa as [|x a Hx Fa IH]; intros [|y b] l Fb E; cbn [map2 sequence] in *;
      try (inversion E; reflexivity).
    inversion Fb; subst.
    destruct (i_div sg w x y) as [q|] eqn:Eq; [|discriminate].
    destruct (sequence (map2 (i_div sg w) a b)) as [r|] eqn:Er; [|discriminate]. inversion E; subst.
    assert (y <> 0) by (intros ->; unfold i_div in Eq; cbn in Eq; discriminate).
    rewrite div_link in Eq by assumption. inversion Eq; subst. f_equal. apply IH; auto.
  Qed.
  Lemma seq_divv_link a v l :
    Forall okv a -> okv v -> sequence (map (fun x => i_div sg w x v) a) = Some l ->
    l = map (fun x => of_val w (Z.quot (Vv x) (Vv v))) a.
  Proof.
    intros Fa Hv. revert l. induction Fa as [|x a Hx Fa IH]; intros l E; cbn [map sequence] in *;
      [inversion E; reflexivity|].
    destruct (i_div sg w x v) as [q|] eqn:Eq; [|discriminate].
    destruct (sequence (map (fun x0 => i_div sg w x0 v) a)) as [r|] eqn:Er; [|discriminate]. inversion E; subst.
    assert (v <> 0) by (intros ->; unfold i_div in Eq; cbn in Eq; discriminate).
    rewrite div_link in Eq by assumption. inversion Eq; subst. f_equal. apply IH; auto.
  Qed.

  Lemma existsb_zero_Exists (b : list Z) : existsb (Z.eqb 0) b = true <-> Exists (fun d => d = 0) b.
  Proof.
    rewrite existsb_exists, Exists_exists. split; intros (x & Hx & E); exists x; split; auto.
    - apply Z.eqb_eq in E. auto.
    - apply Z.eqb_eq. auto.
  Qed.

  (* sums: the exact sum of the denoted numbers is congruent to the sum of the bit patterns *)
  Lemma Zsum_V a : eqm w (Spec.Zsum (map Vv a)) (ReduceCorrect.Zsum a).
  Proof.
    induction a as [|x a IH]; [reflexivity|]. cbn [map Spec.Zsum ReduceCorrect.Zsum fold_right].
    apply (eqm_add w Hw); [apply V_eqm | exact IH].
  Qed.
  Lemma Zsum_V2 (g : Z -> Z -> Z) (h : Z -> Z -> Z) a b :
    (forall x y, eqm w (g (Vv x) (Vv y)) (h x y)) ->
    eqm w (Spec.Zsum (map2 (fun x y => g (Vv x) (Vv y)) a b)) (ReduceCorrect.Zsum (map2 h a b)).
  Proof.
    intros H. revert b. induction a as [|x a IH]; intros [|y b]; try reflexivity.
    cbn [map2 Spec.Zsum ReduceCorrect.Zsum fold_right]. apply (eqm_add w Hw); [apply H | apply IH].
  Qed.
  Lemma map_as_map2 (g : Z -> Z -> Z) (a : list Z) : map (fun x => g x x) a = map2 g a a.
  Proof. induction a as [|x a IH]; [reflexivity|]. cbn [map map2]. rewrite IH. reflexivity. Qed.

  Lemma sum_link r (e : Z) : okv r -> eqm w r e -> r = of_val w e.
  Proof. intros Hr E. unfold of_val, wrap. rewrite <- E. symmetry. apply Z.mod_small. exact Hr. Qed.

  (* extremes *)
  Lemma fold_max_unique k (l : list Z) m :
    In m (k :: l) -> (forall z, In z (k :: l) -> z <= m) -> m = fold_right Z.max k l.
  Proof.
    intros Hin Hub. destruct (fold_max_attains k l) as [A1 A2].
    specialize (A2 m Hin). specialize (Hub _ A1). lia.
  Qed.
  Lemma fold_min_unique k (l : list Z) m :
    In m (k :: l) -> (forall z, In z (k :: l) -> m <= z) -> m = fold_right Z.min k l.
  Proof.
    intros Hin Hlb. destruct (fold_min_attains k l) as [A1 A2].
    specialize (A2 m Hin). specialize (Hlb _ A1). lia.
  Qed.
End Scalars.

Section Meets.
  Variable w : Z.
  Hypothesis Hw : 0 < w.
  Variable sg : bool.
  Variable R : SimdOps Z.
  Hypothesis IL : IntLanewise w R.
  Hypothesis IE : IntElementwise w sg R.
  Notation okv := (in_range w).
  Notation Vv := (V sg w).
  Let Mth := int_math sg w.

  Variables a b res : list Z.
  Variable v : Z.
  Variable dims : nat.
  Hypothesis Ha : length a = dims.
  Hypothesis Hoka : Forall okv a.
  Hypothesis Hokv : okv v.
  Let m0 := init_mem a b res.

  Definition int_spec_kernels : list kernel :=
    [KAddVec; KSubVec; KMulVec; KDivVec; KAddVal; KSubVal; KMulVal; KDivVal;
     KMaxV; KMinV; KMaxVal; KMinVal; KMaxH; KMinH; KSum; KDot; KNorm; KEuclid].

  Ltac unit_case H :=
    cbn [run_kernel]; unfold bind, Mth; fold m0 in H;
    match type of H with match ?c with _ => _ end => destruct c as [[] m| m | |] eqn:Heqo end; cbv beta iota in H; try contradiction.
  Ltac val_case H :=
    cbn [run_kernel]; unfold bind, Mth; fold m0 in H;
    match type of H with match ?c with _ => _ end => destruct c as [r m| m | |] eqn:Heqo end; cbv beta iota in H; try contradiction.

  Theorem int_kernel_meets_spec k :
    In k int_spec_kernels ->
    (kernel_uses_b k = true -> length b = dims /\ Forall okv b) ->
    (kernel_writes k = true -> length res = dims) ->
    meets m0 (run_kernel R Mth k dims v m0) (spec_int sg w k v a b).
  Proof.
    intros Hk Hb Hr. unfold int_spec_kernels in Hk. cbn [In] in Hk.
    repeat (destruct Hk as [<-|Hk]); [..|destruct Hk];
      try (destruct (Hb eq_refl) as [Lb Fb]); try (specialize (Hr eq_refl)); cbn [spec_int].
    - (* add vec *)
      pose proof (add_vector_exact w sg R IL a b res dims Ha Hr Hoka Lb Fb) as H. unit_case H.
      cbn [meets ret]. destruct H as [H1 H2]. split; [exact H1|]. rewrite H2.
      apply map2_link; auto. intros; apply (add_link w Hw).
    - pose proof (sub_vector_exact w sg R IL a b res dims Ha Hr Hoka Lb Fb) as H. unit_case H.
      cbn [meets ret]. destruct H as [H1 H2]. split; [exact H1|]. rewrite H2.
      apply map2_link; auto. intros; apply (sub_link w Hw).
    - pose proof (mul_vector_exact w sg R IL IE a b res dims Ha Hr Hoka Lb Fb) as H. unit_case H.
      cbn [meets ret]. destruct H as [H1 H2]. split; [exact H1|]. rewrite H2.
      apply map2_link; auto. intros; apply (mul_link w Hw).
    - (* div vec *)
      pose proof (div_vector_exact w sg R IL IE a b res dims Ha Hr Hoka Lb Fb) as H. unit_case H.
      + cbn [meets ret]. destruct H as (H1 & H2 & H3). split; [exact H1|].
        rewrite firstn_all2 by lia.
        destruct (existsb (Z.eqb 0) b) eqn:Ex; [apply existsb_zero_Exists in Ex; contradiction|].
        apply (seq_div_link w Hw sg a b); assumption.
      + cbn [meets]. split; [|left].
        * pose proof (@kernels_in_bounds Z R Mth KDivVec dims v a b res (il_wf w R IL) Ha (fun _ => Lb) (fun _ => Hr)) as B.
          cbn [run_kernel] in B. unfold bind, Mth in B. fold m0 in B.
          rewrite Heqo in B. exact B.
        * rewrite firstn_all2 by lia. apply existsb_zero_Exists in H. rewrite H. reflexivity.
    - pose proof (add_value_exact w sg R IL IE a b res dims Ha Hr Hoka v Hokv) as H. unit_case H.
      cbn [meets ret]. destruct H as [H1 H2]. split; [exact H1|]. rewrite H2.
      apply map_link; auto. intros; apply (add_link w Hw).
    - pose proof (sub_value_exact w sg R IL IE a b res dims Ha Hr Hoka v Hokv) as H. unit_case H.
      cbn [meets ret]. destruct H as [H1 H2]. split; [exact H1|]. rewrite H2.
      apply map_link; auto. intros; apply (sub_link w Hw).
    - pose proof (mul_value_exact w sg R IL IE a b res dims Ha Hr Hoka v Hokv) as H. unit_case H.
      cbn [meets ret]. destruct H as [H1 H2]. split; [exact H1|]. rewrite H2.
      apply map_link; auto. intros; apply (mul_link w Hw).
    - (* div value *)
      pose proof (div_value_exact w sg R IL IE a b res dims Ha Hr Hoka v Hokv) as H. unit_case H.
      + cbn [meets ret]. destruct H as (H1 & H2 & H3). split; [exact H1|].
        assert (E : (v =? 0) && negb (Nat.eqb (length a) 0) = false).
        { destruct H3 as [Hn|Hd]; [apply Z.eqb_neq in Hn; rewrite Hn; reflexivity|].
          rewrite Ha, Hd. cbn. apply andb_false_r. }
        rewrite E. apply (seq_divv_link w Hw sg a v); assumption.
      + cbn [meets]. split.
        * pose proof (@kernels_in_bounds Z R Mth KDivVal dims v a b res (il_wf w R IL) Ha
                        (fun E => ltac:(discriminate E)) (fun _ => Hr)) as B.
          cbn [run_kernel] in B. unfold bind, Mth in B. fold m0 in B.
          rewrite Heqo in B. exact B.
        * left. destruct H as [-> Hd]. rewrite Ha. cbn [Z.eqb andb].
          destruct (Nat.eqb_spec dims 0); [contradiction|reflexivity].
    - pose proof (max_vertical_exact w sg R IL IE a b res dims Ha Hr Hoka Lb Fb) as H. unit_case H.
      cbn [meets ret]. destruct H as [H1 H2]. split; [exact H1|]. rewrite H2.
      apply map2_link; auto. intros; apply (max_link w Hw); assumption.
    - pose proof (min_vertical_exact w sg R IL IE a b res dims Ha Hr Hoka Lb Fb) as H. unit_case H.
      cbn [meets ret]. destruct H as [H1 H2]. split; [exact H1|]. rewrite H2.
      apply map2_link; auto. intros; apply (min_link w Hw); assumption.
    - pose proof (max_value_exact w sg R IL IE a b res dims Ha Hr Hoka v Hokv) as H. unit_case H.
      cbn [meets ret]. destruct H as [H1 H2]. split; [exact H1|]. rewrite H2.
      apply map_link; auto. intros; apply (max_link w Hw); assumption.
    - pose proof (min_value_exact w sg R IL IE a b res dims Ha Hr Hoka v Hokv) as H. unit_case H.
      cbn [meets ret]. destruct H as [H1 H2]. split; [exact H1|]. rewrite H2.
      apply map_link; auto. intros; apply (min_link w Hw); assumption.
    - (* max horizontal *)
      pose proof (max_horizontal_extreme w Hw sg R IL IE a b res dims Ha Hoka) as H. val_case H.
      cbn [meets ret]. destruct H as (H1 & H2 & H3). split; [exact H1|].
      assert (Okr : okv r).
      { destruct H2 as [<-|H2]; [apply (okv_MIN w Hw sg) | rewrite Forall_forall in Hoka; auto]. }
      rewrite <- (of_val_V w Hw sg r Okr). f_equal.
      apply fold_max_unique.
      + change (V sg w (i_MIN sg w) :: map (V sg w) a) with (map (V sg w) (i_MIN sg w :: a)). apply in_map. exact H2.
      + intros z Hz. change (V sg w (i_MIN sg w) :: map (V sg w) a) with (map (V sg w) (i_MIN sg w :: a)) in Hz.
        apply in_map_iff in Hz. destruct Hz as (y & <- & Hy). apply H3. exact Hy.
    - (* min horizontal *)
      pose proof (min_horizontal_extreme w Hw sg R IL IE a b res dims Ha Hoka) as H. val_case H.
      cbn [meets ret]. destruct H as (H1 & H2 & H3). split; [exact H1|].
      assert (Okr : okv r).
      { destruct H2 as [<-|H2]; [apply (okv_MAX w Hw sg) | rewrite Forall_forall in Hoka; auto]. }
      rewrite <- (of_val_V w Hw sg r Okr). f_equal.
      apply fold_min_unique.
      + change (V sg w (i_MAX sg w) :: map (V sg w) a) with (map (V sg w) (i_MAX sg w :: a)). apply in_map. exact H2.
      + intros z Hz. change (V sg w (i_MAX sg w) :: map (V sg w) a) with (map (V sg w) (i_MAX sg w :: a)) in Hz.
        apply in_map_iff in Hz. destruct Hz as (y & <- & Hy). apply H3. exact Hy.
    - (* sum *)
      pose proof (sum_exact w Hw sg R IL a b res dims Ha Hoka) as H. val_case H.
      cbn [meets ret]. destruct H as (H1 & H2 & H3). split; [exact H1|].
      apply (sum_link w r _ H2). eapply eqm_trans; [exact H3|]. apply eqm_sym. apply (Zsum_V w Hw).
    - (* dot *)
      pose proof (dot_exact w Hw sg R IL a b res dims Ha Hoka Lb Fb) as H. val_case H.
      cbn [meets ret]. destruct H as (H1 & H2 & H3). split; [exact H1|].
      apply (sum_link w r _ H2). eapply eqm_trans; [exact H3|]. apply eqm_sym.
      apply (Zsum_V2 w Hw sg Z.mul Z.mul). intros x y. apply (eqm_mul w Hw); apply (V_eqm w Hw).
    - (* norm *)
      pose proof (norm_exact w Hw sg R IL a b res dims Ha Hoka) as H. val_case H.
      cbn [meets ret]. destruct H as (H1 & H2 & H3). split; [exact H1|].
      apply (sum_link w r _ H2). eapply eqm_trans; [exact H3|]. apply eqm_sym.
      rewrite (map_as_map2 (fun x y => V sg w x * V sg w y)).
      apply (Zsum_V2 w Hw sg Z.mul Z.mul). intros x y. apply (eqm_mul w Hw); apply (V_eqm w Hw).
    - (* euclid *)
      pose proof (euclid_exact w Hw sg R IL a b res dims Ha Hoka Lb Fb) as H. val_case H.
      cbn [meets ret]. destruct H as (H1 & H2 & H3). split; [exact H1|].
      apply (sum_link w r _ H2). eapply eqm_trans; [exact H3|]. apply eqm_sym.
      apply (Zsum_V2 w Hw sg (fun x y => (x - y) * (x - y)) (fun x y => (x - y) * (x - y))).
      intros x y. apply (eqm_mul w Hw); apply (eqm_sub w Hw); apply (V_eqm w Hw).
  Qed.
End Meets.

(* For every row of the export tables with an integer element type and a modelled register. *)
Theorem int_export_meets_spec r t R k a b res v dims :
  int_ops r t = Some R ->
  In k int_spec_kernels ->
  length a = dims -> Forall (in_range (width t)) a -> in_range (width t) v ->
  (kernel_uses_b k = true -> length b = dims /\ Forall (in_range (width t)) b) ->
  (kernel_writes k = true -> length res = dims) ->
  meets (init_mem a b res)
        (run_kernel R (int_math (is_signed t) (width t)) k dims v (init_mem a b res))
        (spec_int (is_signed t) (width t) k v a b).
Proof.
  intros HR Hk Ha Fa Hv Hb Hr. destruct (int_ops_faithful r t R HR) as (IL & IE & Hw).
  apply (int_kernel_meets_spec (width t) Hw (is_signed t) R IL IE a b res v dims Ha Fa Hv k Hk Hb Hr).
Qed.
