(* The loop structure shared by all 19 kernels: exact trip counts of the three phases, the partition of
   [0, dims), and the Hoare rule for [three_phase].  Axiom-free. *)
From Coq Require Import List Arith Bool Lia.
From CF Require Import Base.Mem Model.SimdApi Model.Kernels Proofs.MemProofs.
Import ListNotations.

Section Partition.
  Variables dims Ln : nat.
  Hypothesis HL : 1 <= Ln.

  Definition Dn := Ln * 8.
  Definition qn := dims / Dn.                       (* dense blocks *)
  Definition mn := (dims mod Dn) / Ln.              (* single-register steps *)
  Definition rn := (dims mod Dn) mod Ln.            (* scalar tail *)

  Lemma Dn_pos : 1 <= Dn. Proof. unfold Dn. lia. Qed.

  Lemma dense_bound : dims - dims mod Dn = 0 + qn * Dn.
  Proof.
    unfold qn. pose proof Dn_pos. pose proof (Nat.div_mod dims Dn ltac:(lia)). lia.
  Qed.

  Lemma lane_bound : dims - (dims mod Dn) mod Ln = qn * Dn + mn * Ln.
  Proof.
    unfold qn, mn. pose proof Dn_pos.
    pose proof (Nat.div_mod dims Dn ltac:(lia)).
    pose proof (Nat.div_mod (dims mod Dn) Ln ltac:(lia)). lia.
  Qed.

  Lemma tail_bound : dims = (qn * Dn + mn * Ln) + rn * 1.
  Proof.
    unfold qn, mn, rn. pose proof Dn_pos.
    pose proof (Nat.div_mod dims Dn ltac:(lia)).
    pose proof (Nat.div_mod (dims mod Dn) Ln ltac:(lia)). lia.
  Qed.

  (* the three ranges partition [0, dims) *)
  Lemma partition : qn * Dn + mn * Ln + rn = dims /\ mn < 8 /\ rn < Ln.
  Proof.
    pose proof tail_bound. split; [lia|]. unfold mn, rn. split.
    - apply Nat.div_lt_upper_bound; [lia|]. pose proof (Nat.mod_upper_bound dims Dn). unfold Dn in *. lia.
    - apply Nat.mod_upper_bound. lia.
  Qed.

  Lemma qn_le : qn <= dims.
  Proof. pose proof tail_bound. pose proof Dn_pos. nia. Qed.
  Lemma mn_le : mn <= dims.
  Proof. pose proof tail_bound. nia. Qed.
  Lemma rn_le : rn <= dims.
  Proof. pose proof tail_bound. lia. Qed.

  Lemma dense_in k : k < qn -> k * Dn + Ln * 8 <= dims.
  Proof. intros Hk. pose proof tail_bound. unfold Dn in *. nia. Qed.
  Lemma lane_in k : k < mn -> qn * Dn + k * Ln + Ln <= dims.
  Proof. intros Hk. pose proof tail_bound. nia. Qed.
End Partition.

Section Rule.
  Context {T : Type}.
  Variable R : SimdOps T.
  Hypothesis HL : 1 <= lanes R.

  Lemma three_phase_rule {S1 S2 S3 : Type} (dims : nat)
        (I1 : nat -> S1 -> mem T -> Prop) (I2 : nat -> S2 -> mem T -> Prop) (I3 : nat -> S3 -> mem T -> Prop)
        (PI : mem T -> Prop)
        init dense_step roll lane_step tovalue scalar_step :
    let Ln := lanes R in
    let D := Dn Ln in let q := qn dims Ln in let mm := mn dims Ln in
    (forall k s, k < q -> triple (I1 (k * D) s) (dense_step (k * D) s) (fun s' => I1 (S k * D) s') PI) ->
    (forall s m, I1 (q * D) s m -> I2 (q * D) (roll s) m) ->
    (forall k s, k < mm ->
        triple (I2 (q * D + k * Ln) s) (lane_step (q * D + k * Ln) s) (fun s' => I2 (q * D + S k * Ln) s') PI) ->
    (forall s m, I2 (q * D + mm * Ln) s m -> I3 (q * D + mm * Ln) (tovalue s) m) ->
    (forall i s, q * D + mm * Ln <= i < dims -> triple (I3 i s) (scalar_step i s) (fun s' => I3 (S i) s') PI) ->
    triple (I1 0 init)
           (three_phase R dims init dense_step roll lane_step tovalue scalar_step)
           (fun s m => I3 dims s m) PI.
  Proof.
    intros Ln D q mm H1 Hr H2 Hv H3.
    unfold three_phase. fold Ln.
    assert (ED : elements_per_dense R = D) by reflexivity. rewrite ED.
    unfold L. fold Ln.
    pose proof (dense_bound dims Ln HL) as E1. fold D q in E1.
    pose proof (lane_bound dims Ln HL) as E2. fold D q mm in E2.
    rewrite E1.
    eapply triple_bind.
    { apply (while_lt_rule I1 PI D dense_step (Dn_pos Ln HL) q 0 (S dims) init).
      - pose proof (qn_le dims Ln HL). unfold q. lia.
      - intros k s Hk. cbn [Nat.add]. apply H1. exact Hk. }
    intros [i s1]. cbn beta iota.
    eapply triple_conseq with
        (P' := fun m => i = q * D /\ I2 (q * D) (roll s1) m)
        (Q' := fun s m => I3 dims s m); [| | auto].
    2:{ intros m [Hi Hm]. cbn [fst snd] in *. split; [lia|]. apply Hr. rewrite Hi in Hm.
        replace (q * D) with (0 + q * D) by lia. exact Hm. }
    intros m [Hi Hm]. subst i. revert m Hm.
    change (triple (I2 (q * D) (roll s1))
                   (bind (while_lt (S dims) (q * D) (dims - (dims mod D) mod Ln) Ln lane_step (roll s1))
                         (fun x => let '(i, s2) := x in
                                   bind (while_lt (S dims) i dims 1 scalar_step (tovalue s2))
                                        (fun x0 => let '(_, s3) := x0 in ret s3)))
                   (fun s m => I3 dims s m) PI).
    rewrite E2.
    eapply triple_bind.
    { apply (while_lt_rule (fun i s m => I2 i s m) PI Ln lane_step HL mm (q * D) (S dims) (roll s1)).
      - pose proof (mn_le dims Ln HL). unfold mm. lia.
      - intros k s Hk. apply H2. exact Hk. }
    intros [i s2]. cbn beta iota.
    intros m [Hi Hm]. cbn [fst snd] in *. subst i. revert m Hm.
    change (triple (I2 (q * D + mm * Ln) s2)
                   (bind (while_lt (S dims) (q * D + mm * Ln) dims 1 scalar_step (tovalue s2))
                         (fun x0 => let '(_, s3) := x0 in ret s3))
                   (fun s m => I3 dims s m) PI).
    eapply triple_conseq with (P' := I3 (q * D + mm * Ln) (tovalue s2)) (Q' := fun s m => I3 dims s m);
      [| apply Hv | auto].
    pose proof (tail_bound dims Ln HL) as HT. fold D q mm in HT.
    set (r := rn dims Ln) in *.
    eapply triple_bind.
    { rewrite HT at 2.
      apply (while_lt_rule (fun i s m => I3 i s m) PI 1 scalar_step (le_n 1) r (q * D + mm * Ln) (S dims) (tovalue s2)).
      - pose proof (rn_le dims Ln HL). unfold r. lia.
      - intros k s Hk. rewrite !Nat.mul_1_r.
        replace (q * D + mm * Ln + S k) with (S (q * D + mm * Ln + k)) by lia.
        apply H3. lia. }
    intros [i s3]. cbn beta iota. apply triple_ret.
    intros m [Hi Hm]. cbn [fst snd] in *. subst i. rewrite <- HT in Hm. exact Hm.
  Qed.
End Rule.
